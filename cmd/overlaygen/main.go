// overlaygen builds a `go build -overlay` JSON from /repo's CURRENT files.
//
//	overlaygen [-base base.json] <spec-file|-> <outdir>   > overlay.json
//
// Spec lines (repo-relative paths; '#' comments):
//
//	rewrite-import <file> <import-path> <new-import-path> [alias]   replace one import (AST rewrite)
//	set-const <file> <Name> <value>                                 replace the value of a const/var declaration
//	const-to-var <file> <Name>                                      turn the single-name declaration `const Name = v` into `var Name = v`
//	add-file <repo-rel-dest> <verif-rel-src>                        add a file (or virtual package) to the tree
//
// -base is an existing overlay (e.g. produced from patches by scripts/patch_overlay.sh) whose
// replacements are used as the input text of rewritten files and are carried over to the output.
package main

import (
	"bufio"
	"bytes"
	"encoding/json"
	"flag"
	"fmt"
	"go/ast"
	"go/format"
	"go/parser"
	"go/token"
	"os"
	"path/filepath"
	"strconv"
	"strings"
)

const repo = "/repo"

type overlay struct {
	Replace map[string]string
}

func die(f string, a ...any) { fmt.Fprintf(os.Stderr, "overlaygen: "+f+"\n", a...); os.Exit(2) }

func main() {
	base := flag.String("base", "", "base overlay json")
	flag.Parse()
	if flag.NArg() != 2 {
		die("usage: overlaygen [-base b.json] spec outdir")
	}
	out := overlay{Replace: map[string]string{}}
	if *base != "" {
		b, err := os.ReadFile(*base)
		if err != nil {
			die("%v", err)
		}
		if err := json.Unmarshal(b, &out); err != nil {
			die("base: %v", err)
		}
	}
	outdir, _ := filepath.Abs(flag.Arg(1))
	os.MkdirAll(outdir, 0o755)
	texts := map[string][]byte{} // repo-rel -> current text (after earlier spec lines)
	read := func(rel string) []byte {
		if t, ok := texts[rel]; ok {
			return t
		}
		p := filepath.Join(repo, rel)
		if r, ok := out.Replace[p]; ok {
			p = r
		}
		b, err := os.ReadFile(p)
		if err != nil {
			die("%v", err)
		}
		return b
	}
	if flag.Arg(0) != "-" {
		f, err := os.Open(flag.Arg(0))
		if err != nil {
			die("%v", err)
		}
		sc := bufio.NewScanner(f)
		for sc.Scan() {
			line := strings.TrimSpace(sc.Text())
			if line == "" || line[0] == '#' {
				continue
			}
			fs := strings.Fields(line)
			switch fs[0] {
			case "rewrite-import":
				if len(fs) < 4 {
					die("bad line: %s", line)
				}
				alias := ""
				if len(fs) > 4 {
					alias = fs[4]
				}
				texts[fs[1]] = rewriteImport(fs[1], read(fs[1]), fs[2], fs[3], alias)
			case "set-const":
				if len(fs) != 4 {
					die("bad line: %s", line)
				}
				texts[fs[1]] = setConst(fs[1], read(fs[1]), fs[2], fs[3])
			case "const-to-var":
				if len(fs) != 3 {
					die("bad line: %s", line)
				}
				texts[fs[1]] = constToVar(fs[1], read(fs[1]), fs[2])
			case "add-file":
				if len(fs) != 3 {
					die("bad line: %s", line)
				}
				src, _ := filepath.Abs(fs[2])
				out.Replace[filepath.Join(repo, fs[1])] = src
			default:
				die("unknown directive: %s", line)
			}
		}
	}
	for rel, t := range texts {
		dst := filepath.Join(outdir, rel)
		os.MkdirAll(filepath.Dir(dst), 0o755)
		if old, err := os.ReadFile(dst); err != nil || !bytes.Equal(old, t) {
			if err := os.WriteFile(dst, t, 0o644); err != nil {
				die("%v", err)
			}
		}
		out.Replace[filepath.Join(repo, rel)] = dst
	}
	b, _ := json.MarshalIndent(out, "", " ")
	fmt.Println(string(b))
}

func rewriteImport(name string, src []byte, from, to, alias string) []byte {
	fset := token.NewFileSet()
	f, err := parser.ParseFile(fset, name, src, parser.ParseComments)
	if err != nil {
		die("parse %s: %v", name, err)
	}
	n := 0
	for _, im := range f.Imports {
		p, _ := strconv.Unquote(im.Path.Value)
		if p == from {
			im.Path.Value = strconv.Quote(to)
			if im.Name == nil {
				a := alias
				if a == "" {
					a = filepath.Base(from)
				}
				im.Name = ast.NewIdent(a)
			}
			n++
		}
	}
	if n == 0 {
		die("%s does not import %q (hook target moved?)", name, from)
	}
	var buf bytes.Buffer
	if err := format.Node(&buf, fset, f); err != nil {
		die("format %s: %v", name, err)
	}
	return buf.Bytes()
}

// constToVar makes a tuning constant settable by a harness (small-scope exploration of code paths that
// only a large population would reach); the declaration must be `const Name = value` on its own.
func constToVar(name string, src []byte, cname string) []byte {
	fset := token.NewFileSet()
	f, err := parser.ParseFile(fset, name, src, parser.ParseComments)
	if err != nil {
		die("parse %s: %v", name, err)
	}
	n := 0
	for _, d := range f.Decls {
		gd, ok := d.(*ast.GenDecl)
		if !ok || gd.Tok != token.CONST || len(gd.Specs) != 1 {
			continue
		}
		vs := gd.Specs[0].(*ast.ValueSpec)
		if len(vs.Names) == 1 && vs.Names[0].Name == cname {
			gd.Tok = token.VAR
			n++
		}
	}
	if n != 1 {
		die("%s: stand-alone const %s not found", name, cname)
	}
	var buf bytes.Buffer
	if err := format.Node(&buf, fset, f); err != nil {
		die("format %s: %v", name, err)
	}
	return buf.Bytes()
}

func setConst(name string, src []byte, cname, val string) []byte {
	fset := token.NewFileSet()
	f, err := parser.ParseFile(fset, name, src, parser.ParseComments)
	if err != nil {
		die("parse %s: %v", name, err)
	}
	n := 0
	ast.Inspect(f, func(nd ast.Node) bool {
		vs, ok := nd.(*ast.ValueSpec)
		if !ok {
			return true
		}
		for i, id := range vs.Names {
			if id.Name == cname && i < len(vs.Values) {
				vs.Values[i] = ast.NewIdent(val)
				n++
			}
		}
		return true
	})
	if n == 0 {
		die("%s: const %s not found", name, cname)
	}
	var buf bytes.Buffer
	if err := format.Node(&buf, fset, f); err != nil {
		die("format %s: %v", name, err)
	}
	return buf.Bytes()
}
