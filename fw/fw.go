// Package fw is the shared run-time of every check: tier/seed parsing, violation
// classification against known_findings.json, replay artefacts, evidence files
// and the exit-code contract (0 held, 1 violation, 2 harness error).
package fw

import (
	"crypto/sha256"
	"encoding/hex"
	"encoding/json"
	"fmt"
	"os"
	"path/filepath"
	"runtime"
	"runtime/pprof"
	"sort"
	"strconv"
	"strings"
	"sync"
	"time"
)

// Root is /verif (overridable for tests of the framework itself).
var Root = func() string {
	if r := os.Getenv("VERIF_ROOT"); r != "" {
		return r
	}
	return "/verif"
}()

type Finding struct {
	Property  string `json:"property"`
	Status    string `json:"status"` // "open" | "fixed"
	Signature string `json:"signature"`
	What      string `json:"what"`
	Commit    string `json:"commit,omitempty"`
}

type violation struct {
	Sig    string
	What   string
	Replay string
}

type Run struct {
	ID    string
	Tier  string
	Seed  int64
	Level string
	start time.Time

	mu         sync.Mutex
	findings   []Finding
	known      map[string]string // sig -> what (open findings hit in this run)
	knownCount map[string]int
	viols      []violation
	violSigs   map[string]bool
	Deadline   time.Time // internal budget; checks poll Expired()
	capped     []string
	notes      []string
	pprofStop  func()
}

// Start parses the environment (VERIF_TIER, VERIF_SEED) and arguments ("quick"/"thorough").
func Start(id, level string) *Run {
	r := &Run{ID: id, Level: level, Tier: "quick", start: time.Now(),
		known: map[string]string{}, knownCount: map[string]int{}, violSigs: map[string]bool{}}
	if t := os.Getenv("VERIF_TIER"); t == "thorough" || t == "quick" {
		r.Tier = t
	}
	for _, a := range os.Args[1:] {
		if a == "quick" || a == "thorough" {
			r.Tier = a
		}
	}
	if s := os.Getenv("VERIF_SEED"); s != "" {
		if v, err := strconv.ParseInt(s, 10, 64); err == nil {
			r.Seed = v
		}
	}
	// known findings: the committed merged file plus the per-check fragment it is generated from.
	for _, p := range []string{filepath.Join(Root, "known_findings.json"), filepath.Join(Root, "checks", strings.ToLower(id), "findings.json")} {
		b, err := os.ReadFile(p)
		if err != nil {
			continue
		}
		var fs []Finding
		if err := json.Unmarshal(b, &fs); err != nil {
			Fatalf("%s: %v", p, err)
		}
	next:
		for _, f := range fs {
			for _, g := range r.findings {
				if g.Property == f.Property && g.Signature == f.Signature {
					continue next
				}
			}
			r.findings = append(r.findings, f)
		}
	}
	budget := 8 * time.Minute
	if r.Tier == "thorough" {
		budget = 45 * time.Minute
	}
	if s := os.Getenv("VERIF_BUDGET_S"); s != "" {
		if v, err := strconv.Atoi(s); err == nil {
			budget = time.Duration(v) * time.Second
		}
	}
	r.Deadline = r.start.Add(budget)
	if pp := os.Getenv("VERIF_PPROF"); pp != "" { // developer aid: CPU + block profiles
		if f, err := os.Create(pp + ".cpu"); err == nil {
			pprof.StartCPUProfile(f)
			runtime.SetBlockProfileRate(10000)
			runtime.SetMutexProfileFraction(5)
			r.pprofStop = func() {
				pprof.StopCPUProfile()
				f.Close()
				if b, err := os.Create(pp + ".block"); err == nil {
					pprof.Lookup("block").WriteTo(b, 0)
					b.Close()
				}
				if b, err := os.Create(pp + ".mutex"); err == nil {
					pprof.Lookup("mutex").WriteTo(b, 0)
					b.Close()
				}
			}
		}
	}
	return r
}

func (r *Run) Quick() bool    { return r.Tier == "quick" }
func (r *Run) Thorough() bool { return r.Tier == "thorough" }

// Expired reports whether the internal budget has been used up; a check that stops
// because of it must call Capped so that evidence says exhaustive:false.
func (r *Run) Expired() bool { return time.Now().After(r.Deadline) }

func (r *Run) Capped(what string) {
	r.mu.Lock()
	defer r.mu.Unlock()
	for _, c := range r.capped {
		if c == what {
			return
		}
	}
	r.capped = append(r.capped, what)
}

func (r *Run) Note(format string, a ...any) {
	r.mu.Lock()
	defer r.mu.Unlock()
	r.notes = append(r.notes, fmt.Sprintf(format, a...))
}

// Fatalf is a harness error: never a verdict about the property.
func Fatalf(format string, a ...any) {
	fmt.Fprintf(os.Stderr, "HARNESS-ERROR: "+format+"\n", a...)
	os.Exit(2)
}

// Violation records a failure with a classifier signature. If the signature (or a
// prefix pattern ending in '*') is listed as an open finding for this property it is
// a KNOWN-FINDING; otherwise it is a VIOLATION with a replay artefact.
func (r *Run) Violation(sig, what string, replay any) {
	r.mu.Lock()
	defer r.mu.Unlock()
	for _, f := range r.findings {
		if f.Property != r.ID || f.Status != "open" {
			continue
		}
		if f.Signature == sig || (strings.HasSuffix(f.Signature, "*") && strings.HasPrefix(sig, strings.TrimSuffix(f.Signature, "*"))) {
			r.known[f.Signature] = f.What
			r.knownCount[f.Signature]++
			return
		}
	}
	if r.violSigs[sig] && len(r.viols) >= 5 {
		return
	}
	if len(r.viols) >= 40 {
		return
	}
	r.violSigs[sig] = true
	body, _ := json.MarshalIndent(map[string]any{"property": r.ID, "signature": sig, "what": what, "replay": replay}, "", " ")
	h := sha256.Sum256(body)
	dir := filepath.Join(Root, "replays")
	os.MkdirAll(dir, 0o755)
	p := filepath.Join(dir, r.ID+"-"+hex.EncodeToString(h[:6])+".json")
	os.WriteFile(p, body, 0o644)
	r.viols = append(r.viols, violation{sig, what, p})
}

func (r *Run) Violations() int {
	r.mu.Lock()
	defer r.mu.Unlock()
	return len(r.viols)
}

// Coverage mirrors EVIDENCE.schema.json's coverage object.
type Coverage struct {
	Evaluations     int64            `json:"evaluations"`
	DistinctNontriv int64            `json:"distinct_nontrivial"`
	Rule            string           `json:"rule"`
	Samples         []any            `json:"samples"`
	States          int64            `json:"states,omitempty"`
	Transitions     int64            `json:"transitions,omitempty"`
	TracesValidated int64            `json:"traces_validated_against_impl,omitempty"`
	Exhaustive      bool             `json:"exhaustive"`
	Outcomes        map[string]int64 `json:"distinct_outcomes,omitempty"`
	Bounds          map[string]any   `json:"bounds,omitempty"`
	Extra           map[string]any   `json:"extra,omitempty"`
}

// Finish writes evidence/<id>.json, prints the verdict lines and exits.
func (r *Run) Finish(cov Coverage, assumptions []string) {
	r.mu.Lock()
	defer r.mu.Unlock()
	if r.pprofStop != nil {
		r.pprofStop()
	}
	if len(r.capped) > 0 {
		cov.Exhaustive = false
	}
	if cov.Samples == nil {
		cov.Samples = []any{}
	}
	// vacuity self-check: many executions but a single outcome means nothing collided.
	if cov.Outcomes != nil && len(cov.Outcomes) < 2 && cov.Evaluations > 10 && len(r.viols) == 0 && len(r.known) == 0 {
		Fatalf("%s: vacuous exploration: %d evaluations, %d distinct outcomes", r.ID, cov.Evaluations, len(cov.Outcomes))
	}
	covm := map[string]any{}
	b, _ := json.Marshal(cov)
	json.Unmarshal(b, &covm)
	if cov.Extra != nil {
		delete(covm, "extra")
		for k, v := range cov.Extra {
			covm[k] = v
		}
	}
	if len(r.capped) > 0 {
		covm["caps_hit"] = r.capped
	}
	if len(r.notes) > 0 {
		covm["notes"] = r.notes
	}
	if len(r.known) > 0 {
		kf := map[string]int{}
		for k, v := range r.knownCount {
			kf[k] = v
		}
		covm["known_findings_hit"] = kf
	}
	ev := map[string]any{
		"property_id": r.ID, "tier": r.Tier, "seed": r.Seed, "level": r.Level,
		"coverage": covm, "assumptions": assumptions,
		"wall_s": float64(int(time.Since(r.start).Seconds()*100)) / 100, "violations": len(r.viols),
	}
	out, _ := json.MarshalIndent(ev, "", " ")
	os.MkdirAll(filepath.Join(Root, "evidence"), 0o755)
	if err := os.WriteFile(filepath.Join(Root, "evidence", r.ID+".json"), append(out, '\n'), 0o644); err != nil {
		Fatalf("write evidence: %v", err)
	}
	sigs := make([]string, 0, len(r.known))
	for s := range r.known {
		sigs = append(sigs, s)
	}
	sort.Strings(sigs)
	for _, s := range sigs {
		fmt.Printf("KNOWN-FINDING: property=%s %s [%s] (%d occurrences)\n", r.ID, r.known[s], s, r.knownCount[s])
	}
	for _, v := range r.viols {
		fmt.Printf("VIOLATION property=%s replay=%s\n", r.ID, v.Replay)
		fmt.Printf("  signature=%s: %s\n", v.Sig, v.What)
	}
	fmt.Printf("%s %s: evaluations=%d distinct=%d states=%d transitions=%d exhaustive=%v violations=%d known=%d wall=%.1fs\n",
		r.ID, r.Tier, cov.Evaluations, cov.DistinctNontriv, cov.States, cov.Transitions, cov.Exhaustive, len(r.viols), len(r.known), time.Since(r.start).Seconds())
	if len(r.viols) > 0 {
		os.Exit(1)
	}
	os.Exit(0)
}

// Sampler keeps the first n and then a sparse selection of cases for the evidence file.
type Sampler struct {
	mu   sync.Mutex
	n    int
	seen int64
	out  []any
}

func NewSampler(n int) *Sampler { return &Sampler{n: n} }
func (s *Sampler) Add(v any) {
	s.mu.Lock()
	defer s.mu.Unlock()
	s.seen++
	if len(s.out) < s.n/2 {
		s.out = append(s.out, v)
		return
	}
	// keep power-of-two-th cases afterwards so late cases are represented too
	if s.seen&(s.seen-1) == 0 && len(s.out) < s.n {
		s.out = append(s.out, v)
	}
}
func (s *Sampler) List() []any {
	s.mu.Lock()
	defer s.mu.Unlock()
	return s.out
}

// Counter is a concurrency-safe histogram of outcome classes.
type Counter struct {
	mu sync.Mutex
	m  map[string]int64
}

func NewCounter() *Counter { return &Counter{m: map[string]int64{}} }
func (c *Counter) Inc(k string) {
	c.mu.Lock()
	c.m[k]++
	c.mu.Unlock()
}
func (c *Counter) AddN(k string, n int64) {
	c.mu.Lock()
	c.m[k] += n
	c.mu.Unlock()
}
func (c *Counter) Map() map[string]int64 {
	c.mu.Lock()
	defer c.mu.Unlock()
	o := make(map[string]int64, len(c.m))
	for k, v := range c.m {
		o[k] = v
	}
	return o
}
func (c *Counter) Len() int { c.mu.Lock(); defer c.mu.Unlock(); return len(c.m) }

// Parallel runs fn(i) for i in [0,n) on w goroutines.
func Parallel(n, w int, fn func(i int)) {
	if w < 1 {
		w = 1
	}
	var wg sync.WaitGroup
	ch := make(chan int, 64)
	for k := 0; k < w; k++ {
		wg.Add(1)
		go func() {
			defer wg.Done()
			for i := range ch {
				fn(i)
			}
		}()
	}
	for i := 0; i < n; i++ {
		ch <- i
	}
	close(ch)
	wg.Wait()
}
