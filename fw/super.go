package fw

import (
	"bufio"
	"bytes"
	"fmt"
	"io"
	"os"
	"os/exec"
	"runtime"
	"strconv"
	"strings"
	"sync"
	"syscall"
	"time"
)

// Supervised child workers. A check whose cases may crash the process (SIGSEGV in
// generated code, fatal OOM, hang) runs them in re-exec'd copies of itself:
//
//	if fw.IsChild() { fw.ChildLoop(func(i int) string { ... }); return }
//	fw.Supervise(fw.SupOpts{N: n, ...}, func(i int, res string, crash *Crash) { ... })
//
// The child prints "B i" before case i and "R i <one-line result>" after it, so a crash
// or a watchdog expiry is attributed to exactly one case; the supervisor restarts the
// worker after that case.

type Crash struct {
	Kind   string // "crash" | "timeout"
	Stderr string // tail
}

type SupOpts struct {
	N           int           // cases are 0..N-1
	Workers     int           // processes
	CaseTimeout time.Duration // watchdog per case
	UlimitVKB   int64         // address-space limit for the child (0 = none)
	Env         []string      // extra environment
	Mode        string        // passed to the child as VERIF_CHILD_MODE
	Stop        func() bool   // polled between cases by the supervisor; true = stop feeding (budget)
	Deadline    time.Time     // if set, children stop taking new cases after it (Supervise then returns < N)
}

func IsChild() bool     { return os.Getenv("VERIF_CHILD") == "1" }
func ChildMode() string { return os.Getenv("VERIF_CHILD_MODE") }

// ChildLoop runs cases start, start+stride, ... < n.
func ChildLoop(fn func(i int) string) {
	start, _ := strconv.Atoi(os.Getenv("VERIF_CHILD_START"))
	stride, _ := strconv.Atoi(os.Getenv("VERIF_CHILD_STRIDE"))
	n, _ := strconv.Atoi(os.Getenv("VERIF_CHILD_N"))
	if stride < 1 {
		stride = 1
	}
	w := bufio.NewWriterSize(os.Stdout, 1<<16)
	var deadline time.Time
	if d, err := strconv.ParseInt(os.Getenv("VERIF_CHILD_DEADLINE"), 10, 64); err == nil && d > 0 {
		deadline = time.Unix(0, d)
	}
	for i := start; i < n; i += stride {
		if !deadline.IsZero() && time.Now().After(deadline) {
			break // budget used up: the supervisor sees fewer completed cases than N
		}
		fmt.Fprintf(w, "B %d\n", i)
		w.Flush()
		res := fn(i)
		res = strings.ReplaceAll(res, "\n", "\\n")
		fmt.Fprintf(w, "R %d %s\n", i, res)
		w.Flush()
	}
	fmt.Fprintf(w, "E\n")
	w.Flush()
	os.Exit(0)
}

type tailBuf struct {
	mu sync.Mutex
	b  []byte
}

func (t *tailBuf) Write(p []byte) (int, error) {
	t.mu.Lock()
	defer t.mu.Unlock()
	t.b = append(t.b, p...)
	if len(t.b) > 6000 {
		// keep head (panic message) and tail
		t.b = append(append([]byte{}, t.b[:3000]...), t.b[len(t.b)-2500:]...)
	}
	return len(p), nil
}
func (t *tailBuf) String() string { t.mu.Lock(); defer t.mu.Unlock(); return string(t.b) }

// Supervise runs all cases; cb is called (serialised) once per case, in no particular order.
// It returns the number of cases completed (== N unless Stop fired).
func Supervise(o SupOpts, cb func(i int, res string, crash *Crash)) int {
	if o.Workers < 1 {
		o.Workers = 1
	}
	if o.CaseTimeout == 0 {
		o.CaseTimeout = 60 * time.Second
	}
	var cbmu sync.Mutex
	done := 0
	var wg sync.WaitGroup
	self, err := os.Executable()
	if err != nil {
		Fatalf("os.Executable: %v", err)
	}
	for w := 0; w < o.Workers; w++ {
		wg.Add(1)
		go func(w int) {
			defer wg.Done()
			// Pdeathsig is delivered when the creating *thread* exits, so pin this goroutine to its thread.
			runtime.LockOSThread()
			defer runtime.UnlockOSThread()
			next := w
		restart:
			for next < o.N {
				if o.Stop != nil && o.Stop() {
					return
				}
				var cmd *exec.Cmd
				if o.UlimitVKB > 0 {
					cmd = exec.Command("/bin/sh", "-c", fmt.Sprintf("ulimit -v %d; exec \"$0\" \"$@\"", o.UlimitVKB), self)
					cmd.Args = append(cmd.Args, os.Args[1:]...)
				} else {
					cmd = exec.Command(self, os.Args[1:]...)
				}
				cmd.Env = append(os.Environ(), "VERIF_CHILD=1", "VERIF_CHILD_MODE="+o.Mode,
					"VERIF_CHILD_START="+strconv.Itoa(next), "VERIF_CHILD_STRIDE="+strconv.Itoa(o.Workers), "VERIF_CHILD_N="+strconv.Itoa(o.N))
				cmd.Env = append(cmd.Env, o.Env...)
				if !o.Deadline.IsZero() {
					cmd.Env = append(cmd.Env, "VERIF_CHILD_DEADLINE="+strconv.FormatInt(o.Deadline.UnixNano(), 10))
				}
				cmd.SysProcAttr = &syscall.SysProcAttr{Pdeathsig: syscall.SIGKILL} // no orphans if the supervisor dies
				stderr := &tailBuf{}
				cmd.Stderr = stderr
				stdout, err := cmd.StdoutPipe()
				if err != nil {
					Fatalf("pipe: %v", err)
				}
				if err := cmd.Start(); err != nil {
					Fatalf("start child: %v", err)
				}
				lines := make(chan string, 256)
				go func() {
					rd := bufio.NewReaderSize(stdout, 1<<20)
					for {
						l, err := rd.ReadString('\n')
						if len(l) > 0 && l[len(l)-1] == '\n' {
							lines <- l[:len(l)-1]
						}
						if err != nil {
							close(lines)
							return
						}
					}
				}()
				cur := -1
				finished := false
				timer := time.NewTimer(o.CaseTimeout)
			loop:
				for {
					select {
					case l, ok := <-lines:
						if !ok {
							break loop
						}
						switch {
						case strings.HasPrefix(l, "B "):
							cur, _ = strconv.Atoi(l[2:])
							if !timer.Stop() {
								select {
								case <-timer.C:
								default:
								}
							}
							timer.Reset(o.CaseTimeout)
						case strings.HasPrefix(l, "R "):
							rest := l[2:]
							sp := strings.IndexByte(rest, ' ')
							idx, res := 0, ""
							if sp < 0 {
								idx, _ = strconv.Atoi(rest)
							} else {
								idx, _ = strconv.Atoi(rest[:sp])
								res = strings.ReplaceAll(rest[sp+1:], "\\n", "\n")
							}
							cbmu.Lock()
							cb(idx, res, nil)
							done++
							cbmu.Unlock()
							next = idx + o.Workers
							cur = -1
						case l == "E":
							finished = true
						}
					case <-timer.C:
						cmd.Process.Kill()
						for range lines {
						}
						cmd.Wait()
						if cur >= 0 {
							cbmu.Lock()
							cb(cur, "", &Crash{Kind: "timeout", Stderr: stderr.String()})
							done++
							cbmu.Unlock()
							next = cur + o.Workers
						} else {
							Fatalf("child idle timeout without a case in flight: %s", stderr.String())
						}
						continue restart
					}
				}
				timer.Stop()
				io.Copy(io.Discard, stdout)
				werr := cmd.Wait()
				if finished {
					return
				}
				if cur >= 0 {
					cbmu.Lock()
					cb(cur, "", &Crash{Kind: "crash", Stderr: fmt.Sprintf("%v\n%s", werr, stderr.String())})
					done++
					cbmu.Unlock()
					next = cur + o.Workers
					continue
				}
				Fatalf("child exited (%v) outside a case: %s", werr, stderr.String())
			}
		}(w)
	}
	wg.Wait()
	return done
}

// FirstLine returns a compact one-line signature of a crash log.
func FirstLines(s string, n int) string {
	var out []string
	for _, l := range bytes.Split([]byte(s), []byte("\n")) {
		t := strings.TrimSpace(string(l))
		if t == "" {
			continue
		}
		out = append(out, t)
		if len(out) >= n {
			break
		}
	}
	return strings.Join(out, " | ")
}
