package fw

import (
	"fmt"
	"reflect"
	"sort"
	"strings"
	"unsafe"
)

// DeepSnap renders a canonical, deep structural snapshot of v (unexported fields included):
// slices by content up to len, maps by sorted content, pointers into packages whose path
// starts with followPrefix are followed (cycle-guarded), every other pointer, func, chan
// is rendered by identity. Used for "value unchanged" invariants.
func DeepSnap(v any, followPrefix string, identityTypes ...string) string {
	var sb strings.Builder
	s := &snapper{sb: &sb, follow: followPrefix, seen: map[unsafe.Pointer]bool{}, ident: identityTypes}
	rv := reflect.ValueOf(v)
	s.walk(rv, 0)
	return sb.String()
}

type snapper struct {
	sb     *strings.Builder
	follow string
	seen   map[unsafe.Pointer]bool
	ident  []string
}

func (s *snapper) walk(v reflect.Value, d int) {
	if d > 12 {
		s.sb.WriteString("<deep>")
		return
	}
	if !v.IsValid() {
		s.sb.WriteString("<nil>")
		return
	}
	switch v.Kind() {
	case reflect.Bool:
		fmt.Fprintf(s.sb, "%v", v.Bool())
	case reflect.Int, reflect.Int8, reflect.Int16, reflect.Int32, reflect.Int64:
		fmt.Fprintf(s.sb, "%d", v.Int())
	case reflect.Uint, reflect.Uint8, reflect.Uint16, reflect.Uint32, reflect.Uint64, reflect.Uintptr:
		fmt.Fprintf(s.sb, "%d", v.Uint())
	case reflect.Float32, reflect.Float64:
		fmt.Fprintf(s.sb, "%v", v.Float())
	case reflect.String:
		fmt.Fprintf(s.sb, "%q", v.String())
	case reflect.Func, reflect.Chan, reflect.UnsafePointer:
		if v.IsNil() {
			s.sb.WriteString("nil")
		} else {
			fmt.Fprintf(s.sb, "@%x", v.Pointer())
		}
	case reflect.Interface:
		if v.IsNil() {
			s.sb.WriteString("nil")
			return
		}
		e := v.Elem()
		fmt.Fprintf(s.sb, "(%s)", e.Type().String())
		s.walk(e, d+1)
	case reflect.Ptr:
		if v.IsNil() {
			s.sb.WriteString("nil")
			return
		}
		p := unsafe.Pointer(v.Pointer())
		et := v.Type().Elem()
		byIdent := false
		for _, it := range s.ident {
			if et.String() == it {
				byIdent = true
			}
		}
		if byIdent || !strings.HasPrefix(et.PkgPath(), s.follow) || s.follow == "" {
			fmt.Fprintf(s.sb, "@%x", v.Pointer())
			return
		}
		if s.seen[p] {
			fmt.Fprintf(s.sb, "@cycle")
			return
		}
		s.seen[p] = true
		s.sb.WriteString("&")
		s.walk(v.Elem(), d+1)
		delete(s.seen, p)
	case reflect.Slice:
		if v.IsNil() {
			s.sb.WriteString("nil[]")
			return
		}
		if v.Type().Elem().Kind() == reflect.Uint8 {
			b := make([]byte, v.Len())
			for i := range b {
				b[i] = byte(v.Index(i).Uint())
			}
			fmt.Fprintf(s.sb, "%q", b)
			return
		}
		s.sb.WriteString("[")
		for i := 0; i < v.Len(); i++ {
			if i > 0 {
				s.sb.WriteString(",")
			}
			s.walk(v.Index(i), d+1)
		}
		s.sb.WriteString("]")
	case reflect.Array:
		s.sb.WriteString("[")
		for i := 0; i < v.Len(); i++ {
			if i > 0 {
				s.sb.WriteString(",")
			}
			s.walk(v.Index(i), d+1)
		}
		s.sb.WriteString("]")
	case reflect.Map:
		if v.IsNil() {
			s.sb.WriteString("nilmap")
			return
		}
		type kv struct{ k, v string }
		var kvs []kv
		it := v.MapRange()
		for it.Next() {
			var kb, vb strings.Builder
			(&snapper{sb: &kb, follow: s.follow, seen: s.seen, ident: s.ident}).walk(it.Key(), d+1)
			(&snapper{sb: &vb, follow: s.follow, seen: s.seen, ident: s.ident}).walk(it.Value(), d+1)
			kvs = append(kvs, kv{kb.String(), vb.String()})
		}
		sort.Slice(kvs, func(i, j int) bool { return kvs[i].k < kvs[j].k })
		s.sb.WriteString("{")
		for _, e := range kvs {
			s.sb.WriteString(e.k + ":" + e.v + ";")
		}
		s.sb.WriteString("}")
	case reflect.Struct:
		t := v.Type()
		if !v.CanAddr() {
			nv := reflect.New(t).Elem()
			// v may be read-only (from an unexported field); copy through unsafe is not possible
			// without an address, so fall back to per-field reads which reflect permits.
			_ = nv
		}
		s.sb.WriteString(t.Name() + "{")
		for i := 0; i < t.NumField(); i++ {
			f := v.Field(i)
			if f.CanAddr() {
				f = reflect.NewAt(f.Type(), unsafe.Pointer(f.UnsafeAddr())).Elem()
			}
			s.sb.WriteString(t.Field(i).Name + "=")
			s.walk(f, d+1)
			s.sb.WriteString(";")
		}
		s.sb.WriteString("}")
	default:
		fmt.Fprintf(s.sb, "<%s>", v.Kind())
	}
}

// SnapDiff returns the first differing region of two snapshots (for messages).
func SnapDiff(a, b string) string {
	i := 0
	for i < len(a) && i < len(b) && a[i] == b[i] {
		i++
	}
	lo := i - 60
	if lo < 0 {
		lo = 0
	}
	ha, hb := i+60, i+60
	if ha > len(a) {
		ha = len(a)
	}
	if hb > len(b) {
		hb = len(b)
	}
	return fmt.Sprintf("...%s  =>  ...%s", a[lo:ha], b[lo:hb])
}
