// Package wb is an independent WebAssembly binary builder (own LEB128 and section
// encoder; it does not use wazero's decoder or encoder), used to emit by-construction
// valid modules for the checks.
package wb

import (
	"encoding/binary"
	"math"
)

type ValType = byte

const (
	I32       ValType = 0x7f
	I64       ValType = 0x7e
	F32       ValType = 0x7d
	F64       ValType = 0x7c
	V128      ValType = 0x7b
	FuncRef   ValType = 0x70
	ExternRef ValType = 0x6f
)

const (
	KindFunc   = 0
	KindTable  = 1
	KindMemory = 2
	KindGlobal = 3
)

func ULEB(v uint64) []byte {
	var b []byte
	for {
		c := byte(v & 0x7f)
		v >>= 7
		if v != 0 {
			b = append(b, c|0x80)
		} else {
			return append(b, c)
		}
	}
}

func SLEB(v int64) []byte {
	var b []byte
	for {
		c := byte(v & 0x7f)
		s := v >> 6
		v >>= 7
		if s == 0 || s == -1 {
			return append(b, c)
		}
		b = append(b, c|0x80)
	}
}

func vec(n int, body []byte) []byte { return append(ULEB(uint64(n)), body...) }
func name(s string) []byte          { return append(ULEB(uint64(len(s))), s...) }

type FuncType struct {
	Params, Results []ValType
}

type Limits struct {
	Min    uint32
	Max    uint32
	HasMax bool
	Shared bool
}

func (l Limits) enc() []byte {
	f := byte(0)
	if l.HasMax {
		f |= 1
	}
	if l.Shared {
		f |= 2
	}
	b := append([]byte{f}, ULEB(uint64(l.Min))...)
	if l.HasMax {
		b = append(b, ULEB(uint64(l.Max))...)
	}
	return b
}

type Import struct {
	Module, Name string
	Kind         byte
	TypeIdx      uint32 // func
	Table        Table
	Mem          Limits
	GlobalType   ValType
	GlobalMut    bool
}

type Table struct {
	Elem ValType
	Lim  Limits
}

type Global struct {
	Type ValType
	Mut  bool
	Init []byte // const expr without the trailing end
}

type Export struct {
	Name string
	Kind byte
	Idx  uint32
}

type Func struct {
	TypeIdx uint32
	Locals  []ValType
	Body    []byte // without the trailing end
}

type Elem struct {
	Mode     int // 0 active, 1 passive, 2 declarative
	TableIdx uint32
	Offset   []byte   // const expr (active)
	Funcs    []uint32 // function indexes; NullAt marks nulls (forces expression form)
	UseExprs bool
	NullAt   map[int]bool
	Type     ValType // for expression form, default funcref
}

type Data struct {
	Passive bool
	MemIdx  uint32
	Offset  []byte
	Bytes   []byte
}

type Module struct {
	Types      []FuncType
	Imports    []Import
	Funcs      []Func
	Tables     []Table
	Mem        *Limits
	Globals    []Global
	Exports    []Export
	Start      *uint32
	Elems      []Elem
	Datas      []Data
	DataCount  bool
	Customs    []Custom
	FuncNames  map[uint32]string // emitted as a name section when non-nil
	ModuleName string            // emitted in the name section (subsection 0) when non-empty
}

type Custom struct {
	Name string
	Data []byte
}

// TypeIdx interns a function type.
func (m *Module) Type(params, results []ValType) uint32 {
	for i, t := range m.Types {
		if string(t.Params) == string(params) && string(t.Results) == string(results) {
			return uint32(i)
		}
	}
	m.Types = append(m.Types, FuncType{append([]ValType{}, params...), append([]ValType{}, results...)})
	return uint32(len(m.Types) - 1)
}

func (m *Module) NumImportedFuncs() uint32 {
	n := uint32(0)
	for _, im := range m.Imports {
		if im.Kind == KindFunc {
			n++
		}
	}
	return n
}

func (m *Module) NumImportedGlobals() uint32 {
	n := uint32(0)
	for _, im := range m.Imports {
		if im.Kind == KindGlobal {
			n++
		}
	}
	return n
}

// ImportFunc adds a function import and returns its function index. Must precede AddFunc.
func (m *Module) ImportFunc(mod, nm string, params, results []ValType) uint32 {
	if len(m.Funcs) != 0 {
		panic("wb: ImportFunc after AddFunc")
	}
	idx := m.NumImportedFuncs()
	m.Imports = append(m.Imports, Import{Module: mod, Name: nm, Kind: KindFunc, TypeIdx: m.Type(params, results)})
	return idx
}

// AddFunc appends a function and returns its function index (in the function index space).
func (m *Module) AddFunc(params, results, locals []ValType, body []byte) uint32 {
	m.Funcs = append(m.Funcs, Func{TypeIdx: m.Type(params, results), Locals: locals, Body: body})
	return m.NumImportedFuncs() + uint32(len(m.Funcs)-1)
}

func (m *Module) ExportFunc(nm string, idx uint32) {
	m.Exports = append(m.Exports, Export{nm, KindFunc, idx})
}

func (m *Module) AddGlobal(t ValType, mut bool, init []byte) uint32 {
	m.Globals = append(m.Globals, Global{t, mut, init})
	return m.NumImportedGlobals() + uint32(len(m.Globals)-1)
}

func section(id byte, body []byte) []byte {
	return append(append([]byte{id}, ULEB(uint64(len(body)))...), body...)
}

func compressLocals(ls []ValType) []byte {
	var groups [][2]uint32
	for _, t := range ls {
		if n := len(groups); n > 0 && groups[n-1][1] == uint32(t) {
			groups[n-1][0]++
		} else {
			groups = append(groups, [2]uint32{1, uint32(t)})
		}
	}
	b := ULEB(uint64(len(groups)))
	for _, g := range groups {
		b = append(b, ULEB(uint64(g[0]))...)
		b = append(b, byte(g[1]))
	}
	return b
}

func (m *Module) Encode() []byte {
	out := []byte{0, 'a', 's', 'm', 1, 0, 0, 0}
	if len(m.Types) > 0 {
		var b []byte
		for _, t := range m.Types {
			b = append(b, 0x60)
			b = append(b, vec(len(t.Params), t.Params)...)
			b = append(b, vec(len(t.Results), t.Results)...)
		}
		out = append(out, section(1, vec(len(m.Types), b))...)
	}
	if len(m.Imports) > 0 {
		var b []byte
		for _, im := range m.Imports {
			b = append(b, name(im.Module)...)
			b = append(b, name(im.Name)...)
			b = append(b, im.Kind)
			switch im.Kind {
			case KindFunc:
				b = append(b, ULEB(uint64(im.TypeIdx))...)
			case KindTable:
				b = append(b, im.Table.Elem)
				b = append(b, im.Table.Lim.enc()...)
			case KindMemory:
				b = append(b, im.Mem.enc()...)
			case KindGlobal:
				b = append(b, im.GlobalType)
				if im.GlobalMut {
					b = append(b, 1)
				} else {
					b = append(b, 0)
				}
			}
		}
		out = append(out, section(2, vec(len(m.Imports), b))...)
	}
	if len(m.Funcs) > 0 {
		var b []byte
		for _, f := range m.Funcs {
			b = append(b, ULEB(uint64(f.TypeIdx))...)
		}
		out = append(out, section(3, vec(len(m.Funcs), b))...)
	}
	if len(m.Tables) > 0 {
		var b []byte
		for _, t := range m.Tables {
			b = append(b, t.Elem)
			b = append(b, t.Lim.enc()...)
		}
		out = append(out, section(4, vec(len(m.Tables), b))...)
	}
	if m.Mem != nil {
		out = append(out, section(5, vec(1, m.Mem.enc()))...)
	}
	if len(m.Globals) > 0 {
		var b []byte
		for _, g := range m.Globals {
			b = append(b, g.Type)
			if g.Mut {
				b = append(b, 1)
			} else {
				b = append(b, 0)
			}
			b = append(b, g.Init...)
			b = append(b, 0x0b)
		}
		out = append(out, section(6, vec(len(m.Globals), b))...)
	}
	if len(m.Exports) > 0 {
		var b []byte
		for _, e := range m.Exports {
			b = append(b, name(e.Name)...)
			b = append(b, e.Kind)
			b = append(b, ULEB(uint64(e.Idx))...)
		}
		out = append(out, section(7, vec(len(m.Exports), b))...)
	}
	if m.Start != nil {
		out = append(out, section(8, ULEB(uint64(*m.Start)))...)
	}
	if len(m.Elems) > 0 {
		var b []byte
		for _, e := range m.Elems {
			et := e.Type
			if et == 0 {
				et = FuncRef
			}
			exprs := e.UseExprs || len(e.NullAt) > 0 || et != FuncRef
			var flag byte
			switch e.Mode {
			case 0:
				if e.TableIdx != 0 || (exprs && et != FuncRef) {
					flag = 2
				}
			case 1:
				flag = 1
			case 2:
				flag = 3
			}
			if exprs {
				flag |= 4
			}
			b = append(b, flag)
			if flag&3 == 2 {
				b = append(b, ULEB(uint64(e.TableIdx))...)
			}
			if e.Mode == 0 {
				b = append(b, e.Offset...)
				b = append(b, 0x0b)
			}
			if flag&3 != 0 {
				if exprs {
					b = append(b, et)
				} else {
					b = append(b, 0x00) // elemkind funcref
				}
			}
			b = append(b, ULEB(uint64(len(e.Funcs)))...)
			for i, f := range e.Funcs {
				if exprs {
					if e.NullAt[i] {
						b = append(b, 0xd0, et, 0x0b)
					} else {
						b = append(b, 0xd2)
						b = append(b, ULEB(uint64(f))...)
						b = append(b, 0x0b)
					}
				} else {
					b = append(b, ULEB(uint64(f))...)
				}
			}
		}
		out = append(out, section(9, vec(len(m.Elems), b))...)
	}
	if m.DataCount {
		out = append(out, section(12, ULEB(uint64(len(m.Datas))))...)
	}
	if len(m.Funcs) > 0 {
		var b []byte
		for _, f := range m.Funcs {
			fb := compressLocals(f.Locals)
			fb = append(fb, f.Body...)
			fb = append(fb, 0x0b)
			b = append(b, ULEB(uint64(len(fb)))...)
			b = append(b, fb...)
		}
		out = append(out, section(10, vec(len(m.Funcs), b))...)
	}
	if len(m.Datas) > 0 {
		var b []byte
		for _, d := range m.Datas {
			switch {
			case d.Passive:
				b = append(b, 1)
			case d.MemIdx != 0:
				b = append(b, 2)
				b = append(b, ULEB(uint64(d.MemIdx))...)
				b = append(b, d.Offset...)
				b = append(b, 0x0b)
			default:
				b = append(b, 0)
				b = append(b, d.Offset...)
				b = append(b, 0x0b)
			}
			b = append(b, ULEB(uint64(len(d.Bytes)))...)
			b = append(b, d.Bytes...)
		}
		out = append(out, section(11, vec(len(m.Datas), b))...)
	}
	if m.ModuleName != "" && m.FuncNames == nil {
		sub := name(m.ModuleName)
		body := append(name("name"), 0)
		body = append(body, ULEB(uint64(len(sub)))...)
		body = append(body, sub...)
		out = append(out, section(0, body)...)
	}
	if m.FuncNames != nil {
		var sub []byte
		// deterministic order
		var idxs []uint32
		for i := range m.FuncNames {
			idxs = append(idxs, i)
		}
		for i := 1; i < len(idxs); i++ {
			for j := i; j > 0 && idxs[j] < idxs[j-1]; j-- {
				idxs[j], idxs[j-1] = idxs[j-1], idxs[j]
			}
		}
		for _, i := range idxs {
			sub = append(sub, ULEB(uint64(i))...)
			sub = append(sub, name(m.FuncNames[i])...)
		}
		sub = vec(len(idxs), sub)
		body := name("name")
		if m.ModuleName != "" {
			ms := name(m.ModuleName)
			body = append(body, 0)
			body = append(body, ULEB(uint64(len(ms)))...)
			body = append(body, ms...)
		}
		body = append(body, 1)
		body = append(body, ULEB(uint64(len(sub)))...)
		body = append(body, sub...)
		out = append(out, section(0, body)...)
	}
	for _, c := range m.Customs {
		out = append(out, section(0, append(name(c.Name), c.Data...))...)
	}
	return out
}

// ---------------------------------------------------------------------------------------------
// Instruction assembler

// Asm accumulates a function body.
type Asm struct{ B []byte }

func (a *Asm) Bytes() []byte { return a.B }
func (a *Asm) Raw(b ...byte) *Asm {
	a.B = append(a.B, b...)
	return a
}
func (a *Asm) Op(op byte) *Asm { a.B = append(a.B, op); return a }
func (a *Asm) U(v uint64) *Asm { a.B = append(a.B, ULEB(v)...); return a }
func (a *Asm) S(v int64) *Asm  { a.B = append(a.B, SLEB(v)...); return a }

func (a *Asm) I32Const(v int32) *Asm { return a.Op(0x41).S(int64(v)) }
func (a *Asm) I64Const(v int64) *Asm { return a.Op(0x42).S(v) }
func (a *Asm) F32Const(bits uint32) *Asm {
	a.Op(0x43)
	a.B = binary.LittleEndian.AppendUint32(a.B, bits)
	return a
}
func (a *Asm) F64Const(bits uint64) *Asm {
	a.Op(0x44)
	a.B = binary.LittleEndian.AppendUint64(a.B, bits)
	return a
}
func (a *Asm) V128Const(lo, hi uint64) *Asm {
	a.Raw(0xfd).U(12)
	a.B = binary.LittleEndian.AppendUint64(a.B, lo)
	a.B = binary.LittleEndian.AppendUint64(a.B, hi)
	return a
}

// Const emits a constant of the given type from raw bits.
func (a *Asm) Const(t ValType, bits uint64) *Asm {
	switch t {
	case I32:
		return a.I32Const(int32(uint32(bits)))
	case I64:
		return a.I64Const(int64(bits))
	case F32:
		return a.F32Const(uint32(bits))
	case F64:
		return a.F64Const(bits)
	}
	panic("wb: Const type")
}

func (a *Asm) LocalGet(i uint32) *Asm  { return a.Op(0x20).U(uint64(i)) }
func (a *Asm) LocalSet(i uint32) *Asm  { return a.Op(0x21).U(uint64(i)) }
func (a *Asm) LocalTee(i uint32) *Asm  { return a.Op(0x22).U(uint64(i)) }
func (a *Asm) GlobalGet(i uint32) *Asm { return a.Op(0x23).U(uint64(i)) }
func (a *Asm) GlobalSet(i uint32) *Asm { return a.Op(0x24).U(uint64(i)) }
func (a *Asm) Call(i uint32) *Asm      { return a.Op(0x10).U(uint64(i)) }
func (a *Asm) CallIndirect(typeIdx, table uint32) *Asm {
	return a.Op(0x11).U(uint64(typeIdx)).U(uint64(table))
}
func (a *Asm) ReturnCall(i uint32) *Asm { return a.Op(0x12).U(uint64(i)) }
func (a *Asm) ReturnCallIndirect(typeIdx, table uint32) *Asm {
	return a.Op(0x13).U(uint64(typeIdx)).U(uint64(table))
}
func (a *Asm) Drop() *Asm         { return a.Op(0x1a) }
func (a *Asm) Select() *Asm       { return a.Op(0x1b) }
func (a *Asm) Unreachable() *Asm  { return a.Op(0x00) }
func (a *Asm) Nop() *Asm          { return a.Op(0x01) }
func (a *Asm) Return() *Asm       { return a.Op(0x0f) }
func (a *Asm) End() *Asm          { return a.Op(0x0b) }
func (a *Asm) Else() *Asm         { return a.Op(0x05) }
func (a *Asm) Br(l uint32) *Asm   { return a.Op(0x0c).U(uint64(l)) }
func (a *Asm) BrIf(l uint32) *Asm { return a.Op(0x0d).U(uint64(l)) }
func (a *Asm) BrTable(labels []uint32, def uint32) *Asm {
	a.Op(0x0e).U(uint64(len(labels)))
	for _, l := range labels {
		a.U(uint64(l))
	}
	return a.U(uint64(def))
}

// BlockType: 0x40 empty, a ValType, or a type index (use BlockT for the latter).
func (a *Asm) Block(bt byte) *Asm         { return a.Op(0x02).Op(bt) }
func (a *Asm) Loop(bt byte) *Asm          { return a.Op(0x03).Op(bt) }
func (a *Asm) If(bt byte) *Asm            { return a.Op(0x04).Op(bt) }
func (a *Asm) BlockT(typeIdx uint32) *Asm { return a.Op(0x02).S(int64(typeIdx)) }
func (a *Asm) LoopT(typeIdx uint32) *Asm  { return a.Op(0x03).S(int64(typeIdx)) }
func (a *Asm) IfT(typeIdx uint32) *Asm    { return a.Op(0x04).S(int64(typeIdx)) }

const Void = 0x40

// Mem emits a plain load/store opcode with alignment exponent and offset.
func (a *Asm) Mem(op byte, align uint32, offset uint64) *Asm {
	return a.Op(op).U(uint64(align)).U(offset)
}
func (a *Asm) MemorySize() *Asm { return a.Op(0x3f).Op(0) }
func (a *Asm) MemoryGrow() *Asm { return a.Op(0x40).Op(0) }

// Misc (0xfc) prefix
func (a *Asm) Misc(sub uint32) *Asm       { return a.Op(0xfc).U(uint64(sub)) }
func (a *Asm) MemoryInit(seg uint32) *Asm { return a.Misc(8).U(uint64(seg)).Op(0) }
func (a *Asm) DataDrop(seg uint32) *Asm   { return a.Misc(9).U(uint64(seg)) }
func (a *Asm) MemoryCopy() *Asm           { return a.Misc(10).Op(0).Op(0) }
func (a *Asm) MemoryFill() *Asm           { return a.Misc(11).Op(0) }
func (a *Asm) TableInit(seg, table uint32) *Asm {
	return a.Misc(12).U(uint64(seg)).U(uint64(table))
}
func (a *Asm) ElemDrop(seg uint32) *Asm { return a.Misc(13).U(uint64(seg)) }
func (a *Asm) TableCopy(dst, src uint32) *Asm {
	return a.Misc(14).U(uint64(dst)).U(uint64(src))
}
func (a *Asm) TableGrow(t uint32) *Asm { return a.Misc(15).U(uint64(t)) }
func (a *Asm) TableSize(t uint32) *Asm { return a.Misc(16).U(uint64(t)) }
func (a *Asm) TableFill(t uint32) *Asm { return a.Misc(17).U(uint64(t)) }
func (a *Asm) TableGet(t uint32) *Asm  { return a.Op(0x25).U(uint64(t)) }
func (a *Asm) TableSet(t uint32) *Asm  { return a.Op(0x26).U(uint64(t)) }
func (a *Asm) RefNull(t ValType) *Asm  { return a.Op(0xd0).Op(t) }
func (a *Asm) RefIsNull() *Asm         { return a.Op(0xd1) }
func (a *Asm) RefFunc(f uint32) *Asm   { return a.Op(0xd2).U(uint64(f)) }

// Simd (0xfd) and Atomic (0xfe) prefixes
func (a *Asm) Simd(sub uint32) *Asm   { return a.Op(0xfd).U(uint64(sub)) }
func (a *Asm) Atomic(sub uint32) *Asm { return a.Op(0xfe).U(uint64(sub)) }
func (a *Asm) SimdMem(sub uint32, align uint32, offset uint64) *Asm {
	return a.Simd(sub).U(uint64(align)).U(offset)
}
func (a *Asm) AtomicMem(sub uint32, align uint32, offset uint64) *Asm {
	return a.Atomic(sub).U(uint64(align)).U(offset)
}

// ConstExpr helpers (without trailing end)
func CI32(v int32) []byte        { return (&Asm{}).I32Const(v).B }
func CI64(v int64) []byte        { return (&Asm{}).I64Const(v).B }
func CF32(bits uint32) []byte    { return (&Asm{}).F32Const(bits).B }
func CF64(bits uint64) []byte    { return (&Asm{}).F64Const(bits).B }
func CGlobal(i uint32) []byte    { return (&Asm{}).GlobalGet(i).B }
func CRefFunc(i uint32) []byte   { return (&Asm{}).RefFunc(i).B }
func CRefNull(t ValType) []byte  { return (&Asm{}).RefNull(t).B }
func CV128(lo, hi uint64) []byte { return (&Asm{}).V128Const(lo, hi).B }

func F32Bits(f float32) uint32 { return math.Float32bits(f) }
func F64Bits(f float64) uint64 { return math.Float64bits(f) }
