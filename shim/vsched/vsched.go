//go:build verif

// Package vsched is injected by the build overlay as
// github.com/tetratelabs/wazero/internal/verif/vsched and substituted for "sync" and "sync/atomic"
// in the registry/lifecycle files of wazero. It provides a cooperative scheduler (exactly one
// harness thread runs at a time; every hooked operation is a scheduling point) and modelled
// locks, so that a blocked thread is *disabled* rather than spinning, and the explorer in
// /verif/checks/c10 can enumerate schedules by choice sequences.
//
// Outside an exploration (Active()==false) the primitives behave like uncontended locks.
package vsched

import (
	"fmt"
)

type thread struct {
	id      int
	wake    chan struct{}
	done    bool
	enabled func() bool
	started bool
}

// Point is one recorded scheduling decision (only points with >1 enabled thread are recorded).
type Point struct {
	N              int  // number of enabled threads
	Chosen         int  // index into the canonical enabled order
	RunningEnabled bool // the running thread was enabled (so Chosen != 0 is a preemption)
	Thread         int  // id of the thread that was chosen
	What           string
}

type Sched struct {
	threads  []*thread
	cur      *thread
	prefix   []int
	Points   []Point
	mainWake chan struct{}
	Deadlock bool
	Diverged string
	aborted  bool
	steps    int
	MaxSteps int
	Panics   []string
}

type abortSentinel struct{}

var active *Sched

func Active() bool { return active != nil && !active.aborted }

// Run executes bodies as cooperative threads following the choice prefix (then choice 0).
func Run(prefix []int, bodies []func()) *Sched {
	if active != nil {
		panic("vsched: nested Run")
	}
	s := &Sched{prefix: prefix, mainWake: make(chan struct{}), MaxSteps: 100000}
	for i, b := range bodies {
		t := &thread{id: i, wake: make(chan struct{})}
		s.threads = append(s.threads, t)
		b := b
		go func() {
			<-t.wake
			defer func() {
				if r := recover(); r != nil {
					if _, ok := r.(abortSentinel); !ok {
						s.Panics = append(s.Panics, fmt.Sprintf("thread %d: %v", t.id, r))
					}
				}
				t.done = true
				if s.aborted {
					s.mainWake <- struct{}{}
					return
				}
				s.schedule(t, "exit")
			}()
			if s.aborted {
				panic(abortSentinel{})
			}
			b()
		}()
	}
	active = s
	// initial choice among all threads: modelled as a point with no running thread
	s.schedule(nil, "start")
	<-s.mainWake
	if s.aborted {
		// unwind every parked thread
		for _, t := range s.threads {
			if !t.done {
				t.wake <- struct{}{}
				<-s.mainWake
			}
		}
	}
	active = nil
	return s
}

func (s *Sched) abort() {
	s.aborted = true
}

// schedule is called by the running thread t (nil at start) at a scheduling point.
func (s *Sched) schedule(t *thread, what string) {
	s.steps++
	if s.steps > s.MaxSteps {
		s.Diverged = "step bound exceeded (livelock?)"
		s.finishAbort(t)
		return
	}
	var en []*thread
	runningEnabled := false
	if t != nil && !t.done && (t.enabled == nil || t.enabled()) {
		en = append(en, t)
		runningEnabled = true
	}
	for _, o := range s.threads {
		if o == t || o.done {
			continue
		}
		if o.enabled == nil || o.enabled() {
			en = append(en, o)
		}
	}
	if len(en) == 0 {
		alldone := true
		for _, o := range s.threads {
			if !o.done {
				alldone = false
			}
		}
		if !alldone {
			s.Deadlock = true
			s.finishAbort(t)
			return
		}
		s.mainWake <- struct{}{}
		return
	}
	idx := 0
	if len(en) > 1 {
		pos := len(s.Points)
		if pos < len(s.prefix) {
			idx = s.prefix[pos]
			if idx >= len(en) {
				s.Diverged = fmt.Sprintf("replay divergence at point %d: choice %d but only %d enabled", pos, idx, len(en))
				s.finishAbort(t)
				return
			}
		}
		s.Points = append(s.Points, Point{N: len(en), Chosen: idx, RunningEnabled: runningEnabled, Thread: en[idx].id, What: what})
	}
	next := en[idx]
	if next == t {
		return
	}
	s.cur = next
	next.wake <- struct{}{}
	if t != nil && !t.done {
		<-t.wake
		if s.aborted {
			panic(abortSentinel{})
		}
	}
}

func (s *Sched) finishAbort(t *thread) {
	s.abort()
	if t == nil || t.done {
		s.mainWake <- struct{}{}
		return
	}
	// running thread unwinds itself; its deferred exit path signals main.
	panic(abortSentinel{})
}

// Yield is a scheduling point with an enabling predicate (nil = always enabled).
func Yield(what string, enabled func() bool) {
	s := active
	if s == nil || s.aborted {
		return
	}
	t := s.cur
	t.enabled = enabled
	s.schedule(t, what)
	t.enabled = nil
}

// ---------------------------------------------------------------- sync

type Mutex struct{ locked bool }

func (m *Mutex) Lock() {
	Yield("Mutex.Lock", func() bool { return !m.locked })
	if m.locked {
		if Active() {
			panic("vsched: Mutex scheduled while locked")
		}
		if active == nil {
			panic("vsched: Mutex contention outside exploration")
		}
	}
	m.locked = true
}
func (m *Mutex) TryLock() bool {
	Yield("Mutex.TryLock", nil)
	if m.locked {
		return false
	}
	m.locked = true
	return true
}
func (m *Mutex) Unlock() {
	m.locked = false
	Yield("Mutex.Unlock", nil)
}

type RWMutex struct {
	writer  bool
	readers int
}

func (m *RWMutex) Lock() {
	Yield("RWMutex.Lock", func() bool { return !m.writer && m.readers == 0 })
	if (m.writer || m.readers != 0) && active == nil {
		panic("vsched: RWMutex contention outside exploration")
	}
	m.writer = true
}
func (m *RWMutex) Unlock() {
	m.writer = false
	Yield("RWMutex.Unlock", nil)
}
func (m *RWMutex) RLock() {
	Yield("RWMutex.RLock", func() bool { return !m.writer })
	if m.writer && active == nil {
		panic("vsched: RWMutex contention outside exploration")
	}
	m.readers++
}
func (m *RWMutex) RUnlock() {
	m.readers--
	Yield("RWMutex.RUnlock", nil)
}

type Once struct {
	done    bool
	running bool
}

func (o *Once) Do(f func()) {
	Yield("Once.Do", func() bool { return !o.running })
	if o.done {
		return
	}
	o.running = true
	defer func() {
		o.running = false
		o.done = true
		Yield("Once.done", nil)
	}()
	f()
}

// ---------------------------------------------------------------- sync/atomic

type Uint64 struct{ v uint64 }

func (a *Uint64) Load() uint64 { Yield("Uint64.Load", nil); return a.v }
func (a *Uint64) Store(v uint64) {
	Yield("Uint64.Store", nil)
	a.v = v
}
func (a *Uint64) Swap(v uint64) uint64 {
	Yield("Uint64.Swap", nil)
	o := a.v
	a.v = v
	return o
}
func (a *Uint64) Add(d uint64) uint64 {
	Yield("Uint64.Add", nil)
	a.v += d
	return a.v
}
func (a *Uint64) CompareAndSwap(o, n uint64) bool {
	Yield("Uint64.CompareAndSwap", nil)
	if a.v == o {
		a.v = n
		return true
	}
	return false
}

type Uint32 struct{ v uint32 }

func (a *Uint32) Load() uint32 { Yield("Uint32.Load", nil); return a.v }
func (a *Uint32) Store(v uint32) {
	Yield("Uint32.Store", nil)
	a.v = v
}
func (a *Uint32) Add(d uint32) uint32 {
	Yield("Uint32.Add", nil)
	a.v += d
	return a.v
}
func (a *Uint32) CompareAndSwap(o, n uint32) bool {
	Yield("Uint32.CompareAndSwap", nil)
	if a.v == o {
		a.v = n
		return true
	}
	return false
}

type Bool struct{ v bool }

func (a *Bool) Load() bool { Yield("Bool.Load", nil); return a.v }
func (a *Bool) Store(v bool) {
	Yield("Bool.Store", nil)
	a.v = v
}
