#!/bin/bash
# setup_cmd: build every harness once against /repo (offline) to warm /verif/.gocache.
set -u
cd /verif
. scripts/env.sh
mkdir -p build evidence replays
rc=0
for d in checks/*/; do
  id=$(basename "$d")
  [ -f "$d/main.go" ] || continue
  VERIF_BUILD_ONLY=1 scripts/check.sh "$id" quick || rc=1
done
exit $rc
