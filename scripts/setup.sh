#!/bin/bash
# setup_cmd: warm the build cache by building every harness once (offline).
set -u
cd /verif
. scripts/env.sh
mkdir -p build evidence replays
rc=0
for d in checks/*/; do
  id=$(basename "$d")
  [ -f "$d/main.go" ] || continue
  ovl=()
  if [ -f "checks/$id/overlay.spec" ]; then
    go build -o build/overlaygen ./cmd/overlaygen || rc=1
    build/overlaygen "checks/$id/overlay.spec" "build/overlay-$id" > "build/overlay-$id.json" || rc=1
    ovl=(-overlay "build/overlay-$id.json")
  fi
  go build -tags verif "${ovl[@]}" -o "build/$id" "./checks/$id" || rc=1
done
exit $rc
