#!/usr/bin/env python3
"""Validate MANIFEST.json and every evidence file against the schemas (uses the tooling venv's jsonschema if available)."""
import json, sys, glob, os
try:
    import jsonschema
except ImportError:
    sys.path.insert(0, '/opt/veriftools/pyvenv/lib/python3.11/site-packages')
    import jsonschema
ok = True
m = json.load(open('/verif/MANIFEST.json'))
jsonschema.validate(m, json.load(open('/root/.vp/MANIFEST.schema.json')))
props = [json.loads(l)['id'] for l in open('/verif/properties.jsonl')]
claimed = [c['property_id'] for c in m['checks']]
na = [n['property_id'] for n in m.get('not_applicable', [])]
for p in props:
    if (p in claimed) == (p in na):
        print('property', p, 'must be exactly one of claimed / not_applicable'); ok = False
es = json.load(open('/root/.vp/EVIDENCE.schema.json'))
for c in m['checks']:
    f = c['evidence_file']
    if not os.path.exists(f):
        print('missing evidence', f); ok = False; continue
    try:
        e = json.load(open(f)); jsonschema.validate(e, es)
        if e['level'] != c['level_claimed']['category']:
            print('level mismatch', f); ok = False
    except Exception as ex:
        print('invalid evidence', f, str(ex)[:300]); ok = False
print('manifest ok' if ok else 'PROBLEMS')
sys.exit(0 if ok else 1)
