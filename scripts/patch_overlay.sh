#!/bin/bash
# usage: scripts/patch_overlay.sh <outdir> <patch>...   > overlay.json
# Applies unified diffs (paths relative to /repo, -p1) to COPIES of the touched files and prints an
# overlay JSON that substitutes them for the originals. /repo itself is not modified.
set -eu
out="$1"; shift
rm -rf "$out"; mkdir -p "$out"
out=$(cd "$out" && pwd)
files=()
for p in "$@"; do
  while read -r f; do
    [ -n "$f" ] || continue
    if [ ! -e "$out/$f" ]; then
      mkdir -p "$out/$(dirname "$f")"
      if [ -e "/repo/$f" ]; then cp "/repo/$f" "$out/$f"; fi
      files+=("$f")
    fi
  done < <(grep -E '^\+\+\+ ' "$p" | sed -E 's#^\+\+\+ ([ab]/)?([^\t ]+).*#\2#' | grep -v '^/dev/null$')
  patch -s -p1 -d "$out" < "$p" >&2 || { echo "patch $p failed" >&2; exit 2; }
done
printf '{"Replace": {'
sep=""
for f in "${files[@]}"; do
  printf '%s\n "/repo/%s": "%s/%s"' "$sep" "$f" "$out" "$f"; sep=","
done
printf '\n}}\n'
