#!/bin/bash
# usage: scripts/confirm_seeded.sh <dir-with-patch.diff-and-demo> [--full]
# Confirms an independently written property-breaking change in a scratch worktree of /repo:
#   1. the patch applies to /repo HEAD and the tree builds (go build ./... && go vet-less test compile)
#   2. the repository's own tests still pass with it (packages touched by the patch and their dependants'
#      quick set by default; the complete pinned suite with --full)
#   3. the demonstration (demo_test.go placed in the package named in meta.json "demo_pkg", or demo/ main program)
#      FAILS with the change and PASSES without it.
# The worktree and its build output are removed afterwards.
set -u
d=$(cd "$1" && pwd); full="${2:-}"
. /verif/scripts/env.sh
export GOCACHE=/root/scratch/gocache-confirm
wt=/root/scratch/confirm-$$
mkdir -p /root/scratch
git -C /repo worktree add -q --detach "$wt" HEAD || exit 2
trap 'git -C /repo worktree remove --force "$wt" >/dev/null 2>&1; rm -rf "$wt"' EXIT
pkg=$(python3 -c "import json;print(json.load(open('$d/meta.json')).get('demo_pkg','.'))")
demo=$(python3 -c "import json;print(json.load(open('$d/meta.json')).get('demo_file','demo_test.go'))")
run=$(python3 -c "import json;print(json.load(open('$d/meta.json')).get('demo_run','TestSeededDemo'))")
cp "$d/$demo" "$wt/$pkg/zz_seeded_demo_test.go"
echo "== demo WITHOUT the change (must pass)"
(cd "$wt" && go test -vet=off -count=1 -run "$run" "./$pkg" 2>&1 | tail -5); a=${PIPESTATUS[0]}
(cd "$wt" && go test -vet=off -count=1 -run "$run" "./$pkg" >/dev/null 2>&1); a=$?
git -C "$wt" apply "$d/patch.diff" || { echo "PATCH DOES NOT APPLY"; exit 1; }
echo "== build WITH the change"
(cd "$wt" && go build ./... ) || { echo "DOES NOT BUILD"; exit 1; }
echo "== demo WITH the change (must fail)"
(cd "$wt" && go test -vet=off -count=1 -run "$run" "./$pkg" 2>&1 | tail -8)
(cd "$wt" && go test -vet=off -count=1 -run "$run" "./$pkg" >/dev/null 2>&1); b=$?
rm -f "$wt/$pkg/zz_seeded_demo_test.go"
echo "== repository tests WITH the change"
if [ "$full" = "--full" ]; then
  (cd "$wt" && go test -vet=off -count=1 -timeout 40m ./... 2>&1 | grep -v '^ok\|no test files' | tail -20); t=${PIPESTATUS[0]}
  (cd "$wt/internal/integration_test/fuzz" && go test -vet=off -count=1 ./... 2>&1 | grep -v '^ok\|no test files' | tail -5)
else
  pkgs=$(grep -E '^\+\+\+ ' "$d/patch.diff" | sed -E 's#^\+\+\+ [ab]/##' | xargs -n1 dirname | sort -u | sed 's#^#./#' | tr '\n' ' ')
  (cd "$wt" && go test -vet=off -count=1 -timeout 40m $pkgs 2>&1 | grep -v 'no test files' | tail -20); t=${PIPESTATUS[0]}
fi
echo "RESULT demo_without=$a(0 expected) demo_with=$b(nonzero expected) tests=$t(0 expected)"
[ $a -eq 0 ] && [ $b -ne 0 ] && [ $t -eq 0 ]
