#!/usr/bin/env python3
"""prints the prompt for an independent seeded-change agent: property text + its scratch worktree only"""
import json, sys
pid, wt, variant = sys.argv[1], sys.argv[2], (sys.argv[3] if len(sys.argv) > 3 else "")
p = [json.loads(l) for l in open('/verif/properties.jsonl') if json.loads(l)['id'] == pid][0]
print(f"""You are helping to evaluate a verification tool for the Go project tetratelabs/wazero (a WebAssembly runtime). You have your own scratch git worktree of the project at {wt} (Go 1.23.5, linux/amd64, NO network: always `export GOFLAGS=-mod=mod GOPROXY=off GOSUMDB=off GOTOOLCHAIN=local` before go commands). Work ONLY inside {wt} (and scratch files under /tmp/{pid.lower()}-scratch if needed). Do not look at or touch /verif or /repo.

Here is a semantic property of wazero that should always hold:

  id: {pid}
  title: {p['title']}
  statement: {p['statement']}
  quantified over: {p['quantifier']['text']}
  anchored in: {', '.join(p['anchors']['files'])}
  mechanisms meant to make it hold: {'; '.join(m.get('name','')+' ('+m.get('where','')+')' for m in p['anchors']['mechanism'])}

Your task: write ONE realistic change to wazero's source (a plausible bug a developer could introduce in a refactoring or optimisation: e.g. an off-by-one, a dropped check, a stale cached value, a shared buffer, publishing before initialising, a wrong width, a forgotten case) that BREAKS this property while (1) the project still compiles (`go build ./...`), and (2) the project's existing tests still pass — at least run `go test -vet=off -count=1` for every package you touched and the obviously related ones (e.g. the root package `.`, `./internal/wasm/...`, `./internal/engine/...`, `./imports/wasi_snapshot_preview1/...`, `./internal/sys/...`, `./internal/sysfs/...` as applicable; the machine is heavily loaded, be patient, use -timeout 30m). {variant}
The change must NOT be exposed by ordinary use at once: it should need something specific to manifest — a particular interleaving, a crash or fault at a particular point, a multi-step sequence of operations, an unusual input/boundary value, an unusual configuration, or two cooperating sites that each look fine alone. Keep the diff small (typically 1–15 lines), without comments that give it away.

Also write a demonstration: a Go test file `demo_test.go` (package name matching the package directory you choose, e.g. package wazero_test in the root, or an internal package's own test package) containing `func TestSeededDemo(t *testing.T)` that FAILS with your change and PASSES on the unchanged tree (verify both: `git stash` / `git stash pop`, or `git diff > /tmp/x.diff; git checkout .; ...; git apply /tmp/x.diff`). The demo may use internal packages if it lives inside the module tree. It must be deterministic.

Deliver, inside {wt}/SEEDED/: `patch.diff` (output of `git diff` for the source change only, WITHOUT the demo file; paths relative to the repository root), `demo_test.go`, and `meta.json` = {{"property": "{pid}", "demo_pkg": "<directory of the package the demo test must be placed in, relative to repo root, e.g. . or internal/wasm>", "demo_file": "demo_test.go", "demo_run": "TestSeededDemo", "needs": "<what is needed for the breakage to manifest>", "summary": "<one sentence: what the change does and why it breaks the property>", "tests_run": "<which go test commands you ran with the change and their result>"}}. Leave the worktree with the change applied. Finish with a 5-line report.""")
