#!/bin/bash
# usage: scripts/seed_recheck.sh <sid> [check] "<what was added>"  — re-runs a previously missed seeded change after strengthening
cd /verif
sid=$1; chk=${2:-${sid%%-*}}; added="$3"
out=$(VERIF_PATCHES=seeded/$sid/patch.diff scripts/check.sh $chk quick 2>&1); rc=$?
first=$(echo "$out" | grep -m1 -A1 '^VIOLATION' | tail -1 | sed 's/^ *//' | cut -c1-220)
python3 - "$sid" "$chk" "$rc" "$first" "$added" <<'PY'
import json,sys
sid,chk,rc,first,added=sys.argv[1:6]
p=f'/verif/seeded/{sid}/meta.json'; m=json.load(open(p))
old=m.get('detected_by','')
if rc=='1':
    base=old.split(';')[0] if old.startswith('MISSED') else 'MISSED at first'
    m['detected_by']=f"{base}; caught by {chk.upper()} quick after {added}: VIOLATION {first}"
print(f"{sid} vs {chk}: rc={rc} :: {first[:160]}")
json.dump(m,open(p,'w'),indent=1)
PY
