#!/usr/bin/env python3
"""usage: compare_baseline.py <go-test-json-output>  — compares with /root/.vp/BASELINE.json stable_pass"""
import json, sys
base = json.load(open('/root/.vp/BASELINE.json'))
stable = set(base['stable_pass'])
res = {}
for line in open(sys.argv[1], errors='replace'):
    line = line.strip()
    if not line.startswith('{'): continue
    try: e = json.loads(line)
    except Exception: continue
    if e.get('Action') in ('pass', 'fail', 'skip') and e.get('Test'):
        res[f"{e['Package']}::{e['Test']}"] = e['Action']
passed = {k for k, v in res.items() if v == 'pass'}
failed = {k for k, v in res.items() if v == 'fail'}
print('stable_pass:', len(stable), 'passed now:', len(passed & stable), 'failed now:', len(failed & stable), 'missing:', len(stable - set(res)))
for k in sorted(failed & stable)[:40]: print('FAIL', k)
for k in sorted(stable - set(res))[:20]: print('MISSING', k)
print('other failures (not in stable set):', len(failed - stable))
for k in sorted(failed - stable)[:20]: print('FAIL-OTHER', k)
sys.exit(0 if not (failed & stable) and not (stable - set(res)) else 1)
