#!/bin/bash
# Runs the repository's pinned test suite with the verif guard OFF (no -tags verif, no overlay):
# exactly the command recorded in /root/.vp/BASELINE.json.
cmd=$(python3 -c "import json;print(json.load(open('/root/.vp/BASELINE.json'))['cmd'])")
exec bash -c "$cmd"
