#!/bin/bash
# usage: scripts/check.sh <cNN> <quick|thorough> [extra args]
# Builds the harness against /repo's current working tree (hooks on: -tags verif, overlay
# regenerated from the current files) and runs it. Exit: 0 held, 1 violation, 2 harness error.
set -u
cd /verif
. scripts/env.sh
id="$1"; tier="${2:-quick}"; shift; shift || true
export VERIF_TIER="$tier"
mkdir -p build evidence replays
ovl=()
if [ -f "checks/$id/overlay.spec" ]; then
  go build -o build/overlaygen ./cmd/overlaygen || { echo "HARNESS-ERROR: overlaygen build failed"; exit 2; }
  build/overlaygen "checks/$id/overlay.spec" "build/overlay-$id" > "build/overlay-$id.json" || { echo "HARNESS-ERROR: overlay generation failed"; exit 2; }
  ovl=(-overlay "build/overlay-$id.json")
fi
go build -tags verif "${ovl[@]}" -o "build/$id" "./checks/$id" || { echo "HARNESS-ERROR: build of checks/$id failed"; exit 2; }
exec "build/$id" "$tier" "$@"
