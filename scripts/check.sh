#!/bin/bash
# usage: scripts/check.sh <cNN> <quick|thorough|replay <file>> [extra args]
# Builds the harness against /repo's current working tree (hooks on: -tags verif, overlay
# regenerated from the current files) and runs it. Exit: 0 held, 1 violation, 2 harness error.
#
# VERIF_PATCHES="a.patch b.patch": build as if these diffs were applied to /repo (through the
# overlay; /repo is untouched). Used for mutants and for candidate fixes. With VERIF_PATCHES set the
# binary, evidence and replays go to a private directory (VERIF_ROOT copy) so that a mutant run never
# overwrites the real evidence.
set -u
cd /verif
. scripts/env.sh
id="$1"; tier="${2:-quick}"; shift; shift || true
export VERIF_TIER="$tier"
[ "$tier" = replay ] && export VERIF_TIER=quick
mkdir -p build evidence replays
tag="$id"
base=()
if [ -n "${VERIF_PATCHES:-}" ]; then
  tag="$id-p$$"
  scripts/patch_overlay.sh "build/patched-$tag" $VERIF_PATCHES > "build/base-$tag.json" || { echo "HARNESS-ERROR: patch overlay failed"; exit 2; }
  base=(-base "build/base-$tag.json")
  export VERIF_ROOT="/verif/build/root-$tag"
  mkdir -p "$VERIF_ROOT"
  cp known_findings.json "$VERIF_ROOT/" 2>/dev/null
  mkdir -p "$VERIF_ROOT/checks/$id"; cp "checks/$id/findings.json" "$VERIF_ROOT/checks/$id/" 2>/dev/null
  trap 'rm -rf "build/patched-$tag" "build/base-$tag.json" "build/overlay-$tag" "build/overlay-$tag.json" "build/$tag" "build/$tag-race" "build/$tag-race.buildlog" "$VERIF_ROOT"' EXIT
fi
ovl=()
spec="-"
[ -f "checks/$id/overlay.spec" ] && spec="checks/$id/overlay.spec"
if [ "$spec" != "-" ] || [ ${#base[@]} -gt 0 ]; then
  { go build -o "build/overlaygen.$$" ./cmd/overlaygen && mv -f "build/overlaygen.$$" build/overlaygen; } || { echo "HARNESS-ERROR: overlaygen build failed"; exit 2; }
  build/overlaygen "${base[@]}" "$spec" "build/overlay-$tag" > "build/overlay-$tag.json" || { echo "HARNESS-ERROR: overlay generation failed"; exit 2; }
  ovl=(-overlay "build/overlay-$tag.json")
fi
go build -tags verif "${ovl[@]}" -o "build/$tag" "./checks/$id" || { echo "HARNESS-ERROR: build of checks/$id failed"; exit 2; }
# optional free-running -race variant (secondary monitor): checks/<id>/race/main.go, built without the shim rewrites
if [ -f "checks/$id/race/main.go" ]; then
  rovl=()
  [ ${#base[@]} -gt 0 ] && rovl=(-overlay "build/base-$tag.json")
  if CGO_ENABLED=1 go build -race "${rovl[@]}" -o "build/$tag-race" "./checks/$id/race" 2>"build/$tag-race.buildlog"; then
    export VERIF_RACE_BIN="/verif/build/$tag-race"
  else
    echo "note: -race variant did not build (see build/$tag-race.buildlog); continuing without it" >&2
  fi
fi
[ -n "${VERIF_BUILD_ONLY:-}" ] && exit 0
"build/$tag" "$tier" "$@"
rc=$?
exit $rc
