#!/bin/bash
# usage: scripts/seed_collect.sh <sid e.g. c07-2> [check-id default = property of sid]
# Copies the seeded change out of its worktree, removes the worktree, confirms it in a scratch worktree,
# runs the property's quick check with the patch applied through the overlay, and records the result in meta.json.
cd /verif
sid=$1; chk=${2:-${sid%%-*}}
if [ -d /tmp/seed-$sid/SEEDED ]; then
  mkdir -p seeded/$sid && cp /tmp/seed-$sid/SEEDED/* seeded/$sid/ && git -C /repo worktree remove --force /tmp/seed-$sid
fi
[ -f seeded/$sid/patch.diff ] || { echo "$sid: no patch"; exit 2; }
conf=$(scripts/confirm_seeded.sh seeded/$sid 2>&1 | tail -1)
out=$(VERIF_PATCHES=seeded/$sid/patch.diff scripts/check.sh $chk quick 2>&1); rc=$?
first=$(echo "$out" | grep -m1 -A1 '^VIOLATION' | tail -1 | sed 's/^ *//' | cut -c1-260)
[ $rc -ne 1 ] && first=$(echo "$out" | grep "HARNESS\|^C[0-9][0-9] quick" | tail -1 | cut -c1-200)
python3 - "$sid" "$chk" "$rc" "$conf" "$first" <<'PY'
import json,sys
sid,chk,rc,conf,first=sys.argv[1:6]
p=f'/verif/seeded/{sid}/meta.json'
m=json.load(open(p))
ok='demo_without=0' in conf and 'demo_with=0' not in conf and 'tests=0' in conf
m['confirmed']=(f'scripts/confirm_seeded.sh seeded/{sid}: applies to /repo HEAD, go build ./... ok, demo passes without / fails with the change, tests of the touched packages pass with the change' if ok else 'NOT CONFIRMED: '+conf)
m['how_run']=f'VERIF_PATCHES=seeded/{sid}/patch.diff scripts/check.sh {chk} quick (overlay application; /repo untouched)'
if rc=='1': m['detected_by']=f'{chk.upper()} quick: VIOLATION {first}'
else: m['detected_by']=f'MISSED by {chk.upper()} quick at first (exit {rc}: {first})'
json.dump(m,open(p,'w'),indent=1)
print(f"{sid} vs {chk}: rc={rc} confirmed={ok} :: {first[:200]}")
PY
