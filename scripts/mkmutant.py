#!/usr/bin/env python3
"""usage: mkmutant.py <out.patch> <repo-rel-file> <<< python dict literal [(old,new),...] on stdin
Creates a unified diff (a/ b/ prefixes, -p1) replacing each old by new exactly once in /repo/<file>. /repo is not modified."""
import sys, difflib, ast
out, rel = sys.argv[1], sys.argv[2]
pairs = ast.literal_eval(sys.stdin.read())
src = open('/repo/' + rel).read()
dst = src
for old, new in pairs:
    assert dst.count(old) == 1, (rel, old[:60], dst.count(old))
    dst = dst.replace(old, new)
d = difflib.unified_diff(src.splitlines(True), dst.splitlines(True), 'a/' + rel, 'b/' + rel)
mode = 'a' if len(sys.argv) > 3 and sys.argv[3] == 'append' else 'w'
open(out, mode).write(''.join(d))
