# sourced by every script: offline Go environment
export GOFLAGS=-mod=mod GOPROXY=off GOSUMDB=off GOTOOLCHAIN=local
export GOCACHE=/verif/.gocache
export CGO_ENABLED=0
export VERIF_ROOT=/verif
