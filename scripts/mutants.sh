#!/bin/bash
# usage: scripts/mutants.sh <cNN> [tier]   — applies every mutants/<cNN>/*.patch through the overlay and
# requires the check to exit 1 with a VIOLATION line. Writes mutants/<cNN>/RESULTS.txt.
cd /verif
id="$1"; tier="${2:-quick}"
res="mutants/$id/RESULTS.txt"; : > "$res"
fail=0
for m in mutants/$id/*.patch; do
  [ -f "$m" ] || continue
  out=$(VERIF_PATCHES="$m" scripts/check.sh "$id" "$tier" 2>&1); rc=$?
  first=$(echo "$out" | grep -m1 -A1 '^VIOLATION' | tail -1 | cut -c1-200)
  if [ $rc -eq 1 ] && echo "$out" | grep -q '^VIOLATION'; then
    echo "KILLED  $(basename "$m")  :: $first" | tee -a "$res"
  else
    echo "MISSED  $(basename "$m")  rc=$rc :: $(echo "$out" | tail -1 | cut -c1-200)" | tee -a "$res"; fail=1
  fi
done
exit $fail
