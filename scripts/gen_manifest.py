#!/usr/bin/env python3
"""Regenerates /verif/MANIFEST.json from the table below (one entry per claimed check)."""
import json, os
CHECKS = {
 "C19": dict(cat="model_checking", tech="explicit-state exploration of derivation trees on the real config types (exhaustive to depth d) + state invariant + functional reference",
   text="Every derivation tree of With.../Instantiate calls up to the depth bound (any op applied to ANY existing node) is executed on the real ModuleConfig/FSConfig/RuntimeConfig; in every state the deep snapshot of every node equals its snapshot at creation, and at the leaves a WASI guest instantiated with each node observes exactly what a persistent functional reference predicts. Exhaustive within alphabet and depth; three env keys force cap>len slice collisions.",
   note="Trusts reflection-based deep snapshot (pointers outside wazero packages and the CompilationCache are compared by identity). Bound: depth 3 quick / 4-5 thorough over a 30/11/15-op alphabet.", ref="2.C19"),
}
PENDING_REASON = "no check built yet in this session; planned as bounded-exhaustive exploration in DESIGN.md section 2 (not a statement that model checking cannot apply)"
props = [json.loads(l)["id"] for l in open("/verif/properties.jsonl")]
checks = []
for pid in props:
    if pid not in CHECKS: continue
    c = CHECKS[pid]; lid = pid.lower()
    checks.append({
      "property_id": pid,
      "quick_cmd": f"scripts/check.sh {lid} quick",
      "thorough_cmd": f"scripts/check.sh {lid} thorough",
      "evidence_file": f"/verif/evidence/{pid}.json",
      "replay_cmd_template": f"scripts/check.sh {lid} replay {{path}}",
      "engine": c.get("engine", "fw"),
      "level_claimed": {"category": c["cat"], "text": c["text"], "design_ref": c["ref"]},
      "level_note": c["note"],
      "technique": c["tech"],
    })
m = {
 "version": 1,
 "setup_cmd": "scripts/setup.sh",
 "hooks": {
   "guard": "verif",
   "enable": "go build -tags verif [-overlay /verif/build/overlay-<id>.json] (overlay regenerated from /repo's current files by cmd/overlaygen at every check run; nothing is committed to /repo)",
   "baseline_off_cmd": "scripts/baseline_off.sh",
   "source_commits": [],
   "add_only": True,
 },
 "engines": [
   {"name": "fw", "path": "/verif/fw", "serves_properties": [c["property_id"] for c in checks],
    "kind_free_text": "hand-written bounded-exhaustive explorers on the real code: stateless word/tree enumeration, explicit-state BFS by replay, supervised child workers for crashing cases, evidence/known-findings contract"},
 ],
 "checks": checks,
 "notes": "All checks rebuild against /repo's working tree (go build with replace => /repo). Exit 0 held / 1 violation / 2 harness error.",
 "not_applicable": [{"property_id": p, "reason": PENDING_REASON} for p in props if p not in CHECKS],
}
json.dump(m, open("/verif/MANIFEST.json", "w"), indent=1)
print("claimed:", [c["property_id"] for c in checks])
