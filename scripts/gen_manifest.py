#!/usr/bin/env python3
"""Regenerates /verif/MANIFEST.json from the table below (one entry per claimed check)."""
import json, os
import glob
CHECKS = {}
FINDINGS = []
ACCEPTED = open("/verif/scripts/claimed.txt").read().split()   # checks reviewed and accepted by the coordinator
for f in sorted(glob.glob("/verif/checks/*/manifest.json")):
    pid = os.path.basename(os.path.dirname(f)).upper()
    if pid in ACCEPTED:
        CHECKS[pid] = json.load(open(f))
for f in sorted(glob.glob("/verif/checks/*/findings.json")):
    if os.path.basename(os.path.dirname(f)).upper() in ACCEPTED:
        FINDINGS += json.load(open(f))
json.dump(FINDINGS, open("/verif/known_findings.json", "w"), indent=1)
PENDING_REASON = "no check built yet in this session; planned as bounded-exhaustive exploration in DESIGN.md section 2 (not a statement that model checking cannot apply)"
props = [json.loads(l)["id"] for l in open("/verif/properties.jsonl")]
checks = []
for pid in props:
    if pid not in CHECKS: continue
    c = CHECKS[pid]; lid = pid.lower()
    checks.append({
      "property_id": pid,
      "quick_cmd": f"scripts/check.sh {lid} quick",
      "thorough_cmd": f"scripts/check.sh {lid} thorough",
      "evidence_file": f"/verif/evidence/{pid}.json",
      "replay_cmd_template": f"scripts/check.sh {lid} replay {{path}}",
      "engine": c.get("engine", "fw"),
      "level_claimed": {"category": c["cat"], "text": c["text"], "design_ref": c["ref"]},
      "level_note": c["note"],
      "technique": c["tech"],
    })
m = {
 "version": 1,
 "setup_cmd": "scripts/setup.sh",
 "hooks": {
   "guard": "verif",
   "enable": "go build -tags verif [-overlay /verif/build/overlay-<id>.json] (overlay regenerated from /repo's current files by cmd/overlaygen at every check run from checks/<id>/overlay.spec: import rewrites sync->shim/vsched and os->vos shims, added harness-only files, and for C10 the registry tuning constant nameToModuleShrinkThreshold turned into a settable variable; nothing is committed to /repo)",
   "baseline_off_cmd": "scripts/baseline_off.sh",
   "source_commits": [],
   "add_only": True,
 },
 "engines": [
   {"name": "fw", "path": "/verif/fw", "serves_properties": [c["property_id"] for c in checks],
    "kind_free_text": "hand-written bounded-exhaustive explorers on the real code: stateless word/tree enumeration, explicit-state BFS by replay, supervised child workers for crashing cases, evidence/known-findings contract"},
 ],
 "checks": checks,
 "notes": "All checks rebuild against /repo's working tree (go build with replace => /repo). Exit 0 held / 1 violation / 2 harness error.",
 "not_applicable": [{"property_id": p, "reason": PENDING_REASON} for p in props if p not in CHECKS],
}
json.dump(m, open("/verif/MANIFEST.json", "w"), indent=1)
print("claimed:", [c["property_id"] for c in checks])
