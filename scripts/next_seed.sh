#!/bin/bash
# usage: scripts/next_seed.sh C07  -> creates /tmp/seed-c07-N with PROMPT.md mentioning earlier seeds' summaries; prints the dir
id=$1; lid=$(echo $id | tr A-Z a-z)
n=1; while [ -d /verif/seeded/$lid-$n ] || [ -d /tmp/seed-$lid-$n ]; do n=$((n+1)); done
prev=$(python3 - <<PY
import json,glob
out=[]
for p in sorted(glob.glob('/verif/seeded/$lid-*/meta.json')):
    m=json.load(open(p)); out.append(m.get('summary','')[:260].replace('\n',' '))
print(' || '.join(out))
PY
)
wt=/tmp/seed-$lid-$n
git -C /repo worktree add -q --detach $wt HEAD || exit 1
hint=""
[ -n "$prev" ] && hint="Other engineers have ALREADY seeded these changes for this property, so do something different in site AND mechanism (and do not merely move the same idea to a sibling function): $prev"
python3 /verif/scripts/seed_prompt.py $id $wt "$hint" | sed "s#/tmp/$lid-scratch#/tmp/$lid-$n-scratch#" > $wt/PROMPT.md
echo "$lid-$n"
