import sys,json
sid,extra=sys.argv[1],(sys.argv[2] if len(sys.argv)>2 else "")
cid=sid.split('-')[0]; CID=cid.upper()
m=json.load(open(f'/verif/seeded/{sid}/meta.json'))
print(f"""You are taking over the maintenance of ONE check of a model-checking framework for tetratelabs/wazero: /verif/checks/{cid}/ (property {CID}). First read /verif/AGENT_GUIDE.md completely (rules, build commands, framework API — they bind you), then the line with id {CID} in /verif/properties.jsonl, then /verif/checks/{cid}/NOTES.md and the check's source.

Situation: an independent engineer wrote a realistic change to wazero that BREAKS property {CID} while wazero still compiles and its own tests pass — and our check did not report it. The change is /verif/seeded/{sid}/patch.diff, its description /verif/seeded/{sid}/meta.json, a failing demonstration /verif/seeded/{sid}/demo_test.go.
  summary: {m.get('summary','')}
  needs:   {m.get('needs','')}
  result of our check with the change applied: {m.get('detected_by','')}
{extra}
Your task (60 minutes at most; the machine is shared with ~12 other agents, so runs are slow — be patient, never conclude from a timing):
1. Understand which part of the behaviour behind the property the check does not explore (an operation, a configuration dimension, an input class, a sequence shape, an oracle that is too weak). Extend the check so that this CLASS of behaviour is enumerated exhaustively within a stated bound and decided by the oracle — a new alphabet letter / dimension / family / stronger oracle — NOT a special case for this patch, and nothing derived from reading the patch's line numbers. Think about which neighbouring variants of the same class belong in the new dimension as well and include them.
2. Copy the patch to /verif/mutants/{cid}/seeded-<short-slug>.patch and show `VERIF_PATCHES=mutants/{cid}/seeded-<slug>.patch scripts/check.sh {cid} quick` exits 1 with a VIOLATION line whose signature names the failing step; append the KILLED line to /verif/mutants/{cid}/RESULTS.txt by hand in the same format (do not re-run all the old mutants unless a run is short).
3. The unchanged tree must stay silent: run `VERIF_PATCHES=/verif/scripts/empty.patch scripts/check.sh {cid} quick` (a private run that does not overwrite the real evidence) at least twice: exit 0, identical counts. If the new exploration exposes a GENUINE defect of wazero on the unchanged tree, follow the "Defects" section of AGENT_GUIDE.md (specific signature, finding entry, fix proposal under /verif/fixes/ if small and safe); if it is your model that is wrong, fix the model. Keep the quick tier within about 120 s on an idle 16-core machine (it may take 3-5x longer now because of load); put the wider bounds into the thorough tier.
4. Update /verif/checks/{cid}/NOTES.md (what was added, counts, which mutant it kills, any false alarm met and how it was resolved) and the `text`/`note` of /verif/checks/{cid}/manifest.json so they describe the check as it now is (measured counts).
Hard rules: never modify /repo, never run git commands that change /repo or /verif (no commit/checkout/stash/apply on /repo), write only inside /verif/checks/{cid}/, /verif/mutants/{cid}/, /verif/fixes/ and scratch under /root/scratch/{cid}/ (delete scratch at the end). Other agents work on other checks in parallel.
Final message (≤15 lines): what class was missing, what you added (counts quick/thorough), the violation signature that now reports the seeded change, unchanged-tree result (counts, wall), any genuine defect found, anything unfinished.""")
