package main

import (
	"fmt"
	"os"
	"path/filepath"
	"strings"

	"github.com/tetratelabs/wazero/verif/fw"
)

// Calls that fail AFTER the host-side work: the result pointer lies outside guest memory.
//
// Every call of the alphabet that reports through a pointer (opened_fd of path_open, nread/nwritten of
// fd_read/fd_write/fd_pread/fd_pwrite, newoffset of fd_seek/fd_tell, bufused of fd_readdir, the filestat
// buffer of fd_filestat_get/path_filestat_get) is issued, after every prefix history of the family, with that
// pointer at 2^32-1, at the memory size, and one byte before the memory size (straddling the end). The call
// must end in EFAULT without a trap (or in the errno the model predicts for a call that fails anyway), and
// afterwards the implementation must be in ONE of two model states, decided by the complete probe:
//
//	A  the call had no effect at all;
//	B  the call's effect on files happened (data written, offset moved, file created/truncated) but the
//	   descriptor table is as before (a descriptor the guest was never told about does not exist).
//
// In both the descriptor table is the one before the call: fd_tell/fd_filestat_get on every slot 3..8, the
// listing of every directory descriptor, the next path_open must return the model's lowest free number, and
// for path_open the number of host files this instance holds open below its directory is unchanged.
const efaultEnabled = true

const eFAULT = 21

func efaultPrefixAlphabet() []Op {
	return []Op{
		{K: "path_open", Fd: 3, P: "a", Mode: "RW"},
		{K: "path_open", Fd: 3, P: "d", Mode: "DIRECTORY"},
		{K: "fd_close", Fd: 4},
		{K: "fd_close", Fd: 5},
	}
}

func efaultOps() []Op {
	var ops []Op
	for _, n := range names {
		for _, md := range []string{"RO", "RW", "CREAT", "CREAT_EXCL", "TRUNC", "DIRECTORY", "APPEND"} {
			if _, ok := openModes[md]; !ok {
				fw.Fatalf("efault: unknown open mode %q", md)
			}
			ops = append(ops, Op{K: "path_open", Fd: 3, P: n, Mode: md})
		}
	}
	ops = append(ops, Op{K: "path_open", Fd: 4, P: "x", Mode: "RO"}, Op{K: "path_open", Fd: 5, P: "x", Mode: "RO"})
	for _, fd := range []int32{4, 5} {
		ops = append(ops,
			Op{K: "fd_write", Fd: fd, Data: "xy"}, Op{K: "fd_read", Fd: fd},
			Op{K: "fd_pread", Fd: fd, Off: 0}, Op{K: "fd_pwrite", Fd: fd, Data: "xy", Off: 4},
			Op{K: "fd_seek", Fd: fd, Off: 3, Wh: 0}, Op{K: "fd_tell", Fd: fd},
			Op{K: "fd_readdir", Fd: fd, Len: 512}, Op{K: "fd_filestat_get", Fd: fd})
	}
	ops = append(ops, Op{K: "fd_readdir", Fd: 3, Len: 512}, Op{K: "fd_filestat_get", Fd: 3},
		Op{K: "path_filestat_get", Fd: 3, P: "a"}, Op{K: "path_filestat_get", Fd: 3, P: "d"}, Op{K: "path_filestat_get", Fd: 3, P: "b"})
	return ops
}

var efaultPointers = []uint32{0xFFFFFFFF, 65536, 65535}

// hostOpenBelow counts the descriptors of this process that refer to files at or below dir.
func hostOpenBelow(dir string) int {
	ents, err := os.ReadDir("/proc/self/fd")
	if err != nil {
		return -1
	}
	n := 0
	for _, e := range ents {
		l, err := os.Readlink("/proc/self/fd/" + e.Name())
		if err != nil {
			continue
		}
		l = strings.TrimSuffix(l, " (deleted)")
		if l == dir || strings.HasPrefix(l, dir+"/") {
			n++
		}
	}
	return n
}

type efaultCase struct {
	Prefix []Op   `json:"history"`
	Last   Op     `json:"bad_result_pointer_call"`
	Ptr    uint32 `json:"pointer"`
}

func (w *worker) executeEfault(c efaultCase, verbose bool) (r execResult) {
	w.seq++
	dir := filepath.Join(w.dir, fmt.Sprintf("t%d", w.seq))
	populate(dir)
	x := w.rt.instantiate(dir)
	defer func() {
		x.close()
		os.RemoveAll(dir)
	}()
	say := func(f string, a ...any) {
		if verbose {
			fmt.Printf(f+"\n", a...)
		}
	}
	mA, mB := newModel(), newModel()
	bA, bB := newBook(mA, dir), newBook(mB, dir)
	for i := range c.Prefix {
		o := &c.Prefix[i]
		exp, res := step(mA, x, o)
		expB := mB.apply(o)
		say("  step %d: %-30s -> errno=%d n=%d trap=%q | model: %s", i, o.String(), res.Errno, res.N, res.Trap, expString(exp))
		if f, d := compare(exp, res, bA); f != "" {
			r.mism = &mismatch{Sig: "efault:prefix:" + opSig(o) + ":" + f, Step: i, What: fmt.Sprintf("after [%s] the call %s: %s", histString(c.Prefix[:i]), o.String(), d)}
			return
		}
		compare(expB, res, bB)
	}
	o := c.Last
	where := fmt.Sprintf("after [%s] the call %s with its result pointer at %#x (outside the 64 KiB guest memory)", histString(c.Prefix), o.String(), c.Ptr)
	sig := "efault:" + opSig(&o) + ":result-pointer-outside-memory:"
	before, after := -1, -1
	if o.K == "path_open" {
		// the preopen's host directory is opened lazily by its first use: use it once (open + close, a no-op in
		// the model) so that the count before the call is comparable with the count after it
		for _, wo := range []Op{{K: "path_open", Fd: 3, P: "a", Mode: "RO"}, {K: "fd_close"}} {
			if wo.K == "fd_close" {
				wo.Fd = mA.lastFd
			}
			exp, res := step(mA, x, &wo)
			expB := mB.apply(&wo)
			if f, d := compare(exp, res, bA); f != "" {
				r.mism = &mismatch{Sig: "efault:prefix:" + opSig(&wo) + ":" + f, Step: len(c.Prefix), What: fmt.Sprintf("after [%s] the call %s: %s", histString(c.Prefix), wo.String(), d)}
				return
			}
			compare(expB, res, bB)
		}
		before = hostOpenBelow(dir)
	}
	x.bad, x.badP = true, c.Ptr
	res := x.do(&o)
	x.bad = false
	if o.K == "path_open" {
		after = hostOpenBelow(dir)
	}
	exp := mB.apply(&o) // B: the effect happened ...
	say("  bad-pointer call %s -> errno=%d trap=%q | model of the same call with a good pointer: %s", o.String(), res.Errno, res.Trap, expString(exp))
	if exp.Outside != "" || exp.OutsideIfOK != "" {
		r.outcome = "efault:outside-model"
		return
	}
	if res.Trap != "" {
		r.mism = &mismatch{Sig: sig + "trap", Step: len(c.Prefix), What: where + " trapped: " + res.Trap}
		return
	}
	if len(exp.Errs) > 0 && !exp.OrOK {
		if !errnoOK(exp, res.Errno) && res.Errno != eFAULT {
			r.mism = &mismatch{Sig: sig + "errno", Step: len(c.Prefix), What: fmt.Sprintf("%s returned errno %d, expected %s or EFAULT", where, res.Errno, errsString(exp.Errs))}
			return
		}
	} else if res.Errno != eFAULT && !(len(exp.Errs) > 0 && errnoOK(exp, res.Errno)) {
		r.mism = &mismatch{Sig: sig + "errno", Step: len(c.Prefix), What: fmt.Sprintf("%s returned errno %d, expected EFAULT (21)", where, res.Errno)}
		return
	}
	r.outcome = fmt.Sprintf("efault:%s:errno=%d", o.K, res.Errno)
	if o.K == "path_open" && len(exp.Errs) == 0 && exp.HasN {
		mB.apply(&Op{K: "fd_close", Fd: int32(exp.N)}) // ... but the guest never received the descriptor
	}
	// probe
	var probes []Op
	for fd := int32(3); fd <= 8; fd++ {
		probes = append(probes, Op{K: "fd_tell", Fd: fd}, Op{K: "fd_filestat_get", Fd: fd})
		if e := mA.fds[fd]; e != nil && e.ino.dir {
			probes = append(probes, Op{K: "fd_readdir", Fd: fd, Len: 512})
		}
		if e := mA.fds[fd]; e != nil && !e.ino.dir {
			probes = append(probes, Op{K: "fd_pread", Fd: fd, Off: 0})
		}
	}
	for _, n := range names {
		probes = append(probes, Op{K: "path_filestat_get", Fd: 3, P: n})
	}
	probes = append(probes, Op{K: "path_open", Fd: 3, P: "d", Mode: "DIRECTORY"}) // allocation probe: lowest free number
	for fd := int32(3); fd <= 8; fd++ {
		probes = append(probes, Op{K: "fd_tell", Fd: fd})
	}
	okA, okB := true, true
	var firstA, firstB string
	var sigA, sigB string
	for _, p := range probes {
		p := p
		pr := x.do(&p)
		failed := pr.Errno != 0 || pr.Trap != ""
		for k, m := range []*Model{mA, mB} {
			ok, book := &okA, bA
			if k == 1 {
				ok, book = &okB, bB
			}
			if !*ok {
				continue
			}
			m.hintFailed = failed
			e := m.apply(&p)
			m.hintFailed = false
			if f, d := compare(e, pr, book); f != "" {
				*ok = false
				msg := fmt.Sprintf("the probe %s: %s", p.String(), d)
				if k == 0 {
					firstA, sigA = msg, "post:"+p.K+":"+f
				} else {
					firstB, sigB = msg, "post:"+p.K+":"+f
				}
			}
		}
		if !okA && !okB {
			break
		}
	}
	got := hostTree(dir)
	if okA && got != mA.TreeString() {
		okA, firstA, sigA = false, fmt.Sprintf("the host directory is {%s}, model {%s}", got, mA.TreeString()), "post:host-tree"
	}
	if okB && got != mB.TreeString() {
		okB, firstB, sigB = false, fmt.Sprintf("the host directory is {%s}, model {%s}", got, mB.TreeString()), "post:host-tree"
	}
	if !okA && !okB {
		_ = sigA // the signature names what refutes the more permissive candidate (B)
		r.mism = &mismatch{Sig: sig + sigB, Step: len(c.Prefix) + 1,
			What: fmt.Sprintf("%s failed with errno %d; afterwards, against 'the call had no effect': %s; against 'the effect on files happened, descriptor table unchanged': %s", where, res.Errno, firstA, firstB)}
		return
	}
	if res.Errno != 0 && o.K == "path_open" && before >= 0 && after >= 0 && after != before {
		r.mism = &mismatch{Sig: sig + "host-open-files", Step: len(c.Prefix),
			What: fmt.Sprintf("%s failed with errno %d but the instance now holds %d host descriptors below its directory, before the call %d", where, res.Errno, after, before)}
		return
	}
	say("  probes agree with the model (no effect: %v; effect on files only: %v)", okA, okB)
	if okA {
		r.key = "A"
	} else {
		r.key = "B"
	}
	return
}

type efaultStats struct {
	cases, prefixes, effectHappened int64
	bounds                          map[string]any
}

func efaultExplore(run *fw.Run, outcomes *fw.Counter) efaultStats {
	st := efaultStats{}
	if !efaultEnabled {
		return st
	}
	depth := 3
	pa := efaultPrefixAlphabet()
	prefixes := [][]Op{nil}
	for lo, d := 0, 1; d <= depth; d++ {
		hi := len(prefixes)
		for _, h := range prefixes[lo:hi] {
			for _, o := range pa {
				prefixes = append(prefixes, append(append([]Op{}, h...), o))
			}
		}
		lo = hi
	}
	ops := efaultOps()
	var cases []efaultCase
	for _, h := range prefixes {
		for _, o := range ops {
			for _, p := range efaultPointers {
				cases = append(cases, efaultCase{Prefix: h, Last: o, Ptr: p})
			}
		}
	}
	results := make([]execResult, len(cases))
	pool(len(cases), func(w *worker, i int) {
		r := w.executeEfault(cases[i], false)
		if r.mism != nil {
			if r2 := w.executeEfault(cases[i], false); r2.mism == nil || r2.mism.Sig != r.mism.Sig {
				cleanup()
				fw.Fatalf("non-reproducible bad-result-pointer mismatch for %+v", cases[i])
			}
		}
		results[i] = r
	})
	for i := range results {
		r := &results[i]
		st.cases++
		if r.outcome != "" {
			outcomes.Inc(r.outcome)
		}
		if r.key == "B" {
			st.effectHappened++
		}
		if r.mism != nil {
			run.Violation(r.mism.Sig, r.mism.What, map[string]any{"kind": "efault", "efault": cases[i]})
		}
	}
	st.prefixes = int64(len(prefixes))
	st.bounds = map[string]any{"prefix_alphabet": len(pa), "prefix_depth": depth, "prefixes": len(prefixes), "calls": len(ops), "pointers": efaultPointers}
	return st
}
