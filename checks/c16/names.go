package main

import (
	"strings"
	"time"

	"github.com/tetratelabs/wazero/verif/fw"
)

// The name alphabet.
//
// Part 1 uses plain names. Here every call family that takes a name runs over awkward but legal
// names: leading dots (".a", "..a", "..."), a trailing dot, inner dots, "-" and "!" (sort before "."),
// a space, an inner space, a 255-byte name (the host maximum), a multi-byte UTF-8 name, two names that
// differ only by case — and ".." itself, which leaves the mount and must be refused without effect.
// For each name n (with a partner name m: the next awkward name, so that renames go from one awkward
// name to another; for the case pair the other case) a BFS of depth 2 (thorough: 3) with the same model,
// comparison, probes and variants as part 1 runs over: path_open(n) RO / CREAT / CREAT|EXCL / DIRECTORY,
// path_open(m, CREAT), path_create_directory(n), path_remove_directory(n), path_unlink_file(n),
// path_rename(n,m), path_rename(m,n), path_rename(a,n), path_filestat_get(n), path_open(4,"x",CREAT)
// (below a directory descriptor opened on the awkward name), fd_write(4,"xy"), fd_close(4),
// fd_readdir(3, 2048). The post-history probe additionally looks up n and m and lists the mount root
// (rewound, buf_len 2048): '.', '..' and EVERY model entry exactly once — so what path_filestat_get /
// path_open see must agree with what fd_readdir lists.
var longName = strings.Repeat("L", 255)

var awkwardNames = []string{".a", "..a", "...", "a.", "a..b", "-", "!", " ", "a b", longName, "é漢字", "k", "K", ".."}

func partner(i int) string {
	switch awkwardNames[i] {
	case "k":
		return "K"
	case "K":
		return "k"
	case "..":
		return "..a"
	}
	m := awkwardNames[(i+1)%len(awkwardNames)]
	if m == ".." {
		m = awkwardNames[0]
	}
	return m
}

func namesAlphabet(n, m string) []Op {
	var ops []Op
	for _, md := range []string{"RO", "CREAT", "CREAT_EXCL", "DIRECTORY"} {
		ops = append(ops, Op{K: "path_open", Fd: 3, P: n, Mode: md})
	}
	ops = append(ops,
		Op{K: "path_open", Fd: 3, P: m, Mode: "CREAT"},
		Op{K: "path_create_directory", Fd: 3, P: n},
		Op{K: "path_remove_directory", Fd: 3, P: n},
		Op{K: "path_unlink_file", Fd: 3, P: n},
		Op{K: "path_rename", Fd: 3, P: n, Fd2: 3, P2: m},
		Op{K: "path_rename", Fd: 3, P: m, Fd2: 3, P2: n},
		Op{K: "path_rename", Fd: 3, P: "a", Fd2: 3, P2: n},
		Op{K: "path_filestat_get", Fd: 3, P: n},
		Op{K: "path_open", Fd: 4, P: "x", Mode: "CREAT"},
		Op{K: "fd_write", Fd: 4, Data: "xy"},
		Op{K: "fd_close", Fd: 4},
		Op{K: "fd_readdir", Fd: 3, Len: 2048},
	)
	return ops
}

type namesStats struct {
	executions, states int64
	bounds             map[string]any
}

func namesExplore(run *fw.Run, outcomes *fw.Counter, samples *fw.Sampler) namesStats {
	depth := 2
	if run.Thorough() {
		depth = 3
	}
	var st namesStats
	per := map[string]any{}
	for i, n := range awkwardNames {
		m := partner(i)
		base := variant{ProbeNames: []string{n, m}, DirBuf: 2048}
		b := fsBFS(run, namesAlphabet(n, m), base, "names:", depth, time.Time{}, outcomes, samples)
		st.executions += b.transitions + b.primed + b.tableRuns
		st.states += b.states - 1
		per[showName(n)] = map[string]int64{"states": b.states, "transitions": b.transitions}
	}
	st.bounds = map[string]any{"names": showNames(awkwardNames), "depth": depth, "alphabet_per_name": len(namesAlphabet("n", "m")), "per_name": per}
	return st
}

func showName(n string) string {
	if len(n) > 16 {
		return n[:2] + "..(" + itoa(len(n)) + " bytes)"
	}
	return "\"" + n + "\""
}

func showNames(ns []string) []string {
	var o []string
	for _, n := range ns {
		o = append(o, showName(n))
	}
	return o
}

func itoa(i int) string {
	if i == 0 {
		return "0"
	}
	s := ""
	for ; i > 0; i /= 10 {
		s = string(rune('0'+i%10)) + s
	}
	return s
}
