// C16 — WASI file operations behave like a POSIX-style reference model.
//
// Part 1 (fsBFS): explicit-state BFS over sequences of WASI file-system calls. A state is the
// shortest call history that reaches a canonical reference-model state; a successor is computed by
// replaying history+op on a FRESH module instance over a FRESH host temp directory through the real
// wasi_snapshot_preview1 host functions, comparing every call with the in-memory reference model,
// then probing every descriptor (fd_tell, fd_filestat_get) and comparing the host directory tree.
//
// Part 2 (readdir.go): exhaustive fd_readdir exploration — every multiset of name lengths {1,8,40}
// for directory sizes 0..6 x every buf_len x every cookie sequence over the cookies returned so far.
package main

import (
	"crypto/sha256"
	"encoding/json"
	"fmt"
	"os"
	"path/filepath"
	"runtime"
	"sync"
	"sync/atomic"
	"syscall"
	"time"

	"github.com/tetratelabs/wazero/verif/fw"
)

// tmpRoot holds the read-only readdir fixtures (default temp dir: whatever file system the host
// uses, ext4 with hashed directory order on the reference machine). fastRoot holds the per-transition
// directories of the BFS: tmpfs (/dev/shm) when available, because every transition creates and
// removes a directory tree (64 us on tmpfs vs 2.3 ms on the ext4 of the reference machine).
var tmpRoot, fastRoot string

// hardStop (thorough only) ends the readdir exploration early so that a run on a loaded machine stays
// below 30 minutes; it is reported as a cap (exhaustive:false), never as a verdict.
var hardStop time.Time

func cleanup() {
	if tmpRoot != "" {
		os.RemoveAll(tmpRoot)
	}
	if fastRoot != "" {
		os.RemoveAll(fastRoot)
	}
}

func makeRoots() {
	var err error
	if tmpRoot, err = os.MkdirTemp("", "c16-"); err != nil {
		fw.Fatalf("mkdtemp: %v", err)
	}
	if st, e := os.Stat("/dev/shm"); e == nil && st.IsDir() && os.Getenv("C16_NO_SHM") == "" {
		if fastRoot, err = os.MkdirTemp("/dev/shm", "c16-"); err == nil {
			return
		}
	}
	if fastRoot, err = os.MkdirTemp("", "c16f-"); err != nil {
		cleanup()
		fw.Fatalf("mkdtemp: %v", err)
	}
}

func fsType(p string) string {
	var st syscall.Statfs_t
	if syscall.Statfs(p, &st) != nil {
		return "?"
	}
	switch st.Type {
	case 0x01021994:
		return "tmpfs"
	case 0xEF53:
		return "ext4"
	case 0x794c7630:
		return "overlayfs"
	case 0x9123683E:
		return "btrfs"
	case 0x58465342:
		return "xfs"
	}
	return fmt.Sprintf("0x%x", st.Type)
}

type worker struct {
	rt  *rtime
	dir string
	seq int
}

func newWorker(id int) *worker {
	d := filepath.Join(fastRoot, fmt.Sprintf("w%d", id))
	must(os.MkdirAll(d, 0o755))
	return &worker{rt: newRuntime(), dir: d}
}

// pool runs fn(w, i) for i in [0,n) on one worker per core.
func pool(n int, fn func(w *worker, i int)) {
	nw := runtime.NumCPU()
	if nw > n {
		nw = n
	}
	var next atomic.Int64
	var wg sync.WaitGroup
	for k := 0; k < nw; k++ {
		wg.Add(1)
		go func(k int) {
			defer wg.Done()
			w := newWorker(k)
			defer w.rt.rt.Close(ctx)
			for {
				i := int(next.Add(1) - 1)
				if i >= n {
					return
				}
				fn(w, i)
			}
		}(k)
	}
	wg.Wait()
}

type mismatch struct {
	Sig    string
	What   string
	Step   int // index of the failing call; len(history) = post-history probe
	Fields string
}

type execResult struct {
	key       string // canonical model state after the history ("" when not to be explored)
	mism      *mismatch
	outcome   string // classification of the LAST call
	outside   bool
	primedRun bool    // the history was also executed in the directory-primed variant
	tableRuns int     // number of additional descriptor-table variants executed
	failed    []bool  // per call of the history: the implementation's call failed
	v         variant // the variant the mismatch comes from (zero value: plain execution)
}

// variant describes how an execution deviates from the plain one (also part of the replay format).
type variant struct {
	// Primed: before the last call every directory descriptor is listed to its end in one call.
	Primed bool `json:"primed,omitempty"`
	// Touch: before the last call fd_tell is issued on these descriptor numbers, in this order
	// (drives most-recently-used / memoised lookups in the descriptor layer into a chosen state).
	Touch []int32 `json:"touch,omitempty"`
	// ProbeFirst: after the last call these numbers are probed (fd_tell, fd_filestat_get) before anything else.
	ProbeFirst []int32 `json:"probe_first,omitempty"`
	// ProbeNames: additional names looked up (path_filestat_get through fd 3) by the post-history probe.
	ProbeNames []string `json:"probe_names,omitempty"`
	// DirBuf: buf_len of the priming / probing fd_readdir calls (default 512).
	DirBuf uint32 `json:"dir_buf,omitempty"`
	// ProbeOffsets: the post-history probe also issues fd_pread at these offsets on every regular-file descriptor.
	ProbeOffsets []int64 `json:"probe_offsets,omitempty"`
}

func (v variant) with(base variant) variant {
	v.ProbeNames, v.DirBuf, v.ProbeOffsets = base.ProbeNames, base.DirBuf, base.ProbeOffsets
	return v
}

func (v variant) plain() bool { return !v.Primed && len(v.Touch) == 0 && len(v.ProbeFirst) == 0 }

// tableVariants: for a history whose last call changes the descriptor table according to the model
// (fd_close, fd_renumber, path_open succeeding), the executions in which every open descriptor is
// touched just before that call — the affected numbers last (in every order) or first — and the
// affected numbers are probed first afterwards (in every order).
func tableVariants(hist []Op, failed []bool) []variant {
	last := &hist[len(hist)-1]
	if last.K != "fd_close" && last.K != "fd_renumber" && last.K != "path_open" {
		return nil
	}
	m := newModel()
	if len(failed) != len(hist) {
		return nil
	}
	for i := range hist[:len(hist)-1] {
		m.hintFailed = failed[i]
		if e := m.apply(&hist[i]); e.Outside != "" {
			return nil
		}
	}
	m.hintFailed = failed[len(hist)-1]
	var open []int32
	for fd := int32(0); fd < 16; fd++ {
		if m.fds[fd] != nil {
			open = append(open, fd)
		}
	}
	exp := m.apply(last)
	if exp.Outside != "" || len(exp.Errs) > 0 {
		return nil
	}
	var aff []int32
	switch last.K {
	case "fd_close":
		aff = []int32{last.Fd}
	case "fd_renumber":
		aff = []int32{last.Fd}
		if last.Fd2 != last.Fd {
			aff = append(aff, last.Fd2)
		}
	case "path_open":
		aff = []int32{int32(exp.N)}
	}
	isAff := func(fd int32) bool {
		for _, a := range aff {
			if a == fd {
				return true
			}
		}
		return false
	}
	var others []int32
	for _, fd := range open {
		if !isAff(fd) {
			others = append(others, fd)
		}
	}
	perms := [][]int32{aff}
	if len(aff) == 2 {
		perms = append(perms, []int32{aff[1], aff[0]})
	}
	cat := func(a, b []int32) []int32 { return append(append([]int32{}, a...), b...) }
	var touches [][]int32
	for _, p := range perms {
		touches = append(touches, cat(others, p)) // affected last
	}
	if len(others) > 0 {
		touches = append(touches, cat(aff, others)) // affected first
	}
	var out []variant
	for _, t := range touches {
		for _, p := range perms {
			out = append(out, variant{Touch: t, ProbeFirst: p})
		}
	}
	return out
}

// changesDirectory: calls that can add/remove directory entries.
func changesDirectory(o *Op) bool {
	switch o.K {
	case "path_create_directory", "path_remove_directory", "path_unlink_file", "path_rename":
		return true
	case "path_open":
		return openModes[o.Mode].creat
	}
	return false
}

func opSig(o *Op) string {
	if o.K == "fd_renumber" && o.Fd == o.Fd2 {
		return "fd_renumber:from==to"
	}
	if o.K == "path_rename" && o.Fd == o.Fd2 && o.P == o.P2 {
		return "path_rename:old==new"
	}
	return o.K
}

func histString(h []Op) string {
	s := ""
	for i := range h {
		if i > 0 {
			s += " ; "
		}
		s += h[i].String()
	}
	return s
}

// execute replays a history on a fresh instance over a fresh host directory.
// primed: before the LAST call every (in-sync) directory descriptor is listed to its end in one
// call (cookie 0, buffer holding the whole listing), so that the dirent cache is fully populated when the
// last call changes a directory; the post-history probe then rewinds the same descriptors (cookie 0)
// and must see exactly the new listing. (A listing is a no-op in the model, so the BFS never has one
// inside a shortest history; priming supplies the readdir -> mutate -> readdir(0) interaction.)
//
// v.Touch / v.ProbeFirst: see variant.
func (w *worker) execute(hist []Op, verbose bool, v variant) (r execResult) {
	primed := v.Primed
	r.v = v
	driftSig := ""
	dirBuf := uint32(512)
	if v.DirBuf != 0 {
		dirBuf = v.DirBuf
	}
	w.seq++
	dir := filepath.Join(w.dir, fmt.Sprintf("t%d", w.seq))
	populate(dir)
	x := w.rt.instantiate(dir)
	defer func() {
		x.close()
		os.RemoveAll(dir)
	}()
	m := newModel()
	book := newBook(m, dir)
	say := func(f string, a ...any) {
		if verbose {
			fmt.Printf(f+"\n", a...)
		}
	}
	for i := range hist {
		o := &hist[i]
		if primed && i == len(hist)-1 {
			for fd := int32(3); fd <= 7; fd++ {
				if e := m.fds[fd]; e != nil && e.ino.dir {
					po := Op{K: "fd_readdir", Fd: fd, Len: dirBuf}
					exp, res := step(m, x, &po)
					say("  prime:  %-44s -> errno=%d bufused=%d | model: %s", po.String(), res.Errno, res.N, expString(exp))
					if f, d := compare(exp, res, book); f != "" {
						r.mism = &mismatch{Sig: "prime:fd_readdir:" + f, Step: i,
							What: fmt.Sprintf("after [%s] the listing %s: %s", histString(hist[:i]), po.String(), d)}
						return
					}
				}
			}
		}
		if i == len(hist)-1 {
			for _, fd := range v.Touch {
				to := Op{K: "fd_tell", Fd: fd}
				exp, res := step(m, x, &to)
				say("  touch:  %-44s -> errno=%d n=%d | model: %s", to.String(), res.Errno, res.N, expString(exp))
				if f, d := compare(exp, res, book); f != "" {
					r.mism = &mismatch{Sig: "touch:fd_tell:" + f, Step: i,
						What: fmt.Sprintf("after [%s] the call %s: %s", histString(hist[:i]), to.String(), d)}
					return
				}
			}
		}
		exp, res := step(m, x, o)
		say("  step %d: %-44s -> errno=%d n=%d trap=%q | model: %s", i, o.String(), res.Errno, res.N, res.Trap, expString(exp))
		r.failed = append(r.failed, res.Errno != 0 || res.Trap != "")
		if i == len(hist)-1 && m.driftedOK {
			// the last call went through a directory descriptor whose recorded path no longer names its
			// directory, and succeeded: any disagreement from here on means it acted on the path
			driftSig = "path-call-through-moved-directory-descriptor:" + o.K + ":acted-on-the-old-path"
		}
		if exp.OutsideIfOK != "" && res.Errno == 0 && res.Trap == "" {
			exp = Exp{Outside: exp.OutsideIfOK}
		}
		if i == len(hist)-1 {
			switch {
			case exp.Outside != "":
				r.outcome = o.K + ":outside-model"
			case res.Errno == 0:
				r.outcome = o.K + ":ok"
			default:
				r.outcome = fmt.Sprintf("%s:errno=%d", o.K, res.Errno)
			}
		}
		if f, d := compare(exp, res, book); f != "" {
			r.mism = &mismatch{Sig: opSig(o) + ":" + f, Step: i,
				What: fmt.Sprintf("after [%s] the call %s: %s", histString(hist[:i]), o.String(), d)}
			if driftSig != "" {
				r.mism.Sig = driftSig
			}
			if c := driftedListingClass(m, o, res, book); c != "" {
				r.mism.Sig = c
			}
			return
		}
		if exp.Outside != "" {
			say("  outside the model (%s): history not explored further", exp.Outside)
			r.outside = true
			return
		}
	}
	last := "initial"
	if len(hist) > 0 {
		last = opSig(&hist[len(hist)-1])
	}
	// probe every descriptor slot: offsets and file identity must be what the model says; every
	// directory descriptor must list (rewound) what the model tree holds; every name must look up
	// to what the model says.
	var probes []Op
	for _, fd := range v.ProbeFirst {
		probes = append(probes, Op{K: "fd_tell", Fd: fd}, Op{K: "fd_filestat_get", Fd: fd})
	}
	nFirst := len(probes)
	for fd := int32(3); fd <= 7; fd++ {
		probes = append(probes, Op{K: "fd_tell", Fd: fd}, Op{K: "fd_filestat_get", Fd: fd})
		if e := m.fds[fd]; e != nil && e.ino.dir {
			probes = append(probes, Op{K: "fd_readdir", Fd: fd, Len: dirBuf})
		}
		if e := m.fds[fd]; e != nil && !e.ino.dir {
			for _, off := range v.ProbeOffsets {
				probes = append(probes, Op{K: "fd_pread", Fd: fd, Off: off})
			}
		}
	}
	for _, n := range append(append([]string{}, names...), v.ProbeNames...) {
		probes = append(probes, Op{K: "path_filestat_get", Fd: 3, P: n})
	}
	{
		for pi, o := range probes {
			k := o.K
			exp, res := step(m, x, &o)
			if f, d := compare(exp, res, book); f != "" {
				say("  probe %s -> errno=%d n=%d | model: %s", o.String(), res.Errno, res.N, expString(exp))
				sig := last + ":post:" + k + ":" + f
				if primed && k == "fd_readdir" {
					sig = last + ":post:rewound-fd_readdir-after-full-listing:" + f
				}
				if pi < nFirst {
					sig = last + ":post:first-probe-after-touching-descriptors:" + k + ":" + f
				}
				if n := len(hist); n > 0 && hist[n-1].K == "fd_renumber" && hist[n-1].Fd == hist[n-1].Fd2 &&
					o.Fd == hist[n-1].Fd && (k == "fd_tell" || k == "fd_filestat_get") && f == "errno" && res.Errno == eBADF {
					// the descriptor that was renumbered onto itself (successfully) is now closed
					sig = "fd_renumber:from==to:descriptor-closed"
				}
				if driftSig != "" {
					sig = driftSig
				}
				if c := driftedListingClass(m, &o, res, book); c != "" {
					sig = c
				}
				r.mism = &mismatch{Sig: sig, Step: len(hist),
					What: fmt.Sprintf("after [%s]%s the probe %s: %s", histString(hist), variantString(v), o.String(), d)}
				return
			}
		}
	}
	if got, want := hostTree(dir), m.TreeString(); got != want {
		r.mism = &mismatch{Sig: last + ":post:host-tree", Step: len(hist),
			What: fmt.Sprintf("after [%s] the host directory is {%s}, model: {%s}", histString(hist), got, want)}
		if driftSig != "" {
			r.mism.Sig = driftSig
		}
		return
	}
	say("  probes and host tree agree: {%s}", m.TreeString())
	r.key = m.Key()
	return
}

// driftedListingClass recognises ONE specific shape of a wrong fd_readdir result: the descriptor's
// recorded path no longer names its directory, the call succeeded, and the listing shows nothing that
// is foreign to the original directory by NAME ('.' still carries the original inode, every listed
// name exists in the original directory) — but entries are missing or carry other inode numbers,
// because the host lists by descriptor and then lstat()s every entry through the OLD PATH. A listing
// with a name that only exists elsewhere, or another '.' inode, is NOT this class.
func driftedListingClass(m *Model, o *Op, res Res, book *inoBook) string {
	if o.K != "fd_readdir" || res.Errno != 0 || res.Trap != "" {
		return ""
	}
	e := m.fds[o.Fd]
	if e == nil || !e.ino.dir || m.inSync(e) {
		return ""
	}
	ents, _ := parseDirents(res.Buf, uint32(res.N))
	for i, d := range ents {
		if d.headerOnly {
			return ""
		}
		switch {
		case i == 0:
			if h, ok := book.ino[e.ino]; d.name != "." || (ok && h != d.ino) {
				return ""
			}
		case i == 1:
			if d.name != ".." {
				return ""
			}
		default:
			if e.ino.kids[d.name] == nil {
				return ""
			}
		}
	}
	return "fd_readdir:moved-directory-descriptor:entries-dropped-or-restatted-through-the-old-path"
}

func variantString(v variant) string {
	if v.plain() {
		return ""
	}
	s := " ("
	if v.Primed {
		s += "directories listed before the last call"
	}
	if len(v.Touch) > 0 {
		s += fmt.Sprintf("fd_tell on %v just before the last call, probing %v first", v.Touch, v.ProbeFirst)
	}
	return s + ")"
}

func expString(e Exp) string {
	switch {
	case e.Outside != "":
		return "outside (" + e.Outside + ")"
	case len(e.Errs) > 0:
		s := "errno " + errsString(e.Errs)
		if e.OrOK {
			s += " or success"
		}
		return s
	case e.HasN:
		return fmt.Sprintf("success n=%d", e.N)
	}
	return "success"
}

type hkey [16]byte

func hashKey(s string) (k hkey) {
	h := sha256.Sum256([]byte(s))
	copy(k[:], h[:16])
	return
}

type bfsStats struct {
	states, transitions, outside, pruned, primed, tableRuns int64
	perDepth                                                []map[string]int64
	exhaustive                                              bool
}

// fsBFS explores all histories over alpha up to depth. base carries probe options used by every
// execution; sigPrefix/kindTag distinguish the families (part 1: "", "fs"; awkward names: "names:", "fs").
func fsBFS(run *fw.Run, alpha []Op, base variant, sigPrefix string, depth int, deadline time.Time, outcomes *fw.Counter, samples *fw.Sampler) bfsStats {
	var st bfsStats
	st.exhaustive = true
	seen := map[hkey]bool{}
	// the initial state is itself validated (probes + host tree)
	w0 := newWorker(999)
	r0 := w0.execute(nil, false, base)
	w0.rt.rt.Close(ctx)
	if r0.mism != nil {
		// the empty history already disagrees: nothing to explore from
		run.Violation(sigPrefix+r0.mism.Sig, r0.mism.What, map[string]any{"kind": "fs", "history": []Op{}, "variant": base})
		outcomes.Inc("initial:mismatch")
		st.exhaustive = false
		return st
	}
	seen[hashKey(r0.key)] = true
	st.states = 1
	frontier := [][]uint16{nil}
	const chunkStates = 4096
	for d := 1; d <= depth && len(frontier) > 0; d++ {
		var next [][]uint16
		lvl := map[string]int64{"frontier": int64(len(frontier))}
		for c0 := 0; c0 < len(frontier); c0 += chunkStates {
			if run.Expired() || (!deadline.IsZero() && time.Now().After(deadline)) {
				run.Capped(fmt.Sprintf("budget at depth %d after %d of %d frontier states", d, c0, len(frontier)))
				st.exhaustive = false
				st.perDepth = append(st.perDepth, lvl)
				return st
			}
			c1 := c0 + chunkStates
			if c1 > len(frontier) {
				c1 = len(frontier)
			}
			n := (c1 - c0) * len(alpha)
			results := make([]execResult, n)
			pool(n, func(w *worker, i int) {
				h := frontier[c0+i/len(alpha)]
				hist := make([]Op, 0, len(h)+1)
				for _, oi := range h {
					hist = append(hist, alpha[oi])
				}
				hist = append(hist, alpha[i%len(alpha)])
				r := w.execute(hist, false, base)
				if r.mism == nil && !r.outside {
					// further executions of the same history: directory-primed and descriptor-table variants
					var vs []variant
					if changesDirectory(&hist[len(hist)-1]) {
						vs = append(vs, variant{Primed: true}.with(base))
						r.primedRun = true
					}
					tv := tableVariants(hist, r.failed)
					r.tableRuns = len(tv)
					for _, v := range append(vs, tv...) {
						v = v.with(base)
						r2 := w.execute(hist, false, v)
						if r2.mism != nil {
							r2.primedRun, r2.tableRuns, r2.outcome = r.primedRun, r.tableRuns, r.outcome
							r = r2
							break
						} else if r2.key != r.key {
							cleanup()
							fw.Fatalf("variant execution of [%s] ends in a different model state", histString(hist))
						}
					}
				}
				if r.mism != nil {
					// a verdict must be reproducible: same history and variant, fresh instance, two more times
					for k := 0; k < 2; k++ {
						if r2 := w.execute(hist, false, r.v); r2.mism == nil || r2.mism.Sig != r.mism.Sig {
							cleanup()
							fw.Fatalf("non-reproducible mismatch for [%s]: %s", histString(hist), r.mism.What)
						}
					}
				}
				results[i] = r
			})
			// deterministic merge in (state, op) order
			for i := range results {
				r := &results[i]
				h := frontier[c0+i/len(alpha)]
				oi := uint16(i % len(alpha))
				st.transitions++
				lvl["transitions"]++
				if r.primedRun {
					st.primed++
				}
				st.tableRuns += int64(r.tableRuns)
				outcomes.Inc(r.outcome)
				hist := func() []Op {
					var o []Op
					for _, k := range h {
						o = append(o, alpha[k])
					}
					return append(o, alpha[oi])
				}
				switch {
				case r.mism != nil:
					st.pruned++
					run.Violation(sigPrefix+r.mism.Sig, r.mism.What, map[string]any{"kind": "fs", "history": hist(), "variant": r.v})
				case r.outside:
					st.outside++
				default:
					k := hashKey(r.key)
					if !seen[k] {
						seen[k] = true
						st.states++
						lvl["new_states"]++
						nh := append(append(make([]uint16, 0, len(h)+1), h...), oi)
						next = append(next, nh)
						samples.Add(map[string]any{"history": histString(hist()), "state": r.key})
					}
				}
			}
		}
		st.perDepth = append(st.perDepth, lvl)
		frontier = next
	}
	return st
}

func main() {
	makeRoots()
	if len(os.Args) > 2 && os.Args[1] == "replay" {
		code := replay(os.Args[2])
		cleanup()
		os.Exit(code)
	}
	run := fw.Start("C16", "model_checking")
	depth := 3
	var deadline time.Time
	if run.Thorough() {
		// depth 5 is ~10^7 transitions (~200 s on 16 idle cores); the BFS part stops after 15 minutes at the
		// latest so that the whole thorough run stays below 30 minutes on a loaded machine.
		depth = 5
		deadline = time.Now().Add(15 * time.Minute)
		hardStop = time.Now().Add(27 * time.Minute)
	}
	if s := os.Getenv("C16_DEPTH"); s != "" {
		fmt.Sscan(s, &depth)
	}
	outcomes := fw.NewCounter()
	samples := fw.NewSampler(16)
	t0 := time.Now()
	st := fsBFS(run, alphabet(), variant{}, "", depth, deadline, outcomes, samples)
	nm := namesExplore(run, outcomes, samples)
	of := offsetsExplore(run, outcomes, samples)
	dr := driftExplore(run, outcomes)
	wd := wideExplore(run, outcomes)
	ef := efaultExplore(run, outcomes)
	t1 := time.Now()
	rd := readdirExplore(run, outcomes, samples)
	t2 := time.Now()
	fastFS, tmpFS := fsType(fastRoot), fsType(tmpRoot)
	cleanup()

	depths := []any{}
	for _, l := range st.perDepth {
		depths = append(depths, l)
	}
	run.Finish(fw.Coverage{
		Evaluations:     st.transitions + st.primed + st.tableRuns + nm.executions + of.executions + dr.histories + wd.words + ef.cases + rd.sequences + rd.mutated,
		DistinctNontriv: st.states - 1 + nm.states + of.states + wd.states + rd.sequences + rd.mutated,
		States:          st.states, Transitions: st.transitions, TracesValidated: st.transitions,
		Rule:    "fs: distinct canonical reference-model states (tree+contents, descriptor table with inode identity, offsets, append/write flags) other than the initial one, each reached by executing its shortest history on the real WASI implementation; readdir: distinct (directory, buf_len, cookie sequence) call sequences, each executed on a fresh directory descriptor; wide-table: distinct sets of open descriptor numbers reached from the N-descriptor tables; names / wide offsets: distinct model states of those BFS families; readdir-mutation: distinct (directory, buf_len, traversal prefix, mutation) cases",
		Samples: samples.List(), Exhaustive: st.exhaustive && of.exhaustive && rd.exhaustive, Outcomes: outcomes.Map(),
		Bounds: map[string]any{
			"fs_alphabet": len(alphabet()), "fs_depth": depth, "fs_per_depth": depths,
			"fs_names": names, "fs_fds": "3(preopen)..6", "fs_data": []string{"", "xy", "wazero"},
			"wide_table":   map[string]any{"N": wideNs, "numbers": "4,5,62..66,126..129,N+3,N+4", "depth": 2, "per_N": wd.perN},
			"wide_offsets": of.bounds, "bad_result_pointer": ef.bounds,
			"readdir": rd.bounds, "fs_host_filesystem": fastFS, "readdir_host_filesystem": tmpFS,
		},
		Extra: map[string]any{
			"descriptor_keeps_object_histories": dr.histories, "awkward_names_executions": nm.executions, "awkward_names_states": nm.states,
			"wide_offsets_executions": of.executions, "wide_offsets_states": of.states, "wide_offsets_transitions": of.transitions,
			"bad_result_pointer_cases": ef.cases, "bad_result_pointer_effect_on_files_happened": ef.effectHappened,
			"wide_table_words": wd.words, "wide_table_states": wd.states,
			"fs_transitions_also_executed_primed": st.primed, "fs_descriptor_table_variant_executions": st.tableRuns, "readdir_mutation_cases": rd.mutated,
			"fs_transitions_outside_model": st.outside, "fs_transitions_with_mismatch": st.pruned,
			"readdir_calls": rd.calls, "readdir_sequences": rd.sequences, "readdir_traversals": rd.traversals,
			"readdir_stale_cookie_results": rd.stale,
			"wall_fs_s":                    float64(int(t1.Sub(t0).Seconds()*10)) / 10, "wall_readdir_s": float64(int(t2.Sub(t1).Seconds()*10)) / 10,
		},
	}, []string{
		"one engine (interpreter): the WASI host functions, internal/sys and internal/sysfs are engine independent Go code",
		"host file system is the temp directory's (linux; ext4 or tmpfs); inode numbers are compared only for identity, timestamps and directory sizes/nlink not at all",
		"states are merged on the reference-model key: two histories with equal model state are assumed to leave the implementation in equivalent states (hidden state such as the dirent cache is exercised by part 2)",
		"outside the model, not explored further: path_* calls and fd_readdir through a non-preopen directory descriptor whose recorded path was renamed/removed (wazero resolves by name, documented on FileEntry.Name); fd_pwrite on an append-mode descriptor",
		"errno compared exactly for EBADF/ENOENT/EEXIST/ENOTDIR/EISDIR/ENOTEMPTY/EINVAL; ENOTSUP (renumber of/onto a preopen) as 'fails'; relaxations listed in NOTES.md",
	})
}

// replay re-executes a stored violation case and prints what happens.
func replay(file string) int {
	b, err := os.ReadFile(file)
	if err != nil {
		fw.Fatalf("%v", err)
	}
	var doc struct {
		Signature string `json:"signature"`
		Replay    struct {
			Kind    string       `json:"kind"`
			N       int          `json:"n"`
			History []Op         `json:"history"`
			Primed  bool         `json:"primed"` // older replay files
			Variant variant      `json:"variant"`
			Readdir *readdirCase `json:"readdir"`
			Efault  *efaultCase  `json:"efault"`
		} `json:"replay"`
	}
	if err := json.Unmarshal(b, &doc); err != nil {
		fw.Fatalf("%s: %v", file, err)
	}
	fmt.Printf("replaying %s (signature %s)\n", file, doc.Signature)
	switch doc.Replay.Kind {
	case "fs":
		w := newWorker(0)
		v := doc.Replay.Variant
		v.Primed = v.Primed || doc.Replay.Primed
		r := w.execute(doc.Replay.History, true, v)
		if r.mism != nil {
			fmt.Printf("MISMATCH signature=%s: %s\n", r.mism.Sig, r.mism.What)
			return 1
		}
		fmt.Println("no mismatch: the implementation agrees with the model on this history")
		return 0
	case "wide":
		w := newWorker(0)
		r := w.executeWide(doc.Replay.N, doc.Replay.History, true)
		if r.mism != nil {
			fmt.Printf("MISMATCH signature=%s: %s\n", r.mism.Sig, r.mism.What)
			return 1
		}
		fmt.Println("no mismatch: the implementation agrees with the model on this word")
		return 0
	case "efault":
		w := newWorker(0)
		r := w.executeEfault(*doc.Replay.Efault, true)
		if r.mism != nil {
			fmt.Printf("MISMATCH signature=%s: %s\n", r.mism.Sig, r.mism.What)
			return 1
		}
		fmt.Println("no mismatch: the implementation agrees with the model on this case")
		return 0
	case "readdir":
		return replayReaddir(doc.Replay.Readdir)
	}
	fw.Fatalf("unknown replay kind %q", doc.Replay.Kind)
	return 2
}
