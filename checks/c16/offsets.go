package main

import (
	"fmt"
	"math"
	"os"
	"path/filepath"
	"time"

	"github.com/tetratelabs/wazero/verif/fw"
)

// The 64-bit value alphabet.
//
// Part 1 uses offsets and sizes 0..10, so the upper 33 bits of every 64-bit argument and result are
// always zero there. WASI file offsets, sizes and seek deltas are 64-bit (filesize / filedelta); this
// family runs the calls that take or return one over the values at which a narrower or differently
// signed decoding changes the result:
//
//	2^31-1 (largest value that fits int32), 2^31 (int32: negative; uint32: unchanged), 2^32-2 (a 2-byte
//	write ends exactly at 2^32; a 6-byte write in two iovecs crosses it), 2^32 (low 32 bits zero), 2^32+3
//	(low 32 bits address existing content), 2^53+1 (not representable as float64; beyond 2^32 twice over),
//	and the negative values -1, -2^31 (survives an int32 round trip), -2^63; as seek deltas also -2^32 (low 32 bits zero).
//
// Files are sparse on the host (tmpfs / ext4), so none of this allocates more than a few pages; the
// reference model keeps contents sparse too (model.go) and the host tree is compared with
// SEEK_DATA/SEEK_HOLE (guest.go hostContent). Values the host file system cannot hold (probed once with
// ftruncate + pwrite on a scratch file) are dropped from the alphabet and reported in the bounds.
//
// BFS with the same reference model, comparison, probe and merge as part 1 over
//
//	path_open(3,"a",RW) (fd 4; content "abcdef"),
//	fd_pwrite(4,"xy",@v) for every v, fd_pwrite(4,"wazero",@2^31-2 | @2^32-2) (two iovecs across the boundary),
//	fd_pread(4,@v) for every v,
//	fd_seek(4,v,SET) for every v, fd_seek(4,d,CUR) for d in {2^31, 2^32, -2^31, -2^32}, fd_seek(4,d,END) for
//	d in {0, 2^32, -2^32},
//	fd_write(4,"xy"|"wazero"), fd_read(4) (sequential I/O at whatever offset the history reached),
//	fd_filestat_set_size(4,v) for every v and 3 (shrink back).
//
// After every history the probe (fd_tell: 64-bit offset; fd_filestat_get: 64-bit size; host tree: size and
// every non-zero byte of the file) additionally issues fd_pread at 0 and at v-2 for every positive v on
// every file descriptor, so where the data landed — and where it did not — is read back through WASI as well.
// Negative pread/pwrite offsets and sizes must fail without effect (POSIX EINVAL; wazero returns EIO for
// pread/pwrite because Go's ReadAt/WriteAt report "negative offset" without an errno — compared as
// "fails"); a seek to a negative position is EINVAL; seeking beyond the end is legal and a later write
// extends the file with a hole.
var (
	wideStrict = []int64{1<<31 - 1, 1 << 31, 1<<32 - 2, 1 << 32, 1<<32 + 3}
	wideHuge   = []int64{1<<53 + 1}
	wideNeg    = []int64{-1, -(1 << 31), math.MinInt64}
)

// hostHolds reports whether the BFS file system accepts a sparse file with data at off.
func hostHolds(off int64) bool {
	p := filepath.Join(fastRoot, "limit-probe")
	f, err := os.OpenFile(p, os.O_CREATE|os.O_RDWR|os.O_TRUNC, 0o600)
	if err != nil {
		return false
	}
	defer func() {
		f.Close()
		os.Remove(p)
	}()
	if f.Truncate(off+16) != nil {
		return false
	}
	if _, err := f.WriteAt([]byte("xy"), off); err != nil {
		return false
	}
	return true
}

func wideValues() (pos []int64, dropped []int64) {
	for _, v := range append(append([]int64{}, wideStrict...), wideHuge...) {
		if hostHolds(v) {
			pos = append(pos, v)
		} else {
			dropped = append(dropped, v)
		}
	}
	return
}

func offsetsAlphabet(pos []int64) []Op {
	all := append(append([]int64{}, pos...), wideNeg...)
	ops := []Op{{K: "path_open", Fd: 3, P: "a", Mode: "RW"}}
	for _, v := range all {
		ops = append(ops, Op{K: "fd_pwrite", Fd: 4, Data: "xy", Off: v})
	}
	ops = append(ops,
		Op{K: "fd_pwrite", Fd: 4, Data: "wazero", Off: 1<<31 - 2},
		Op{K: "fd_pwrite", Fd: 4, Data: "wazero", Off: 1<<32 - 2})
	for _, v := range all {
		ops = append(ops, Op{K: "fd_pread", Fd: 4, Off: v})
	}
	for _, v := range all {
		ops = append(ops, Op{K: "fd_seek", Fd: 4, Off: v, Wh: 0})
	}
	for _, d := range []int64{1 << 31, 1 << 32, -(1 << 31), -(1 << 32)} {
		ops = append(ops, Op{K: "fd_seek", Fd: 4, Off: d, Wh: 1})
	}
	for _, d := range []int64{0, 1 << 32, -(1 << 32)} {
		ops = append(ops, Op{K: "fd_seek", Fd: 4, Off: d, Wh: 2})
	}
	ops = append(ops,
		Op{K: "fd_write", Fd: 4, Data: "xy"},
		Op{K: "fd_write", Fd: 4, Data: "wazero"},
		Op{K: "fd_read", Fd: 4})
	for _, v := range all {
		ops = append(ops, Op{K: "fd_filestat_set_size", Fd: 4, Off: v})
	}
	ops = append(ops, Op{K: "fd_filestat_set_size", Fd: 4, Off: 3})
	return ops
}

type offsetsStats struct {
	executions, states, transitions int64
	exhaustive                      bool
	bounds                          map[string]any
}

func offsetsExplore(run *fw.Run, outcomes *fw.Counter, samples *fw.Sampler) offsetsStats {
	depth := 4
	var deadline time.Time
	if run.Thorough() {
		depth = 5
		deadline = time.Now().Add(6 * time.Minute)
	}
	if s := os.Getenv("C16_OFF_DEPTH"); s != "" {
		fmt.Sscan(s, &depth)
	}
	pos, dropped := wideValues()
	if len(pos) < len(wideStrict) {
		cleanup()
		fw.Fatalf("host file system %s cannot hold a sparse file beyond 4 GiB (dropped %v): the 64-bit offset family cannot run", fsType(fastRoot), dropped)
	}
	probe := []int64{0}
	for _, v := range pos {
		probe = append(probe, v-2)
	}
	alpha := offsetsAlphabet(pos)
	base := variant{ProbeOffsets: probe}
	b := fsBFS(run, alpha, base, "offsets:", depth, deadline, outcomes, samples)
	depths := []any{}
	for _, l := range b.perDepth {
		depths = append(depths, l)
	}
	return offsetsStats{
		executions: b.transitions + b.primed + b.tableRuns, states: b.states - 1, transitions: b.transitions, exhaustive: b.exhaustive,
		bounds: map[string]any{"values": decimals(append(append([]int64{}, pos...), wideNeg...)), "dropped_host_limit": decimals(dropped),
			"alphabet": len(alpha), "depth": depth, "per_depth": depths, "probe_pread_offsets": decimals(probe)},
	}
}

// decimals renders 64-bit values exactly (JSON numbers beyond 2^53 do not survive every reader).
func decimals(vs []int64) []string {
	out := []string{}
	for _, v := range vs {
		out = append(out, fmt.Sprint(v))
	}
	return out
}
