package main

import (
	"github.com/tetratelabs/wazero/verif/fw"
)

// "A descriptor keeps denoting the object it was opened on, whatever happens to its path afterwards."
//
// These histories are too long for the BFS depth, so they are enumerated as a product:
//
//	directories: open d with O_DIRECTORY as fd 4 — unread / listed once / listed to the end and rewound
//	  x displace: rename d away | empty and remove d | rename another (empty) directory over d
//	  x replace : nothing | mkdir d + create d/y | mkdir d + create d/x (same name as in the original)
//	              | build p/y elsewhere and rename p to d
//	  x observe on the OLD descriptor: fd_readdir(cookie 0), fd_filestat_get, path_open / path_filestat_get
//	              of x and y relative to it, path_create_directory and path_open(CREAT) relative to it
//	files: open a as fd 4 (unread / 2 bytes read) x displace: unlink | rename away | rename d/x over it
//	  x replace: nothing | create a new "a" with other content
//	  x observe on the old fd: fd_read, fd_pread, fd_filestat_get, fd_write (+ host tree)
//
// Every call is compared with the model, then the usual probe (tell/filestat/rewound listing of every
// descriptor, lookups, host tree). Model = POSIX: the old object. For directory descriptors whose
// recorded path no longer names their directory an errno is tolerated instead (see Model.base and
// fd_readdir in model.go), but never entries, inode numbers or effects of whatever is at the old path now.
type driftStats struct {
	histories int64
}

func driftHistories() [][]Op {
	open := func(p, mode string) Op { return Op{K: "path_open", Fd: 3, P: p, Mode: mode} }
	rd := Op{K: "fd_readdir", Fd: 4, Len: 2048}
	ren := func(a, b string) Op { return Op{K: "path_rename", Fd: 3, P: a, Fd2: 3, P2: b} }
	mkdir := func(p string) Op { return Op{K: "path_create_directory", Fd: 3, P: p} }
	cat := func(parts ...[]Op) []Op {
		var o []Op
		for _, p := range parts {
			o = append(o, p...)
		}
		return o
	}
	var out [][]Op
	// ---- directories
	reads := [][]Op{nil, {rd}, {rd, rd}}
	displace := [][]Op{
		{ren("d", "e")},
		{{K: "path_unlink_file", Fd: 3, P: "d/x"}, {K: "path_remove_directory", Fd: 3, P: "d"}},
		{mkdir("q"), {K: "path_unlink_file", Fd: 3, P: "d/x"}, ren("q", "d")},
	}
	replace := [][]Op{
		nil,
		{mkdir("d"), open("d/y", "CREAT"), {K: "fd_close", Fd: 5}},
		{mkdir("d"), open("d/x", "CREAT"), {K: "fd_write", Fd: 5, Data: "wazero"}, {K: "fd_close", Fd: 5}},
		{mkdir("p"), open("p/y", "CREAT"), {K: "fd_close", Fd: 5}, ren("p", "d")},
	}
	observe := []Op{
		rd,
		{K: "fd_filestat_get", Fd: 4},
		{K: "path_open", Fd: 4, P: "x", Mode: "RO"},
		{K: "path_open", Fd: 4, P: "y", Mode: "RO"},
		{K: "path_filestat_get", Fd: 4, P: "x"},
		{K: "path_filestat_get", Fd: 4, P: "y"},
		{K: "path_create_directory", Fd: 4, P: "z"},
		{K: "path_open", Fd: 4, P: "w", Mode: "CREAT"},
	}
	for _, r := range reads {
		for _, d := range displace {
			for _, c := range replace {
				for _, o := range observe {
					out = append(out, cat([]Op{open("d", "DIRECTORY")}, r, d, c, []Op{o}))
				}
			}
		}
	}
	// ---- files
	freads := [][]Op{nil, {{K: "fd_read", Fd: 4}}}
	fdisplace := [][]Op{
		{{K: "path_unlink_file", Fd: 3, P: "a"}},
		{ren("a", "e")},
		{ren("d/x", "a")},
	}
	freplace := [][]Op{
		nil,
		{open("a", "CREAT"), {K: "fd_write", Fd: 5, Data: "wazero"}, {K: "fd_close", Fd: 5}},
	}
	fobserve := []Op{
		{K: "fd_read", Fd: 4},
		{K: "fd_pread", Fd: 4, Off: 0},
		{K: "fd_filestat_get", Fd: 4},
		{K: "fd_write", Fd: 4, Data: "xy"},
	}
	for _, r := range freads {
		for _, d := range fdisplace {
			for _, c := range freplace {
				for _, o := range fobserve {
					out = append(out, cat([]Op{open("a", "RW")}, r, d, c, []Op{o}))
				}
			}
		}
	}
	return out
}

var driftProbeNames = []string{"e", "e/x", "e/z", "e/w", "d/y", "d/z", "d/w", "p", "q"}

func driftExplore(run *fw.Run, outcomes *fw.Counter) driftStats {
	hs := driftHistories()
	base := variant{ProbeNames: driftProbeNames, DirBuf: 2048}
	results := make([]execResult, len(hs))
	pool(len(hs), func(w *worker, i int) {
		r := w.execute(hs[i], false, base)
		if r.mism != nil {
			for k := 0; k < 2; k++ {
				if r2 := w.execute(hs[i], false, base); r2.mism == nil || r2.mism.Sig != r.mism.Sig {
					cleanup()
					fw.Fatalf("non-reproducible mismatch for [%s]: %s", histString(hs[i]), r.mism.What)
				}
			}
		}
		results[i] = r
	})
	for i := range results {
		r := &results[i]
		outcomes.Inc("drift:" + r.outcome)
		if r.mism != nil {
			run.Violation(r.mism.Sig, r.mism.What, map[string]any{"kind": "fs", "history": hs[i], "variant": base})
		}
	}
	return driftStats{histories: int64(len(hs))}
}
