package main

import (
	"bytes"
	"context"
	"encoding/binary"
	"fmt"
	"os"
	"path/filepath"
	"sort"
	"strings"
	"syscall"

	"github.com/tetratelabs/wazero"
	"github.com/tetratelabs/wazero/api"
	"github.com/tetratelabs/wazero/imports/wasi_snapshot_preview1"
	"github.com/tetratelabs/wazero/verif/fw"
	"github.com/tetratelabs/wazero/verif/wb"
)

// The guest wraps every imported WASI function in an exported function of the same name; the
// host side of the harness plays "guest program": it writes paths/iovecs into guest memory and
// calls the wrappers, so the real wasi_snapshot_preview1 host functions, internal/sys.FSContext
// and internal/sysfs run exactly as for a compiled guest.
var wasiFuncs = []struct {
	name   string
	params []byte
}{
	{"path_open", []byte{wb.I32, wb.I32, wb.I32, wb.I32, wb.I32, wb.I64, wb.I64, wb.I32, wb.I32}},
	{"fd_close", []byte{wb.I32}},
	{"fd_renumber", []byte{wb.I32, wb.I32}},
	{"fd_read", []byte{wb.I32, wb.I32, wb.I32, wb.I32}},
	{"fd_write", []byte{wb.I32, wb.I32, wb.I32, wb.I32}},
	{"fd_pread", []byte{wb.I32, wb.I32, wb.I32, wb.I64, wb.I32}},
	{"fd_pwrite", []byte{wb.I32, wb.I32, wb.I32, wb.I64, wb.I32}},
	{"fd_seek", []byte{wb.I32, wb.I64, wb.I32, wb.I32}},
	{"fd_tell", []byte{wb.I32, wb.I32}},
	{"fd_filestat_get", []byte{wb.I32, wb.I32}},
	{"fd_filestat_set_size", []byte{wb.I32, wb.I64}},
	{"fd_readdir", []byte{wb.I32, wb.I32, wb.I32, wb.I64, wb.I32}},
	{"path_create_directory", []byte{wb.I32, wb.I32, wb.I32}},
	{"path_remove_directory", []byte{wb.I32, wb.I32, wb.I32}},
	{"path_unlink_file", []byte{wb.I32, wb.I32, wb.I32}},
	{"path_rename", []byte{wb.I32, wb.I32, wb.I32, wb.I32, wb.I32, wb.I32}},
	{"path_filestat_get", []byte{wb.I32, wb.I32, wb.I32, wb.I32, wb.I32}},
}

var guestBin = func() []byte {
	m := &wb.Module{}
	idx := make([]uint32, len(wasiFuncs))
	for i, f := range wasiFuncs {
		idx[i] = m.ImportFunc("wasi_snapshot_preview1", f.name, f.params, []byte{wb.I32})
	}
	m.Mem = &wb.Limits{Min: 1}
	for i, f := range wasiFuncs {
		a := &wb.Asm{}
		for p := range f.params {
			a.LocalGet(uint32(p))
		}
		a.Call(idx[i])
		m.ExportFunc(f.name, m.AddFunc(f.params, []byte{wb.I32}, nil, a.B))
	}
	m.Exports = append(m.Exports, wb.Export{Name: "memory", Kind: wb.KindMemory, Idx: 0})
	return m.Encode()
}()

// guest memory layout
const (
	resP   = 8
	path1P = 8192 // 1 KiB each: names of up to 255 bytes below a directory
	path2P = 9216
	iovP   = 256
	wbufP  = 512
	rbufP  = 1024
	statP  = 2048
	dirP   = 4096
	dirMax = 2048 // largest buf_len used anywhere
	slack  = 32   // bytes after a buffer that must stay untouched
)

var ctx = context.Background()

type rtime struct {
	rt   wazero.Runtime
	code wazero.CompiledModule
}

func newRuntime() *rtime {
	rt := wazero.NewRuntimeWithConfig(ctx, wazero.NewRuntimeConfigInterpreter())
	if _, err := wasi_snapshot_preview1.Instantiate(ctx, rt); err != nil {
		fw.Fatalf("wasi: %v", err)
	}
	code, err := rt.CompileModule(ctx, guestBin)
	if err != nil {
		fw.Fatalf("guest module rejected: %v", err)
	}
	return &rtime{rt, code}
}

type inst struct {
	mod api.Module
	mem api.Memory
	fn  map[string]api.Function
	// bad/badP: the NEXT call is given badP as its result pointer (opened_fd, nread/nwritten, newoffset,
	// bufused, filestat buffer) instead of the usual place in guest memory (efault.go)
	bad  bool
	badP uint32
}

func (x *inst) rp() uint64 {
	if x.bad {
		return uint64(x.badP)
	}
	return resP
}

func (x *inst) sp() uint64 {
	if x.bad {
		return uint64(x.badP)
	}
	return statP
}

func (r *rtime) instantiate(hostDir string) *inst {
	cfg := wazero.NewModuleConfig().WithName("").WithFSConfig(wazero.NewFSConfig().WithDirMount(hostDir, "/"))
	mod, err := r.rt.InstantiateModule(ctx, r.code, cfg)
	if err != nil {
		fw.Fatalf("instantiate: %v", err)
	}
	return &inst{mod: mod, mem: mod.Memory(), fn: map[string]api.Function{}}
}

func (x *inst) close() { x.mod.Close(ctx) }

// Res is what the guest observes from one call.
type Res struct {
	Trap  string
	Errno uint32
	N     uint64
	Buf   []byte
	Stat  *statRes
}

type statRes struct {
	Ino, Nlink, Size uint64
	Type             uint64
}

func (x *inst) call(name string, args ...uint64) (uint32, string) {
	f := x.fn[name]
	if f == nil {
		f = x.mod.ExportedFunction(name)
		x.fn[name] = f
	}
	r, err := f.Call(ctx, args...)
	if err != nil {
		return 0, err.Error()
	}
	return uint32(r[0]), ""
}

func (x *inst) fill(p, n uint32) {
	b, _ := x.mem.Read(p, n)
	for i := range b {
		b[i] = sentinel
	}
}

func (x *inst) putPath(p uint32, s string) (uint64, uint64) {
	x.mem.Write(p, []byte(s))
	return uint64(p), uint64(len(s))
}

func (x *inst) u32(p uint32) uint64 { v, _ := x.mem.ReadUint32Le(p); return uint64(v) }
func (x *inst) u64(p uint32) uint64 { v, _ := x.mem.ReadUint64Le(p); return v }
func (x *inst) copyOut(p, n uint32) []byte {
	b, _ := x.mem.Read(p, n)
	return append([]byte{}, b...)
}

const (
	rightRead  = 1 << 1
	rightWrite = 1 << 6
)

func (x *inst) do(o *Op) (r Res) {
	x.fill(resP, 8)
	fd := uint64(uint32(o.Fd))
	switch o.K {
	case "path_open":
		md := openModes[o.Mode]
		var oflags, fdflags, rights uint64
		if md.creat {
			oflags |= 1
		}
		if md.directory {
			oflags |= 2
		}
		if md.excl {
			oflags |= 4
		}
		if md.trunc {
			oflags |= 8
		}
		if md.app {
			fdflags |= 1
		}
		switch o.Mode {
		case "RO":
			rights = rightRead
		case "RW":
			rights = rightRead | rightWrite
		}
		p, l := x.putPath(path1P, o.P)
		r.Errno, r.Trap = x.call(o.K, fd, 1, p, l, oflags, rights, 0, fdflags, x.rp())
		r.N = x.u32(resP)
	case "fd_close":
		r.Errno, r.Trap = x.call(o.K, fd)
	case "fd_renumber":
		r.Errno, r.Trap = x.call(o.K, fd, uint64(uint32(o.Fd2)))
	case "fd_read", "fd_pread":
		x.fill(rbufP, readArea)
		x.mem.WriteUint32Le(iovP, rbufP+readPos0)
		x.mem.WriteUint32Le(iovP+4, readLen0)
		x.mem.WriteUint32Le(iovP+8, rbufP+readPos1)
		x.mem.WriteUint32Le(iovP+12, readLen1)
		if o.K == "fd_read" {
			r.Errno, r.Trap = x.call(o.K, fd, iovP, 2, x.rp())
		} else {
			r.Errno, r.Trap = x.call(o.K, fd, iovP, 2, uint64(o.Off), x.rp())
		}
		r.N = x.u32(resP)
		r.Buf = x.copyOut(rbufP, readArea)
	case "fd_write", "fd_pwrite":
		// two iovecs: the first two bytes, then the rest
		d := []byte(o.Data)
		cut := 2
		if len(d) < cut {
			cut = len(d)
		}
		x.mem.Write(wbufP, d[:cut])
		x.mem.Write(wbufP+32, d[cut:])
		x.mem.WriteUint32Le(iovP, wbufP)
		x.mem.WriteUint32Le(iovP+4, uint32(cut))
		x.mem.WriteUint32Le(iovP+8, wbufP+32)
		x.mem.WriteUint32Le(iovP+12, uint32(len(d)-cut))
		n := uint64(2)
		if len(d) <= 2 {
			n = 1
		}
		if o.K == "fd_write" {
			r.Errno, r.Trap = x.call(o.K, fd, iovP, n, x.rp())
		} else {
			r.Errno, r.Trap = x.call(o.K, fd, iovP, n, uint64(o.Off), x.rp())
		}
		r.N = x.u32(resP)
	case "fd_seek":
		r.Errno, r.Trap = x.call(o.K, fd, uint64(o.Off), uint64(o.Wh), x.rp())
		r.N = x.u64(resP)
	case "fd_tell":
		r.Errno, r.Trap = x.call(o.K, fd, x.rp())
		r.N = x.u64(resP)
	case "fd_filestat_get":
		x.fill(statP, 64)
		r.Errno, r.Trap = x.call(o.K, fd, x.sp())
		r.Stat = x.readStat()
	case "fd_filestat_set_size":
		r.Errno, r.Trap = x.call(o.K, fd, uint64(o.Off))
	case "fd_readdir":
		r = x.readdir(o.Fd, o.Len, 0)
	case "path_create_directory", "path_remove_directory", "path_unlink_file":
		p, l := x.putPath(path1P, o.P)
		r.Errno, r.Trap = x.call(o.K, fd, p, l)
	case "path_filestat_get":
		x.fill(statP, 64)
		p, l := x.putPath(path1P, o.P)
		r.Errno, r.Trap = x.call(o.K, fd, 1, p, l, x.sp())
		r.Stat = x.readStat()
	case "path_rename":
		p, l := x.putPath(path1P, o.P)
		p2, l2 := x.putPath(path2P, o.P2)
		r.Errno, r.Trap = x.call(o.K, fd, p, l, uint64(uint32(o.Fd2)), p2, l2)
	default:
		fw.Fatalf("unknown op %q", o.K)
	}
	return
}

func (x *inst) readdir(fd int32, buflen uint32, cookie uint64) (r Res) {
	x.fill(resP, 8)
	x.fill(dirP, buflen+slack)
	r.Errno, r.Trap = x.call("fd_readdir", uint64(uint32(fd)), dirP, uint64(buflen), cookie, x.rp())
	r.N = x.u32(resP)
	r.Buf = x.copyOut(dirP, buflen+slack)
	return
}

func (x *inst) readStat() *statRes {
	return &statRes{Ino: x.u64(statP + 8), Type: x.u64(statP + 16), Nlink: x.u64(statP + 24), Size: x.u64(statP + 32)}
}

// step runs one call on the implementation, then on the model (which is told whether the call failed,
// see Model.hintFailed).
func step(m *Model, x *inst, o *Op) (Exp, Res) {
	res := x.do(o)
	m.hintFailed = res.Errno != 0 || res.Trap != ""
	exp := m.apply(o)
	m.hintFailed = false
	return exp, res
}

// ---------------------------------------------------------------- comparison

// inoBook records the host inode number first observed for each model inode: the same model
// inode must always show the same number, two live model inodes never the same one. (Numbers
// themselves are host-assigned and not compared.)
type inoBook struct {
	m   *Model
	ino map[*inode]uint64
}

// newBook seeds the book with the inode numbers of the initial tree, which the harness created itself.
func newBook(m *Model, dir string) *inoBook {
	b := &inoBook{m: m, ino: map[*inode]uint64{}}
	seed := func(n *inode, p string) {
		if st, err := os.Lstat(p); err == nil {
			if s, ok := st.Sys().(*syscall.Stat_t); ok {
				b.ino[n] = s.Ino
			}
		}
	}
	seed(m.root, dir)
	if a := m.root.kids["a"]; a != nil {
		seed(a, filepath.Join(dir, "a"))
	}
	if d := m.root.kids["d"]; d != nil {
		seed(d, filepath.Join(dir, "d"))
		if x := d.kids["x"]; x != nil {
			seed(x, filepath.Join(dir, "d", "x"))
		}
	}
	return b
}

func (b *inoBook) observe(n *inode, host uint64) string {
	if prev, ok := b.ino[n]; ok {
		if prev != host {
			return fmt.Sprintf("inode number changed %d -> %d for the same file", prev, host)
		}
		return ""
	}
	for o, h := range b.ino {
		if h == host && o != n && b.m.live(o) {
			return fmt.Sprintf("inode number %d shown for two different live files", host)
		}
	}
	b.ino[n] = host
	return ""
}

func errnoOK(e Exp, got uint32) bool {
	for _, w := range e.Errs {
		if w == got || w == anyErr {
			return true
		}
	}
	return false
}

func errsString(es []uint32) string {
	var s []string
	for _, e := range es {
		if e == anyErr {
			s = append(s, "any")
		} else {
			s = append(s, fmt.Sprint(e))
		}
	}
	return strings.Join(s, "|")
}

// compare returns ("", "") when the observation matches the prediction, else (field, detail).
func compare(e Exp, r Res, book *inoBook) (string, string) {
	if r.Trap != "" {
		return "trap", "call trapped: " + r.Trap
	}
	if e.Outside != "" {
		return "", ""
	}
	if len(e.Errs) > 0 {
		if r.Errno == 0 {
			if e.OrOK && r.N == 0 {
				return "", ""
			}
			return "errno", fmt.Sprintf("succeeded (n=%d), model: errno %s", r.N, errsString(e.Errs))
		}
		if !errnoOK(e, r.Errno) {
			return "errno", fmt.Sprintf("errno %d, model: errno %s", r.Errno, errsString(e.Errs))
		}
		return "", ""
	}
	if r.Errno != 0 {
		return "errno", fmt.Sprintf("errno %d, model: success", r.Errno)
	}
	if e.HasN && r.N != e.N {
		return "value", fmt.Sprintf("returned %d, model: %d", r.N, e.N)
	}
	if e.Buf != nil && !bytes.Equal(e.Buf, r.Buf) {
		return "data", fmt.Sprintf("read area %q, model: %q", showBuf(r.Buf), showBuf(e.Buf))
	}
	if e.Stat != nil {
		n := e.Stat.ino
		wantT := uint64(ftFile)
		if n.dir {
			wantT = ftDir
		}
		if r.Stat.Type != wantT {
			return "filetype", fmt.Sprintf("filetype %d, model: %d", r.Stat.Type, wantT)
		}
		if !n.dir {
			if r.Stat.Size != uint64(n.size) {
				return "size", fmt.Sprintf("size %d, model: %d", r.Stat.Size, n.size)
			}
			wantL := uint64(0)
			if n.linked {
				wantL = 1
			}
			if r.Stat.Nlink != wantL {
				return "nlink", fmt.Sprintf("nlink %d, model: %d", r.Stat.Nlink, wantL)
			}
		}
		if d := book.observe(n, r.Stat.Ino); d != "" {
			return "ino", d
		}
	}
	if e.Dir != nil {
		return compareDir(e.Dir, r, book)
	}
	return "", ""
}

func showBuf(b []byte) string {
	return strings.ReplaceAll(string(b), string([]byte{sentinel}), ".")
}

type dent struct {
	next, ino   uint64
	namlen, typ uint32
	name        string
	headerOnly  bool
}

// parseDirents decodes a fd_readdir buffer the way a WASI libc does.
func parseDirents(buf []byte, used uint32) (ents []dent, end uint32) {
	pos := uint32(0)
	for used-pos >= 24 {
		d := dent{next: binary.LittleEndian.Uint64(buf[pos:]), ino: binary.LittleEndian.Uint64(buf[pos+8:]),
			namlen: binary.LittleEndian.Uint32(buf[pos+16:]), typ: binary.LittleEndian.Uint32(buf[pos+20:])}
		if uint64(pos)+24+uint64(d.namlen) > uint64(used) {
			d.headerOnly = true
			ents = append(ents, d)
			pos += 24
			break
		}
		d.name = string(buf[pos+24 : pos+24+d.namlen])
		ents = append(ents, d)
		pos += 24 + d.namlen
	}
	return ents, pos
}

// compareDir checks a rewound listing (cookie 0) of a directory of the BFS tree. The order of the
// real entries is the host's; '.', '..' come first.
func compareDir(e *dirExp, r Res, book *inoBook) (string, string) {
	want := map[string]*inode{}
	total := uint32(25 + 26)
	for k, c := range e.self.kids {
		want[k] = c
		total += 24 + uint32(len(k))
	}
	if e.buflen < total {
		// only used with buf_len 30: exactly "." fits, ".." does not (5 bytes left, no header)
		if e.buflen != 30 {
			panic("model: unsupported buf_len")
		}
		if r.N != 30 {
			return "bufused", fmt.Sprintf("bufused %d for a truncated listing, model: buf_len (30)", r.N)
		}
		ents, end := parseDirents(r.Buf, 30)
		if len(ents) != 1 || ents[0].name != "." || ents[0].next != 1 || ents[0].typ != ftDir || end != 25 {
			return "dirents", fmt.Sprintf("truncated listing holds %+v, model: exactly '.'", ents)
		}
		for _, b := range r.Buf[25:] {
			if b != sentinel {
				return "dirents", "bytes after the last complete entry were written"
			}
		}
		if d := book.observe(e.self, ents[0].ino); d != "" {
			return "ino", d
		}
		return "", ""
	}
	if r.N != uint64(total) {
		return "bufused", fmt.Sprintf("bufused %d, model: %d", r.N, total)
	}
	for _, b := range r.Buf[total:] {
		if b != sentinel {
			return "dirents", "bytes after bufused were written"
		}
	}
	ents, end := parseDirents(r.Buf, total)
	if end != total || len(ents) != len(want)+2 {
		return "dirents", fmt.Sprintf("listing %s, model: . .. + %d entries", entNames(ents), len(want))
	}
	for i, d := range ents {
		if d.headerOnly || d.next != uint64(i+1) {
			return "dirents", fmt.Sprintf("entry %d: d_next %d headerOnly %v", i, d.next, d.headerOnly)
		}
		switch i {
		case 0:
			if d.name != "." || d.typ != ftDir {
				return "dirents", "first entry is not '.'"
			}
			if s := book.observe(e.self, d.ino); s != "" {
				return "ino", s
			}
		case 1:
			if d.name != ".." || d.typ != ftDir {
				return "dirents", "second entry is not '..'"
			}
		default:
			c := want[d.name]
			if c == nil {
				return "dirents", fmt.Sprintf("listing %s has unexpected or repeated entry %q", entNames(ents), d.name)
			}
			delete(want, d.name)
			wt := uint32(ftFile)
			if c.dir {
				wt = ftDir
			}
			if d.typ != wt {
				return "dirents", fmt.Sprintf("entry %q has d_type %d, model: %d", d.name, d.typ, wt)
			}
			if s := book.observe(c, d.ino); s != "" {
				return "ino", s
			}
		}
	}
	return "", ""
}

func entNames(es []dent) string {
	var s []string
	for _, e := range es {
		if e.headerOnly {
			s = append(s, fmt.Sprintf("<header namlen=%d>", e.namlen))
		} else {
			s = append(s, e.name)
		}
	}
	return "[" + strings.Join(s, " ") + "]"
}

// ---------------------------------------------------------------- host tree

func populate(dir string) {
	must(os.Mkdir(dir, 0o755))
	must(os.WriteFile(filepath.Join(dir, "a"), []byte("abcdef"), 0o600))
	must(os.Mkdir(filepath.Join(dir, "d"), 0o700))
	must(os.WriteFile(filepath.Join(dir, "d", "x"), []byte("XY"), 0o600))
}

func must(err error) {
	if err != nil {
		cleanup()
		fw.Fatalf("host fs: %v", err)
	}
}

func hostTree(dir string) string {
	var out []string
	var visit func(p, rel string)
	visit = func(p, rel string) {
		es, err := os.ReadDir(p)
		if err != nil {
			out = append(out, rel+"!"+err.Error())
			return
		}
		for _, e := range es {
			r := rel + "/" + e.Name()
			switch {
			case e.IsDir():
				out = append(out, r+"/")
				visit(filepath.Join(p, e.Name()), r)
			case e.Type().IsRegular():
				out = append(out, fmt.Sprintf("%s=%s", r, hostContent(filepath.Join(p, e.Name()))))
			default:
				out = append(out, r+"?"+e.Type().String())
			}
		}
	}
	visit(dir, "")
	sort.Strings(out)
	return strings.Join(out, " ")
}

// hostContent renders a host file the way inode.content renders the model's: small files are read whole,
// larger ones are walked with SEEK_DATA/SEEK_HOLE so that a sparse file of 2^53 bytes costs a few pages.
// (A file with more than 1 MiB of allocated data — nothing in the model does that — is reported as such.)
func hostContent(path string) string {
	f, err := os.Open(path)
	if err != nil {
		return "!" + err.Error()
	}
	defer f.Close()
	st, err := f.Stat()
	if err != nil {
		return "!" + err.Error()
	}
	size := st.Size()
	nz := map[int64]byte{}
	const seekData, seekHole = 3, 4
	var read int64
	for pos := int64(0); pos < size; {
		start, err := f.Seek(pos, seekData)
		if err != nil {
			if err.(*os.PathError).Err == syscall.ENXIO {
				break // only a hole up to the end
			}
			return "!" + err.Error()
		}
		end, err := f.Seek(start, seekHole)
		if err != nil {
			return "!" + err.Error()
		}
		if end > size {
			end = size
		}
		if read += end - start; read > 1<<20 {
			return fmt.Sprintf("sparse(size=%d, more than 1 MiB of data)", size)
		}
		buf := make([]byte, end-start)
		if _, err := f.ReadAt(buf, start); err != nil {
			return "!" + err.Error()
		}
		for i, c := range buf {
			if c != 0 {
				nz[start+int64(i)] = c
			}
		}
		if end <= pos {
			return "!seek made no progress"
		}
		pos = end
	}
	return sparseString(size, nz)
}
