package main

import "fmt"

// Op is one WASI file-system call of the alphabet. It is also the replay format.
type Op struct {
	K    string `json:"op"`
	Fd   int32  `json:"fd,omitempty"`   // descriptor operand (dirfd for path_* calls)
	Fd2  int32  `json:"fd2,omitempty"`  // fd_renumber: to ; path_rename: new dirfd
	P    string `json:"path,omitempty"` // path operand
	P2   string `json:"path2,omitempty"`
	Mode string `json:"mode,omitempty"` // path_open variant (see openModes)
	Data string `json:"data,omitempty"` // fd_write / fd_pwrite payload
	Off  int64  `json:"off,omitempty"`  // fd_seek delta, fd_pread/fd_pwrite offset, fd_filestat_set_size size
	Wh   uint32 `json:"whence,omitempty"`
	Len  uint32 `json:"len,omitempty"` // fd_readdir buf_len
}

func (o Op) String() string {
	switch o.K {
	case "path_open":
		return fmt.Sprintf("path_open(%d,%q,%s)", o.Fd, o.P, o.Mode)
	case "fd_renumber":
		return fmt.Sprintf("fd_renumber(%d,%d)", o.Fd, o.Fd2)
	case "fd_write":
		return fmt.Sprintf("fd_write(%d,%q)", o.Fd, o.Data)
	case "fd_pwrite":
		return fmt.Sprintf("fd_pwrite(%d,%q,@%d)", o.Fd, o.Data, o.Off)
	case "fd_pread":
		return fmt.Sprintf("fd_pread(%d,@%d)", o.Fd, o.Off)
	case "fd_seek":
		return fmt.Sprintf("fd_seek(%d,%d,whence=%d)", o.Fd, o.Off, o.Wh)
	case "fd_filestat_set_size":
		return fmt.Sprintf("fd_filestat_set_size(%d,%d)", o.Fd, o.Off)
	case "fd_readdir":
		return fmt.Sprintf("fd_readdir(%d,buf_len=%d,cookie=0)", o.Fd, o.Len)
	case "path_rename":
		return fmt.Sprintf("path_rename(%d,%q,%d,%q)", o.Fd, o.P, o.Fd2, o.P2)
	case "path_create_directory", "path_remove_directory", "path_unlink_file", "path_filestat_get":
		return fmt.Sprintf("%s(%d,%q)", o.K, o.Fd, o.P)
	}
	return fmt.Sprintf("%s(%d)", o.K, o.Fd)
}

// path_open variants: (oflags, fdflags, rights) as a guest would pass them.
type openMode struct {
	creat, excl, trunc, directory, app bool
	write                              bool // descriptor is writable (O_RDWR)
}

var openModes = map[string]openMode{
	"RO":         {},                         // rights = FD_READ             -> O_RDONLY
	"RW":         {write: true},              // rights = FD_READ|FD_WRITE    -> O_RDWR
	"CREAT":      {creat: true, write: true}, // oflags = CREAT               -> O_RDWR|O_CREAT
	"CREAT_EXCL": {creat: true, excl: true, write: true},
	"TRUNC":      {trunc: true, write: true}, // oflags = TRUNC               -> O_RDWR|O_TRUNC
	"DIRECTORY":  {directory: true},          // oflags = DIRECTORY           -> O_RDONLY|O_DIRECTORY
	"APPEND":     {app: true, write: true},   // fdflags = APPEND             -> O_RDWR|O_APPEND
}

var names = []string{"a", "b", "d", "d/x"}

// alphabet is the fixed, ordered operation alphabet of the BFS.
func alphabet() []Op {
	var ops []Op
	add := func(o Op) { ops = append(ops, o) }
	for _, n := range names {
		for _, m := range []string{"RO", "RW", "CREAT", "CREAT_EXCL", "TRUNC", "DIRECTORY", "APPEND"} {
			add(Op{K: "path_open", Fd: 3, P: n, Mode: m})
		}
	}
	// through a non-preopen directory descriptor
	add(Op{K: "path_open", Fd: 4, P: "x", Mode: "RO"})
	add(Op{K: "path_open", Fd: 4, P: "x", Mode: "CREAT"})
	for fd := int32(3); fd <= 6; fd++ {
		add(Op{K: "fd_close", Fd: fd})
	}
	for from := int32(3); from <= 6; from++ {
		for to := int32(3); to <= 6; to++ {
			add(Op{K: "fd_renumber", Fd: from, Fd2: to})
		}
	}
	for _, fd := range []int32{3, 4, 5, 6} {
		add(Op{K: "fd_read", Fd: fd})
	}
	add(Op{K: "fd_write", Fd: 3, Data: "xy"})
	add(Op{K: "fd_write", Fd: 6, Data: "xy"})
	for _, fd := range []int32{4, 5} {
		for _, d := range []string{"", "xy", "wazero"} {
			add(Op{K: "fd_write", Fd: fd, Data: d})
		}
		for _, off := range []int64{0, 3} {
			add(Op{K: "fd_pread", Fd: fd, Off: off})
		}
		for _, off := range []int64{0, 4} {
			add(Op{K: "fd_pwrite", Fd: fd, Data: "xy", Off: off})
		}
		for _, s := range []struct {
			off int64
			wh  uint32
		}{{0, 0}, {3, 0}, {-1, 1}, {2, 1}, {0, 2}, {-2, 2}, {1, 3}} {
			add(Op{K: "fd_seek", Fd: fd, Off: s.off, Wh: s.wh})
		}
		for _, sz := range []int64{0, 3, 10} {
			add(Op{K: "fd_filestat_set_size", Fd: fd, Off: sz})
		}
	}
	add(Op{K: "fd_pread", Fd: 3, Off: 0})
	add(Op{K: "fd_pwrite", Fd: 3, Data: "xy", Off: 0})
	add(Op{K: "fd_seek", Fd: 3, Off: 0, Wh: 0})
	add(Op{K: "fd_filestat_set_size", Fd: 3, Off: 0})
	for _, fd := range []int32{3, 4, 5} {
		add(Op{K: "fd_tell", Fd: fd})
	}
	for _, fd := range []int32{3, 4, 5, 6} {
		add(Op{K: "fd_filestat_get", Fd: fd})
	}
	for _, fd := range []int32{3, 4, 5} {
		for _, l := range []uint32{30, 512} {
			add(Op{K: "fd_readdir", Fd: fd, Len: l})
		}
	}
	for _, k := range []string{"path_create_directory", "path_remove_directory", "path_unlink_file", "path_filestat_get"} {
		for _, n := range names {
			add(Op{K: k, Fd: 3, P: n})
		}
		if k != "path_remove_directory" {
			add(Op{K: k, Fd: 4, P: "x"})
		}
	}
	for _, a := range names {
		for _, b := range names {
			add(Op{K: "path_rename", Fd: 3, P: a, Fd2: 3, P2: b})
		}
	}
	return ops
}
