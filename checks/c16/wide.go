package main

import (
	"fmt"
	"os"
	"path/filepath"
	"sort"
	"strings"

	"github.com/tetratelabs/wazero/verif/fw"
)

// Wide descriptor tables.
//
// internal/descriptor.Table keeps one 64-bit occupancy mask per 64 descriptors and grows by whole
// words; the BFS of part 1 never leaves the first word. This family prepares a table with N open
// descriptors (N x path_open of the same small file: fds 4..N+3 next to stdio and the preopen) for N
// around the word boundaries, and then runs a small BFS (same reference model, same comparison, fresh
// instance per word) over fd_close / path_open / fd_renumber with numbers at and across the
// boundaries. After every word: fd_tell on the touched numbers, fd_tell on EVERY number up to the end
// of the table (validity of each descriptor), and one more path_open whose result must be the model's
// lowest free number.
var wideNs = []int{60, 63, 64, 65, 127, 128, 130}

var wideNumbers = []int32{4, 5, 62, 63, 64, 65, 66, 126, 127, 128, 129}

func wideAlphabet(n int) []Op {
	last, firstUnused := int32(n+3), int32(n+4)
	uniq := func(in []int32) []int32 {
		seen := map[int32]bool{}
		var out []int32
		for _, v := range in {
			if !seen[v] {
				seen[v] = true
				out = append(out, v)
			}
		}
		sort.Slice(out, func(i, j int) bool { return out[i] < out[j] })
		return out
	}
	nums := uniq(append(append([]int32{}, wideNumbers...), last, firstUnused))
	var ops []Op
	ops = append(ops, Op{K: "path_open", Fd: 3, P: "a", Mode: "RO"})
	for _, k := range nums {
		ops = append(ops, Op{K: "fd_close", Fd: k})
	}
	// sources: first, the numbers around the first word boundary, last open, first unused (EBADF)
	for _, a := range uniq([]int32{4, 63, 64, last, firstUnused}) {
		for _, b := range nums {
			ops = append(ops, Op{K: "fd_renumber", Fd: a, Fd2: b})
		}
	}
	return ops
}

func wideKey(m *Model) string {
	fds := make([]int, 0, len(m.fds))
	for fd := range m.fds {
		fds = append(fds, int(fd))
	}
	sort.Ints(fds)
	// run-length form: "3-63,65-70"
	var sb strings.Builder
	for i := 0; i < len(fds); {
		j := i
		for j+1 < len(fds) && fds[j+1] == fds[j]+1 {
			j++
		}
		fmt.Fprintf(&sb, "%d-%d,", fds[i], fds[j])
		i = j + 1
	}
	return sb.String()
}

func (w *worker) executeWide(n int, hist []Op, verbose bool) (r execResult) {
	w.seq++
	dir := filepath.Join(w.dir, fmt.Sprintf("t%d", w.seq))
	populate(dir)
	x := w.rt.instantiate(dir)
	defer func() {
		x.close()
		os.RemoveAll(dir)
	}()
	m := newModel()
	book := newBook(m, dir)
	say := func(f string, a ...any) {
		if verbose {
			fmt.Printf(f+"\n", a...)
		}
	}
	ctxs := fmt.Sprintf("with %d descriptors opened (fds 4..%d)", n, n+3)
	for i := 0; i < n; i++ {
		o := Op{K: "path_open", Fd: 3, P: "a", Mode: "RO"}
		exp, res := step(m, x, &o)
		if f, d := compare(exp, res, book); f != "" {
			r.mism = &mismatch{Sig: "wide-table:prepare:path_open:" + f, What: fmt.Sprintf("opening descriptor #%d: %s", i+1, d)}
			return
		}
	}
	say("  prepared: %d x path_open(3,\"a\",RO) -> fds 4..%d", n, n+3)
	touched := []int32{}
	for i := range hist {
		o := &hist[i]
		exp, res := step(m, x, o)
		say("  step %d: %-30s -> errno=%d n=%d trap=%q | model: %s", i, o.String(), res.Errno, res.N, res.Trap, expString(exp))
		if i == len(hist)-1 {
			if res.Errno == 0 {
				r.outcome = "wide:" + o.K + ":ok"
			} else {
				r.outcome = fmt.Sprintf("wide:%s:errno=%d", o.K, res.Errno)
			}
		}
		if f, d := compare(exp, res, book); f != "" {
			r.mism = &mismatch{Sig: "wide-table:" + opSig(o) + ":" + f, Step: i,
				What: fmt.Sprintf("%s, after [%s] the call %s: %s", ctxs, histString(hist[:i]), o.String(), d)}
			return
		}
		switch o.K {
		case "path_open":
			if exp.HasN {
				touched = append(touched, int32(exp.N))
			}
		case "fd_renumber":
			touched = append(touched, o.Fd, o.Fd2)
		default:
			touched = append(touched, o.Fd)
		}
	}
	last := "prepared"
	if len(hist) > 0 {
		last = opSig(&hist[len(hist)-1])
	}
	var probes []Op
	for _, fd := range touched {
		probes = append(probes, Op{K: "fd_tell", Fd: fd})
	}
	for fd := int32(3); fd <= int32(n)+8 || fd <= 131; fd++ {
		probes = append(probes, Op{K: "fd_tell", Fd: fd})
	}
	probes = append(probes, Op{K: "path_open", Fd: 3, P: "a", Mode: "RO"}) // allocation probe
	for _, o := range probes {
		exp, res := step(m, x, &o)
		if f, d := compare(exp, res, book); f != "" {
			say("  probe %s -> errno=%d n=%d | model: %s", o.String(), res.Errno, res.N, expString(exp))
			r.mism = &mismatch{Sig: "wide-table:" + last + ":post:" + o.K + ":" + f, Step: len(hist),
				What: fmt.Sprintf("%s, after [%s] the probe %s: %s", ctxs, histString(hist), o.String(), d)}
			return
		}
	}
	// the allocation probe opened one descriptor in the model as well; the state key is without it
	delete(m.fds, m.lastFd)
	say("  probes agree; open descriptors %s", wideKey(m))
	r.key = wideKey(m)
	return
}

type wideStats struct {
	words, states int64
	perN          map[string]any
}

func wideExplore(run *fw.Run, outcomes *fw.Counter) wideStats {
	st := wideStats{perN: map[string]any{}}
	const depth = 2
	for _, n := range wideNs {
		alpha := wideAlphabet(n)
		seen := map[string]bool{}
		frontier := [][]uint16{nil}
		w0 := newWorker(998)
		r0 := w0.executeWide(n, nil, false)
		w0.rt.rt.Close(ctx)
		st.words++
		if r0.mism != nil {
			run.Violation(r0.mism.Sig, r0.mism.What, map[string]any{"kind": "wide", "n": n, "history": []Op{}})
			continue
		}
		seen[r0.key] = true
		nStates, nWords := 1, 1
		for d := 1; d <= depth; d++ {
			cnt := len(frontier) * len(alpha)
			results := make([]execResult, cnt)
			pool(cnt, func(w *worker, i int) {
				h := frontier[i/len(alpha)]
				hist := make([]Op, 0, len(h)+1)
				for _, oi := range h {
					hist = append(hist, alpha[oi])
				}
				hist = append(hist, alpha[i%len(alpha)])
				r := w.executeWide(n, hist, false)
				if r.mism != nil {
					if r2 := w.executeWide(n, hist, false); r2.mism == nil || r2.mism.Sig != r.mism.Sig {
						cleanup()
						fw.Fatalf("non-reproducible wide-table mismatch for N=%d [%s]", n, histString(hist))
					}
				}
				results[i] = r
			})
			var next [][]uint16
			for i := range results {
				r := &results[i]
				h := frontier[i/len(alpha)]
				oi := uint16(i % len(alpha))
				nWords++
				outcomes.Inc(r.outcome)
				if r.mism != nil {
					var hist []Op
					for _, k := range h {
						hist = append(hist, alpha[k])
					}
					hist = append(hist, alpha[oi])
					run.Violation(r.mism.Sig, r.mism.What, map[string]any{"kind": "wide", "n": n, "history": hist})
					continue
				}
				if !seen[r.key] {
					seen[r.key] = true
					nStates++
					next = append(next, append(append(make([]uint16, 0, len(h)+1), h...), oi))
				}
			}
			frontier = next
		}
		st.words += int64(nWords - 1)
		st.states += int64(nStates)
		st.perN[fmt.Sprint(n)] = map[string]int{"alphabet": len(alpha), "words": nWords, "states": nStates}
	}
	return st
}
