package main

import (
	"bytes"
	"encoding/binary"
	"fmt"
	"os"
	"path/filepath"
	"strings"
	"sync/atomic"
	"syscall"
	"time"

	"github.com/tetratelabs/wazero/verif/fw"
)

// Exhaustive fd_readdir exploration.
//
// Directories: every multiset of name lengths {1, 8, 40} of size 0..6 (84 directories; every third
// entry is a sub-directory, the others files). For each directory and each buf_len, every cookie
// sequence of the given depth over: rewind (0), re-read the same cookie, every d_next returned by
// the last successful call (the last complete one = "continue", the header-only one = "skip the
// truncated entry"), a stale cookie before the last window, an invalid cookie beyond the end.
// Each sequence runs on a fresh directory descriptor of a live instance.
//
// Oracle: with L = ['.', '..'] + the host's own raw listing order (os.File.Readdirnames) and inode
// numbers (lstat), a call (buf_len, cookie c <= len(L)) must produce EXACTLY this memory image:
// the entries L[c], L[c+1], ... that fit completely, each with d_next = index+1; if the next entry does
// not fit and >= 24 bytes remain, its header alone (true d_namlen); nothing else written (bytes up
// to buf_len+32 untouched); bufused = buf_len when an entry was cut, else the bytes written.

type rdEnt struct {
	name string
	ino  uint64
	typ  uint32
}

type dirInfo struct {
	name  string
	names []string // creation order, for directories made from an explicit name list
	lens  []int
	list  []rdEnt // '.', '..', then host order
}

type rdStep struct {
	Buflen uint32 `json:"buf_len"`
	Cookie uint64 `json:"cookie"`
	Kind   string `json:"kind"`
}

type readdirCase struct {
	Lens      []int    `json:"name_lengths"`
	Names     []string `json:"names,omitempty"` // explicit entry names in creation order (awkward-name directories)
	Seq       []rdStep `json:"seq,omitempty"`
	Traversal uint32   `json:"traversal_buf_len,omitempty"`
	Prefix    int      `json:"prefix_calls,omitempty"` // with Mutation: traversal calls before the mutation
	Mutation  string   `json:"mutation,omitempty"`
}

func dirName(lens []int) string {
	s := "r"
	for _, l := range lens {
		s += fmt.Sprintf("-%d", l)
	}
	return s
}

func entryName(j, l int) string { return string(rune('a'+j)) + strings.Repeat("n", l-1) }

func makeDir(root string, lens []int) *dirInfo { return makeDirNamed(root, dirName(lens), lens) }

func makeDirNamed(root, name string, lens []int) *dirInfo {
	p := filepath.Join(root, name)
	must(os.MkdirAll(p, 0o755))
	for j, l := range lens {
		n := entryName(j, l)
		if j%3 == 2 {
			must(os.Mkdir(filepath.Join(p, n), 0o755))
		} else {
			must(os.WriteFile(filepath.Join(p, n), []byte{byte(j)}, 0o600))
		}
	}
	d := scanDir(root, name)
	d.lens = lens
	if len(d.list) != len(lens)+2 {
		must(fmt.Errorf("host listing of %s has %d entries, created %d", p, len(d.list)-2, len(lens)))
	}
	return d
}

// makeDirNames creates a directory from an explicit list of entry names, in this order (every third
// entry a sub-directory, the others files).
func makeDirNames(root, name string, names []string) *dirInfo {
	p := filepath.Join(root, name)
	must(os.MkdirAll(p, 0o755))
	var lens []int
	for j, n := range names {
		if j%3 == 2 {
			must(os.Mkdir(filepath.Join(p, n), 0o755))
		} else {
			must(os.WriteFile(filepath.Join(p, n), []byte{byte(j)}, 0o600))
		}
		lens = append(lens, len(n))
	}
	d := scanDir(root, name)
	d.lens, d.names = lens, names
	if len(d.list) != len(names)+2 {
		must(fmt.Errorf("host listing of %s has %d entries, created %d", p, len(d.list)-2, len(names)))
	}
	return d
}

// awkwardDirs: directories populated with subsets of the awkward names (all subsets of size 0..2, a
// sliding window of sizes 3 and 4), and three large directories (100 plain names + "..a" created
// first / in the middle / last) that need more than one DirentCache batch.
func awkwardDirs(root string) (small, big []*dirInfo) {
	var ns []string
	for _, n := range awkwardNames {
		if n != ".." {
			ns = append(ns, n)
		}
	}
	var sets [][]string
	sets = append(sets, nil)
	for i := range ns {
		sets = append(sets, []string{ns[i]})
	}
	for i := range ns {
		for j := i + 1; j < len(ns); j++ {
			sets = append(sets, []string{ns[i], ns[j]})
		}
	}
	for _, k := range []int{3, 4} {
		for i := range ns {
			var set []string
			for j := 0; j < k; j++ {
				set = append(set, ns[(i+j)%len(ns)])
			}
			sets = append(sets, set)
		}
	}
	for i, set := range sets {
		small = append(small, makeDirNames(root, fmt.Sprintf("n%03d", i), set))
	}
	for i, pos := range []int{0, 50, 100} {
		var names []string
		for j := 0; j <= 100; j++ {
			if j == pos {
				names = append(names, "..a")
			}
			if j < 100 {
				names = append(names, fmt.Sprintf("e%03d", j))
			}
		}
		big = append(big, makeDirNames(root, fmt.Sprintf("big%d", i), names))
	}
	return
}

// scanDir reads the host's own view of a directory: raw listing order and inode numbers.
func scanDir(root, name string) *dirInfo {
	d := &dirInfo{name: name}
	p := filepath.Join(root, name)
	f, err := os.Open(p)
	must(err)
	raw, err := f.Readdirnames(-1)
	must(err)
	f.Close()
	st, err := os.Lstat(p)
	must(err)
	d.list = []rdEnt{{".", st.Sys().(*syscall.Stat_t).Ino, ftDir}, {"..", 0, ftDir}}
	for _, n := range raw {
		st, err := os.Lstat(filepath.Join(p, n))
		must(err)
		t := uint32(ftFile)
		if st.IsDir() {
			t = ftDir
		}
		d.list = append(d.list, rdEnt{n, st.Sys().(*syscall.Stat_t).Ino, t})
	}
	return d
}

func multisets() [][]int {
	var out [][]int
	ls := []int{1, 8, 40}
	for n := 0; n <= 6; n++ {
		for a := 0; a <= n; a++ {
			for b := 0; a+b <= n; b++ {
				var m []int
				for i := 0; i < a; i++ {
					m = append(m, ls[0])
				}
				for i := 0; i < b; i++ {
					m = append(m, ls[1])
				}
				for i := 0; i < n-a-b; i++ {
					m = append(m, ls[2])
				}
				// interleave deterministically so that kinds (file/dir) mix with lengths
				out = append(out, m)
			}
		}
	}
	return out
}

// predict is the reference: the exact memory image and bufused for (buf_len, cookie).
func predict(list []rdEnt, buflen uint32, cookie uint64) (img []byte, bufused uint32, complete int, header bool) {
	img = make([]byte, buflen+slack)
	for i := range img {
		img[i] = sentinel
	}
	pos, rem := uint32(0), buflen
	for i := cookie; i < uint64(len(list)); i++ {
		if rem == 0 {
			break
		}
		e := list[i]
		el := 24 + uint32(len(e.name))
		hdr := func() {
			binary.LittleEndian.PutUint64(img[pos:], i+1)
			binary.LittleEndian.PutUint64(img[pos+8:], e.ino)
			binary.LittleEndian.PutUint32(img[pos+16:], uint32(len(e.name)))
			binary.LittleEndian.PutUint32(img[pos+20:], e.typ)
		}
		if el > rem {
			if rem >= 24 {
				hdr()
				header = true
			}
			return img, buflen, complete, header
		}
		hdr()
		copy(img[pos+24:], e.name)
		pos += el
		rem -= el
		complete++
	}
	return img, pos, complete, header
}

type window struct {
	ok       bool
	cookie   uint64
	complete int
	header   bool
}

// wideCookies: cookies are 64-bit. These were never returned and differ from a valid cookie only above bit
// 31 (2^32 + 0 would be a rewind, 2^32 + the continuation cookie a normal continuation, if only the low half
// were looked at) or are the all-ones value (-1 as a signed number; d_next = cookie+1 wraps to 0). They are
// judged like any invalid cookie (an errno, or an empty end-of-directory result) and, because a refused
// cookie leaves the window as it is, are offered as the LAST call of a sequence only.
func wideCookies(w window) []rdStep {
	cont := uint64(0)
	if w.ok {
		cont = w.cookie + uint64(w.complete)
	}
	c := []rdStep{{Cookie: 1 << 32, Kind: "wide-cookie"}}
	if cont != 0 {
		c = append(c, rdStep{Cookie: 1<<32 + cont, Kind: "wide-cookie"})
	}
	return append(c, rdStep{Cookie: ^uint64(0), Kind: "wide-cookie"})
}

func choices(d *dirInfo, w window) []rdStep {
	invalid := rdStep{Cookie: uint64(len(d.list)) + 3, Kind: "invalid"}
	if !w.ok {
		return []rdStep{{Cookie: 0, Kind: "start"}, invalid}
	}
	c := []rdStep{{Cookie: 0, Kind: "rewind"}}
	if w.cookie != 0 {
		c = append(c, rdStep{Cookie: w.cookie, Kind: "reread"})
	}
	for j := 1; j <= w.complete; j++ {
		k := "returned"
		if j == w.complete {
			k = "continue"
		}
		c = append(c, rdStep{Cookie: w.cookie + uint64(j), Kind: k})
	}
	if w.header {
		c = append(c, rdStep{Cookie: w.cookie + uint64(w.complete) + 1, Kind: "skip-truncated"})
	}
	if w.cookie >= 2 {
		c = append(c, rdStep{Cookie: w.cookie - 1, Kind: "stale"})
	}
	return append(c, invalid)
}

type rdStats struct {
	calls, sequences, traversals, mutated int64
	exhaustive                            bool
	stale                                 map[string]int64
	bounds                                map[string]any
}

type rdLocal struct {
	calls, sequences, traversals, mutated int64
	outcomes                              map[string]int64
	viol                                  []rdViolation
}

type rdViolation struct {
	sig, what string
	c         readdirCase
}

// runSeq executes one cookie sequence on a fresh descriptor. verbose for replay.
func runSeq(x *inst, d *dirInfo, seq []rdStep, loc *rdLocal, verbose bool) *rdViolation {
	fd, v := openDir(x, d)
	if v != nil {
		return v
	}
	defer x.do(&Op{K: "fd_close", Fd: fd})
	bad := func(st rdStep, field, detail string) *rdViolation {
		return &rdViolation{sig: "fd_readdir:" + st.Kind + ":" + field,
			what: fmt.Sprintf("directory with name lengths %v (host order %s), sequence %s: call (buf_len=%d, cookie=%d, %s): %s",
				d.lens, listNames(d.list), seqString(seq), st.Buflen, st.Cookie, st.Kind, detail), c: readdirCase{Lens: d.lens, Names: d.names, Seq: seq}}
	}
	for _, st := range seq {
		r := x.readdir(fd, st.Buflen, st.Cookie)
		loc.calls++
		if verbose && r.Errno == 0 {
			ents, _ := parseDirents(r.Buf, uint32(r.N))
			fmt.Printf("  fd_readdir(buf_len=%d, cookie=%d) [%s] -> bufused=%d entries=%s\n", st.Buflen, st.Cookie, st.Kind, r.N, entNames(ents))
		} else if verbose {
			fmt.Printf("  fd_readdir(buf_len=%d, cookie=%d) [%s] -> errno=%d %s\n", st.Buflen, st.Cookie, st.Kind, r.Errno, r.Trap)
		}
		if r.Trap != "" {
			return bad(st, "trap", r.Trap)
		}
		switch st.Kind {
		case "invalid", "wide-cookie":
			// a cookie that was never returned: must fail, or report an empty end of directory
			if r.Errno != 0 {
				loc.outcomes[fmt.Sprintf("fd_readdir:%s:errno=%d", st.Kind, r.Errno)]++
				continue
			}
			if r.N != 0 {
				return bad(st, "accepted", fmt.Sprintf("a cookie that was never returned (beyond the end) was served: bufused=%d", r.N))
			}
			loc.outcomes["fd_readdir:"+st.Kind+":empty"]++
			return nil
		case "stale":
			// before the last window: wazero documents ENOENT; serving it correctly is fine as well
			if r.Errno != 0 {
				loc.outcomes[fmt.Sprintf("fd_readdir:stale-cookie:errno=%d", r.Errno)]++
				continue
			}
			img, used, _, _ := predict(d.list, st.Buflen, st.Cookie)
			if uint32(r.N) != used || !bytes.Equal(img, r.Buf) {
				return bad(st, "image", "served a stale cookie with wrong content")
			}
			loc.outcomes["fd_readdir:stale-cookie:served"]++
			return nil
		}
		if r.Errno != 0 {
			return bad(st, "errno", fmt.Sprintf("errno %d, model: success", r.Errno))
		}
		img, used, complete, header := predict(d.list, st.Buflen, st.Cookie)
		if uint32(r.N) != used {
			return bad(st, "bufused", fmt.Sprintf("bufused %d, model: %d", r.N, used))
		}
		if !bytes.Equal(img, r.Buf) {
			ents, _ := parseDirents(r.Buf, uint32(r.N))
			wents, _ := parseDirents(img, used)
			return bad(st, "image", fmt.Sprintf("buffer holds %s, model: %s (or bytes beyond were written)", entDump(ents), entDump(wents)))
		}
		switch {
		case header:
			loc.outcomes["fd_readdir:ok:truncated-with-header"]++
		case used == st.Buflen && st.Cookie+uint64(complete) < uint64(len(d.list)):
			loc.outcomes["fd_readdir:ok:truncated-no-header"]++
		case complete == 0:
			loc.outcomes["fd_readdir:ok:empty-at-end"]++
		default:
			loc.outcomes["fd_readdir:ok:to-end"]++
		}
	}
	return nil
}

func openDir(x *inst, d *dirInfo) (int32, *rdViolation) {
	r := x.do(&Op{K: "path_open", Fd: 3, P: d.name, Mode: "DIRECTORY"})
	if r.Errno != 0 || r.Trap != "" {
		return 0, &rdViolation{sig: "path_open:errno", what: fmt.Sprintf("path_open(3,%q,DIRECTORY) -> errno %d %s", d.name, r.Errno, r.Trap), c: readdirCase{Lens: d.lens, Names: d.names}}
	}
	return int32(r.N), nil
}

func listNames(l []rdEnt) string {
	var s []string
	for _, e := range l {
		if len(e.name) > 8 {
			s = append(s, fmt.Sprintf("%s..(%d)", e.name[:2], len(e.name)))
		} else {
			s = append(s, e.name)
		}
	}
	return "[" + strings.Join(s, " ") + "]"
}

func entDump(es []dent) string {
	var s []string
	for _, e := range es {
		n := e.name
		if len(n) > 8 {
			n = fmt.Sprintf("%s..(%d)", n[:2], len(n))
		}
		if e.headerOnly {
			n = fmt.Sprintf("<header namlen=%d>", e.namlen)
		}
		s = append(s, fmt.Sprintf("%s{next=%d ino=%d type=%d}", n, e.next, e.ino, e.typ))
	}
	return "[" + strings.Join(s, " ") + "]"
}

func seqString(seq []rdStep) string {
	var s []string
	for _, st := range seq {
		s = append(s, fmt.Sprintf("(%d,%d)", st.Buflen, st.Cookie))
	}
	return strings.Join(s, "")
}

// enumerate all cookie sequences of the given depth; bufs(step, first) lists the buf_len choices.
func enumerate(d *dirInfo, first uint32, alts []uint32, depth int, emit func(seq []rdStep)) {
	var rec func(seq []rdStep, w window)
	rec = func(seq []rdStep, w window) {
		if len(seq) == depth {
			emit(seq)
			return
		}
		bl := []uint32{first}
		if len(seq) > 0 {
			bl = append(bl, alts...)
		}
		for _, b := range bl {
			cs := choices(d, w)
			if len(seq) == depth-1 {
				cs = append(cs, wideCookies(w)...)
			}
			for _, c := range cs {
				c.Buflen = b
				nw := w
				if c.Kind != "stale" && c.Kind != "invalid" && c.Kind != "wide-cookie" {
					_, _, complete, header := predict(d.list, b, c.Cookie)
					nw = window{true, c.Cookie, complete, header}
				}
				rec(append(seq[:len(seq):len(seq)], c), nw)
			}
		}
	}
	rec(nil, window{})
}

// traverse reads the directory to its end the way wasi-libc does: consume complete entries,
// continue from the d_next of the last complete one, grow the buffer when nothing fits.
func traverse(x *inst, d *dirInfo, buflen uint32, loc *rdLocal, verbose bool) *rdViolation {
	fd, v := openDir(x, d)
	if v != nil {
		return v
	}
	defer x.do(&Op{K: "fd_close", Fd: fd})
	c := readdirCase{Lens: d.lens, Names: d.names, Traversal: buflen}
	v, _ = traverseFd(x, fd, d, buflen, -1, "fd_readdir:traversal:", c, loc, verbose)
	if v == nil {
		loc.traversals++
	}
	return v
}

// traverseFd traverses from cookie 0 on an open descriptor. maxCalls >= 0 stops after that many calls
// (a traversal prefix; the entries are then not compared); the second result reports whether the end
// of the directory was reached.
func traverseFd(x *inst, fd int32, d *dirInfo, buflen uint32, maxCalls int, sigPrefix string, c readdirCase, loc *rdLocal, verbose bool) (*rdViolation, bool) {
	first := buflen
	bad := func(field, detail string) (*rdViolation, bool) {
		return &rdViolation{sig: sigPrefix + field,
			what: fmt.Sprintf("directory with name lengths %v (host order now %s), %s traversal from cookie 0 starting with buf_len=%d: %s", d.lens, listNames(d.list), sigPrefix, first, detail), c: c}, false
	}
	var got []string
	cookie := uint64(0)
	for iter := 0; ; iter++ {
		if maxCalls >= 0 && iter == maxCalls {
			return nil, false
		}
		if iter > 64 {
			return bad("no-progress", "traversal does not terminate")
		}
		r := x.readdir(fd, buflen, cookie)
		loc.calls++
		if r.Errno != 0 || r.Trap != "" {
			return bad("errno", fmt.Sprintf("call (buf_len=%d, cookie=%d) failed: errno %d %s", buflen, cookie, r.Errno, r.Trap))
		}
		img, used, _, _ := predict(d.list, buflen, cookie)
		if uint32(r.N) != used || !bytes.Equal(img, r.Buf) {
			return bad("image", fmt.Sprintf("call (buf_len=%d, cookie=%d) returned bufused=%d and a buffer different from the model (bufused %d)", buflen, cookie, r.N, used))
		}
		ents, _ := parseDirents(r.Buf, uint32(r.N))
		if verbose {
			fmt.Printf("  fd_readdir(buf_len=%d, cookie=%d) -> bufused=%d entries=%s\n", buflen, cookie, r.N, entNames(ents))
		}
		progressed, need := false, buflen+24
		for _, e := range ents {
			if e.headerOnly {
				need = 24 + e.namlen
				break
			}
			got = append(got, e.name)
			cookie = e.next
			progressed = true
		}
		if uint32(r.N) < buflen {
			break
		}
		if !progressed {
			buflen = need
		}
	}
	var want []string
	for _, e := range d.list {
		want = append(want, e.name)
	}
	if strings.Join(got, "/") != strings.Join(want, "/") {
		return bad("entries", fmt.Sprintf("traversal yields %v, model: %v (each exactly once)", got, want))
	}
	return nil, true
}

func readdirExplore(run *fw.Run, outcomes *fw.Counter, samples *fw.Sampler) rdStats {
	root := filepath.Join(tmpRoot, "rd")
	var dirs []*dirInfo
	for _, m := range multisets() {
		dirs = append(dirs, makeDir(root, m))
	}
	var bufs []uint32
	for b := uint32(24); b <= 24+41*2; b++ {
		bufs = append(bufs, b)
	}
	bufs = append(bufs, 130, 200, 512, 2048)
	// quick: depth 4, one buf_len per sequence. thorough: additionally depth 4 with the buf_len of every
	// later call chosen from {first, 89} (a buffer that changes size mid-way) and depth 5 with one buf_len.
	type plan struct {
		alts  []uint32
		depth int
	}
	plans := []plan{{nil, 4}}
	if run.Thorough() {
		plans = []plan{{[]uint32{89}, 4}, {nil, 5}}
	}
	type task struct {
		d    *dirInfo
		b    uint32
		kind string // "seq": plans + traversal; "mut": part 2b; "nseq": awkward names, depth 3 + traversal; "big": traversal only
		root string
	}
	var tasks []task
	for _, d := range dirs {
		for _, b := range bufs {
			tasks = append(tasks, task{d, b, "seq", root})
		}
	}
	nSeqTasks := len(tasks)
	for _, d := range dirs {
		for _, b := range mutBufs {
			tasks = append(tasks, task{d, b, "mut", root})
		}
	}
	// awkward names: on the BFS file system (tmpfs lists in reverse creation order, which places the
	// awkward entry of the large directories last / in the middle / first)
	nroot := filepath.Join(fastRoot, "rdn")
	small, big := awkwardDirs(nroot)
	nameBufs := []uint32{24, 26, 30, 50, 64, 100, 304, 2048}
	bigBufs := []uint32{64, 256, 1000, 2048}
	for _, d := range small {
		for _, b := range nameBufs {
			tasks = append(tasks, task{d, b, "nseq", nroot})
		}
	}
	for _, d := range big {
		for _, b := range bigBufs {
			tasks = append(tasks, task{d, b, "big", nroot})
		}
	}
	locals := make([]rdLocal, len(tasks))
	var cappedA atomic.Bool
	pool(len(tasks), func(w *worker, i int) {
		if run.Expired() || (!hardStop.IsZero() && time.Now().After(hardStop)) {
			cappedA.Store(true)
			return
		}
		t := tasks[i]
		loc := &locals[i]
		loc.outcomes = map[string]int64{}
		if t.kind == "mut" {
			mutationTask(w, t.d.lens, t.b, loc)
			return
		}
		in := w.rt.instantiate(t.root)
		defer in.close()
		if t.kind == "big" {
			if v := traverse(in, t.d, t.b, loc, false); v != nil {
				loc.viol = append(loc.viol, *v)
			}
			return
		}
		plans := plans
		if t.kind == "nseq" {
			plans = []plan{{nil, 3}}
			if run.Thorough() {
				plans = []plan{{nil, 4}}
			}
		}
		// buf_len below a dirent header is rejected before anything else
		if t.b == 24 {
			fd, _ := openDir(in, t.d)
			if r := in.readdir(fd, 23, 0); r.Errno != eINVAL {
				loc.viol = append(loc.viol, rdViolation{sig: "fd_readdir:buf_len<24:errno", what: fmt.Sprintf("buf_len=23 -> errno %d, model: EINVAL", r.Errno), c: readdirCase{Lens: t.d.lens, Names: t.d.names, Seq: []rdStep{{23, 0, "start"}}}})
			}
			loc.calls++
			loc.outcomes[fmt.Sprintf("fd_readdir:buf_len<24:errno=%d", eINVAL)]++
			in.do(&Op{K: "fd_close", Fd: fd})
		}
		for _, p := range plans {
			enumerate(t.d, t.b, p.alts, p.depth, func(seq []rdStep) {
				loc.sequences++
				if v := runSeq(in, t.d, seq, loc, false); v != nil && len(loc.viol) < 3 {
					v.c.Seq = append([]rdStep{}, seq...)
					loc.viol = append(loc.viol, *v)
				}
			})
		}
		if v := traverse(in, t.d, t.b, loc, false); v != nil {
			loc.viol = append(loc.viol, *v)
		}
	})
	capped := cappedA.Load()
	st := rdStats{exhaustive: !capped, stale: map[string]int64{}}
	if capped {
		run.Capped("budget in readdir exploration")
	}
	for i := range locals {
		l := &locals[i]
		st.calls += l.calls
		st.sequences += l.sequences
		st.traversals += l.traversals
		st.mutated += l.mutated
		for k, v := range l.outcomes {
			outcomes.AddN(k, v)
			if strings.Contains(k, "stale-cookie") {
				st.stale[k] += v
			}
		}
		for _, v := range l.viol {
			run.Violation(v.sig, v.what, map[string]any{"kind": "readdir", "readdir": v.c})
		}
		if i%997 == 0 && i < nSeqTasks {
			samples.Add(map[string]any{"readdir_dir_name_lengths": tasks[i].d.lens, "host_order": listNames(tasks[i].d.list), "buf_len": tasks[i].b, "sequences": l.sequences})
		}
	}
	st.bounds = map[string]any{
		"directories": len(dirs), "dir_sizes": "0..6", "name_lengths": []int{1, 8, 40}, "buf_lens": fmt.Sprintf("24..%d + {130,200,512,2048}", 24+41*2),
		"cookie_choices":            "rewind, re-read, every d_next of the last window (continue / skip truncated), stale, invalid; as the last call also the 64-bit cookies 2^32, 2^32+continuation, 2^64-1",
		"mutation_between_listings": fmt.Sprintf("mutations %v x buf_len %v x every traversal prefix (0 calls .. complete), then rewound traversal on the same descriptor", mutations, mutBufs),
		"awkward_name_directories":  fmt.Sprintf("%d directories (all subsets of size 0..2 of %d awkward names, sliding windows of size 3 and 4) x buf_len %v x every cookie sequence of depth 3 (thorough 4) + traversal; %d large directories (100 plain names + \"..a\" created first/middle/last) x buf_len %v, complete traversal", len(small), len(awkwardNames)-1, nameBufs, len(big), bigBufs),
		"plans(alternative buf_lens after the first call, depth)": fmt.Sprint(plans),
	}
	return st
}

func replayReaddir(c *readdirCase) int {
	if c == nil {
		fw.Fatalf("replay file has no readdir case")
	}
	if c.Mutation != "" {
		w := newWorker(0)
		root := filepath.Join(w.dir, "rdm")
		must(os.MkdirAll(root, 0o755))
		in := w.rt.instantiate(root)
		defer in.close()
		v, _, _ := runMutated(in, root, c.Lens, c.Traversal, c.Prefix, c.Mutation, &rdLocal{outcomes: map[string]int64{}}, true)
		if v != nil {
			fmt.Printf("MISMATCH signature=%s: %s\n", v.sig, v.what)
			return 1
		}
		fmt.Println("no mismatch: the rewound listing shows the changed directory")
		return 0
	}
	root := filepath.Join(tmpRoot, "rd")
	var d *dirInfo
	if c.Names != nil {
		root = filepath.Join(fastRoot, "rdn")
		d = makeDirNames(root, "n", c.Names)
	} else {
		d = makeDir(root, c.Lens)
	}
	w := newWorker(0)
	in := w.rt.instantiate(root)
	defer in.close()
	loc := &rdLocal{outcomes: map[string]int64{}}
	fmt.Printf("directory %s, host order %s\n", d.name, listNames(d.list))
	var v *rdViolation
	if c.Traversal != 0 {
		v = traverse(in, d, c.Traversal, loc, true)
	} else {
		v = runSeq(in, d, c.Seq, loc, true)
	}
	if v != nil {
		fmt.Printf("MISMATCH signature=%s: %s\n", v.sig, v.what)
		return 1
	}
	fmt.Println("no mismatch: the implementation agrees with the model on this sequence")
	return 0
}
