package main

import (
	"fmt"
	"sort"
	"strings"
)

// WASI errno numbers (snapshot-01 numbering, written out here so that the oracle does not depend
// on wazero's own tables).
const (
	eBADF     = 8
	eEXIST    = 20
	eINVAL    = 28
	eISDIR    = 31
	eNOENT    = 44
	eNOTDIR   = 54
	eNOTEMPTY = 55
	eNOTSUP   = 58
	anyErr    = 0xffff // "fails", errno outside the classes the model defines
)

const (
	ftDir  = 3
	ftFile = 4
)

const sentinel = 0xAA

// ---------------------------------------------------------------- reference model

// A regular file's content is kept sparse (size + the non-zero bytes), so that the 64-bit offset family
// (offsets.go) can place data beyond 2^32 and extend files to 2^53 bytes without allocating them.
type inode struct {
	dir    bool
	size   int64
	nz     map[int64]byte // the non-zero bytes of the content; everything else below size reads as 0
	kids   map[string]*inode
	linked bool
}

func fileInode(content string) *inode {
	n := &inode{linked: true}
	n.writeAt(0, []byte(content))
	return n
}

// readAt returns up to max bytes of the content from off (nil at or beyond the end).
func (n *inode) readAt(off int64, max int) []byte {
	if off < 0 || off >= n.size {
		return nil
	}
	cnt := int64(max)
	if n.size-off < cnt {
		cnt = n.size - off
	}
	b := make([]byte, cnt)
	for i := range b {
		b[i] = n.nz[off+int64(i)]
	}
	return b
}

func (n *inode) writeAt(off int64, data []byte) {
	if n.nz == nil {
		n.nz = map[int64]byte{}
	}
	for i, c := range data {
		if c == 0 {
			delete(n.nz, off+int64(i))
		} else {
			n.nz[off+int64(i)] = c
		}
	}
	if end := off + int64(len(data)); end > n.size {
		n.size = end
	}
}

func (n *inode) truncate(sz int64) {
	if sz < n.size {
		for o := range n.nz {
			if o >= sz {
				delete(n.nz, o)
			}
		}
	}
	n.size = sz
}

// content is the canonical rendering of a file content, for the state key and the host-tree comparison.
func (n *inode) content() string { return sparseString(n.size, n.nz) }

// sparseString: files of up to 64 bytes are written out; larger ones as size + the runs of non-zero bytes.
func sparseString(size int64, nz map[int64]byte) string {
	if size <= 64 {
		b := make([]byte, size)
		for i := range b {
			b[i] = nz[int64(i)]
		}
		return fmt.Sprintf("%q", b)
	}
	offs := make([]int64, 0, len(nz))
	for o := range nz {
		offs = append(offs, o)
	}
	sort.Slice(offs, func(i, j int) bool { return offs[i] < offs[j] })
	var sb strings.Builder
	fmt.Fprintf(&sb, "sparse(size=%d", size)
	for i := 0; i < len(offs); {
		j := i
		var run []byte
		for j < len(offs) && offs[j] == offs[i]+int64(j-i) {
			run = append(run, nz[offs[j]])
			j++
		}
		fmt.Fprintf(&sb, " @%d=%q", offs[i], run)
		i = j
	}
	sb.WriteString(")")
	return sb.String()
}

type fdent struct {
	pre  bool
	ino  *inode
	name string // path from the mount root recorded when the descriptor was opened
	off  int64
	app  bool
	wr   bool
}

type Model struct {
	root   *inode
	fds    map[int32]*fdent
	lastFd int32 // number returned by the most recent successful path_open

	// hintFailed is set by the executor before apply: the implementation's call failed. It is consulted
	// ONLY where the model tolerates "errno instead of the POSIX answer" (drifted directory descriptors),
	// so that the model state follows the outcome that actually happened.
	hintFailed bool
	// driftedOK: the last applied call went through a drifted directory descriptor and succeeded.
	driftedOK bool
}

// initial tree: a = "abcdef", d/ , d/x = "XY"; b does not exist. fd 3 = the pre-opened mount.
func newModel() *Model {
	root := &inode{dir: true, linked: true, kids: map[string]*inode{}}
	root.kids["a"] = fileInode("abcdef")
	d := &inode{dir: true, linked: true, kids: map[string]*inode{}}
	d.kids["x"] = fileInode("XY")
	root.kids["d"] = d
	return &Model{root: root, fds: map[int32]*fdent{3: {pre: true, ino: root}}}
}

// Exp is what the model predicts for one call.
type Exp struct {
	Outside     string   // non-empty: outside the model (no prediction; the successor is not explored)
	OutsideIfOK string   // non-empty: a failure (any errno) leaves the model state as it is; a success is outside the model
	Errs        []uint32 // non-empty: the call must fail with one of these (anyErr = any errno)
	OrOK        bool     // with Errs: success is acceptable as well (POSIX leaves it open), N must then be 0
	HasN        bool
	N           uint64 // new fd / nread / nwritten / new offset
	Buf         []byte // expected image of the read area
	Stat        *statExp
	Dir         *dirExp
}

type statExp struct {
	ino *inode
}

type dirExp struct {
	self   *inode
	buflen uint32
}

func fail(e ...uint32) Exp { return Exp{Errs: e} }
func okN(n uint64) Exp     { return Exp{HasN: true, N: n} }

// walk resolves path below base. node == nil with no error means "last component missing".
func walk(base *inode, path string) (par *inode, leaf string, node *inode, errs []uint32) {
	parts := strings.Split(path, "/")
	cur := base
	for _, p := range parts[:len(parts)-1] {
		next := cur.kids[p]
		if next == nil {
			return nil, "", nil, []uint32{eNOENT}
		}
		if !next.dir {
			return nil, "", nil, []uint32{eNOTDIR}
		}
		cur = next
	}
	leaf = parts[len(parts)-1]
	return cur, leaf, cur.kids[leaf], nil
}

func (m *Model) resolve(name string) *inode {
	if name == "" {
		return m.root
	}
	_, _, n, errs := walk(m.root, name)
	if errs != nil {
		return nil
	}
	return n
}

// inSync: the path recorded for a directory descriptor still names the same directory.
// wazero resolves paths below a non-preopen directory descriptor by name (FileEntry.Name "can
// drift on rename"); calls that depend on a drifted name are outside the model.
func (m *Model) inSync(e *fdent) bool {
	return e.pre || m.resolve(e.name) == e.ino
}

// base returns the directory a path_* call is relative to.
func (m *Model) base(fd int32) (*fdent, *Exp) {
	e := m.fds[fd]
	if e == nil {
		x := fail(eBADF)
		return nil, &x
	}
	if !e.ino.dir {
		x := fail(eNOTDIR)
		return nil, &x
	}
	if !m.inSync(e) {
		// The path recorded for this directory descriptor no longer names the directory it was opened
		// on (renamed, removed, replaced). POSIX: the call is relative to the ORIGINAL directory. wazero
		// resolves by the recorded name (FileEntry.Name "can drift"), so an errno is tolerated — typically
		// ENOENT because nothing is at the old path — but never a result taken from whatever is at the
		// old path now: when the call succeeds it must have acted on the original directory.
		if m.hintFailed {
			x := fail(anyErr)
			return nil, &x
		}
		m.driftedOK = true
		if !e.ino.linked {
			x := fail(eNOENT) // nothing can be looked up or created in a removed directory
			return nil, &x
		}
	}
	return e, nil
}

func (m *Model) lowestFree() int32 {
	for fd := int32(3); ; fd++ {
		if m.fds[fd] == nil {
			return fd
		}
	}
}

func joinName(e *fdent, p string) string {
	if e.pre {
		return p
	}
	return e.name + "/" + p
}

func (m *Model) apply(o *Op) Exp {
	m.driftedOK = false
	if o.P == ".." || o.P2 == ".." {
		// leaves the mount: refused (wazero: EPERM from fs.ValidPath), nothing changes
		return fail(anyErr)
	}
	switch o.K {
	case "path_open":
		b, x := m.base(o.Fd)
		if x != nil {
			return *x
		}
		md := openModes[o.Mode]
		par, leaf, n, errs := walk(b.ino, o.P)
		if errs != nil {
			return Exp{Errs: errs}
		}
		if n == nil {
			if !md.creat {
				return fail(eNOENT)
			}
			n = &inode{linked: true}
			par.kids[leaf] = n
		} else {
			switch {
			case md.creat && md.excl:
				return fail(eEXIST)
			case n.dir && md.write:
				return fail(eISDIR)
			case md.directory && !n.dir:
				return fail(eNOTDIR)
			}
			if md.trunc {
				n.truncate(0)
			}
		}
		fd := m.lowestFree()
		m.lastFd = fd
		m.fds[fd] = &fdent{ino: n, name: joinName(b, o.P), app: md.app, wr: md.write}
		return okN(uint64(fd))

	case "fd_close":
		if m.fds[o.Fd] == nil {
			return fail(eBADF)
		}
		delete(m.fds, o.Fd)
		return Exp{}

	case "fd_renumber":
		from := m.fds[o.Fd]
		if from == nil {
			return fail(eBADF)
		}
		if from.pre {
			return fail(anyErr) // ENOTSUP
		}
		if to := m.fds[o.Fd2]; to != nil && to.pre {
			return fail(anyErr) // ENOTSUP
		}
		if o.Fd == o.Fd2 {
			return Exp{} // onto itself: no-op
		}
		m.fds[o.Fd2] = from // an open target is closed
		delete(m.fds, o.Fd)
		return Exp{}

	case "fd_read", "fd_pread":
		e := m.fds[o.Fd]
		if e == nil {
			return fail(eBADF)
		}
		if e.ino.dir {
			return fail(eISDIR)
		}
		off := e.off
		if o.K == "fd_pread" {
			off = o.Off
		}
		if off < 0 {
			// POSIX: EINVAL. wazero hands the offset to Go's ReadAt, whose "negative offset" error has no errno
			// (EIO): compared as "fails".
			return fail(anyErr)
		}
		data := e.ino.readAt(off, readLen0+readLen1)
		if o.K == "fd_read" {
			e.off += int64(len(data))
		}
		x := okN(uint64(len(data)))
		x.Buf = readImage(data)
		return x

	case "fd_write", "fd_pwrite":
		e := m.fds[o.Fd]
		if e == nil {
			return fail(eBADF)
		}
		if len(o.Data) == 0 {
			// POSIX: a zero-length write may or may not detect errors.
			if e.ino.dir {
				return Exp{Errs: []uint32{eISDIR}, OrOK: true}
			}
			if !e.wr {
				return Exp{Errs: []uint32{eBADF}, OrOK: true}
			}
			return okN(0)
		}
		if e.ino.dir {
			return fail(eISDIR)
		}
		if !e.wr {
			return fail(eBADF)
		}
		if o.K == "fd_pwrite" {
			if e.app {
				return Exp{Errs: []uint32{anyErr}, OutsideIfOK: "fd_pwrite on an append-mode descriptor succeeded (POSIX: writes at the offset; Linux: appends; Go's WriteAt rejects it)"}
			}
			if o.Off < 0 {
				return fail(anyErr) // POSIX: EINVAL; Go's WriteAt: "negative offset" without errno (EIO)
			}
			e.ino.writeAt(o.Off, []byte(o.Data))
			return okN(uint64(len(o.Data)))
		}
		if e.app {
			e.off = e.ino.size
		}
		e.ino.writeAt(e.off, []byte(o.Data))
		e.off += int64(len(o.Data))
		return okN(uint64(len(o.Data)))

	case "fd_seek", "fd_tell":
		e := m.fds[o.Fd]
		if e == nil {
			return fail(eBADF)
		}
		if e.ino.dir {
			return fail(eISDIR)
		}
		off, wh := o.Off, o.Wh
		if o.K == "fd_tell" {
			off, wh = 0, 1
		}
		var nw int64
		switch wh {
		case 0:
			nw = off
		case 1:
			nw = e.off + off
		case 2:
			nw = e.ino.size + off
		default:
			return fail(eINVAL)
		}
		if wh != 0 && off > 0 && nw < off {
			return fail(anyErr) // the new offset does not fit in 63 bits (Linux: EINVAL, POSIX: EOVERFLOW)
		}
		if nw < 0 {
			return fail(eINVAL)
		}
		e.off = nw
		return okN(uint64(nw))

	case "fd_filestat_get":
		e := m.fds[o.Fd]
		if e == nil {
			return fail(eBADF)
		}
		return Exp{Stat: &statExp{ino: e.ino}}

	case "fd_filestat_set_size":
		e := m.fds[o.Fd]
		if e == nil {
			return fail(eBADF)
		}
		if e.ino.dir {
			return fail(eISDIR)
		}
		if !e.wr {
			return fail(eINVAL, eBADF) // POSIX ftruncate: EBADF or EINVAL when not open for writing
		}
		if o.Off < 0 {
			return fail(eINVAL)
		}
		e.ino.truncate(o.Off)
		return Exp{}

	case "fd_readdir":
		e := m.fds[o.Fd]
		if e == nil {
			return fail(eBADF)
		}
		if !e.ino.dir {
			return fail(eBADF, eNOTDIR) // the WASI docs leave the choice open; wazero documents EBADF
		}
		if !m.inSync(e) && m.hintFailed {
			// POSIX: lists the original directory. wazero re-opens a directory by its remembered path before
			// the descriptor's FIRST Readdir and refuses (ENOENT) when the path is gone or names another
			// directory; an already-read descriptor rewinds in place and lists the original. Tolerated:
			// an errno. Never: entries or the inode of a different directory.
			return fail(anyErr)
		}
		return Exp{Dir: &dirExp{self: e.ino, buflen: o.Len}}

	case "path_create_directory":
		b, x := m.base(o.Fd)
		if x != nil {
			return *x
		}
		par, leaf, n, errs := walk(b.ino, o.P)
		if errs != nil {
			// wazero reports ENOENT where POSIX says ENOTDIR (dirfs.Mkdir maps it); both are "a parent is unusable".
			return fail(eNOENT, eNOTDIR)
		}
		if n != nil {
			return fail(eEXIST)
		}
		par.kids[leaf] = &inode{dir: true, linked: true, kids: map[string]*inode{}}
		return Exp{}

	case "path_remove_directory":
		b, x := m.base(o.Fd)
		if x != nil {
			return *x
		}
		par, leaf, n, errs := walk(b.ino, o.P)
		switch {
		case errs != nil:
			return Exp{Errs: errs}
		case n == nil:
			return fail(eNOENT)
		case !n.dir:
			return fail(eNOTDIR)
		case len(n.kids) > 0:
			return fail(eNOTEMPTY)
		}
		delete(par.kids, leaf)
		n.linked = false
		return Exp{}

	case "path_unlink_file":
		b, x := m.base(o.Fd)
		if x != nil {
			return *x
		}
		par, leaf, n, errs := walk(b.ino, o.P)
		switch {
		case errs != nil:
			return Exp{Errs: errs}
		case n == nil:
			return fail(eNOENT)
		case n.dir:
			return fail(eISDIR)
		}
		delete(par.kids, leaf)
		n.linked = false
		return Exp{}

	case "path_filestat_get":
		b, x := m.base(o.Fd)
		if x != nil {
			return *x
		}
		_, _, n, errs := walk(b.ino, o.P)
		if errs != nil {
			return Exp{Errs: errs}
		}
		if n == nil {
			return fail(eNOENT)
		}
		return Exp{Stat: &statExp{ino: n}}

	case "path_rename":
		b1, x := m.base(o.Fd)
		if x != nil {
			return *x
		}
		b2, x := m.base(o.Fd2)
		if x != nil {
			return *x
		}
		// Linux resolves both parent directories before it looks at the last components.
		opar, oleaf, on, errs := walk(b1.ino, o.P)
		if errs != nil {
			return Exp{Errs: errs}
		}
		npar, nleaf, nn, errs := walk(b2.ino, o.P2)
		if errs != nil {
			return Exp{Errs: errs}
		}
		if on == nil {
			return fail(eNOENT)
		}
		if on == nn {
			return Exp{} // same file: no-op
		}
		if on.dir && isAncestor(on, npar) {
			return fail(eINVAL) // a directory cannot be moved below itself
		}
		if nn != nil {
			switch {
			case nn.dir && isAncestor(nn, opar):
				// the target is an ancestor of the source, hence a non-empty directory
				// (Linux: ENOTEMPTY; POSIX also allows EEXIST, and EISDIR for a non-directory source)
				return fail(eNOTEMPTY, eEXIST, eISDIR)
			case on.dir && !nn.dir:
				return fail(eNOTDIR)
			case !on.dir && nn.dir:
				return fail(eISDIR)
			case nn.dir && len(nn.kids) > 0:
				return fail(eNOTEMPTY, eEXIST)
			}
			nn.linked = false
		}
		delete(opar.kids, oleaf)
		npar.kids[nleaf] = on
		return Exp{}
	}
	panic("model: unknown op " + o.K)
}

// isAncestor reports whether a is n or an ancestor directory of n.
func isAncestor(a, n *inode) bool {
	if a == n {
		return true
	}
	for _, k := range a.kids {
		if k.dir && isAncestor(k, n) {
			return true
		}
	}
	return false
}

// fd_read/fd_pread use two iovecs of these lengths at these positions of a 64-byte area.
const (
	readLen0, readPos0 = 2, 4
	readLen1, readPos1 = 8, 16
	readArea           = 64
)

func readImage(data []byte) []byte {
	img := make([]byte, readArea)
	for i := range img {
		img[i] = sentinel
	}
	n := copy(img[readPos0:readPos0+readLen0], data)
	if n == readLen0 {
		copy(img[readPos1:readPos1+readLen1], data[n:])
	}
	return img
}

// live reports whether an inode is reachable from the tree or an open descriptor.
func (m *Model) live(n *inode) bool {
	if isAncestor(m.root, n) || reachFile(m.root, n) {
		return true
	}
	for _, e := range m.fds {
		if e.ino == n {
			return true
		}
	}
	return false
}

func reachFile(d, n *inode) bool {
	for _, k := range d.kids {
		if k == n || (k.dir && reachFile(k, n)) {
			return true
		}
	}
	return false
}

// Key is the canonical form of the model state: tree with contents, descriptor table with
// inode identity, offsets and flags. Path names of descriptors enter only as "in sync"/"drifted".
func (m *Model) Key() string {
	var sb strings.Builder
	label := map[*inode]int{}
	var visit func(n *inode, path string)
	visit = func(n *inode, path string) {
		label[n] = len(label)
		if !n.dir {
			fmt.Fprintf(&sb, "%s=F%s;", path, n.content())
			return
		}
		fmt.Fprintf(&sb, "%s=D;", path)
		ks := make([]string, 0, len(n.kids))
		for k := range n.kids {
			ks = append(ks, k)
		}
		sort.Strings(ks)
		for _, k := range ks {
			visit(n.kids[k], path+"/"+k)
		}
	}
	visit(m.root, "")
	fds := make([]int, 0, len(m.fds))
	for fd := range m.fds {
		fds = append(fds, int(fd))
	}
	sort.Ints(fds)
	for _, fd := range fds {
		e := m.fds[int32(fd)]
		l, ok := label[e.ino]
		if !ok {
			l = len(label)
			label[e.ino] = l
			if e.ino.dir {
				fmt.Fprintf(&sb, "orphan%d=D;", l)
			} else {
				fmt.Fprintf(&sb, "orphan%d=F%s;", l, e.ino.content())
			}
		}
		switch {
		case e.pre:
			fmt.Fprintf(&sb, "fd%d=pre;", fd)
		case e.ino.dir:
			fmt.Fprintf(&sb, "fd%d=dir#%d,sync=%v;", fd, l, m.inSync(e))
		default:
			fmt.Fprintf(&sb, "fd%d=file#%d,off=%d,app=%v,wr=%v;", fd, l, e.off, e.app, e.wr)
		}
	}
	return sb.String()
}

// TreeString is the canonical form of the directory tree alone (compared with the host directory).
func (m *Model) TreeString() string {
	var out []string
	var visit func(n *inode, path string)
	visit = func(n *inode, path string) {
		for k, c := range n.kids {
			p := path + "/" + k
			if c.dir {
				out = append(out, p+"/")
				visit(c, p)
			} else {
				out = append(out, fmt.Sprintf("%s=%s", p, c.content()))
			}
		}
	}
	visit(m.root, "")
	sort.Strings(out)
	return strings.Join(out, " ")
}
