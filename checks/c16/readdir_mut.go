package main

import (
	"fmt"
	"os"
	"path/filepath"
	"sort"
	"strings"
)

// Directory changes between listings on ONE descriptor.
//
// For every directory of the readdir exploration x buf_len in mutBufs x every prefix length p of a
// libc-style traversal (p = 0 calls ... the complete traversal to the end) x one mutation from
// {create file, mkdir, unlink, rmdir, rename}, applied through the WASI path_* calls: after the
// mutation a REWOUND traversal (cookie 0) on the same descriptor must yield '.', '..' and exactly the
// directory's current entries, each once — with a buffer holding the whole listing and with buf_len.
// Only what the statement says is checked ("directory changes are visible to later lookups", a rewound
// traversal yields every current entry exactly once); continuing from a non-zero cookie after a change
// is left open by POSIX and not judged. The oracle after the mutation is again the exact memory image,
// computed from the host's own listing (order, inode numbers) of the changed directory, which itself
// must hold exactly the expected set of names.
var mutations = []string{"create-file", "mkdir", "unlink", "rmdir", "rename"}

var mutBufs = []uint32{25, 64, 106, 2048}

const mutDir = "m"

func runMutated(x *inst, root string, lens []int, buflen uint32, prefix int, mut string, loc *rdLocal, verbose bool) (v *rdViolation, applicable, atEnd bool) {
	// pick the entry the mutation works on
	file, sub := "", ""
	want := map[string]uint32{}
	for j, l := range lens {
		n := entryName(j, l)
		if j%3 == 2 {
			want[n] = ftDir
			if sub == "" {
				sub = n
			}
		} else {
			want[n] = ftFile
			if file == "" {
				file = n
			}
		}
	}
	var op Op
	switch mut {
	case "create-file":
		op = Op{K: "path_open", Fd: 3, P: mutDir + "/zz", Mode: "CREAT"}
		want["zz"] = ftFile
	case "mkdir":
		op = Op{K: "path_create_directory", Fd: 3, P: mutDir + "/zd"}
		want["zd"] = ftDir
	case "unlink":
		if file == "" {
			return nil, false, false
		}
		op = Op{K: "path_unlink_file", Fd: 3, P: mutDir + "/" + file}
		delete(want, file)
	case "rmdir":
		if sub == "" {
			return nil, false, false
		}
		op = Op{K: "path_remove_directory", Fd: 3, P: mutDir + "/" + sub}
		delete(want, sub)
	case "rename":
		if file == "" {
			return nil, false, false
		}
		op = Op{K: "path_rename", Fd: 3, P: mutDir + "/" + file, Fd2: 3, P2: mutDir + "/zr"}
		delete(want, file)
		want["zr"] = ftFile
	default:
		must(fmt.Errorf("unknown mutation %q", mut))
	}
	os.RemoveAll(filepath.Join(root, mutDir))
	d := makeDirNamed(root, mutDir, lens)
	defer os.RemoveAll(filepath.Join(root, mutDir))
	c := readdirCase{Lens: lens, Traversal: buflen, Prefix: prefix, Mutation: mut}
	fd, v := openDir(x, d)
	if v != nil {
		v.c = c
		return v, true, false
	}
	defer x.do(&Op{K: "fd_close", Fd: fd})
	if verbose {
		fmt.Printf(" traversal prefix of %d call(s) with buf_len=%d on fd %d (host order %s)\n", prefix, buflen, fd, listNames(d.list))
	}
	if v, atEnd = traverseFd(x, fd, d, buflen, prefix, "fd_readdir:before-"+mut+":", c, loc, verbose); v != nil {
		return v, true, atEnd
	}
	r := x.do(&op)
	if verbose {
		fmt.Printf(" mutation %s -> errno=%d\n", op.String(), r.Errno)
	}
	if r.Errno != 0 || r.Trap != "" {
		return &rdViolation{sig: op.K + ":errno", what: fmt.Sprintf("%s on a directory with name lengths %v: errno %d %s, model: success", op.String(), lens, r.Errno, r.Trap), c: c}, true, atEnd
	}
	if op.K == "path_open" {
		x.do(&Op{K: "fd_close", Fd: int32(r.N)})
	}
	nd := scanDir(root, mutDir)
	nd.lens = lens
	var got, exp []string
	for _, e := range nd.list[2:] {
		got = append(got, fmt.Sprintf("%s:%d", e.name, e.typ))
	}
	for n, t := range want {
		exp = append(exp, fmt.Sprintf("%s:%d", n, t))
	}
	sort.Strings(got)
	sort.Strings(exp)
	if strings.Join(got, " ") != strings.Join(exp, " ") {
		return &rdViolation{sig: op.K + ":host-tree", what: fmt.Sprintf("after %s the host directory holds %v, model: %v", op.String(), got, exp), c: c}, true, atEnd
	}
	if verbose {
		fmt.Printf(" rewound traversals on fd %d (host order now %s)\n", fd, listNames(nd.list))
	}
	for _, b := range []uint32{2048, buflen} {
		if v, _ = traverseFd(x, fd, nd, b, -1, "fd_readdir:rewind-after-"+mut+":", c, loc, verbose); v != nil {
			return v, true, atEnd
		}
	}
	loc.outcomes["readdir-mutation:"+mut+":rewind-lists-new-content"]++
	return nil, true, atEnd
}

// mutationTask runs all prefixes x mutations for one (directory, buf_len).
func mutationTask(w *worker, lens []int, buflen uint32, loc *rdLocal) {
	root := filepath.Join(w.dir, "rdm")
	must(os.MkdirAll(root, 0o755))
	in := w.rt.instantiate(root)
	defer in.close()
	for _, mut := range mutations {
		for p := 0; ; p++ {
			v, applicable, atEnd := runMutated(in, root, lens, buflen, p, mut, loc, false)
			if !applicable {
				break
			}
			loc.mutated++
			if v != nil && len(loc.viol) < 3 {
				loc.viol = append(loc.viol, *v)
			}
			if atEnd || v != nil || p > 64 {
				break // p calls reached the end of the directory: this was the complete traversal
			}
		}
	}
}
