package main

import (
	"fmt"

	"github.com/tetratelabs/wazero/verif/wb"
)

// ---------------------------------------------------------------- module layouts
//
// The identity oracle does not depend on where things sit in the guest binary, so the same cases are
// re-run with the index spaces of the module deliberately de-aligned: function index != import index
// != per-kind import index != type index != export index. A lookup that uses the wrong index space
// then lands on a different entity (another import kind, a decoy type, a padding function).

type layoutT struct {
	Name string
	// Imports: which non-function imports precede function import j.
	//   "" none; "globals": 1+j%3 globals before every function import; "memory": the memory before function 0;
	//   "tables": one table before each of the functions 0,1,2; "mix": global,memory,table before function 0 and one
	//   global before every later one. Per-kind indexes of these imports collide with function indexes 0,1,2,...
	Imports string
	// Types: "" first-use order; "decoys": types 0..2 are unrelated decoys; "reversed": decoys first, then the whole
	// type section reversed (decoys last, real types in reverse order of first use).
	Types string
	// SplitHosts: odd units are defined in a second host module.
	SplitHosts bool
	// Pad: number of unrelated guest functions at the start of the function section.
	Pad int
	// Thunk: the exported echo entry e<i> is a thunk around the real wrapper, placed before ("before": the callee
	// has a higher function index) or after it ("after").
	Thunk string
	// Exports: exported globals/memory/table come first and are interleaved with the function exports.
	Exports bool
}

var layouts = []layoutT{
	{Name: "plain"},
	{Name: "globals+decoys", Imports: "globals", Types: "decoys", SplitHosts: true, Pad: 3, Thunk: "before", Exports: true},
	{Name: "memory+reversed", Imports: "memory", Types: "reversed", Thunk: "after", Exports: true},
	{Name: "tables+decoys", Imports: "tables", Types: "decoys", SplitHosts: true, Pad: 1},
	{Name: "mix+reversed", Imports: "mix", Types: "reversed", SplitHosts: true, Pad: 2, Thunk: "before", Exports: true},
	{Name: "globals-only", Imports: "globals", Thunk: "after"},
	{Name: "decoys-only", Types: "decoys", SplitHosts: true, Pad: 3, Exports: true},
}

// layoutRots: rotations run in non-plain layouts (index confusion is not value dependent; one boundary rotation whose
// first i64 is 0x8000000000000000 and both position-tagged ones, all with significant upper halves).
var layoutRots = []int{3, nBoundary, nBoundary + 1}

var allRots = func() []int {
	o := make([]int, nRot)
	for i := range o {
		o[i] = i
	}
	return o
}()

var decoyTypes = []wb.FuncType{
	{Params: []byte{tI32}, Results: []byte{tI32}},
	{Params: nil, Results: nil},
	{Params: []byte{tF64, tF64}, Results: []byte{tF32}},
}

func (l *layoutT) hostModule(u *unit) string {
	if l.SplitHosts && u.idx%2 == 1 {
		return "host2"
	}
	return "host"
}

func (l *layoutT) needsProvider() bool { return l.Imports != "" }

// preImports lists the kinds of the non-function imports placed before function import j.
func (l *layoutT) preImports(j int) []byte {
	switch l.Imports {
	case "globals":
		return cyc(1+j%3, wb.KindGlobal)
	case "memory":
		if j == 0 {
			return []byte{wb.KindMemory}
		}
	case "tables":
		if j < 3 {
			return []byte{wb.KindTable}
		}
	case "mix":
		if j == 0 {
			return []byte{wb.KindGlobal, wb.KindMemory, wb.KindTable}
		}
		return []byte{wb.KindGlobal}
	}
	return nil
}

// providerModule exports what the non-function imports bind to.
var providerModule = func() []byte {
	m := &wb.Module{}
	m.Mem = &wb.Limits{Min: 1}
	m.Tables = []wb.Table{{Elem: wb.FuncRef, Lim: wb.Limits{Min: 1}}}
	g64 := m.AddGlobal(tI64, false, wb.CI64(0x1111111111111111))
	g32 := m.AddGlobal(tI32, false, wb.CI32(0x22222222))
	m.Exports = []wb.Export{{Name: "g64", Kind: wb.KindGlobal, Idx: g64}, {Name: "g32", Kind: wb.KindGlobal, Idx: g32},
		{Name: "mem", Kind: wb.KindMemory, Idx: 0}, {Name: "tab", Kind: wb.KindTable, Idx: 0}}
	return m.Encode()
}()

// guestModule builds, for every unit i (import "<host module>"."u<i>"):
//
//	c<i>_<k> : (externref^a) -> (i64, externref^b)   pushes the rotation-k constants as parameters (externref
//	           parameters cannot be constants and come from the caller), calls the import, compares every result
//	           INSIDE the guest with the rotation-k constant (`h() != C`; floats on their bits; externref by
//	           ref.is_null) and returns the mismatch bit mask plus the externref results.
//	g<i>     : the same below `depth` recursive frames (deep units only).
//	e<i>     : P -> R   forwards its parameters to the import and returns its results (echo), possibly via a thunk.
//	x<i>     : the import itself, re-exported.
//
// arranged according to the batch's layout.
func (b *batch) guestModule() []byte {
	l := b.layout
	m := &wb.Module{}
	if l.Types != "" {
		m.Types = append(m.Types, decoyTypes...)
	}
	// imports
	nGlob, nTab, hasMemImport := 0, 0, false
	for _, u := range b.units {
		for _, k := range l.preImports(u.idx) {
			switch k {
			case wb.KindGlobal:
				im := wb.Import{Module: "prov", Name: "g64", Kind: wb.KindGlobal, GlobalType: tI64}
				if nGlob%2 == 1 {
					im.Name, im.GlobalType = "g32", tI32
				}
				m.Imports = append(m.Imports, im)
				nGlob++
			case wb.KindMemory:
				m.Imports = append(m.Imports, wb.Import{Module: "prov", Name: "mem", Kind: wb.KindMemory, Mem: wb.Limits{Min: 1}})
				hasMemImport = true
			case wb.KindTable:
				m.Imports = append(m.Imports, wb.Import{Module: "prov", Name: "tab", Kind: wb.KindTable, Table: wb.Table{Elem: wb.FuncRef, Lim: wb.Limits{Min: 1}}})
				nTab++
			}
		}
		if got := m.ImportFunc(l.hostModule(u), fmt.Sprintf("u%d", u.idx), u.sig.P, u.sig.R); got != uint32(u.idx) {
			panic("function import index")
		}
	}
	nImp := uint32(len(b.units))
	// exported non-function entities of the guest itself
	exportExtra := func(i int) {
		if !l.Exports {
			return
		}
		m.Exports = append(m.Exports, wb.Export{Name: fmt.Sprintf("xg%d", i), Kind: wb.KindGlobal, Idx: uint32(nGlob)})
	}
	if l.Exports {
		m.AddGlobal(tI32, false, wb.CI32(7)) // global index nGlob
		if !hasMemImport {
			m.Mem = &wb.Limits{Min: 1}
		}
		m.Tables = append(m.Tables, wb.Table{Elem: wb.FuncRef, Lim: wb.Limits{Min: 2}})
		m.Exports = append(m.Exports, wb.Export{Name: "xmem", Kind: wb.KindMemory, Idx: 0},
			wb.Export{Name: "xtab", Kind: wb.KindTable, Idx: uint32(nTab)})
		exportExtra(0)
	}
	// padding functions (never called)
	for i := 0; i < l.Pad; i++ {
		d := decoyTypes[i%len(decoyTypes)]
		as := &wb.Asm{}
		for _, t := range d.Results {
			as.Const(t, 0)
		}
		m.AddFunc(d.Params, d.Results, nil, as.B)
	}
	next := func() uint32 { return nImp + uint32(len(m.Funcs)) }
	for _, u := range b.units {
		P, R := u.sig.P, u.sig.R
		a, nb := extCount(P), extCount(R)
		cp := cyc(a, tExt)
		cr := append([]byte{tI64}, cyc(nb, tExt)...)
		for _, k := range b.rots {
			as := &wb.Asm{}
			constBody(as, u, k, 0)
			f := m.AddFunc(cp, cr, R, as.B)
			m.ExportFunc(fmt.Sprintf("c%d_%d", u.idx, k), f)
		}
		exportExtra(u.idx + 1)
		if u.deep() {
			// g<i>(depth, externref^a): recurse depth times, then do what c<i>_<kDeep> does. Sweeping depth moves the
			// point where the native stack has to grow across the host call (argument registers live).
			self := next()
			as := &wb.Asm{}
			as.LocalGet(0).If(wb.Void)
			as.LocalGet(0).I32Const(1).Op(0x6b) // i32.sub
			for j := 0; j < a; j++ {
				as.LocalGet(uint32(1 + j))
			}
			as.Call(self).Return().End()
			constBody(as, u, kDeep, 1)
			f := m.AddFunc(append([]byte{tI32}, cp...), cr, R, as.B)
			m.ExportFunc(fmt.Sprintf("g%d", u.idx), f)
		}
		forward := func(target uint32) []byte {
			as := &wb.Asm{}
			for j := range P {
				as.LocalGet(uint32(j))
			}
			return as.Call(target).B
		}
		var entry uint32
		switch l.Thunk {
		case "before": // thunk first, calls the wrapper that follows it
			entry = m.AddFunc(P, R, nil, forward(next()+1))
			m.AddFunc(P, R, nil, forward(uint32(u.idx)))
		case "after":
			real := m.AddFunc(P, R, nil, forward(uint32(u.idx)))
			entry = m.AddFunc(P, R, nil, forward(real))
		default:
			entry = m.AddFunc(P, R, nil, forward(uint32(u.idx)))
		}
		m.ExportFunc(fmt.Sprintf("e%d", u.idx), entry)
		m.ExportFunc(fmt.Sprintf("x%d", u.idx), uint32(u.idx))
	}
	if l.Types == "reversed" {
		n := uint32(len(m.Types))
		rev := make([]wb.FuncType, n)
		for i, t := range m.Types {
			rev[n-1-uint32(i)] = t
		}
		m.Types = rev
		for i := range m.Imports {
			if m.Imports[i].Kind == wb.KindFunc {
				m.Imports[i].TypeIdx = n - 1 - m.Imports[i].TypeIdx
			}
		}
		for i := range m.Funcs {
			m.Funcs[i].TypeIdx = n - 1 - m.Funcs[i].TypeIdx
		}
	}
	return m.Encode()
}

// guestFuncCount is the number of guest functions the layout generates for the batch.
func (b *batch) guestFuncCount() (n int64) {
	n = int64(b.layout.Pad)
	for _, u := range b.units {
		n += int64(len(b.rots)) + 1
		if u.deep() {
			n++
		}
		if b.layout.Thunk != "" {
			n++
		}
	}
	return
}
