package main

import (
	"fmt"
	"strings"

	"github.com/tetratelabs/wazero/verif/wb"
)

// ---------------------------------------------------------------- value types and signatures

const (
	tI32 = wb.I32
	tI64 = wb.I64
	tF32 = wb.F32
	tF64 = wb.F64
	tExt = wb.ExternRef
)

var allTypes = []byte{tI32, tI64, tF32, tF64, tExt}

func tname(t byte) string {
	switch t {
	case tI32:
		return "i32"
	case tI64:
		return "i64"
	case tF32:
		return "f32"
	case tF64:
		return "f64"
	case tExt:
		return "externref"
	}
	return fmt.Sprintf("?%x", t)
}

func tparse(s string) byte {
	for _, t := range allTypes {
		if tname(t) == s {
			return t
		}
	}
	panic("bad type " + s)
}

func is32(t byte) bool { return t == tI32 || t == tF32 }

// mask keeps the significant bits of a value of type t in its uint64 slot.
func mask(t byte, v uint64) uint64 {
	if is32(t) {
		return v & 0xffffffff
	}
	return v
}

type sigT struct {
	P, R []byte
	Fam  string // enumeration family ("small", "cliff:<family>", "typed")
}

func tlist(l []byte) string {
	s := make([]string, len(l))
	for i, t := range l {
		s[i] = tname(t)
	}
	return strings.Join(s, ",")
}

func (s *sigT) String() string { return "(" + tlist(s.P) + ")->(" + tlist(s.R) + ")" }
func (s *sigT) key() string    { return string(s.P) + ">" + string(s.R) }

// ---------------------------------------------------------------- signature enumeration

// lists returns every list over allTypes of length 0..n in length-lexicographic order.
func lists(n int) [][]byte {
	out := [][]byte{{}}
	prev := [][]byte{{}}
	for l := 1; l <= n; l++ {
		var cur [][]byte
		for _, p := range prev {
			for _, t := range allTypes {
				cur = append(cur, append(append([]byte{}, p...), t))
			}
		}
		out = append(out, cur...)
		prev = cur
	}
	return out
}

func cyc(n int, ts ...byte) []byte {
	o := make([]byte, n)
	for i := range o {
		o[i] = ts[i%len(ts)]
	}
	return o
}

type cliffList struct {
	fam string
	l   []byte
}

// cliffLists: the type lists that walk across the register/stack boundary of the amd64 calling
// convention (7 integer + 8 float argument registers are left after the two context registers)
// for every type, with both parities of the number of stack slots.
func cliffLists(maxArity int) []cliffList {
	var out []cliffList
	fams := []struct {
		n  string
		ts []byte
	}{
		{"all-i32", []byte{tI32}}, {"all-i64", []byte{tI64}}, {"all-f32", []byte{tF32}}, {"all-f64", []byte{tF64}},
		{"all-externref", []byte{tExt}},
		{"alt-i32-f64", []byte{tI32, tF64}}, {"alt-f32-i64", []byte{tF32, tI64}}, {"alt-i64-f32", []byte{tI64, tF32}},
		{"int-mix", []byte{tI32, tI64, tExt}}, {"float-mix", []byte{tF32, tF64}},
	}
	for _, f := range fams {
		for n := 4; n <= maxArity; n++ {
			out = append(out, cliffList{f.n, cyc(n, f.ts...)})
		}
	}
	// 7 ints, then k floats, then m ints: the floats fill and overflow the float registers while
	// the trailing ints are the first integer stack slots.
	for k := 1; k <= 10; k++ {
		for m := 0; m <= 3; m++ {
			if 7+k+m > maxArity {
				continue
			}
			l := append(cyc(7, tI32, tI64, tExt), cyc(k, tF64, tF32)...)
			l = append(l, cyc(m, tI64, tI32)...)
			out = append(out, cliffList{"7int-kfloat-int", l})
		}
	}
	return out
}

type planOpts struct {
	maxP, maxR int // exhaustive small signatures
	maxArity   int // cliff families
}

func enumerateSigs(o planOpts) []*sigT {
	var out []*sigT
	seen := map[string]bool{}
	add := func(p, r []byte, fam string) {
		s := &sigT{P: p, R: r, Fam: fam}
		if seen[s.key()] {
			return
		}
		seen[s.key()] = true
		out = append(out, s)
	}
	for _, c := range cliffLists(o.maxArity) {
		f := "cliff:" + c.fam
		add(c.l, nil, f)                // parameters only
		add(nil, c.l, f)                // results only
		add(c.l, c.l, f)                // both
		add(c.l, []byte{tI32, tF32}, f) // many params, short results
		add([]byte{tI64, tF64}, c.l, f) // short params, many results
	}
	for _, t := range typedDefs {
		add(t.p, t.r, "typed")
	}
	// the exhaustive small signatures come last: a run that is cut short by its budget has covered the cliffs
	ps, rs := lists(o.maxP), lists(o.maxR)
	for _, p := range ps {
		for _, r := range rs {
			add(p, r, "small")
		}
	}
	return out
}

// ---------------------------------------------------------------- value alphabet

// Boundary alphabets per type. Position i of a list carries alpha[(i+k) mod len] in rotation k, so
// with k = 0..nBoundary-1 every position sees every value; two further "tagged" rotations give every
// position a value that encodes (position, role) so that any permutation of slots is visible.
var alpha = map[byte][]uint64{
	tI32: {0, 1, 0xffffffff /* -1 */, 0x80000000 /* min */, 0x7fffffff /* max */, 0x80000001, 0x0000ffff, 0xffff0000},
	tI64: {0, 1, 0xffffffffffffffff, 0x8000000000000000, 0x7fffffffffffffff, 0x80000000, 0xffffffff, 0x100000001,
		0xffffffff00000000, 0x7ffffffffffffffe},
	tExt: {0 /* null */, 1, 0xffffffffffffffff, 0x8000000000000000, 0x7fffffffffffffff, 0x80000000, 0xffffffff, 0x100000001,
		0xffffffff00000000, 0x000000c000012340},
	tF32: {0x00000000 /* +0 */, 0x80000000 /* -0 */, 0x3f800000 /* 1 */, 0xbf800000 /* -1 */, 0x7f7fffff /* max */, 0x00000001, /* min subnormal */
		0x7f800000 /* +inf */, 0xff800000 /* -inf */, 0x7fc00000 /* canonical qNaN */, 0x7fc00001, 0xffc12345, /* qNaN payloads */
		0x7f800001, 0x7fa00001, 0xffbfffff /* sNaN payloads */},
	tF64: {0x0000000000000000, 0x8000000000000000, 0x3ff0000000000000, 0xbff0000000000000, 0x7fefffffffffffff, 0x0000000000000001,
		0x7ff0000000000000, 0xfff0000000000000, 0x7ff8000000000000, 0x7ff8000000000001, 0xfff8123456789abc,
		0x7ff0000000000001, 0x7ff4000000000001, 0xfff7ffffffffffff},
}

const (
	nBoundary = 14 // >= len of every alphabet
	nTagged   = 2
	nRot      = nBoundary + nTagged
)

// value is the expected bit pattern of position pos (parameter or result) of type t in rotation k.
func value(t byte, pos, k int, res bool) uint64 {
	if k < nBoundary {
		a := alpha[t]
		i := pos + k
		if res {
			i += 5
		}
		return a[i%len(a)]
	}
	b := uint64(pos + 1) // 1..64
	if res {
		b |= 0x80
	}
	inv := k-nBoundary == 1
	var v uint64
	switch t {
	case tI32:
		v = 0x80a50000 | b<<8 | (b ^ 0xff)
		if inv {
			v = ^v & 0xffffffff
		}
	case tI64:
		v = 0x800000a500000000 | b<<48 | b<<24 | b
		if inv {
			v = ^v
		}
	case tExt:
		v = 0xe000000000000000 | b<<32 | b<<8 | 0x11
		if inv {
			v = ^v
		}
	case tF32: // ordinary normal numbers (no NaNs: slot permutations must be visible on their own)
		v = 0x40000000 | b<<15 | b
		if inv {
			v |= 0x80000000
			v ^= 0x00555500
		}
	case tF64: // low mantissa bits set: a detour through float32 would round them away
		v = 0x4000000000000000 | b<<44 | b<<8 | 1
		if inv {
			v |= 0x8000000000000000
			v ^= 0x0000555555550000
		}
	}
	return v
}

func values(ts []byte, k int, res bool) []uint64 {
	o := make([]uint64, len(ts))
	for i, t := range ts {
		o[i] = value(t, i, k, res)
	}
	return o
}

func isSNaN32(v uint64) bool {
	return v&0x7f800000 == 0x7f800000 && v&0x007fffff != 0 && v&0x00400000 == 0
}
func isSNaN64(v uint64) bool {
	return v&0x7ff0000000000000 == 0x7ff0000000000000 && v&0x000fffffffffffff != 0 && v&0x0008000000000000 == 0
}

// classify names the transformation that turned exp into got (both already masked to the type's width).
func classify(t byte, exp, got uint64) string {
	switch {
	case t == tF32 && isSNaN32(exp) && got == exp|0x00400000:
		return "f32-snan-quietened"
	case t == tF64 && isSNaN64(exp) && got == exp|0x0008000000000000:
		return "f64-snan-quietened"
	}
	return "value-differs"
}
