package main

import (
	"fmt"

	"github.com/tetratelabs/wazero/api"
	"github.com/tetratelabs/wazero/verif/wb"
)

// ---------------------------------------------------------------- call-form dimension
//
// In the main product the guest reaches a host function only with a plain `call` from a wrapper whose own
// signature is the host function's signature (or the constant form). How the values travel, however, also depends
// on (a) the call instruction (`call`, `call_indirect`, and with the tail-call feature `return_call`,
// `return_call_indirect`: the host function then returns straight into the caller of the guest frame, i.e. into
// the entry preamble of Call/CallWithStack or into another guest function), (b) the shape of the calling guest
// frame relative to the callee (the caller has more / fewer / differently placed register and stack arguments than
// the host function: parameters must be moved between registers and stack slots, and stack-passed results are
// addressed relative to an argument area whose size is the caller's, not the callee's), and (c) who reads the
// results (Go through the entry preamble, a guest function that called the wrapper, or Go after a chain of two
// tail calls). This file enumerates the product
//
//	call instruction (4) x caller frame shape (8) x entry (3) x Call / CallWithStack
//
// for a slice of the signatures and definition styles, on both engines, with the tail-call feature enabled in the
// runtime configuration. Oracle: the echo oracle (host observes exactly what Go passed, Go receives exactly what
// the host function returned, the host function ran exactly once).

var callKinds = []string{"call", "call_indirect", "return_call", "return_call_indirect"}

// frameT: the wrapper's own parameter list is Lead ++ P' ++ Trail, where P' is the host function's parameter list
// P (forwarded with local.get) or, for Consts, only P's externref parameters (the others are constants of the
// rotation, so the caller has FEWER arguments than the callee). The pad parameters are never read.
type frameT struct {
	Name        string
	Lead, Trail []byte
	Consts      bool
}

var formFrames = []frameT{
	{Name: "same"}, // caller signature == callee signature
	{Name: "lead-regs", Lead: []byte{tI32, tF64, tI64, tF32}},                                                     // P shifted to other registers, nothing added on the stack by the pad itself
	{Name: "lead-int-stack", Lead: cyc(8, tI64)},                                                                  // one (odd) integer stack slot; every integer of P sits on the caller's stack
	{Name: "lead-float-stack", Lead: cyc(9, tF64)},                                                                // one float stack slot; every float of P sits on the caller's stack
	{Name: "lead-mixed-stack", Lead: append(append(cyc(7, tI32, tI64), cyc(8, tF64, tF32)...), tI64, tF32, tI32)}, // all registers used, 3 stack slots, all of P on the stack
	{Name: "trail-int-stack", Trail: cyc(9, tI32)},                                                                // P in the callee's own positions, the caller has >= 2 more stack slots
	{Name: "trail-float-stack", Trail: cyc(10, tF32)},                                                             // the same with float stack slots
	{Name: "const-args", Consts: true},                                                                            // caller has fewer arguments than the callee
}

// entries: "direct" the wrapper itself is exported; "thunk-call" an exported function of the wrapper's signature
// calls the wrapper with `call` (a guest frame reads the results); "thunk-tail" an exported function WITHOUT the
// pad parameters pushes pad constants and `return_call`s the wrapper (a tail call into a frame with a larger
// argument area, followed by the wrapper's own call instruction).
var formEntries = []string{"direct", "thunk-call", "thunk-tail"}

type formT struct {
	K, F, E int
	Stack   bool
}

func (f formT) dir() string {
	return fmt.Sprintf("form/%s/%s/%s/%s", callKinds[f.K], formFrames[f.F].Name, formEntries[f.E], map[bool]string{false: "call", true: "stack"}[f.Stack])
}

func (f formT) where() string {
	return fmt.Sprintf("guest(%s;%s;%s)", callKinds[f.K], formFrames[f.F].Name, formEntries[f.E])
}

var formList, formByDir = func() ([]formT, map[string]formT) {
	var l []formT
	m := map[string]formT{}
	for k := range callKinds {
		for f := range formFrames {
			for e := range formEntries {
				for _, st := range []bool{false, true} {
					fm := formT{k, f, e, st}
					l = append(l, fm)
					m[fm.dir()] = fm
				}
			}
		}
	}
	return l, m
}()

// forms levels of a batch: 0 not a call-form batch; 1 three representative styles (+ typed closures); 2 all styles.
func formStyle(st styleT, level int) bool {
	if level == 2 {
		return true
	}
	switch st.Kind {
	case kGoFunc, kGoModFunc, kTyped:
		return true
	case kReflect:
		return st.Ctx == 2 && st.Flav == 2
	}
	return false
}

func (fr *frameT) inner(P []byte) []byte {
	if fr.Consts {
		return cyc(extCount(P), tExt)
	}
	return P
}

func (fr *frameT) wsig(P []byte) []byte {
	o := append([]byte{}, fr.Lead...)
	o = append(o, fr.inner(P)...)
	return append(o, fr.Trail...)
}

const (
	padLeadPos  = 64
	padTrailPos = 96
)

func padValue(t byte, pos int) uint64 { return value(t, pos, nBoundary, false) }

func formName(u *unit, k int, fm formT) string {
	s := fmt.Sprintf("f%d_%d_%d_%d", u.idx, fm.K, fm.F, fm.E)
	if formFrames[fm.F].Consts {
		s += fmt.Sprintf("_%d", k)
	}
	return s
}

// goParams: what Go passes to the exported entry of form fm for host parameters pv.
func (fm formT) goParams(P []byte, pv []uint64) []uint64 {
	fr := &formFrames[fm.F]
	var inner []uint64
	if fr.Consts {
		for j, t := range P {
			if t == tExt {
				inner = append(inner, pv[j])
			}
		}
	} else {
		inner = pv
	}
	if fm.E == 2 {
		return append([]uint64{}, inner...)
	}
	var o []uint64
	for j, t := range fr.Lead {
		o = append(o, padValue(t, padLeadPos+j))
	}
	o = append(o, inner...)
	for j, t := range fr.Trail {
		o = append(o, padValue(t, padTrailPos+j))
	}
	return o
}

// formsModule: for every unit, call kind, frame (and rotation for const-args) the wrapper and its two thunks.
func (b *batch) formsModule() []byte {
	m := &wb.Module{}
	for _, u := range b.units {
		if got := m.ImportFunc("host", fmt.Sprintf("u%d", u.idx), u.sig.P, u.sig.R); got != uint32(u.idx) {
			panic("function import index")
		}
	}
	nImp := len(b.units)
	m.Tables = []wb.Table{{Elem: wb.FuncRef, Lim: wb.Limits{Min: uint32(nImp)}}}
	el := wb.Elem{Mode: 0, Offset: wb.CI32(0)}
	for i := 0; i < nImp; i++ {
		el.Funcs = append(el.Funcs, uint32(i))
	}
	m.Elems = []wb.Elem{el}
	for _, u := range b.units {
		P, R := u.sig.P, u.sig.R
		for fi := range formFrames {
			fr := &formFrames[fi]
			ks := []int{b.rots[0]}
			if fr.Consts {
				ks = b.rots
			}
			W := fr.wsig(P)
			inner := fr.inner(P)
			for _, k := range ks {
				for kind := range callKinds {
					// the wrapper
					as := &wb.Asm{}
					base := uint32(len(fr.Lead))
					if fr.Consts {
						e := base
						for j, t := range P {
							if t == tExt {
								as.LocalGet(e)
								e++
							} else {
								as.Const(t, value(t, j, k, false))
							}
						}
					} else {
						for j := range P {
							as.LocalGet(base + uint32(j))
						}
					}
					switch kind {
					case 0:
						as.Call(uint32(u.idx))
					case 1:
						as.I32Const(int32(u.idx)).CallIndirect(m.Type(P, R), 0)
					case 2:
						as.ReturnCall(uint32(u.idx))
					case 3:
						as.I32Const(int32(u.idx)).ReturnCallIndirect(m.Type(P, R), 0)
					}
					wr := m.AddFunc(W, R, nil, as.B)
					m.ExportFunc(formName(u, k, formT{kind, fi, 0, false}), wr)
					// thunk-call: same signature, forwards everything with `call`
					as = &wb.Asm{}
					for j := range W {
						as.LocalGet(uint32(j))
					}
					as.Call(wr)
					m.ExportFunc(formName(u, k, formT{kind, fi, 1, false}), m.AddFunc(W, R, nil, as.B))
					// thunk-tail: no pad parameters, pushes pad constants, return_call
					as = &wb.Asm{}
					for j, t := range fr.Lead {
						as.Const(t, padValue(t, padLeadPos+j))
					}
					for j := range inner {
						as.LocalGet(uint32(j))
					}
					for j, t := range fr.Trail {
						as.Const(t, padValue(t, padTrailPos+j))
					}
					as.ReturnCall(wr)
					m.ExportFunc(formName(u, k, formT{kind, fi, 2, false}), m.AddFunc(inner, R, nil, as.B))
				}
			}
		}
	}
	return m.Encode()
}

func (b *batch) formsFuncCount() int64 {
	per := 0
	for fi := range formFrames {
		n := 1
		if formFrames[fi].Consts {
			n = len(b.rots)
		}
		per += n * len(callKinds) * len(formEntries)
	}
	return int64(per * len(b.units))
}

// chunkForms groups the signatures of the call-form slice into batches (one guest module each).
func chunkForms(sigs []*sigT, rots []int, level int, out []batchSpec) []batchSpec {
	var cur []*sigT
	w := 0
	flush := func() {
		if len(cur) > 0 {
			out = append(out, batchSpec{sigs: cur, rots: rots, forms: level})
			cur, w = nil, 0
		}
	}
	for _, s := range sigs {
		ns := 0
		for _, st := range stylesFor(s) {
			if formStyle(st, level) {
				ns++
			}
		}
		sw := ns * len(formList) * (len(s.P) + len(s.R) + 12)
		if len(cur) > 0 && w+sw > 160000 {
			flush()
		}
		cur = append(cur, s)
		w += sw
	}
	flush()
	return out
}

// runForms executes every call form and rotation of one unit on one engine.
func (r *runner) runForms(w *world, u *unit) {
	for _, k := range w.b.rots {
		if r.only != nil && r.only.K != k {
			continue
		}
		for _, fm := range formList {
			if r.only != nil && r.only.Dir != fm.dir() {
				continue
			}
			r.runForm(w, u, k, fm)
		}
	}
}

func (r *runner) runForm(w *world, u *unit, k int, fm formT) {
	P, R := u.sig.P, u.sig.R
	pv, rv := values(P, k, false), values(R, k, true)
	dir := fm.dir()
	r.res.Cases++
	if len(P)+len(R) > 0 {
		r.res.Nontriv++
	}
	w.reset(k)
	r.depth = 0
	params := fm.goParams(P, pv)
	var res []uint64
	var err error
	var f api.Function
	f, perr := w.fn(formName(u, k, fm))
	if perr == "" {
		res, err = w.invoke(f, len(R), params, fm.Stack)
	}
	r.res.Calls++
	r.res.HostCalls += int64(len(w.log))
	if r.only != nil {
		fmt.Printf("  %s %s %s %s k=%d\n    Go passed       %#x\n    host must see   %#x\n    host observed   %v\n    results wanted  %#x\n    results (raw)   %#x err=%v %s\n",
			w.eng, u.st, u.sig, dir, k, params, pv, w.logString(), rv, res, err, perr)
	}
	if perr != "" {
		r.viol(w, u, dir, k, "ExportedFunction-panics:"+dir, "ExportedFunction panics: "+errClass(perr))
		return
	}
	if err != nil {
		r.viol(w, u, dir, k, "call-error:"+dir+":"+u.st.class(), "call failed: "+errClass(err.Error()))
		return
	}
	if w.hostErr != "" {
		r.viol(w, u, dir, k, "host-args:"+u.st.class(), w.hostErr)
	}
	if len(w.log) != 1 {
		r.viol(w, u, dir, k, "host-invocations:"+dir, fmt.Sprintf("host functions entered %d times, want 1", len(w.log)))
		return
	}
	if w.log[0].u != u {
		r.viol(w, u, dir, k, "wrong-host-function:"+dir, fmt.Sprintf("entered %s (import %d), want %s (import %d)", w.log[0].u.st, w.log[0].u.idx, u.st, u.idx))
		return
	}
	call := map[bool]string{false: "Call", true: "CallWithStack"}[fm.Stack]
	r.cmpParams(w, u, u, dir, k, "Go->"+call+"->"+fm.where()+"->host", pv, w.log[0].obs)
	r.cmpResults(w, u, u, dir, k, "host->"+fm.where()+"->"+call+"-result", rv, res)
	r.res.Outcomes["call forms: "+callKinds[fm.K]+" cases run"]++
}
