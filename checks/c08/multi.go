package main

import (
	"context"
	"fmt"
	"strings"

	"github.com/tetratelabs/wazero"
	"github.com/tetratelabs/wazero/api"
	"github.com/tetratelabs/wazero/verif/wb"
)

// ---------------------------------------------------------------- several host modules
//
// 2-3 host modules (left, right, mid) each export three functions at the SAME function indexes 0,1,2. One guest
// imports all of them and calls them in every order of 2-3 calls inside ONE exported function call (left,right /
// right,left / left,right,left / same twice / ...), directly and through call_indirect, from one api.Function
// reused across top-level calls (selector function), and around a callback (the first host function calls back
// into the guest, which calls the other module). Every call site passes its own tagged constants and compares the
// results in the guest with the constants that exactly that host function returns for that site. Oracle: the log
// of host entries equals the call sequence (module, index, parameter values), the in-guest mask is 0, and every
// host function ran exactly as many times as it was called. This is where dispatch state that survives from one
// host call to the next inside a call engine becomes visible.

var mmods = []string{"left", "right", "mid"}

var msigs = []*sigT{
	{P: []byte{tI64}, R: []byte{tI64}},
	{P: []byte{tI32, tF64}, R: []byte{tF64, tI32}},
	{P: []byte{tI32, tI64, tI32, tI64, tI32, tI64, tI32, tF64, tF32, tF64, tI64, tI32}, R: []byte{tI64, tF64}}, // 7 ints, 3 floats, 2 stack ints
}

// definition styles of the host modules: the two stack forms and two reflected forms (without api.Module the
// reflected function is an api.GoFunction inside wazero, with it an api.GoModuleFunction).
var mstyles = []styleT{{Kind: kGoFunc}, {Kind: kGoModFunc}, {Kind: kReflect, Ctx: 0, Flav: 0}, {Kind: kReflect, Ctx: 2, Flav: 1}}

type mspec struct {
	N      int   `json:"modules"`
	Rot    bool  `json:"rotated"` // module m defines its functions in an order rotated by m: the same index has a different signature in every module, the same signature sits at shuffled indexes
	Styles []int `json:"styles"`  // index into mstyles, per module
}

func (s mspec) String() string {
	var st []string
	for m, i := range s.Styles {
		st = append(st, mmods[m]+"="+mstyles[i].String())
	}
	o := "aligned signatures"
	if s.Rot {
		o = "rotated signatures"
	}
	return fmt.Sprintf("%d host modules (%s), %s", s.N, strings.Join(st, ", "), o)
}

func multiSpecs() []mspec {
	var out []mspec
	for _, rot := range []bool{false, true} {
		for a := range mstyles {
			for b := range mstyles {
				out = append(out, mspec{2, rot, []int{a, b}})
			}
		}
		for a := range mstyles {
			out = append(out, mspec{3, rot, []int{a, a, a}})
			out = append(out, mspec{3, rot, []int{a, (a + 1) % 4, (a + 2) % 4}})
		}
	}
	return out
}

// sigIdx: which signature module m has at function index j.
func (s mspec) sigIdx(m, j int) int {
	if s.Rot {
		return (j + m) % len(msigs)
	}
	return j
}

type mslot struct{ M, J int }

type mscen struct {
	Name     string
	Kind     string // "seq" one guest function containing all calls; "sel" one call per top-level call of the same api.Function; "cb" callback
	Slots    []mslot
	Indirect bool
}

// mval: the tagged value of position pos at call site `site` of module m (distinct for every (m, site, pos, role)).
func mval(t byte, pos, m, site int, res bool) uint64 {
	return value(t, pos+13*m+4*site, nBoundary, res)
}

func mvalues(ts []byte, m, site int, res bool) []uint64 {
	o := make([]uint64, len(ts))
	for i, t := range ts {
		o[i] = mval(t, i, m, site, res)
	}
	return o
}

func words(n, minLen, maxLen int) [][]int {
	var out [][]int
	var rec func(cur []int)
	rec = func(cur []int) {
		if len(cur) >= minLen {
			out = append(out, append([]int{}, cur...))
		}
		if len(cur) == maxLen {
			return
		}
		for m := 0; m < n; m++ {
			rec(append(cur, m))
		}
	}
	rec(nil)
	return out
}

func wordName(w []int) string {
	s := ""
	for _, m := range w {
		s += string("LRM"[m])
	}
	return s
}

func (s mspec) scenarios() []mscen {
	var out []mscen
	ws := words(s.N, 2, 3)
	for _, ind := range []bool{false, true} {
		sfx := ""
		if ind {
			sfx = "_ind"
		}
		for j := 0; j < len(msigs); j++ {
			for _, w := range ws {
				sl := make([]mslot, len(w))
				for i, m := range w {
					sl[i] = mslot{m, j}
				}
				out = append(out, mscen{fmt.Sprintf("seq_idx%d_%s%s", j, wordName(w), sfx), "seq", sl, ind})
				out = append(out, mscen{fmt.Sprintf("sel_idx%d_%s%s", j, wordName(w), sfx), "sel", sl, ind})
				if s.Rot { // the same signature at shuffled indexes (control)
					ss := make([]mslot, len(w))
					for i, m := range w {
						ss[i] = mslot{m, (j - m + 2*len(msigs)) % len(msigs)}
					}
					out = append(out, mscen{fmt.Sprintf("seq_sig%d_%s%s", j, wordName(w), sfx), "seq", ss, ind})
				}
			}
			// callback: A.f_j calls back into the guest, which calls B.f_j; then the outer function calls B.f_j
			for a := 0; a < s.N; a++ {
				for b := 0; b < s.N; b++ {
					out = append(out, mscen{fmt.Sprintf("cb_idx%d_%c%c%s", j, "LRM"[a], "LRM"[b], sfx), "cb", []mslot{{a, j}, {b, j}, {b, j}}, ind})
				}
			}
		}
	}
	return out
}

// ---- guest

func (s mspec) importIdx(sl mslot) uint32 { return uint32(sl.M*len(msigs) + sl.J) }

// emitSite: call site number `site` calling slot sl; result locals start at base; mask accumulates in local maskL.
func (s mspec) emitSite(m *wb.Module, as *wb.Asm, sl mslot, site int, base, maskL uint32, indirect bool) {
	sg := msigs[s.sigIdx(sl.M, sl.J)]
	for p, t := range sg.P {
		as.Const(t, mval(t, p, sl.M, site, false))
	}
	if indirect {
		as.I32Const(int32(s.importIdx(sl))).CallIndirect(m.Type(sg.P, sg.R), 0)
	} else {
		as.Call(s.importIdx(sl))
	}
	for r := len(sg.R) - 1; r >= 0; r-- {
		as.LocalSet(base + uint32(r))
	}
	for r, t := range sg.R {
		v := mval(t, r, sl.M, site, true)
		as.LocalGet(maskL).LocalGet(base + uint32(r))
		switch t {
		case tI32:
			as.I32Const(int32(uint32(v))).Op(0x47)
		case tI64:
			as.I64Const(int64(v)).Op(0x52)
		case tF32:
			as.Op(0xbc).I32Const(int32(uint32(v))).Op(0x47)
		case tF64:
			as.Op(0xbd).I64Const(int64(v)).Op(0x52)
		}
		as.Op(0xad).I64Const(int64(site*4 + r)).Op(0x86).Op(0x84).LocalSet(maskL)
	}
}

func (s mspec) guest(scens []mscen) []byte {
	m := &wb.Module{}
	for mi := 0; mi < s.N; mi++ {
		for j := range msigs {
			sg := msigs[s.sigIdx(mi, j)]
			m.ImportFunc(mmods[mi], fmt.Sprintf("f%d", j), sg.P, sg.R)
		}
	}
	nImp := s.N * len(msigs)
	m.Tables = []wb.Table{{Elem: wb.FuncRef, Lim: wb.Limits{Min: uint32(nImp)}}}
	el := wb.Elem{Mode: 0, Offset: wb.CI32(0)}
	for i := 0; i < nImp; i++ {
		el.Funcs = append(el.Funcs, uint32(i))
	}
	m.Elems = []wb.Elem{el}
	seqFn := func(name string, sites []mslot, firstSite int, ind bool) {
		locals := []byte{tI64}
		as := &wb.Asm{}
		for i, sl := range sites {
			base := uint32(len(locals))
			locals = append(locals, msigs[s.sigIdx(sl.M, sl.J)].R...)
			s.emitSite(m, as, sl, firstSite+i, base, 0, ind)
		}
		as.LocalGet(0)
		m.ExportFunc(name, m.AddFunc(nil, []byte{tI64}, locals, as.B))
	}
	done := map[string]bool{}
	for _, sc := range scens {
		switch sc.Kind {
		case "seq":
			seqFn(sc.Name, sc.Slots, 0, sc.Indirect)
		case "cb":
			// outer: site 0 = A (calls back), site 2 = B; inner: site 1 = B
			locals := []byte{tI64}
			as := &wb.Asm{}
			b0 := uint32(len(locals))
			locals = append(locals, msigs[s.sigIdx(sc.Slots[0].M, sc.Slots[0].J)].R...)
			s.emitSite(m, as, sc.Slots[0], 0, b0, 0, sc.Indirect)
			b2 := uint32(len(locals))
			locals = append(locals, msigs[s.sigIdx(sc.Slots[2].M, sc.Slots[2].J)].R...)
			s.emitSite(m, as, sc.Slots[2], 2, b2, 0, sc.Indirect)
			as.LocalGet(0)
			m.ExportFunc(sc.Name, m.AddFunc(nil, []byte{tI64}, locals, as.B))
			seqFn("inner_"+sc.Name, sc.Slots[1:2], 1, sc.Indirect)
		case "sel":
			// sel<_ind>_idx<j>(m): one call (site 0) to module m's function j
			j := sc.Slots[0].J
			name := fmt.Sprintf("selfn_idx%d_%v", j, sc.Indirect)
			if done[name] {
				continue
			}
			done[name] = true
			locals := []byte{tI64}
			as := &wb.Asm{}
			for mi := 0; mi < s.N; mi++ {
				base := uint32(1 + len(locals))
				locals = append(locals, msigs[s.sigIdx(mi, j)].R...)
				as.LocalGet(0).I32Const(int32(mi)).Op(0x46).If(wb.Void) // i32.eq
				s.emitSite(m, as, mslot{mi, j}, 0, base, 1, sc.Indirect)
				as.End()
			}
			as.LocalGet(1)
			m.ExportFunc(name, m.AddFunc([]byte{tI32}, []byte{tI64}, locals, as.B))
		}
	}
	return m.Encode()
}

// ---- host and execution

type mcall struct {
	sl  mslot
	obs []uint64
}

type mworld struct {
	eng      string
	ctx      context.Context
	guest    api.Module
	log      []mcall
	armed    string // guest export the next host entry calls back into
	cbErr    string
	cbMask   uint64
	cbDone   bool
	hostErr  string
	runCount map[mslot]int // since the start of the scenario
}

type multiReplay struct {
	Spec mspec  `json:"spec"`
	Scen string `json:"scenario"`
}

func (r *runner) mviol(w *mworld, s mspec, sc mscen, sig, what string) {
	full := "multi-host:" + sig + ":" + w.eng
	r.res.Outcomes["FAIL "+full]++
	if v := r.res.Viols[full]; v != nil {
		v.N++
		return
	}
	if len(r.res.Viols) >= 24 {
		return
	}
	r.res.Viols[full] = &violT{Sig: full, N: 1, Replay: replayT{Engine: w.eng, Multi: &multiReplay{s, sc.Name}},
		What: fmt.Sprintf("%s, %s, scenario %s: %s", w.eng, s, sc.Name, what)}
}

func slotName(sl mslot) string { return fmt.Sprintf("%s.f%d", mmods[sl.M], sl.J) }

func seqName(sl []mslot) string {
	var o []string
	for _, s := range sl {
		o = append(o, slotName(s))
	}
	return strings.Join(o, ",")
}

func (r *runner) runMulti(s mspec, onlyEngine, onlyScen string) {
	ctx := context.Background()
	scens := s.scenarios()
	bin := s.guest(scens)
	for _, eng := range engines {
		if onlyEngine != "" && onlyEngine != eng {
			continue
		}
		w := &mworld{eng: eng, ctx: ctx}
		rt := wazero.NewRuntimeWithConfig(ctx, rtConfig(eng))
		for mi := 0; mi < s.N; mi++ {
			hb := rt.NewHostModuleBuilder(mmods[mi])
			for j := range msigs {
				sl := mslot{mi, j}
				sg := msigs[s.sigIdx(mi, j)]
				hb = defineHostFn(hb, fmt.Sprintf("f%d", j), sg, mstyles[s.Styles[mi]], func(mod api.Module, obs []uint64) []uint64 {
					site := len(w.log)
					w.log = append(w.log, mcall{sl, obs})
					w.runCount[sl]++
					if w.armed != "" {
						name := w.armed
						w.armed = ""
						g := mod
						if g == nil {
							g = w.guest
						}
						if fn := g.ExportedFunction(name); fn == nil {
							w.cbErr = "ExportedFunction(" + name + ") == nil on the module handed to the host function"
						} else if res, err := fn.Call(w.ctx); err != nil {
							w.cbErr = err.Error()
						} else {
							w.cbMask, w.cbDone = res[0], true
						}
					}
					return mvalues(sg.R, mi, site, true)
				}, func(e string) { w.hostErr = e })
			}
			if _, err := hb.Instantiate(ctx); err != nil {
				fatalf("multi: host module %s rejected (%s): %v", mmods[mi], eng, err)
			}
		}
		g, err := rt.InstantiateWithConfig(ctx, bin, wazero.NewModuleConfig().WithName("guest"))
		if err != nil {
			fatalf("multi: guest rejected (%s, %s): %v", eng, s, err)
		}
		w.guest = g
		fns := map[string]api.Function{}
		fn := func(name string) api.Function {
			if f := fns[name]; f != nil {
				return f
			}
			f := g.ExportedFunction(name)
			if f == nil {
				fatalf("multi: export %s missing", name)
			}
			fns[name] = f
			return f
		}
		for _, sc := range scens {
			if onlyScen != "" && onlyScen != sc.Name {
				continue
			}
			r.res.Cases++
			r.res.Nontriv++
			w.runCount = map[mslot]int{}
			switch sc.Kind {
			case "seq":
				r.mcall(w, s, sc, fn(sc.Name), nil, sc.Slots, 0)
			case "cb":
				w.armed = "inner_" + sc.Name
				w.cbErr, w.cbDone, w.cbMask = "", false, 0
				r.mcall(w, s, sc, fn(sc.Name), nil, sc.Slots, 0)
				if !w.cbDone {
					r.mviol(w, s, sc, "callback-failed", "nested call from the host function failed: "+errClass(w.cbErr))
				} else if w.cbMask != 0 {
					r.mviol(w, s, sc, "in-guest-result-differs:callback", fmt.Sprintf("inside the nested guest call, the result of %s differs from what that host function returns (mask %#x)", slotName(sc.Slots[1]), w.cbMask))
				}
			case "sel":
				f := fn(fmt.Sprintf("selfn_idx%d_%v", sc.Slots[0].J, sc.Indirect)) // ONE api.Function for the whole word
				for i, sl := range sc.Slots {
					r.mcall(w, s, sc, f, []uint64{uint64(sl.M)}, sc.Slots[i:i+1], i)
				}
			}
			// every host function ran exactly as many times as it was called
			want := map[mslot]int{}
			for _, sl := range sc.Slots {
				want[sl]++
			}
			for mi := 0; mi < s.N; mi++ {
				for j := range msigs {
					sl := mslot{mi, j}
					r.res.Crossings++
					if w.runCount[sl] != want[sl] {
						r.mviol(w, s, sc, "run-count", fmt.Sprintf("calls %s: %s ran %d times, was called %d times", seqName(sc.Slots), slotName(sl), w.runCount[sl], want[sl]))
					}
				}
			}
		}
		rt.Close(ctx)
	}
}

// mcall performs one top-level call and checks the host log against the expected slot sequence.
func (r *runner) mcall(w *mworld, s mspec, sc mscen, f api.Function, params []uint64, want []mslot, step int) {
	w.log = w.log[:0]
	w.hostErr = ""
	res, err := func() (res []uint64, err error) {
		defer func() {
			if p := recover(); p != nil {
				err = fmt.Errorf("panic escaped the call: %v", p)
			}
		}()
		return f.Call(w.ctx, params...)
	}()
	r.res.Calls++
	r.res.HostCalls += int64(len(w.log))
	if r.only != nil {
		fmt.Printf("  %s %s step %d: want host entries %s\n    got", w.eng, sc.Name, step, seqName(want))
		for _, c := range w.log {
			fmt.Printf(" %s%#x", slotName(c.sl), c.obs)
		}
		fmt.Printf("\n    in-guest mask %#x err=%v\n", res, err)
	}
	if err != nil {
		r.mviol(w, s, sc, "call-error:"+sc.Kind, fmt.Sprintf("calls %s: call failed: %s", seqName(want), errClass(err.Error())))
		return
	}
	if w.hostErr != "" {
		r.mviol(w, s, sc, "host-args", w.hostErr)
	}
	variant := sc.Kind
	if sc.Indirect {
		variant += "/call_indirect"
	}
	if len(w.log) != len(want) {
		r.mviol(w, s, sc, "host-invocations:"+variant, fmt.Sprintf("calls %s: %d host entries", seqName(want), len(w.log)))
		return
	}
	for i, sl := range want {
		r.res.Crossings++
		if w.log[i].sl != sl {
			r.mviol(w, s, sc, "wrong-host-function-dispatched:"+variant, fmt.Sprintf("calls %s: call %d entered %s instead of %s (parameters seen %#x)", seqName(want), i, slotName(w.log[i].sl), slotName(sl), w.log[i].obs))
			continue
		}
		sg := msigs[s.sigIdx(sl.M, sl.J)]
		exp := mvalues(sg.P, sl.M, i, false)
		for p, t := range sg.P {
			r.res.Crossings++
			if mask(t, exp[p]) != w.log[i].obs[p] {
				r.mviol(w, s, sc, "param-"+classify(t, mask(t, exp[p]), w.log[i].obs[p])+":"+variant, fmt.Sprintf("calls %s: call %d (%s) parameter %d (%s) observed as %#x, passed %#x", seqName(want), i, slotName(sl), p, tname(t), w.log[i].obs[p], mask(t, exp[p])))
			}
		}
	}
	for i, sl := range want {
		site := i
		if sc.Kind == "cb" && i == 1 {
			continue // checked inside the nested call
		}
		for rr := range msigs[s.sigIdx(sl.M, sl.J)].R {
			r.res.Crossings++
			if res[0]>>uint(site*4+rr)&1 != 0 {
				r.mviol(w, s, sc, "in-guest-result-differs:"+variant, fmt.Sprintf("calls %s: inside the guest, result %d of call %d (%s) differs from what that host function returns for this call site", seqName(want), rr, i, slotName(sl)))
			}
		}
	}
}
