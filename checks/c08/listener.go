package main

import (
	"context"
	"fmt"
	"strings"

	"github.com/tetratelabs/wazero/api"
	"github.com/tetratelabs/wazero/experimental"
)

// ---------------------------------------------------------------- function-listener dimension
//
// Both engines have separate code paths for host calls (and guest functions) compiled with a function
// listener, so a slice of the product is re-run with listeners attached. Modes:
//
//	lmNone     no listener
//	lmAll      a FunctionListenerFactory that returns a listener for every definition is in the context both when
//	           the host modules are built and when the guest is compiled (guest and host functions are listened)
//	lmHostOnly the factory is in the context only when the host modules are built
//
// The identity oracle is unchanged; in addition the listener's Before params / After results of every host
// function (and of the guest entry wrapper in lmAll echo/callback cases) must carry the same values.
const (
	lmNone = iota
	lmAll
	lmHostOnly
)

var listenerModes = []string{"none", "all-functions", "host-only"}

type lisRec struct {
	mod, name        string
	exports          []string
	params, results  []uint64
	done, aborted    bool
	mismatchedReturn bool
}

type lis struct{ w *world }

func (l *lis) Before(_ context.Context, _ api.Module, def api.FunctionDefinition, params []uint64, _ experimental.StackIterator) {
	r := &lisRec{mod: def.ModuleName(), name: def.Name(), exports: def.ExportNames(), params: append([]uint64{}, params...)}
	l.w.recs = append(l.w.recs, r)
	l.w.lstack = append(l.w.lstack, r)
}

func (l *lis) pop(def api.FunctionDefinition) *lisRec {
	n := len(l.w.lstack)
	if n == 0 {
		l.w.lisErr = "After/Abort without a pending Before"
		return &lisRec{}
	}
	r := l.w.lstack[n-1]
	l.w.lstack = l.w.lstack[:n-1]
	if r.mod != def.ModuleName() || r.name != def.Name() {
		r.mismatchedReturn = true
	}
	return r
}

func (l *lis) After(_ context.Context, _ api.Module, def api.FunctionDefinition, results []uint64) {
	r := l.pop(def)
	r.results = append([]uint64{}, results...)
	r.done = true
}

func (l *lis) Abort(_ context.Context, _ api.Module, def api.FunctionDefinition, _ error) {
	l.pop(def).aborted = true
}

func (w *world) listenerCtx(ctx context.Context) context.Context {
	l := &lis{w}
	return experimental.WithFunctionListenerFactory(ctx, experimental.FunctionListenerFactoryFunc(
		func(api.FunctionDefinition) experimental.FunctionListener { return l }))
}

func hasExport(r *lisRec, name string) bool {
	for _, e := range r.exports {
		if e == name {
			return true
		}
	}
	return false
}

// cmpListener compares one listener-reported value list with want (both masked to the type width).
func (r *runner) cmpListener(w *world, top, h *unit, dir string, k int, what string, ts []byte, res bool, want, got []uint64) {
	if len(got) != len(ts) {
		r.viol(w, top, dir, k, "listener-"+what+"-count:"+h.st.class(), fmt.Sprintf("listener %s of %s reports %d values, want %d", what, h.st, len(got), len(ts)))
		return
	}
	for j, t := range ts {
		r.res.Crossings++
		e, g := mask(t, want[j]), mask(t, got[j])
		if e == g {
			continue
		}
		r.viol(w, top, dir, k, fmt.Sprintf("listener-%s:%s:%s/%s:%s", what, classify(t, e, g), h.st.class(), h.goTypeName(res, j), slotClass(j, ts)),
			fmt.Sprintf("listener %s of the host function %s: value %d (%s) reported as %#x, actual %#x", what, h.st, j, tname(t), g, e))
	}
}

// checkListener applies the listener oracle after a successful case. hostWant[i] / hostRet[i] are the parameters
// passed to and the results returned by the i-th host invocation (in order of entry).
func (r *runner) checkListener(w *world, u *unit, dir string, k int, entered []*unit, hostWant, hostRet [][]uint64, pv, res []uint64) {
	if w.lisErr != "" {
		r.viol(w, u, dir, k, "listener-protocol", w.lisErr)
	}
	if len(w.lstack) != 0 {
		r.viol(w, u, dir, k, "listener-protocol", fmt.Sprintf("%d Before events without After/Abort", len(w.lstack)))
	}
	var host []*lisRec
	for _, rec := range w.recs {
		if rec.aborted || !rec.done || rec.mismatchedReturn {
			r.viol(w, u, dir, k, "listener-protocol", fmt.Sprintf("function %s.%s: done=%v aborted=%v mismatched=%v in a call that succeeded", rec.mod, rec.name, rec.done, rec.aborted, rec.mismatchedReturn))
		}
		if strings.HasPrefix(rec.mod, "host") {
			host = append(host, rec)
		}
	}
	if len(host) != len(entered) {
		r.viol(w, u, dir, k, "listener-host-events:"+dir, fmt.Sprintf("listener saw %d host function calls, the host functions were entered %d times", len(host), len(entered)))
		return
	}
	r.res.Outcomes["listener: host Before/After pairs checked"] += int64(len(host))
	for i, h := range entered {
		rec := host[i]
		if rec.name != fmt.Sprintf("u%d", h.idx) {
			r.viol(w, u, dir, k, "listener-wrong-definition", fmt.Sprintf("host invocation %d reported as %s.%s, entered u%d", i, rec.mod, rec.name, h.idx))
			continue
		}
		r.cmpListener(w, u, h, dir, k, "before-params", h.sig.P, false, hostWant[i], rec.params)
		r.cmpListener(w, u, h, dir, k, "after-results", h.sig.R, true, hostRet[i], rec.results)
	}
	if w.b.lm == lmAll && (strings.HasPrefix(dir, "echo") || strings.HasPrefix(dir, "callback")) {
		if len(w.recs) == 0 || !hasExport(w.recs[0], fmt.Sprintf("e%d", u.idx)) {
			r.viol(w, u, dir, k, "listener-guest-entry-missing", "the first listener event is not the exported guest wrapper that was called")
			return
		}
		r.res.Outcomes["listener: guest entry Before/After pairs checked"]++
		r.cmpListener(w, u, u, dir, k, "guest-entry-before-params", u.sig.P, false, pv, w.recs[0].params)
		r.cmpListener(w, u, u, dir, k, "guest-entry-after-results", u.sig.R, true, res, w.recs[0].results)
	}
}
