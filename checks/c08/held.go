package main

import (
	"fmt"
	"strings"

	"github.com/tetratelabs/wazero/api"
)

// ---------------------------------------------------------------- held-values dimension
//
// Everywhere else in this check a value is looked at once, right after the call that produced it. But the values
// that crossed the boundary stay in the hands of the caller: the result slice returned by Call, the stack slice
// given to CallWithStack, the parameter slice passed to Call, the stack slice a stack-based host function was
// given (while that host function is still running and makes nested calls), and the results of a nested call that
// the host function keeps. "The guest receives / Go receives exactly the values ..." only means something if those
// values are still there when the holder reads them - after LATER calls on the same api.Function, on another
// api.Function object of the same export, on the api.Function of another export, and while / after nested calls
// made by a host function through fresh and through already used (cached) api.Function objects.
//
// This file enumerates every word of length 2..heldMaxLen over the alphabet of top-level steps below. Every step
// passes its own position-tagged values (6 value sets: one per top-level step and one per nested call, distinct at
// every position) and is decided by the echo oracle; every slice handed out or handed in by a step is kept (the
// slice itself, not a copy) together with a snapshot, and ALL held slices are re-read and compared with their
// snapshots at every later host-function entry ("during"), after every nested call returns inside a host function
// and after every later top-level step ("after"). The violation signature names the artefact, the step that
// produced it and the first later step at which it no longer reads the same.

type heldLetter struct {
	Name    string
	Obj     int  // 0 = A, 1 = B (a second api.Function object of the same export), 2 = O (api.Function of another export with the same signature, another host function)
	Stack   bool // CallWithStack instead of Call
	Cb      int  // 0 none; 1 the host function calls O's export through a FRESH api.Function; 2 through the cached object O itself (which the top level may have used before and may use again)
	CbStack bool
}

var heldLetters = []heldLetter{
	{Name: "A.Call"},
	{Name: "A.CallWithStack", Stack: true},
	{Name: "B.Call", Obj: 1},
	{Name: "B.CallWithStack", Obj: 1, Stack: true},
	{Name: "O.Call", Obj: 2},
	{Name: "O.CallWithStack", Obj: 2, Stack: true},
	{Name: "A.Call{host:fresh.Call}", Cb: 1},
	{Name: "A.Call{host:O.Call}", Cb: 2},
	{Name: "A.CallWithStack{host:O.CallWithStack}", Stack: true, Cb: 2, CbStack: true},
}

var heldMaxLen = 3

func heldLetterNames() []string {
	o := make([]string, len(heldLetters))
	for i := range heldLetters {
		o[i] = heldLetters[i].Name
	}
	return o
}

var heldWordCache [][]int

func heldWords() [][]int {
	if heldWordCache == nil {
		heldWordCache = words(len(heldLetters), 2, heldMaxLen)
	}
	return heldWordCache
}

func heldWordName(w []int) string {
	var o []string
	for _, l := range w {
		o = append(o, heldLetters[l].Name)
	}
	return "held/" + strings.Join(o, ",")
}

// hvalue: value set `set` (0..5) of position pos: the two tagged rotations x three position offsets; distinct at
// every position between any two sets (arity <= 32).
func hvalues(ts []byte, set int, res bool) []uint64 {
	o := make([]uint64, len(ts))
	for i, t := range ts {
		o[i] = value(t, i+32*(set/2), nBoundary+set%2, res)
	}
	return o
}

type heldArt struct {
	what   string
	step   int
	origin *heldLetter
	live   []uint64 // the slice as it was handed out / handed in (NOT a copy)
	snap   []uint64
}

type heldState struct {
	r        *runner
	w        *world
	u, other *unit
	word     []int
	dir      string
	objs     [3]api.Function
	arts     []*heldArt
	cur      *heldLetter
	curIdx   int
	set      int // value set of the top-level step in progress
	inner    bool
	cbRan    bool
	cbDone   bool
	cbErr    string
	cbRes    []uint64
	cbObs    bool
}

func (hs *heldState) obj(i int) (f api.Function, perr string) {
	if hs.objs[i] != nil {
		return hs.objs[i], ""
	}
	ux := hs.u
	if i == 2 {
		ux = hs.other
	}
	f, perr = hs.w.fresh(fmt.Sprintf("e%d", ux.idx))
	if perr == "" {
		hs.objs[i] = f
	}
	return
}

func (hs *heldState) add(what string, live []uint64) {
	if len(live) == 0 {
		return
	}
	hs.arts = append(hs.arts, &heldArt{what: what, step: hs.curIdx, origin: hs.cur, live: live, snap: append([]uint64{}, live...)})
}

// check re-reads every held slice.
func (hs *heldState) check(when string) {
	for _, a := range hs.arts {
		hs.r.res.Crossings += int64(len(a.live))
		for j := range a.live {
			if a.live[j] == a.snap[j] {
				continue
			}
			sig := fmt.Sprintf("held-value-changed:%s@%s:%s:%s:%s", a.what, a.origin.Name, when, hs.cur.Name, hs.u.st.class())
			hs.r.viol(hs.w, hs.u, hs.dir, 0, sig, fmt.Sprintf("the %s of step %d (%s) read %#x when it was handed over and reads %#x %s step %d (%s): slot %d changed from %#x to %#x although the holder never wrote to it",
				a.what, a.step, a.origin.Name, a.snap, a.live, when, hs.curIdx, hs.cur.Name, j, a.snap[j], a.live[j]))
			copy(a.snap, a.live) // report the first change only; later steps are judged against the new contents
			break
		}
	}
}

// heldHost is the host-side behaviour in held batches.
func (w *world) heldHost(u *unit, mod api.Module, obs []uint64) []uint64 {
	hs := w.hs
	w.log = append(w.log, hostCall{u, obs})
	inner := hs.inner
	hs.check("during")
	L := hs.cur
	if L.Cb != 0 && !inner && u == hs.u && !hs.cbRan {
		hs.cbRan = true
		var fn api.Function
		var perr string
		if L.Cb == 1 {
			m := mod
			if m == nil {
				m = w.guest
			}
			if fn = m.ExportedFunction(fmt.Sprintf("e%d", hs.other.idx)); fn == nil {
				perr = "ExportedFunction returned nil on the module handed to the host function"
			}
		} else {
			fn, perr = hs.obj(2)
		}
		if perr != "" {
			hs.cbErr = perr
			return hvalues(u.sig.R, hs.set, true)
		}
		P, R := u.sig.P, u.sig.R
		pv := hvalues(P, hs.set+1, false)
		n := len(P)
		if len(R) > n {
			n = len(R)
		}
		var res []uint64
		var err error
		hs.inner = true
		func() {
			defer func() {
				if p := recover(); p != nil {
					err = fmt.Errorf("panic escaped the nested call: %v", p)
				}
			}()
			if L.CbStack {
				st := make([]uint64, n)
				copy(st, pv)
				if err = fn.CallWithStack(w.ctx, st); err == nil {
					res = st[:len(R)]
					hs.add("nested-CallWithStack-stack(host-kept)", res)
				}
			} else {
				p := make([]uint64, len(P), n+4)
				copy(p, pv)
				hs.add("nested-Call-params(host-kept)", p[:cap(p)])
				if res, err = fn.Call(w.ctx, p...); err == nil {
					hs.add("nested-Call-result(host-kept)", res)
				}
			}
		}()
		hs.inner = false
		if err != nil {
			hs.cbErr = err.Error()
		} else {
			hs.cbDone = true
			hs.cbRes = append([]uint64{}, res...)
		}
		hs.check("during-after-nested-return")
		return hvalues(R, hs.set, true)
	}
	if inner {
		return hvalues(u.sig.R, hs.set+1, true)
	}
	return hvalues(u.sig.R, hs.set, true)
}

const hostStackChanged = "host-stack-params-changed"

// heldLevel selects the definition styles of a held batch exactly like the call-form levels.
func chunkHeld(sigs []*sigT, level int, out []batchSpec) []batchSpec {
	var cur []*sigT
	w := 0
	flush := func() {
		if len(cur) > 0 {
			out = append(out, batchSpec{sigs: cur, rots: []int{kDeep}, held: level})
			cur, w = nil, 0
		}
	}
	nw := len(heldWords())
	for _, s := range sigs {
		ns := 0
		for _, st := range stylesFor(s) {
			if formStyle(st, level) {
				ns++
			}
		}
		sw := ns * nw * (len(s.P) + len(s.R) + 12)
		if len(cur) > 0 && w+sw > 600000 {
			flush()
		}
		cur = append(cur, s)
		w += sw
	}
	flush()
	return out
}

func (r *runner) runHeld(w *world, u *unit) {
	other := u.plain
	if other == u || other == nil {
		if u.idx+1 >= len(w.b.units) || w.b.units[u.idx+1].sig != u.sig {
			fatalf("held: no second host function of signature %s in the batch", u.sig)
		}
		other = w.b.units[u.idx+1]
	}
	for _, word := range heldWords() {
		dir := heldWordName(word)
		if r.only != nil && r.only.Dir != dir {
			continue
		}
		r.runHeldWord(w, u, other, word, dir)
	}
}

func (r *runner) runHeldWord(w *world, u, other *unit, word []int, dir string) {
	P, R := u.sig.P, u.sig.R
	r.res.Cases++
	if len(P)+len(R) > 0 {
		r.res.Nontriv++
	}
	r.depth = 0
	w.reset(0)
	hs := &heldState{r: r, w: w, u: u, other: other, word: word, dir: dir}
	w.hs = hs
	defer func() { w.hs = nil }()
	n := len(P)
	if len(R) > n {
		n = len(R)
	}
	for i, li := range word {
		L := &heldLetters[li]
		hs.cur, hs.curIdx, hs.set = L, i, 2*i
		hs.cbRan, hs.cbDone, hs.cbErr, hs.cbRes, hs.inner = false, false, "", nil, false
		w.log = w.log[:0]
		w.hostErr = ""
		ux := u
		if L.Obj == 2 {
			ux = other
		}
		f, perr := hs.obj(L.Obj)
		if perr != "" {
			r.viol(w, u, dir, 0, "ExportedFunction-panics:held", "ExportedFunction panics: "+errClass(perr))
			return
		}
		pv, rv := hvalues(P, hs.set, false), hvalues(R, hs.set, true)
		var res []uint64
		var err error
		func() {
			defer func() {
				if p := recover(); p != nil {
					err = fmt.Errorf("panic escaped the call: %v", p)
				}
			}()
			if L.Stack {
				st := make([]uint64, n)
				copy(st, pv)
				if err = f.CallWithStack(w.ctx, st); err == nil {
					res = st[:len(R)]
					hs.add("CallWithStack-stack", res)
				}
			} else {
				p := make([]uint64, len(P), n+4)
				copy(p, pv)
				hs.add("Call-params", p[:cap(p)])
				if res, err = f.Call(w.ctx, p...); err == nil {
					hs.add("Call-result", res)
				}
			}
		}()
		r.res.Calls++
		r.res.HostCalls += int64(len(w.log))
		call := map[bool]string{false: "Call", true: "CallWithStack"}[L.Stack]
		where := fmt.Sprintf("held:step%d(%s)", i, L.Name)
		if r.only != nil {
			fmt.Printf("  %s %s %s %s step %d %s\n    params passed   %#x\n    host observed   %v\n    results wanted  %#x\n    results (raw)   %#x err=%v nested: done=%v res=%#x err=%q\n",
				w.eng, u.st, u.sig, dir, i, L.Name, pv, w.logString(), rv, res, err, hs.cbDone, hs.cbRes, hs.cbErr)
		}
		if err != nil {
			r.viol(w, u, dir, 0, "call-error:"+where+":"+u.st.class(), "call failed: "+errClass(err.Error()))
			return
		}
		if w.hostErr != "" {
			if strings.HasPrefix(w.hostErr, hostStackChanged) {
				r.viol(w, u, dir, 0, fmt.Sprintf("held-value-changed:host-stack-params@%s:during-nested-call:%s", L.Name, u.st.class()), w.hostErr)
			} else {
				r.viol(w, u, dir, 0, "host-args:"+u.st.class(), w.hostErr)
			}
		}
		want := []*unit{ux}
		if L.Cb != 0 {
			want = []*unit{u, other}
		}
		if len(w.log) != len(want) {
			r.viol(w, u, dir, 0, "host-invocations:"+where, fmt.Sprintf("host functions entered %d times, want %d (%s)", len(w.log), len(want), hs.cbErr))
			return
		}
		for j := range want {
			if w.log[j].u != want[j] {
				r.viol(w, u, dir, 0, "wrong-host-function:"+where, fmt.Sprintf("invocation %d entered %s (import %d), want %s (import %d)", j, w.log[j].u.st, w.log[j].u.idx, want[j].st, want[j].idx))
				return
			}
		}
		r.cmpParams(w, u, ux, dir, 0, where+":Go->"+call+"->guest->host", pv, w.log[0].obs)
		if L.Cb != 0 {
			if !hs.cbDone {
				r.viol(w, u, dir, 0, "callback-failed:"+where+":"+u.st.class(), "nested call from the host function failed: "+errClass(hs.cbErr))
				return
			}
			ncall := map[bool]string{false: "Call", true: "CallWithStack"}[L.CbStack]
			r.cmpParams(w, u, other, dir, 0, where+":host->"+ncall+"->guest->host", hvalues(P, hs.set+1, false), w.log[1].obs)
			r.cmpResults(w, u, other, dir, 0, where+":host->guest->"+ncall+"-result(in host)", hvalues(R, hs.set+1, true), hs.cbRes)
		}
		r.cmpResults(w, u, ux, dir, 0, where+":host->guest->"+call+"-result", rv, res)
		hs.check("after")
	}
	r.res.Outcomes[fmt.Sprintf("held values: words of length %d run", len(word))]++
}
