package main

import (
	"context"
	"fmt"
	"math"
	"reflect"

	"github.com/tetratelabs/wazero"
	"github.com/tetratelabs/wazero/api"
)

// ---------------------------------------------------------------- definition styles

const (
	kGoFunc    = 0 // WithGoFunction(api.GoFunc)
	kGoModFunc = 1 // WithGoModuleFunction(api.GoModuleFunc)
	kReflect   = 2 // WithFunc(reflect.MakeFunc value)
	kTyped     = 3 // WithFunc(ordinary typed Go closure) — cross-check of the MakeFunc harness
)

type styleT struct {
	Kind  int    `json:"kind"`
	Ctx   int    `json:"ctx"`   // reflect: 0 no leading params, 1 context.Context, 2 context.Context+api.Module
	Flav  int    `json:"flav"`  // reflect: 0 int32/int64, 1 uint32/uint64, 2 alternating by position
	Typed string `json:"typed"` // kTyped: name in typedDefs
}

func (s styleT) String() string {
	switch s.Kind {
	case kGoFunc:
		return "WithGoFunction"
	case kGoModFunc:
		return "WithGoModuleFunction"
	case kTyped:
		return "WithFunc(typed:" + s.Typed + ")"
	}
	return fmt.Sprintf("WithFunc(reflect,%s,%s)", [...]string{"noctx", "ctx", "ctx+mod"}[s.Ctx], [...]string{"signed", "unsigned", "mixed"}[s.Flav])
}

// class is the part of the style that selects the marshalling code inside wazero.
func (s styleT) class() string {
	switch s.Kind {
	case kGoFunc:
		return "gofunc"
	case kGoModFunc:
		return "gomodfunc"
	}
	return "reflect"
}

var baseStyles = func() []styleT {
	o := []styleT{{Kind: kGoFunc}, {Kind: kGoModFunc}}
	for c := 0; c < 3; c++ {
		for f := 0; f < 3; f++ {
			o = append(o, styleT{Kind: kReflect, Ctx: c, Flav: f})
		}
	}
	return o
}()

var (
	ctxType = reflect.TypeOf((*context.Context)(nil)).Elem()
	modType = reflect.TypeOf((*api.Module)(nil)).Elem()
)

// goType is the Go type a reflected host function uses for wasm type t at position pos.
func (s styleT) goType(t byte, pos int) reflect.Type {
	unsigned := s.Flav == 1 || (s.Flav == 2 && pos%2 == 1)
	switch t {
	case tI32:
		if unsigned {
			return reflect.TypeOf(uint32(0))
		}
		return reflect.TypeOf(int32(0))
	case tI64:
		if unsigned {
			return reflect.TypeOf(uint64(0))
		}
		return reflect.TypeOf(int64(0))
	case tF32:
		return reflect.TypeOf(float32(0))
	case tF64:
		return reflect.TypeOf(float64(0))
	case tExt:
		return reflect.TypeOf(uintptr(0))
	}
	panic("goType")
}

// goTypeName names the Go-side representation of position pos for signatures/diagnostics.
func (u *unit) goTypeName(res bool, pos int) string {
	ts := u.sig.P
	if res {
		ts = u.sig.R
	}
	switch u.st.Kind {
	case kGoFunc, kGoModFunc:
		return tname(ts[pos]) // raw uint64 slot
	case kTyped:
		d := typedByName[u.st.Typed]
		ft := reflect.TypeOf(d.mk(nil, nil))
		if res {
			return ft.Out(pos).Kind().String()
		}
		return ft.In(ft.NumIn() - len(ts) + pos).Kind().String()
	}
	return u.st.goType(ts[pos], pos).Kind().String()
}

// ---------------------------------------------------------------- units and the host side

// unit = one host function: a signature defined in one style.
type unit struct {
	idx   int // import index in the guest module == index in batch.units
	sig   *sigT
	st    styleT
	plain *unit // the WithGoFunction unit of the same signature (target of callbacks)
}

type hostCall struct {
	u   *unit
	obs []uint64 // parameters as observed by the host function (i32/f32 on 32 bits)
}

// world is one engine's instantiation of a batch.
type world struct {
	eng   string
	b     *batch
	ctx   context.Context
	rt    wazero.Runtime
	guest api.Module
	fns   map[string]api.Function

	// per top-level call
	k       int
	cbUnit  *unit
	cbDepth int
	cbStack bool
	log     []hostCall
	cbErr   string
	cbInner []uint64 // results the nested guest call handed back to the host function
	cbDone  bool
	hostErr string

	// listener events of the current top-level call
	recs   []*lisRec
	lstack []*lisRec
	lisErr string

	hs *heldState // held-values batches (held.go): the word in progress
}

// host is the behaviour shared by every style: record what was observed, produce the results.
func (w *world) host(u *unit, mod api.Module, obs []uint64) []uint64 {
	if w.hs != nil {
		return w.heldHost(u, mod, obs)
	}
	w.log = append(w.log, hostCall{u, obs})
	if w.cbDepth > 0 && u == w.cbUnit {
		w.cbDepth--
		m := mod
		if m == nil {
			m = w.guest
		}
		fn := m.ExportedFunction(fmt.Sprintf("e%d", u.plain.idx)) // fresh api.Function for the nested call
		if fn == nil {
			w.cbErr = "ExportedFunction returned nil on the module handed to the host function"
			return values(u.sig.R, w.k, true)
		}
		var res []uint64
		var err error
		if w.cbStack {
			n := len(u.sig.P)
			if len(u.sig.R) > n {
				n = len(u.sig.R)
			}
			st := make([]uint64, n)
			copy(st, obs)
			err = fn.CallWithStack(w.ctx, st)
			res = st[:len(u.sig.R)]
		} else {
			res, err = fn.Call(w.ctx, obs...)
		}
		if err != nil {
			w.cbErr = err.Error()
			return values(u.sig.R, w.k, true)
		}
		w.cbDone = true
		w.cbInner = append([]uint64{}, res...)
		out := make([]uint64, len(res))
		for i, t := range u.sig.R {
			out[i] = mask(t, res[i])
		}
		return out
	}
	return values(u.sig.R, w.k, true)
}

// define adds unit u to the host module builder in its style.
func (w *world) define(hb wazero.HostModuleBuilder, u *unit) wazero.HostModuleBuilder {
	name := fmt.Sprintf("u%d", u.idx)
	if u.st.Kind == kTyped {
		return hb.NewFunctionBuilder().WithFunc(typedByName[u.st.Typed].mk(w, u)).Export(name)
	}
	return defineHostFn(hb, name, u.sig, u.st, func(mod api.Module, obs []uint64) []uint64 { return w.host(u, mod, obs) },
		func(e string) { w.hostErr = e })
}

// defineHostFn exports one host function of signature sig in style st (kGoFunc, kGoModFunc or kReflect); core gets
// the observed parameters (32-bit types on their 32 significant bits) and returns the results in canonical encoding.
func defineHostFn(hb wazero.HostModuleBuilder, name string, sig *sigT, st styleT, core func(mod api.Module, obs []uint64) []uint64, onErr func(string)) wazero.HostModuleBuilder {
	stackFn := func(mod api.Module, stack []uint64) {
		obs := make([]uint64, len(sig.P))
		for i, t := range sig.P {
			obs[i] = mask(t, stack[i]) // api.DecodeI32/DecodeF32/... : only the low 32 bits are significant
		}
		res := core(mod, obs)
		// the stack slice is what this host function holds: whatever it did meanwhile (nested calls into the guest),
		// its parameters must still read the same
		for i, t := range sig.P {
			if g := mask(t, stack[i]); g != obs[i] {
				onErr(fmt.Sprintf("%s: parameter %d (%s) of the stack slice given to the host function read %#x on entry and reads %#x after the nested call it made returned", hostStackChanged, i, tname(t), obs[i], g))
				break
			}
		}
		copy(stack, res) // results are already in the canonical encoding (32-bit values zero-extended)
	}
	switch st.Kind {
	case kGoFunc:
		return hb.NewFunctionBuilder().WithGoFunction(api.GoFunc(func(ctx context.Context, stack []uint64) {
			stackFn(nil, stack)
		}), sig.P, sig.R).Export(name)
	case kGoModFunc:
		return hb.NewFunctionBuilder().WithGoModuleFunction(api.GoModuleFunc(func(ctx context.Context, mod api.Module, stack []uint64) {
			if mod == nil {
				onErr("api.Module handed to a GoModuleFunc is nil")
			}
			stackFn(mod, stack)
		}), sig.P, sig.R).Export(name)
	}
	// reflect.MakeFunc
	var in, out []reflect.Type
	switch st.Ctx {
	case 1:
		in = append(in, ctxType)
	case 2:
		in = append(in, ctxType, modType)
	}
	off := len(in)
	for i, t := range sig.P {
		in = append(in, st.goType(t, i))
	}
	for i, t := range sig.R {
		out = append(out, st.goType(t, i))
	}
	ft := reflect.FuncOf(in, out, false)
	fn := reflect.MakeFunc(ft, func(args []reflect.Value) []reflect.Value {
		var mod api.Module
		if st.Ctx == 2 {
			mod, _ = args[1].Interface().(api.Module)
			if mod == nil {
				onErr("api.Module handed to a reflected host function is nil")
			}
		}
		if st.Ctx >= 1 {
			if c, _ := args[0].Interface().(context.Context); c == nil {
				onErr("context.Context handed to a reflected host function is nil")
			}
		}
		obs := make([]uint64, len(sig.P))
		for i := range sig.P {
			obs[i] = bitsOf(args[off+i])
		}
		res := core(mod, obs)
		rv := make([]reflect.Value, len(res))
		for i := range res {
			rv[i] = valueOf(out[i], res[i])
		}
		return rv
	})
	return hb.NewFunctionBuilder().WithFunc(fn.Interface()).Export(name)
}

// bitsOf reads the exact bits of a Go value (never through float64 for float32: that conversion
// would quieten signalling NaNs inside the harness).
func bitsOf(v reflect.Value) uint64 {
	switch v.Kind() {
	case reflect.Int32:
		return uint64(uint32(int32(v.Int())))
	case reflect.Int64:
		return uint64(v.Int())
	case reflect.Uint32, reflect.Uint64, reflect.Uintptr:
		return v.Uint()
	case reflect.Float32:
		return uint64(math.Float32bits(v.Interface().(float32)))
	case reflect.Float64:
		return math.Float64bits(v.Float())
	}
	panic("bitsOf " + v.Kind().String())
}

func valueOf(t reflect.Type, bits uint64) reflect.Value {
	switch t.Kind() {
	case reflect.Int32:
		return reflect.ValueOf(int32(uint32(bits)))
	case reflect.Uint32:
		return reflect.ValueOf(uint32(bits))
	case reflect.Int64:
		return reflect.ValueOf(int64(bits))
	case reflect.Uint64:
		return reflect.ValueOf(bits)
	case reflect.Uintptr:
		return reflect.ValueOf(uintptr(bits))
	case reflect.Float32:
		return reflect.ValueOf(math.Float32frombits(uint32(bits)))
	case reflect.Float64:
		return reflect.ValueOf(math.Float64frombits(bits))
	}
	panic("valueOf " + t.String())
}

// ---------------------------------------------------------------- typed closures

// A fixed family of ordinary Go functions (no reflect.MakeFunc in the harness): the same oracle
// must give the same verdicts for them as for the MakeFunc-generated functions of the same signature.
type typedDef struct {
	name string
	p, r []byte
	mk   func(w *world, u *unit) any
}

func f32b(f float32) uint64 { return uint64(math.Float32bits(f)) }
func f64b(f float64) uint64 { return math.Float64bits(f) }
func bf32(b uint64) float32 { return math.Float32frombits(uint32(b)) }
func bf64(b uint64) float64 { return math.Float64frombits(b) }
func i32b(v int32) uint64   { return uint64(uint32(v)) }

var typedDefs = []typedDef{
	{"func()int32", nil, []byte{tI32}, func(w *world, u *unit) any {
		return func() int32 { return int32(uint32(w.host(u, nil, nil)[0])) }
	}},
	{"func()uint32", nil, []byte{tI32}, func(w *world, u *unit) any {
		return func() uint32 { return uint32(w.host(u, nil, nil)[0]) }
	}},
	{"func(float32)float32", []byte{tF32}, []byte{tF32}, func(w *world, u *unit) any {
		return func(a float32) float32 { return bf32(w.host(u, nil, []uint64{f32b(a)})[0]) }
	}},
	{"func(int32)", []byte{tI32}, nil, func(w *world, u *unit) any {
		return func(a int32) { w.host(u, nil, []uint64{i32b(a)}) }
	}},
	{"func(ctx,mod,int32,uint64,float32,float64,uintptr)(uint32,int64,float32,float64,uintptr)",
		[]byte{tI32, tI64, tF32, tF64, tExt}, []byte{tI32, tI64, tF32, tF64, tExt}, func(w *world, u *unit) any {
			return func(ctx context.Context, mod api.Module, a int32, b uint64, c float32, d float64, e uintptr) (uint32, int64, float32, float64, uintptr) {
				r := w.host(u, mod, []uint64{i32b(a), b, f32b(c), f64b(d), uint64(e)})
				return uint32(r[0]), int64(r[1]), bf32(r[2]), bf64(r[3]), uintptr(r[4])
			}
		}},
	{"func(ctx,10xfloat32,int32,int32)(float32,int32)",
		[]byte{tF32, tF32, tF32, tF32, tF32, tF32, tF32, tF32, tF32, tF32, tI32, tI32}, []byte{tF32, tI32}, func(w *world, u *unit) any {
			return func(ctx context.Context, a0, a1, a2, a3, a4, a5, a6, a7, a8, a9 float32, b0, b1 int32) (float32, int32) {
				r := w.host(u, nil, []uint64{f32b(a0), f32b(a1), f32b(a2), f32b(a3), f32b(a4), f32b(a5), f32b(a6), f32b(a7), f32b(a8), f32b(a9), i32b(b0), i32b(b1)})
				return bf32(r[0]), int32(uint32(r[1]))
			}
		}},
	{"func(9xint64,2xfloat64)(int64,int64,float64)",
		[]byte{tI64, tI64, tI64, tI64, tI64, tI64, tI64, tI64, tI64, tF64, tF64}, []byte{tI64, tI64, tF64}, func(w *world, u *unit) any {
			return func(a0, a1, a2, a3, a4, a5, a6, a7, a8 int64, f0, f1 float64) (int64, int64, float64) {
				r := w.host(u, nil, []uint64{uint64(a0), uint64(a1), uint64(a2), uint64(a3), uint64(a4), uint64(a5), uint64(a6), uint64(a7), uint64(a8), f64b(f0), f64b(f1)})
				return int64(r[0]), int64(r[1]), bf64(r[2])
			}
		}},
}

var typedByName = func() map[string]*typedDef {
	m := map[string]*typedDef{}
	for i := range typedDefs {
		m[typedDefs[i].name] = &typedDefs[i]
	}
	return m
}()

// stylesFor lists every definition style of a signature.
func stylesFor(s *sigT) []styleT {
	o := append([]styleT{}, baseStyles...)
	for _, d := range typedDefs {
		if string(d.p) == string(s.P) && string(d.r) == string(s.R) {
			o = append(o, styleT{Kind: kTyped, Typed: d.name})
		}
	}
	return o
}
