// C08 — values cross the host/guest boundary unchanged.
//
// Exhaustive enumeration on the real code of
//
//	host-function signatures (every parameter list of length <= 3 over {i32,i64,f32,f64,externref} x every
//	    result list of length <= 2, plus register/stack "cliff" families up to arity 20)
//	x definition styles (WithGoFunction, WithGoModuleFunction, WithFunc with reflect.MakeFunc values over
//	    int32/uint32/int64/uint64/float32/float64/uintptr with/without context.Context and api.Module leading
//	    parameters, and a fixed family of ordinary typed closures)
//	x directions (guest constants -> host parameters with the results compared INSIDE the guest; Go -> Call /
//	    CallWithStack -> guest -> host and back (echo); host function calling back into the guest through a fresh
//	    ExportedFunction in both calling forms; Go calling the re-exported host import directly; the constant
//	    form again below d recursive guest frames, d swept across the depths where the native stack must grow)
//	x value rotations (every position sees every boundary value of its type, plus two position-tagged rotations)
//	x both engines,
//
// and a representative slice of that product again in six de-aligned module layouts (layout.go), with function
// listeners (listener.go), with several host modules (multi.go) and in every call form (forms.go: call instruction
// incl. tail calls x shape of the calling guest frame x entry).
//
// Oracle = identity, step by step: what a host function observes equals what was passed to it (i32/f32 on their
// 32 significant bits), the guest's own comparison of host results with the expected constants says "equal",
// and echoed results are bit-identical.
package main

import (
	"encoding/json"
	"fmt"
	"os"
	"runtime"
	"strconv"
	"strings"
	"time"

	"github.com/tetratelabs/wazero/verif/fw"
)

type harnessErr string

func fatalf(f string, a ...any) { panic(harnessErr(fmt.Sprintf(f, a...))) }

// batchSpec = one supervised case: a group of signatures built into one guest module in one layout.
type batchSpec struct {
	sigs  []*sigT
	li    int
	rots  []int
	lm    int
	multi *mspec // several-host-modules scenario group (sigs empty)
	forms int    // call-form batch (forms.go)
	held  int    // held-values batch (held.go)
}

func chunk(sigs []*sigT, li int, rots []int, lm int, out []batchSpec) []batchSpec {
	var cur []*sigT
	w := 0
	for _, s := range sigs {
		sw := len(stylesFor(s)) * (len(rots) + 2) * (len(s.P) + len(s.R) + 3)
		if len(cur) > 0 && w+sw > 24000 {
			out = append(out, batchSpec{sigs: cur, li: li, rots: rots, lm: lm})
			cur, w = nil, 0
		}
		cur = append(cur, s)
		w += sw
	}
	if len(cur) > 0 {
		out = append(out, batchSpec{sigs: cur, li: li, rots: rots, lm: lm})
	}
	return out
}

// layoutSlice selects the signatures that are re-run in every non-plain module layout. Quick: every small
// signature with (<=2 params, <=1 result) or (<=1 param, 2 results), the L->L cliff signatures of arity 9 and 20
// (one register-boundary and one deep-stack representative per family) and the typed ones. Thorough: every
// signature of the quick plan (<=3 x <=2, all cliffs up to arity 20, typed).
func layoutSlice(thorough bool) []*sigT {
	all := enumerateSigs(planOpts{maxP: 3, maxR: 2, maxArity: 20})
	if thorough {
		return all
	}
	var out []*sigT
	for _, s := range all {
		switch {
		case s.Fam == "typed":
		case s.Fam == "small":
			if !((len(s.P) <= 2 && len(s.R) <= 1) || (len(s.P) <= 1 && len(s.R) == 2)) {
				continue
			}
		default:
			if string(s.P) != string(s.R) || (len(s.P) != 9 && len(s.P) != 20) {
				continue
			}
		}
		out = append(out, s)
	}
	return out
}

// listenerSlice selects the signatures re-run with function listeners attached. Quick: every cliff and typed
// signature plus the small signatures of layoutSlice (they include every shape with more results than parameters
// and vice versa). Thorough: every signature of the quick plan.
func listenerSlice(thorough bool) []*sigT {
	all := enumerateSigs(planOpts{maxP: 3, maxR: 2, maxArity: 20})
	if thorough {
		return all
	}
	var out []*sigT
	for _, s := range all {
		if s.Fam == "small" && !((len(s.P) <= 2 && len(s.R) <= 1) || (len(s.P) <= 1 && len(s.R) == 2)) {
			continue
		}
		out = append(out, s)
	}
	return out
}

// formsSlice selects the signatures of the call-form dimension: those of listenerSlice (quick: every cliff and
// typed signature plus the small slice; thorough: every signature of the quick plan).
func formsSlice(thorough bool) []*sigT { return listenerSlice(thorough) }

// heldSlice selects the signatures of the held-values dimension: every cliff and typed signature plus the small
// slice in both tiers (the thorough tier lengthens the words instead).
func heldSlice(thorough bool) []*sigT { return listenerSlice(false) }

func plan(thorough bool) (planOpts, []batchSpec, int, int, int, int, int) {
	o := planOpts{maxP: 3, maxR: 2, maxArity: 20}
	if thorough {
		o = planOpts{maxP: 4, maxR: 3, maxArity: 32}
		deepLevels, deepWindow, deepFallback = 4, 8, 2000
		heldMaxLen = 4
	}
	var batches []batchSpec
	// the module-layout dimension first (cheap), then the full product in the plain layout
	ls := layoutSlice(thorough)
	for li := 1; li < len(layouts); li++ {
		batches = chunk(ls, li, layoutRots, lmNone, batches)
	}
	// several host modules with functions at the same indexes
	for _, ms := range multiSpecs() {
		ms := ms
		batches = append(batches, batchSpec{multi: &ms})
	}
	// the function-listener dimension (plain layout)
	lsl := listenerSlice(thorough)
	for lm := lmAll; lm <= lmHostOnly; lm++ {
		batches = chunk(lsl, 0, layoutRots, lm, batches)
	}
	// the call-form dimension (plain layout, tail-call feature enabled)
	fsl := formsSlice(thorough)
	flevel := 1
	if thorough {
		flevel = 2
	}
	batches = chunkForms(fsl, layoutRots, flevel, batches)
	// the held-values dimension (plain layout): words of calls, everything handed out re-read after later calls
	hsl := heldSlice(thorough)
	batches = chunkHeld(hsl, 1, batches)
	sigs := enumerateSigs(o)
	batches = chunk(sigs, 0, allRots, lmNone, batches)
	return o, batches, len(sigs), len(ls), len(lsl), len(fsl), len(hsl)
}

// childDeadline is the parent's budget deadline (fw.Supervise only polls Stop when it (re)starts a worker, so
// the workers themselves skip the remaining batches once the budget is used up).
var childDeadline = func() time.Time {
	if v, err := strconv.ParseInt(os.Getenv("C08_DEADLINE"), 10, 64); err == nil && v > 0 {
		return time.Unix(0, v)
	}
	return time.Time{}
}()

func runCase(batches []batchSpec, i int) (out string) {
	if !childDeadline.IsZero() && time.Now().After(childDeadline) {
		return "S"
	}
	defer func() {
		if p := recover(); p != nil {
			if h, ok := p.(harnessErr); ok {
				out = "H " + string(h)
				return
			}
			panic(p)
		}
	}()
	r := &runner{res: newResult()}
	if ms := batches[i].multi; ms != nil {
		r.runMulti(*ms, "", "")
		r.res.Sample = map[string]any{"batch": i, "several_host_modules": ms.String(), "scenarios": len(ms.scenarios())}
		j, _ := json.Marshal(r.res)
		return "R " + string(j)
	}
	b := newBatch(batches[i].sigs, batches[i].li, batches[i].rots, batches[i].lm, batches[i].forms, batches[i].held)
	r.runBatch(b)
	u := b.units[len(b.units)/2]
	if b.held != 0 {
		hw := heldWords()
		wd := hw[(i*37)%len(hw)]
		r.res.Sample = map[string]any{"batch": i, "signature": u.sig.String(), "family": u.sig.Fam, "style": u.st.String(), "held_values_word": heldWordName(wd), "words_per_unit": len(hw),
			"step0_params": hexs(hvalues(u.sig.P, 0, false)), "step0_results": hexs(hvalues(u.sig.R, 0, true)), "step1_params": hexs(hvalues(u.sig.P, 2, false)), "step1_results": hexs(hvalues(u.sig.R, 2, true))}
		j, _ := json.Marshal(r.res)
		return "R " + string(j)
	}
	if b.forms != 0 {
		fm := formList[(i*37)%len(formList)]
		r.res.Sample = map[string]any{"batch": i, "signature": u.sig.String(), "family": u.sig.Fam, "style": u.st.String(), "call_form": fm.dir(), "call_forms_per_unit": len(formList),
			"rotation": 3, "go_passes": hexs(fm.goParams(u.sig.P, values(u.sig.P, 3, false))), "host_must_see": hexs(values(u.sig.P, 3, false)), "results": hexs(values(u.sig.R, 3, true))}
		j, _ := json.Marshal(r.res)
		return "R " + string(j)
	}
	r.res.Sample = map[string]any{"batch": i, "signature": u.sig.String(), "family": u.sig.Fam, "style": u.st.String(), "layout": b.layout.Name, "listeners": listenerModes[b.lm],
		"rotation": 3, "params": hexs(values(u.sig.P, 3, false)), "results": hexs(values(u.sig.R, 3, true)), "directions": allDirs}
	j, _ := json.Marshal(r.res)
	return "R " + string(j)
}

func layoutNames() []string {
	o := make([]string, len(layouts))
	for i := range layouts {
		o[i] = layouts[i].Name
	}
	return o
}

func frameNames() []string {
	o := make([]string, len(formFrames))
	for i := range formFrames {
		o[i] = formFrames[i].Name
	}
	return o
}

func hexs(v []uint64) []string {
	o := make([]string, len(v))
	for i, x := range v {
		o[i] = fmt.Sprintf("%#x", x)
	}
	return o
}

func main() {
	if len(os.Args) > 2 && os.Args[1] == "replay" {
		replay(os.Args[2])
		return
	}
	run := fw.Start("C08", "exploration")
	opts, batches, nsigs, nLayoutSigs, nLisSigs, nFormSigs, nHeldSigs := plan(run.Thorough())
	if fw.IsChild() {
		fw.ChildLoop(func(i int) string { return runCase(batches, i) })
		return
	}

	total := newResult()
	outcomes := fw.NewCounter()
	var samples []any
	sampleEvery := len(batches)/10 + 1
	sampleAt := map[int]any{}
	skipped := 0
	famSigs := map[string]int{}
	layoutBatches, listenerBatches, multiBatches, formBatches, heldBatches := 0, 0, 0, 0, 0
	for _, b := range batches {
		if b.multi != nil {
			multiBatches++
			continue
		}
		if b.forms != 0 {
			formBatches++
			continue
		}
		if b.held != 0 {
			heldBatches++
			continue
		}
		if b.li != 0 {
			layoutBatches++
			continue
		}
		if b.lm != lmNone {
			listenerBatches++
			continue
		}
		for _, s := range b.sigs {
			f := s.Fam
			if strings.HasPrefix(f, "cliff:") {
				f = "cliff"
			}
			famSigs[f]++
		}
	}
	done := fw.Supervise(fw.SupOpts{N: len(batches), Workers: runtime.NumCPU(), CaseTimeout: 5 * time.Minute, Mode: "batch",
		Env: []string{"C08_DEADLINE=" + strconv.FormatInt(run.Deadline.UnixNano(), 10)},
		Stop: func() bool {
			if run.Expired() {
				run.Capped("budget")
				return true
			}
			return false
		}},
		func(i int, res string, crash *fw.Crash) {
			if crash != nil {
				desc := []string{}
				for _, s := range batches[i].sigs {
					desc = append(desc, s.String())
				}
				if ms := batches[i].multi; ms != nil {
					desc = []string{ms.String(), ms.String()}
				}
				run.Violation("process-"+crash.Kind, fmt.Sprintf("batch %d (%s ... %s) %s: %s", i, desc[0], desc[len(desc)-1], crash.Kind, fw.FirstLines(crash.Stderr, 4)),
					map[string]any{"batch": i, "layout": layouts[batches[i].li].Name, "listeners": listenerModes[batches[i].lm], "signatures": desc})
				outcomes.Inc("process " + crash.Kind)
				return
			}
			if res == "S" {
				skipped++
				return
			}
			if strings.HasPrefix(res, "H ") {
				fw.Fatalf("batch %d: %s", i, res[2:])
			}
			var r result
			if err := json.Unmarshal([]byte(strings.TrimPrefix(res, "R ")), &r); err != nil {
				fw.Fatalf("batch %d: bad child result: %v", i, err)
			}
			total.Calls += r.Calls
			total.HostCalls += r.HostCalls
			total.Crossings += r.Crossings
			total.Cases += r.Cases
			total.Nontriv += r.Nontriv
			total.Units += r.Units
			total.Funcs += r.Funcs
			for k, v := range r.Outcomes {
				outcomes.AddN(k, v)
			}
			for _, k := range sortedKeys(r.Viols) {
				v := r.Viols[k]
				run.Violation(v.Sig, v.What, v.Replay)
			}
			if i%sampleEvery == 0 {
				sampleAt[i] = r.Sample
			}
		})
	for i := 0; i < len(batches); i++ {
		if s, ok := sampleAt[i]; ok {
			samples = append(samples, s)
		}
	}
	if done < len(batches) || skipped > 0 {
		run.Capped("budget")
	}
	done -= skipped
	om := outcomes.Map()
	om["value crossings identical"] = total.Crossings
	for k, v := range om {
		if strings.HasPrefix(k, "FAIL ") {
			om["value crossings identical"] -= v
		}
	}
	run.Finish(fw.Coverage{
		Evaluations: total.Crossings, DistinctNontriv: total.Nontriv,
		Rule:    "case = (signature, definition style, engine, direction or call form or held-values call word, value rotation), each executed once on the real runtime; non-trivial = the signature has at least one parameter or result (everything except ()->()); evaluations = individual values compared with the identity oracle at a crossing (host observation, in-guest comparison, echoed result, re-read of a held slice)",
		Samples: samples, Exhaustive: true, Outcomes: om,
		Bounds: map[string]any{
			"small_signatures": fmt.Sprintf("all parameter lists of length <= %d x all result lists of length <= %d over {i32,i64,f32,f64,externref}", opts.maxP, opts.maxR),
			"cliff_families":   fmt.Sprintf("all-i32/i64/f32/f64/externref, alternating int/float, int-mix, float-mix for arity 4..%d; 7 ints + k<=10 floats + m<=3 ints; each as params-only, results-only, both, params+2 results, 2 params+results", opts.maxArity),
			"styles":           len(baseStyles), "typed_closures": len(typedDefs),
			"directions": allDirs, "deep_const": map[string]int{"growth_boundaries": deepLevels, "window": deepWindow}, "module_layouts": layoutNames(), "layout_rotations": layoutRots, "layout_signatures": nLayoutSigs, "several_host_modules": "2-3 host modules x 3 functions at the same indexes (aligned / rotated signatures) x style combinations; call words of length 2-3 in one guest function, via one reused api.Function, around a callback; direct and call_indirect", "call_forms": map[string]any{"call_instructions": callKinds, "caller_frames": frameNames(), "entries": formEntries, "go_calling_forms": []string{"Call", "CallWithStack"}, "forms_per_unit": len(formList), "signatures": nFormSigs, "rotations": layoutRots, "core_features": "V2 + experimental tail call"}, "held_values": map[string]any{"steps": heldLetterNames(), "word_length": fmt.Sprintf("2..%d", heldMaxLen), "words_per_unit": len(heldWords()), "signatures": nHeldSigs, "held": []string{"Call result slice", "CallWithStack stack slice", "Call parameter slice incl. spare capacity", "stack slice of a running stack-based host function across its nested call", "result / stack / parameter slices of nested calls kept by the host function"}, "re-read": "at every later host-function entry, after every nested call returns, after every later top-level step"},
			"listener_modes": listenerModes, "listener_signatures": nLisSigs, "rotations": nRot, "boundary_rotations": nBoundary, "engines": engines,
			"alphabet_sizes": map[string]int{"i32": len(alpha[tI32]), "i64": len(alpha[tI64]), "f32": len(alpha[tF32]), "f64": len(alpha[tF64]), "externref": len(alpha[tExt])},
		},
		Extra: map[string]any{"signatures": nsigs, "signatures_by_family": famSigs, "modules": len(batches) * len(engines) * 2, "batches": len(batches), "layout_batches": layoutBatches, "listener_batches": listenerBatches, "multi_host_batches": multiBatches, "call_form_batches": formBatches, "held_value_batches": heldBatches, "batches_done": done,
			"host_functions_defined": total.Units, "guest_functions_compiled": total.Funcs,
			"top_level_calls": total.Calls, "host_function_invocations": total.HostCalls, "cases": total.Cases},
	}, []string{
		"i32/f32 values are compared on their 32 significant bits (api.DecodeI32/DecodeF32 contract); upper slot bits of 32-bit results are reported as an informational outcome only",
		"values handed to Call/CallWithStack and written by stack-based host functions use the canonical encoding (32-bit values zero-extended)",
		"externref values cannot be compared inside a guest: in-guest check is ref.is_null, bit identity is checked on the echo",
		"v128 and funcref cannot be declared through the public host-function builder and are not enumerated",
		"the harness' own reflect.MakeFunc functions read/write float32 without a float64 detour; a fixed family of ordinary typed closures cross-checks them",
	})
}

// replay re-executes one stored case verbosely.
func replay(file string) {
	b, err := os.ReadFile(file)
	if err != nil {
		fw.Fatalf("%v", err)
	}
	var doc struct {
		Signature string          `json:"signature"`
		What      string          `json:"what"`
		Replay    json.RawMessage `json:"replay"`
	}
	if err := json.Unmarshal(b, &doc); err != nil {
		fw.Fatalf("%v", err)
	}
	var rp replayT
	if err := json.Unmarshal(doc.Replay, &rp); err != nil || rp.Engine == "" {
		fw.Fatalf("replay field is not a single case (crash replays list the batch signatures): %s", string(doc.Replay))
	}
	if rp.Multi != nil {
		fmt.Printf("replaying %s: %s\n", doc.Signature, doc.What)
		r := &runner{res: newResult(), only: &rp}
		func() {
			defer func() {
				if p := recover(); p != nil {
					if h, ok := p.(harnessErr); ok {
						fw.Fatalf("%s", string(h))
					}
					panic(p)
				}
			}()
			r.runMulti(rp.Multi.Spec, rp.Engine, rp.Multi.Scen)
		}()
		for _, k := range sortedKeys(r.res.Viols) {
			fmt.Printf("STILL FAILS signature=%s: %s\n", k, r.res.Viols[k].What)
		}
		if len(r.res.Viols) > 0 {
			os.Exit(1)
		}
		fmt.Println("case passes: all values crossed unchanged")
		return
	}
	s := &sigT{Fam: "replay"}
	for _, t := range rp.P {
		s.P = append(s.P, tparse(t))
	}
	for _, t := range rp.R {
		s.R = append(s.R, tparse(t))
	}
	fmt.Printf("replaying %s: %s\n", doc.Signature, doc.What)
	r := &runner{res: newResult(), only: &rp}
	func() {
		defer func() {
			if p := recover(); p != nil {
				if h, ok := p.(harnessErr); ok {
					fw.Fatalf("%s", string(h))
				}
				panic(p)
			}
		}()
		li := 0
		for i := range layouts {
			if layouts[i].Name == rp.Layout {
				li = i
			}
		}
		if rp.Held != 0 {
			heldMaxLen = 4
		}
		r.runBatch(newBatch([]*sigT{s}, li, allRots, rp.Lis, rp.Forms, rp.Held))
	}()
	if r.res.Cases == 0 {
		fw.Fatalf("replay matched no case (style %v not defined for %s)", rp.Style, s)
	}
	for _, k := range sortedKeys(r.res.Viols) {
		fmt.Printf("STILL FAILS signature=%s: %s\n", k, r.res.Viols[k].What)
	}
	if len(r.res.Viols) > 0 {
		os.Exit(1)
	}
	fmt.Println("case passes: all values crossed unchanged")
}
