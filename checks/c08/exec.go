package main

import (
	"context"
	"fmt"
	"reflect"
	"sort"
	"strings"

	"github.com/tetratelabs/wazero"
	"github.com/tetratelabs/wazero/api"
	"github.com/tetratelabs/wazero/experimental"
	"github.com/tetratelabs/wazero/verif/wb"
)

// ---------------------------------------------------------------- batch = one guest module + one host module

type batch struct {
	sigs   []*sigT
	units  []*unit
	bin    []byte
	li     int // index into layouts
	layout *layoutT
	rots   []int // rotations run in this batch
	lm     int   // listener mode
	forms  int   // call-form batch (forms.go): 0 no, 1 representative styles, 2 all styles
	held   int   // held-values batch (held.go): 0 no, 1 representative styles, 2 all styles
}

func newBatch(sigs []*sigT, li int, rots []int, lm int, forms int, held int) *batch {
	if held != 0 {
		rots = []int{kDeep}
	}
	b := &batch{sigs: sigs, li: li, layout: &layouts[li], rots: rots, lm: lm, forms: forms, held: held}
	for _, s := range sigs {
		var plain *unit
		for _, st := range stylesFor(s) {
			if (forms != 0 && !formStyle(st, forms)) || (held != 0 && !formStyle(st, held)) {
				continue
			}
			u := &unit{idx: len(b.units), sig: s, st: st}
			if st.Kind == kGoFunc {
				plain = u
			}
			u.plain = plain
			b.units = append(b.units, u)
		}
	}
	if forms != 0 {
		b.bin = b.formsModule()
	} else {
		b.bin = b.guestModule()
	}
	return b
}

func extCount(ts []byte) (n int) {
	for _, t := range ts {
		if t == tExt {
			n++
		}
	}
	return
}

// constBody emits: push rotation-k constants (externref parameters from locals extBase..), call the import,
// compare every result with its constant, leave (mask i64, externref results...) on the stack.
// Result locals follow the function's parameters.
func constBody(as *wb.Asm, u *unit, k int, extBase uint32) {
	P, R := u.sig.P, u.sig.R
	e := extBase
	for j, t := range P {
		if t == tExt {
			as.LocalGet(e)
			e++
		} else {
			as.Const(t, value(t, j, k, false))
		}
	}
	as.Call(uint32(u.idx))
	base := extBase + uint32(extCount(P))
	for j := len(R) - 1; j >= 0; j-- {
		as.LocalSet(base + uint32(j))
	}
	as.I64Const(0)
	for j, t := range R {
		v := value(t, j, k, true)
		as.LocalGet(base + uint32(j))
		switch t {
		case tI32:
			as.I32Const(int32(uint32(v))).Op(0x47) // i32.ne
		case tI64:
			as.I64Const(int64(v)).Op(0x52) // i64.ne
		case tF32:
			as.Op(0xbc).I32Const(int32(uint32(v))).Op(0x47) // i32.reinterpret_f32
		case tF64:
			as.Op(0xbd).I64Const(int64(v)).Op(0x52) // i64.reinterpret_f64
		case tExt:
			isNull := int32(0)
			if v == 0 {
				isNull = 1
			}
			as.RefIsNull().I32Const(isNull).Op(0x47)
		}
		as.Op(0xad).I64Const(int64(j)).Op(0x86).Op(0x84) // i64.extend_i32_u ; shl ; or
	}
	for j, t := range R {
		if t == tExt {
			as.LocalGet(base + uint32(j))
		}
	}
}

// ---------------------------------------------------------------- results of a batch run

type violT struct {
	Sig    string `json:"sig"`
	What   string `json:"what"`
	Replay any    `json:"replay"`
	N      int64  `json:"n"`
}

type result struct {
	Calls     int64             `json:"calls"`     // top-level Go->guest calls
	HostCalls int64             `json:"hostcalls"` // host function invocations
	Crossings int64             `json:"crossings"` // individual values compared with the oracle
	Cases     int64             `json:"cases"`     // (signature, style, engine, direction, rotation) executed
	Nontriv   int64             `json:"nontriv"`   // ... of which at least one value crosses
	Units     int64             `json:"units"`
	Funcs     int64             `json:"funcs"`
	Outcomes  map[string]int64  `json:"outcomes"`
	Viols     map[string]*violT `json:"viols"`
	Sample    any               `json:"sample,omitempty"`
}

func newResult() *result { return &result{Outcomes: map[string]int64{}, Viols: map[string]*violT{}} }

type replayT struct {
	Engine string       `json:"engine"`
	P      []string     `json:"params"`
	R      []string     `json:"results"`
	Style  styleT       `json:"style"`
	Dir    string       `json:"direction"`
	K      int          `json:"rotation"`
	Depth  int          `json:"depth"`
	Layout string       `json:"layout,omitempty"`
	Lis    int          `json:"listeners,omitempty"`
	Forms  int          `json:"forms,omitempty"`
	Held   int          `json:"held,omitempty"`
	Multi  *multiReplay `json:"multi,omitempty"`
}

type runner struct {
	depth int
	res   *result
	only  *replayT // replay: run just this case, verbosely
}

func (r *runner) viol(w *world, u *unit, dir string, k int, sig, what string) {
	full := sig + ":" + w.eng
	r.res.Outcomes["FAIL "+full]++
	if v := r.res.Viols[full]; v != nil {
		v.N++
		return
	}
	if len(r.res.Viols) >= 24 {
		return
	}
	rp := replayT{Engine: w.eng, Style: u.st, Dir: dir, K: k, Depth: r.depth, Layout: w.b.layout.Name, Lis: w.b.lm, Forms: w.b.forms, Held: w.b.held}
	for _, t := range u.sig.P {
		rp.P = append(rp.P, tname(t))
	}
	for _, t := range u.sig.R {
		rp.R = append(rp.R, tname(t))
	}
	r.res.Viols[full] = &violT{Sig: full, N: 1, Replay: rp,
		What: fmt.Sprintf("%s, %s %s, %s, rotation %d%s%s: %s", w.eng, u.st, u.sig, dir, k, depthStr(dir, r.depth), layoutStr(w.b), what)}
}

func slotClass(i int, ts []byte) string {
	// position class for diagnostics only (which register/stack class the slot falls into on amd64)
	ni, nf := 0, 0
	for j := 0; j <= i; j++ {
		if ts[j] == tF32 || ts[j] == tF64 {
			nf++
		} else {
			ni++
		}
	}
	if ts[i] == tF32 || ts[i] == tF64 {
		if nf > 8 {
			return "float-stack"
		}
		return "float-reg"
	}
	if ni > 7 {
		return "int-stack"
	}
	return "int-reg"
}

// cmpParams compares what host unit h observed with want.
func (r *runner) cmpParams(w *world, top *unit, h *unit, dir string, k int, step string, want, got []uint64) {
	for j, t := range h.sig.P {
		r.res.Crossings++
		e, g := mask(t, want[j]), got[j]
		if e == g {
			continue
		}
		cl := classify(t, e, g)
		sig := fmt.Sprintf("%s:%s/%s:param", cl, h.st.class(), h.goTypeName(false, j))
		if cl == "value-differs" {
			sig += ":" + step + ":" + slotClass(j, h.sig.P)
		}
		r.viol(w, top, dir, k, sig, fmt.Sprintf("%s: parameter %d (%s, Go side %s, %s) observed by the host function %s as %#x, passed %#x",
			step, j, tname(t), h.goTypeName(false, j), slotClass(j, h.sig.P), h.st, g, e))
	}
}

// cmpResults compares results produced by host unit h (want) with what arrived (got, raw slots).
func (r *runner) cmpResults(w *world, top *unit, h *unit, dir string, k int, step string, want, got []uint64) {
	if len(got) != len(want) {
		r.viol(w, top, dir, k, "result-count:"+step, fmt.Sprintf("%d results, want %d", len(got), len(want)))
		return
	}
	for j, t := range h.sig.R {
		r.res.Crossings++
		e, g := mask(t, want[j]), mask(t, got[j])
		if is32(t) && got[j]>>32 != 0 {
			r.res.Outcomes[fmt.Sprintf("info: 32-bit result returned with non-zero upper slot bits (%s, %s)", h.st.class(), w.eng)]++
		}
		if e == g {
			continue
		}
		cl := classify(t, e, g)
		sig := fmt.Sprintf("%s:%s/%s:result", cl, h.st.class(), h.goTypeName(true, j))
		if cl == "value-differs" {
			sig += ":" + step + ":" + slotClass(j, h.sig.R)
		}
		r.viol(w, top, dir, k, sig, fmt.Sprintf("%s: result %d (%s, Go side %s, %s) returned by the host function %s as %#x arrived as %#x",
			step, j, tname(t), h.goTypeName(true, j), slotClass(j, h.sig.R), h.st, e, g))
	}
}

func (w *world) fn(name string) (f api.Function, perr string) {
	if f, ok := w.fns[name]; ok {
		return f, ""
	}
	defer func() {
		if p := recover(); p != nil {
			perr = fmt.Sprint(p)
		}
	}()
	f = w.guest.ExportedFunction(name)
	if f == nil {
		return nil, "ExportedFunction(" + name + ") == nil"
	}
	w.fns[name] = f
	return f, ""
}

func layoutStr(b *batch) string {
	s := ""
	if b.layout.Name != "plain" {
		s = ", module layout " + b.layout.Name
	}
	if b.lm != lmNone {
		s += ", function listeners " + listenerModes[b.lm]
	}
	return s
}

func depthStr(dir string, d int) string {
	if dir == "deep-const" {
		return fmt.Sprintf(", recursion depth %d", d)
	}
	return ""
}

// fresh returns a new api.Function (never cached).
func (w *world) fresh(name string) (f api.Function, perr string) {
	defer func() {
		if p := recover(); p != nil {
			perr = fmt.Sprint(p)
		}
	}()
	f = w.guest.ExportedFunction(name)
	if f == nil {
		return nil, "ExportedFunction(" + name + ") == nil"
	}
	return f, ""
}

func (w *world) reset(k int) {
	w.k = k
	w.cbUnit, w.cbDepth, w.cbStack = nil, 0, false
	w.log = w.log[:0]
	w.cbErr, w.cbInner, w.cbDone, w.hostErr = "", nil, false, ""
	w.recs, w.lstack, w.lisErr = w.recs[:0], w.lstack[:0], ""
}

// invoke calls f with params through Call or CallWithStack and returns the raw result slots.
func (w *world) invoke(f api.Function, nres int, params []uint64, withStack bool) (res []uint64, err error) {
	defer func() {
		if p := recover(); p != nil {
			err = fmt.Errorf("panic escaped the call: %v", p)
		}
	}()
	if withStack {
		n := len(params)
		if nres > n {
			n = nres
		}
		st := make([]uint64, n)
		copy(st, params)
		if err := f.CallWithStack(w.ctx, st); err != nil {
			return nil, err
		}
		return st[:nres], nil
	}
	return f.Call(w.ctx, params...)
}

func errClass(s string) string {
	if i := strings.IndexAny(s, "\n("); i > 0 {
		s = s[:i]
	}
	if len(s) > 60 {
		s = s[:60]
	}
	return strings.TrimSpace(s)
}

var allDirs = []string{"const", "echo-call", "echo-stack", "callback-call", "callback-stack", "reexport-call", "reexport-stack", "deep-const"}

// kDeep is the rotation used by the deep-const direction (the first position-tagged one).
const kDeep = nBoundary

// deep-const sweep parameters (set from the tier).
var (
	deepLevels   = 2
	deepWindow   = 4
	deepFallback = 700
)

// deep: the stack-growth sweep is run for the cliff and typed families in three representative styles.
func (u *unit) deep() bool {
	if u.sig.Fam == "small" {
		return false
	}
	switch u.st.Kind {
	case kGoFunc, kGoModFunc:
		return true
	case kReflect:
		return u.st.Ctx == 2 && u.st.Flav == 2
	}
	return false
}

// runUnit executes every direction and rotation of one unit on one engine.
func (r *runner) runUnit(w *world, u *unit) {
	if w.b.forms != 0 {
		r.runForms(w, u)
		return
	}
	if w.b.held != 0 {
		r.runHeld(w, u)
		return
	}
	for _, k := range w.b.rots {
		if r.only != nil && r.only.K != k {
			continue
		}
		for _, dir := range allDirs {
			if r.only != nil && r.only.Dir != dir {
				continue
			}
			if dir != "deep-const" {
				r.runCase(w, u, k, dir, 0)
				continue
			}
			if k != kDeep || !u.deep() {
				continue
			}
			if r.only != nil {
				r.runCase(w, u, k, dir, r.only.Depth)
				continue
			}
			r.deepSweep(w, u, k)
		}
	}
}

// deepSweep chooses the recursion depths of the deep-const sweep: 0..7, and a window of +-deepWindow depths
// around each of the first deepLevels depths at which the compiler's native stack has to grow (found by
// bisection on the observed stack length, every probe being a checked case itself). At the first depth
// where growth happens, either the deepest guest frame or the host-call trampoline triggered it; the
// window makes the boundary fall inside the trampoline for every signature whose trampoline frame is
// larger than the recursion frame. Without the observable (interpreter) the depths are 0..7 only; if the
// observable is missing on the compiler the whole range 0..deepFallback-1 is swept.
func (r *runner) deepSweep(w *world, u *unit, k int) {
	done := map[int]int{}
	probe := func(d int) int {
		if l, ok := done[d]; ok {
			return l
		}
		l := r.runCase(w, u, k, "deep-const", d)
		done[d] = l
		return l
	}
	for d := 0; d < 8; d++ {
		probe(d)
	}
	if w.eng != "compiler" {
		return
	}
	cur := done[0]
	if cur == 0 {
		r.res.Outcomes["deep-const: stack length not observable, full sweep"]++
		for d := 8; d < deepFallback; d++ {
			probe(d)
		}
		return
	}
	lo := 0
	for lv := 0; lv < deepLevels; lv++ {
		hi := lo + 64
		for probe(hi) <= cur {
			lo = hi
			hi *= 2
			if hi > 1<<15 {
				r.res.Outcomes["deep-const: no growth boundary found"]++
				return
			}
		}
		for hi-lo > 1 {
			mid := (lo + hi) / 2
			if probe(mid) > cur {
				hi = mid
			} else {
				lo = mid
			}
		}
		for d := hi - deepWindow; d <= hi+deepWindow; d++ {
			if d >= 0 {
				probe(d)
			}
		}
		r.res.Outcomes[fmt.Sprintf("deep-const: growth boundary %d located", lv+1)]++
		cur = probe(hi)
		lo = hi
	}
	return
}

// nativeStackLen reads len(callEngine.stack) of a compiler api.Function (0 if not applicable).
func nativeStackLen(f api.Function) int {
	v := reflect.ValueOf(f)
	if v.Kind() != reflect.Ptr || v.Elem().Kind() != reflect.Struct {
		return 0
	}
	fl := v.Elem().FieldByName("stack")
	if !fl.IsValid() || fl.Kind() != reflect.Slice || fl.Type().Elem().Kind() != reflect.Uint8 {
		return 0
	}
	return fl.Len()
}

// runCase executes one (direction, rotation[, depth]) of one unit and applies the oracle.
func (r *runner) runCase(w *world, u *unit, k int, dir string, depth int) (stackLen int) {
	P, R := u.sig.P, u.sig.R
	pv, rv := values(P, k, false), values(R, k, true)
	r.res.Cases++
	if len(P)+len(R) > 0 {
		r.res.Nontriv++
	}
	w.reset(k)
	var res []uint64
	var err error
	var perr string
	var f api.Function
	stack := strings.HasSuffix(dir, "-stack")
	constParams := func(first ...uint64) []uint64 {
		ep := first
		for j, t := range P {
			if t == tExt {
				ep = append(ep, pv[j])
			}
		}
		return ep
	}
	switch {
	case dir == "const":
		// guest -> host parameters from constants; host -> guest results compared in the guest
		if f, perr = w.fn(fmt.Sprintf("c%d_%d", u.idx, k)); perr != "" {
			break
		}
		res, err = w.invoke(f, 1+extCount(R), constParams(), false)
	case dir == "deep-const":
		// the same below `depth` recursive guest frames, on a fresh api.Function (fresh, minimal native stack)
		if f, perr = w.fresh(fmt.Sprintf("g%d", u.idx)); perr != "" {
			break
		}
		before := nativeStackLen(f)
		res, err = w.invoke(f, 1+extCount(R), constParams(uint64(depth)), false)
		stackLen = nativeStackLen(f)
		if after := stackLen; after > before {
			r.res.Outcomes["deep-const: native stack grew during the call ("+w.eng+")"]++
		} else {
			r.res.Outcomes["deep-const: native stack did not grow ("+w.eng+")"]++
		}
	case strings.HasPrefix(dir, "echo"):
		if f, perr = w.fn(fmt.Sprintf("e%d", u.idx)); perr != "" {
			break
		}
		res, err = w.invoke(f, len(R), pv, stack)
	case strings.HasPrefix(dir, "callback"):
		if f, perr = w.fn(fmt.Sprintf("e%d", u.idx)); perr != "" {
			break
		}
		w.cbUnit, w.cbDepth, w.cbStack = u, 1, stack
		res, err = w.invoke(f, len(R), pv, stack)
	case strings.HasPrefix(dir, "reexport"):
		if f, perr = w.fn(fmt.Sprintf("x%d", u.idx)); perr != "" {
			break
		}
		res, err = w.invoke(f, len(R), pv, stack)
	}
	r.res.Calls++
	r.res.HostCalls += int64(len(w.log))
	if r.only != nil {
		fmt.Printf("  %s %s %s %s k=%d depth=%d\n    params passed   %#x\n    host observed   %v\n    results wanted  %#x\n    results (raw)   %#x err=%v %s\n",
			w.eng, u.st, u.sig, dir, k, depth, pv, w.logString(), rv, res, err, perr)
	}
	r.depth = depth
	if perr != "" {
		what := "ExportedFunction panics"
		if strings.HasPrefix(dir, "reexport") {
			r.viol(w, u, dir, k, "reexported-host-import:ExportedFunction-panics", what+": "+errClass(perr))
		} else {
			r.viol(w, u, dir, k, "ExportedFunction-panics:"+dir, what+": "+errClass(perr))
		}
		r.res.Outcomes["ExportedFunction panic ("+w.eng+")"]++
		return
	}
	if err != nil {
		r.viol(w, u, dir, k, "call-error:"+dir+":"+u.st.class(), "call failed: "+errClass(err.Error()))
		return
	}
	if w.hostErr != "" {
		r.viol(w, u, dir, k, "host-args:"+u.st.class(), w.hostErr)
	}
	// which host invocations must have happened
	want := []*unit{u}
	if strings.HasPrefix(dir, "callback") {
		want = []*unit{u, u.plain}
	}
	if len(w.log) != len(want) {
		r.viol(w, u, dir, k, "host-invocations:"+dir, fmt.Sprintf("host functions entered %d times, want %d (%s)", len(w.log), len(want), w.cbErr))
		return
	}
	for i := range want {
		if w.log[i].u != want[i] {
			r.viol(w, u, dir, k, "wrong-host-function:"+dir, fmt.Sprintf("invocation %d entered %s, want %s", i, w.log[i].u.st, want[i].st))
		}
	}
	step := map[string]string{"const": "guest(const)->host", "deep-const": "guest(const,deep)->host", "echo-call": "Go->Call->guest->host", "echo-stack": "Go->CallWithStack->guest->host",
		"callback-call": "Go->Call->guest->host", "callback-stack": "Go->CallWithStack->guest->host",
		"reexport-call": "Go->Call->host(re-export)", "reexport-stack": "Go->CallWithStack->host(re-export)"}[dir]
	r.cmpParams(w, u, u, dir, k, step, pv, w.log[0].obs)
	if w.b.lm != lmNone {
		if !strings.HasPrefix(dir, "callback") {
			r.checkListener(w, u, dir, k, want, [][]uint64{pv}, [][]uint64{rv}, pv, res)
		} else if w.cbDone {
			inner := make([]uint64, len(R))
			for j, t := range R {
				inner[j] = mask(t, w.cbInner[j])
			}
			r.checkListener(w, u, dir, k, want, [][]uint64{pv, w.log[0].obs}, [][]uint64{inner, rv}, pv, res)
		}
	}
	switch {
	case dir == "const" || dir == "deep-const":
		// in-guest comparison verdicts
		msk := res[0]
		for j, t := range R {
			r.res.Crossings++
			if msk>>uint(j)&1 == 0 {
				continue
			}
			r.inGuestMismatch(w, u, dir, k, j, t, rv[j])
		}
		if msk>>uint(len(R)) != 0 {
			r.viol(w, u, dir, k, "in-guest-mask-garbage", fmt.Sprintf("mask %#x has bits beyond %d results", msk, len(R)))
		}
		e := 1
		for j, t := range R {
			if t == tExt {
				r.res.Crossings++
				if res[e] != rv[j] {
					r.viol(w, u, dir, k, fmt.Sprintf("value-differs:%s/%s:result:host->guest->Go:%s", u.st.class(), u.goTypeName(true, j), slotClass(j, R)),
						fmt.Sprintf("externref result %d returned as %#x arrived as %#x", j, rv[j], res[e]))
				}
				e++
			}
		}
		r.res.Outcomes["in-guest comparison of host results: all equal"] += b2i(msk == 0)
	case strings.HasPrefix(dir, "callback"):
		if !w.cbDone {
			r.viol(w, u, dir, k, "callback-failed:"+u.st.class(), "nested call from the host function failed: "+errClass(w.cbErr))
			return
		}
		// nested call: the plain host function must observe exactly what the outer host function passed
		nstep := "host->Call->guest->host"
		if stack {
			nstep = "host->CallWithStack->guest->host"
		}
		r.cmpParams(w, u, u.plain, dir, k, nstep, w.log[0].obs, w.log[1].obs)
		r.cmpResults(w, u, u.plain, dir, k, "host->guest->"+map[bool]string{false: "Call", true: "CallWithStack"}[stack]+"-result(in host)", rv, w.cbInner)
		inner := make([]uint64, len(R))
		for j, t := range R {
			inner[j] = mask(t, w.cbInner[j])
		}
		r.cmpResults(w, u, u, dir, k, "host->guest->Go", inner, res)
	default:
		r.cmpResults(w, u, u, dir, k, "host->guest->Go", rv, res)
	}
	return
}

func b2i(b bool) int64 {
	if b {
		return 1
	}
	return 0
}

// inGuestMismatch: the guest's own comparison `h() != C` said "different" for result j. Fetch the raw
// slot through the echo wrapper to name the transformation.
func (r *runner) inGuestMismatch(w *world, u *unit, dir string, k, j int, t byte, exp uint64) {
	class := "in-guest-compare-differs"
	detail := ""
	if f, perr := w.fn(fmt.Sprintf("e%d", u.idx)); perr == "" {
		w.reset(k)
		raw, err := w.invoke(f, len(u.sig.R), values(u.sig.P, k, false), false)
		if err == nil && len(raw) == len(u.sig.R) {
			g := raw[j]
			detail = fmt.Sprintf("; the same result echoed to Go has raw slot %#x", g)
			switch {
			case t == tI32 && exp&0x80000000 != 0 && g == exp|0xffffffff00000000:
				class = "i32-result-slot-sign-extended"
			case mask(t, g) != exp:
				class = classify(t, exp, mask(t, g))
			case is32(t) && g>>32 != 0:
				class = "i32-result-slot-upper-bits-set"
			default:
				class = "in-guest-compare-differs-echo-identical"
			}
		}
	}
	sig := fmt.Sprintf("%s:%s/%s:result", class, u.st.class(), u.goTypeName(true, j))
	if class == "value-differs" || strings.HasPrefix(class, "in-guest") {
		sig += ":host->guest(in-guest compare):" + slotClass(j, u.sig.R)
	}
	r.viol(w, u, dir, k, sig, fmt.Sprintf("inside the guest, result %d (%s, Go side %s) of the host function compared with the constant %#x it returned: `h() != C` is true%s",
		j, tname(t), u.goTypeName(true, j), exp, detail))
}

func (w *world) logString() string {
	var s []string
	for _, c := range w.log {
		s = append(s, fmt.Sprintf("%s%#x", c.u.st, c.obs))
	}
	return strings.Join(s, " ; ")
}

// ---------------------------------------------------------------- engines

var engines = []string{"compiler", "interpreter"}

func rtConfig(eng string) wazero.RuntimeConfig {
	if eng == "compiler" {
		return wazero.NewRuntimeConfigCompiler()
	}
	return wazero.NewRuntimeConfigInterpreter()
}

// rtConfigTail: the same with the experimental tail-call feature enabled (call-form batches).
func rtConfigTail(eng string) wazero.RuntimeConfig {
	return rtConfig(eng).WithCoreFeatures(api.CoreFeaturesV2 | experimental.CoreFeaturesTailCall)
}

// runBatch instantiates the batch on every engine and runs all of its units.
func (r *runner) runBatch(b *batch) {
	ctx := context.Background()
	rejected := map[string]string{}
	ran := 0
	for _, eng := range engines {
		if r.only != nil && r.only.Engine != eng {
			continue
		}
		ran++
		w := &world{eng: eng, b: b, ctx: ctx, fns: map[string]api.Function{}}
		if b.forms != 0 {
			w.rt = wazero.NewRuntimeWithConfig(ctx, rtConfigTail(eng))
		} else {
			w.rt = wazero.NewRuntimeWithConfig(ctx, rtConfig(eng))
		}
		hbs := map[string]wazero.HostModuleBuilder{}
		var hnames []string
		for _, u := range b.units {
			hm := b.layout.hostModule(u)
			if hbs[hm] == nil {
				hbs[hm] = w.rt.NewHostModuleBuilder(hm)
				hnames = append(hnames, hm)
			}
			hbs[hm] = w.define(hbs[hm], u)
		}
		for _, hm := range hnames {
			hctx := ctx
			if b.lm != lmNone {
				hctx = w.listenerCtx(ctx)
			}
			if _, err := hbs[hm].Instantiate(hctx); err != nil {
				fatalf("host module %s rejected (%s): %v", hm, eng, err)
			}
		}
		if b.layout.needsProvider() {
			if _, err := w.rt.InstantiateWithConfig(ctx, providerModule, wazero.NewModuleConfig().WithName("prov")); err != nil {
				fatalf("provider module rejected (%s): %v", eng, err)
			}
		}
		gctx := ctx
		if b.lm == lmAll {
			gctx = w.listenerCtx(ctx)
		}
		g, err := w.rt.InstantiateWithConfig(gctx, b.bin, wazero.NewModuleConfig().WithName("guest"))
		if err != nil {
			// a by-construction valid module: a harness error if every engine refuses it, a finding about the
			// refusing engine if another one accepts and runs it
			rejected[eng] = err.Error()
			w.rt.Close(ctx)
			continue
		}
		w.guest = g
		for _, u := range b.units {
			if r.only != nil && u.st != r.only.Style {
				continue
			}
			r.runUnit(w, u)
			r.res.Units++
		}
		if b.forms != 0 {
			r.res.Funcs += b.formsFuncCount()
		} else {
			r.res.Funcs += b.guestFuncCount()
		}
		w.rt.Close(ctx)
	}
	if len(rejected) > 0 {
		if len(rejected) == ran {
			for _, e := range sortedKeys(rejected) {
				fatalf("guest module (layout %s) rejected by every engine, e.g. %s: %s", b.layout.Name, e, rejected[e])
			}
		}
		for _, e := range sortedKeys(rejected) {
			w := &world{eng: e, b: b}
			r.viol(w, b.units[0], "instantiate", b.rots[0], "guest-module-rejected-by-one-engine", "a valid guest module that the other engine accepts and runs is refused: "+errClass(rejected[e]))
		}
	}
}

func sortedKeys[V any](m map[string]V) []string {
	o := make([]string, 0, len(m))
	for k := range m {
		o = append(o, k)
	}
	sort.Strings(o)
	return o
}
