package main

import (
	"context"
	"encoding/binary"
	"errors"
	"fmt"
	"math"
	"os"
	"strings"
	"unsafe"

	"github.com/tetratelabs/wazero"
	"github.com/tetratelabs/wazero/api"
	"github.com/tetratelabs/wazero/experimental"
	"github.com/tetratelabs/wazero/internal/wasm"
	"github.com/tetratelabs/wazero/internal/wasmruntime"
	"github.com/tetratelabs/wazero/verif/wb"
)

// ---------------------------------------------------------------- results

type Replay struct {
	Cfg    Config `json:"config"`
	Engine string `json:"engine"`
	Path   []Op   `json:"path"`
	Op     *Op    `json:"op,omitempty"`
}

type Viol struct {
	Sig    string `json:"sig"`
	What   string `json:"what"`
	Replay Replay `json:"replay"`
	Count  int64  `json:"count"`
}

type CaseResult struct {
	States      int64            `json:"states"`
	Transitions int64            `json:"transitions"`
	Evals       int64            `json:"evals"`
	Instances   int64            `json:"instances"`
	ReplaySteps int64            `json:"replay_steps"`
	HugeRealloc int64            `json:"huge_realloc_executed"`
	SkippedHR   int64            `json:"huge_realloc_out_of_tier"`
	MaxDepth    int              `json:"max_depth"`
	Outcomes    map[string]int64 `json:"outcomes"`
	Viols       []*Viol          `json:"viols"`
	Sample      any              `json:"sample,omitempty"`
	violIdx     map[string]*Viol
}

func newResult() *CaseResult {
	return &CaseResult{Outcomes: map[string]int64{}, violIdx: map[string]*Viol{}}
}

func (r *CaseResult) out(k string) { r.Outcomes[k]++ }

// ---------------------------------------------------------------- guest modules

const (
	opI32Load    = 0x28
	opI64Load    = 0x29
	opI32Load8U  = 0x2d
	opI32Load16U = 0x2f
	opI32Store   = 0x36
	opI64Store   = 0x37
	opI32Store8  = 0x3a
	opI32Store16 = 0x3b
	opI64ExtI32U = 0xad
	opI64Shl     = 0x86
	opI64Or      = 0x84
)

// buildGuest emits the module that defines (or imports) the memory and exports one function per
// guest observation. All addresses are parameters (never constants).
func buildGuest(c Config, importMem bool) []byte {
	m := &wb.Module{}
	lim := wb.Limits{Min: c.Min, Max: c.Max, HasMax: c.HasMax, Shared: c.Shared}
	if importMem {
		m.Imports = append(m.Imports, wb.Import{Module: "owner", Name: "memory", Kind: wb.KindMemory, Mem: lim})
	} else {
		m.Mem = &lim
		if !c.Private {
			m.Exports = append(m.Exports, wb.Export{Name: "memory", Kind: wb.KindMemory, Idx: 0})
		}
	}
	i32, i64 := wb.I32, wb.I64
	// callees of the nested grow requests (function imports must precede the definitions)
	hostGrow := m.ImportFunc("env", "grow", []byte{i32}, []byte{i32})
	var ownerGrow uint32
	if importMem {
		ownerGrow = m.ImportFunc("owner", "grow", []byte{i32}, []byte{i32})
	}
	m.ExportFunc("size", m.AddFunc(nil, []byte{i32}, nil, (&wb.Asm{}).MemorySize().B))
	localGrow := m.AddFunc([]byte{i32}, []byte{i32}, nil, (&wb.Asm{}).LocalGet(0).MemoryGrow().B)
	m.ExportFunc("grow", localGrow)
	growType := m.Type([]byte{i32}, []byte{i32})
	table := []uint32{hostGrow, localGrow}
	if importMem {
		table = append(table, ownerGrow)
	}
	m.Tables = []wb.Table{{Elem: wb.FuncRef, Lim: wb.Limits{Min: uint32(len(table))}}}
	m.Elems = []wb.Elem{{Mode: 0, Offset: wb.CI32(0), Funcs: table}}
	// nested: n_<callee>_<variant>(d, a0, a1, v1, v2) =
	//   [l: load8(a0); store8(a0,v1)]  prev = CALLEE(d)  [l: store8(a0,v2)]  [l,0: store8(a1,v1); x = load8(a1)]
	//   result = prev | x<<32 | memory.size<<40
	// variant l needs a non-empty memory before the call, 0 a non-empty memory after it, n neither.
	callees := []struct {
		k    string
		emit func(a *wb.Asm) *wb.Asm
	}{
		{"hc", func(a *wb.Asm) *wb.Asm { return a.Call(hostGrow) }},
		{"hi", func(a *wb.Asm) *wb.Asm { return a.I32Const(0).CallIndirect(growType, 0) }},
		{"lc", func(a *wb.Asm) *wb.Asm { return a.Call(localGrow) }},
		{"li", func(a *wb.Asm) *wb.Asm { return a.I32Const(1).CallIndirect(growType, 0) }},
	}
	if importMem {
		callees = append(callees, struct {
			k    string
			emit func(a *wb.Asm) *wb.Asm
		}{"oc", func(a *wb.Asm) *wb.Asm { return a.Call(ownerGrow) }}, struct {
			k    string
			emit func(a *wb.Asm) *wb.Asm
		}{"oi", func(a *wb.Asm) *wb.Asm { return a.I32Const(2).CallIndirect(growType, 0) }})
	}
	for _, ce := range callees {
		for _, variant := range []string{"l", "0", "n"} {
			a := &wb.Asm{}
			if variant == "l" {
				a.LocalGet(1).Mem(opI32Load8U, 0, 0).Drop().LocalGet(1).LocalGet(3).Mem(opI32Store8, 0, 0)
			}
			ce.emit(a.LocalGet(0)).Op(opI64ExtI32U)
			if variant == "l" {
				a.LocalGet(1).LocalGet(4).Mem(opI32Store8, 0, 0)
			}
			if variant != "n" {
				a.LocalGet(2).LocalGet(3).Mem(opI32Store8, 0, 0).
					LocalGet(2).Mem(opI32Load8U, 0, 0).Op(opI64ExtI32U).I64Const(32).Op(opI64Shl).Op(opI64Or)
			}
			a.MemorySize().Op(opI64ExtI32U).I64Const(40).Op(opI64Shl).Op(opI64Or)
			m.ExportFunc("n_"+ce.k+"_"+variant, m.AddFunc([]byte{i32, i32, i32, i32, i32}, []byte{i64}, nil, a.B))
		}
	}
	ld := func(name string, op byte, align uint32, res byte) {
		m.ExportFunc(name, m.AddFunc([]byte{i32}, []byte{res}, nil, (&wb.Asm{}).LocalGet(0).Mem(op, align, 0).B))
	}
	ld("l8", opI32Load8U, 0, i32)
	ld("l16", opI32Load16U, 0, i32)
	ld("l32", opI32Load, 0, i32)
	ld("l64", opI64Load, 0, i64)
	st := func(name string, op byte, val byte) {
		m.ExportFunc(name, m.AddFunc([]byte{i32, val}, nil, nil, (&wb.Asm{}).LocalGet(0).LocalGet(1).Mem(op, 0, 0).B))
	}
	st("s8", opI32Store8, i32)
	st("s16", opI32Store16, i32)
	st("s32", opI32Store, i32)
	st("s64", opI64Store, i64)
	// fused: result = grow(d) | load8(a1)<<32 | memory.size<<40, with (growl) a load8(a0) BEFORE the grow so
	// that base/length cached inside one compiled function must be refreshed by memory.grow.
	tail := func(a *wb.Asm, d, a1 uint32) []byte {
		return a.LocalGet(d).MemoryGrow().Op(opI64ExtI32U).
			LocalGet(a1).Mem(opI32Load8U, 0, 0).Op(opI64ExtI32U).I64Const(32).Op(opI64Shl).Op(opI64Or).
			MemorySize().Op(opI64ExtI32U).I64Const(40).Op(opI64Shl).Op(opI64Or).B
	}
	m.ExportFunc("growl", m.AddFunc([]byte{i32, i32, i32}, []byte{i64}, nil,
		tail((&wb.Asm{}).LocalGet(1).Mem(opI32Load8U, 0, 0).Drop(), 0, 2)))
	m.ExportFunc("grow0", m.AddFunc([]byte{i32, i32}, []byte{i64}, nil, tail(&wb.Asm{}, 0, 1)))
	if c.Shared {
		// memory.atomic.wait32(addr, expected, timeout) and memory.atomic.notify(addr, count), natural alignment
		m.ExportFunc("wait32", m.AddFunc([]byte{i32, i32, i64}, []byte{i32}, nil,
			(&wb.Asm{}).LocalGet(0).LocalGet(1).LocalGet(2).AtomicMem(0x01, 2, 0).B))
		m.ExportFunc("notify", m.AddFunc([]byte{i32, i32}, []byte{i32}, nil,
			(&wb.Asm{}).LocalGet(0).LocalGet(1).AtomicMem(0x00, 2, 0).B))
	}
	return m.Encode()
}

// ---------------------------------------------------------------- explorer (one configuration, one engine)

type tierRules struct {
	Name       string
	Depth      int  // grow histories up to this length
	KeyLastSrc bool // de-merge states by the source of the last successful grow
}

type explorer struct {
	cfg    Config
	engine string
	tier   tierRules
	res    *CaseResult
	ctx    context.Context
	rt     wazero.Runtime
	ownerC wazero.CompiledModule
	impC   wazero.CompiledModule
	replay bool // verbose single-path mode
	pool   *slabPool
	// cache-sharing pairs
	cache    wazero.CompilationCache
	primeX   *explorer
	cacheDir string
	light    bool // sizes, contents, guest accesses and grow results only (host accessor code is not cached code)
}

type guest struct {
	name string
	mod  api.Module
	fn   map[string]api.Function
}

type inst struct {
	x        *explorer
	owner    *guest
	imp      *guest
	mem      api.Memory
	mi       *wasm.MemoryInstance
	alloc    *vAlloc
	expCalls []reCall // Reallocate calls the reference expects so far
	base     *byte    // shared memory: the address of the buffer at instantiation (must never change)
	m        model
	path     []Op
	cur      *Op
	ctr      uint64
	prev     uint32 // pages before the last successful grow
	lastSrc  string
	grown    bool
	diverged bool // implementation and model disagree about the page count: stop using this instance
	// afterNested: the state comparison that follows a nested request (sizes, allocator view, complete contents,
	// guest boundary accesses; not the host accessor / atomics probes)
	afterNested bool
}

func engineConfig(engine string) wazero.RuntimeConfig {
	if engine == "compiler" {
		return wazero.NewRuntimeConfigCompiler()
	}
	return wazero.NewRuntimeConfigInterpreter()
}

func (x *explorer) viol(sig, what string, path []Op, op *Op) {
	x.res.out("violation")
	if v := x.res.violIdx[sig]; v != nil {
		v.Count++
		return
	}
	v := &Viol{Sig: sig, What: what, Count: 1,
		Replay: Replay{Cfg: x.cfg, Engine: x.engine, Path: append([]Op{}, path...), Op: op}}
	x.res.violIdx[sig] = v
	x.res.Viols = append(x.res.Viols, v)
	if x.replay {
		fmt.Printf("  VIOLATION %s: %s\n", sig, what)
	}
}

// open creates the runtime and compiles the modules; returns false when the configuration is (rightly or
// wrongly) rejected.
func (x *explorer) open() bool {
	c := x.cfg
	x.ctx = context.Background()
	if c.Prime != nil && !x.prime() {
		return false
	}
	rc := engineConfig(x.engine).WithMemoryLimitPages(c.Limit).WithMemoryCapacityFromMax(c.CapMax)
	if x.cache != nil {
		rc = rc.WithCompilationCache(x.cache)
	}
	if c.Shared {
		rc = rc.WithCoreFeatures(api.CoreFeaturesV2 | experimental.CoreFeaturesThreads)
	}
	x.rt = wazero.NewRuntimeWithConfig(x.ctx, rc)
	// the host callee of the nested grow requests: grows the CALLER's memory through the host API
	if _, err := x.rt.NewHostModuleBuilder("env").NewFunctionBuilder().
		WithFunc(func(_ context.Context, mod api.Module, d uint32) uint32 {
			prev, ok := mod.Memory().Grow(d)
			if !ok {
				return 0xffffffff
			}
			return prev
		}).Export("grow").Instantiate(x.ctx); err != nil {
		panic("HARNESS-ERROR: host module: " + err.Error())
	}
	compile := func(bin []byte, who string) (wazero.CompiledModule, bool) {
		cm, err := x.rt.CompileModule(x.ctx, bin)
		x.res.Evals++
		want := c.Accepted()
		switch {
		case err == nil && want:
			x.res.out("compile:accepted")
			return cm, true
		case err != nil && !want:
			x.res.out("compile:rejected(min>limit)")
			return nil, false
		case err != nil && want:
			sig := "compile:unexpected-reject"
			if c.CapMax && c.HasMax && c.Max > c.Limit && strings.Contains(err.Error(), "over limit") {
				// the declaration is accepted (maximum clamped to the limit) without capacity-from-max
				sig = "compile:capacity-from-max:declared-max>limit:rejected"
			}
			x.viol(sig, fmt.Sprintf("%s [%s] %s module: reference accepts the declaration with bound %d pages, CompileModule fails: %v",
				c, x.engine, who, c.Bound(), err), nil, nil)
			return nil, false
		default:
			x.viol("compile:unexpected-accept:min>limit", fmt.Sprintf("%s [%s] %s module: minimum exceeds the limit but CompileModule succeeds", c, x.engine, who), nil, nil)
			return nil, false
		}
	}
	var ok bool
	if x.ownerC, ok = compile(buildGuest(c, false), "defining"); !ok {
		return false
	}
	if c.Imported {
		if x.impC, ok = compile(buildGuest(c, true), "importing"); !ok {
			return false
		}
	}
	return true
}

// prime compiles and instantiates the binaries in another runtime (other limit / capacity-from-max) on the cache
// the explored runtime is going to use, and compares its initial state completely.
func (x *explorer) prime() bool {
	c := x.cfg
	ctx := context.Background()
	newCache := func() wazero.CompilationCache {
		if c.Prime.Cache == "mem" {
			return wazero.NewCompilationCache()
		}
		if x.cacheDir == "" {
			d, err := os.MkdirTemp("", "c14cache")
			if err != nil {
				panic("HARNESS-ERROR: " + err.Error())
			}
			x.cacheDir = d
		}
		cc, err := wazero.NewCompilationCacheWithDir(x.cacheDir)
		if err != nil {
			panic("HARNESS-ERROR: " + err.Error())
		}
		return cc
	}
	p := &explorer{cfg: c.primeConfig(), engine: x.engine, tier: x.tier, res: x.res, replay: x.replay, cache: newCache(), light: true}
	x.primeX = p
	if !p.open() {
		return false
	}
	in := p.newInst()
	if in == nil {
		return false
	}
	in.enter(true)
	in.close()
	x.res.out("cache-pair:primed")
	if c.Prime.Cache == "mem" {
		x.cache = p.cache // same object; the priming runtime stays open during the exploration
	} else {
		p.close() // the directory is all the two runtimes share
		p.cache.Close(ctx)
		p.cache = nil
		x.cache = newCache()
	}
	x.light = true
	return true
}

func (x *explorer) close() {
	if x.rt != nil {
		x.rt.Close(x.ctx)
	}
	if p := x.primeX; p != nil {
		x.primeX = nil
		p.close()
		if p.cache != nil && p.cache != x.cache {
			p.cache.Close(context.Background())
		}
	}
	if x.cache != nil && x.cfg.Prime != nil {
		x.cache.Close(context.Background())
		x.cache = nil
	}
	if x.cacheDir != "" {
		os.RemoveAll(x.cacheDir)
		x.cacheDir = ""
	}
	if x.pool != nil {
		x.res.Outcomes["allocator:recycled-slabs-handed-out"] += x.pool.Recycled
		x.pool.release()
		x.pool = nil
	}
}

func newGuest(name string, mod api.Module) *guest {
	g := &guest{name: name, mod: mod, fn: map[string]api.Function{}}
	for _, f := range []string{"size", "grow", "l8", "l16", "l32", "l64", "s8", "s16", "s32", "s64", "growl", "grow0"} {
		g.fn[f] = mod.ExportedFunction(f)
	}
	for _, f := range []string{"wait32", "notify"} {
		if fn := mod.ExportedFunction(f); fn != nil {
			g.fn[f] = fn
		}
	}
	for k := range nestedCallee {
		for _, variant := range []string{"l", "0", "n"} {
			if fn := mod.ExportedFunction("n_" + k + "_" + variant); fn != nil {
				g.fn["n_"+k+"_"+variant] = fn
			}
		}
	}
	return g
}

// newInst instantiates the module(s) in the initial state.
func (x *explorer) newInst() *inst {
	in := &inst{x: x, m: model{pages: x.cfg.Min, bound: x.cfg.GrowBound(), content: map[uint64]byte{}}}
	ctx := x.ctx
	if kind := x.cfg.Alloc; kind != "go" {
		if kind == "custom" { // replay files written before the allocator family existed
			kind = "exact"
		}
		in.alloc = &vAlloc{kind: kind, fixed: x.cfg.Shared, refuseAbove: uint64(x.cfg.RefusePages()) * pageSize}
		if kind == "recycled" {
			if x.pool == nil {
				x.pool = newSlabPool()
			}
			in.alloc.pool = x.pool
		}
		ctx = experimental.WithMemoryAllocator(ctx, in.alloc)
		in.expCalls = []reCall{{Size: uint64(x.cfg.Min) * pageSize}}
	}
	x.res.Instances++
	om, err := x.rt.InstantiateModule(ctx, x.ownerC, wazero.NewModuleConfig().WithName("owner"))
	if err != nil {
		x.viol("instantiate:failed", fmt.Sprintf("%s [%s]: instantiation of an accepted module failed: %v", x.cfg, x.engine, err), nil, nil)
		return nil
	}
	in.owner = newGuest("owner", om)
	in.mem = om.Memory()
	if x.cfg.Imported {
		im, err := x.rt.InstantiateModule(ctx, x.impC, wazero.NewModuleConfig().WithName("importer"))
		if err != nil {
			x.viol("instantiate:import-failed", fmt.Sprintf("%s [%s]: importing a memory with identical limits failed: %v", x.cfg, x.engine, err), nil, nil)
			om.Close(ctx)
			return nil
		}
		in.imp = newGuest("importer", im)
		in.mem = im.Memory() // host calls go through the importer's view of the same memory
		x.res.Evals++
		if im.Memory() != om.Memory() || om.ExportedMemory("memory") != om.Memory() {
			x.viol("instantiate:imported-memory-is-a-different-object", fmt.Sprintf("%s [%s]", x.cfg, x.engine), nil, nil)
		}
	}
	in.mi = in.mem.(*wasm.MemoryInstance)
	if in.alloc == nil { // Go-heap buffers only: the custom allocators own (and unmap) their mappings
		keepAlive(in.mi.Buffer)
	}
	in.base = unsafe.SliceData(in.mi.Buffer)
	return in
}

func (in *inst) close() {
	if in.imp != nil {
		in.imp.mod.Close(in.x.ctx)
		if in.alloc != nil && len(in.alloc.mems) == 1 {
			in.eval()
			if in.alloc.mems[0].freed != 0 {
				in.viol("allocator:freed-when-importing-module-closes", "closing the IMPORTING module called LinearMemory.Free on the memory owned by the still open defining module")
			}
		}
	}
	in.owner.mod.Close(in.x.ctx)
	if in.alloc != nil {
		in.eval()
		if len(in.alloc.contract) > 0 {
			in.viol("allocator:contract:"+strings.SplitN(in.alloc.contract[0], "(", 2)[0], "wazero broke the MemoryAllocator contract: "+strings.Join(in.alloc.contract, "; "))
		}
		in.checkAllocator()
		in.eval()
		if len(in.alloc.mems) == 1 && in.alloc.mems[0].freed != 1 {
			in.viol("allocator:free-count", fmt.Sprintf("LinearMemory.Free was called %d times when the modules were closed, reference exactly once", in.alloc.mems[0].freed))
		}
		in.alloc.release()
	}
	if in.m.pages >= hugePages || in.x.cfg.Huge() {
		dropPages()
	}
}

// checkAllocator: the custom allocator saw exactly what the reference expects — one Allocate with the limits
// of the configuration, one Reallocate per grow that passes the limit check (with the new size, refused ones
// included), and its own record of the current size equals the reference size.
func (in *inst) checkAllocator() {
	a := in.alloc
	if a == nil {
		return
	}
	c := in.x.cfg
	in.eval()
	wantCap := uint64(c.Min) * pageSize
	if c.CapMax {
		wantCap = uint64(c.Bound()) * pageSize
	}
	if len(a.allocArgs) != 1 || len(a.mems) != 1 {
		in.viol("allocator:allocate-count", fmt.Sprintf("Allocate was called %d times for one memory", len(a.allocArgs)))
		return
	}
	if a.allocArgs[0] != [2]uint64{wantCap, uint64(c.Bound()) * pageSize} {
		in.viol("allocator:allocate-arguments", fmt.Sprintf("Allocate(cap=%d, max=%d), reference (cap=%d, max=%d)", a.allocArgs[0][0], a.allocArgs[0][1], wantCap, uint64(c.Bound())*pageSize))
	}
	m := a.mems[0]
	in.eval()
	if len(m.calls) != len(in.expCalls) {
		got := "none"
		if len(m.calls) > 0 {
			got = fmt.Sprintf("last Reallocate(%d)", m.calls[len(m.calls)-1].Size)
		}
		dir := "missing"
		if len(m.calls) > len(in.expCalls) {
			dir = "extra"
		}
		in.viol("allocator:reallocate-call-"+dir, fmt.Sprintf("the allocator saw %d Reallocate calls (%s), reference %d: every grow that passes the limit check asks the allocator exactly once", len(m.calls), got, len(in.expCalls)))
	} else {
		for i, e := range in.expCalls {
			if m.calls[i] != e {
				in.viol("allocator:reallocate-call-differs", fmt.Sprintf("Reallocate call %d was (size=%d refused=%v), reference (size=%d refused=%v)", i, m.calls[i].Size, m.calls[i].Refused, e.Size, e.Refused))
				break
			}
		}
	}
	in.eval()
	if m.recorded() != in.m.size() {
		in.viol("allocator:recorded-size-differs", fmt.Sprintf("the allocator's record of the current size is %d bytes (last successful Reallocate), reference and Memory size %d", m.recorded(), in.m.size()))
	}
}

func (in *inst) viol(sig, what string) {
	in.x.viol(sig, fmt.Sprintf("%s [%s] after %v, at %d pages: %s", in.x.cfg, in.x.engine, in.histString(), in.m.pages, what), in.path, in.cur)
}

func (in *inst) histString() string {
	var s []string
	for _, o := range in.path {
		s = append(s, o.String())
	}
	if in.cur != nil {
		s = append(s, "then "+in.cur.String())
	}
	if len(s) == 0 {
		return "instantiation"
	}
	return strings.Join(s, ", ")
}

func (in *inst) guests() []*guest {
	if in.imp != nil {
		return []*guest{in.owner, in.imp}
	}
	return []*guest{in.owner}
}

// where classifies the memory placement and size for signatures.
func (in *inst) place(g *guest) string {
	if g == in.imp {
		return "imported"
	}
	return "local"
}

func pagesClass(p uint32) string {
	switch {
	case p == 65536:
		return "65536-pages"
	case p == 65535:
		return "65535-pages"
	default:
		return "small"
	}
}

func (in *inst) next() uint64 {
	in.ctr++
	z := in.ctr*0x9E3779B97F4A7C15 + uint64(len(in.path))<<56
	z = (z ^ (z >> 30)) * 0xBF58476D1CE4E5B9
	z = (z ^ (z >> 27)) * 0x94D049BB133111EB
	return z ^ (z >> 31)
}

func (in *inst) nextByte() byte { return byte(in.next()%255) + 1 }

// ---------------------------------------------------------------- guest calls

type callRes struct {
	v    uint64
	kind string // "ok" | "oob" | "go-panic" | "error"
	err  error
}

func (in *inst) call(g *guest, fn string, args ...uint64) callRes {
	r, err := g.fn[fn].Call(in.x.ctx, args...)
	if err == nil {
		var v uint64
		if len(r) > 0 {
			v = r[0]
		}
		return callRes{v: v, kind: "ok"}
	}
	switch {
	case errors.Is(err, wasmruntime.ErrRuntimeOutOfBoundsMemoryAccess):
		return callRes{kind: "oob", err: err}
	case strings.Contains(err.Error(), "slice bounds out of range") || strings.Contains(err.Error(), "index out of range") || strings.Contains(err.Error(), "runtime error"):
		return callRes{kind: "go-panic", err: err}
	}
	return callRes{kind: "error", err: err}
}

func firstLine(err error) string {
	s := err.Error()
	if i := strings.IndexByte(s, '\n'); i >= 0 {
		s = s[:i]
	}
	return s
}

// ---------------------------------------------------------------- host calls

func guard(f func()) (pan string) {
	defer func() {
		if r := recover(); r != nil {
			pan = fmt.Sprint(r)
		}
	}()
	f()
	return
}

type hostRead struct {
	name string
	w    uint64
	f    func(m api.Memory, off uint32) (uint64, bool)
}

type hostWrite struct {
	name string
	w    uint64
	f    func(m api.Memory, off uint32, v uint64) bool
	mask func(v uint64) uint64
}

var hostReads = []hostRead{
	{"ReadByte", 1, func(m api.Memory, o uint32) (uint64, bool) { v, ok := m.ReadByte(o); return uint64(v), ok }},
	{"ReadUint16Le", 2, func(m api.Memory, o uint32) (uint64, bool) { v, ok := m.ReadUint16Le(o); return uint64(v), ok }},
	{"ReadUint32Le", 4, func(m api.Memory, o uint32) (uint64, bool) { v, ok := m.ReadUint32Le(o); return uint64(v), ok }},
	{"ReadFloat32Le", 4, func(m api.Memory, o uint32) (uint64, bool) {
		v, ok := m.ReadFloat32Le(o)
		return uint64(math.Float32bits(v)), ok
	}},
	{"ReadUint64Le", 8, func(m api.Memory, o uint32) (uint64, bool) { return m.ReadUint64Le(o) }},
	{"ReadFloat64Le", 8, func(m api.Memory, o uint32) (uint64, bool) {
		v, ok := m.ReadFloat64Le(o)
		return math.Float64bits(v), ok
	}},
}

var hostWrites = []hostWrite{
	{"WriteByte", 1, func(m api.Memory, o uint32, v uint64) bool { return m.WriteByte(o, byte(v)) }, func(v uint64) uint64 { return v&0xff | 1 }},
	{"WriteUint16Le", 2, func(m api.Memory, o uint32, v uint64) bool { return m.WriteUint16Le(o, uint16(v)) }, func(v uint64) uint64 { return v&0xffff | 0x0101 }},
	{"WriteUint32Le", 4, func(m api.Memory, o uint32, v uint64) bool { return m.WriteUint32Le(o, uint32(v)) }, func(v uint64) uint64 { return v&0xffffffff | 0x01010101 }},
	{"WriteFloat32Le", 4, func(m api.Memory, o uint32, v uint64) bool {
		return m.WriteFloat32Le(o, math.Float32frombits(uint32(v)))
	},
		func(v uint64) uint64 { return 0x3f800000 | v&0x7fffff | 0x010101 }}, // a normal number in [1,2): no NaN canonicalisation question
	{"WriteUint64Le", 8, func(m api.Memory, o uint32, v uint64) bool { return m.WriteUint64Le(o, v) }, func(v uint64) uint64 { return v | 0x0101010101010101 }},
	{"WriteFloat64Le", 8, func(m api.Memory, o uint32, v uint64) bool { return m.WriteFloat64Le(o, math.Float64frombits(v)) },
		func(v uint64) uint64 { return 0x3ff0000000000000 | v&(1<<52-1) | 0x01010101010101 }},
}

func isNaN32(b uint64) bool { return b&0x7f800000 == 0x7f800000 && b&0x7fffff != 0 }
func isNaN64(b uint64) bool { return b&0x7ff0000000000000 == 0x7ff0000000000000 && b&(1<<52-1) != 0 }

// zeros is a 4 GiB source that is never written: it stays virtual. Used for very long Write/WriteString
// requests, which must be refused (or, on small memories, copy only a few pages).
var zeros []byte

func zeroSrc(n uint64) []byte {
	if zeros == nil {
		zeros = mmapAnon(1<<32, false)
	}
	return zeros[:n]
}

// patterned is the reusable source of short Write/WriteString requests.
var patterned = make([]byte, 16*pageSize)

func probeOffsets(size uint64) []uint64 {
	set := map[uint64]bool{0: true, 1: true, 1 << 31: true, 1<<31 - 1: true}
	for d := int64(-9); d <= 1; d++ {
		if o := int64(size) + d; o >= 0 && o <= math.MaxUint32 {
			set[uint64(o)] = true
		}
	}
	for w := uint64(1); w <= 8; w++ {
		set[1<<32-w] = true
	}
	return sortedU64(set)
}

func endClass(off, n uint64) string {
	switch {
	case off+n == 1<<32:
		return "end==2^32"
	case off+n > 1<<32:
		return "end>2^32"
	}
	return "end<2^32"
}

// ---------------------------------------------------------------- checks

func (in *inst) eval() { in.x.res.Evals++ }

// checkSizes: memory.size, memory.grow(0) in every guest module, Memory.Size(), Memory.Grow(0) and the
// implementation's buffer length all equal the reference page count.
func (in *inst) checkSizes() {
	p := in.m.pages
	for _, g := range in.guests() {
		in.eval()
		if r := in.call(g, "size"); r.kind != "ok" {
			in.viol(fmt.Sprintf("%s:memory.size:%s:%s", in.x.engine, in.place(g), r.kind), "memory.size failed: "+firstLine(r.err))
		} else if uint32(r.v) != p {
			sig := fmt.Sprintf("%s:memory.size:%s:%s:mismatch", in.x.engine, pagesClass(p), in.place(g))
			if r.v == 0 {
				sig = fmt.Sprintf("%s:memory.size:%s:%s:returns-0", in.x.engine, pagesClass(p), in.place(g))
			}
			in.viol(sig, fmt.Sprintf("memory.size in the %s module returns %d, reference %d", g.name, uint32(r.v), p))
		} else {
			in.x.res.out("size:agree")
		}
		in.eval()
		if r := in.call(g, "grow", 0); r.kind != "ok" || uint32(r.v) != p {
			in.viol(fmt.Sprintf("%s:memory.grow(0):%s:%s:mismatch", in.x.engine, pagesClass(p), in.place(g)),
				fmt.Sprintf("memory.grow(0) in the %s module returns %d (%s), reference %d", g.name, int32(r.v), r.kind, p))
		}
	}
	in.eval()
	var sz uint32
	if pan := guard(func() { sz = in.mem.Size() }); pan != "" {
		in.viol("host:Size:go-panic", pan)
	} else if uint64(sz) != in.m.size() {
		sig := "host:Size:mismatch:" + pagesClass(p)
		if p == 65536 && sz == 0 {
			sig = "host:Size:65536-pages:returns-0" // uint32 cannot represent 4 GiB
		}
		in.viol(sig, fmt.Sprintf("Memory.Size() returns %d, reference %d bytes", sz, in.m.size()))
	}
	in.eval()
	var gp uint32
	var gok bool
	if pan := guard(func() { gp, gok = in.mem.Grow(0) }); pan != "" || !gok || gp != p {
		in.viol("host:Grow(0):mismatch:"+pagesClass(p), fmt.Sprintf("Memory.Grow(0) returns (%d,%v) %s, reference (%d,true)", gp, gok, pan, p))
	}
	in.eval()
	if uint64(len(in.mi.Buffer)) != in.m.size() {
		in.viol("impl:buffer-length:mismatch", fmt.Sprintf("len(Buffer)=%d, reference %d bytes", len(in.mi.Buffer), in.m.size()))
	}
	if in.alloc == nil { // Go-heap buffers only: the custom allocators own (and unmap) their mappings
		keepAlive(in.mi.Buffer)
	}
	if in.x.cfg.Shared {
		in.eval()
		if b := unsafe.SliceData(in.mi.Buffer); b != in.base {
			in.viol("shared:buffer-moved", fmt.Sprintf("the buffer of a shared memory moved from %p to %p", in.base, b))
			in.base = b
		}
	}
	in.checkAllocator()
}

// zeroProbes are offsets that must read as zero unless the model says otherwise (huge memories only;
// small ones are scanned completely).
func (in *inst) zeroProbes() []uint64 {
	size := in.m.size()
	set := map[uint64]bool{}
	for _, k := range boundaryPages(in.m.pages, in.prev) {
		for d := int64(-2); d <= 1; d++ {
			if o := int64(uint64(k)*pageSize) + d; o >= 0 && uint64(o) < size {
				set[uint64(o)] = true
			}
		}
	}
	for d := uint64(1); d <= 16 && d <= size; d++ {
		set[size-d] = true
	}
	return sortedU64(set)
}

func (in *inst) contentSig(off uint64, want, got byte) string {
	newArea := in.grown && off >= uint64(in.prev)*pageSize
	switch {
	case want == 0 && newArea:
		return "content:new-page-not-zero"
	case want == 0:
		return "content:unexpected-nonzero-byte"
	case newArea:
		return "content:written-byte-lost-in-new-page"
	}
	return "content:byte-not-preserved"
}

// checkContent compares the memory with the sparse model: completely for small memories, at all
// modelled bytes plus zero probes for huge ones; a subset is also read through every guest module.
func (in *inst) checkContent(throughGuests bool) {
	size := in.m.size()
	if size == 0 {
		return
	}
	var guestOffs []uint64
	if in.m.pages < hugePages {
		var view []byte
		var ok bool
		in.eval()
		if pan := guard(func() { view, ok = in.mem.Read(0, uint32(size)) }); pan != "" || !ok || uint64(len(view)) != size {
			in.viol("host:Read:whole-memory-refused", fmt.Sprintf("Read(0,%d) = len %d ok=%v %s", size, len(view), ok, pan))
			return
		}
		nz := 0
		bad := 0
		check := func(i uint64) {
			got := view[i]
			if got != 0 {
				nz++
			}
			if want := in.m.get(i); want != got && bad < 3 {
				bad++
				in.viol(in.contentSig(i, want, got), fmt.Sprintf("byte at %d (page %d + %d) is %#x, reference %#x", i, i/pageSize, i%pageSize, got, want))
			}
		}
		n := uint64(len(view))
		i := uint64(0)
		for ; i+8 <= n; i += 8 {
			if binary.LittleEndian.Uint64(view[i:]) != 0 {
				for j := i; j < i+8; j++ {
					check(j)
				}
			}
		}
		for ; i < n; i++ {
			check(i)
		}
		in.eval()
		if nz != len(in.m.content) && bad == 0 {
			for _, k := range in.m.sortedKeys() {
				if k < size && view[k] != in.m.get(k) {
					in.viol(in.contentSig(k, in.m.get(k), view[k]), fmt.Sprintf("byte at %d is %#x, reference %#x", k, view[k], in.m.get(k)))
					break
				}
			}
		}
		in.x.res.out("content:full-scan")
	} else {
		offs := map[uint64]bool{}
		for k := range in.m.content {
			offs[k] = true
		}
		for _, z := range in.zeroProbes() {
			offs[z] = true
		}
		bad := 0
		for _, o := range sortedU64(offs) {
			in.eval()
			var got byte
			var ok bool
			pan := guard(func() { got, ok = in.mem.ReadByte(uint32(o)) })
			if pan != "" || !ok {
				continue // reported by the accessor probes
			}
			if want := in.m.get(o); got != want && bad < 3 {
				bad++
				in.viol(in.contentSig(o, want, got), fmt.Sprintf("byte at %d (page %d + %d) is %#x, reference %#x", o, o/pageSize, o%pageSize, got, want))
			}
		}
		in.x.res.out("content:sparse-scan")
	}
	if !throughGuests {
		return
	}
	// through the guest: page-boundary bytes and the last byte
	gs := map[uint64]bool{size - 1: true}
	for _, k := range boundaryPages(in.m.pages, in.prev) {
		if b := uint64(k) * pageSize; b < size {
			gs[b] = true
		}
		if b := uint64(k) * pageSize; b >= 1 && b-1 < size {
			gs[b-1] = true
		}
	}
	guestOffs = sortedU64(gs)
	for _, g := range in.guests() {
		for _, o := range guestOffs {
			in.eval()
			r := in.call(g, "l8", o)
			if r.kind != "ok" {
				in.guestAccessViol(g, "load", 1, o, true, r)
				continue
			}
			if want := in.m.get(o); byte(r.v) != want {
				in.viol(fmt.Sprintf("%s:%s:guest-load:%s", in.x.engine, in.place(g), in.contentSig(o, want, byte(r.v))),
					fmt.Sprintf("i32.load8_u(%d) in the %s module reads %#x, reference %#x", o, g.name, r.v, want))
			}
		}
	}
}

// guestAccessViol reports a guest access whose success differs from the reference.
func (in *inst) guestAccessViol(g *guest, kind string, w, addr uint64, wantOK bool, r callRes) {
	e := in.x.engine
	what := fmt.Sprintf("%d-byte %s at address %d in the %s module (size %d bytes): ", w, kind, addr, g.name, in.m.size())
	switch {
	case r.kind == "go-panic":
		in.viol(fmt.Sprintf("%s:guest-%s:go-panic:%s", e, kind, endClass(addr, w)), what+"Go runtime error instead of a result: "+firstLine(r.err))
	case r.kind == "error":
		in.viol(fmt.Sprintf("%s:guest-%s:unexpected-error", e, kind), what+firstLine(r.err))
	case wantOK && r.kind == "oob":
		in.viol(fmt.Sprintf("%s:guest-access:in-bounds-traps:%s:%s", e, pagesClass(in.m.pages), in.place(g)), what+"in bounds by the reference but traps out-of-bounds")
	case !wantOK && r.kind == "ok":
		in.viol(fmt.Sprintf("%s:guest-access:out-of-bounds-succeeds:%s:%s", e, pagesClass(in.m.pages), in.place(g)), what+"beyond the size but does not trap")
	}
}

// probeGuest: loads and stores of every width around the size boundary and near 2^31 / 2^32 succeed iff
// address+width <= size; out-of-bounds ones trap with the out-of-bounds sentinel.
func (in *inst) probeGuest() {
	size := in.m.size()
	type acc struct {
		ld, st string
		w      uint64
	}
	for _, g := range in.guests() {
		for _, a := range []acc{{"l8", "s8", 1}, {"l16", "s16", 2}, {"l32", "s32", 4}, {"l64", "s64", 8}} {
			set := map[uint64]bool{0: true, 1 << 31: true, 1<<32 - a.w: true, 1<<32 - 1: true}
			for _, o := range []int64{int64(size) - int64(a.w) - 1, int64(size) - int64(a.w), int64(size) - int64(a.w) + 1, int64(size) - 1, int64(size)} {
				if o >= 0 && o <= math.MaxUint32 {
					set[uint64(o)] = true
				}
			}
			for _, addr := range sortedU64(set) {
				want := in.m.inBounds(addr, a.w)
				in.eval()
				r := in.call(g, a.ld, addr)
				if (r.kind == "ok") != want || (r.kind != "ok" && r.kind != "oob") {
					in.guestAccessViol(g, "load", a.w, addr, want, r)
				} else if want {
					in.x.res.out("guest-access:ok")
					mask := uint64(1)<<(8*a.w) - 1
					if a.w == 8 {
						mask = math.MaxUint64
					}
					if exp := in.m.le(addr, a.w); r.v&mask != exp {
						in.viol(fmt.Sprintf("%s:%s:guest-load:value-mismatch", in.x.engine, in.place(g)), fmt.Sprintf("%s(%d) reads %#x, reference %#x", a.ld, addr, r.v&mask, exp))
					}
				} else {
					in.x.res.out("guest-access:oob-trap")
				}
				// store
				v := in.next() | 0x0101010101010101
				if a.w < 8 {
					v &= uint64(1)<<(8*a.w) - 1
				}
				in.eval()
				r = in.call(g, a.st, addr, v)
				if (r.kind == "ok") != want || (r.kind != "ok" && r.kind != "oob") {
					in.guestAccessViol(g, "store", a.w, addr, want, r)
				}
				if r.kind == "ok" && want {
					in.m.putLE(addr, a.w, v)
					in.verifyBytes(addr, a.w, in.x.engine+":"+in.place(g)+":guest-store", func() string { return fmt.Sprintf("%s(%d,%#x) in the %s module", a.st, addr, v, g.name) })
				}
			}
		}
	}
}

// probeAtomics (shared memories): memory.atomic.wait32 with a zero timeout and memory.atomic.notify at aligned
// addresses around the size boundary and near 2^31 / 2^32 succeed iff address+4 <= size: wait32 returns 1
// ("not-equal") when the expected value differs from the reference contents and 2 ("timed-out") when it
// equals them; notify returns 0 woken waiters. Out of bounds they trap with the out-of-bounds sentinel.
func (in *inst) probeAtomics() {
	if !in.x.cfg.Shared {
		return
	}
	size := in.m.size()
	set := map[uint64]bool{0: true, 1 << 31: true, 1<<32 - 4: true}
	for _, o := range []int64{int64(size) - 8, int64(size) - 4, int64(size)} {
		if o >= 0 && o <= math.MaxUint32 {
			set[uint64(o)] = true
		}
	}
	for _, g := range in.guests() {
		for _, addr := range sortedU64(set) {
			want := in.m.inBounds(addr, 4)
			cur := in.m.le(addr, 4)
			for _, t := range []struct {
				fn   string
				args []uint64
				res  uint64
			}{
				{"wait32", []uint64{addr, (cur + 1) & 0xffffffff, 0}, 1},
				{"wait32", []uint64{addr, cur, 0}, 2},
				{"notify", []uint64{addr, 1}, 0},
			} {
				in.eval()
				r := in.call(g, t.fn, t.args...)
				switch {
				case (r.kind == "ok") != want || (r.kind != "ok" && r.kind != "oob"):
					in.guestAccessViol(g, "atomic-"+t.fn, 4, addr, want, r)
				case want && r.v != t.res:
					in.viol(fmt.Sprintf("%s:%s:atomic-%s:wrong-result", in.x.engine, in.place(g), t.fn),
						fmt.Sprintf("memory.atomic.%s%v in the %s module returns %d, reference %d", t.fn, t.args, g.name, r.v, t.res))
				case want:
					in.x.res.out("guest-atomic:ok")
				default:
					in.x.res.out("guest-atomic:oob-trap")
				}
			}
		}
	}
}

// verifyBytes re-reads [off,off+w) through the host API (ReadByte) and compares with the model.
func (in *inst) verifyBytes(off, w uint64, sigPrefix string, whatf func() string) {
	what := ""
	for i := uint64(0); i < w; i++ {
		var got byte
		var ok bool
		in.eval()
		if pan := guard(func() { got, ok = in.mem.ReadByte(uint32(off + i)) }); pan != "" || !ok {
			what = whatf()
			in.viol(sigPrefix+":read-back-refused", fmt.Sprintf("%s: ReadByte(%d) = ok %v %s", what, off+i, ok, pan))
			return
		}
		if want := in.m.get(off + i); got != want {
			what = whatf()
			in.viol(sigPrefix+":read-back-differs", fmt.Sprintf("%s: byte %d is %#x, reference %#x", what, off+i, got, want))
			return
		}
	}
}

// probeHost: every accessor at offsets around the size boundary and near 2^31 / 2^32, lengths
// {0,1,2,4,8,size,2^32-1}: ok iff offset+length <= size (64-bit), values as the model says.
func (in *inst) probeHost() {
	size := in.m.size()
	offs := probeOffsets(size)
	for _, off := range offs {
		for _, a := range hostReads {
			want := in.m.inBounds(off, a.w)
			var got uint64
			var ok bool
			in.eval()
			pan := guard(func() { got, ok = a.f(in.mem, uint32(off)) })
			switch {
			case pan != "":
				in.viol(fmt.Sprintf("host:%s:go-panic:%s", a.name, endClass(off, a.w)), fmt.Sprintf("%s(%d) with size %d: Go panic %q (reference: ok=%v)", a.name, off, size, pan, want))
			case ok != want:
				in.viol(fmt.Sprintf("host:%s:ok-mismatch:want-%v:%s", a.name, want, endClass(off, a.w)), fmt.Sprintf("%s(%d) with size %d returns ok=%v, reference %v", a.name, off, size, ok, want))
			case ok:
				in.x.res.out("host-read:ok")
				exp := in.m.le(off, a.w)
				if got != exp && !(a.name == "ReadFloat32Le" && isNaN32(exp) && isNaN32(got)) && !(a.name == "ReadFloat64Le" && isNaN64(exp) && isNaN64(got)) {
					in.viol("host:"+a.name+":value-mismatch", fmt.Sprintf("%s(%d) = %#x, reference %#x", a.name, off, got, exp))
				}
			default:
				in.x.res.out("host-read:refused")
			}
		}
		for _, n := range in.lengths() {
			want := in.m.inBounds(off, n)
			var view []byte
			var ok bool
			in.eval()
			pan := guard(func() { view, ok = in.mem.Read(uint32(off), uint32(n)) })
			switch {
			case pan != "":
				in.viol("host:Read:go-panic:"+endClass(off, n), fmt.Sprintf("Read(%d,%d) with size %d: Go panic %q (reference: ok=%v)", off, n, size, pan, want))
			case ok != want:
				in.viol(fmt.Sprintf("host:Read:ok-mismatch:want-%v:%s", want, endClass(off, n)), fmt.Sprintf("Read(%d,%d) with size %d returns ok=%v, reference %v", off, n, size, ok, want))
			case ok:
				in.x.res.out("host-read:ok")
				if uint64(len(view)) != n {
					in.viol("host:Read:wrong-length", fmt.Sprintf("Read(%d,%d) returns %d bytes", off, n, len(view)))
				} else {
					for _, i := range sparseIdx(n) {
						if view[i] != in.m.get(off+i) {
							in.viol("host:Read:value-mismatch", fmt.Sprintf("Read(%d,%d)[%d] = %#x, reference %#x", off, n, i, view[i], in.m.get(off+i)))
							break
						}
					}
				}
			default:
				in.x.res.out("host-read:refused")
			}
		}
	}
	// writes
	for _, off := range offs {
		for _, a := range hostWrites {
			want := in.m.inBounds(off, a.w)
			v := a.mask(in.next())
			var ok bool
			in.eval()
			pan := guard(func() { ok = a.f(in.mem, uint32(off), v) })
			switch {
			case pan != "":
				in.viol(fmt.Sprintf("host:%s:go-panic:%s", a.name, endClass(off, a.w)), fmt.Sprintf("%s(%d) with size %d: Go panic %q (reference: ok=%v)", a.name, off, size, pan, want))
			case ok != want:
				in.viol(fmt.Sprintf("host:%s:ok-mismatch:want-%v:%s", a.name, want, endClass(off, a.w)), fmt.Sprintf("%s(%d) with size %d returns ok=%v, reference %v", a.name, off, size, ok, want))
			case ok:
				in.x.res.out("host-write:ok")
				in.m.putLE(off, a.w, v)
				in.verifyBytes(off, a.w, "host:"+a.name, func() string { return fmt.Sprintf("%s(%d,%#x)", a.name, off, v) })
			default:
				in.x.res.out("host-write:refused")
			}
		}
		for wi, wname := range []string{"Write", "WriteString"} {
			for _, n := range in.lengths() {
				want := in.m.inBounds(off, n)
				if want && n > 16*pageSize {
					continue // a successful multi-GiB copy would touch every page; the decision is covered by Read
				}
				var src []byte
				var first, last byte
				if n <= 16*pageSize {
					src = patterned[:n]
					if n > 0 {
						first, last = in.nextByte(), in.nextByte()
						src[0], src[n-1] = first, last
						if n == 1 {
							first = last
						}
					}
				} else {
					src = zeroSrc(n)
				}
				var ok bool
				in.eval()
				pan := guard(func() {
					if wi == 0 {
						ok = in.mem.Write(uint32(off), src)
					} else {
						var s string
						if n > 0 {
							s = unsafe.String(&src[0], int(n))
						}
						ok = in.mem.WriteString(uint32(off), s)
					}
				})
				if n > 0 && n <= 16*pageSize {
					src[0], src[n-1] = 0, 0
				}
				switch {
				case pan != "":
					in.viol(fmt.Sprintf("host:%s:go-panic:%s", wname, endClass(off, n)), fmt.Sprintf("%s(%d, %d bytes) with size %d: Go panic %q (reference: ok=%v)", wname, off, n, size, pan, want))
				case ok != want:
					in.viol(fmt.Sprintf("host:%s:ok-mismatch:want-%v:%s", wname, want, endClass(off, n)), fmt.Sprintf("%s(%d, %d bytes) with size %d returns ok=%v, reference %v", wname, off, n, size, ok, want))
					if ok { // the copy happened: follow it so that later comparisons stay meaningful
						in.resyncAfterRogueWrite(off, n)
					}
				case ok:
					in.x.res.out("host-write:ok")
					in.m.zeroRange(off, n)
					if n > 0 {
						in.m.set(off, first)
						in.m.set(off+n-1, last)
						wf := func() string { return fmt.Sprintf("%s(%d, %d bytes)", wname, off, n) }
						in.verifyBytes(off, 1, "host:"+wname, wf)
						in.verifyBytes(off+n-1, 1, "host:"+wname, wf)
					}
				default:
					in.x.res.out("host-write:refused")
				}
			}
		}
	}
}

// resyncAfterRogueWrite re-reads the model bytes from the implementation after a write that should have
// been refused went through (already reported).
func (in *inst) resyncAfterRogueWrite(off, n uint64) {
	buf := in.mi.Buffer
	if in.m.pages >= hugePages {
		return
	}
	in.m.content = map[uint64]byte{}
	for i, b := range buf {
		if b != 0 {
			in.m.content[uint64(i)] = b
		}
	}
}

func (in *inst) lengths() []uint64 {
	set := map[uint64]bool{0: true, 1: true, 2: true, 4: true, 8: true, 1<<32 - 1: true}
	if s := in.m.size(); s <= math.MaxUint32 {
		set[s] = true
	}
	return sortedU64(set)
}

func sparseIdx(n uint64) []uint64 {
	set := map[uint64]bool{}
	for i := uint64(0); i < n && i < 16; i++ {
		set[i] = true
		set[n-1-i] = true
	}
	for s := uint64(16); s < n; s <<= 1 {
		set[s] = true
	}
	return sortedU64(set)
}

// writeMarkers puts fresh non-zero bytes on both sides of every (selected) page boundary, alternating
// between the host API and guest stores, so that the next grow has contents to preserve.
func (in *inst) writeMarkers() {
	size := in.m.size()
	gs := in.guests()
	n := 0
	for _, k := range boundaryPages(in.m.pages, in.prev) {
		for _, o := range []int64{int64(uint64(k)*pageSize) - 1, int64(uint64(k) * pageSize)} {
			if o < 0 || uint64(o) >= size {
				continue
			}
			v := in.nextByte()
			n++
			in.eval()
			if n%2 == 0 {
				var ok bool
				if pan := guard(func() { ok = in.mem.WriteByte(uint32(o), v) }); pan != "" || !ok {
					in.viol("host:WriteByte:marker-refused", fmt.Sprintf("WriteByte(%d) in bounds refused: ok=%v %s", o, ok, pan))
					continue
				}
			} else {
				g := gs[(n/2)%len(gs)]
				if r := in.call(g, "s8", uint64(o), uint64(v)); r.kind != "ok" {
					in.guestAccessViol(g, "store", 1, uint64(o), true, r)
					// fall back to the host so that the history keeps its contents
					if !in.mem.WriteByte(uint32(o), v) {
						continue
					}
				}
			}
			in.m.set(uint64(o), v)
		}
	}
}

// enter is run in every state. full: all comparisons; otherwise (replaying a prefix) sizes and markers only.
func (in *inst) enter(full bool) {
	in.checkSizes()
	if full {
		in.checkContent(true) // what the transition left: preservation and zero fill, also as the guests see it
		if in.x.light || in.afterNested {
			// after a nested request: the host accessors carry no engine-side state and are probed after every plain
			// request that reaches the same (pages, capacity)
			in.probeGuest()
			in.writeMarkers()
			return
		}
		in.probeHost()
		in.probeGuest()
		in.probeAtomics()
		in.checkContent(false) // refused accesses changed nothing, accepted ones exactly what the model says
	}
	in.writeMarkers()
}

// ---------------------------------------------------------------- transitions

// apply issues one grow request and compares result and successor state. Returns whether the state changed.
func (in *inst) apply(op Op, full bool) bool {
	in.cur = &op
	defer func() { in.cur = nil }()
	before := in.m.pages
	wantPrev, wantOK := in.m.grow(op.Delta) // the model moves first
	after := in.m.pages
	var gotPrev uint32
	var gotOK bool
	if in.alloc != nil && op.Delta != 0 && uint64(before)+uint64(op.Delta) <= uint64(in.x.cfg.Bound()) {
		// passes the limit check: the allocator is asked, and may refuse
		np := uint64(before) + uint64(op.Delta)
		in.expCalls = append(in.expCalls, reCall{Size: np * pageSize, Refused: in.x.cfg.RefusePages() != 0 && np > uint64(in.x.cfg.RefusePages())})
	}
	in.eval()
	if full {
		in.x.res.Transitions++
	} else {
		in.x.res.ReplaySteps++
	}
	switch op.Src {
	case "host":
		if pan := guard(func() { gotPrev, gotOK = in.mem.Grow(op.Delta) }); pan != "" {
			in.m.pages = before
			in.viol("host:Grow:go-panic", fmt.Sprintf("Memory.Grow(%d): %s", op.Delta, pan))
			in.diverged = true
			return false
		}
	default:
		if isNested(op.Src) {
			var stop bool
			if gotPrev, gotOK, stop = in.applyNested(op, before, after, wantPrev, wantOK); stop {
				return false
			}
			break
		}
		g := in.owner
		if strings.HasPrefix(op.Src, "iguest") {
			g = in.imp
		}
		fused := strings.HasSuffix(op.Src, "f") && after > 0
		var r callRes
		if !fused {
			r = in.call(g, "grow", uint64(op.Delta))
		} else {
			a1 := uint64(after)*pageSize - 1
			if before > 0 {
				r = in.call(g, "growl", uint64(op.Delta), 0, a1)
			} else {
				r = in.call(g, "grow0", uint64(op.Delta), a1)
			}
		}
		if r.kind != "ok" {
			if fused && r.kind == "oob" && in.mi.Pages() == after {
				// the grow itself did what the reference says; a load around it trapped
				in.viol(fmt.Sprintf("%s:guest-access:in-bounds-traps:%s:%s", in.x.engine, pagesClass(after), in.place(g)),
					fmt.Sprintf("grow(%d) with an in-bounds load before/after it in the same function (last byte %d): the load traps out-of-bounds", op.Delta, uint64(after)*pageSize-1))
				gotPrev, gotOK = wantPrev, wantOK // result unobservable; the successor state is verified below
			} else {
				in.m.pages = before
				in.viol(fmt.Sprintf("%s:memory.grow:%s", in.x.engine, r.kind), fmt.Sprintf("memory.grow(%d) in the %s module fails: %s", op.Delta, g.name, firstLine(r.err)))
				in.diverged = true
				return false
			}
		} else {
			gotOK = uint32(r.v) != 0xffffffff
			gotPrev = uint32(r.v)
			if fused {
				in.eval()
				if ld := byte(r.v >> 32); ld != in.m.get(uint64(after)*pageSize-1) {
					in.viol(fmt.Sprintf("%s:%s:fused-grow:load-after-grow-differs", in.x.engine, in.place(g)),
						fmt.Sprintf("load8(%d) after grow(%d) in the same function reads %#x, reference %#x", uint64(after)*pageSize-1, op.Delta, ld, in.m.get(uint64(after)*pageSize-1)))
				}
				in.eval()
				if sz := uint32(r.v >> 40); sz != after {
					sig := fmt.Sprintf("%s:%s:fused-grow:memory.size-after-grow-differs", in.x.engine, in.place(g))
					if sz == 0 && after == 65536 {
						sig = fmt.Sprintf("%s:memory.size:%s:%s:returns-0", in.x.engine, pagesClass(after), in.place(g))
					}
					in.viol(sig, fmt.Sprintf("memory.size after grow(%d) in the same function is %d, reference %d", op.Delta, sz, after))
				}
			}
		}
	}
	cls := "grow:refused"
	if wantOK {
		cls = "grow:ok"
		if op.Delta == 0 {
			cls = "grow:ok(delta=0)"
		}
	}
	in.x.res.out(cls)
	if gotOK != wantOK {
		in.m.pages = before
		dir := "should-succeed"
		if !wantOK {
			dir = "should-fail"
		}
		in.viol(fmt.Sprintf("grow:%s:%s", srcClass(op.Src), dir), fmt.Sprintf("%s with bound %d pages: returns ok=%v, reference ok=%v", op, in.m.bound, gotOK, wantOK))
		in.diverged = true
		return false
	}
	if wantOK && gotPrev != wantPrev {
		in.viol(fmt.Sprintf("grow:%s:wrong-previous-size", srcClass(op.Src)), fmt.Sprintf("%s returns previous size %d, reference %d", op, gotPrev, wantPrev))
	}
	if in.mi.Pages() != after {
		in.viol(fmt.Sprintf("grow:%s:page-count-after-differs", srcClass(op.Src)), fmt.Sprintf("%s: implementation has %d pages afterwards, reference %d", op, in.mi.Pages(), after))
		in.diverged = true
		return false
	}
	changed := after != before
	if changed {
		in.prev = before
		in.grown = true
		in.lastSrc = growerClass(op.Src)
	}
	in.path = append(in.path, op)
	in.cur = nil
	dbgPoint("after " + in.histString())
	in.afterNested = isNested(op.Src)
	in.enter(full)
	in.afterNested = false
	dbgPoint("after enter " + in.histString())
	if !changed {
		in.path = in.path[:len(in.path)-1] // a refused / zero grow is not part of the history of the state
	}
	return changed
}

func srcClass(s string) string {
	if s == "host" {
		return "host"
	}
	if isNested(s) {
		return "nested:" + nestedCallee[nestedKind(s)]
	}
	return "guest"
}

// growerClass (state key of the thorough tier): who executed the last successful grow, the host API or guest code.
func growerClass(s string) string {
	if s == "host" || (isNested(s) && nestedKind(s)[0] == 'h') {
		return "host"
	}
	return "guest"
}

// visibility of the memory for the module that issues a nested request (part of the nested signatures).
func (in *inst) visibility(g *guest) string {
	switch {
	case g == in.imp:
		return "imported"
	case in.x.cfg.Private:
		return "local-not-exported"
	}
	return "local-exported"
}

// applyNested issues one nested grow request: a guest function that loads and stores, CALLS something that grows
// the memory (by op.Delta), and stores, loads and reads memory.size again in the same activation. Compared: the
// call completes; the callee's result (previous size); the load after the call; memory.size after the call; and,
// through the state comparison that follows, that both stores after the call landed in the memory everybody else
// sees. stop: the instance diverged.
func (in *inst) applyNested(op Op, before, after, wantPrev uint32, wantOK bool) (gotPrev uint32, gotOK bool, stop bool) {
	g := in.owner
	if strings.HasPrefix(op.Src, "inest:") {
		g = in.imp
	}
	k := nestedKind(op.Src)
	callee := nestedCallee[k]
	e, vis := in.x.engine, in.visibility(g)
	variant := "n"
	if before > 0 {
		variant = "l"
	} else if after > 0 {
		variant = "0"
	}
	a0, a1 := uint64(0), uint64(0)
	if after > 0 {
		a1 = uint64(after)*pageSize - 1
	}
	v1, v2 := uint64(in.nextByte()), uint64(in.nextByte())
	r := in.call(g, "n_"+k+"_"+variant, uint64(op.Delta), a0, a1, v1, v2)
	if r.kind != "ok" {
		if r.kind == "oob" && in.mi.Pages() == after {
			// the callee did what the reference says; an access of the caller around the call trapped
			sig := fmt.Sprintf("%s:nested-grow:%s:%s:in-bounds-access-around-the-call-traps", e, callee, vis)
			if pagesClass(after) == "65536-pages" {
				sig = fmt.Sprintf("%s:guest-access:in-bounds-traps:%s:%s", e, pagesClass(after), in.place(g))
			}
			in.viol(sig, fmt.Sprintf("{load8(0); store8(0); %s grow(%d); store8(0); store8(%d); load8(%d); memory.size} in one function of the %s module: an in-bounds access traps out-of-bounds (memory has %d pages)",
				callee, op.Delta, a1, a1, g.name, after))
			// keep the model in step with what was executed before the trap
			for _, a := range []uint64{a0, a1} {
				if a < uint64(len(in.mi.Buffer)) {
					in.m.set(a, in.mi.Buffer[a])
				}
			}
			return wantPrev, wantOK, false // result unobservable; the successor state is verified by the caller
		}
		in.m.pages = before
		in.viol(fmt.Sprintf("%s:nested-grow:%s:%s:%s", e, callee, vis, r.kind), fmt.Sprintf("function of the %s module that does %s grow(%d) between memory accesses fails: %s", g.name, callee, op.Delta, firstLine(r.err)))
		in.diverged = true
		return 0, false, true
	}
	gotOK = uint32(r.v) != 0xffffffff
	gotPrev = uint32(r.v)
	if variant == "l" {
		in.m.set(a0, byte(v2))
	}
	if variant != "n" {
		in.m.set(a1, byte(v1))
		in.eval()
		if ld := byte(r.v >> 32); ld != byte(v1) {
			in.viol(fmt.Sprintf("%s:nested-grow:%s:%s:load-after-the-call-differs", e, callee, vis),
				fmt.Sprintf("store8(%d,%#x); load8(%d) after %s grow(%d) in the same function reads %#x", a1, v1, a1, callee, op.Delta, ld))
		}
	}
	in.eval()
	if sz := uint32(r.v >> 40); sz != after && gotOK == wantOK {
		sig := fmt.Sprintf("%s:nested-grow:%s:%s:memory.size-after-the-call-differs", e, callee, vis)
		if sz == 0 && after == 65536 {
			sig = fmt.Sprintf("%s:memory.size:%s:%s:returns-0", e, pagesClass(after), in.place(g))
		}
		in.viol(sig, fmt.Sprintf("memory.size after %s grow(%d) in the same function is %d, reference %d", callee, op.Delta, sz, after))
	}
	// the stores after the call must be visible to the host right away (a stale base loses them)
	if gotOK == wantOK {
		wf := func() string {
			return fmt.Sprintf("store8 after %s grow(%d) in the same function of the %s module", callee, op.Delta, g.name)
		}
		if variant == "l" {
			in.verifyBytes(a0, 1, fmt.Sprintf("%s:nested-grow:%s:%s:store-after-the-call", e, callee, vis), wf)
		}
		if variant != "n" {
			in.verifyBytes(a1, 1, fmt.Sprintf("%s:nested-grow:%s:%s:store-after-the-call", e, callee, vis), wf)
		}
	}
	return gotPrev, gotOK, false
}

func (in *inst) key() string {
	k := fmt.Sprintf("%d/%d", in.m.pages, in.mi.Cap)
	if in.x.tier.KeyLastSrc {
		k += "/" + in.lastSrc
	}
	return k
}

// hugeRealloc: the transition makes Go's allocator build a new multi-GiB buffer and fill it (4 GiB of page
// faults; seconds and 4 GiB resident each).
func (x *explorer) hugeRealloc(capPages, newPages uint32) bool {
	return x.cfg.Alloc == "go" && newPages > capPages && newPages >= hugePages
}

// allowHugeRealloc is the per-tier bound on those transitions (documented in NOTES.md). Each one costs
// 4 GiB of page faults (5-30 s on this class of machine; page-fault throughput is a machine-wide bottleneck).
func (x *explorer) allowHugeRealloc(depth int, pages uint32, op Op) bool {
	c := x.cfg
	if depth != 0 || op.Delta != c.Bound()-pages || c.Prime != nil || isNested(op.Src) {
		return false // nested requests reach multi-GiB sizes through capacity-from-max and the custom allocators only
	}
	switch x.tier.Name {
	case "thorough":
		// every configuration: from the initial state straight to the bound, alternately (by a fixed parity of
		// the configuration) through the host or through the fused guest function; the designated declarations
		// (min=1, max absent): by every source.
		if x.expandHugeStates() {
			return true
		}
		par := c.Min + c.Limit
		if c.Imported {
			par++
		}
		if c.HasMax {
			par += c.Max
		}
		if par%2 == 0 {
			return op.Src == "host"
		}
		return strings.HasSuffix(op.Src, "f")
	default:
		// two transitions in total
		if c.HasMax || c.Min != 1 || x.engine != "compiler" {
			return false
		}
		if c.Imported {
			return c.Limit == 65536 && op.Src == "host"
		}
		return c.Limit == 65535 && op.Src == "guestf"
	}
}

// expandHugeStates: states that can only be re-created by repeating a multi-GiB reallocation are expanded
// (their outgoing transitions enumerated) only for the designated declarations of the thorough tier;
// elsewhere they are compared completely but are leaves.
func (x *explorer) expandHugeStates() bool {
	return x.tier.Name == "thorough" && !x.cfg.HasMax && x.cfg.Min == 1
}

type stateRec struct {
	path    []Op
	pages   uint32
	cap     uint32
	viaHuge bool // the history contains a multi-GiB reallocation
}

// explore runs the BFS for one engine.
func (x *explorer) explore() {
	if !x.open() {
		x.close()
		return
	}
	defer x.close()
	root := x.newInst()
	if root == nil {
		return
	}
	root.enter(true)
	x.res.States++
	seen := map[string]bool{root.key(): true}
	queue := []stateRec{{nil, root.m.pages, root.mi.Cap, false}}
	cur := root
	for qi := 0; qi < len(queue); qi++ {
		st := queue[qi]
		depth := len(st.path)
		if depth > x.res.MaxDepth {
			x.res.MaxDepth = depth
		}
		var ops []Op
		// refused / zero requests first: they leave the state unchanged and share one instance
		var changing []Op
		for _, src := range sources(x.cfg) {
			for _, d := range deltasFor(x.cfg, st.pages, src) {
				op := Op{src, d}
				np := uint64(st.pages) + uint64(d)
				if d != 0 && np <= uint64(x.cfg.GrowBound()) {
					if x.hugeRealloc(st.cap, uint32(np)) {
						x.res.out(fmt.Sprintf("huge-realloc-candidate:depth=%d", depth))
						if !x.allowHugeRealloc(depth, st.pages, op) {
							x.res.SkippedHR++
							continue
						}
						x.res.HugeRealloc++
					}
					changing = append(changing, op)
				} else {
					ops = append(ops, op)
				}
			}
		}
		ops = append(ops, changing...)
		for _, op := range ops {
			opHuge := st.viaHuge || (op.Delta != 0 && uint64(st.pages)+uint64(op.Delta) <= uint64(x.cfg.Bound()) && x.hugeRealloc(st.cap, st.pages+op.Delta))
			if cur == nil {
				cur = x.newInst()
				if cur == nil {
					return
				}
				cur.enter(false)
				for _, p := range st.path {
					cur.apply(p, false)
					if cur.diverged {
						break
					}
				}
			}
			if cur.diverged {
				cur.close()
				cur = nil
				continue
			}
			changed := cur.apply(op, true)
			if cur.diverged {
				cur.close()
				cur = nil
				continue
			}
			if changed {
				k := cur.key()
				if !seen[k] {
					seen[k] = true
					x.res.States++
					if depth+1 < x.tier.Depth && opHuge && !x.expandHugeStates() {
						x.res.out("state-not-expanded(re-creation needs a multi-GiB reallocation)")
					} else if depth+1 < x.tier.Depth {
						queue = append(queue, stateRec{append([]Op{}, cur.path...), cur.m.pages, cur.mi.Cap, opHuge})
					} else if depth+1 > x.res.MaxDepth {
						x.res.MaxDepth = depth + 1
					}
				}
				cur.close()
				cur = nil
			}
		}
		if cur != nil {
			cur.close()
			cur = nil
		}
	}
}
