package main

import (
	"fmt"
	"os"
	"strings"
)

var dbgRSS = os.Getenv("VERIF_C14_DBGRSS") != ""
var lastRSS int64

func rssKB() int64 {
	b, _ := os.ReadFile("/proc/self/status")
	for _, l := range strings.Split(string(b), "\n") {
		if strings.HasPrefix(l, "VmRSS:") {
			var v int64
			fmt.Sscanf(strings.TrimSpace(l[6:]), "%d", &v)
			return v
		}
	}
	return 0
}

func dbgPoint(what string) {
	if !dbgRSS {
		return
	}
	r := rssKB()
	if r-lastRSS > 500000 || lastRSS-r > 500000 {
		fmt.Fprintf(os.Stderr, "RSS %d -> %d MB at %s\n", lastRSS/1024, r/1024, what)
	}
	lastRSS = r
}
