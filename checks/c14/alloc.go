package main

import (
	"fmt"
	"syscall"
	"unsafe"

	"github.com/tetratelabs/wazero/experimental"
)

// Multi-GiB buffers are never handed back to the Go heap inside one (short-lived) case process: a
// fresh large allocation comes straight from mmap and is only virtual, whereas a re-used span is
// cleared by the Go runtime (4 GiB of page faults, many seconds). Buffers are kept referenced here and
// their touched pages are given back to the kernel with MADV_DONTNEED once the instance is closed.
var leaked [][]byte
var droppedUpTo int

func keepAlive(b []byte) {
	if uint64(cap(b)) < uint64(hugePages)*pageSize {
		return
	}
	p := unsafe.SliceData(b)
	for _, l := range leaked {
		if unsafe.SliceData(l) == p {
			return
		}
	}
	leaked = append(leaked, b[:0:cap(b)])
}

// dropPages releases the physical pages of every retained huge buffer (contents are dead by then).
func dropPages() {
	for _, l := range leaked[droppedUpTo:] {
		full := l[:cap(l)]
		addr := uintptr(unsafe.Pointer(unsafe.SliceData(full)))
		const pg = 4096
		lo := (pg - addr%pg) % pg
		hi := uintptr(len(full)) - (addr+uintptr(len(full)))%pg
		if hi > lo {
			_ = syscall.Madvise(full[lo:hi], syscall.MADV_DONTNEED)
		}
	}
	droppedUpTo = len(leaked)
}

// vAlloc is a family of conforming experimental.MemoryAllocator behaviours, each as hostile as the contract
// allows. In all of them it is Reallocate that makes new bytes valid and zero; contents are preserved.
//
//	exact     cap == len; small memories MOVE on every Reallocate and the abandoned buffer is poisoned, so an
//	          engine that keeps a stale base pointer or length reads garbage; multi-GiB memories are mapped once
//	          with the maximum as capacity and re-sliced afterwards.
//	reserve   the maximum is reserved up front (never moves, cap == max); the spare region is filled with a
//	          poison byte and only the part handed out by Reallocate is cleared.
//	recycled  slabs (requested size + 2 pages; multi-GiB: the maximum) come from a free list of dirty slabs used
//	          and Free()d by closed instances of the same exploration (first use: poison-filled); growing
//	          beyond the slab moves to another slab and returns the old one dirty.
//	refusing  like reserve, but Reallocate returns nil beyond min+1 pages: the grow must fail and change nothing.
//
// Multi-GiB backings are anonymous mappings poisoned only at the offsets the check looks at (see
// poisonOffsets); "clearing" them clears exactly those offsets.
type vAlloc struct {
	kind        string
	fixed       bool      // backs a shared memory: the buffer must never move (recycled takes a slab of max bytes)
	pool        *slabPool // recycled
	refuseAbove uint64    // refusing: bytes; 0 = never refuses
	maps        [][]byte  // mmap'ed regions owned by this instance, unmapped by release()
	mems        []*vMem
	contract    []string // contract violations by wazero (requests beyond max, misaligned sizes, use after Free)
	allocArgs   [][2]uint64
}

type reCall struct {
	Size    uint64
	Refused bool
}

type vMem struct {
	a        *vAlloc
	buf      []byte // what wazero holds
	back     []byte // reserve/recycled/refusing: the whole backing (len == capacity)
	sparse   bool   // back is a multi-GiB mapping poisoned at poisonOffsets only
	cap, max uint64
	freed    int
	calls    []reCall
}

const poisonByte = 0xA5

func (a *vAlloc) Allocate(cap, max uint64) experimental.LinearMemory {
	m := &vMem{a: a, cap: cap, max: max}
	a.mems = append(a.mems, m)
	a.allocArgs = append(a.allocArgs, [2]uint64{cap, max})
	if cap > max {
		a.contract = append(a.contract, fmt.Sprintf("Allocate(cap=%d > max=%d)", cap, max))
	}
	return m
}

// recorded is the allocator's own idea of the current size.
func (m *vMem) recorded() uint64 { return uint64(len(m.buf)) }

func (m *vMem) Reallocate(size uint64) []byte {
	call := reCall{Size: size}
	defer func() { m.calls = append(m.calls, call) }()
	if m.freed > 0 {
		m.a.contract = append(m.a.contract, fmt.Sprintf("Reallocate(%d) after Free", size))
	}
	if size > m.max {
		m.a.contract = append(m.a.contract, fmt.Sprintf("Reallocate(%d) beyond max %d", size, m.max))
		call.Refused = true
		return nil
	}
	if size%pageSize != 0 {
		m.a.contract = append(m.a.contract, fmt.Sprintf("Reallocate(%d) not a whole number of pages", size))
	}
	if size < uint64(len(m.buf)) {
		m.a.contract = append(m.a.contract, fmt.Sprintf("Reallocate(%d) shrinks from %d", size, len(m.buf)))
	}
	if m.a.refuseAbove != 0 && size > m.a.refuseAbove {
		call.Refused = true
		return nil
	}
	huge := uint64(hugePages) * pageSize
	old := uint64(len(m.buf))
	switch m.a.kind {
	case "reserve", "refusing":
		if m.back == nil {
			m.back, m.sparse = newBacking(m.max)
			if m.sparse {
				m.a.maps = append(m.a.maps, m.back)
			}
		}
		clearBacking(m.back, m.sparse, old, size)
		m.buf = m.back[:size]
	case "recycled":
		if m.back == nil || size > uint64(len(m.back)) {
			need := size + 2*pageSize
			if m.a.fixed && m.back != nil {
				panic("HARNESS-ERROR: the recycled allocator would move a shared memory")
			}
			if size >= huge || m.a.fixed {
				need = size
				if m.max > need {
					need = m.max
				}
			}
			nb, sp := m.a.pool.take(need)
			copy(nb, m.buf) // the old slab is small here (the alphabet has no intermediate sizes)
			if m.back != nil {
				m.a.pool.put(m.back, m.sparse) // dirty, as it is
			}
			m.back, m.sparse = nb, sp
		}
		clearBacking(m.back, m.sparse, old, size)
		m.buf = m.back[:size]
	default: // exact
		switch {
		case size >= huge && uint64(cap(m.buf)) >= size:
			m.buf = m.buf[:size] // mapped earlier; bytes beyond the old length were never exposed and are zero
		case size >= huge:
			c := m.max
			if c < size {
				c = size
			}
			region := mmapAnon(c, true) // fresh mapping: virtual and zero
			m.a.maps = append(m.a.maps, region)
			nb := region[:size]
			copy(nb, m.buf) // the old buffer is small here
			poison(m.buf)
			m.buf = nb
		default:
			nb := make([]byte, size)
			copy(nb, m.buf)
			poison(m.buf)
			m.buf = nb
		}
	}
	return m.buf
}

func (m *vMem) Free() {
	m.freed++
	if m.a.kind == "recycled" && m.back != nil && m.freed == 1 {
		m.a.pool.put(m.back, m.sparse)
	}
}

// release unmaps the regions owned by the instance once it is closed.
func (a *vAlloc) release() {
	for _, r := range a.maps {
		_ = syscall.Munmap(r)
	}
	a.maps = nil
}

// newBacking returns n bytes of "dirty" capacity: completely poison-filled when small, an anonymous mapping
// poisoned at poisonOffsets when multi-GiB.
func newBacking(n uint64) (b []byte, sparse bool) {
	if n >= uint64(hugePages)*pageSize {
		b = mmapAnon(n, true)
		for _, o := range poisonOffsets(n) {
			b[o] = poisonByte
		}
		return b, true
	}
	b = make([]byte, n)
	for i := range b {
		b[i] = poisonByte
	}
	return b, false
}

// clearBacking is what the allocator does to hand out [from,to): it makes those bytes zero.
func clearBacking(b []byte, sparse bool, from, to uint64) {
	if to <= from {
		return
	}
	if !sparse {
		clear(b[from:to])
		return
	}
	for _, o := range poisonOffsets(uint64(len(b))) {
		if o >= from && o < to {
			b[o] = 0
		}
	}
}

var poisonCache = map[uint64][]uint64{}

// poisonOffsets: the offsets < n that the content comparison of a multi-GiB memory can look at without having
// written them: -16..+1 around the boundaries of the pages boundaryPages may select.
func poisonOffsets(n uint64) []uint64 {
	if p, ok := poisonCache[n]; ok {
		return p
	}
	set := map[uint64]bool{}
	for _, k := range []uint64{0, 1, 2, 3, 4, 5, 6, 7, 32767, 32768, 32769, 65534, 65535, 65536} {
		for d := int64(-16); d <= 1; d++ {
			if o := int64(k*pageSize) + d; o >= 0 && uint64(o) < n {
				set[uint64(o)] = true
			}
		}
	}
	p := sortedU64(set)
	poisonCache[n] = p
	return p
}

// slabPool is the free list of the recycled allocator; it lives as long as one exploration (one engine of one
// configuration), i.e. across all its instances.
type slabPool struct {
	free     map[uint64][]pooled
	regions  [][]byte
	Recycled int64 // slabs handed out that had been used by an earlier instance
}

type pooled struct {
	b      []byte
	sparse bool
}

func newSlabPool() *slabPool { return &slabPool{free: map[uint64][]pooled{}} }

func (p *slabPool) take(n uint64) ([]byte, bool) {
	if l := p.free[n]; len(l) > 0 {
		s := l[len(l)-1]
		p.free[n] = l[:len(l)-1]
		p.Recycled++
		return s.b, s.sparse
	}
	b, sparse := newBacking(n)
	if sparse {
		p.regions = append(p.regions, b)
	}
	return b, sparse
}

// put returns a slab dirty. A multi-GiB slab cannot be cleared densely later, so its pages are dropped and the
// known offsets are poisoned again.
func (p *slabPool) put(b []byte, sparse bool) {
	if sparse {
		_ = syscall.Madvise(b, syscall.MADV_DONTNEED)
		for _, o := range poisonOffsets(uint64(len(b))) {
			b[o] = poisonByte
		}
	} else if len(b) > 0 {
		b[len(b)-1] = poisonByte // whatever the instance left, plus a mark in the never handed-out tail
	}
	p.free[uint64(len(b))] = append(p.free[uint64(len(b))], pooled{b, sparse})
}

func (p *slabPool) release() {
	for _, r := range p.regions {
		_ = syscall.Munmap(r)
	}
	p.regions = nil
	p.free = map[uint64][]pooled{}
}

// mmapAnon returns n bytes of anonymous private memory straight from the kernel (never touched => never resident).
func mmapAnon(n uint64, writable bool) []byte {
	prot := syscall.PROT_READ
	if writable {
		prot |= syscall.PROT_WRITE
	}
	if n == 0 {
		return []byte{}
	}
	b, err := syscall.Mmap(-1, 0, int(n), prot, syscall.MAP_ANON|syscall.MAP_PRIVATE|syscall.MAP_NORESERVE)
	if err != nil {
		panic(fmt.Sprintf("HARNESS-ERROR: mmap %d bytes: %v", n, err))
	}
	return b
}

func poison(b []byte) {
	if uint64(len(b)) >= uint64(hugePages)*pageSize {
		return
	}
	for i := range b {
		b[i] = 0xDD
	}
}
