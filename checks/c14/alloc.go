package main

import (
	"fmt"
	"syscall"
	"unsafe"

	"github.com/tetratelabs/wazero/experimental"
)

// Multi-GiB buffers are never handed back to the Go heap inside one (short-lived) case process: a
// fresh large allocation comes straight from mmap and is only virtual, whereas a re-used span is
// cleared by the Go runtime (4 GiB of page faults, many seconds). Buffers are kept referenced here and
// their touched pages are given back to the kernel with MADV_DONTNEED once the instance is closed.
var leaked [][]byte
var droppedUpTo int

func keepAlive(b []byte) {
	if uint64(cap(b)) < uint64(hugePages)*pageSize {
		return
	}
	p := unsafe.SliceData(b)
	for _, l := range leaked {
		if unsafe.SliceData(l) == p {
			return
		}
	}
	leaked = append(leaked, b[:0:cap(b)])
}

// dropPages releases the physical pages of every retained huge buffer (contents are dead by then).
func dropPages() {
	for _, l := range leaked[droppedUpTo:] {
		full := l[:cap(l)]
		addr := uintptr(unsafe.Pointer(unsafe.SliceData(full)))
		const pg = 4096
		lo := (pg - addr%pg) % pg
		hi := uintptr(len(full)) - (addr+uintptr(len(full)))%pg
		if hi > lo {
			_ = syscall.Madvise(full[lo:hi], syscall.MADV_DONTNEED)
		}
	}
	droppedUpTo = len(leaked)
}

// vAlloc is a conforming experimental.MemoryAllocator that is as hostile as the contract allows:
// small memories MOVE on every Reallocate and the abandoned buffer is poisoned, so an engine that
// keeps a stale base pointer or length reads garbage; multi-GiB memories are reserved once with the
// maximum as capacity (virtual) and re-sliced afterwards. Contents are preserved and new bytes are zero,
// as the contract of the allocator demands.
type vAlloc struct {
	maps      [][]byte // mmap'ed multi-GiB regions, unmapped by release()
	mems      []*vMem
	contract  []string // contract violations by wazero (requests beyond max, misaligned sizes, use after Free)
	allocArgs [][2]uint64
}

type vMem struct {
	a        *vAlloc
	buf      []byte
	cap, max uint64
	freed    bool
	reallocs []uint64
}

func (a *vAlloc) Allocate(cap, max uint64) experimental.LinearMemory {
	m := &vMem{a: a, cap: cap, max: max}
	a.mems = append(a.mems, m)
	a.allocArgs = append(a.allocArgs, [2]uint64{cap, max})
	if cap > max {
		a.contract = append(a.contract, fmt.Sprintf("Allocate(cap=%d > max=%d)", cap, max))
	}
	return m
}

func (m *vMem) Reallocate(size uint64) []byte {
	m.reallocs = append(m.reallocs, size)
	if m.freed {
		m.a.contract = append(m.a.contract, fmt.Sprintf("Reallocate(%d) after Free", size))
	}
	if size > m.max {
		m.a.contract = append(m.a.contract, fmt.Sprintf("Reallocate(%d) beyond max %d", size, m.max))
		return nil
	}
	if size%pageSize != 0 {
		m.a.contract = append(m.a.contract, fmt.Sprintf("Reallocate(%d) not a whole number of pages", size))
	}
	if size < uint64(len(m.buf)) {
		m.a.contract = append(m.a.contract, fmt.Sprintf("Reallocate(%d) shrinks from %d", size, len(m.buf)))
	}
	huge := uint64(hugePages) * pageSize
	switch {
	case size >= huge && uint64(cap(m.buf)) >= size:
		m.buf = m.buf[:size] // reserved earlier; bytes beyond the old length were never exposed and are zero
	case size >= huge:
		c := m.max
		if c < size {
			c = size
		}
		region := mmapAnon(c, true) // fresh mapping: virtual and zero
		m.a.maps = append(m.a.maps, region)
		nb := region[:size]
		copy(nb, m.buf) // the old buffer is small here (the alphabet has no intermediate sizes)
		poison(m.buf)
		m.buf = nb
	default:
		nb := make([]byte, size)
		copy(nb, m.buf)
		poison(m.buf)
		m.buf = nb
	}
	return m.buf
}

func (m *vMem) Free() { m.freed = true }

// release unmaps the multi-GiB regions once the instance is closed.
func (a *vAlloc) release() {
	for _, r := range a.maps {
		_ = syscall.Munmap(r)
	}
	a.maps = nil
}

// mmapAnon returns n bytes of anonymous private memory straight from the kernel (never touched => never resident).
func mmapAnon(n uint64, writable bool) []byte {
	prot := syscall.PROT_READ
	if writable {
		prot |= syscall.PROT_WRITE
	}
	b, err := syscall.Mmap(-1, 0, int(n), prot, syscall.MAP_ANON|syscall.MAP_PRIVATE|syscall.MAP_NORESERVE)
	if err != nil {
		panic(fmt.Sprintf("HARNESS-ERROR: mmap %d bytes: %v", n, err))
	}
	return b
}

func poison(b []byte) {
	if uint64(len(b)) >= uint64(hugePages)*pageSize {
		return
	}
	for i := range b {
		b[i] = 0xDD
	}
}
