// C14 — memory size, growth and the host memory API follow the limits exactly.
//
// Bounded-exhaustive model checking on the real engines: for every (min, max|absent, limit) in
// {0,1,2,3,65535,65536}^3 that is a valid declaration x capacity-from-max x {Go allocator, four custom
// experimental.MemoryAllocator behaviours} x {local exported, local not exported, imported memory} x {unshared, shared} x {interpreter, compiler}, an explicit-state BFS
// over grow histories (guest memory.grow — plain and fused with loads in one function —, host Memory.Grow,
// and NESTED requests: a guest function that accesses memory, calls/call_indirects a host or guest function that
// grows the memory, and accesses memory again;
// delta alphabet {0,1,2,bound-cur,bound-cur+1,max-cur,max-cur+1,65535,65536,2^31,2^32-1}; depth <= 3)
// is executed. In EVERY state the implementation is compared with an integer reference model:
// memory.size / memory.grow(0) in every module, Memory.Size(), Memory.Grow(0); every host accessor at
// offsets/lengths around the size boundary and near 2^31 / 2^32 (ok iff offset+len <= size, 64-bit);
// guest loads/stores of every width at the boundary; complete (small memories) or sparse (multi-GiB) content
// comparison against the model's byte map with fresh page-boundary markers written in every state.
//
// Every configuration runs in its own child process (crash containment; multi-GiB buffers are never
// recycled by the Go heap inside one process and stay virtual). Pairs of runtimes with different limits that share a
// CompilationCache are explored as well (Config.Prime).
package main

import (
	"bufio"
	"bytes"
	"encoding/json"
	"fmt"
	"os"
	"os/exec"
	"regexp"
	"runtime"
	"runtime/debug"
	"sort"
	"strconv"
	"strings"
	"sync"
	"time"

	"github.com/tetratelabs/wazero/verif/fw"
)

func tierOf(name string) tierRules {
	if name == "thorough" {
		return tierRules{Name: "thorough", Depth: 3, KeyLastSrc: true}
	}
	return tierRules{Name: "quick", Depth: 3, KeyLastSrc: false}
}

var engines = []string{"interpreter", "compiler"}

func runCase(c Config, tier tierRules) *CaseResult {
	res := newResult()
	sample := map[string]any{"config": c.String()}
	for _, e := range engines {
		x := &explorer{cfg: c, engine: e, tier: tier, res: res}
		s0, t0 := res.States, res.Transitions
		x.explore()
		sample[e] = fmt.Sprintf("states=%d transitions=%d", res.States-s0, res.Transitions-t0)
	}
	res.Sample = sample
	return res
}

// heavyCase: some engine of the configuration executes a huge reallocation in this tier.
func heavyCase(c Config, tier tierRules) bool {
	if !c.Huge() || c.Alloc != "go" || c.CapMax || c.Min >= c.Bound() {
		return false
	}
	for _, e := range engines {
		x := &explorer{cfg: c, engine: e, tier: tier}
		for _, src := range sources(c) {
			if x.allowHugeRealloc(0, c.Min, Op{src, c.Bound() - c.Min}) {
				return true
			}
		}
	}
	return false
}

// ---------------------------------------------------------------- child

func childMain() {
	cfgs := allConfigs()
	w := bufio.NewWriter(os.Stdout)
	for _, f := range strings.Split(os.Getenv("VERIF_C14_CASE"), ",") {
		idx, err := strconv.Atoi(f)
		if err != nil || idx < 0 || idx >= len(cfgs) {
			fw.Fatalf("bad case index %q", f)
		}
		if cfgs[idx].Huge() {
			// No collection inside a multi-GiB case: a page freed next to the untouched part of the heap makes the
			// Go runtime clear the whole next 4 GiB span (it starts in "dirty" pages), i.e. 4 GiB of page faults.
			debug.SetGCPercent(-1)
		}
		res := runCase(cfgs[idx], tierOf(os.Getenv("VERIF_C14_TIER")))
		b, _ := json.Marshal(res)
		fmt.Fprintf(w, "RESULT %d ", idx)
		w.Write(b)
		w.WriteString("\n")
		w.Flush()
	}
	os.Exit(0)
}

// runChild executes a batch of cases (normally one) in a fresh process. A crash is attributed to the first case
// of the batch that produced no result.
func runChild(idxs []int, tier string, timeout time.Duration) (map[int]*CaseResult, *fw.Crash) {
	self, err := os.Executable()
	if err != nil {
		fw.Fatalf("os.Executable: %v", err)
	}
	var ids []string
	for _, i := range idxs {
		ids = append(ids, strconv.Itoa(i))
	}
	cmd := exec.Command(self, tier)
	cmd.Env = append(os.Environ(), "VERIF_C14_CASE="+strings.Join(ids, ","), "VERIF_C14_TIER="+tier)
	var out, errb bytes.Buffer
	cmd.Stdout = &out
	cmd.Stderr = &errb
	if err := cmd.Start(); err != nil {
		fw.Fatalf("start child: %v", err)
	}
	done := make(chan error, 1)
	go func() { done <- cmd.Wait() }()
	var werr error
	var crash *fw.Crash
	select {
	case werr = <-done:
	case <-time.After(timeout):
		cmd.Process.Kill()
		<-done
		crash = &fw.Crash{Kind: "timeout", Stderr: tail(errb.String())}
	}
	results := map[int]*CaseResult{}
	for _, l := range strings.Split(out.String(), "\n") {
		if strings.HasPrefix(l, "RESULT ") {
			rest := l[7:]
			sp := strings.IndexByte(rest, ' ')
			if sp < 0 {
				continue // truncated by a crash
			}
			idx, _ := strconv.Atoi(rest[:sp])
			res := newResult()
			if err := json.Unmarshal([]byte(rest[sp+1:]), res); err != nil {
				continue // truncated by a crash
			}
			results[idx] = res
		}
	}
	if crash == nil && len(results) < len(idxs) {
		if werr != nil && strings.Contains(errb.String(), "HARNESS-ERROR") {
			fw.Fatalf("child %v: %s", idxs, tail(errb.String()))
		}
		crash = &fw.Crash{Kind: "crash", Stderr: fmt.Sprintf("%v\n%s", werr, tail(errb.String()))}
	}
	return results, crash
}

func tail(s string) string {
	if len(s) > 6000 {
		return s[:3000] + "\n...\n" + s[len(s)-2500:]
	}
	return s
}

var hexRe = regexp.MustCompile(`0x[0-9a-fA-F]+|\b[0-9]{4,}\b`)

func crashSig(c *fw.Crash) string {
	if c.Kind == "timeout" {
		return "child:timeout"
	}
	l := fw.FirstLines(c.Stderr, 2)
	l = hexRe.ReplaceAllString(l, "N")
	if len(l) > 90 {
		l = l[:90]
	}
	return "child:crash:" + l
}

// ---------------------------------------------------------------- replay

func replayMain(file string) {
	b, err := os.ReadFile(file)
	if err != nil {
		fw.Fatalf("%v", err)
	}
	var doc struct {
		Signature string `json:"signature"`
		Replay    Replay `json:"replay"`
	}
	if err := json.Unmarshal(b, &doc); err != nil {
		fw.Fatalf("%s: %v", file, err)
	}
	rp := doc.Replay
	fmt.Printf("replaying %s\n  config: %s\n  engine: %s\n  history: %v then %v\n", doc.Signature, rp.Cfg, rp.Engine, rp.Path, rp.Op)
	res := newResult()
	es := []string{rp.Engine}
	if rp.Engine == "" {
		es = engines
	}
	for _, e := range es {
		x := &explorer{cfg: rp.Cfg, engine: e, tier: tierOf("quick"), res: res, replay: true}
		if rp.Engine == "" && rp.Path == nil && rp.Op == nil { // a crashed case: run the whole exploration in-process
			x.explore()
			continue
		}
		if !x.open() {
			x.close()
			continue
		}
		in := x.newInst()
		if in == nil {
			x.close()
			continue
		}
		steps := append([]Op{}, rp.Path...)
		if rp.Op != nil {
			steps = append(steps, *rp.Op)
		}
		in.enter(len(steps) == 0)
		for i, s := range steps {
			ch := in.apply(s, i == len(steps)-1)
			fmt.Printf("  %s -> pages=%d changed=%v diverged=%v (model %d pages)\n", s, in.mi.Pages(), ch, in.diverged, in.m.pages)
			if in.diverged {
				break
			}
		}
		in.close()
		x.close()
	}
	same := false
	for _, v := range res.Viols {
		if v.Sig == doc.Signature {
			same = true
		}
	}
	fmt.Printf("replay: %d distinct violation signatures, original signature reproduced: %v\n", len(res.Viols), same)
	if same || (len(res.Viols) > 0 && (doc.Signature == "" || strings.HasPrefix(doc.Signature, "child:"))) {
		os.Exit(1) // it still fails
	}
	os.Exit(0)
}

// ---------------------------------------------------------------- parent

func main() {
	if os.Getenv("VERIF_C14_CASE") != "" {
		childMain()
		return
	}
	if len(os.Args) > 2 && os.Args[1] == "replay" {
		replayMain(os.Args[2])
		return
	}
	run := fw.Start("C14", "model_checking")
	tier := tierOf(run.Tier)
	cfgs := allConfigs()
	if os.Getenv("VERIF_C14_LIST") != "" { // debugging aid
		for i, c := range cfgs {
			fmt.Printf("%d\t%s\thuge=%v accepted=%v heavy=%v\n", i, c, c.Huge(), c.Accepted(), heavyCase(c, tier))
		}
		return
	}
	if os.Getenv("VERIF_C14_INPROC") != "" { // debugging aid: one case in-process
		i, _ := strconv.Atoi(os.Getenv("VERIF_C14_INPROC"))
		res := runCase(cfgs[i], tier)
		b, _ := json.MarshalIndent(res, "", " ")
		fmt.Println(string(b))
		return
	}

	// "heavy" cases execute at least one Go-allocator reallocation to a multi-GiB size, i.e. make 4 GiB
	// resident for a few seconds: at most 4 of them run at a time. Other multi-GiB cases stay virtual
	// (< 0.5 GiB resident, mostly heap metadata) and are scheduled like small ones.
	var small, huge, heavy []int
	for i, c := range cfgs {
		if c.Huge() {
			huge = append(huge, i)
		}
		if heavyCase(c, tier) {
			heavy = append(heavy, i)
		} else {
			small = append(small, i)
		}
	}
	timeout := 5 * time.Minute
	if run.Thorough() {
		timeout = 25 * time.Minute
	}

	var mu sync.Mutex
	total := newResult()
	samples := fw.NewSampler(16)
	var casesDone, crashes, rejected, transient int64
	perClass := map[string]int64{}
	type slow struct {
		s float64
		c string
	}
	var slowest []slow
	handle := func(i int, res *CaseResult, crash *fw.Crash, wall float64) {
		mu.Lock()
		defer mu.Unlock()
		casesDone++
		c := cfgs[i]
		slowest = append(slowest, slow{float64(int(wall*10)) / 10, c.String()})
		sort.Slice(slowest, func(a, b int) bool { return slowest[a].s > slowest[b].s })
		if len(slowest) > 8 {
			slowest = slowest[:8]
		}
		if crash != nil {
			crashes++
			total.out("child:" + crash.Kind)
			run.Violation(crashSig(crash), fmt.Sprintf("%s: child process %s: %s", c, crash.Kind, fw.FirstLines(crash.Stderr, 6)), Replay{Cfg: c})
			return
		}
		total.States += res.States
		total.Transitions += res.Transitions
		total.Evals += res.Evals
		total.Instances += res.Instances
		total.ReplaySteps += res.ReplaySteps
		total.HugeRealloc += res.HugeRealloc
		total.SkippedHR += res.SkippedHR
		if res.MaxDepth > total.MaxDepth {
			total.MaxDepth = res.MaxDepth
		}
		for k, v := range res.Outcomes {
			total.Outcomes[k] += v
		}
		if res.States == 0 {
			rejected++
		}
		cl := "small"
		if c.Huge() {
			cl = "multi-GiB"
		}
		if c.Prime != nil {
			cl = "cache-pair"
		}
		perClass["cases:"+cl]++
		perClass["states:"+cl] += res.States
		perClass["transitions:"+cl] += res.Transitions
		for _, v := range res.Viols {
			run.Violation(v.Sig, v.What, v.Replay) // occurrences are counted per configuration, not per comparison
		}
		samples.Add(res.Sample)
	}

	// Process start-up dominates small cases: configurations the reference rejects (min > limit; they only compile
	// two modules per engine) share a child 24 at a time, accepted configurations that never reach a multi-GiB size
	// 6 at a time; every multi-GiB case has a process (a heap) of its own. If a batch crashes, the cases without a
	// result are re-run one per process, so a crash is still attributed to exactly one configuration.
	var batches [][]int
	var rejectedQ, plainQ []int
	flush := func(l *[]int, n int, force bool) {
		if len(*l) >= n || (force && len(*l) > 0) {
			batches = append(batches, *l)
			*l = nil
		}
	}
	for _, i := range small {
		switch c := cfgs[i]; {
		case !c.Accepted():
			rejectedQ = append(rejectedQ, i)
			flush(&rejectedQ, 24, false)
		case c.Huge():
			batches = append(batches, []int{i})
		default:
			plainQ = append(plainQ, i)
			flush(&plainQ, 6, false)
		}
	}
	flush(&rejectedQ, 24, true)
	flush(&plainQ, 6, true)
	// longest first: multi-GiB singletons, then the batches in enumeration order (stable)
	sort.SliceStable(batches, func(a, b int) bool {
		return cfgs[batches[a][0]].Huge() && !cfgs[batches[b][0]].Huge()
	})
	hugeQ := make(chan []int, len(heavy))
	for _, i := range heavy {
		hugeQ <- []int{i}
	}
	close(hugeQ)
	smallQ := make(chan []int, len(batches))
	for _, b := range batches {
		smallQ <- b
	}
	close(smallQ)
	nw := runtime.NumCPU()
	if nw < 5 {
		nw = 5
	}
	const hugeWorkers = 4
	var wg sync.WaitGroup
	var work func(q chan []int)
	runBatch := func(b []int) {
		t := time.Now()
		results, crash := runChild(b, run.Tier, timeout)
		wall := time.Since(t).Seconds()
		var missing []int
		for _, i := range b {
			if r := results[i]; r != nil {
				handle(i, r, nil, wall/float64(len(b)))
			} else {
				missing = append(missing, i)
			}
		}
		switch {
		case len(missing) == 0:
		default:
			// A crash must reproduce in a fresh process of its own before it is reported (DESIGN 1.6); this also
			// finds the culprit of a batch. A crash that does not reproduce is recorded in the evidence notes.
			for _, i := range missing {
				var r map[int]*CaseResult
				var c *fw.Crash
				for attempt := 0; attempt < 2; attempt++ {
					if r, c = runChild([]int{i}, run.Tier, timeout); c == nil {
						break
					}
				}
				if c == nil && crash != nil {
					mu.Lock()
					transient++
					run.Note("child process of %s (batch of %d) ended with %q once and completed when re-run alone: not reported", cfgs[i], len(b), fw.FirstLines(crash.Stderr, 2))
					mu.Unlock()
				}
				handle(i, r[i], c, 0)
			}
		}
	}
	work = func(q chan []int) {
		for b := range q {
			if run.Expired() {
				run.Capped("budget")
				return
			}
			runBatch(b)
		}
	}
	t0 := time.Now()
	for w := 0; w < nw; w++ {
		wg.Add(1)
		go func(w int) {
			defer wg.Done()
			if w < hugeWorkers {
				work(hugeQ) // at most 4 cases with resident multi-GiB buffers at a time
			}
			work(smallQ)
		}(w)
	}
	wg.Wait()
	if os.Getenv("VERIF_C14_SLOW") != "" {
		for _, s := range slowest {
			fmt.Fprintf(os.Stderr, "slow: %.1fs %s\n", s.s, s.c)
		}
	}

	out := map[string]int64{}
	for k, v := range total.Outcomes {
		out[k] = v
	}
	bounds := map[string]any{
		"alphabet_min_max_limit":   alphabet,
		"max_absent":               true,
		"configurations":           len(cfgs),
		"configurations_multi_GiB": len(huge),
		"configurations_with_resident_multi_GiB_buffers(max 4 at a time)": len(heavy),
		"engines":           engines,
		"sources":           "local: guest, guestf(fused), host; imported: guest(owner), iguest, iguestf(importer), host; nested (grow inside a call made between memory accesses of one guest function): callee in {imported host function using Module.Memory().Grow, local function using memory.grow} x {call, call_indirect}, from the importing module also the imported grow function of the defining module x {call, call_indirect}",
		"delta_alphabet":    "0,1,2,bound-cur,bound-cur+1,max-cur,max-cur+1,65535,65536,2^31,2^32-1; nested sources: 0,1,bound-cur,bound-cur+1 (+ refusal threshold)",
		"memory_visibility": "local memories: exported and not exported (private twin of every local configuration); imported",
		"history_depth":     tier.Depth,
		"state_key":         map[bool]string{false: "(pages, capacity)", true: "(pages, capacity, source of last successful grow)"}[tier.KeyLastSrc],
		"huge_realloc_rule": map[string]string{
			"quick":    "Go-allocator reallocation to >=65535 pages: 2 transitions (compiler; min=1, max absent; local limit=65535 by the fused guest function, imported limit=65536 by the host); resulting states are leaves",
			"thorough": "from every initial state straight to the bound, by the host or by the fused guest function (fixed parity of the configuration); for (min=1, max absent) declarations by every source and the resulting states are expanded; elsewhere resulting states are leaves",
		}[tier.Name],
		"per_class":       perClass,
		"wall_children_s": float64(int(time.Since(t0).Seconds()*10)) / 10,
	}
	run.Finish(fw.Coverage{
		Evaluations: total.Evals, DistinctNontriv: total.States, States: total.States, Transitions: total.Transitions, TracesValidated: total.Transitions,
		Rule: "state = (configuration, engine, pages, implementation capacity[, last grower]); every state is reached by executing its grow history on a fresh instance of the real runtime; " +
			"transition = one grow request (any source, any delta of the alphabet, refused ones included) issued in an expanded state, followed by the complete state comparison; " +
			"evaluations = individual comparisons implementation-vs-reference; distinct = distinct states (rejected configurations have none)",
		Samples: samples.List(), Exhaustive: true, Outcomes: out, Bounds: bounds,
		Extra: map[string]any{
			"cases_run": casesDone, "child_crashes_not_reproduced": transient, "configurations_without_states(compile_rejected_incl_known_finding)": rejected, "child_crashes": crashes,
			"instances": total.Instances, "replayed_prefix_steps": total.ReplaySteps, "max_depth_reached": total.MaxDepth,
			"huge_realloc_executed": total.HugeRealloc, "huge_realloc_outside_tier_bound": total.SkippedHR,
		},
	}, []string{
		"the reference accepts a valid declaration iff min <= limit and bounds the size by min(declared max, limit) — capacity-from-max and the allocator must not change either",
		"the custom allocators are conforming (Reallocate preserves contents and zero-fills what it hands out): exact (moves and poisons small buffers on every Reallocate), reserve (cap=max, poisoned spare region), recycled (dirty slabs of closed instances), refusing (nil beyond min+1 pages)",
		"multi-GiB memories: contents are compared at all bytes ever written plus zero probes around selected page boundaries (0-4, 32767-32769, 65534-65536, previous size) and the last 16 bytes, not densely; successful whole-memory Write/WriteString is exercised on memories <= 16 pages only",
		"Go-allocator reallocation to >= 65535 pages (4 GiB of page faults each) is bounded per tier as stated in bounds.huge_realloc_rule; those histories are covered with capacity-from-max and with the custom allocator in every tier",
		"shared memories are explored single-threaded (same histories and comparisons, plus buffer-address stability and wait32/notify bounds); concurrent agents are outside this check (C04/C10); NaN payloads of ReadFloat* are compared as bit patterns of non-NaN values only",
	})
}
