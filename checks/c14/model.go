package main

import (
	"fmt"
	"sort"
)

// ---------------------------------------------------------------- configuration space

const (
	pageSize  = uint64(65536)
	maxPages  = uint32(65536)
	hugePages = uint32(1024) // a memory with >= hugePages pages is never touched densely
)

// Config is one point of the configuration space (both engines are explored for it).
type Config struct {
	Min      uint32 `json:"min"`
	Max      uint32 `json:"max"`
	HasMax   bool   `json:"has_max"`
	Limit    uint32 `json:"limit"`
	CapMax   bool   `json:"capacity_from_max"`
	Alloc    string `json:"alloc"` // "go" | custom allocator behaviour: "exact" | "reserve" | "recycled" | "refusing"
	Imported bool   `json:"imported"`
	Shared   bool   `json:"shared,omitempty"` // threads proposal: shared memory (needs a declared max)
	// Private: the memory is defined in the module and NOT exported (nothing but the module itself and the host,
	// through api.Module.Memory(), can reach it). Only meaningful for a local memory.
	Private bool `json:"private,omitempty"`
	// Prime: before this configuration is explored, the same binaries are compiled and instantiated in ANOTHER
	// runtime with the limits below that shares the CompilationCache with the explored runtime.
	Prime *Prime `json:"prime,omitempty"`
}

type Prime struct {
	Limit  uint32 `json:"limit"`
	CapMax bool   `json:"capacity_from_max"`
	Cache  string `json:"cache"` // "mem": one in-memory cache object; "dir": directory cache, fresh cache object per runtime
}

// primeConfig is the configuration of the priming runtime.
func (c Config) primeConfig() Config {
	p := c
	p.Limit, p.CapMax, p.Prime = c.Prime.Limit, c.Prime.CapMax, nil
	return p
}

func (c Config) String() string {
	mx := "-"
	if c.HasMax {
		mx = fmt.Sprint(c.Max)
	}
	loc := "local"
	if c.Imported {
		loc = "imported"
	}
	if c.Private {
		loc += "-private(not exported)"
	}
	if c.Shared {
		loc += " shared"
	}
	if c.Prime != nil {
		loc += fmt.Sprintf(" after-runtime(limit=%d capFromMax=%v)-on-shared-%s-cache", c.Prime.Limit, c.Prime.CapMax, c.Prime.Cache)
	}
	return fmt.Sprintf("min=%d max=%s limit=%d capFromMax=%v alloc=%s %s", c.Min, mx, c.Limit, c.CapMax, c.Alloc, loc)
}

// Bound is the reference upper bound: the smaller of the declared maximum and the configured limit.
func (c Config) Bound() uint32 {
	b := c.Limit
	if c.HasMax && c.Max < b {
		b = c.Max
	}
	return b
}

// allocKinds is the allocator dimension: Go's allocator plus the family of custom allocator behaviours.
var allocKinds = []string{"go", "exact", "reserve", "recycled", "refusing"}

// RefusePages: the refusing allocator returns nil for any request beyond min+1 pages (0 = never refuses).
func (c Config) RefusePages() uint32 {
	if c.Alloc == "refusing" {
		return c.Min + 1
	}
	return 0
}

// GrowBound is the bound a grow can actually reach: Bound, lowered by an allocator that refuses.
func (c Config) GrowBound() uint32 {
	b := c.Bound()
	if r := c.RefusePages(); r != 0 && r < b {
		b = r
	}
	return b
}

// Accepted is the reference verdict on compilation: a valid declaration is usable exactly when its
// minimum fits the limit (then [min, Bound] is non-empty because min <= max holds for valid declarations).
func (c Config) Accepted() bool { return c.Min <= c.Limit }

// Huge: some reachable size (or the eager capacity) is a multi-GiB buffer.
// A shared memory is allocated with its maximum as capacity right away. Cache-sharing pairs never execute a huge
// reallocation; they hold a multi-GiB reservation only through capacity-from-max.
func (c Config) Huge() bool {
	if c.Prime != nil {
		return (c.CapMax && c.Bound() >= hugePages) || (c.Prime.CapMax && c.primeConfig().Bound() >= hugePages)
	}
	return c.Accepted() && (c.GrowBound() >= hugePages || (c.Shared && c.Bound() >= hugePages))
}

var alphabet = []uint32{0, 1, 2, 3, 65535, 65536}

// allConfigs enumerates (min,max|absent,limit) in alphabet^3 filtered to valid declarations
// (min <= max, everything <= 65536) x capacity-from-max x allocator x local/imported, in a fixed order.
func allConfigs() []Config {
	var out []Config
	for _, mn := range alphabet {
		for mi := -1; mi < len(alphabet); mi++ {
			has := mi >= 0
			var mx uint32
			if has {
				mx = alphabet[mi]
				if mx < mn {
					continue
				}
			}
			for _, lim := range alphabet {
				for _, cm := range []bool{false, true} {
					for _, al := range allocKinds {
						for _, imp := range []bool{false, true} {
							out = append(out, Config{Min: mn, Max: mx, HasMax: has, Limit: lim, CapMax: cm, Alloc: al, Imported: imp})
						}
						// visibility twin of the local memory: defined in the module and not exported
						out = append(out, Config{Min: mn, Max: mx, HasMax: has, Limit: lim, CapMax: cm, Alloc: al, Private: true})
						// shared twin: needs a declared maximum and an allocator that never moves the buffer
						// (the "exact" behaviour, cap == len, cannot back a shared memory by contract)
						if has && al != "exact" {
							for _, imp := range []bool{false, true} {
								out = append(out, Config{Min: mn, Max: mx, HasMax: has, Limit: lim, CapMax: cm, Alloc: al, Imported: imp, Shared: true})
							}
							out = append(out, Config{Min: mn, Max: mx, HasMax: has, Limit: lim, CapMax: cm, Alloc: al, Private: true, Shared: true})
						}
					}
				}
			}
		}
	}
	return append(out, pairConfigs()...)
}

// pairConfigs: two runtimes with DIFFERENT limits (and capacity-from-max) share one CompilationCache; the binaries
// are compiled and instantiated in the priming runtime first, then the usual exploration runs in the other one.
// Declarations where the limit decides (min in {1,2,3}, max absent or above the small limit), small limit
// in {min, min+1}, large limit in {min+2, 65536}, both orders, in-memory and directory cache, local and imported.
func pairConfigs() []Config {
	var out []Config
	caps := [][2]bool{{false, false}, {true, false}, {false, true}} // (small-limit runtime, large-limit runtime)
	for _, mn := range []uint32{1, 2, 3} {
		for _, has := range []bool{false, true} {
			for _, small := range []uint32{mn, mn + 1} {
				for _, large := range []uint32{mn + 2, 65536} {
					for ci, cp := range caps {
						if large == 65536 && ci > 0 {
							continue // capacity-from-max differs at the small limits only: no 4 GiB reservations in pairs
						}
						for _, smallFirst := range []bool{true, false} {
							for _, cache := range []string{"mem", "dir"} {
								for _, imp := range []bool{false, true} {
									c := Config{Min: mn, Max: 65536, HasMax: has, Alloc: "go", Imported: imp}
									if !has {
										c.Max = 0
									}
									if smallFirst {
										c.Limit, c.CapMax, c.Prime = large, cp[1], &Prime{small, cp[0], cache}
									} else {
										c.Limit, c.CapMax, c.Prime = small, cp[0], &Prime{large, cp[1], cache}
									}
									out = append(out, c)
								}
							}
						}
					}
				}
			}
		}
	}
	return out
}

// ---------------------------------------------------------------- operations

// Op is one grow request. Src: "guest" (memory.grow in the defining module), "guestf" (same, fused in one
// function with a load before and a load + memory.size after the grow), "iguest"/"iguestf" (same, issued by
// the importing module), "host" (api.Memory.Grow).
type Op struct {
	Src   string `json:"src"`
	Delta uint32 `json:"delta"`
}

func (o Op) String() string { return fmt.Sprintf("%s.grow(%d)", o.Src, o.Delta) }

func sources(c Config) []string {
	if c.Imported {
		return []string{"guest", "iguest", "iguestf", "host", "inest:hc", "inest:hi", "inest:lc", "inest:li", "inest:oc", "inest:oi"}
	}
	return []string{"guest", "guestf", "host", "nest:hc", "nest:hi", "nest:lc", "nest:li"}
}

// Nested grow requests: the grow happens INSIDE a call made by a guest function that accesses the memory before
// and after that call (so whatever the engine caches about the memory across the call must be refreshed).
// "nest:<callee>" is issued by the defining module, "inest:<callee>" by the importing module. Callees:
//
//	hc  direct call of an imported HOST function that grows the caller's memory through api.Module.Memory().Grow
//	hi  the same host function through call_indirect
//	lc  direct call of a function of the same module that executes memory.grow
//	li  the same function through call_indirect
//	oc  (importing module only) direct call of the imported `grow` function of the DEFINING module (guest code of
//	    another instance executing memory.grow on the shared memory object)
//	oi  the same function through call_indirect
var nestedCallee = map[string]string{
	"hc": "call-imported-host", "hi": "call_indirect-imported-host",
	"lc": "call-local", "li": "call_indirect-local",
	"oc": "call-imported-guest", "oi": "call_indirect-imported-guest",
}

func isNested(src string) bool {
	return len(src) > 5 && (src[:5] == "nest:" || (len(src) > 6 && src[:6] == "inest:"))
}

// nestedKind returns the callee letters of a nested source.
func nestedKind(src string) string { return src[len(src)-2:] }

// deltasFor: plain sources use the whole delta alphabet; for nested sources the limit arithmetic is the same code as
// for the plain request of the same grower, so they use the classes that matter to what is cached across the call —
// {0, 1, bound-cur, bound-cur+1} plus the refusal threshold (no-op, smallest growth, growth to the bound, refusal).
func deltasFor(c Config, pages uint32, src string) []uint32 {
	if !isNested(src) {
		return deltasAt(c, pages)
	}
	set := map[uint32]bool{0: true, 1: true}
	if b := c.Bound(); b >= pages {
		set[b-pages] = true
		set[b-pages+1] = true
	}
	if r := c.RefusePages(); r != 0 && r >= pages && r <= maxPages {
		set[r-pages] = true
		set[r-pages+1] = true
	}
	var out []uint32
	for d := range set {
		out = append(out, d)
	}
	sort.Slice(out, func(i, j int) bool { return out[i] < out[j] })
	return out
}

// deltasAt is the delta alphabet in a state with `pages` pages: {0,1,2,bound-cur,bound-cur+1,
// declaredMax-cur,declaredMax-cur+1,(refusal threshold-cur,+1),65535,65536,2^31,2^32-1}, de-duplicated, ascending.
func deltasAt(c Config, pages uint32) []uint32 {
	set := map[uint32]bool{0: true, 1: true, 2: true, 65535: true, 65536: true, 1 << 31: true, 1<<32 - 1: true}
	b := c.Bound()
	if b >= pages {
		set[b-pages] = true
		set[b-pages+1] = true
	}
	if c.HasMax && c.Max >= pages {
		set[c.Max-pages] = true
		set[c.Max-pages+1] = true
	}
	if r := c.RefusePages(); r != 0 && r >= pages && r <= maxPages {
		set[r-pages] = true
		set[r-pages+1] = true
	}
	var out []uint32
	for d := range set {
		out = append(out, d)
	}
	sort.Slice(out, func(i, j int) bool { return out[i] < out[j] })
	return out
}

// ---------------------------------------------------------------- reference model

// model is the integer reference: a page counter within [min, bound] plus the sparse set of non-zero bytes.
type model struct {
	pages   uint32
	bound   uint32
	content map[uint64]byte
}

func (m *model) size() uint64 { return uint64(m.pages) * pageSize }

// grow returns (previous size, ok) and applies the transition.
func (m *model) grow(delta uint32) (uint32, bool) {
	if uint64(m.pages)+uint64(delta) > uint64(m.bound) {
		return 0, false
	}
	p := m.pages
	m.pages += delta
	return p, true
}

func (m *model) inBounds(off, n uint64) bool { return off+n <= m.size() }

func (m *model) get(off uint64) byte { return m.content[off] }

func (m *model) set(off uint64, b byte) {
	if b == 0 {
		delete(m.content, off)
	} else {
		m.content[off] = b
	}
}

func (m *model) le(off, w uint64) uint64 {
	var v uint64
	for i := uint64(0); i < w; i++ {
		v |= uint64(m.get(off+i)) << (8 * i)
	}
	return v
}

func (m *model) putLE(off, w, v uint64) {
	for i := uint64(0); i < w; i++ {
		m.set(off+i, byte(v>>(8*i)))
	}
}

// zeroRange clears [off, off+n).
func (m *model) zeroRange(off, n uint64) {
	if n <= 64 {
		for i := uint64(0); i < n; i++ {
			delete(m.content, off+i)
		}
		return
	}
	for k := range m.content {
		if k >= off && k-off < n {
			delete(m.content, k)
		}
	}
}

func (m *model) sortedKeys() []uint64 {
	ks := make([]uint64, 0, len(m.content))
	for k := range m.content {
		ks = append(ks, k)
	}
	sort.Slice(ks, func(i, j int) bool { return ks[i] < ks[j] })
	return ks
}

// boundaryPages is the set K of page indexes whose boundaries carry markers / zero probes.
func boundaryPages(pages, prev uint32) []uint32 {
	set := map[uint32]bool{}
	add := func(k uint32) {
		if k <= pages {
			set[k] = true
		}
	}
	if pages < hugePages {
		for k := uint32(0); k <= pages; k++ {
			add(k)
		}
	} else {
		for _, k := range []uint32{0, 1, 2, 3, 4, 32767, 32768, 32769, 65534, 65535, 65536, prev, prev + 1, pages} {
			add(k)
		}
	}
	var out []uint32
	for k := range set {
		out = append(out, k)
	}
	sort.Slice(out, func(i, j int) bool { return out[i] < out[j] })
	return out
}

func sortedU64(set map[uint64]bool) []uint64 {
	out := make([]uint64, 0, len(set))
	for k := range set {
		out = append(out, k)
	}
	sort.Slice(out, func(i, j int) bool { return out[i] < out[j] })
	return out
}
