package main

import (
	"bytes"
	"fmt"
	"os"
	"os/exec"
	"path/filepath"
	"strings"
	"sync"
	"time"

	"github.com/tetratelabs/wazero/verif/fw"
)

// (5c) secondary monitor: wazevo has its own deterministic-compilation verifier (compiled out by a
// constant). The harness builds a second copy of itself with
//
//	set-const internal/engine/wazevo/wazevoapi/debug_options.go DeterministicCompilationVerifierEnabled true
//
// layered on top of the overlay this binary was built with (so patches under test are included),
// and lets that binary compile every corpus module: the verifier recompiles each module 5 times
// with the function order shuffled and exits the process with "BUG: Deterministic compilation
// failed" if any per-function intermediate result differs. The build runs in the background while
// the main enumeration runs. If the toolchain or the overlay is unavailable the monitor is
// reported as skipped (it is not part of the verdict's coverage counts).

type detvState struct {
	wg     sync.WaitGroup
	bin    string
	status string
	wall   float64
}

var detv detvState

func startDetVerifierBuild() {
	detv.wg.Add(1)
	go func() {
		defer detv.wg.Done()
		t0 := time.Now()
		defer func() { detv.wall = time.Since(t0).Seconds() }()
		if os.Getenv("VERIF_C13_NO_DETV") != "" {
			detv.status = "skipped: VERIF_C13_NO_DETV set"
			return
		}
		self, err := os.Executable()
		if err != nil {
			detv.status = "skipped: " + err.Error()
			return
		}
		dir, base := filepath.Dir(self), filepath.Base(self)
		ovl := filepath.Join(dir, "overlay-"+base+".json")
		gen := filepath.Join(dir, "overlaygen")
		for _, p := range []string{ovl, gen} {
			if _, err := os.Stat(p); err != nil {
				detv.status = "skipped: " + p + " not found"
				return
			}
		}
		goBin, err := exec.LookPath("go")
		if err != nil {
			detv.status = "skipped: go toolchain not in PATH"
			return
		}
		work := filepath.Join(scratchRoot, "detv")
		os.MkdirAll(work, 0o755)
		spec := filepath.Join(work, "spec")
		os.WriteFile(spec, []byte("set-const internal/engine/wazevo/wazevoapi/debug_options.go DeterministicCompilationVerifierEnabled true\n"), 0o644)
		root := filepath.Dir(dir) // /verif
		env := append(os.Environ(), "GOFLAGS=-mod=mod", "GOPROXY=off", "GOSUMDB=off", "GOTOOLCHAIN=local", "GOCACHE="+filepath.Join(root, ".gocache"), "CGO_ENABLED=0")
		var out, errb bytes.Buffer
		cmd := exec.Command(gen, "-base", ovl, spec, filepath.Join(work, "ovl"))
		cmd.Dir, cmd.Env, cmd.Stdout, cmd.Stderr = root, env, &out, &errb
		if err := cmd.Run(); err != nil {
			detv.status = "skipped: overlaygen: " + clip(errb.String(), 200)
			return
		}
		ovl2 := filepath.Join(work, "overlay.json")
		os.WriteFile(ovl2, out.Bytes(), 0o644)
		bin := filepath.Join(work, "c13-detv")
		errb.Reset()
		cmd = exec.Command(goBin, "build", "-tags", "verif", "-overlay", ovl2, "-o", bin, "./checks/c13")
		cmd.Dir, cmd.Env, cmd.Stderr = root, env, &errb
		if err := cmd.Run(); err != nil {
			detv.status = "skipped: build failed: " + clip(errb.String(), 300)
			return
		}
		detv.bin = bin
	}()
}

func detVerifierMonitor(run *fw.Run, plan *Plan) map[string]any {
	detv.wg.Wait()
	res := map[string]any{"build_wall_s": detv.wall}
	if detv.bin == "" {
		res["status"] = detv.status
		return res
	}
	planPath := filepath.Join(scratchRoot, "plan.gob")
	cmd := exec.Command(detv.bin, "quick")
	cmd.Env = append(os.Environ(), "VERIF_CHILD=1", "VERIF_CHILD_MODE=detv", "VERIF_C13_PLAN="+planPath, "VERIF_C13_SCRATCH="+scratchRoot)
	var out, errb bytes.Buffer
	cmd.Stdout, cmd.Stderr = &out, &errb
	err := cmd.Run()
	okN, sameN := 0, 0
	last := ""
	for _, l := range strings.Split(out.String(), "\n") {
		if strings.HasPrefix(l, "DETV-BEGIN ") {
			last = strings.TrimPrefix(l, "DETV-BEGIN ")
		}
		if strings.HasPrefix(l, "DETV-OK ") {
			okN++
			if strings.HasSuffix(l, " same-entry") {
				sameN++
			}
		}
	}
	res["modules_verified"] = okN
	res["entries_identical_to_normal_build"] = sameN
	switch {
	case err == nil && okN == len(plan.Mods):
		res["status"] = "passed: wazevo's verifier (5 recompilations per module, shuffled function order) found no difference"
	case strings.Contains(out.String(), "Deterministic compilation failed"):
		res["status"] = "FAILED on module " + last
		spec := modSpec{}
		for _, m := range plan.Mods {
			if m.Spec.Name == last {
				spec = m.Spec
			}
		}
		run.Violation("determinism:verifier-build:"+flavorOf(spec),
			fmt.Sprintf("%s: wazevo's deterministic-compilation verifier reports a difference between recompilations: %s", last, clip(out.String()[strings.Index(out.String(), "BUG:"):], 400)),
			map[string]any{"tier": run.Tier, "spec": spec, "case": Case{Kind: "det"}})
	default:
		res["status"] = fmt.Sprintf("inconclusive: verifier binary ended with %v after %d modules: %s", err, okN, clip(errb.String(), 300))
	}
	return res
}

func detVerifierChild() {
	p := readPlan(os.Getenv("VERIF_C13_PLAN"))
	for _, mi := range p.Mods {
		fmt.Printf("DETV-BEGIN %s\n", mi.Spec.Name)
		top := newTop()
		r := compileOn(top, mi, nil, nil)
		st := readState(subdirOf(top))
		os.RemoveAll(top)
		if r.Err != "" {
			fmt.Printf("DETV-ERR %s %s\n", mi.Spec.Name, r.Err)
			os.Exit(3)
		}
		same := "different-entry"
		if bytes.Equal(st[mi.Key], mi.Entry) {
			same = "same-entry"
		}
		fmt.Printf("DETV-OK %s %s\n", mi.Spec.Name, same)
	}
	os.Exit(0)
}
