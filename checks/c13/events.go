package main

import (
	"os"
	"path/filepath"
	"regexp"

	"github.com/tetratelabs/wazero/internal/verif/vos"
	"github.com/tetratelabs/wazero/verif/fw"
)

// (9) ENVIRONMENT EVENTS between two consecutive file operations of the add: something outside the
// process (a tmp cleaner, rm -rf of the cache directory, a directory swap) changes the cache
// directory while Add is running. The shim's Hook runs the event with the real os right before
// step k of the flow is performed, for every k of the miss flow and of the stale-replacement flow
// (both driven through the real Runtime.CompileModule):
//
//	rm-staging  remove every file in the entry directory that is not a final entry name
//	rm-dir      remove the entry directory recursively
//	fresh-dir   replace the entry directory by a fresh empty one
//
// quick: one event per run; thorough (or VERIF_C13_EVENTS2=1): additionally every ordered pair of
// events (k1,e1) <= (k2,e2) on the miss flow. Target class: error / retry paths of the write path
// that publish an incomplete entry (e.g. a retry that re-reads an already drained reader).
//
// Oracle: CompileModule may return an error (environment fault) but if it succeeds the module
// behaves like the uncached reference; before every later step and at the end no incomplete
// entry is visible under the final name; a fresh cache + runtime on what is left gets a correct
// hit or a miss (R2..R7), never a corrupt hit or a compile error.

var eventKinds = []string{"rm-staging", "rm-dir", "fresh-dir"}

func eventCases(p *Plan) []Case {
	two := p.Tier == "thorough" || os.Getenv("VERIF_C13_EVENTS2") != ""
	var cs []Case
	for mi, m := range p.Mods {
		if m.Spec.Only != "" {
			continue
		}
		for _, fl := range []struct {
			name string
			n    int
		}{{"miss", len(m.MissLog)}, {"stale", len(m.StaleLog)}} {
			for k := 0; k < fl.n; k++ {
				for _, e := range eventKinds {
					cs = append(cs, Case{Kind: "event", Mod: mi, Flow: fl.name, K: k, Event: e})
				}
			}
		}
		if two {
			n := len(m.MissLog)
			for k1 := 0; k1 < n; k1++ {
				for _, e1 := range eventKinds {
					for k2 := k1; k2 < n+2; k2++ { // the first event can lengthen the flow (retries)
						for _, e2 := range eventKinds {
							cs = append(cs, Case{Kind: "event", Mod: mi, Flow: "miss", K: k1, Event: e1, K2: k2 + 1, Event2: e2})
						}
					}
				}
			}
		}
	}
	return cs
}

func doEvent(mi *modInfo, sub, ev string, keys map[string]bool) {
	switch ev {
	case "rm-staging":
		es, _ := os.ReadDir(sub)
		for _, e := range es {
			if !keys[e.Name()] {
				os.Remove(filepath.Join(sub, e.Name()))
			}
		}
	case "rm-dir":
		os.RemoveAll(sub)
	case "fresh-dir":
		os.RemoveAll(sub)
		if err := os.Mkdir(sub, 0o700); err != nil {
			fw.Fatalf("event fresh-dir: %v", err)
		}
	default:
		fw.Fatalf("unknown event %q", ev)
	}
}

func runEvent(mi *modInfo, c Case) caseResult {
	files := map[string][]byte{}
	var alsoOK []byte
	if c.Flow == "stale" {
		files[mi.Key] = mi.Stale
		alsoOK = mi.Stale
	}
	top, sub := newTopWith(mi, files)
	defer os.RemoveAll(top)
	keys := map[string]bool{mi.Key: true}
	fired := 0
	atOp := "end"
	var badStep map[string][]byte
	r := compileOn(top, mi, nil, func(s *vos.Session) {
		s.Hook = func(idx int, op string) {
			if st := readState(sub); badStep == nil && len(visible("", "", mi, st, alsoOK)) > 0 {
				badStep = st
			}
			if idx == c.K {
				doEvent(mi, sub, c.Event, keys)
				fired++
				atOp = op
			}
			if c.Event2 != "" && idx == c.K2-1 {
				doEvent(mi, sub, c.Event2, keys)
				fired++
			}
		}
	})
	res := caseResult{Outcomes: map[string]int64{}, Evals: 2}
	phase := "event-" + c.Flow
	class := c.Event + "-before-" + atOp
	if c.Event2 != "" {
		class += "+" + c.Event2
	}
	if fired == 0 {
		res.Outcomes["event:position-not-reached"]++
	}
	var vs []viol
	if r.Err == "" {
		res.Outcomes["event:add-or-compile-succeeded"]++
		if r.Beh != mi.Ref {
			vs = append(vs, viol{phase + ":" + class + ":behaviour-differs-after-event", "CompileModule succeeded but the module behaves differently: " + firstDiff(mi.Ref, r.Beh)})
		}
	} else {
		res.Outcomes["event:reported: "+errClass(eventErr(r.Err))]++
	}
	st := readState(sub)
	vs = append(vs, visible(phase, class, mi, st, alsoOK)...)
	if len(vs) == 0 && badStep != nil {
		vs = append(vs, visible(phase, class+"-intermediate", mi, badStep, alsoOK)...)
	}
	o, v2 := recoverAndJudge(phase, class, mi, top, sub, alsoOK, false)
	res.Outcomes["event-then:"+o]++
	res.Viols = append(vs, v2...)
	return res
}

// eventErr strips the (temp) paths from an OS error so that outcome classes are stable.
var pathRE = regexp.MustCompile(`/[^\s:]+`)

func eventErr(e string) string { return pathRE.ReplaceAllString(e, "<path>") }
