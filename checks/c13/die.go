package main

import (
	"encoding/hex"
	"errors"
	"fmt"
	"os"
	"runtime"

	"github.com/tetratelabs/wazero/internal/filecache"
	"github.com/tetratelabs/wazero/internal/verif/vos"
	"github.com/tetratelabs/wazero/verif/fw"
)

// (7) the WRITER dies inside Add while the process lives on: the goroutine running fileCache.Add
// is unwound by a panic (recovered higher up — by the embedder or a recover around compilation)
// or terminated by runtime.Goexit, so Add's deferred functions run. That is a death point of the
// add operation too: whatever the deferred code does must not publish a half-written entry.
//
//	flow "add":     internal/filecache.Add driven directly with a content reader over the module's
//	                real entry that, after k bytes (k in {0, 1, len/2, len-1}, handed out in
//	                <= 4 KiB reads so that io.Copy performs several writes), (a) panics,
//	                (b) calls runtime.Goexit (Add runs in a dedicated goroutine), or (c) returns
//	                (n > 0, err) from the read that reaches k;
//	flow "compile": the real Runtime.CompileModule on an empty cache directory where the goroutine
//	                dies (panic / Goexit) inside step s of the add, for EVERY step of the miss flow
//	                (lookup, create, each of the 3 chunks of the copy — after half of the chunk —,
//	                sync, close, rename).
//
// The harness recovers the panic / waits for the goroutine, then R1 (final name absent or
// complete) is evaluated on the directory and the usual recovery oracle (R2..R7) runs.

var errInjectedRead = errors.New("injected read error")

type dyingReader struct {
	data []byte
	off  int
	k    int
	mode string
}

func (r *dyingReader) Read(p []byte) (int, error) {
	if r.off >= r.k && r.mode != "err" {
		if r.mode == "goexit" {
			runtime.Goexit()
		}
		panic(vos.Died{})
	}
	if r.k == 0 { // mode err
		return 0, errInjectedRead
	}
	if len(p) > 4096 {
		p = p[:4096]
	}
	n := copy(p, r.data[r.off:r.k])
	r.off += n
	if r.mode == "err" && r.off == r.k {
		return n, errInjectedRead // (n > 0, err): data and error in the same call
	}
	return n, nil
}

func dieKs(n int) []int {
	out := []int{}
	for _, k := range []int{0, 1, n / 2, n - 1} {
		dup := k < 0 || k >= n
		for _, o := range out {
			dup = dup || o == k
		}
		if !dup {
			out = append(out, k)
		}
	}
	return out
}

// splitLog expands every write of at least k bytes into k write steps (what Session.WriteSplit does).
func splitLog(log []vos.Step, k int) []vos.Step {
	var out []vos.Step
	for _, st := range log {
		if st.Op == "write" && st.N >= k {
			for i := 0; i < k; i++ {
				c := st
				c.N = st.N*(i+1)/k - st.N*i/k
				out = append(out, c)
			}
			continue
		}
		out = append(out, st)
	}
	return out
}

func dieCases(p *Plan) []Case {
	var cs []Case
	small, large := false, false
	for mi, m := range p.Mods {
		if m.Spec.Only != "" && m.Spec.Only != "die" {
			continue
		}
		n := len(m.Entry)
		small = small || (n <= 4096 && m.layout().NF > 0)
		large = large || n > 65536
		for _, mode := range []string{"panic", "goexit", "err"} {
			for _, k := range dieKs(n) {
				cs = append(cs, Case{Kind: "die", Mod: mi, Flow: "add", Errno: mode, L: k})
			}
		}
		for s := range splitLog(m.MissLog, 3) {
			for _, mode := range []string{"panic", "goexit"} {
				cs = append(cs, Case{Kind: "die", Mod: mi, Flow: "compile", Errno: mode, K: s})
			}
		}
	}
	if !small || !large {
		fw.Fatalf("die family: corpus lacks a small (<= 4 KiB) or a large (> 64 KiB) entry")
	}
	return cs
}

func runDie(mi *modInfo, c Case) caseResult {
	top, sub := newTopWith(mi, nil)
	defer os.RemoveAll(top)
	res := caseResult{Outcomes: map[string]int64{}, Evals: 1}
	phase := "die-" + c.Flow
	var class string
	died := "returned"
	// run f in a dedicated goroutine; report how it ended
	runIn := func(f func()) {
		done := make(chan string, 1)
		go func() {
			how := "goexit"
			defer func() {
				if r := recover(); r != nil {
					if _, ok := r.(vos.Died); !ok {
						panic(r) // not ours: a real bug, let it crash the child (reported by the supervisor)
					}
					how = "panic-recovered"
				}
				done <- how
			}()
			f()
			how = "returned"
		}()
		died = <-done
	}
	switch c.Flow {
	case "add":
		var key filecache.Key
		kb, err := hex.DecodeString(mi.Key)
		if err != nil || len(kb) != len(key) {
			fw.Fatalf("key %q: %v", mi.Key, err)
		}
		copy(key[:], kb)
		at := "mid"
		switch c.L {
		case 0:
			at = "0"
		case 1:
			at = "1"
		case len(mi.Entry) - 1:
			at = "len-1"
		}
		class = fmt.Sprintf("reader-%s-at-%s", c.Errno, at)
		s := vos.Begin(sub)
		var addErr error
		runIn(func() {
			addErr = filecache.New(sub).Add(key, &dyingReader{data: mi.Entry, k: c.L, mode: c.Errno})
		})
		s.End()
		if c.Errno == "err" {
			if died != "returned" {
				fw.Fatalf("die: Add did not return in err mode (%s)", died)
			}
			if addErr == nil {
				res.Outcomes["die:read-error-swallowed"]++
			} else {
				res.Outcomes["die:read-error-reported"]++
			}
		} else if died == "returned" {
			fw.Fatalf("die: the writer was expected to die inside Add (case %+v)", c)
		}
	case "compile":
		steps := splitLog(mi.MissLog, 3)
		op := "?"
		if c.K < len(steps) {
			op = steps[c.K].Op
		}
		class = fmt.Sprintf("%s-in-%s", c.Errno, op)
		var r compileResult
		runIn(func() {
			r = compileOn(top, mi, nil, func(s *vos.Session) { s.WriteSplit = 3; s.PanicAt = c.K; s.PanicMode = c.Errno })
		})
		// (compileOn's deferred Close / Session.End calls ran during the unwinding)
		if died == "returned" {
			res.Outcomes["die:step-not-reached"]++
		}
		_ = r
	}
	res.Outcomes["die:writer-"+died]++
	st := readState(sub)
	vs := visible(phase, class, mi, st, nil)
	left := 0
	for n := range st {
		if n != mi.Key {
			left++
		}
	}
	if left > 0 {
		res.Outcomes["die:temp-file-left-behind"]++
	}
	o, v2 := recoverAndJudge(phase, class, mi, top, sub, nil, false)
	res.Outcomes["die-then:"+o]++
	res.Evals++
	res.Viols = append(vs, v2...)
	return res
}
