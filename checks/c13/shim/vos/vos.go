//go:build verif

// Package vos is injected by the build overlay as
// github.com/tetratelabs/wazero/internal/verif/vos and substituted for "os" in
// internal/filecache/file_cache.go (checks/c13/overlay.spec).
//
// It forwards every call to the real os package (the file system is real, a temp directory),
// and, for paths below the directory of an active Session, additionally
//   - records a step log (open, create, write(n), read(n), sync, close, rename, remove, mkdir, stat),
//   - can "crash after step k": step k and everything after it is NOT performed (ErrCrashed),
//   - can make step k fail once with a chosen errno (optionally after a short write),
//   - makes CreateTemp names deterministic (lowest free counter, O_EXCL),
//   - can run several bodies as cooperative threads, every point-operation being a scheduling
//     point, so that the harness enumerates the interleavings of their steps.
//
// Without an active session covering the path it is a plain pass-through.
package vos

import (
	"errors"
	"io/fs"
	"os"
	"path/filepath"
	"runtime"
	"strconv"
	"strings"
	"sync"
	"syscall"
)

// ---- re-exports so that the rewritten file (and plausible edits of it) keep compiling

var (
	ErrNotExist   = os.ErrNotExist
	ErrExist      = os.ErrExist
	ErrPermission = os.ErrPermission
	ErrClosed     = os.ErrClosed
	ErrInvalid    = os.ErrInvalid
)

const (
	O_RDONLY = os.O_RDONLY
	O_WRONLY = os.O_WRONLY
	O_RDWR   = os.O_RDWR
	O_APPEND = os.O_APPEND
	O_CREATE = os.O_CREATE
	O_EXCL   = os.O_EXCL
	O_SYNC   = os.O_SYNC
	O_TRUNC  = os.O_TRUNC

	ModePerm = os.ModePerm
	ModeDir  = os.ModeDir

	PathSeparator = os.PathSeparator
)

type (
	FileMode  = os.FileMode
	FileInfo  = os.FileInfo
	PathError = os.PathError
	LinkError = os.LinkError
	DirEntry  = os.DirEntry
)

func IsNotExist(err error) bool   { return os.IsNotExist(err) }
func IsExist(err error) bool      { return os.IsExist(err) }
func IsPermission(err error) bool { return os.IsPermission(err) }
func Getpid() int                 { return os.Getpid() }
func TempDir() string             { return os.TempDir() }
func Getenv(k string) string      { return os.Getenv(k) }

// Died is the panic value of a goroutine killed at a step (Session.PanicAt).
type Died struct{}

// ErrCrashed is returned by every operation at and after the crash point.
var ErrCrashed = errors.New("vos: process crashed (simulated)")

// ---- sessions

// Step is one logged operation.
type Step struct {
	Idx     int    `json:"i"`
	Thread  int    `json:"t"`
	Op      string `json:"op"`
	Path    string `json:"path,omitempty"` // base name (relative to the session directory)
	Path2   string `json:"path2,omitempty"`
	N       int    `json:"n,omitempty"`    // bytes requested (write) / returned (read)
	File    int    `json:"file,omitempty"` // handle id for write/read/sync/close
	Mut     bool   `json:"mut,omitempty"`  // changes the file system
	Err     string `json:"err,omitempty"`
	Skipped bool   `json:"skipped,omitempty"` // not performed: at/after the crash point
	Faulted bool   `json:"faulted,omitempty"` // the injected fault hit this step
}

type Session struct {
	Dir string

	mu         sync.Mutex
	Log        []Step
	CrashAfter int // -1: never; k: steps with index >= k are not performed
	FailAt     int // -1: never; k: step k fails once
	FailErr    syscall.Errno
	FailShort  bool   // a failing write first writes half of its data
	PanicAt    int    // -1: never; k: the goroutine performing step k dies there (after half of the data for a write)
	PanicMode  string // "panic" (panic(Died{})) or "goexit" (runtime.Goexit)
	// Hook, if set, is called before every step is performed (idx = index the step will get). The
	// harness uses it for environment events between two steps and for per-step checks. Not used
	// together with RunThreads.
	Hook       func(idx int, op string)
	WriteSplit int // >1: a Write of at least that many bytes is performed as WriteSplit consecutive write steps
	Crashed    bool
	nextFile   int

	// PointOps selects which operations are scheduling points under RunThreads.
	PointOps map[string]bool
	sch      *sched
}

var (
	sessMu   sync.RWMutex
	sessions []*Session
)

// Begin activates a session for every path below dir.
func Begin(dir string) *Session {
	s := &Session{Dir: filepath.Clean(dir), CrashAfter: -1, FailAt: -1, PanicAt: -1}
	sessMu.Lock()
	sessions = append(sessions, s)
	sessMu.Unlock()
	return s
}

func (s *Session) End() {
	sessMu.Lock()
	for i, x := range sessions {
		if x == s {
			sessions = append(sessions[:i], sessions[i+1:]...)
			break
		}
	}
	sessMu.Unlock()
}

func (s *Session) Steps() []Step {
	s.mu.Lock()
	defer s.mu.Unlock()
	return append([]Step{}, s.Log...)
}

func find(path string) *Session {
	sessMu.RLock()
	defer sessMu.RUnlock()
	if len(sessions) == 0 {
		return nil
	}
	p := filepath.Clean(path)
	for _, s := range sessions {
		if strings.HasPrefix(p, s.Dir+string(filepath.Separator)) || p == s.Dir {
			return s
		}
	}
	return nil
}

func (s *Session) rel(p string) string {
	r, err := filepath.Rel(s.Dir, filepath.Clean(p))
	if err != nil {
		return p
	}
	return r
}

func errText(err error) string {
	if err == nil {
		return ""
	}
	var en syscall.Errno
	if errors.As(err, &en) {
		switch en {
		case syscall.ENOENT:
			return "ENOENT"
		case syscall.EEXIST:
			return "EEXIST"
		case syscall.ENOSPC:
			return "ENOSPC"
		case syscall.EIO:
			return "EIO"
		case syscall.EACCES:
			return "EACCES"
		case syscall.EINTR:
			return "EINTR"
		case syscall.ENOTEMPTY:
			return "ENOTEMPTY"
		}
		return "errno=" + strconv.Itoa(int(en))
	}
	if errors.Is(err, os.ErrClosed) {
		return "closed"
	}
	if err.Error() == "EOF" {
		return "EOF"
	}
	return "error"
}

// do runs one operation under the session's regime. perform returns (n, err); short, if non-nil,
// is what a failing write does before reporting the error.
func (s *Session) do(op, path, path2 string, n, file int, mut bool, perform func() (int, error), short func()) (int, error) {
	_, rn, err := s.doIdx(op, path, path2, n, file, mut, perform, short)
	return rn, err
}

// bind records the handle id (and the real name) in the step that opened/created the file.
func (s *Session) bind(idx int, f *File) {
	s.mu.Lock()
	s.Log[idx].File = f.id
	s.Log[idx].Path = f.rel
	s.mu.Unlock()
}

func (s *Session) doIdx(op, path, path2 string, n, file int, mut bool, perform func() (int, error), short func()) (int, int, error) {
	if s.sch != nil && s.PointOps[op] {
		s.sch.point()
	}
	if s.Hook != nil {
		s.mu.Lock()
		n := len(s.Log)
		s.mu.Unlock()
		s.Hook(n, op)
	}
	s.mu.Lock()
	idx := len(s.Log)
	st := Step{Idx: idx, Op: op, Path: path, Path2: path2, N: n, File: file, Mut: mut}
	if s.sch != nil && s.sch.cur != nil {
		st.Thread = s.sch.cur.id
	}
	if s.CrashAfter >= 0 && idx >= s.CrashAfter {
		s.Crashed = true
		st.Skipped = true
		s.Log = append(s.Log, st)
		s.mu.Unlock()
		return idx, 0, &os.PathError{Op: op, Path: path, Err: ErrCrashed}
	}
	if idx == s.PanicAt {
		// the goroutine dies inside this operation; the process lives on, so deferred functions of
		// the callers run and later steps are performed normally
		st.Faulted = true
		st.Err = "DIED-" + s.PanicMode
		s.Log = append(s.Log, st)
		s.mu.Unlock()
		if short != nil {
			short()
		}
		if s.PanicMode == "goexit" {
			runtime.Goexit()
		}
		panic(Died{})
	}
	if idx == s.FailAt {
		st.Faulted = true
		st.Err = errText(s.FailErr)
		s.Log = append(s.Log, st)
		s.mu.Unlock()
		if s.FailShort && short != nil {
			short()
		}
		return idx, 0, &os.PathError{Op: op, Path: path, Err: s.FailErr}
	}
	s.Log = append(s.Log, st)
	s.mu.Unlock()
	rn, err := perform()
	s.mu.Lock()
	if op == "read" {
		s.Log[idx].N = rn
	}
	s.Log[idx].Err = errText(err)
	s.mu.Unlock()
	return idx, rn, err
}

// ---- files

// File wraps *os.File. With a nil session it is a pass-through.
type File struct {
	f        *os.File
	s        *Session
	rel      string
	id       int
	writable bool
	closed   bool
}

func wrap(f *os.File, s *Session, rel string, writable bool) *File {
	if f == nil {
		return nil
	}
	w := &File{f: f, s: s, rel: rel, writable: writable}
	if s != nil {
		s.mu.Lock()
		s.nextFile++
		w.id = s.nextFile
		s.mu.Unlock()
	}
	return w
}

func (f *File) Name() string { return f.f.Name() }
func (f *File) Fd() uintptr  { return f.f.Fd() }

func (f *File) Stat() (FileInfo, error) { return f.f.Stat() }

func (f *File) Write(p []byte) (int, error) {
	if f.s == nil {
		return f.f.Write(p)
	}
	if k := f.s.WriteSplit; k > 1 && len(p) >= k {
		// the copy loop of a large entry: several write calls, each a step (and a scheduling point).
		// The chunks alias the caller's buffer, exactly like consecutive writes of one io.Copy.
		total := 0
		for i := 0; i < k; i++ {
			lo, hi := len(p)*i/k, len(p)*(i+1)/k
			n, err := f.write1(p[lo:hi])
			total += n
			if err != nil {
				return total, err
			}
		}
		return total, nil
	}
	return f.write1(p)
}

func (f *File) write1(p []byte) (int, error) {
	return f.s.do("write", f.rel, "", len(p), f.id, true,
		func() (int, error) { return f.f.Write(p) },
		func() { f.f.Write(p[:len(p)/2]) })
}

func (f *File) WriteString(s string) (int, error) { return f.Write([]byte(s)) }

func (f *File) Read(p []byte) (int, error) {
	if f.s == nil {
		return f.f.Read(p)
	}
	return f.s.do("read", f.rel, "", len(p), f.id, false, func() (int, error) { return f.f.Read(p) }, nil)
}

func (f *File) Seek(off int64, whence int) (int64, error) { return f.f.Seek(off, whence) }

func (f *File) Sync() error {
	if f.s == nil {
		return f.f.Sync()
	}
	_, err := f.s.do("sync", f.rel, "", 0, f.id, true, func() (int, error) { return 0, f.f.Sync() }, nil)
	return err
}

func (f *File) Truncate(size int64) error {
	if f.s == nil {
		return f.f.Truncate(size)
	}
	_, err := f.s.do("truncate", f.rel, "", int(size), f.id, true, func() (int, error) { return 0, f.f.Truncate(size) }, nil)
	return err
}

func (f *File) Chmod(m FileMode) error { return f.f.Chmod(m) }

func (f *File) Close() error {
	if f.s == nil || f.closed {
		// a second Close of the same handle is not a system call (os.File reports ErrClosed)
		return f.f.Close()
	}
	f.closed = true
	op := "close"
	if !f.writable {
		op = "rclose"
	}
	_, err := f.s.do(op, f.rel, "", 0, f.id, f.writable, func() (int, error) { return 0, f.f.Close() }, nil)
	if errors.Is(err, ErrCrashed) || f.s.FailAt >= 0 {
		// the descriptor itself must not leak in the harness process
		f.f.Close()
	}
	return err
}

// ---- package-level functions

func Open(name string) (*File, error) {
	s := find(name)
	if s == nil {
		f, err := os.Open(name)
		return wrap(f, nil, "", false), err
	}
	var f *os.File
	idx, _, err := s.doIdx("open", s.rel(name), "", 0, 0, false, func() (int, error) {
		var e error
		f, e = os.Open(name)
		return 0, e
	}, nil)
	if err != nil {
		return nil, err
	}
	w := wrap(f, s, s.rel(name), false)
	s.bind(idx, w)
	return w, nil
}

func Create(name string) (*File, error) {
	return OpenFile(name, O_RDWR|O_CREATE|O_TRUNC, 0o666)
}

func OpenFile(name string, flag int, perm FileMode) (*File, error) {
	s := find(name)
	writable := flag&(O_WRONLY|O_RDWR|O_APPEND|O_CREATE|O_TRUNC) != 0
	if s == nil {
		f, err := os.OpenFile(name, flag, perm)
		return wrap(f, nil, "", writable), err
	}
	op := "open"
	if flag&(O_CREATE|O_TRUNC) != 0 {
		op = "create" // creates and/or truncates: a directory/metadata change
	} else if writable {
		op = "wopen"
	}
	var f *os.File
	idx, _, err := s.doIdx(op, s.rel(name), "", 0, 0, op == "create", func() (int, error) {
		var e error
		f, e = os.OpenFile(name, flag, perm)
		return 0, e
	}, nil)
	if err != nil {
		return nil, err
	}
	w := wrap(f, s, s.rel(name), writable)
	s.bind(idx, w)
	return w, nil
}

// CreateTemp is os.CreateTemp with deterministic names inside a session: the "*" is replaced by
// the lowest counter whose name is free (O_EXCL), so colliding writers exercise the retry path
// and the harness owns the temp names.
func CreateTemp(dir, pattern string) (*File, error) {
	if dir == "" {
		dir = os.TempDir()
	}
	s := find(filepath.Join(dir, "x"))
	if s == nil {
		f, err := os.CreateTemp(dir, pattern)
		return wrap(f, nil, "", true), err
	}
	prefix, suffix := pattern, ""
	if i := strings.LastIndexByte(pattern, '*'); i >= 0 {
		prefix, suffix = pattern[:i], pattern[i+1:]
	}
	var f *os.File
	var name string
	idx, _, err := s.doIdx("create", s.rel(filepath.Join(dir, prefix+"#"+suffix)), "", 0, 0, true, func() (int, error) {
		for n := 0; n < 10000; n++ {
			name = filepath.Join(dir, prefix+strconv.Itoa(n)+suffix)
			var e error
			f, e = os.OpenFile(name, O_RDWR|O_CREATE|O_EXCL, 0o600)
			if e == nil {
				return 0, nil
			}
			if !os.IsExist(e) {
				return 0, e
			}
		}
		return 0, &os.PathError{Op: "createtemp", Path: dir, Err: syscall.EEXIST}
	}, nil)
	if err != nil {
		return nil, err
	}
	w := wrap(f, s, s.rel(name), true) // bind patches the logged path with the real name
	s.bind(idx, w)
	return w, nil
}

func Remove(name string) error {
	s := find(name)
	if s == nil {
		return os.Remove(name)
	}
	_, err := s.do("remove", s.rel(name), "", 0, 0, true, func() (int, error) { return 0, os.Remove(name) }, nil)
	return err
}

func RemoveAll(name string) error {
	s := find(name)
	if s == nil {
		return os.RemoveAll(name)
	}
	_, err := s.do("remove", s.rel(name), "", 0, 0, true, func() (int, error) { return 0, os.RemoveAll(name) }, nil)
	return err
}

func Rename(oldpath, newpath string) error {
	s := find(newpath)
	if s == nil {
		return os.Rename(oldpath, newpath)
	}
	_, err := s.do("rename", s.rel(oldpath), s.rel(newpath), 0, 0, true, func() (int, error) { return 0, os.Rename(oldpath, newpath) }, nil)
	return err
}

func Mkdir(name string, perm FileMode) error {
	s := find(name)
	if s == nil {
		return os.Mkdir(name, perm)
	}
	_, err := s.do("mkdir", s.rel(name), "", 0, 0, true, func() (int, error) { return 0, os.Mkdir(name, perm) }, nil)
	return err
}

func MkdirAll(name string, perm FileMode) error {
	s := find(name)
	if s == nil {
		return os.MkdirAll(name, perm)
	}
	_, err := s.do("mkdir", s.rel(name), "", 0, 0, true, func() (int, error) { return 0, os.MkdirAll(name, perm) }, nil)
	return err
}

func Stat(name string) (FileInfo, error) {
	s := find(name)
	if s == nil {
		return os.Stat(name)
	}
	var fi FileInfo
	_, err := s.do("stat", s.rel(name), "", 0, 0, false, func() (int, error) {
		var e error
		fi, e = os.Stat(name)
		return 0, e
	}, nil)
	return fi, err
}

func Lstat(name string) (FileInfo, error) { return Stat(name) }

func ReadDir(name string) ([]DirEntry, error) { return os.ReadDir(name) }

// ReadFile = open + read-all + close (logged as such).
func ReadFile(name string) ([]byte, error) {
	f, err := Open(name)
	if err != nil {
		return nil, err
	}
	defer f.Close()
	var out []byte
	buf := make([]byte, 1<<16)
	for {
		n, err := f.Read(buf)
		out = append(out, buf[:n]...)
		if err != nil {
			if err.Error() == "EOF" {
				return out, nil
			}
			return out, err
		}
	}
}

// WriteFile = create/truncate + write + close (logged as such; note: no sync).
func WriteFile(name string, data []byte, perm FileMode) error {
	f, err := OpenFile(name, O_WRONLY|O_CREATE|O_TRUNC, perm)
	if err != nil {
		return err
	}
	_, err = f.Write(data)
	if err1 := f.Close(); err1 != nil && err == nil {
		err = err1
	}
	return err
}

var _ fs.FileInfo = FileInfo(nil)

// ---- cooperative threads

type thr struct {
	id   int
	wake chan struct{}
	done bool
}

type sched struct {
	threads  []*thr
	cur      *thr
	mainWake chan struct{}
}

func (sc *sched) point() {
	t := sc.cur
	sc.mainWake <- struct{}{}
	<-t.wake
}

// RunThreads runs bodies as cooperative threads: exactly one runs at a time and control returns
// to the caller's loop before every point-operation (s.PointOps). choose(pos, enabled) returns the
// id of the thread that performs step pos (must be one of enabled; enabled = threads that have a
// pending point-operation); between(pos) is called with all threads stopped, before step pos and
// once after the last one. Code of a body before its first point-operation and after its last
// one runs without interleaving (it performs no operations of the session that are points).
// Returns the panic values of bodies (nil entries when none).
func (s *Session) RunThreads(bodies []func(), choose func(pos int, enabled []int) int, between func(pos int)) []any {
	sc := &sched{mainWake: make(chan struct{})}
	panics := make([]any, len(bodies))
	for i := range bodies {
		sc.threads = append(sc.threads, &thr{id: i, wake: make(chan struct{})})
	}
	s.sch = sc
	defer func() { s.sch = nil }()
	for i, b := range bodies {
		t, b, i := sc.threads[i], b, i
		go func() {
			<-t.wake
			defer func() {
				if r := recover(); r != nil {
					panics[i] = r
				}
				t.done = true
				sc.mainWake <- struct{}{}
			}()
			b()
		}()
	}
	// pre-roll: advance every thread to its first point
	for _, t := range sc.threads {
		sc.cur = t
		t.wake <- struct{}{}
		<-sc.mainWake
	}
	pos := 0
	for {
		var enabled []int
		for _, t := range sc.threads {
			if !t.done {
				enabled = append(enabled, t.id)
			}
		}
		if between != nil {
			between(pos)
		}
		if len(enabled) == 0 {
			break
		}
		c := choose(pos, enabled)
		t := sc.threads[c]
		if t.done {
			panic("vos: chosen thread is not enabled")
		}
		sc.cur = t
		t.wake <- struct{}{}
		<-sc.mainWake
		pos++
	}
	sc.cur = nil
	return panics
}
