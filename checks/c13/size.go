package main

import (
	"bytes"
	"encoding/binary"
	"encoding/hex"
	"fmt"
	"hash/crc32"
	"io"
	"os"
	"path/filepath"
	"sort"

	"github.com/tetratelabs/wazero/internal/filecache"
	"github.com/tetratelabs/wazero/internal/verif/vos"
	"github.com/tetratelabs/wazero/verif/fw"
)

// (10) the SIZE of the entry as a dimension. Families 1-9 use the entries of the corpus modules
// (30 B ... 97 KiB); nothing there depends on how large an entry is, so a size-dependent defect of
// the add / lookup path (a cap on the copied bytes, a fixed-size staging buffer, an off-by-one at a
// buffer or chunk boundary, a 32-bit length, a reader that stops at a block boundary, a replacement
// that does not shrink the old file) is invisible to them. This family enumerates boundary sizes
//
//	quick:    0 and 2^k-1, 2^k, 2^k+1 for k = 0..25 (1 B ... 32 MiB + 1)
//	thorough: additionally k = 26, 27 (128 MiB + 1) and 3*2^k-1, 3*2^k, 3*2^k+1 for k = 9..24
//
// on two flows, both through the real internal/filecache Add / Get (under the vos shim, every
// file operation a logged step with the R1 check before each of them):
//
//	flow "add":  a synthetic content of that size (position-dependent pattern with the prime period
//	             65521, so that a dropped, repeated or shifted block is a byte difference) is added
//	             with every reader SHAPE in {writerto: bytes.Reader as the engine uses, one Write;
//	             plain: Read only, full buffers, io.Copy's 32 KiB rounds; dribble: at most 4093
//	             bytes per Read; eof-with-data: the last Read returns (n > 0, io.EOF)} x every PRIOR
//	             state of the final name in {absent, a shorter entry (n/2 bytes), a longer entry
//	             (n + 4097 bytes)} (sizes > 1 MiB + 1: the prior variants with the writerto shape
//	             only). Then Get through the same and through a fresh cache object ("a later
//	             process") must return exactly the n bytes; if Add refuses (error) the final name
//	             must still hold what it held before.
//	flow "load": the complete entry of a real module (the smallest module with code, and the DWARF
//	             module whose source map FOLLOWS the code) padded inside the checksummed code region
//	             to a total length of 2^k-1, 2^k, 2^k+1 for k in {12, 16, 20, 22, 23, 24, 25} (thorough:
//	             + 26, 27): a complete valid entry of that size (length field and CRC recomputed,
//	             function offsets unchanged, the padding is never executed). It is added through
//	             filecache.Add (shapes writerto, plain) under the module's key; then a fresh cache
//	             object + fresh runtime must load it: R1 on the directory, CompileModule must not
//	             fail on this intact cache, behaviour equals the uncached reference.
//
//	flow "engine": real modules of the mem flavour with 3400 / 13500 / 56000 (thorough: + 110000)
//	             functions, whose REAL serialized entries are > 1, > 4, > 16 (> 32) MiB: a first process
//	             compiles through an empty directory (real serialize + Add), the final name must then
//	             hold a self-consistent complete entry (judged without a reference entry: offsets per
//	             function, code length vs file length, CRC, flag), a later process must take a hit on
//	             it without error and behave like the uncached reference on every export.
//
// Memory: one content buffer of at most the size (writerto shape) per worker; the other shapes and
// all comparisons stream through 64 KiB buffers.

const patPeriod = 65521

func patTable(seed uint32) []byte {
	t := make([]byte, patPeriod)
	x := seed*2654435761 + 12345
	for i := range t {
		x = x*1664525 + 1013904223
		t[i] = byte(x >> 24)
	}
	return t
}

// patReader delivers n bytes of the pattern; max bounds the bytes per Read (0: fill the buffer);
// eofWithData makes the last Read return (n > 0, io.EOF).
type patReader struct {
	tab         []byte
	n, off, max int
	eofWithData bool
}

func (r *patReader) Read(p []byte) (int, error) {
	if r.off >= r.n {
		return 0, io.EOF
	}
	if r.max > 0 && len(p) > r.max {
		p = p[:r.max]
	}
	if len(p) > r.n-r.off {
		p = p[:r.n-r.off]
	}
	for i := 0; i < len(p); {
		c := copy(p[i:], r.tab[(r.off+i)%patPeriod:])
		i += c
	}
	r.off += len(p)
	if r.eofWithData && r.off == r.n {
		return len(p), io.EOF
	}
	return len(p), nil
}

func patBytes(tab []byte, n int) []byte {
	b, err := io.ReadAll(&patReader{tab: tab, n: n})
	if err != nil || len(b) != n {
		fw.Fatalf("pattern: %v", err)
	}
	return b
}

// sameAsStream compares everything r delivers with what want delivers: "" if identical, otherwise a
// description of the first difference.
func sameAsStream(r io.Reader, want io.Reader, wantLen int) string {
	a, b := make([]byte, 64<<10), make([]byte, 64<<10)
	total := 0
	for {
		n, err := io.ReadFull(r, a)
		m, _ := io.ReadFull(want, b[:n])
		if m < n {
			rest, _ := io.Copy(io.Discard, r)
			return fmt.Sprintf("holds %d bytes, more than the %d added", total+n+int(rest), wantLen)
		}
		if !bytes.Equal(a[:n], b[:n]) {
			for i := 0; i < n; i++ {
				if a[i] != b[i] {
					return fmt.Sprintf("differs from the added content at byte %d", total+i)
				}
			}
		}
		total += n
		if err == io.EOF || err == io.ErrUnexpectedEOF {
			break
		}
		if err != nil {
			return "read error: " + err.Error()
		}
	}
	if total != wantLen {
		return fmt.Sprintf("holds only the first %d of the %d bytes added", total, wantLen)
	}
	return ""
}

func sizeAlphabet(thorough bool) []int {
	set := map[int]bool{0: true}
	maxK := 25
	if thorough {
		maxK = 27
	}
	for k := 0; k <= maxK; k++ {
		for d := -1; d <= 1; d++ {
			set[1<<k+d] = true
		}
	}
	if thorough {
		for k := 9; k <= 24; k++ {
			for d := -1; d <= 1; d++ {
				set[3<<k+d] = true
			}
		}
	}
	var out []int
	for n := range set {
		out = append(out, n)
	}
	sort.Ints(out)
	return out
}

var sizeShapes = []string{"writerto", "plain", "dribble", "eof-with-data"}
var sizePriors = []string{"absent", "shorter", "longer"}

const sizePriorAllShapesMax = 1<<20 + 1

func loadTotals(thorough bool) []int {
	ks := []int{12, 16, 20, 22, 23, 24, 25}
	if thorough {
		ks = append(ks, 26, 27)
	}
	var out []int
	for _, k := range ks {
		out = append(out, 1<<k-1, 1<<k, 1<<k+1)
	}
	return out
}

func sizeCases(p *Plan) []Case {
	thorough := p.Tier == "thorough"
	var cs []Case
	for _, n := range sizeAlphabet(thorough) {
		for _, sh := range sizeShapes {
			for _, pr := range sizePriors {
				if pr != "absent" && n > sizePriorAllShapesMax && sh != "writerto" {
					continue
				}
				cs = append(cs, Case{Kind: "size", Mod: 0, Flow: "add", L: n, Shape: sh, Prior: pr})
			}
		}
	}
	// load flow: the smallest module with code and the first module with a source map
	code, smap := -1, -1
	for i, m := range p.Mods {
		if m.Spec.Only != "" {
			continue
		}
		l := m.layout()
		if code < 0 && l.NF > 0 && l.Len == l.CodeEnd+5 {
			code = i
		}
		if smap < 0 && l.Len > l.CodeEnd+5 {
			smap = i
		}
	}
	if code < 0 || smap < 0 {
		fw.Fatalf("size family: corpus lacks a module with code or a module with a source map")
	}
	for _, mi := range []int{code, smap} {
		for _, total := range loadTotals(thorough) {
			if total <= p.Mods[mi].layout().Len {
				continue
			}
			for _, sh := range []string{"writerto", "plain"} {
				cs = append(cs, Case{Kind: "size", Mod: mi, Flow: "load", L: total, Shape: sh, Prior: "absent"})
			}
		}
	}
	// engine flow: real modules whose serialized entries are that large; the slowest cases, first in the plan
	var eng []Case
	for _, nf := range engineFuncs(thorough) {
		eng = append(eng, Case{Kind: "size", Mod: 0, Flow: "engine", K: nf, Shape: "engine", Prior: "absent"})
	}
	sort.SliceStable(eng, func(i, j int) bool { return eng[i].K > eng[j].K })
	// largest first: the supervisor hands cases out in order, the big ones must not form the tail
	sort.SliceStable(cs, func(i, j int) bool { return cs[i].L > cs[j].L })
	return append(eng, cs...)
}

// sizeName names a size by its relation to the nearest boundary: "2^24+1", "3*2^10-1", "0".
func sizeName(n int) string {
	if n == 0 {
		return "0"
	}
	for _, d := range []int{0, 1, -1} {
		m := n - d
		for _, f := range []int{1, 3} {
			if m > 0 && m%f == 0 {
				q := m / f
				if q&(q-1) == 0 {
					k := 0
					for 1<<k < q {
						k++
					}
					s := fmt.Sprintf("2^%d", k)
					if f == 3 {
						s = "3*" + s
					}
					if d > 0 {
						s += "+1"
					} else if d < 0 {
						s += "-1"
					}
					return s
				}
			}
		}
	}
	return fmt.Sprint(n)
}

// sizeBucket is the coarse part of the signature (the exact size is in the message and the replay).
func sizeBucket(n int) string {
	switch {
	case n <= 32<<10:
		return "le-32KiB"
	case n <= 1<<20:
		return "le-1MiB"
	case n <= 16<<20:
		return "le-16MiB"
	}
	return "gt-16MiB"
}

// paddedEntry returns a complete valid entry of exactly total bytes: the module's entry with the code
// region extended by pattern bytes (never executed: the function offsets are unchanged), code length
// and checksum recomputed.
func paddedEntry(mi *modInfo, total int) []byte {
	lay := mi.layout()
	pad := total - lay.Len
	if pad <= 0 || lay.CodeEnd == lay.CodeStart {
		fw.Fatalf("paddedEntry(%s, %d): nothing to pad", mi.Spec.Name, total)
	}
	out := make([]byte, 0, total)
	out = append(out, mi.Entry[:lay.OffEnd]...)
	out = binary.LittleEndian.AppendUint64(out, uint64(lay.CodeEnd-lay.CodeStart+pad))
	cs := len(out)
	out = append(out, mi.Entry[lay.CodeStart:lay.CodeEnd]...)
	out = append(out, patBytes(patTable(uint32(total)), pad)...)
	out = binary.LittleEndian.AppendUint32(out, crc32.Checksum(out[cs:], crc32.MakeTable(crc32.Castagnoli)))
	out = append(out, mi.Entry[lay.CodeEnd+4:]...)
	if len(out) != total {
		fw.Fatalf("paddedEntry: %d != %d", len(out), total)
	}
	return out
}

// engineFuncs: numbers of functions of the mem flavour (~325 B of entry per function) whose REAL
// serialized entries cross 1, 4 and 16 MiB (thorough: 32 MiB); the size is measured, not assumed.
func engineFuncs(thorough bool) []int {
	if thorough {
		return []int{3400, 13500, 56000, 110000}
	}
	return []int{3400, 13500, 56000}
}

var engineMinEntry = map[int]int{3400: 1 << 20, 13500: 4 << 20, 56000: 16 << 20, 110000: 32 << 20}

// runSizeEngine: the embedder path with a module whose real entry is that large. A first process
// compiles it through an empty cache directory (the real serialize + Add); what is then visible under
// the final name must be a complete entry judged WITHOUT a reference entry (a reference produced by
// the same Add would share its defect): header, one offset per function, code length consistent with
// the file length, checksum of the code, flag byte. A later process must load it: no error on this
// untouched cache, a hit, behaviour of every export equal to the uncached reference.
func runSizeEngine(c Case) caseResult {
	res := caseResult{Outcomes: map[string]int64{}, Evals: 1}
	sp := modSpec{Name: fmt.Sprintf("mem-%d", c.K), N: c.K, Flavor: flMem, Only: "size"}
	mi := &modInfo{Spec: sp, Wasm: build(sp, 0)}
	mi.Ref = uncachedBehaviour(mi, mi.Wasm)
	top := newTop()
	defer os.RemoveAll(top)
	bucket := fmt.Sprintf("%d-functions", c.K)
	bad := func(fail, what string) {
		res.Viols = append(res.Viols, viol{"size-engine:" + bucket + ":" + fail, fmt.Sprintf("module %s (%d functions, wasm %d bytes): %s", sp.Name, c.K, len(mi.Wasm), what)})
	}
	r1 := compileOn(top, mi, nil, nil)
	st := readState(subdirOf(top))
	var name string
	var e []byte
	for n, b := range st {
		if len(b) >= len(e) {
			name, e = n, b
		}
	}
	res.Extra = map[string]int64{"size_engine_entry_bytes_total": 0}
	if r1.Err != "" {
		bad("compile-error-on-clean-cache", "CompileModule through an empty cache directory failed: "+r1.Err)
		return res
	}
	if r1.Beh != mi.Ref {
		bad("behaviour-differs-from-uncached", "compiled through an empty cache directory: "+firstDiff(mi.Ref, r1.Beh))
	}
	if len(st) != 1 {
		bad("unexpected-files-after-compile", fmt.Sprintf("%d files in the entry directory after one CompileModule", len(st)))
		return res
	}
	if len(e) <= engineMinEntry[c.K] {
		// not a verdict about wazero: the module no longer produces an entry of the intended class
		res.Outcomes["size-engine:entry-smaller-than-intended-class"]++
	}
	mi.Key, mi.Entry = name, e
	l, err := parseEntry(e)
	switch {
	case err != nil:
		bad("incomplete-entry-under-final-name", fmt.Sprintf("after a successful CompileModule the final name holds %d bytes that are not a complete entry: %v", len(e), err))
	case l.NF != c.K || l.Len != l.CodeEnd+5:
		bad("incomplete-entry-under-final-name", fmt.Sprintf("after a successful CompileModule the final name holds %d bytes: %d function offsets, code ends at %d", len(e), l.NF, l.CodeEnd))
	case binary.LittleEndian.Uint32(e[l.CodeEnd:]) != crc32.Checksum(e[l.CodeStart:l.CodeEnd], crc32.MakeTable(crc32.Castagnoli)):
		bad("incomplete-entry-under-final-name", fmt.Sprintf("after a successful CompileModule the entry of %d bytes has a wrong checksum", len(e)))
	}
	res.Outcomes["size-engine:first-process-"+map[bool]string{true: "stored-complete", false: "VIOLATION"}[len(res.Viols) == 0]]++
	// a later process
	r2 := compileOn(top, mi, nil, nil)
	res.Evals++
	hit := true
	for _, op := range r2.Ops {
		if op.Op == "create" || op.Op == "rename" {
			hit = false
		}
	}
	after := readState(subdirOf(top))
	switch {
	case r2.Err != "":
		res.Outcomes["size-engine-then:error"]++
		bad("compile-error-in-later-process", fmt.Sprintf("a later process on the untouched directory (entry %d bytes, %s): CompileModule failed: %s", len(e), sizeName(len(e)), r2.Err))
	case r2.Beh != mi.Ref:
		res.Outcomes["size-engine-then:behaviour-differs"]++
		bad("behaviour-differs-in-later-process", firstDiff(mi.Ref, r2.Beh))
	case hit && len(after) == 1 && bytes.Equal(after[name], e):
		res.Outcomes["size-engine-then:hit-complete-entry"]++
	case hit:
		res.Outcomes["size-engine-then:hit-but-directory-changed"]++
		bad("final-name-changed-by-a-hit", fmt.Sprintf("a cache hit changed the entry directory: %d files", len(after)))
	default:
		res.Outcomes["size-engine-then:compiled-afresh"]++
		if len(res.Viols) == 0 {
			bad("complete-entry-not-used", "the first process stored a complete entry, the later process compiled afresh")
		}
	}
	res.Extra["size_engine_entry_bytes_total"] = int64(len(e))
	return res
}

func runSize(mi *modInfo, c Case) caseResult {
	if c.Flow == "engine" {
		return runSizeEngine(c)
	}
	res := caseResult{Outcomes: map[string]int64{}, Evals: 1}
	n := c.L
	phase := "size-" + c.Flow
	class := fmt.Sprintf("%s:%s-prior-%s", sizeBucket(n), c.Shape, c.Prior)
	bad := func(fail, what string) {
		res.Viols = append(res.Viols, viol{phase + ":" + class + ":" + fail,
			fmt.Sprintf("entry of %d bytes (%s), reader shape %s, final name before the add: %s: %s", n, sizeName(n), c.Shape, c.Prior, what)})
	}

	// content (as a factory of fresh readers, so that every comparison streams it again)
	var whole []byte
	tab := patTable(uint32(n) ^ 0x5bd1e995)
	var key filecache.Key
	if c.Flow == "load" {
		whole = paddedEntry(mi, n)
		kb, err := hex.DecodeString(mi.Key)
		if err != nil || len(kb) != len(key) {
			fw.Fatalf("key %q: %v", mi.Key, err)
		}
		copy(key[:], kb)
	} else {
		key = filecache.Key{byte(n), byte(n >> 8), byte(n >> 16), byte(n >> 24), 0xc1, 0x3a}
		if c.Shape == "writerto" {
			whole = patBytes(tab, n)
		}
	}
	fresh := func() io.Reader {
		if whole != nil {
			return bytes.NewReader(whole)
		}
		return &patReader{tab: tab, n: n}
	}
	var content io.Reader
	switch c.Shape {
	case "writerto":
		content = bytes.NewReader(whole) // what the engine passes: io.Copy uses WriteTo, one Write
	case "plain", "dribble", "eof-with-data":
		pr := &patReader{tab: tab, n: n, eofWithData: c.Shape == "eof-with-data"}
		if c.Shape == "dribble" {
			pr.max = 4093
		}
		content = pr
		if whole != nil { // load flow: the padded entry through a reader without WriteTo
			content = struct{ io.Reader }{bytes.NewReader(whole)}
		}
	default:
		fw.Fatalf("size: unknown shape %q", c.Shape)
	}

	top, sub := newTopWith(mi, nil)
	defer os.RemoveAll(top)
	final := filepath.Join(sub, hex.EncodeToString(key[:]))
	priorLen := -1
	ptab := patTable(uint32(n) + 77)
	switch c.Prior {
	case "shorter":
		priorLen = n / 2
	case "longer":
		priorLen = n + 4097
	}
	if priorLen >= 0 {
		f, err := os.Create(final)
		if err == nil {
			_, err = io.Copy(f, &patReader{tab: ptab, n: priorLen})
			f.Close()
		}
		if err != nil {
			fw.Fatalf("size: writing the prior entry: %v", err)
		}
	}
	// R1 cheaply before every step: the final name is absent, or has the prior's or the new length
	// (the bytes are compared at the end; before the rename nothing may have changed at all)
	s := vos.Begin(sub)
	stepViol := ""
	s.Hook = func(idx int, op string) {
		if stepViol != "" {
			return
		}
		fi, err := os.Stat(final)
		switch {
		case err != nil && priorLen >= 0:
			stepViol = fmt.Sprintf("before step %d (%s) the previous entry has disappeared and nothing replaces it yet", idx, op)
		case err == nil && priorLen < 0 && int(fi.Size()) != n:
			stepViol = fmt.Sprintf("before step %d (%s) the final name is visible with %d bytes", idx, op, fi.Size())
		case err == nil && priorLen >= 0 && int(fi.Size()) != n && int(fi.Size()) != priorLen:
			stepViol = fmt.Sprintf("before step %d (%s) the final name holds %d bytes: neither the previous entry (%d) nor the new one", idx, op, fi.Size(), priorLen)
		}
	}
	addErr := filecache.New(sub).Add(key, content)
	s.Hook = nil
	steps := s.Steps()
	s.End()
	res.Extra = map[string]int64{"size_add_steps": int64(len(steps)), "size_bytes_added": int64(n)}
	if stepViol != "" {
		bad("incomplete-entry-under-final-name", stepViol)
	}

	// what is visible under the final name now, read with the real os
	check := func(open func() (io.ReadCloser, bool, error), who string) {
		r, ok, err := open()
		if err != nil {
			bad("lookup-error-after-add", who+": "+err.Error())
			return
		}
		if addErr != nil {
			// the add was refused: the final name must hold what it held before
			if !ok {
				if priorLen >= 0 {
					bad("refused-add-destroyed-previous-entry", who+": Add failed with "+addErr.Error()+" and the previous entry is gone")
				}
				return
			}
			defer r.Close()
			if priorLen < 0 {
				bad("incomplete-entry-under-final-name", who+": Add failed with "+addErr.Error()+" but an entry is visible")
			} else if d := sameAsStream(r, &patReader{tab: ptab, n: priorLen}, priorLen); d != "" {
				bad("incomplete-entry-under-final-name", who+": Add failed with "+addErr.Error()+" and the final name "+d+" (compared with the previous entry)")
			}
			return
		}
		if !ok {
			bad("added-entry-not-found", who+": Add returned nil but the entry does not exist")
			return
		}
		defer r.Close()
		if d := sameAsStream(r, fresh(), n); d != "" {
			bad("incomplete-entry-under-final-name", who+": Add returned nil and the final name "+d)
		}
	}
	check(func() (io.ReadCloser, bool, error) {
		f, err := os.Open(final)
		if os.IsNotExist(err) {
			return nil, false, nil
		}
		return f, err == nil, err
	}, "file")
	if len(res.Viols) == 0 {
		// Get of a fresh cache object (a later process), under the shim: its reads are steps too
		s2 := vos.Begin(sub)
		check(func() (io.ReadCloser, bool, error) { return filecache.New(sub).Get(key) }, "Get")
		s2.End()
	}
	// nothing but the final name may be left (a refused or successful add cleans its staging file)
	if es, err := os.ReadDir(sub); err == nil {
		for _, e := range es {
			if e.Name() != filepath.Base(final) {
				res.Outcomes["size:staging-file-left-behind"]++
			}
		}
	}
	switch {
	case addErr != nil:
		res.Outcomes["size-"+c.Flow+":add-refused"]++
	case len(res.Viols) > 0:
		res.Outcomes["size-"+c.Flow+":VIOLATION"]++
	default:
		res.Outcomes["size-"+c.Flow+":stored-complete"]++
	}
	if c.Flow != "load" || addErr != nil || len(res.Viols) > 0 {
		return res
	}

	// load flow: a later process (fresh cache object + runtime) uses the complete large entry
	r := compileOn(top, mi, nil, nil)
	res.Evals++
	hit := true
	for _, op := range r.Ops {
		if op.Op == "create" || op.Op == "rename" {
			hit = false
		}
	}
	switch {
	case r.Err != "":
		res.Outcomes["size-load-then:error"]++
		bad("compile-error-on-complete-entry", "the directory holds exactly the complete valid entry, CompileModule failed: "+r.Err)
	case r.Beh != mi.Ref:
		res.Outcomes["size-load-then:behaviour-differs"]++
		bad("behaviour-differs-after-load", "module loaded from the complete entry behaves differently from the uncached one: "+firstDiff(mi.Ref, r.Beh))
	case hit:
		res.Outcomes["size-load-then:hit-complete-entry"]++
	default:
		res.Outcomes["size-load-then:discarded-compiled-afresh"]++
	}
	return res
}
