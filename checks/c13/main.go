// C13 — the on-disk compilation cache is deterministic and crash-safe.
//
// Fault enumeration on the real code: the build overlay substitutes a forwarding shim (vos) for
// "os" in internal/filecache/file_cache.go. The shim performs the real syscalls in a real temp
// directory, records a step log, and can stop performing steps after step k ("crash"), make step
// k fail once, and run several Add calls as cooperative threads whose steps are interleaved by
// the harness. For every module of a wb-built corpus the harness enumerates
//
//	(1) every crash point of the cache-miss flow and of the stale-entry-replacement flow x every
//	    torn length of every file with un-synced data at that point,
//	(2) every truncation length of a valid entry under its final name, zero-filled tails in the
//	    checksummed region, and every foreign-version variant (with the real body and with the
//	    compiled code of a salted twin module, so that executing it is observable),
//	(3) all step-level interleavings of 2/3 writers of one key (plus a reader),
//	(4) every step of the miss / stale / hit flows failing once with ENOSPC / EIO,
//	(5) determinism of the entry: 5 in-process compilations, 3 separate processes,
//	(6) all merges of the cache operations of two threads compiling two DIFFERENT modules in one
//	    process on one runtime and directory (xmod.go): every final name must hold the entry its
//	    module produces when compiled alone,
//	(7) the writer goroutine dies inside Add (panic / runtime.Goexit / read error after k bytes of the
//	    content; inside every step under CompileModule) while the process lives on (die.go),
//	(8) all interleavings of two concurrent CompileModule calls (same key on two runtimes / on one
//	    runtime; two different keys) switching at every file-cache operation (adders.go),
//	(9) environment events (staging file / entry directory removed or replaced) between any two
//	    steps of the add (events.go),
//	(10) the size of the entry: boundary sizes 2^k-1, 2^k, 2^k+1 up to 32 MiB (thorough 128 MiB) x
//	    content-reader shape x previous state of the final name through the real filecache Add/Get,
//	    and complete valid entries of those sizes loaded by a fresh runtime (size.go).
//
// After every state a recovery runs in a supervised child: fresh cache object + fresh runtime on
// that directory, CompileModule, instantiate, call every export, compare with the uncached
// reference; see judge() for the oracle.
package main

import (
	"bytes"
	"context"
	"crypto/sha256"
	"encoding/gob"
	"encoding/hex"
	"encoding/json"
	"fmt"
	"os"
	"os/signal"
	"path/filepath"
	"regexp"
	"runtime"
	"sort"
	"strings"
	"sync"
	"syscall"
	"time"

	"github.com/tetratelabs/wazero"
	"github.com/tetratelabs/wazero/api"
	"github.com/tetratelabs/wazero/imports/wasi_snapshot_preview1"
	"github.com/tetratelabs/wazero/internal/verif/vos"
	"github.com/tetratelabs/wazero/verif/fw"
)

var ctx = context.Background()

// caseTimeout is the watchdog for one case in a child. A case takes milliseconds (the largest,
// one interleaving shard, a few seconds) when the property holds; only executing a damaged entry
// can hang. Generous because the machine may be heavily loaded.
const caseTimeout = 5 * time.Minute

// ---------------------------------------------------------------- entry layout

type layout struct {
	Version                                  string
	Hdr, OffEnd, CodeStart, CodeEnd, Len, NF int
}

var magic = []byte("WAZEVO")

func parseEntry(e []byte) (l layout, err error) {
	if len(e) < 11 || !bytes.Equal(e[:6], magic) {
		return l, fmt.Errorf("no magic")
	}
	vl := int(e[6])
	if 7+vl+4 > len(e) {
		return l, fmt.Errorf("short header")
	}
	l.Version = string(e[7 : 7+vl])
	l.Hdr = 7 + vl + 4
	l.NF = int(uint32(e[l.Hdr-4]) | uint32(e[l.Hdr-3])<<8 | uint32(e[l.Hdr-2])<<16 | uint32(e[l.Hdr-1])<<24)
	l.OffEnd = l.Hdr + 8*l.NF
	if l.OffEnd+8 > len(e) {
		return l, fmt.Errorf("short offsets")
	}
	var cl uint64
	for i := 7; i >= 0; i-- {
		cl = cl<<8 | uint64(e[l.OffEnd+i])
	}
	l.CodeStart = l.OffEnd + 8
	l.CodeEnd = l.CodeStart + int(cl)
	l.Len = len(e)
	if l.CodeEnd+5 > len(e) {
		return l, fmt.Errorf("short code")
	}
	return l, nil
}

// lengthGrid returns the enumerated lengths in [lo, hi): all of them when the span is at most
// allMax, otherwise every length in the fixed header, around every field boundary and in the
// trailer, plus a 64-byte grid (dense=true: additionally every length of the offset table).
func lengthGrid(lo, hi int, lay *layout, allMax int, dense bool) []int {
	var out []int
	if hi-lo <= allMax {
		for l := lo; l < hi; l++ {
			out = append(out, l)
		}
		return out
	}
	set := map[int]bool{}
	add := func(a, b int) {
		for l := a; l <= b; l++ {
			if l >= lo && l < hi {
				set[l] = true
			}
		}
	}
	for l := lo - lo%64; l < hi; l += 64 {
		add(l, l)
	}
	add(lo, lo+1)
	add(hi-16, hi-1)
	if lay != nil && lo == 0 && hi >= lay.Len-1 {
		add(0, lay.Hdr+1)
		add(lay.OffEnd-9, lay.CodeStart+1)
		add(lay.CodeEnd-1, lay.CodeEnd+40)
		if dense {
			add(0, lay.CodeStart+16)
			add(lay.CodeEnd-16, lay.CodeEnd+256)
		}
	}
	for l := range set {
		out = append(out, l)
	}
	sort.Ints(out)
	return out
}

// ---------------------------------------------------------------- modules

type modInfo struct {
	Spec       modSpec
	Wasm       []byte
	DecoyWasm  []byte
	Entry      []byte // E: the complete entry
	DecoyEntry []byte
	Key        string // file name of the entry
	Sub        string // name of the version-specific subdirectory
	Ref        string // behaviour of the uncached module
	DecoyRef   string
	MissLog    []vos.Step
	StaleLog   []vos.Step
	HitLog     []vos.Step
	Stale      []byte // F0 used by the stale flow
	lay        layout
}

func (m *modInfo) layout() *layout {
	if m.lay.Len == 0 {
		l, err := parseEntry(m.Entry)
		if err != nil {
			fw.Fatalf("%s: cannot parse own entry: %v", m.Spec.Name, err)
		}
		m.lay = l
	}
	return &m.lay
}

var argsI32 = []uint64{0, 2, 7, 0xffffffff}
var argsI64 = []uint64{0, 2, 7, 1<<63 | 5}

// behaviour instantiates the compiled module and calls every exported function with fixed
// arguments; the text is compared between the uncached reference and every recovery.
func behaviour(rt wazero.Runtime, cm wazero.CompiledModule, dwarf bool) string {
	var sb strings.Builder
	var stdout, stderr bytes.Buffer
	cfg := wazero.NewModuleConfig().WithName("").WithStartFunctions().WithStdout(&stdout).WithStderr(&stderr)
	mod, err := rt.InstantiateModule(ctx, cm, cfg)
	if err != nil {
		return "instantiate: " + err.Error()
	}
	defer mod.Close(ctx)
	defs := cm.ExportedFunctions()
	names := make([]string, 0, len(defs))
	for n := range defs {
		names = append(names, n)
	}
	sort.Slice(names, func(i, j int) bool {
		if len(names[i]) != len(names[j]) {
			return len(names[i]) < len(names[j])
		}
		return names[i] < names[j]
	})
	for _, n := range names {
		def := defs[n]
		rounds := len(argsI32)
		if len(def.ParamTypes()) == 0 || dwarf {
			rounds = 1
		}
		for r := 0; r < rounds; r++ {
			var args []uint64
			for _, t := range def.ParamTypes() {
				switch t {
				case api.ValueTypeI32:
					args = append(args, argsI32[r])
				case api.ValueTypeI64:
					args = append(args, argsI64[r])
				default:
					args = append(args, 0x3ff8000000000000)
				}
			}
			f := mod.ExportedFunction(n)
			if f == nil {
				fmt.Fprintf(&sb, "%s: missing\n", n)
				continue
			}
			res, err := f.Call(ctx, args...)
			if err != nil {
				fmt.Fprintf(&sb, "%s(%x)!%s\n", n, args, err.Error())
			} else {
				fmt.Fprintf(&sb, "%s(%x)=%x\n", n, args, res)
			}
		}
	}
	if stdout.Len()+stderr.Len() > 0 {
		fmt.Fprintf(&sb, "stdout=%q stderr=%q\n", stdout.String(), stderr.String())
	}
	return sb.String()
}

// compileResult is what one CompileModule (+ execution) on a cache directory produced.
type compileResult struct {
	Err     string
	Beh     string
	Ops     []vos.Step
	Crashed bool
}

// compileOn runs the full embedder path on cache directory top: new cache object, new runtime,
// CompileModule, and (on success) instantiation + calls. conf configures the vos session
// (crash point / fault). wasm == nil uses the module's own binary.
func compileOn(top string, mi *modInfo, wasm []byte, conf func(*vos.Session)) (r compileResult) {
	if wasm == nil {
		wasm = mi.Wasm
	}
	cache, err := wazero.NewCompilationCacheWithDir(top)
	if err != nil {
		fw.Fatalf("NewCompilationCacheWithDir(%s): %v", top, err)
	}
	sub := subdirOf(top)
	s := vos.Begin(sub)
	if conf != nil {
		conf(s)
	}
	defer s.End()
	rt := wazero.NewRuntimeWithConfig(ctx, wazero.NewRuntimeConfigCompiler().WithCompilationCache(cache))
	defer cache.Close(ctx)
	defer rt.Close(ctx)
	dwarf := mi.Spec.Dwarf != ""
	if dwarf {
		if _, err := wasi_snapshot_preview1.Instantiate(ctx, rt); err != nil {
			fw.Fatalf("wasi: %v", err)
		}
	}
	cm, err := rt.CompileModule(ctx, wasm)
	if err != nil {
		r.Err = err.Error()
	} else {
		r.Beh = behaviour(rt, cm, dwarf)
	}
	r.Ops = s.Steps()
	r.Crashed = s.Crashed
	return
}

func uncachedBehaviour(mi *modInfo, wasm []byte) string {
	rt := wazero.NewRuntimeWithConfig(ctx, wazero.NewRuntimeConfigCompiler())
	defer rt.Close(ctx)
	dwarf := mi.Spec.Dwarf != ""
	if dwarf {
		if _, err := wasi_snapshot_preview1.Instantiate(ctx, rt); err != nil {
			fw.Fatalf("wasi: %v", err)
		}
	}
	cm, err := rt.CompileModule(ctx, wasm)
	if err != nil {
		fw.Fatalf("%s: corpus module rejected: %v", mi.Spec.Name, err)
	}
	return behaviour(rt, cm, dwarf)
}

// ---------------------------------------------------------------- directories (real os)

var scratchRoot string

func newTop() string {
	d, err := os.MkdirTemp(scratchRoot, "t")
	if err != nil {
		fw.Fatalf("mkdtemp: %v", err)
	}
	return d
}

func subdirOf(top string) string {
	es, err := os.ReadDir(top)
	if err != nil {
		fw.Fatalf("readdir: %v", err)
	}
	for _, e := range es {
		if e.IsDir() && strings.HasPrefix(e.Name(), "wazero-") {
			return filepath.Join(top, e.Name())
		}
	}
	fw.Fatalf("no version directory in %s", top)
	return ""
}

// newTopWith creates a cache directory whose entry directory holds exactly the given files.
func newTopWith(mi *modInfo, files map[string][]byte) (top, sub string) {
	top = newTop()
	sub = filepath.Join(top, mi.Sub)
	if err := os.Mkdir(sub, 0o700); err != nil {
		fw.Fatalf("mkdir: %v", err)
	}
	for n, b := range files {
		if err := os.WriteFile(filepath.Join(sub, n), b, 0o600); err != nil {
			fw.Fatalf("write: %v", err)
		}
	}
	return
}

func readState(sub string) map[string][]byte {
	out := map[string][]byte{}
	es, err := os.ReadDir(sub)
	if os.IsNotExist(err) {
		return out // the entry directory itself is gone (environment events): no file is visible
	}
	if err != nil {
		fw.Fatalf("readdir: %v", err)
	}
	for _, e := range es {
		b, err := os.ReadFile(filepath.Join(sub, e.Name()))
		if err != nil {
			fw.Fatalf("read: %v", err)
		}
		out[e.Name()] = b
	}
	return out
}

func describeState(st map[string][]byte, mi *modInfo) string {
	var names []string
	for n := range st {
		names = append(names, n)
	}
	sort.Strings(names)
	var parts []string
	for _, n := range names {
		short := strings.Replace(n, mi.Key, "<key>", 1)
		what := fmt.Sprintf("%dB", len(st[n]))
		if bytes.Equal(st[n], mi.Entry) {
			what = "complete"
		} else if bytes.HasPrefix(mi.Entry, st[n]) {
			what = fmt.Sprintf("prefix %d/%d", len(st[n]), len(mi.Entry))
		}
		parts = append(parts, short+"="+what)
	}
	return "{" + strings.Join(parts, " ") + "}"
}

// ---------------------------------------------------------------- the recovery oracle

type viol struct {
	Sig  string `json:"sig"`
	What string `json:"what"`
}

var digits = regexp.MustCompile(`[0-9]+`)

func errClass(e string) string {
	if i := strings.Index(e, "compilationcache:"); i >= 0 {
		e = e[i:]
	}
	e = digits.ReplaceAllString(e, "N")
	if len(e) > 70 {
		e = e[:70]
	}
	return e
}

// judge evaluates one recovery. before = entry-directory content the recovering process found.
//
//	R2  no file other than the final name is opened (no temp file is read as an entry)
//	R3  CompileModule succeeded => behaviour equals the uncached reference
//	R4  final name held something other than the complete entry and CompileModule succeeded =>
//	    the module was compiled afresh and re-added (a damaged/stale entry is never a cache hit)
//	R5  CompileModule failed => the final name held a damaged/stale entry ("reported")
//	R7  CompileModule succeeded => afterwards the final name holds exactly the complete entry
func judge(phase, class string, mi *modInfo, before map[string][]byte, r compileResult, after map[string][]byte) (outcome string, vs []viol) {
	F, present := before[mi.Key]
	complete := present && bytes.Equal(F, mi.Entry)
	add := func(fail, what string) {
		vs = append(vs, viol{phase + ":" + class + ":" + fail, what})
	}
	readded := false
	for _, op := range r.Ops {
		if (op.Op == "open" || op.Op == "wopen") && op.Path != mi.Key {
			add("temp-file-read-as-entry", fmt.Sprintf("recovery opened %q, which is not the entry's final name", op.Path))
		}
		if op.Op == "rename" && op.Path2 == mi.Key && op.Err == "" && !op.Skipped {
			readded = true
		}
		if op.Op == "create" && op.Path == mi.Key && op.Err == "" {
			readded = true // (a writer that creates the final name directly)
		}
	}
	state := describeState(before, mi)
	if r.Err != "" {
		if !present || complete {
			add("compile-error-on-clean-cache", fmt.Sprintf("directory %s; CompileModule failed: %s", state, r.Err))
			return "error-on-clean", vs
		}
		return "reported: " + errClass(r.Err), vs
	}
	switch {
	case complete:
		outcome = "hit-complete-entry"
	case !present:
		outcome = "miss-compiled-afresh"
		if !readded {
			outcome = "miss-not-persisted"
		}
	default:
		outcome = "damaged-discarded-compiled-afresh"
		if !readded {
			outcome = "damaged-accepted"
			add("damaged-entry-accepted", fmt.Sprintf("directory %s; CompileModule succeeded without compiling afresh (cache hit on an entry that is not the complete one)", state))
		}
	}
	if r.Beh != mi.Ref {
		fail := "behaviour-differs-after-recovery"
		if present && !complete {
			fail = "damaged-entry-executed"
		}
		add(fail, fmt.Sprintf("directory %s; module from this cache behaves differently from the uncached one: %s", state, firstDiff(mi.Ref, r.Beh)))
	}
	if A, ok := after[mi.Key]; (ok && !bytes.Equal(A, mi.Entry)) || (!ok && readded) {
		add("final-name-incomplete-after-recovery", fmt.Sprintf("directory %s; after a successful CompileModule the final name holds %s", state, describeState(after, mi)))
	}
	return outcome, vs
}

func firstDiff(a, b string) string {
	la, lb := strings.Split(a, "\n"), strings.Split(b, "\n")
	for i := range la {
		if i >= len(lb) || la[i] != lb[i] {
			g := "<missing>"
			if i < len(lb) {
				g = lb[i]
			}
			return fmt.Sprintf("want %q got %q", clip(la[i], 160), clip(g, 160))
		}
	}
	return fmt.Sprintf("got %d extra lines", len(lb)-len(la))
}

func clip(s string, n int) string {
	if len(s) > n {
		return s[:n] + "..."
	}
	return s
}

// visible checks R1 on a directory state that a crash / fault / interleaving produced: the
// final name either does not exist or holds exactly the complete entry (or the initial stale one).
func visible(phase, class string, mi *modInfo, st map[string][]byte, alsoOK []byte) []viol {
	F, ok := st[mi.Key]
	if !ok || bytes.Equal(F, mi.Entry) || (alsoOK != nil && bytes.Equal(F, alsoOK)) {
		return nil
	}
	return []viol{{phase + ":" + class + ":incomplete-entry-under-final-name",
		fmt.Sprintf("directory %s: the final name is visible but does not hold the complete entry", describeState(st, mi))}}
}

// recoverAndJudge = R1..R7 on the directory top/sub as it is now.
func recoverAndJudge(phase, class string, mi *modInfo, top, sub string, alsoOK []byte, checkVisible bool) (string, []viol) {
	before := readState(sub)
	var vs []viol
	if checkVisible {
		vs = visible(phase, class, mi, before, alsoOK)
	}
	r := compileOn(top, mi, nil, nil)
	after := readState(sub)
	o, v2 := judge(phase, class, mi, before, r, after)
	return o, append(vs, v2...)
}

// ---------------------------------------------------------------- step-log analysis (torn writes)

type tornVariant struct {
	Ref string // structural reference, see unsyncedFile
	L   int
}

// unsyncedFile is a file that holds un-synced data at some point of a step log. Ref identifies it
// STRUCTURALLY — "created#n" = the file made by the n-th create step of the log, "initial:<name>" = a
// file that was there before — so that a case can name it independently of the staging-file name,
// which may differ between the enumerating process and the child (random / pid-derived names).
type unsyncedFile struct {
	Ref  string
	Name string // name it is linked under at that point, in THIS log
	Span [2]int // [synced, cur)
}

// unsynced replays log[0:k) on a model of (name -> inode{synced,cur}) and returns every linked file
// that has un-synced data at that point, in creation order.
func unsynced(initial map[string]int, log []vos.Step, k int) []unsyncedFile {
	type inode struct {
		synced, cur int
		ref         string
		order       int
	}
	names := map[string]*inode{}
	var inits []string
	for n := range initial {
		inits = append(inits, n)
	}
	sort.Strings(inits)
	for i, n := range inits {
		names[n] = &inode{synced: initial[n], cur: initial[n], ref: "initial:" + n, order: i - len(inits)}
	}
	handles := map[int]*inode{}
	creates := 0
	for i := 0; i < k && i < len(log); i++ {
		st := log[i]
		if st.Op == "create" && !st.Skipped && st.Err == "" {
			creates++
		}
		if st.Skipped || st.Err != "" {
			if !(st.Faulted && st.Op == "write") {
				continue
			}
		}
		switch st.Op {
		case "create":
			ino := names[st.Path]
			if ino == nil {
				ino = &inode{ref: fmt.Sprintf("created#%d", creates), order: creates}
				names[st.Path] = ino
			} else {
				ino.cur, ino.synced = 0, 0
			}
			handles[st.File] = ino
		case "open", "wopen":
			handles[st.File] = names[st.Path]
		case "write":
			if ino := handles[st.File]; ino != nil {
				if st.Faulted {
					ino.cur += st.N / 2 // short write (only when FailShort; harmless over-approximation otherwise)
				} else {
					ino.cur += st.N
				}
			}
		case "truncate":
			if ino := handles[st.File]; ino != nil {
				ino.cur = st.N
				if ino.synced > st.N {
					ino.synced = st.N
				}
			}
		case "sync":
			if ino := handles[st.File]; ino != nil {
				ino.synced = ino.cur
			}
		case "rename":
			if ino := names[st.Path]; ino != nil {
				names[st.Path2] = ino
				delete(names, st.Path)
			}
		case "remove":
			delete(names, st.Path)
		}
	}
	var out []unsyncedFile
	var order []int
	for n, ino := range names {
		if ino.cur > ino.synced {
			out = append(out, unsyncedFile{ino.ref, n, [2]int{ino.synced, ino.cur}})
			order = append(order, ino.order)
		}
	}
	sort.Slice(out, func(i, j int) bool { return out[i].Ref < out[j].Ref })
	return out
}

func tornVariants(mi *modInfo, initial map[string]int, log []vos.Step, k int, allMax int) []tornVariant {
	var out []tornVariant
	for _, u := range unsynced(initial, log, k) {
		sp := u.Span
		var lay *layout
		if sp[0] == 0 && sp[1] == len(mi.Entry) {
			lay = mi.layout()
		}
		for _, l := range lengthGrid(sp[0], sp[1], lay, allMax, false) {
			out = append(out, tornVariant{u.Ref, l})
		}
	}
	return out
}

// crashPoints: k = 0 and every k such that step k-1 changed the file system (a crash after a
// read-only step leaves the same directory as a crash before it).
func crashPoints(log []vos.Step) []int {
	ks := []int{0}
	for i, st := range log {
		if st.Mut {
			ks = append(ks, i+1)
		}
	}
	return ks
}

// ---------------------------------------------------------------- cases

type Case struct {
	Kind   string `json:"kind"`
	Mod    int    `json:"mod"`
	Flow   string `json:"flow,omitempty"`
	K      int    `json:"k,omitempty"`
	Torn   string `json:"torn,omitempty"` // structural reference of the torn file ("created#n" / "initial:<name>")
	L      int    `json:"l,omitempty"`
	Ver    string `json:"ver,omitempty"`
	Body   string `json:"body,omitempty"`
	Errno  string `json:"errno,omitempty"`
	Conf   string `json:"conf,omitempty"`
	Shard  []int  `json:"shard,omitempty"`
	Rep    int    `json:"rep,omitempty"`
	Mods   []int  `json:"mods,omitempty"`  // xmod: one module per thread
	Event  string `json:"event,omitempty"` // event: environment event before step K
	K2     int    `json:"k2,omitempty"`    // event: 1 + position of the second event (thorough)
	Event2 string `json:"event2,omitempty"`
	Shape  string `json:"shape,omitempty"` // size: how the content reader hands out the bytes
	Prior  string `json:"prior,omitempty"` // size: what the final name holds before the add
}

type caseResult struct {
	Outcomes map[string]int64 `json:"o"`
	Viols    []viol           `json:"v,omitempty"`
	Evals    int64            `json:"n"`
	Extra    map[string]int64 `json:"x,omitempty"`
	Sum      string           `json:"sum,omitempty"`
}

type Plan struct {
	Tier  string
	Mods  []*modInfo
	Cases []Case
}

func versionVariants(v string) [][2]string {
	last := byte('x')
	if len(v) > 0 && v[len(v)-1] == 'x' {
		last = 'y'
	}
	same := "?"
	if len(v) > 0 {
		same = v[:len(v)-1] + string(last)
	}
	pre := ""
	if len(v) > 0 {
		pre = v[:len(v)-1]
	}
	return [][2]string{
		{"shorter", "1.0"},
		{"longer", "9" + v + "-longer-than-current"},
		{"same-length-different", same},
		{"prefix-of-current", pre},
		{"current-as-prefix", v + "x"},
		{"empty", ""},
		{"len255-claimed", "\xff"},                // length byte 255, nothing else changed
		{"len255-real", strings.Repeat("v", 255)}, // a real 255-byte version
	}
}

// foreignEntry builds an entry whose version field is variant ver and whose body (everything
// after the version) is taken from body (an entry written by the current version).
func foreignEntry(cur string, ver [2]string, body []byte) []byte {
	rest := body[7+len(cur):]
	out := append([]byte{}, magic...)
	if ver[0] == "len255-claimed" {
		out = append(out, 255)
		out = append(out, cur...)
	} else {
		out = append(out, byte(len(ver[1])))
		out = append(out, ver[1]...)
	}
	return append(out, rest...)
}

func staleEntry(mi *modInfo) []byte {
	body := mi.DecoyEntry
	if body == nil {
		body = mi.Entry
	}
	vv := versionVariants(mi.layout().Version)
	return foreignEntry(mi.layout().Version, vv[2], body)
}

func genCases(p *Plan) []Case {
	thorough := p.Tier == "thorough"
	var cs []Case
	for mi, m := range p.Mods {
		if m.Spec.Only != "" {
			continue // used by one family only (see dieCases)
		}
		lay := m.layout()
		// (5) determinism in 3 separate processes
		for r := 0; r < 3; r++ {
			cs = append(cs, Case{Kind: "det", Mod: mi, Rep: r})
		}
		// controls
		cs = append(cs, Case{Kind: "control", Mod: mi, Flow: "absent"}, Case{Kind: "control", Mod: mi, Flow: "intact"})
		// (1) crash points x torn lengths, miss flow and stale-replacement flow
		for _, fl := range []struct {
			name   string
			log    []vos.Step
			init   map[string]int
			allMax int
		}{
			{"miss", m.MissLog, nil, 4096},
			// in the stale flow the old entry is removed before the temp file is created, so its torn
			// states are the same directories as in the miss flow: boundaries + 64-byte grid only
			{"stale", m.StaleLog, map[string]int{m.Key: len(m.Stale)}, 256},
		} {
			for _, k := range crashPoints(fl.log) {
				cs = append(cs, Case{Kind: "crash", Mod: mi, Flow: fl.name, K: k})
				for _, tv := range tornVariants(m, fl.init, fl.log, k, fl.allMax) {
					cs = append(cs, Case{Kind: "crash", Mod: mi, Flow: fl.name, K: k, Torn: tv.Ref, L: tv.L})
				}
			}
		}
		// (2) truncation lengths, zero-filled tails, version variants
		for _, l := range lengthGrid(0, lay.Len, lay, 8192, true) {
			cs = append(cs, Case{Kind: "trunc", Mod: mi, L: l})
		}
		step := 64
		if lay.CodeEnd-lay.CodeStart <= 2048 || thorough {
			step = 16
		}
		for l := lay.CodeStart; l < lay.CodeEnd+4; l += step {
			cs = append(cs, Case{Kind: "hole", Mod: mi, L: l})
		}
		for _, vv := range versionVariants(lay.Version) {
			cs = append(cs, Case{Kind: "ver", Mod: mi, Ver: vv[0], Body: "real"})
			if m.DecoyEntry != nil {
				cs = append(cs, Case{Kind: "ver", Mod: mi, Ver: vv[0], Body: "decoy"})
			}
		}
		// (4) each step failing once
		for _, fl := range []struct {
			name string
			log  []vos.Step
		}{{"miss", m.MissLog}, {"stale", m.StaleLog}, {"hit", m.HitLog}} {
			for k, st := range fl.log {
				// every step of the flows that contain an Add: the full errno set; the loader's reads
				// and read-handle closes (dominant in the hit flow): EIO
				errnos := []string{"ENOENT", "EEXIST", "EIO", "ENOSPC", "EACCES", "EINTR"}
				if st.Op == "write" {
					errnos = append(errnos, "ENOSPC-short")
				}
				if st.Op == "read" || st.Op == "rclose" {
					errnos = []string{"EIO"}
				}
				for _, e := range errnos {
					cs = append(cs, Case{Kind: "fault", Mod: mi, Flow: fl.name, K: k, Errno: e})
				}
			}
		}
	}
	// (3) concurrent writers (smallest module, and in thorough also a mid-sized one)
	concMods := []int{0}
	if thorough {
		general := 0
		for _, m := range p.Mods {
			if m.Spec.Only == "" {
				general++
			}
		}
		concMods = append(concMods, general/2)
	}
	for n, mi := range concMods {
		confs := []string{"w2-states", "w2-reader", "w3-coarse"}
		if thorough && n == 0 {
			confs = append(confs, "w3-reader-coarse", "w3-full")
		}
		for _, cf := range confs {
			nt := confThreads(cf)
			depth := 3 // shard = first `depth` scheduling choices; keeps one case at seconds at most
			switch cf {
			case "w3-full":
				depth = 7
			case "w3-reader-coarse":
				depth = 5
			}
			for _, sh := range shardPrefixes(nt, depth) {
				cs = append(cs, Case{Kind: "conc", Mod: mi, Conf: cf, Shard: sh})
			}
		}
	}
	// (6) different modules compiled concurrently in one process against one directory; first in the
	// plan so that this verdict is reached before the stop-after-20-violations rule can cut the run
	cs = append(xmodCases(p), cs...)
	// (8) two concurrent adders (CompileModule level, all file-cache operations are switch points); also first
	cs = append(addersCases(p), cs...)
	// (7) the writer goroutine dies (panic / Goexit / read error) inside Add, the process lives on
	cs = append(cs, dieCases(p)...)
	// (9) environment events between two steps of the add
	cs = append(cs, eventCases(p)...)
	// (10) the size of the entry as a dimension (boundary sizes up to tens of MiB); first in the plan:
	// the large cases must not form the tail of the run
	cs = append(sizeCases(p), cs...)
	return cs
}

func shardPrefixes(nt, d int) [][]int {
	out := [][]int{{}}
	for i := 0; i < d; i++ {
		var nx [][]int
		for _, p := range out {
			for t := 0; t < nt; t++ {
				nx = append(nx, append(append([]int{}, p...), t))
			}
		}
		out = nx
	}
	return out
}

// ---------------------------------------------------------------- case execution (child)

func one(outcome string, vs []viol) caseResult {
	return caseResult{Outcomes: map[string]int64{outcome: 1}, Viols: vs, Evals: 1}
}

func errnoOf(s string) (vosErrno, bool) {
	switch s {
	case "ENOSPC":
		return enospc, false
	case "ENOSPC-short":
		return enospc, true
	case "ENOENT":
		return syscall.ENOENT, false
	case "EEXIST":
		return syscall.EEXIST, false
	case "EACCES":
		return syscall.EACCES, false
	case "EINTR":
		return syscall.EINTR, false
	}
	return eio, false
}

func runCase(p *Plan, c Case) caseResult {
	mi := p.Mods[c.Mod]
	switch c.Kind {
	case "det":
		top := newTop()
		defer os.RemoveAll(top)
		r := compileOn(top, mi, nil, nil)
		if r.Err != "" {
			fw.Fatalf("det: compile failed: %s", r.Err)
		}
		st := readState(subdirOf(top))
		if len(st) != 1 {
			fw.Fatalf("det: %d files", len(st))
		}
		for n, b := range st {
			h := sha256.Sum256(b)
			res := one("det-child-compiled", nil)
			res.Sum = n + ":" + hex.EncodeToString(h[:])
			return res
		}
	case "control":
		files := map[string][]byte{}
		if c.Flow == "intact" {
			files[mi.Key] = mi.Entry
		}
		top, sub := newTopWith(mi, files)
		defer os.RemoveAll(top)
		o, vs := recoverAndJudge("control", c.Flow, mi, top, sub, nil, true)
		want := map[string]string{"absent": "miss-compiled-afresh", "intact": "hit-complete-entry"}[c.Flow]
		if o != want && len(vs) == 0 {
			// the controls calibrate the hit/miss classification the oracle relies on
			fw.Fatalf("control %s/%s: outcome %q, want %q", mi.Spec.Name, c.Flow, o, want)
		}
		return one("control:"+o, vs)
	case "crash":
		files := map[string][]byte{}
		var alsoOK []byte
		if c.Flow == "stale" {
			files[mi.Key] = mi.Stale
			alsoOK = mi.Stale
		}
		top, sub := newTopWith(mi, files)
		defer os.RemoveAll(top)
		r := compileOn(top, mi, nil, func(s *vos.Session) { s.CrashAfter = c.K })
		class := crashClass(r.Ops, c.K)
		if c.Torn != "" {
			class += "+torn"
			// resolve the structural reference against THIS process's log (staging names may differ)
			init := map[string]int{}
			for n, b := range files {
				init[n] = len(b)
			}
			name := ""
			for _, u := range unsynced(init, r.Ops, c.K) {
				if u.Ref == c.Torn {
					name = u.Name
				}
			}
			if name == "" {
				fw.Fatalf("crash case %+v: no file %s with un-synced data in this process's log", c, c.Torn)
			}
			p := filepath.Join(sub, name)
			fi, err := os.Stat(p)
			if err != nil || int(fi.Size()) <= c.L {
				fw.Fatalf("crash case %+v: torn file missing or too short (%v)", c, err)
			}
			if err := os.Truncate(p, int64(c.L)); err != nil {
				fw.Fatalf("truncate: %v", err)
			}
		}
		o, vs := recoverAndJudge("crash-"+c.Flow, class, mi, top, sub, alsoOK, true)
		return one("crash:"+o, vs)
	case "trunc", "hole", "ver":
		var F []byte
		class := c.Kind
		switch c.Kind {
		case "trunc":
			F = mi.Entry[:c.L]
			class = "trunc-" + region(mi.layout(), c.L)
		case "hole":
			F = make([]byte, len(mi.Entry))
			copy(F, mi.Entry[:c.L])
			class = "zero-tail-" + region(mi.layout(), c.L)
			if bytes.Equal(F, mi.Entry) {
				return one("hole:identical-skipped", nil)
			}
		case "ver":
			body := mi.Entry
			if c.Body == "decoy" {
				body = mi.DecoyEntry
			}
			for _, vv := range versionVariants(mi.layout().Version) {
				if vv[0] == c.Ver {
					F = foreignEntry(mi.layout().Version, vv, body)
				}
			}
			class = "version-" + c.Ver
		}
		top, sub := newTopWith(mi, map[string][]byte{mi.Key: F})
		defer os.RemoveAll(top)
		o, vs := recoverAndJudge(c.Kind, class, mi, top, sub, nil, false)
		return one(c.Kind+":"+o, vs)
	case "fault":
		return runFault(mi, c)
	case "conc":
		return runConc(mi, c)
	case "xmod":
		return runXmod(p, c)
	case "die":
		return runDie(mi, c)
	case "adders":
		return runAdders(p, c)
	case "event":
		return runEvent(mi, c)
	case "size":
		return runSize(mi, c)
	}
	fw.Fatalf("unknown case kind %q", c.Kind)
	return caseResult{}
}

func crashClass(ops []vos.Step, k int) string {
	if k == 0 {
		return "before-first-step"
	}
	if k-1 < len(ops) {
		return "after-" + ops[k-1].Op
	}
	return "after-end"
}

func region(l *layout, at int) string {
	switch {
	case at < l.Hdr:
		return "header"
	case at < l.CodeStart:
		return "offsets"
	case at < l.CodeEnd:
		return "code"
	case at < l.CodeEnd+5:
		if l.CodeEnd == l.CodeStart {
			return "checksum-of-codeless-entry"
		}
		return "checksum"
	}
	return "sourcemap"
}

func runFault(mi *modInfo, c Case) caseResult {
	files := map[string][]byte{}
	var alsoOK []byte
	switch c.Flow {
	case "stale":
		files[mi.Key] = mi.Stale
		alsoOK = mi.Stale
	case "hit":
		files[mi.Key] = mi.Entry
	}
	top, sub := newTopWith(mi, files)
	defer os.RemoveAll(top)
	en, short := errnoOf(c.Errno)
	var badStep map[string][]byte
	r := compileOn(top, mi, nil, func(s *vos.Session) {
		s.FailAt = c.K
		s.FailErr = en
		s.FailShort = short
		s.Hook = func(idx int, op string) { // after every step: nothing incomplete is visible
			if st := readState(sub); badStep == nil && len(visible("", "", mi, st, alsoOK)) > 0 {
				badStep = st
			}
		}
	})
	op := "?"
	hit := false
	for _, st := range r.Ops {
		if st.Faulted {
			op, hit = st.Op, true
		}
	}
	if !hit {
		fw.Fatalf("fault case %+v: step %d not reached (log %d steps)", c, c.K, len(r.Ops))
	}
	phase, class := "fault-"+c.Flow, op+"-"+c.Errno
	var vs []viol
	res := caseResult{Outcomes: map[string]int64{}, Evals: 2}
	if r.Err == "" {
		res.Outcomes["fault:tolerated"]++
		if r.Beh != mi.Ref {
			vs = append(vs, viol{phase + ":" + class + ":behaviour-differs-after-fault", "CompileModule succeeded despite the fault but the module behaves differently: " + firstDiff(mi.Ref, r.Beh)})
		}
	} else {
		res.Outcomes["fault:reported"]++
	}
	st := readState(sub)
	vs = append(vs, visible(phase, class, mi, st, alsoOK)...)
	if len(vs) == 0 && badStep != nil { // visible only in an intermediate step
		vs = append(vs, visible(phase, class+"-intermediate", mi, badStep, alsoOK)...)
	}
	left := 0
	for n := range st {
		if n != mi.Key {
			left++
		}
	}
	if left > 0 {
		res.Outcomes["fault:temp-file-left-behind"]++
	}
	// a later process on what the failed operation left behind
	o, v2 := recoverAndJudge(phase, class, mi, top, sub, alsoOK, false)
	res.Outcomes["fault-then:"+o]++
	res.Viols = append(vs, v2...)
	return res
}

// ---------------------------------------------------------------- parent

type agg struct {
	mu       sync.Mutex
	outcomes *fw.Counter
	evals    int64
	byKind   map[string]int64
	extra    map[string]int64
	distinct map[string]bool
}

// prepare compiles one corpus module (reference behaviour, complete entry, step logs of the three
// flows, decoy twin). Deviations of the clean flows from the uncached behaviour are property
// violations (returned), not harness errors.
func prepare(spec modSpec) (*modInfo, []viol) {
	var vs []viol
	mi := &modInfo{Spec: spec, Wasm: build(spec, 0)}
	mi.Ref = uncachedBehaviour(mi, mi.Wasm)
	top := newTop()
	defer os.RemoveAll(top)
	r := compileOn(top, mi, nil, nil)
	if r.Err != "" {
		fw.Fatalf("%s: reference compile with cache failed: %s", spec.Name, r.Err)
	}
	if r.Beh != mi.Ref {
		vs = append(vs, viol{"clean:miss-flow:behaviour-differs-from-uncached", fmt.Sprintf("%s: compiled through an empty cache directory the module behaves differently from the uncached one: %s", spec.Name, firstDiff(mi.Ref, r.Beh))})
	}
	mi.MissLog = r.Ops
	sub := subdirOf(top)
	mi.Sub = filepath.Base(sub)
	st := readState(sub)
	if len(st) != 1 {
		fw.Fatalf("%s: %d files after one compile", spec.Name, len(st))
	}
	for n, b := range st {
		mi.Key, mi.Entry = n, b
	}
	mi.layout()
	// hit flow on the same directory
	h := compileOn(top, mi, nil, nil)
	if h.Err != "" || h.Beh != mi.Ref {
		vs = append(vs, viol{"clean:hit-flow:behaviour-differs-from-uncached", fmt.Sprintf("%s: loaded from its own complete cache entry the module behaves differently from the uncached one: err=%q %s", spec.Name, h.Err, firstDiff(mi.Ref, h.Beh))})
	}
	mi.HitLog = h.Ops
	if spec.Dwarf == "" && spec.N > 0 {
		mi.DecoyWasm = build(spec, 1)
		mi.DecoyRef = uncachedBehaviour(mi, mi.DecoyWasm)
		if mi.DecoyRef == mi.Ref {
			fw.Fatalf("%s: decoy module is not distinguishable from the module", spec.Name)
		}
		dtop := newTop()
		defer os.RemoveAll(dtop)
		d := compileOn(dtop, mi, mi.DecoyWasm, nil)
		if d.Err != "" {
			fw.Fatalf("%s: decoy compile: %s", spec.Name, d.Err)
		}
		for _, b := range readState(subdirOf(dtop)) {
			mi.DecoyEntry = b
		}
	}
	mi.Stale = staleEntry(mi)
	stop, _ := newTopWith(mi, map[string][]byte{mi.Key: mi.Stale})
	defer os.RemoveAll(stop)
	s := compileOn(stop, mi, nil, nil)
	mi.StaleLog = s.Ops
	return mi, vs
}

func main() {
	if fw.IsChild() {
		childMain()
		return
	}
	if len(os.Args) > 2 && os.Args[1] == "replay" {
		replayMain(os.Args[2])
		return
	}
	run := fw.Start("C13", "fault_enumeration")
	t0 := time.Now()
	setupScratch()
	defer os.RemoveAll(scratchRoot)
	startDetVerifierBuild()

	specs := corpusSpecs(run.Thorough())
	plan := &Plan{Tier: run.Tier, Mods: make([]*modInfo, len(specs))}
	outcomes := fw.NewCounter()
	samples := fw.NewSampler(16)
	var vmu sync.Mutex
	report := func(c any, vs []viol) {
		vmu.Lock()
		defer vmu.Unlock()
		for _, v := range vs {
			run.Violation(v.Sig, v.What, c)
		}
	}

	// ---- preparation + (5a) determinism in-process: 5 compilations with fresh engines
	var inproc int64
	var imu sync.Mutex
	// Sequential on purpose: the reference entries and step logs must come from a process in which
	// nothing else is being compiled (a shared-scratch-state bug would otherwise corrupt the references
	// or crash this process instead of yielding the deterministic verdict of family 6).
	fw.Parallel(len(specs), 1, func(i int) {
		mi, pv := prepare(specs[i])
		plan.Mods[i] = mi
		report(map[string]any{"tier": run.Tier, "spec": specs[i], "case": Case{Kind: "control", Flow: "intact"}}, pv)
		for rep := 1; rep < 5; rep++ {
			top := newTop()
			r := compileOn(top, mi, nil, nil)
			st := readState(subdirOf(top))
			os.RemoveAll(top)
			same := r.Err == "" && len(st) == 1 && bytes.Equal(st[mi.Key], mi.Entry)
			imu.Lock()
			inproc++
			imu.Unlock()
			if same {
				outcomes.Inc("det:in-process-identical")
			} else {
				outcomes.Inc("det:in-process-DIFFERENT")
				report(map[string]any{"tier": run.Tier, "spec": specs[i], "case": Case{Kind: "det-inproc"}},
					[]viol{{"determinism:in-process:" + flavorOf(specs[i]), fmt.Sprintf("%s: compilation %d in the same process (fresh runtime, fresh cache directory) produced a different cache entry than compilation 1 (%s)", specs[i].Name, rep+1, entryDiff(mi.Entry, st[mi.Key]))}})
			}
		}
	})
	// (6, secondary) each module compiled while another goroutine compiles a different one (free-running)
	concN, concSame := concurrentDeterminism(plan, func(i int, v viol) {
		report(map[string]any{"tier": run.Tier, "spec": specs[i], "case": Case{Kind: "det-inproc"}}, []viol{v})
	})
	outcomes.AddN("det:concurrent-with-other-module-identical", concSame)
	if concN != concSame {
		outcomes.AddN("det:concurrent-with-other-module-DIFFERENT", concN-concSame)
	}
	plan.Cases = genCases(plan)
	if os.Getenv("VERIF_C13_DRY") != "" { // print the size of the enumeration and stop
		n := map[string]int{}
		for _, c := range plan.Cases {
			n[c.Kind+"/"+c.Flow+c.Conf]++
		}
		fmt.Printf("modules=%d cases=%d %v\n", len(plan.Mods), len(plan.Cases), n)
		os.RemoveAll(scratchRoot)
		os.Exit(0)
	}
	planPath := filepath.Join(scratchRoot, "plan.gob")
	writePlan(planPath, plan)
	prepWall := time.Since(t0).Seconds()

	// ---- supervised children
	byKind := map[string]int64{}
	extra := map[string]int64{}
	distinct := map[string]bool{}
	var evals int64
	detSums := map[int][]string{}
	stop := func() bool {
		if run.Expired() {
			run.Capped("budget")
			return true
		}
		if run.Violations() >= 20 {
			run.Capped("stopped feeding cases after 20 recorded violations")
			return true
		}
		return false
	}
	done := fw.Supervise(fw.SupOpts{N: len(plan.Cases), Workers: runtime.NumCPU(), CaseTimeout: caseTimeout, UlimitVKB: 8 << 20,
		Mode: "cases", Env: []string{"VERIF_C13_PLAN=" + planPath, "VERIF_C13_SCRATCH=" + scratchRoot}, Stop: stop},
		func(i int, res string, crash *fw.Crash) {
			c := plan.Cases[i]
			rep := map[string]any{"tier": run.Tier, "spec": plan.Mods[c.Mod].Spec, "case": c}
			if len(c.Mods) > 0 {
				var sp []modSpec
				for _, x := range c.Mods {
					sp = append(sp, plan.Mods[x].Spec)
				}
				rep["specs"] = sp
			}
			if crash != nil {
				evals++
				byKind[c.Kind]++
				outcomes.Inc("recovery-process-" + crash.Kind)
				if strings.Contains(crash.Stderr, "HARNESS-ERROR") {
					fw.Fatalf("child harness error in case %+v: %s", c, fw.FirstLines(crash.Stderr, 4))
				}
				run.Violation(fmt.Sprintf("%s:%s:recovery-process-%s", c.Kind, caseClass(c), crash.Kind),
					fmt.Sprintf("%s: the process recovering from this state died (%s): %s", plan.Mods[c.Mod].Spec.Name, crash.Kind, fw.FirstLines(crash.Stderr, 3)), rep)
				return
			}
			var cr caseResult
			if err := json.Unmarshal([]byte(res), &cr); err != nil {
				fw.Fatalf("bad child result for case %d: %q", i, clip(res, 300))
			}
			evals += cr.Evals
			byKind[c.Kind] += cr.Evals
			for k, v := range cr.Outcomes {
				outcomes.AddN(k, v)
			}
			for k, v := range cr.Extra {
				extra[k] += v
			}
			if c.Kind == "det" {
				detSums[c.Mod] = append(detSums[c.Mod], cr.Sum)
			}
			if c.Kind != "det" && c.Kind != "control" {
				distinct[fmt.Sprintf("%d/%s/%s/%d/%s/%d/%s/%s/%s/%s/%v", c.Mod, c.Kind, c.Flow, c.K, c.Torn, c.L, c.Ver, c.Body, c.Errno, c.Conf, c.Shard)+fmt.Sprint(c.Mods, c.Event, c.K2, c.Event2, c.Shape, c.Prior)] = true
			}
			if len(cr.Viols) > 0 {
				for _, v := range cr.Viols {
					run.Violation(v.Sig, plan.Mods[c.Mod].Spec.Name+": "+v.What, rep)
				}
			}
			samples.Add(map[string]any{"module": plan.Mods[c.Mod].Spec.Name, "case": c, "outcomes": cr.Outcomes})
		})
	_ = done
	// (5b) separate processes
	var detProc int64
	for mi, sums := range detSums {
		m := plan.Mods[mi]
		h := sha256.Sum256(m.Entry)
		want := m.Key + ":" + hex.EncodeToString(h[:])
		for _, s := range sums {
			detProc++
			if s == want {
				outcomes.Inc("det:other-process-identical")
			} else {
				outcomes.Inc("det:other-process-DIFFERENT")
				run.Violation("determinism:across-processes:"+flavorOf(m.Spec), fmt.Sprintf("%s: a separate process produced cache entry %s, this process %s", m.Spec.Name, clip(s, 100), clip(want, 100)),
					map[string]any{"tier": run.Tier, "spec": m.Spec, "case": Case{Kind: "det"}})
			}
		}
	}
	// (5c) secondary monitor: wazevo's own deterministic-compilation verifier (separate build)
	dv := detVerifierMonitor(run, plan)

	var sizes []map[string]any
	for _, m := range plan.Mods {
		l := m.layout()
		sizes = append(sizes, map[string]any{"module": m.Spec.Name, "functions": l.NF, "entry_bytes": l.Len, "code_bytes": l.CodeEnd - l.CodeStart,
			"source_map": l.Len > l.CodeEnd+5, "steps_miss": len(m.MissLog), "steps_stale": len(m.StaleLog), "steps_hit": len(m.HitLog)})
	}
	bk := map[string]any{}
	for k, v := range byKind {
		bk[k] = v
	}
	os.RemoveAll(scratchRoot)
	if os.Getenv("VERIF_C13_VERBOSE") != "" { // patched runs keep no evidence file: print the counters
		b1, _ := json.Marshal(extra)
		b2, _ := json.Marshal(bk)
		b3, _ := json.Marshal(outcomes.Map())
		fmt.Printf("counters %s\nby-kind %s\noutcomes %s\n", b1, b2, b3)
	}
	run.Finish(fw.Coverage{
		Evaluations: evals + inproc, DistinctNontriv: int64(len(distinct)),
		Rule:    "one evaluation = one recovery (fresh cache object + fresh runtime + CompileModule + all exports called) on one materialised directory state, or one complete interleaving for the reader configurations; distinct non-trivial = distinct (module, crash point, torn file, torn length | truncation length | zero-tail cut | version variant x body | fault step x errno | interleaving shard | entry size x reader shape x prior state) tuples, controls and determinism repetitions excluded",
		Samples: samples.List(), Exhaustive: true, Outcomes: outcomes.Map(),
		Bounds: map[string]any{"modules": sizes, "evaluations_by_kind": bk,
			"entry_sizes":                "0 and 2^k-1, 2^k, 2^k+1 for k=0..25 (thorough ..27 and 3*2^k+-1, k=9..24) x reader shape {writerto, plain, dribble, eof-with-data} x prior state of the final name {absent, shorter, longer} through the real filecache Add/Get; padded complete entries of two modules at 2^k+-1, k in {12,16,20,22..25}, loaded by a fresh runtime; real modules with 3400/13500/56000 (thorough 110000) functions through CompileModule twice",
			"torn_lengths":               "all lengths when the un-synced span is <= 4096 bytes, else fixed header, field boundaries, trailer and a 64-byte grid",
			"truncation_lengths":         "all lengths when the entry is <= 8192 bytes, else all of header + offset table + trailer (256 B) and a 64-byte grid in code/source map",
			"version_variants":           []string{"shorter", "longer", "same-length-different", "prefix-of-current", "current-as-prefix", "empty", "len255-claimed", "len255-real"},
			"fault_errnos":               []string{"ENOSPC", "EIO", "ENOSPC after a short write (write steps)"},
			"interleavings":              "w2-states: 2 writers x all merges of their mutating steps, full recovery in every intermediate state; w2-reader: 2 writers + reader (open, read as separate steps); w3-coarse: 3 writers, points create/write/rename; thorough adds w3-full and w3-reader-coarse",
			"writer_goroutine_deaths":    "flow add: reader of a directly driven fileCache.Add panics / Goexits / returns (n>0, err) after k in {0,1,len/2,len-1} bytes (<= 4 KiB reads), every module incl. a 97 KiB entry; flow compile: panic / Goexit inside every step of the miss flow (3 copy chunks) under CompileModule",
			"concurrent_adders":          "a2-same-key (two runtimes + two CompilationCache objects over one directory, same module), a2-same-key-one-rt (one runtime, two goroutines), a2-different-keys (control): ALL interleavings, every file-cache operation is a switch point, no preemption bound; fresh-process recovery on every distinct intermediate directory; thorough adds torn crash states at every intermediate state",
			"cross_module_interleavings": "x2: two threads in one process/runtime each CompileModule of a DIFFERENT module (pairs small+big, big+small, dwarf+plain) on one cache directory, all merges of their points open/create/3 write chunks/rename, GOMAXPROCS(1); thorough adds x3-coarse (three modules, points open/create/write/rename)"},
		Extra: map[string]any{"prep_wall_s": prepWall, "in_process_recompilations": inproc, "free_running_concurrent_compilations_compared": concN, "other_process_compilations": detProc, "interleaving_counters": extra, "deterministic_compilation_verifier_build": dv},
	}, []string{
		"crash model: directory operations (create, rename, remove) are durable in program order; data written after the last fsync of a file may be cut at any enumerated length; fsynced data is durable",
		"the recovering process is modelled by a fresh CompilationCache + Runtime in a child process on a copy of the directory state (same binary, same CPU features)",
		"arbitrary byte corruption of entries is outside the statement (truncation and foreign versions only); zero-filled tails are enumerated only inside the checksummed code region",
		"determinism across Go's randomised map iteration is exercised by repetition (5 in-process, 3 processes), not owned by the explorer",
		"interleavings are at the granularity of the file-cache's file-system operations; the reader's read of an opened file is one step",
		"cross-module interleavings: a thread's compile+serialize and its non-point file operations run atomically when it is scheduled; GOMAXPROCS(1) makes per-P caches (sync.Pool) deterministic",
	})
}

func flavorOf(s modSpec) string {
	if s.Dwarf != "" {
		return "dwarf"
	}
	return flavorNames[s.Flavor]
}

func entryDiff(a, b []byte) string {
	if b == nil {
		return "no entry"
	}
	if len(a) != len(b) {
		return fmt.Sprintf("lengths %d vs %d", len(a), len(b))
	}
	for i := range a {
		if a[i] != b[i] {
			l, _ := parseEntry(a)
			return fmt.Sprintf("first difference at byte %d (%s region)", i, region(&l, i))
		}
	}
	return "identical"
}

func caseClass(c Case) string {
	switch c.Kind {
	case "crash":
		t := ""
		if c.Torn != "" {
			t = "+torn"
		}
		return fmt.Sprintf("%s-k%d%s", c.Flow, c.K, t)
	case "ver":
		return c.Ver + "-" + c.Body
	case "fault":
		return fmt.Sprintf("%s-%s", c.Flow, c.Errno)
	case "conc", "xmod", "adders":
		return c.Conf
	case "die":
		return c.Flow + "-" + c.Errno
	case "event":
		return c.Flow + "-" + c.Event
	case "size":
		if c.Flow == "engine" {
			return fmt.Sprintf("engine-%d-functions", c.K)
		}
		return fmt.Sprintf("%s-%s:%s-prior-%s", c.Flow, sizeBucket(c.L), c.Shape, c.Prior)
	case "trunc":
		return "truncated-entry"
	case "hole":
		return "zero-tail-in-code"
	}
	return c.Kind
}

func setupScratch() {
	base := ""
	if fi, err := os.Stat("/dev/shm"); err == nil && fi.IsDir() {
		base = "/dev/shm" // tmpfs: the durability model is the harness's, real fsync latency is irrelevant
	}
	// hygiene: a run that was killed from outside (e.g. an outer timeout that also removes the binary)
	// cannot clean up; scratch older than 2 h (the thorough budget is 45 min) is certainly stale
	if stale, err := filepath.Glob(filepath.Join(map[bool]string{true: os.TempDir(), false: base}[base == ""], "verif-c13-*")); err == nil {
		for _, sd := range stale {
			if fi, err := os.Stat(sd); err == nil && time.Since(fi.ModTime()) > 2*time.Hour {
				os.RemoveAll(sd)
			}
		}
	}
	d, err := os.MkdirTemp(base, "verif-c13-")
	if err != nil {
		d, err = os.MkdirTemp("", "verif-c13-")
		if err != nil {
			fw.Fatalf("scratch: %v", err)
		}
	}
	scratchRoot = d
	// an interrupted run (SIGINT/SIGTERM, e.g. an outer timeout) must not leave its scratch in /dev/shm
	sig := make(chan os.Signal, 1)
	signal.Notify(sig, syscall.SIGINT, syscall.SIGTERM)
	go func() {
		<-sig
		os.RemoveAll(d)
		os.Exit(2)
	}()
}

func writePlan(path string, p *Plan) {
	f, err := os.Create(path)
	if err != nil {
		fw.Fatalf("plan: %v", err)
	}
	if err := gob.NewEncoder(f).Encode(p); err != nil {
		fw.Fatalf("plan: %v", err)
	}
	f.Close()
}

func readPlan(path string) *Plan {
	f, err := os.Open(path)
	if err != nil {
		fw.Fatalf("plan: %v", err)
	}
	defer f.Close()
	p := &Plan{}
	if err := gob.NewDecoder(f).Decode(p); err != nil {
		fw.Fatalf("plan: %v", err)
	}
	return p
}

func childMain() {
	scratchRoot = os.Getenv("VERIF_C13_SCRATCH")
	switch fw.ChildMode() {
	case "cases":
		p := readPlan(os.Getenv("VERIF_C13_PLAN"))
		fw.ChildLoop(func(i int) string {
			b, _ := json.Marshal(runCase(p, p.Cases[i]))
			return string(b)
		})
	case "detv":
		detVerifierChild()
	}
}

// replay re-executes one stored case in a supervised child and prints what happens.
func replayMain(file string) {
	b, err := os.ReadFile(file)
	if err != nil {
		fw.Fatalf("%v", err)
	}
	var doc struct {
		Signature string `json:"signature"`
		Replay    struct {
			Tier  string    `json:"tier"`
			Spec  modSpec   `json:"spec"`
			Specs []modSpec `json:"specs"`
			Case  Case      `json:"case"`
		} `json:"replay"`
	}
	if err := json.Unmarshal(b, &doc); err != nil {
		fw.Fatalf("%v", err)
	}
	setupScratch()
	defer os.RemoveAll(scratchRoot)
	mi, pv := prepare(doc.Replay.Spec)
	c := doc.Replay.Case
	c.Mod = 0
	allMods := []*modInfo{mi}
	if len(doc.Replay.Specs) > 0 { // xmod: one module per thread
		allMods, c.Mods = nil, nil
		for i, sp := range doc.Replay.Specs {
			m, v := prepare(sp)
			allMods = append(allMods, m)
			pv = append(pv, v...)
			c.Mods = append(c.Mods, i)
		}
	}
	fmt.Printf("replaying %s: module %s case %+v\n", doc.Signature, mi.Spec.Name, c)
	failed := false
	for _, v := range pv {
		fmt.Printf("VIOLATION %s: %s\n", v.Sig, v.What)
		failed = true
	}
	if c.Kind == "det-inproc" || c.Kind == "det" {
		for rep := 0; rep < 4; rep++ {
			top := newTop()
			compileOn(top, mi, nil, nil)
			st := readState(subdirOf(top))
			os.RemoveAll(top)
			d := entryDiff(mi.Entry, st[mi.Key])
			fmt.Printf("recompilation %d: %s\n", rep+2, d)
			failed = failed || d != "identical"
		}
	} else {
		plan := &Plan{Tier: doc.Replay.Tier, Mods: allMods, Cases: []Case{c}}
		planPath := filepath.Join(scratchRoot, "plan.gob")
		writePlan(planPath, plan)
		os.Args = []string{os.Args[0], "quick"}
		fw.Supervise(fw.SupOpts{N: 1, Workers: 1, CaseTimeout: caseTimeout, UlimitVKB: 8 << 20, Mode: "cases",
			Env: []string{"VERIF_C13_PLAN=" + planPath, "VERIF_C13_SCRATCH=" + scratchRoot}},
			func(i int, res string, crash *fw.Crash) {
				if crash != nil {
					fmt.Printf("recovery process died (%s): %s\n", crash.Kind, fw.FirstLines(crash.Stderr, 6))
					failed = true
					return
				}
				var cr caseResult
				json.Unmarshal([]byte(res), &cr)
				fmt.Printf("outcomes: %v\n", cr.Outcomes)
				for _, v := range cr.Viols {
					fmt.Printf("VIOLATION %s: %s\n", v.Sig, v.What)
					failed = true
				}
			})
	}
	os.RemoveAll(scratchRoot)
	if failed {
		fmt.Println("replay: still fails")
		os.Exit(1)
	}
	fmt.Println("replay: passes")
}
