package main

import (
	"bytes"
	"fmt"
	"os"
	"runtime"
	"sort"
	"strings"

	"github.com/tetratelabs/wazero"
	"github.com/tetratelabs/wazero/internal/verif/vos"
	"github.com/tetratelabs/wazero/verif/fw"
)

// (6) DIFFERENT modules compiled concurrently in ONE process / ONE engine against one cache
// directory. Every thread is a real Runtime.CompileModule of its own module on a runtime that
// shares the file cache; the threads are cooperative threads of the vos session and the harness
// enumerates ALL merges of their point operations: the cache lookup (open), create, each of the
// three chunks of the copy loop (WriteSplit), rename. Whatever a thread does between two of its
// points — compile, serialize, the remaining file operations — runs atomically when it is chosen,
// so "A is paused inside Add after its create / after k bytes of its copy, B runs its whole
// compile + serialize + Add, A resumes" is one of the enumerated merges.
//
// Target class: shared mutable scratch state on the serialization / add path (pooled buffers,
// package-level slices, reused readers). The entry of a module must depend on that module and the
// settings only. The family runs with GOMAXPROCS(1) so that per-P caches (sync.Pool) behave
// deterministically: what one thread puts back is what the next thread gets.
//
// Oracle: in every intermediate state each final name is absent or holds byte-for-byte the
// reference entry of ITS module; at the end both CompileModule calls succeeded and both final
// names hold their reference entries; then a fresh cache + runtime per module passes the recovery
// oracle (behaviour equals the uncached reference, cache hit on the complete entry).

type xconf struct {
	threads int
	points  map[string]bool
	split   int
	depth   int
}

func xmodConf(cf string) xconf {
	switch cf {
	case "x2":
		return xconf{2, map[string]bool{"open": true, "create": true, "write": true, "rename": true}, 3, 3}
	case "x3-coarse":
		return xconf{3, map[string]bool{"open": true, "create": true, "write": true, "rename": true}, 0, 4}
	}
	fw.Fatalf("unknown xmod conf %q", cf)
	return xconf{}
}

// xmodPairs picks the module tuples by measured entry sizes: (small, big), (big, small),
// (dwarf, plain) and, for three threads, (small, big, dwarf).
func xmodPairs(p *Plan, threads int) [][]int {
	small, big, dwarf, plain := -1, -1, -1, -1
	for i, m := range p.Mods {
		l := m.layout()
		if m.Spec.Only != "" {
			continue
		}
		if m.Spec.Dwarf != "" {
			if dwarf < 0 || l.Len < p.Mods[dwarf].layout().Len {
				dwarf = i
			}
			continue
		}
		if l.NF == 0 {
			continue
		}
		if small < 0 || l.Len < p.Mods[small].layout().Len {
			small = i
		}
		if l.NF <= 101 && (big < 0 || l.Len > p.Mods[big].layout().Len) {
			big = i
		}
	}
	if small < 0 || big < 0 || small == big {
		return nil
	}
	if threads == 3 {
		if dwarf < 0 {
			return nil
		}
		return [][]int{{small, big, dwarf}, {big, dwarf, small}}
	}
	out := [][]int{{small, big}, {big, small}}
	if dwarf >= 0 {
		dl := p.Mods[dwarf].layout().Len
		for i, m := range p.Mods {
			if m.Spec.Dwarf != "" || m.Spec.Only != "" || i == small || i == big || m.layout().NF == 0 {
				continue
			}
			d := m.layout().Len - dl
			if d < 0 {
				d = -d
			}
			if plain < 0 {
				plain = i
				continue
			}
			e := p.Mods[plain].layout().Len - dl
			if e < 0 {
				e = -e
			}
			if d < e {
				plain = i
			}
		}
		if plain >= 0 {
			out = append(out, []int{dwarf, plain})
		}
	}
	return out
}

func xmodCases(p *Plan) []Case {
	var cs []Case
	confs := []string{"x2"}
	if p.Tier == "thorough" {
		confs = append(confs, "x3-coarse")
	}
	for _, cf := range confs {
		xc := xmodConf(cf)
		for _, tuple := range xmodPairs(p, xc.threads) {
			for _, sh := range shardPrefixes(xc.threads, xc.depth) {
				cs = append(cs, Case{Kind: "xmod", Mod: tuple[0], Mods: tuple, Conf: cf, Shard: sh})
			}
		}
	}
	return cs
}

func xmodClass(p *Plan, c Case) string {
	var names []string
	for _, i := range c.Mods {
		m := p.Mods[i]
		switch {
		case m.Spec.Dwarf != "":
			names = append(names, "dwarf")
		default:
			names = append(names, fmt.Sprintf("%dB", m.layout().Len))
		}
	}
	return c.Conf + ":" + strings.Join(names, "+")
}

func runXmod(p *Plan, c Case) caseResult {
	xc := xmodConf(c.Conf)
	mods := make([]*modInfo, len(c.Mods))
	for i, x := range c.Mods {
		mods[i] = p.Mods[x]
	}
	res := caseResult{Outcomes: map[string]int64{}, Extra: map[string]int64{}}
	old := runtime.GOMAXPROCS(1)
	defer runtime.GOMAXPROCS(old)
	phase := "xmod"
	class := xmodClass(p, c)
	seen := map[string]bool{}
	addV := func(vs []viol, schedule []int) {
		for _, v := range vs {
			if seen[v.Sig] {
				continue
			}
			seen[v.Sig] = true
			v.What = fmt.Sprintf("threads %s, schedule %v: %s", threadNames(mods), schedule, v.What)
			res.Viols = append(res.Viols, v)
		}
	}
	// visibility of every module's final name in one directory state
	check := func(st map[string][]byte, final bool, schedule []int) (good bool) {
		good = true
		defer func() { res.Extra["entry-checks:"+c.Conf] += int64(len(mods)) }()
		for i, m := range mods {
			F, ok := st[m.Key]
			switch {
			case ok && bytes.Equal(F, m.Entry):
			case !ok && !final:
			case !ok:
				good = false
				addV([]viol{{phase + ":" + class + ":entry-missing-after-both-compiles",
					fmt.Sprintf("thread %d (%s): CompileModule returned but its final name does not exist", i, m.Spec.Name)}}, schedule)
			default:
				good = false
				what := entryDiff(m.Entry, F)
				for j, o := range mods {
					if j != i && bytes.HasPrefix(F, o.Entry[:min(len(o.Entry), len(F))]) && len(F) >= len(o.Entry) {
						what += fmt.Sprintf("; it starts with the complete entry of the OTHER module %s", o.Spec.Name)
					}
				}
				addV([]viol{{phase + ":" + class + ":entry-differs-from-reference",
					fmt.Sprintf("thread %d (%s): the entry under its final name is not byte-for-byte the entry this module produces when compiled alone (%s)", i, m.Spec.Name, what)}}, schedule)
			}
		}
		return
	}

	var stack []choicePoint
	for {
		infeasible := false
		var schedule []int
		top := newTop()
		cache, err := wazero.NewCompilationCacheWithDir(top)
		if err != nil {
			fw.Fatalf("cache: %v", err)
		}
		sub := subdirOf(top)
		rt := wazero.NewRuntimeWithConfig(ctx, wazero.NewRuntimeConfigCompiler().WithCompilationCache(cache))
		s := vos.Begin(sub)
		s.PointOps = xc.points
		s.WriteSplit = xc.split
		errs := make([]error, len(mods))
		var bodies []func()
		for i := range mods {
			i := i
			bodies = append(bodies, func() { _, errs[i] = rt.CompileModule(ctx, mods[i].Wasm) })
		}
		choose := func(pos int, enabled []int) int {
			var ch int
			switch {
			case pos < len(stack):
				cp := stack[pos]
				if pos >= len(c.Shard) && fmt.Sprint(cp.enabled) != fmt.Sprint(enabled) {
					fw.Fatalf("xmod: execution is not reproducible at position %d: enabled %v, recorded %v", pos, enabled, cp.enabled)
				}
				ch = cp.enabled[cp.idx]
			case pos < len(c.Shard):
				ch = c.Shard[pos]
				ok := false
				for _, e := range enabled {
					ok = ok || e == ch
				}
				if !ok {
					infeasible = true
					ch = enabled[0]
				}
				stack = append(stack, choicePoint{[]int{ch}, 0})
			default:
				stack = append(stack, choicePoint{append([]int{}, enabled...), 0})
				ch = enabled[0]
			}
			schedule = append(schedule, ch)
			return ch
		}
		between := func(pos int) {
			if infeasible {
				return
			}
			res.Extra["states:"+c.Conf]++
			check(readState(sub), false, schedule)
		}
		panics := s.RunThreads(bodies, choose, between)
		s.End()
		rt.Close(ctx)
		cache.Close(ctx)
		for i, pv := range panics {
			if pv != nil {
				fw.Fatalf("xmod: thread %d panicked: %v", i, pv)
			}
		}
		if len(schedule) < len(c.Shard) {
			for _, x := range c.Shard[len(schedule):] {
				if x != 0 {
					infeasible = true
				}
			}
		}
		if !infeasible {
			res.Extra["interleavings:"+c.Conf]++
			res.Evals++
			for i, e := range errs {
				if e != nil {
					res.Outcomes["xmod:compile-error"]++
					addV([]viol{{phase + ":" + class + ":compile-error", fmt.Sprintf("thread %d (%s): CompileModule failed: %v", i, mods[i].Spec.Name, e)}}, schedule)
				}
			}
			st := readState(sub)
			entriesOK := check(st, true, schedule)
			if len(st) == len(mods) {
				res.Outcomes["xmod-final:one-entry-per-module"]++
			} else {
				var names []string
				for n := range st {
					names = append(names, n)
				}
				sort.Strings(names)
				res.Outcomes[fmt.Sprintf("xmod-final:%d-files", len(names))]++
			}
			// a later process, per module (not on entries already known to be wrong: loading them
			// in-process would only kill this shard and lose the precise verdict)
			for _, m := range mods {
				if !entriesOK {
					res.Outcomes["xmod-then:skipped-wrong-entry"]++
					continue
				}
				o, vs := recoverAndJudge(phase, class, m, top, sub, nil, false)
				res.Outcomes["xmod-then:"+o]++
				res.Evals++
				addV(vs, schedule)
			}
		}
		os.RemoveAll(top)
		if infeasible {
			res.Outcomes["xmod:shard-infeasible"]++
			return res
		}
		for len(stack) > 0 && stack[len(stack)-1].idx == len(stack[len(stack)-1].enabled)-1 {
			stack = stack[:len(stack)-1]
		}
		if len(stack) == 0 {
			return res
		}
		stack[len(stack)-1].idx++
	}
}

func threadNames(mods []*modInfo) string {
	var n []string
	for _, m := range mods {
		n = append(n, m.Spec.Name)
	}
	return "[" + strings.Join(n, ", ") + "]"
}

// concurrentDeterminism is the free-running secondary of (6): module i is compiled while another
// goroutine compiles a different module on the same runtime / cache directory; both entries must
// be byte-identical to the references. Real parallelism, no schedule control: it cannot raise a
// false alarm (entries are compared, not timings) but it is not the verdict for this class.
func concurrentDeterminism(p *Plan, report func(i int, v viol)) (n int64, identical int64) {
	for i := range p.Mods {
		j := (i + 1) % len(p.Mods)
		if i == j {
			continue
		}
		a, b := p.Mods[i], p.Mods[j]
		top := newTop()
		cache, err := wazero.NewCompilationCacheWithDir(top)
		if err != nil {
			fw.Fatalf("cache: %v", err)
		}
		rt := wazero.NewRuntimeWithConfig(ctx, wazero.NewRuntimeConfigCompiler().WithCompilationCache(cache))
		done := make(chan error, 2)
		go func() { _, e := rt.CompileModule(ctx, a.Wasm); done <- e }()
		go func() { _, e := rt.CompileModule(ctx, b.Wasm); done <- e }()
		e1, e2 := <-done, <-done
		rt.Close(ctx)
		cache.Close(ctx)
		st := readState(subdirOf(top))
		os.RemoveAll(top)
		for _, m := range []*modInfo{a, b} {
			n++
			if e1 == nil && e2 == nil && bytes.Equal(st[m.Key], m.Entry) {
				identical++
			} else {
				report(i, viol{"determinism:concurrent-with-other-module:" + flavorOf(m.Spec),
					fmt.Sprintf("%s compiled while %s/%s were being compiled concurrently on the same runtime: entry differs from the one produced alone (%s; errors %v %v)", m.Spec.Name, a.Spec.Name, b.Spec.Name, entryDiff(m.Entry, st[m.Key]), e1, e2)})
			}
		}
	}
	return
}
