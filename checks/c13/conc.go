package main

import (
	"bytes"
	"encoding/hex"
	"fmt"
	"os"
	"syscall"

	"github.com/tetratelabs/wazero/internal/filecache"
	"github.com/tetratelabs/wazero/internal/verif/vos"
	"github.com/tetratelabs/wazero/verif/fw"
)

type vosErrno = syscall.Errno

const (
	enospc = syscall.ENOSPC
	eio    = syscall.EIO
)

// (3) concurrent writers of one key. Every writer is a real fileCache.Add running as a
// cooperative thread of the vos session; the harness enumerates ALL merges of their point
// operations by depth-first search over choice sequences (stateless: every interleaving is a
// fresh execution in a fresh directory).

func confThreads(cf string) int {
	switch cf {
	case "w2-states":
		return 2
	case "w2-reader", "w3-coarse", "w3-full":
		return 3
	case "w3-reader-coarse":
		return 4
	}
	fw.Fatalf("unknown conf %q", cf)
	return 0
}

func confShape(cf string) (writers int, reader bool, points map[string]bool, recoverEveryState bool) {
	mut := map[string]bool{"create": true, "write": true, "sync": true, "close": true, "rename": true, "remove": true, "truncate": true, "mkdir": true}
	coarse := map[string]bool{"create": true, "write": true, "rename": true}
	withRead := func(m map[string]bool) map[string]bool {
		m["open"] = true
		m["read"] = true
		return m
	}
	switch cf {
	case "w2-states":
		return 2, false, mut, true
	case "w2-reader":
		return 2, true, withRead(mut), false
	case "w3-coarse":
		return 3, false, coarse, false
	case "w3-full":
		return 3, false, mut, false
	case "w3-reader-coarse":
		return 3, true, withRead(coarse), false
	}
	fw.Fatalf("unknown conf %q", cf)
	return
}

type choicePoint struct {
	enabled []int
	idx     int
}

func runConc(mi *modInfo, c Case) caseResult {
	writers, reader, points, everyState := confShape(c.Conf)
	res := caseResult{Outcomes: map[string]int64{}, Extra: map[string]int64{}}
	var key filecache.Key
	kb, err := hex.DecodeString(mi.Key)
	if err != nil || len(kb) != len(key) {
		fw.Fatalf("key %q: %v", mi.Key, err)
	}
	copy(key[:], kb)
	phase := "conc"
	seenViol := map[string]bool{}
	addV := func(vs []viol, schedule []int) {
		for _, v := range vs {
			if seenViol[v.Sig] {
				continue
			}
			seenViol[v.Sig] = true
			v.What = fmt.Sprintf("schedule %v (thread ids; reader = last): %s", schedule, v.What)
			res.Viols = append(res.Viols, v)
		}
	}

	var stack []choicePoint
	for {
		infeasible := false
		var schedule []int
		top, sub := newTopWith(mi, nil)
		s := vos.Begin(sub)
		s.PointOps = points
		fc := filecache.New(sub)
		werrs := make([]error, writers)
		var bodies []func()
		for w := 0; w < writers; w++ {
			w := w
			bodies = append(bodies, func() { werrs[w] = fc.Add(key, bytes.NewReader(mi.Entry)) })
		}
		var got []byte
		gotOK := false
		var rerr error
		if reader {
			bodies = append(bodies, func() {
				rc, ok, err := fc.Get(key)
				if err != nil {
					rerr = err
					return
				}
				if ok {
					buf := make([]byte, len(mi.Entry)+4096)
					n, _ := rc.Read(buf) // one read of everything that is there (regular file)
					rc.Close()
					got, gotOK = buf[:n], true
				}
			})
		}
		choose := func(pos int, enabled []int) int {
			var ch int
			switch {
			case pos < len(stack):
				cp := stack[pos]
				if pos >= len(c.Shard) && fmt.Sprint(cp.enabled) != fmt.Sprint(enabled) {
					fw.Fatalf("conc: execution is not reproducible at position %d: enabled %v, recorded %v", pos, enabled, cp.enabled)
				}
				ch = cp.enabled[cp.idx]
			case pos < len(c.Shard):
				ch = c.Shard[pos]
				ok := false
				for _, e := range enabled {
					ok = ok || e == ch
				}
				if !ok {
					infeasible = true
					ch = enabled[0]
				}
				stack = append(stack, choicePoint{[]int{ch}, 0})
			default:
				stack = append(stack, choicePoint{append([]int{}, enabled...), 0})
				ch = enabled[0]
			}
			schedule = append(schedule, ch)
			return ch
		}
		between := func(pos int) {
			if infeasible {
				return
			}
			st := readState(sub)
			res.Extra["states:"+c.Conf]++
			class := c.Conf + ":" + lastOp(s)
			addV(visible(phase, class, mi, st, nil), schedule)
			if everyState {
				ctop, csub := newTopWith(mi, st)
				o, vs := recoverAndJudge(phase, class, mi, ctop, csub, nil, false)
				os.RemoveAll(ctop)
				res.Outcomes["conc-state:"+o]++
				res.Evals++
				addV(vs, schedule)
			}
		}
		panics := s.RunThreads(bodies, choose, between)
		s.End()
		for i, p := range panics {
			if p != nil {
				fw.Fatalf("conc: thread %d panicked: %v", i, p)
			}
		}
		if len(schedule) < len(c.Shard) {
			// execution shorter than the shard prefix: count it only in the all-zero-suffix shard
			for _, x := range c.Shard[len(schedule):] {
				if x != 0 {
					infeasible = true
				}
			}
		}
		if !infeasible {
			res.Extra["interleavings:"+c.Conf]++
			res.Evals++
			class := c.Conf + ":final"
			for _, e := range werrs {
				if e != nil {
					res.Outcomes["conc:writer-error"]++
				}
			}
			if reader {
				switch {
				case rerr != nil:
					res.Outcomes["conc-reader:error"]++
				case !gotOK:
					res.Outcomes["conc-reader:no-entry"]++
				case bytes.Equal(got, mi.Entry):
					res.Outcomes["conc-reader:complete-entry"]++
				default:
					res.Outcomes["conc-reader:INCOMPLETE"]++
					addV([]viol{{phase + ":" + c.Conf + ":reader-saw-incomplete-entry",
						fmt.Sprintf("a concurrent reader opened the final name and read %d bytes that are not the complete entry (%d bytes)", len(got), len(mi.Entry))}}, schedule)
				}
			}
			st := readState(sub)
			if _, ok := st[mi.Key]; ok && len(st) == 1 {
				res.Outcomes["conc-final:entry-only"]++
			} else {
				res.Outcomes["conc-final:"+describeState(st, mi)]++
			}
			if !everyState {
				o, vs := recoverAndJudge(phase, class, mi, top, sub, nil, true)
				res.Outcomes["conc-final-recovery:"+o]++
				addV(vs, schedule)
			}
		}
		os.RemoveAll(top)
		if infeasible {
			res.Outcomes["conc:shard-infeasible"]++
			return res
		}
		// backtrack
		for len(stack) > 0 && stack[len(stack)-1].idx == len(stack[len(stack)-1].enabled)-1 {
			stack = stack[:len(stack)-1]
		}
		if len(stack) == 0 {
			return res
		}
		stack[len(stack)-1].idx++
	}
}

func lastOp(s *vos.Session) string {
	st := s.Steps()
	for i := len(st) - 1; i >= 0; i-- {
		if st[i].Mut {
			return "after-" + st[i].Op
		}
	}
	return "initial"
}
