package main

import (
	"bytes"
	"crypto/sha256"
	"fmt"
	"os"
	"runtime"
	"sort"
	"strings"

	"github.com/tetratelabs/wazero"
	"github.com/tetratelabs/wazero/internal/verif/vos"
	"github.com/tetratelabs/wazero/verif/fw"
)

// (8) two concurrent ADDERS at the embedder level: two Runtime.CompileModule calls in one process
// over one cache directory, as cooperative threads of the vos session that switch at EVERY
// file-cache operation (open, read, rclose, create, write, sync, close, rename, remove). ALL
// interleavings are enumerated (no preemption bound) by depth-first search over choice sequences.
//
//	a2-same-key          two runtimes, each with its own NewCompilationCacheWithDir over the same
//	                     directory, both compile the SAME module (both miss, or the later one hits)
//	a2-same-key-one-rt   one runtime / engine, two goroutines compile the same module
//	a2-different-keys    two runtimes + caches, two DIFFERENT modules (control)
//
// Checked on every interleaving:
//   - both CompileModule calls return a nil error;
//   - after every step, every file visible under a final key name is byte-for-byte the complete
//     entry of its module, and a fresh cache + runtime on a copy of the directory at that point
//     gets a correct hit or a miss (full recovery oracle R2..R7; memoised per distinct directory
//     content, recovery being a function of the directory only);
//   - at the end exactly the final entries exist (no leftover staging file) and a fresh runtime
//     hits them and runs the guest like the uncached reference.
//
// thorough (or VERIF_C13_ADDERS_TORN=1): every intermediate state is additionally taken as a crash
// point: for every file holding un-synced data every torn length is materialised and recovered.

func addersConfs(thorough bool) []string {
	return []string{"a2-same-key", "a2-same-key-one-rt", "a2-different-keys"}
}

var allOpsArePoints = map[string]bool{"open": true, "wopen": true, "read": true, "rclose": true, "create": true, "write": true,
	"sync": true, "close": true, "rename": true, "remove": true, "truncate": true, "mkdir": true, "stat": true}

func addersCases(p *Plan) []Case {
	// module with code and the smallest entry, and the next one (different key control)
	a, b := -1, -1
	for i, m := range p.Mods {
		if m.Spec.Only != "" || m.Spec.Dwarf != "" || m.layout().NF == 0 {
			continue
		}
		switch {
		case a < 0 || m.layout().Len < p.Mods[a].layout().Len:
			a, b = i, a
		case b < 0 || m.layout().Len < p.Mods[b].layout().Len:
			b = i
		}
	}
	if a < 0 || b < 0 {
		fw.Fatalf("adders: corpus too small")
	}
	var cs []Case
	for _, cf := range addersConfs(p.Tier == "thorough") {
		mods := []int{a, a}
		if cf == "a2-different-keys" {
			mods = []int{a, b}
		}
		for _, sh := range shardPrefixes(2, 3) {
			cs = append(cs, Case{Kind: "adders", Mod: a, Mods: mods, Conf: cf, Shard: sh})
		}
	}
	return cs
}

func stateHash(st map[string][]byte) string {
	var names []string
	for n := range st {
		names = append(names, n)
	}
	sort.Strings(names)
	h := sha256.New()
	for _, n := range names {
		fmt.Fprintf(h, "%s:%d:", n, len(st[n]))
		h.Write(st[n])
	}
	return string(h.Sum(nil))
}

func runAdders(p *Plan, c Case) caseResult {
	mods := []*modInfo{p.Mods[c.Mods[0]], p.Mods[c.Mods[1]]}
	distinctMods := mods[:1]
	if c.Mods[0] != c.Mods[1] {
		distinctMods = mods
	}
	torn := p.Tier == "thorough" || os.Getenv("VERIF_C13_ADDERS_TORN") != ""
	res := caseResult{Outcomes: map[string]int64{}, Extra: map[string]int64{}}
	old := runtime.GOMAXPROCS(1)
	defer runtime.GOMAXPROCS(old)
	phase := "adders"
	seen := map[string]bool{}
	addV := func(vs []viol, schedule []int) {
		for _, v := range vs {
			if seen[v.Sig] {
				continue
			}
			seen[v.Sig] = true
			v.What = fmt.Sprintf("threads %s, schedule %v: %s", threadNames(mods), schedule, v.What)
			res.Viols = append(res.Viols, v)
		}
	}
	// judged: directory content -> violations of a fresh process on it (memoised)
	judged := map[string][]viol{}
	freshOn := func(class string, st map[string][]byte) []viol {
		key := stateHash(st)
		if vs, ok := judged[key]; ok {
			res.Extra["state-recoveries-memoised:"+c.Conf]++
			return vs
		}
		var vs []viol
		for _, m := range distinctMods {
			if v := visible(phase, class, m, st, nil); len(v) > 0 {
				// already a verdict; loading a known-incomplete entry in-process would only kill the shard
				res.Outcomes["adders-state:incomplete-entry-visible"]++
				vs = append(vs, v...)
				continue
			}
			ctop, csub := newTopWith(m, st)
			o, v := recoverAndJudge(phase, class, m, ctop, csub, nil, false)
			os.RemoveAll(ctop)
			res.Outcomes["adders-state:"+o]++
			res.Evals++
			vs = append(vs, v...)
		}
		judged[key] = vs
		return vs
	}

	var stack []choicePoint
	for {
		infeasible := false
		var schedule []int
		top := newTop()
		var rts []wazero.Runtime
		var caches []wazero.CompilationCache
		nrt := 2
		if c.Conf == "a2-same-key-one-rt" {
			nrt = 1
		}
		for i := 0; i < nrt; i++ {
			cache, err := wazero.NewCompilationCacheWithDir(top)
			if err != nil {
				fw.Fatalf("cache: %v", err)
			}
			caches = append(caches, cache)
			rts = append(rts, wazero.NewRuntimeWithConfig(ctx, wazero.NewRuntimeConfigCompiler().WithCompilationCache(cache)))
		}
		sub := subdirOf(top)
		s := vos.Begin(sub)
		s.PointOps = allOpsArePoints
		errs := make([]error, 2)
		var bodies []func()
		for i := 0; i < 2; i++ {
			i := i
			bodies = append(bodies, func() { _, errs[i] = rts[i%nrt].CompileModule(ctx, mods[i].Wasm) })
		}
		choose := func(pos int, enabled []int) int {
			var ch int
			switch {
			case pos < len(stack):
				cp := stack[pos]
				if pos >= len(c.Shard) && fmt.Sprint(cp.enabled) != fmt.Sprint(enabled) {
					fw.Fatalf("adders: execution is not reproducible at position %d: enabled %v, recorded %v", pos, enabled, cp.enabled)
				}
				ch = cp.enabled[cp.idx]
			case pos < len(c.Shard):
				ch = c.Shard[pos]
				ok := false
				for _, e := range enabled {
					ok = ok || e == ch
				}
				if !ok {
					infeasible = true
					ch = enabled[0]
				}
				stack = append(stack, choicePoint{[]int{ch}, 0})
			default:
				stack = append(stack, choicePoint{append([]int{}, enabled...), 0})
				ch = enabled[0]
			}
			schedule = append(schedule, ch)
			return ch
		}
		between := func(pos int) {
			if infeasible {
				return
			}
			res.Extra["states:"+c.Conf]++
			st := readState(sub)
			class := c.Conf + ":" + lastOp(s)
			addV(freshOn(class, st), schedule)
			if torn {
				for _, u := range unsynced(nil, s.Steps(), 1<<30) {
					var lay *layout
					for _, m := range distinctMods {
						if u.Span[0] == 0 && u.Span[1] == len(m.Entry) {
							lay = m.layout()
						}
					}
					for _, l := range lengthGrid(u.Span[0], u.Span[1], lay, 4096, false) {
						ts := map[string][]byte{}
						for n, b := range st {
							ts[n] = b
						}
						if len(ts[u.Name]) <= l {
							continue
						}
						ts[u.Name] = ts[u.Name][:l]
						res.Extra["torn-crash-states:"+c.Conf]++
						addV(freshOn(class+"+crash-torn", ts), schedule)
					}
				}
			}
		}
		panics := s.RunThreads(bodies, choose, between)
		s.End()
		for i := range rts {
			rts[i].Close(ctx)
			caches[i].Close(ctx)
		}
		for i, pv := range panics {
			if pv != nil {
				fw.Fatalf("adders: thread %d panicked: %v", i, pv)
			}
		}
		if len(schedule) < len(c.Shard) {
			for _, x := range c.Shard[len(schedule):] {
				if x != 0 {
					infeasible = true
				}
			}
		}
		if !infeasible {
			res.Extra["interleavings:"+c.Conf]++
			res.Evals++
			class := c.Conf + ":final"
			for i, e := range errs {
				if e != nil {
					res.Outcomes["adders:compile-error"]++
					op := "?"
					if es := e.Error(); strings.Contains(es, "rename") {
						op = "rename"
					} else if strings.Contains(es, "compilationcache") {
						op = "load"
					}
					addV([]viol{{phase + ":" + c.Conf + ":compile-error-" + op, fmt.Sprintf("thread %d (%s): CompileModule failed although nothing but the other adder interfered: %v", i, mods[i].Spec.Name, e)}}, schedule)
				}
			}
			st := readState(sub)
			want := map[string]bool{}
			for _, m := range distinctMods {
				want[m.Key] = true
				if F, ok := st[m.Key]; !ok || !bytes.Equal(F, m.Entry) {
					addV([]viol{{phase + ":" + c.Conf + ":final-entry-missing-or-incomplete", fmt.Sprintf("%s: after both CompileModule calls returned the final name holds %s", m.Spec.Name, describeState(st, m))}}, schedule)
				}
			}
			left := 0
			for n := range st {
				if !want[n] {
					left++
				}
			}
			if left == 0 {
				res.Outcomes["adders-final:entries-only"]++
			} else {
				res.Outcomes["adders-final:leftover-staging-file"]++
				addV([]viol{{phase + ":" + c.Conf + ":leftover-staging-file", fmt.Sprintf("after both CompileModule calls returned the directory holds %d file(s) besides the final entries: %s", left, describeState(st, mods[0]))}}, schedule)
			}
			// a later process on the final directory (hit + correct behaviour); memoised like the
			// intermediate states: recovery is a function of the directory content only
			addV(freshOn(class, st), schedule)
		}
		os.RemoveAll(top)
		if infeasible {
			res.Outcomes["adders:shard-infeasible"]++
			return res
		}
		for len(stack) > 0 && stack[len(stack)-1].idx == len(stack[len(stack)-1].enabled)-1 {
			stack = stack[:len(stack)-1]
		}
		if len(stack) == 0 {
			return res
		}
		stack[len(stack)-1].idx++
	}
}
