package main

import (
	"fmt"
	"os"

	"github.com/tetratelabs/wazero/verif/wb"
)

// Corpus: wb-built modules with 1..300 functions. Every function is exported; the salt changes
// constants (and therefore results and machine code) without changing the module's shape, so
// that a "decoy" entry — the compiled code of the salted twin — can be planted under the key of
// the unsalted module: executing it is then observable as a behaviour difference.

type modSpec struct {
	Name   string `json:"name"`
	N      int    `json:"n"`
	Flavor int    `json:"flavor"`
	Dwarf  string `json:"dwarf,omitempty"` // path below /repo of a DWARF test binary
	Only   string `json:"only,omitempty"`  // non-empty: the module is used by that family only
}

const (
	flArith = iota
	flCalls
	flMem
	flIndirect
	flLoop64
	flGlobals
	flMixed
	flCount
)

var flavorNames = []string{"arith", "calls", "mem", "indirect", "loop64", "globals", "mixed"}

func corpusSpecs(thorough bool) []modSpec {
	var out []modSpec
	// a module without any function (memory + data only): its entry has an empty code segment
	out = append(out, modSpec{Name: "nofunc-0", N: 0, Flavor: flMem})
	add := func(n, fl int) {
		out = append(out, modSpec{Name: fmt.Sprintf("%s-%d", flavorNames[fl], n), N: n, Flavor: fl})
	}
	if !thorough {
		add(1, flArith)
		add(2, flCalls)
		add(3, flMem)
		add(5, flIndirect)
		add(8, flLoop64)
		add(12, flGlobals)
		add(17, flMixed)
		add(40, flCalls)
		add(100, flMixed)
		add(300, flArith)
		out = append(out, modSpec{Name: "dwarf-zig-cc", Dwarf: "internal/testing/dwarftestdata/testdata/zig-cc/main.wasm"})
		return append(out, bigDieModule)
	}
	ns := []int{1, 2, 3, 4, 5, 7, 8, 12, 16, 17, 25, 33, 50, 64, 100, 150, 200, 300}
	for i, n := range ns {
		add(n, i%flCount)
		add(n, (i+3)%flCount)
	}
	add(300, flMixed)
	add(300, flCalls)
	out = append(out, modSpec{Name: "dwarf-zig-cc", Dwarf: "internal/testing/dwarftestdata/testdata/zig-cc/main.wasm"})
	out = append(out, modSpec{Name: "dwarf-zig", Dwarf: "internal/testing/dwarftestdata/testdata/zig/main.wasm"})
	return append(out, bigDieModule)
}

// bigDieModule has an entry > 64 KiB (several rounds of io.Copy's 32 KiB buffer); it is used only by
// the "writer dies inside Add" family (die.go) so that the other families' cost is unchanged.
var bigDieModule = modSpec{Name: "mem-300", N: 300, Flavor: flMem, Only: "die"}

const (
	opI32Add      = 0x6a
	opI32Sub      = 0x6b
	opI32Mul      = 0x6c
	opI32DivU     = 0x6e
	opI32RemU     = 0x70
	opI32And      = 0x71
	opI32Xor      = 0x73
	opI32Shl      = 0x74
	opI32ShrU     = 0x76
	opI32Rotl     = 0x77
	opI32Eqz      = 0x45
	opI32Eq       = 0x46
	opI64Add      = 0x7c
	opI64Mul      = 0x7e
	opI64DivU     = 0x80
	opI64And      = 0x83
	opI64Xor      = 0x85
	opI64Rotl     = 0x89
	opI64ExtU     = 0xad
	opI32Wrap     = 0xa7
	opF64ConvI64U = 0xba
	opF64Mul      = 0xa2
	opF64Add      = 0xa0
	opF64Sqrt     = 0x9f
	opI64Reinterp = 0xbd
	blockVoid     = 0x40
)

// build returns the wasm binary of (spec, salt). For DWARF specs the salt is ignored (no decoy).
func build(sp modSpec, salt int) []byte {
	if sp.Dwarf != "" {
		b, err := os.ReadFile("/repo/" + sp.Dwarf)
		if err != nil {
			panic(err)
		}
		return b
	}
	m := &wb.Module{}
	i32, i64 := []byte{wb.I32}, []byte{wb.I64}
	n := sp.N
	needMem := sp.Flavor == flMem || sp.Flavor == flMixed
	needTab := sp.Flavor == flIndirect || sp.Flavor == flMixed
	needGlob := sp.Flavor == flGlobals || sp.Flavor == flMixed
	if needMem {
		m.Mem = &wb.Limits{Min: 1, Max: 2, HasMax: true}
		data := make([]byte, 64)
		for i := range data {
			data[i] = byte(i*7 + salt*13 + 1)
		}
		m.Datas = append(m.Datas, wb.Data{Offset: wb.CI32(16), Bytes: data})
	}
	var g uint32
	if needGlob {
		g = m.AddGlobal(wb.I32, true, wb.CI32(int32(5+salt)))
	}
	s := int32(salt)
	arith := func(i int) []byte {
		return (&wb.Asm{}).LocalGet(0).I32Const(int32(uint32(i+1)*2654435761) + s*977).Op(opI32Mul).
			LocalGet(0).I32Const(int32(i%31 + 1)).Op(opI32Rotl).Op(opI32Xor).I32Const(s*31 + int32(i)).Op(opI32Add).B
	}
	// i32 function index of the k-th function with an (i32)->(i32) signature, needed by
	// call/call_indirect targets in mixed modules (loop64 functions have another type).
	i32Funcs := []uint32{}
	kind := func(i int) int {
		if sp.Flavor == flMixed {
			return []int{flArith, flCalls, flMem, flIndirect, flLoop64, flGlobals}[i%6]
		}
		return sp.Flavor
	}
	for i := 0; i < n; i++ {
		k := kind(i)
		var idx uint32
		switch {
		case k == flArith, len(i32Funcs) == 0 && (k == flCalls || k == flIndirect):
			idx = m.AddFunc(i32, i32, nil, arith(i))
		case k == flCalls:
			callee := i32Funcs[(len(i32Funcs)-1)/2]
			idx = m.AddFunc(i32, i32, nil, (&wb.Asm{}).LocalGet(0).I32Const(1).Op(opI32Add).Call(callee).
				I32Const(int32(i*7)+s).Op(opI32Add).B)
		case k == flMem:
			a := (&wb.Asm{}).
				LocalGet(0).I32Const(0xff).Op(opI32And).I32Const(2).Op(opI32Shl). // addr
				LocalGet(0).I32Const(int32(i)+s).Op(opI32Add).
				Mem(0x36, 2, uint64((i*4)%1024+128)).       // i32.store
				I32Const(int32((i*12)%60)).Mem(0x28, 0, 16) // i32.load from the data segment
			if i%7 == 3 || n < 4 {
				// out-of-bounds load when the argument is 2
				a.LocalGet(0).I32Const(2).Op(opI32Eq).If(blockVoid).I32Const(0x7ffffff0).Mem(0x28, 2, 0).Drop().End()
			}
			a.LocalGet(0).I32Const(0xff).Op(opI32And).I32Const(2).Op(opI32Shl).Mem(0x28, 2, uint64((i*4)%1024+128)).Op(opI32Add)
			idx = m.AddFunc(i32, i32, nil, a.B)
		case k == flIndirect:
			// odd argument: call_indirect an earlier (i32)->(i32) function with arg>>1
			cnt := int32(len(i32Funcs))
			a := (&wb.Asm{}).LocalGet(0).I32Const(1).Op(opI32And).If(wb.I32).
				LocalGet(0).I32Const(1).Op(opI32ShrU).
				LocalGet(0).I32Const(1).Op(opI32ShrU).I32Const(cnt).Op(opI32RemU).
				CallIndirect(m.Type(i32, i32), 0).
				Else().
				LocalGet(0).I32Const(3 + s).Op(opI32Mul).I32Const(int32(i)).Op(opI32Add).
				End()
			idx = m.AddFunc(i32, i32, nil, a.B)
		case k == flLoop64:
			// (i64)->(i64): acc over (x&15)+i%3 iterations, f64 round trip, division that traps for x&3==0 on some
			a := (&wb.Asm{}).
				LocalGet(0).I64Const(15).Op(opI64And).I64Const(int64(i % 3)).Op(opI64Add).LocalSet(1).
				I64Const(int64(1469598103934665603) + int64(salt)).LocalSet(2).
				Block(blockVoid).Loop(blockVoid).
				LocalGet(1).Op(0x50).BrIf(1). // i64.eqz
				LocalGet(2).I64Const(1099511628211).Op(opI64Mul).LocalGet(1).Op(opI64Xor).I64Const(int64(i%63 + 1)).Op(opI64Rotl).LocalSet(2).
				LocalGet(1).I64Const(1).Op(0x7d).LocalSet(1). // i64.sub
				Br(0).End().End().
				LocalGet(2).Op(opF64ConvI64U).F64Const(wb.F64Bits(1.5 + float64(salt))).Op(opF64Mul).Op(opF64Sqrt).Op(opI64Reinterp).
				LocalGet(2).Op(opI64Add)
			if i%5 == 4 || n < 3 {
				a.LocalGet(0).I64Const(3).Op(opI64And).Op(opI64DivU) // traps when x&3 == 0
			}
			idx = m.AddFunc(i64, i64, []byte{wb.I64, wb.I64}, a.B)
		case k == flGlobals:
			a := (&wb.Asm{}).GlobalGet(g).LocalGet(0).Op(opI32Add).I32Const(int32(i) + s).Op(opI32Add).GlobalSet(g).GlobalGet(g)
			if i%4 == 1 {
				a.LocalGet(0).Op(opI32Eqz).If(blockVoid).Unreachable().End()
			}
			idx = m.AddFunc(i32, i32, nil, a.B)
		}
		if k != flLoop64 {
			i32Funcs = append(i32Funcs, idx)
		}
		m.ExportFunc(fmt.Sprintf("f%d", i), idx)
	}
	if needTab {
		cnt := len(i32Funcs)
		if cnt == 0 {
			cnt = 1
		}
		m.Tables = append(m.Tables, wb.Table{Elem: wb.FuncRef, Lim: wb.Limits{Min: uint32(cnt)}})
		if len(i32Funcs) > 0 {
			m.Elems = append(m.Elems, wb.Elem{Mode: 0, Offset: wb.CI32(0), Funcs: i32Funcs})
		}
	}
	if needGlob && n >= 2 {
		// start function: g = 100 + salt
		st := m.AddFunc(nil, nil, nil, (&wb.Asm{}).I32Const(100+s).GlobalSet(g).B)
		m.Start = &st
	}
	if needMem {
		m.Exports = append(m.Exports, wb.Export{Name: "memory", Kind: wb.KindMemory, Idx: 0})
	}
	return m.Encode()
}
