package main

// Own field map of a wasm binary produced by wb: an independent walker (it shares no code with
// wazero's decoder) that records the offset, length and kind of every LEB128 field — section sizes,
// vector counts, name lengths, indexes, limits, body sizes, local counts and every LEB instruction
// immediate — plus, for the size fields, the extent they cover so that a length-changing deviation
// can optionally be "fixed up" (enclosing sizes kept consistent) to reach deeper decoder states.
//
// The walker only has to understand the valid modules of the corpus; it panics (harness error) on
// anything it does not understand, so an incomplete field map cannot go unnoticed.

import "fmt"

type field struct {
	Off, Len int
	Kind     string // e.g. "sec.size", "vec.count", "name.len", "idx.func", "imm.memarg.offset", ...
	Signed   bool   // signed LEB (i32.const, i64.const, block type)
	ByteImm  bool   // a single-byte immediate (reserved byte, lane index, reference type): not a LEB in the
	// specification, so a padded encoding is a deviation like any other, not a must-accept re-encoding
	Bits     int    // 32, 33 or 64
	// for size fields: the extent [CS, CE) of the content they measure (original coordinates)
	IsSize bool
	CS, CE int
	// a function-index field (ref.func / call immediates, start, exports) of a module that has element items
	// written as `global.get`: gets the tag-bit replacement values that element items always get
	TagVals bool
}

type walker struct {
	b      []byte
	p      int
	fields []field
	ops    []seenOp // every instruction seen by instrs, with its first LEB immediate
	inElemItem bool // walking an item expression of an element segment
	elemGlobalGet bool // some element item expression is a global.get
	types  []typeSite // every position that holds a value/reference type or a block type (retype pass)
	nTypes int        // entries of the type section
	secs   []*secInfo // every section with the extents of its vector entries (drop-dependency pass)
	// declared signatures, read independently of wazero (signature oracle)
	typeDefs  [][2][]byte // params, results of every type
	funcTypes []uint64    // type index of every function (imports first)
	expFuncs  map[string]uint64
}

// exportSigs returns the declared (params, results) of every exported function of a binary as this
// walker reads them; ok is false when the walker does not understand the binary.
func exportSigs(b []byte) (sigs map[string][2][]byte, ok bool) {
	defer func() {
		if recover() != nil {
			sigs, ok = nil, false
		}
	}()
	w := walkModule(b)
	sigs = map[string][2][]byte{}
	for name, fi := range w.expFuncs {
		if fi >= uint64(len(w.funcTypes)) || w.funcTypes[fi] >= uint64(len(w.typeDefs)) {
			return nil, false
		}
		sigs[name] = w.typeDefs[w.funcTypes[fi]]
	}
	return sigs, true
}

// secInfo locates one section and, for the vector sections whose entries other parts of the module
// depend on (imports, tables, memories, globals, exports, element and data segments), each entry.
type secInfo struct {
	ID                byte
	Start, CS, End    int // id byte, content start, end
	CountOff, CountLen int
	Count             uint64
	starts            []int // start offset of each entry (entries are contiguous up to End)
}

func (si *secInfo) entry(k int) (from, to int) {
	from = si.starts[k]
	to = si.End
	if k+1 < len(si.starts) {
		to = si.starts[k+1]
	}
	return
}

// dropSection returns b without the section.
func dropSection(b []byte, si *secInfo) []byte {
	return append(append([]byte{}, b[:si.Start]...), b[si.End:]...)
}

// dropEntry returns b with entry k of the vector section removed, the count decremented and the section
// size adjusted; everything else (in particular the code section) is left untouched.
func dropEntry(b []byte, si *secInfo, k int) []byte {
	from, to := si.entry(k)
	content := append([]byte{}, uleb(si.Count-1)...)
	content = append(content, b[si.CountOff+si.CountLen:from]...)
	content = append(content, b[to:si.End]...)
	out := append([]byte{}, b[:si.Start]...)
	out = append(out, si.ID)
	out = append(out, uleb(uint64(len(content)))...)
	out = append(out, content...)
	return append(out, b[si.End:]...)
}

// typeSite is a position of the binary that names a type: a value-type byte (function type entry, local
// declaration, global type, table element type, element segment type, select t*, ref.null) or the block
// type of block/loop/if (value-type byte, 0x40, or a type index).
type typeSite struct {
	Off, Len int
	Kind     string
	Block    bool
}

func (w *walker) typeByte(kind string) byte {
	w.types = append(w.types, typeSite{Off: w.p, Len: 1, Kind: kind})
	return w.byte_()
}

type seenOp struct {
	Prefix byte   // 0, 0xfc, 0xfd or 0xfe
	Op     uint32 // opcode (sub-opcode for prefixed instructions)
	Imm    uint64 // first LEB immediate, if any
}

func (w *walker) fail(format string, a ...any) {
	panic(fmt.Sprintf("fieldmap: at %d: %s", w.p, fmt.Sprintf(format, a...)))
}

func (w *walker) byte_() byte {
	if w.p >= len(w.b) {
		w.fail("eof")
	}
	c := w.b[w.p]
	w.p++
	return c
}

// imm1 reads a single-byte immediate and records it as a field of its own.
func (w *walker) imm1(kind string) byte {
	start := w.p
	c := w.byte_()
	w.fields = append(w.fields, field{Off: start, Len: 1, Kind: kind, Bits: 32, ByteImm: true})
	return c
}

// uleb reads an unsigned LEB and records it.
func (w *walker) uleb(kind string) uint64 {
	start := w.p
	var v uint64
	var sh uint
	for {
		c := w.byte_()
		v |= uint64(c&0x7f) << sh
		sh += 7
		if c&0x80 == 0 {
			break
		}
	}
	w.fields = append(w.fields, field{Off: start, Len: w.p - start, Kind: kind, Bits: 32})
	return v
}

func (w *walker) sleb(kind string, bits int) int64 {
	start := w.p
	var v int64
	var sh uint
	var c byte
	for {
		c = w.byte_()
		v |= int64(c&0x7f) << sh
		sh += 7
		if c&0x80 == 0 {
			break
		}
	}
	if sh < 64 && c&0x40 != 0 {
		v |= -1 << sh
	}
	w.fields = append(w.fields, field{Off: start, Len: w.p - start, Kind: kind, Signed: true, Bits: bits})
	return v
}

// size reads a size field and returns the index of the recorded field; the caller sets CS/CE.
func (w *walker) size(kind string) (int, int) {
	v := w.uleb(kind)
	i := len(w.fields) - 1
	w.fields[i].IsSize = true
	w.fields[i].CS = w.p
	w.fields[i].CE = w.p + int(v)
	if w.fields[i].CE > len(w.b) {
		w.fail("size %s beyond end", kind)
	}
	return i, int(v)
}

func (w *walker) name(kind string) {
	n := w.uleb(kind)
	w.p += int(n)
	if w.p > len(w.b) {
		w.fail("name beyond end")
	}
}

func (w *walker) limits(prefix string) {
	f := w.byte_()
	w.uleb(prefix + ".min")
	if f&1 != 0 {
		w.uleb(prefix + ".max")
	}
}

func (w *walker) constExpr() {
	w.instrs(true)
}

// elemItemsUseGlobalGet reports whether some element item of the binary is written as `global.get`;
// parsed is false when this walker does not understand the binary (classification aid only).
func elemItemsUseGlobalGet(b []byte) (found, parsed bool) {
	defer func() {
		if recover() != nil {
			found, parsed = false, false
		}
	}()
	w := walkModule(b)
	return w.elemGlobalGet, true
}

// fieldMap walks a complete module.
func fieldMap(b []byte) []field {
	return walkModule(b).fields
}

func walkModule(b []byte) *walker {
	w := &walker{b: b, p: 8}
	for w.p < len(b) {
		secStart := w.p
		id := w.byte_()
		_, n := w.size("sec.size")
		end := w.p + n
		cur := &secInfo{ID: id, Start: secStart, CS: w.p, End: end}
		w.secs = append(w.secs, cur)
		switch id {
		case 0:
			nameStart := w.p
			nl := w.uleb("custom.name.len")
			nm := string(w.b[w.p : w.p+int(nl)])
			w.p += int(nl)
			_ = nameStart
			if nm == "name" {
				for w.p < end {
					sub := w.byte_()
					_, sn := w.size("namesec.sub.size")
					send := w.p + sn
					switch sub {
					case 0:
						w.name("namesec.module.len")
					case 1:
						c := w.uleb("namesec.func.count")
						for i := uint64(0); i < c; i++ {
							w.uleb("namesec.func.idx")
							w.name("namesec.func.name.len")
						}
					case 2:
						c := w.uleb("namesec.local.count")
						for i := uint64(0); i < c; i++ {
							w.uleb("namesec.local.funcidx")
							lc := w.uleb("namesec.local.lcount")
							for j := uint64(0); j < lc; j++ {
								w.uleb("namesec.local.idx")
								w.name("namesec.local.name.len")
							}
						}
					default:
						w.p = send
					}
					if w.p != send {
						w.fail("name subsection %d length", sub)
					}
				}
			}
			w.p = end
		case 1:
			c := w.uleb("type.count")
			for i := uint64(0); i < c; i++ {
				if w.byte_() != 0x60 {
					w.fail("functype")
				}
				pc := w.uleb("type.param.count")
				var td [2][]byte
				for j := uint64(0); j < pc; j++ {
					td[0] = append(td[0], w.typeByte("type.param"))
				}
				rc := w.uleb("type.result.count")
				for j := uint64(0); j < rc; j++ {
					td[1] = append(td[1], w.typeByte("type.result"))
				}
				w.typeDefs = append(w.typeDefs, td)
				w.nTypes++
			}
		case 2:
			c := w.uleb("import.count")
			cur.Count, cur.CountOff, cur.CountLen = c, w.fields[len(w.fields)-1].Off, w.fields[len(w.fields)-1].Len
			for i := uint64(0); i < c; i++ {
				cur.starts = append(cur.starts, w.p)
				w.name("import.module.len")
				w.name("import.name.len")
				switch k := w.byte_(); k {
				case 0:
					w.funcTypes = append(w.funcTypes, w.uleb("import.func.typeidx"))
				case 1:
					w.typeByte("import.table.type")
					w.limits("import.table")
				case 2:
					w.limits("import.mem")
				case 3:
					w.typeByte("import.global.type")
					w.byte_()
				default:
					w.fail("import kind %d", k)
				}
			}
		case 3:
			c := w.uleb("func.count")
			for i := uint64(0); i < c; i++ {
				w.funcTypes = append(w.funcTypes, w.uleb("func.typeidx"))
			}
		case 4:
			c := w.uleb("table.count")
			cur.Count, cur.CountOff, cur.CountLen = c, w.fields[len(w.fields)-1].Off, w.fields[len(w.fields)-1].Len
			for i := uint64(0); i < c; i++ {
				cur.starts = append(cur.starts, w.p)
				w.typeByte("table.type")
				w.limits("table")
			}
		case 5:
			c := w.uleb("mem.count")
			cur.Count, cur.CountOff, cur.CountLen = c, w.fields[len(w.fields)-1].Off, w.fields[len(w.fields)-1].Len
			for i := uint64(0); i < c; i++ {
				cur.starts = append(cur.starts, w.p)
				w.limits("mem")
			}
		case 6:
			c := w.uleb("global.count")
			cur.Count, cur.CountOff, cur.CountLen = c, w.fields[len(w.fields)-1].Off, w.fields[len(w.fields)-1].Len
			for i := uint64(0); i < c; i++ {
				cur.starts = append(cur.starts, w.p)
				w.typeByte("global.type")
				w.byte_()
				w.constExpr()
			}
		case 7:
			c := w.uleb("export.count")
			cur.Count, cur.CountOff, cur.CountLen = c, w.fields[len(w.fields)-1].Off, w.fields[len(w.fields)-1].Len
			for i := uint64(0); i < c; i++ {
				cur.starts = append(cur.starts, w.p)
				nl := w.uleb("export.name.len")
				nm := string(w.b[w.p : w.p+int(nl)])
				w.p += int(nl)
				kind := w.byte_()
				ei := w.uleb("export.idx")
				if kind == 0 {
					if w.expFuncs == nil {
						w.expFuncs = map[string]uint64{}
					}
					w.expFuncs[nm] = ei
				}
			}
		case 8:
			w.uleb("start.funcidx")
		case 9:
			c := w.uleb("elem.count")
			cur.Count, cur.CountOff, cur.CountLen = c, w.fields[len(w.fields)-1].Off, w.fields[len(w.fields)-1].Len
			for i := uint64(0); i < c; i++ {
				cur.starts = append(cur.starts, w.p)
				flag := w.uleb("elem.flag")
				if flag&3 == 2 {
					w.uleb("elem.tableidx")
				}
				if flag&1 == 0 {
					w.constExpr()
				}
				if flag&3 != 0 {
					if flag&4 != 0 {
						w.typeByte("elem.type")
					} else {
						w.byte_() // elemkind
					}
				}
				n := w.uleb("elem.init.count")
				for j := uint64(0); j < n; j++ {
					if flag&4 != 0 {
						w.inElemItem = true
						w.constExpr()
						w.inElemItem = false
					} else {
						w.uleb("elem.init.funcidx")
					}
				}
			}
		case 10:
			c := w.uleb("code.count")
			for i := uint64(0); i < c; i++ {
				_, bn := w.size("code.body.size")
				bend := w.p + bn
				lg := w.uleb("code.localgroups.count")
				for j := uint64(0); j < lg; j++ {
					w.uleb("code.local.n")
					w.typeByte("code.local.type")
				}
				w.instrs(true)
				if w.p != bend {
					w.fail("body length: at %d want %d", w.p, bend)
				}
			}
		case 11:
			c := w.uleb("data.count")
			cur.Count, cur.CountOff, cur.CountLen = c, w.fields[len(w.fields)-1].Off, w.fields[len(w.fields)-1].Len
			for i := uint64(0); i < c; i++ {
				cur.starts = append(cur.starts, w.p)
				flag := w.uleb("data.flag")
				if flag == 2 {
					w.uleb("data.memidx")
				}
				if flag != 1 {
					w.constExpr()
				}
				n := w.uleb("data.size")
				w.p += int(n)
			}
		case 12:
			w.uleb("datacount")
		default:
			w.fail("section id %d", id)
		}
		if w.p != end {
			w.fail("section %d length: at %d want %d", id, w.p, end)
		}
	}
	if w.elemGlobalGet {
		// wazero stores an element item `global.get g` in the function-index space as g | 1<<30: every field
		// that names a function then also takes the tagged values (is g | 1<<30 mistaken for a function?)
		for i := range w.fields {
			switch w.fields[i].Kind {
			case "imm.funcidx", "start.funcidx", "export.idx", "namesec.func.idx":
				w.fields[i].TagVals = true
			}
		}
	}
	return w
}

// instrs walks an instruction sequence up to and including the `end` that closes it.
func (w *walker) instrs(untilEnd bool) {
	depth := 0
	for {
		op := w.byte_()
		nf := len(w.fields)
		w.ops = append(w.ops, seenOp{Op: uint32(op)})
		cur := len(w.ops) - 1
		switch {
		case op == 0x0b:
			if depth == 0 {
				return
			}
			depth--
		case op == 0x02 || op == 0x03 || op == 0x04:
			bs := w.p
			w.sleb("imm.blocktype", 33)
			w.types = append(w.types, typeSite{Off: bs, Len: w.p - bs, Kind: "blocktype", Block: true})
			depth++
		case op == 0x0c || op == 0x0d:
			w.uleb("imm.label")
		case op == 0x0e:
			n := w.uleb("imm.brtable.count")
			for i := uint64(0); i < n; i++ {
				w.uleb("imm.brtable.label")
			}
			w.uleb("imm.brtable.default")
		case op == 0x10 || op == 0x12:
			w.uleb("imm.funcidx")
		case op == 0x11 || op == 0x13:
			w.uleb("imm.typeidx")
			w.uleb("imm.tableidx")
		case op == 0x1c:
			n := w.uleb("imm.select.count")
			for i := uint64(0); i < n; i++ {
				w.types = append(w.types, typeSite{Off: w.p, Len: 1, Kind: "select.type"})
				w.imm1("imm.select.type")
			}
		case op >= 0x20 && op <= 0x22:
			w.uleb("imm.localidx")
		case op == 0x23 || op == 0x24:
			if w.inElemItem && op == 0x23 {
				w.elemGlobalGet = true
			}
			w.uleb("imm.globalidx")
		case op == 0x25 || op == 0x26:
			w.uleb("imm.tableidx")
		case op >= 0x28 && op <= 0x3e:
			w.uleb("imm.memarg.align")
			w.uleb("imm.memarg.offset")
		case op == 0x3f || op == 0x40:
			w.imm1("imm.reserved.memidx")
		case op == 0x41:
			w.sleb("imm.i32", 32)
		case op == 0x42:
			w.sleb("imm.i64", 64)
		case op == 0x43:
			w.p += 4
		case op == 0x44:
			w.p += 8
		case op == 0xd0:
			w.types = append(w.types, typeSite{Off: w.p, Len: 1, Kind: "ref.null.type"})
			w.imm1("imm.reftype")
		case op == 0xd2:
			if w.inElemItem {
				w.uleb("elem.init.reffunc")
			} else {
				w.uleb("imm.funcidx")
			}
		case op == 0xfc:
			sub := w.uleb("imm.misc.op")
			switch sub {
			case 0, 1, 2, 3, 4, 5, 6, 7:
			case 8:
				w.uleb("imm.dataidx")
				w.imm1("imm.reserved.memidx")
			case 9:
				w.uleb("imm.dataidx")
			case 10:
				w.imm1("imm.reserved.memidx")
				w.imm1("imm.reserved.memidx")
			case 11:
				w.imm1("imm.reserved.memidx")
			case 12:
				w.uleb("imm.elemidx")
				w.uleb("imm.tableidx")
			case 13:
				w.uleb("imm.elemidx")
			case 14:
				w.uleb("imm.tableidx")
				w.uleb("imm.tableidx")
			case 15, 16, 17:
				w.uleb("imm.tableidx")
			default:
				w.fail("misc op %d", sub)
			}
		case op == 0xfd:
			sub := w.uleb("imm.simd.op")
			switch {
			case sub <= 11 || sub == 92 || sub == 93:
				w.uleb("imm.memarg.align")
				w.uleb("imm.memarg.offset")
			case sub == 12 || sub == 13:
				w.p += 16
			case sub >= 21 && sub <= 34:
				w.imm1("imm.lane")
			case sub >= 84 && sub <= 91:
				w.uleb("imm.memarg.align")
				w.uleb("imm.memarg.offset")
				w.imm1("imm.lane")
			}
		case op == 0xfe:
			sub := w.uleb("imm.atomic.op")
			if sub == 3 {
				w.imm1("imm.reserved.fence")
			} else {
				w.uleb("imm.memarg.align")
				w.uleb("imm.memarg.offset")
			}
		}
		if w.p > len(w.b) {
			w.fail("instruction beyond end")
		}
		if len(w.fields) > nf {
			first := w.fields[nf]
			v := readULEB(w.b[first.Off : first.Off+first.Len])
			if op == 0xfc || op == 0xfd || op == 0xfe {
				w.ops[cur].Prefix, w.ops[cur].Op = op, uint32(v)
				if len(w.fields) > nf+1 {
					second := w.fields[nf+1]
					w.ops[cur].Imm = readULEB(w.b[second.Off : second.Off+second.Len])
				}
			} else {
				w.ops[cur].Imm = v
			}
		}
	}
}

// scanBody lists the instructions of one function body (without the locals); nil if this walker does
// not understand it (only used to classify failures, never as an oracle).
func scanBody(body []byte) (ops []seenOp) {
	defer func() {
		if recover() != nil {
			ops = nil
		}
	}()
	w := &walker{b: body}
	w.instrs(true)
	return w.ops
}

// ---------------------------------------------------------------------------------------------
// deviations

// the ten replacement values of the design (8 and 9 depend on the original field) plus three more
// non-canonical encodings: the original value padded to 2 and to 3 bytes, and `ff 7f`. Pairs of
// deviations use the first ten only.
const (
	nBaseValues = 13
	nPairValues = 10
)

// extraVal: further replacement values (second seeded miss: wazero keeps internal tag bits inside index
// spaces — 2^30 = "element item comes from global k", 2^31 = "null reference" — and a weakened range
// check lets an index in [2^27, 2^31) collide with them). Every field additionally gets every power of
// two 2^k, k = 0..32, and 2^k-1 and 2^k|1 for k = 26..31 (minus the values already in the base set);
// the items of element segments also get 2^30|k and 2^31|k for k = 0..3 (tag bit + small index).
type extraVal struct {
	name     string
	v        uint64
	elemOnly bool
}

var extraVals = func() []extraVal {
	base := map[uint64]bool{0: true, 1: true, 0x7f: true, 0x80: true, 1 << 16: true, 1<<31 - 1: true, 1 << 31: true, 1<<32 - 1: true}
	var out []extraVal
	add := func(name string, v uint64, elemOnly bool) {
		if base[v] {
			return
		}
		base[v] = true
		out = append(out, extraVal{name, v, elemOnly})
	}
	for k := 0; k <= 32; k++ {
		add(fmt.Sprintf("2^%d", k), 1<<uint(k), false)
	}
	for k := 26; k <= 31; k++ {
		add(fmt.Sprintf("2^%d-1", k), 1<<uint(k)-1, false)
		add(fmt.Sprintf("2^%d|1", k), 1<<uint(k)|1, false)
	}
	for _, k := range []uint64{0, 1, 2, 3} {
		add(fmt.Sprintf("2^30|%d", k), 1<<30|k, true)
		add(fmt.Sprintf("2^31|%d", k), 1<<31|k, true)
	}
	return out
}()

var nDevValues = nBaseValues + len(extraVals)

var devNames = func() []string {
	n := []string{"0", "1", "0x7f", "0x80", "2^16", "2^31-1", "2^31", "2^32-1", "overlong", "6-byte", "pad2", "pad3", "ff7f"}
	for _, e := range extraVals {
		n = append(n, e.name)
	}
	return n
}()

// legalPadding: replacement #v is a legal re-encoding of the same value when the field is a LEB128 in
// the specification (padding up to the width limit).
func legalPadding(f field, v int) bool {
	return !f.ByteImm && (v == 8 || v == 10 || v == 11)
}

func pad(orig []byte, signed bool, to int) []byte {
	if len(orig) >= to {
		return nil
	}
	out := append([]byte{}, orig...)
	last := out[len(out)-1]
	fill, fin := byte(0x80), byte(0x00)
	if signed && last&0x40 != 0 {
		fill, fin = 0xff, 0x7f
	}
	out[len(out)-1] = last | 0x80
	for len(out) < to-1 {
		out = append(out, fill)
	}
	return append(out, fin)
}

// devBytes returns the replacement encoding #v for field f of seed b (nil = not applicable / identity).
func devBytes(b []byte, f field, v int) []byte {
	orig := b[f.Off : f.Off+f.Len]
	var r []byte
	switch v {
	case 0:
		r = []byte{0x00}
	case 1:
		r = []byte{0x01}
	case 2:
		r = []byte{0x7f}
	case 3:
		r = []byte{0x80, 0x01}
	case 4:
		r = []byte{0x80, 0x80, 0x04}
	case 5:
		r = []byte{0xff, 0xff, 0xff, 0xff, 0x07}
	case 6:
		r = []byte{0x80, 0x80, 0x80, 0x80, 0x08}
	case 7:
		r = []byte{0xff, 0xff, 0xff, 0xff, 0x0f}
	case 8:
		max := 5
		if f.Bits == 64 {
			max = 10
		}
		r = pad(orig, f.Signed, max)
	case 9:
		r = pad(orig, f.Signed, 6)
	case 10:
		r = pad(orig, f.Signed, 2)
	case 11:
		r = pad(orig, f.Signed, 3)
	case 12:
		r = []byte{0xff, 0x7f}
	default:
		e := extraVals[v-nBaseValues]
		elemItem := f.Kind == "elem.init.funcidx" || f.Kind == "elem.init.reffunc" || f.TagVals
		if e.elemOnly && !elemItem {
			return nil
		}
		// the number of locals is unbounded in wazero (open finding alloc:...decodeCode:localTypes): every
		// value between 2^18 and 2^31 costs seconds to minutes of CPU per evaluation and only re-hits it
		if f.Kind == "code.local.n" && e.v > 1<<18 {
			return nil
		}
		r = uleb(e.v)
	}
	if r == nil || string(r) == string(orig) {
		return nil
	}
	return r
}

func uleb(v uint64) []byte {
	var b []byte
	for {
		c := byte(v & 0x7f)
		v >>= 7
		if v != 0 {
			b = append(b, c|0x80)
		} else {
			return append(b, c)
		}
	}
}

func readULEB(b []byte) uint64 {
	var v uint64
	var sh uint
	for _, c := range b {
		v |= uint64(c&0x7f) << sh
		sh += 7
		if c&0x80 == 0 {
			break
		}
	}
	return v
}

type edit struct {
	off, oldLen int
	repl        []byte
}

// applyEdits replaces the given fields; with fixup, every size field that is not itself edited and
// whose extent contains an edit has its value adjusted by the net length change inside it
// (innermost first, so that a size field whose own encoding grows is accounted for in the outer ones).
func applyEdits(b []byte, fields []field, devs map[int][]byte, fixup bool) []byte {
	var edits []edit
	for i, r := range devs {
		edits = append(edits, edit{fields[i].Off, fields[i].Len, r})
	}
	if fixup {
		// size fields sorted by extent length ascending = innermost first (extents nest)
		var sizes []int
		for i, f := range fields {
			if f.IsSize {
				if _, dev := devs[i]; !dev {
					sizes = append(sizes, i)
				}
			}
		}
		for i := 1; i < len(sizes); i++ {
			for j := i; j > 0 && fields[sizes[j]].CE-fields[sizes[j]].CS < fields[sizes[j-1]].CE-fields[sizes[j-1]].CS; j-- {
				sizes[j], sizes[j-1] = sizes[j-1], sizes[j]
			}
		}
		for _, si := range sizes {
			f := fields[si]
			delta := 0
			for _, e := range edits {
				if e.off >= f.CS && e.off < f.CE {
					delta += len(e.repl) - e.oldLen
				}
			}
			if delta != 0 {
				old := readULEB(b[f.Off : f.Off+f.Len])
				nv := int64(old) + int64(delta)
				if nv < 0 {
					nv = 0
				}
				edits = append(edits, edit{f.Off, f.Len, uleb(uint64(nv))})
			}
		}
	}
	// apply in ascending offset order
	for i := 1; i < len(edits); i++ {
		for j := i; j > 0 && edits[j].off < edits[j-1].off; j-- {
			edits[j], edits[j-1] = edits[j-1], edits[j]
		}
	}
	out := make([]byte, 0, len(b)+16)
	p := 0
	for _, e := range edits {
		out = append(out, b[p:e.off]...)
		out = append(out, e.repl...)
		p = e.off + e.oldLen
	}
	return append(out, b[p:]...)
}
