package main

// Own supervisor (fw.Supervise restarts after a crashed case with the NEXT case; here the work unit is
// a chunk of thousands of evaluations and a crash must cost exactly one evaluation): children are
// re-exec'd copies of this binary under `ulimit -v`, fed chunk numbers on stdin; each child keeps the
// coordinates of the evaluation in flight in a small memory-mapped file, so after a fatal error
// (out of memory, SIGSEGV) or a self-reported hang the supervisor knows which (input, feature set,
// phase) died, records it, and restarts the same chunk with that evaluation on its skip list.

import (
	"bufio"
	"encoding/binary"
	"encoding/json"
	"fmt"
	"os"
	"os/exec"
	"path/filepath"
	"regexp"
	"strings"
	"sync"
	"sync/atomic"
	"syscall"
	"time"

	"github.com/tetratelabs/wazero/verif/fw"
)

const (
	phaseIdle            = 0
	phaseCompileInterp   = 1
	phaseCompileCompiler = 2
	phaseExec            = 3
	phaseMeasure         = 4
)

var phaseName = map[int]string{0: "idle", 1: "compile", 2: "compile", 3: "exec", 4: "compile"}

// progress is the child's side of the shared coordinates file.
type progress struct {
	m     []byte
	ticks atomic.Int64
	phase atomic.Int32
}

func openProgress(path string) *progress {
	p := &progress{}
	if path == "" {
		p.m = make([]byte, 64)
		return p
	}
	f, err := os.OpenFile(path, os.O_RDWR|os.O_CREATE, 0o600)
	if err != nil {
		fw.Fatalf("progress file: %v", err)
	}
	defer f.Close()
	if err := f.Truncate(64); err != nil {
		fw.Fatalf("progress file: %v", err)
	}
	m, err := syscall.Mmap(int(f.Fd()), 0, 64, syscall.PROT_READ|syscall.PROT_WRITE, syscall.MAP_SHARED)
	if err != nil {
		fw.Fatalf("mmap progress: %v", err)
	}
	p.m = m
	return p
}

func (p *progress) set(chunk, k, f, phase, engine int) {
	binary.LittleEndian.PutUint32(p.m[4:], uint32(chunk))
	binary.LittleEndian.PutUint32(p.m[8:], uint32(k))
	binary.LittleEndian.PutUint32(p.m[12:], uint32(f))
	binary.LittleEndian.PutUint32(p.m[16:], uint32(phase))
	binary.LittleEndian.PutUint32(p.m[20:], uint32(engine))
	binary.LittleEndian.PutUint32(p.m[0:], 1)
	p.phase.Store(int32(phase))
	p.ticks.Add(1)
}

func (p *progress) tick(phase, engine int) {
	binary.LittleEndian.PutUint32(p.m[16:], uint32(phase))
	binary.LittleEndian.PutUint32(p.m[20:], uint32(engine))
	p.phase.Store(int32(phase))
	p.ticks.Add(1)
}

func (p *progress) idle() {
	binary.LittleEndian.PutUint32(p.m[16:], phaseIdle)
	p.phase.Store(phaseIdle)
	p.ticks.Add(1)
}

type coords struct {
	Chunk, K, F, Phase, Engine int
}

func (p *progress) coords() coords {
	return coords{int(binary.LittleEndian.Uint32(p.m[4:])), int(binary.LittleEndian.Uint32(p.m[8:])), int(binary.LittleEndian.Uint32(p.m[12:])),
		int(binary.LittleEndian.Uint32(p.m[16:])), int(binary.LittleEndian.Uint32(p.m[20:]))}
}

func readCoords(path string) (coords, bool) {
	b, err := os.ReadFile(path)
	if err != nil || len(b) < 24 || binary.LittleEndian.Uint32(b) != 1 {
		return coords{}, false
	}
	return coords{int(binary.LittleEndian.Uint32(b[4:])), int(binary.LittleEndian.Uint32(b[8:])), int(binary.LittleEndian.Uint32(b[12:])),
		int(binary.LittleEndian.Uint32(b[16:])), int(binary.LittleEndian.Uint32(b[20:]))}, true
}

type skipKey struct {
	K    int  `json:"k"`
	F    int  `json:"f"`
	Exec bool `json:"x"`
}

type task struct {
	Chunk int       `json:"chunk"`
	C     chunk     `json:"c"`
	Skip  []skipKey `json:"skip,omitempty"`
}

type event struct {
	coords
	Kind   string // "crash" | "compile-hang" | "exec-hang" | "silent"
	Stderr string
}

type headBuf struct {
	mu sync.Mutex
	b  []byte
}

func (t *headBuf) Write(p []byte) (int, error) {
	t.mu.Lock()
	defer t.mu.Unlock()
	if len(t.b) < 12000 {
		t.b = append(t.b, p...)
	}
	return len(p), nil
}
func (t *headBuf) String() string { t.mu.Lock(); defer t.mu.Unlock(); return string(t.b) }

type supOpts struct {
	N         int
	Chunks    []chunk
	AllFSDie  bool // a process death under one feature set puts every feature set of that input on the skip list
	Workers   int
	UlimitVKB int64
	Env       []string
	Dir       string // for the progress files
	Silent    time.Duration
	Stop      func() bool
}

type proc struct {
	cmd    *exec.Cmd
	stdin  *bufio.Writer
	lines  chan string
	stderr *headBuf
}

func startProc(o supOpts, slot int) *proc {
	self, err := os.Executable()
	if err != nil {
		fw.Fatalf("os.Executable: %v", err)
	}
	var cmd *exec.Cmd
	if o.UlimitVKB > 0 {
		cmd = exec.Command("/bin/sh", "-c", fmt.Sprintf("ulimit -v %d; exec \"$0\" \"$@\"", o.UlimitVKB), self)
		cmd.Args = append(cmd.Args, os.Args[1:]...)
	} else {
		cmd = exec.Command(self, os.Args[1:]...)
	}
	cmd.Env = append(os.Environ(), "VERIF_CHILD=1", "GOMAXPROCS=2", "VERIF_C03_PROG="+filepath.Join(o.Dir, fmt.Sprintf("p%d", slot)))
	cmd.Env = append(cmd.Env, o.Env...)
	p := &proc{cmd: cmd, stderr: &headBuf{}}
	cmd.Stderr = p.stderr
	in, err := cmd.StdinPipe()
	if err != nil {
		fw.Fatalf("pipe: %v", err)
	}
	out, err := cmd.StdoutPipe()
	if err != nil {
		fw.Fatalf("pipe: %v", err)
	}
	if err := cmd.Start(); err != nil {
		fw.Fatalf("start child: %v", err)
	}
	p.stdin = bufio.NewWriter(in)
	p.lines = make(chan string, 64)
	go func() {
		rd := bufio.NewReaderSize(out, 1<<20)
		for {
			l, err := rd.ReadString('\n')
			if len(l) > 0 && l[len(l)-1] == '\n' {
				p.lines <- l[:len(l)-1]
			}
			if err != nil {
				close(p.lines)
				return
			}
		}
	}()
	return p
}

func (p *proc) kill() {
	p.cmd.Process.Kill()
	for range p.lines {
	}
	p.cmd.Wait()
}

// supervise runs chunks 0..N-1; onResult gets the JSON result of a finished chunk, onEvent every
// evaluation that killed (or hung) a child. Both are serialised. Returns the number of chunks done.
func supervise(o supOpts, onResult func(chunk int, res string), onEvent func(ev event)) int {
	if o.Silent == 0 {
		o.Silent = 15 * time.Minute
	}
	var mu sync.Mutex
	var next atomic.Int64
	done := 0
	var wg sync.WaitGroup
	for w := 0; w < o.Workers; w++ {
		wg.Add(1)
		go func(slot int) {
			defer wg.Done()
			var p *proc
			defer func() {
				if p != nil {
					p.stdin.WriteString("Q\n")
					p.stdin.Flush()
					p.kill()
				}
			}()
			progPath := filepath.Join(o.Dir, fmt.Sprintf("p%d", slot))
			for {
				if o.Stop != nil && o.Stop() {
					return
				}
				c := int(next.Add(1)) - 1
				if c >= o.N {
					return
				}
				t := task{Chunk: c, C: o.Chunks[c]}
				for attempt := 0; ; attempt++ {
					if attempt > 2000 {
						fw.Fatalf("chunk %d: more than 2000 child deaths", c)
					}
					if p == nil {
						os.Remove(progPath)
						p = startProc(o, slot)
					}
					js, _ := json.Marshal(t)
					p.stdin.WriteString("T " + string(js) + "\n")
					p.stdin.Flush()
					timer := time.NewTimer(o.Silent)
					var result *string
					var ev *event
				wait:
					for {
						select {
						case l, ok := <-p.lines:
							if !ok {
								p.cmd.Wait()
								co, have := readCoords(progPath)
								if !have || co.Chunk != c || co.Phase == phaseIdle {
									fw.Fatalf("child died outside an evaluation (chunk %d, coords %+v): %s", c, co, fw.FirstLines(p.stderr.String(), 12))
								}
								ev = &event{coords: co, Kind: "crash", Stderr: p.stderr.String()}
								p = nil
								break wait
							}
							if !timer.Stop() {
								select {
								case <-timer.C:
								default:
								}
							}
							timer.Reset(o.Silent)
							switch {
							case strings.HasPrefix(l, "R "):
								s := l[2:]
								result = &s
								break wait
							case strings.HasPrefix(l, "X "):
								var x struct {
									Kind string
									coords
								}
								json.Unmarshal([]byte(l[2:]), &x)
								ev = &event{coords: x.coords, Kind: x.Kind}
								p.kill()
								p = nil
								break wait
							}
						case <-timer.C:
							p.kill()
							co, have := readCoords(progPath)
							if !have || co.Chunk != c {
								fw.Fatalf("child silent for %v outside an evaluation (chunk %d)", o.Silent, c)
							}
							ev = &event{coords: co, Kind: "silent", Stderr: p.stderr.String()}
							p = nil
							break wait
						}
					}
					timer.Stop()
					if result != nil {
						mu.Lock()
						onResult(c, *result)
						done++
						mu.Unlock()
						break
					}
					mu.Lock()
					onEvent(*ev)
					mu.Unlock()
					if o.AllFSDie && ev.Kind == "crash" && ev.Phase != phaseExec {
						for f := ev.F; f < len(featureSets); f++ {
							t.Skip = append(t.Skip, skipKey{K: ev.K, F: f})
						}
					} else {
						t.Skip = append(t.Skip, skipKey{K: ev.K, F: ev.F, Exec: ev.Phase == phaseExec})
					}
				}
			}
		}(w)
	}
	wg.Wait()
	return done
}

var reFrame = regexp.MustCompile(`(?m)^github\.com/tetratelabs/wazero/([^\s(]+(?:\([^)]*\)[^\s(]*)*)\(.*\n\t(/[^\s:]+):(\d+)`)

// siteFromTrace extracts the innermost wazero frame from a Go fatal-error / panic trace.
func siteFromTrace(tr string) string {
	for _, m := range reFrame.FindAllStringSubmatch(tr, -1) {
		if strings.HasPrefix(m[1], "verif/") {
			continue
		}
		fn := m[1]
		if i := strings.LastIndexByte(fn, '/'); i >= 0 {
			fn = fn[i+1:]
		}
		var line int
		fmt.Sscanf(m[3], "%d", &line)
		return fn + lhsOfMake(m[2], line)
	}
	return "unknown"
}
