package main

// By-construction-valid family: every member is well-typed by construction from the instruction
// signature tables of the specification (written here independently of wazero), so each must be
// ACCEPTED under every feature set containing the features it needs, and must then instantiate and
// run on both engines.
//
//   A  every numeric opcode with its signature            (params = operands, result = result)
//   B  every load/store opcode x every legal alignment x boundary offsets
//   C  every SIMD opcode with its signature / every lane index / every memarg alignment
//   D  every atomic opcode with its (exact) natural alignment
//   E  control-flow grammar: nestings of block/loop/if up to depth 3 with every block type and a
//      br / br_if / br_table to every legal depth
//   F  every subset of a pool of optional sections
//   G  every LEB field of every corpus seed re-encoded over-long (padded to 5 bytes, sizes fixed up):
//      generated in the structured pass (see enum.go) because it needs the field map

import (
	"fmt"

	"github.com/tetratelabs/wazero/api"
	"github.com/tetratelabs/wazero/verif/wb"
)

type sig struct {
	op      uint32
	in      []byte
	out     []byte
	req     api.CoreFeatures
	imm     string // "", "lane<N>", "memarg<natural>", "memlane<natural>,<N>", "const", "shuffle"
}

func rng(lo, hi uint32, in, out []byte, req api.CoreFeatures) []sig {
	var s []sig
	for o := lo; o <= hi; o++ {
		s = append(s, sig{op: o, in: in, out: out, req: req})
	}
	return s
}

func numericSigs() []sig {
	var s []sig
	s = append(s, rng(0x45, 0x45, vt(i32), vt(i32), 0)...)
	s = append(s, rng(0x46, 0x4f, vt(i32, i32), vt(i32), 0)...)
	s = append(s, rng(0x50, 0x50, vt(i64), vt(i32), 0)...)
	s = append(s, rng(0x51, 0x5a, vt(i64, i64), vt(i32), 0)...)
	s = append(s, rng(0x5b, 0x60, vt(f32, f32), vt(i32), 0)...)
	s = append(s, rng(0x61, 0x66, vt(f64, f64), vt(i32), 0)...)
	s = append(s, rng(0x67, 0x69, vt(i32), vt(i32), 0)...)
	s = append(s, rng(0x6a, 0x78, vt(i32, i32), vt(i32), 0)...)
	s = append(s, rng(0x79, 0x7b, vt(i64), vt(i64), 0)...)
	s = append(s, rng(0x7c, 0x8a, vt(i64, i64), vt(i64), 0)...)
	s = append(s, rng(0x8b, 0x91, vt(f32), vt(f32), 0)...)
	s = append(s, rng(0x92, 0x98, vt(f32, f32), vt(f32), 0)...)
	s = append(s, rng(0x99, 0x9f, vt(f64), vt(f64), 0)...)
	s = append(s, rng(0xa0, 0xa6, vt(f64, f64), vt(f64), 0)...)
	s = append(s, rng(0xa7, 0xa7, vt(i64), vt(i32), 0)...)
	s = append(s, rng(0xa8, 0xa9, vt(f32), vt(i32), 0)...)
	s = append(s, rng(0xaa, 0xab, vt(f64), vt(i32), 0)...)
	s = append(s, rng(0xac, 0xad, vt(i32), vt(i64), 0)...)
	s = append(s, rng(0xae, 0xaf, vt(f32), vt(i64), 0)...)
	s = append(s, rng(0xb0, 0xb1, vt(f64), vt(i64), 0)...)
	s = append(s, rng(0xb2, 0xb3, vt(i32), vt(f32), 0)...)
	s = append(s, rng(0xb4, 0xb5, vt(i64), vt(f32), 0)...)
	s = append(s, rng(0xb6, 0xb6, vt(f64), vt(f32), 0)...)
	s = append(s, rng(0xb7, 0xb8, vt(i32), vt(f64), 0)...)
	s = append(s, rng(0xb9, 0xba, vt(i64), vt(f64), 0)...)
	s = append(s, rng(0xbb, 0xbb, vt(f32), vt(f64), 0)...)
	s = append(s, rng(0xbc, 0xbc, vt(f32), vt(i32), 0)...)
	s = append(s, rng(0xbd, 0xbd, vt(f64), vt(i64), 0)...)
	s = append(s, rng(0xbe, 0xbe, vt(i32), vt(f32), 0)...)
	s = append(s, rng(0xbf, 0xbf, vt(i64), vt(f64), 0)...)
	s = append(s, rng(0xc0, 0xc1, vt(i32), vt(i32), fSE)...)
	s = append(s, rng(0xc2, 0xc4, vt(i64), vt(i64), fSE)...)
	return s
}

// sat conversions under the 0xfc prefix
func satSigs() []sig {
	var s []sig
	s = append(s, rng(0, 1, vt(f32), vt(i32), fNT)...)
	s = append(s, rng(2, 3, vt(f64), vt(i32), fNT)...)
	s = append(s, rng(4, 5, vt(f32), vt(i64), fNT)...)
	s = append(s, rng(6, 7, vt(f64), vt(i64), fNT)...)
	return s
}

type memOp struct {
	op      byte
	natural uint32
	store   bool
	t       byte
}

var memOps = []memOp{
	{0x28, 2, false, i32}, {0x29, 3, false, i64}, {0x2a, 2, false, f32}, {0x2b, 3, false, f64},
	{0x2c, 0, false, i32}, {0x2d, 0, false, i32}, {0x2e, 1, false, i32}, {0x2f, 1, false, i32},
	{0x30, 0, false, i64}, {0x31, 0, false, i64}, {0x32, 1, false, i64}, {0x33, 1, false, i64}, {0x34, 2, false, i64}, {0x35, 2, false, i64},
	{0x36, 2, true, i32}, {0x37, 3, true, i64}, {0x38, 2, true, f32}, {0x39, 3, true, f64},
	{0x3a, 0, true, i32}, {0x3b, 1, true, i32}, {0x3c, 0, true, i64}, {0x3d, 1, true, i64}, {0x3e, 2, true, i64},
}

func simdSigs() []sig {
	V := vt(v128)
	VV := vt(v128, v128)
	var s []sig
	un := func(lo, hi uint32) { s = append(s, rng(lo, hi, V, V, fSIMD)...) }
	bin := func(lo, hi uint32) { s = append(s, rng(lo, hi, VV, V, fSIMD)...) }
	test := func(lo, hi uint32) { s = append(s, rng(lo, hi, V, vt(i32), fSIMD)...) }
	shift := func(lo, hi uint32) { s = append(s, rng(lo, hi, vt(v128, i32), V, fSIMD)...) }
	bin(14, 14)
	s = append(s, rng(15, 17, vt(i32), V, fSIMD)...)
	s = append(s, rng(18, 18, vt(i64), V, fSIMD)...)
	s = append(s, rng(19, 19, vt(f32), V, fSIMD)...)
	s = append(s, rng(20, 20, vt(f64), V, fSIMD)...)
	bin(35, 76)
	un(77, 77)
	bin(78, 81)
	s = append(s, sig{op: 82, in: vt(v128, v128, v128), out: V, req: fSIMD})
	test(83, 83)
	un(94, 98)
	test(99, 100)
	bin(101, 102)
	un(103, 106)
	shift(107, 109)
	bin(110, 115)
	un(116, 117)
	bin(118, 121)
	un(122, 122)
	bin(123, 123)
	un(124, 129)
	bin(130, 130)
	test(131, 132)
	bin(133, 134)
	un(135, 138)
	shift(139, 141)
	bin(142, 147)
	un(148, 148)
	bin(149, 153)
	bin(155, 159)
	un(160, 161)
	test(163, 164)
	un(167, 170)
	shift(171, 173)
	bin(174, 174)
	bin(177, 177)
	bin(181, 186)
	bin(188, 191)
	un(192, 193)
	test(195, 196)
	un(199, 202)
	shift(203, 205)
	bin(206, 206)
	bin(209, 209)
	bin(213, 223)
	un(224, 225)
	un(227, 227)
	bin(228, 235)
	un(236, 237)
	un(239, 239)
	bin(240, 247)
	un(248, 255)
	return s
}

type laneOp struct {
	op    uint32
	lanes int
	in    []byte
	out   []byte
}

var laneOps = []laneOp{
	{21, 16, vt(v128), vt(i32)}, {22, 16, vt(v128), vt(i32)}, {23, 16, vt(v128, i32), vt(v128)},
	{24, 8, vt(v128), vt(i32)}, {25, 8, vt(v128), vt(i32)}, {26, 8, vt(v128, i32), vt(v128)},
	{27, 4, vt(v128), vt(i32)}, {28, 4, vt(v128, i32), vt(v128)},
	{29, 2, vt(v128), vt(i64)}, {30, 2, vt(v128, i64), vt(v128)},
	{31, 4, vt(v128), vt(f32)}, {32, 4, vt(v128, f32), vt(v128)},
	{33, 2, vt(v128), vt(f64)}, {34, 2, vt(v128, f64), vt(v128)},
}

type simdMemOp struct {
	op      uint32
	natural uint32
	store   bool
	lanes   int // 0 = no lane immediate
}

var simdMemOps = []simdMemOp{
	{0, 4, false, 0}, {1, 3, false, 0}, {2, 3, false, 0}, {3, 3, false, 0}, {4, 3, false, 0}, {5, 3, false, 0}, {6, 3, false, 0},
	{7, 0, false, 0}, {8, 1, false, 0}, {9, 2, false, 0}, {10, 3, false, 0}, {11, 4, true, 0}, {92, 2, false, 0}, {93, 3, false, 0},
	{84, 0, false, 16}, {85, 1, false, 8}, {86, 2, false, 4}, {87, 3, false, 2},
	{88, 0, true, 16}, {89, 1, true, 8}, {90, 2, true, 4}, {91, 3, true, 2},
}

type atomicOp struct {
	op      uint32
	natural uint32
	in      []byte
	out     []byte
}

func atomicOps() []atomicOp {
	var s []atomicOp
	s = append(s, atomicOp{0, 2, vt(i32, i32), vt(i32)}, atomicOp{1, 2, vt(i32, i32, i64), vt(i32)}, atomicOp{2, 3, vt(i32, i64, i64), vt(i32)})
	type w struct {
		nat uint32
		t   byte
	}
	widths := []w{{2, i32}, {3, i64}, {0, i32}, {1, i32}, {0, i64}, {1, i64}, {2, i64}}
	for k, x := range widths { // loads 0x10.., stores 0x17..
		s = append(s, atomicOp{0x10 + uint32(k), x.nat, vt(i32), vt(x.t)})
		s = append(s, atomicOp{0x17 + uint32(k), x.nat, vt(i32, x.t), nil})
	}
	for g := uint32(0); g < 6; g++ { // add sub and or xor xchg
		for k, x := range widths {
			s = append(s, atomicOp{0x1e + 7*g + uint32(k), x.nat, vt(i32, x.t), vt(x.t)})
		}
	}
	for k, x := range widths {
		s = append(s, atomicOp{0x48 + uint32(k), x.nat, vt(i32, x.t, x.t), vt(x.t)})
	}
	return s
}

type famMod struct {
	Name   string
	Req    api.CoreFeatures
	B      []byte
	Reject bool // invalid by construction: must be rejected under every feature set
}

func pushArgs(as *wb.Asm, n int) {
	for i := 0; i < n; i++ {
		as.LocalGet(uint32(i))
	}
}

func oneFunc(in, out []byte, mem *wb.Limits, body []byte) []byte {
	m := &wb.Module{Mem: mem}
	m.ExportFunc("f", m.AddFunc(in, out, nil, body))
	return m.Encode()
}

func buildFamily(depth int) []famMod {
	var out []famMod
	add := func(name string, req api.CoreFeatures, b []byte) { out = append(out, famMod{Name: name, Req: req, B: b}) }
	// A: numeric
	for _, s := range numericSigs() {
		as := a()
		pushArgs(as, len(s.in))
		as.Op(byte(s.op))
		add(fmt.Sprintf("A:num:0x%02x", s.op), s.req, oneFunc(s.in, s.out, nil, as.B))
	}
	for _, s := range satSigs() {
		as := a()
		pushArgs(as, len(s.in))
		as.Misc(s.op)
		add(fmt.Sprintf("A:sat:%d", s.op), s.req, oneFunc(s.in, s.out, nil, as.B))
	}
	// B: memory
	offsets := []uint64{0, 1, 65535, 0xffffffff}
	for _, mo := range memOps {
		for al := uint32(0); al <= mo.natural; al++ {
			for _, off := range offsets {
				as := a()
				var in, res []byte
				if mo.store {
					in = vt(i32, mo.t)
					as.LocalGet(0).LocalGet(1).Mem(mo.op, al, off)
				} else {
					in, res = vt(i32), vt(mo.t)
					as.LocalGet(0).Mem(mo.op, al, off)
				}
				add(fmt.Sprintf("B:mem:0x%02x:a%d:o%d", mo.op, al, off), 0, oneFunc(in, res, &wb.Limits{Min: 1}, as.B))
			}
		}
	}
	// C: SIMD
	for _, s := range simdSigs() {
		as := a()
		pushArgs(as, len(s.in))
		as.Simd(s.op)
		add(fmt.Sprintf("C:simd:%d", s.op), fSIMD, oneFunc(s.in, s.out, nil, as.B))
	}
	for _, lo := range laneOps {
		for l := 0; l < lo.lanes; l++ {
			as := a()
			pushArgs(as, len(lo.in))
			as.Simd(lo.op).Raw(byte(l))
			add(fmt.Sprintf("C:lane:%d:%d", lo.op, l), fSIMD, oneFunc(lo.in, lo.out, nil, as.B))
		}
	}
	for _, mo := range simdMemOps {
		for al := uint32(0); al <= mo.natural; al++ {
			for _, off := range []uint64{0, 65535, 0xffffffff} {
				nl := mo.lanes
				if nl == 0 {
					nl = 1
				}
				for l := 0; l < nl; l++ {
					as := a()
					var in, res []byte
					switch {
					case mo.lanes > 0 && mo.store:
						in = vt(i32, v128)
						as.LocalGet(0).LocalGet(1).SimdMem(mo.op, al, off).Raw(byte(l))
					case mo.lanes > 0:
						in, res = vt(i32, v128), vt(v128)
						as.LocalGet(0).LocalGet(1).SimdMem(mo.op, al, off).Raw(byte(l))
					case mo.store:
						in = vt(i32, v128)
						as.LocalGet(0).LocalGet(1).SimdMem(mo.op, al, off)
					default:
						in, res = vt(i32), vt(v128)
						as.LocalGet(0).SimdMem(mo.op, al, off)
					}
					add(fmt.Sprintf("C:simdmem:%d:a%d:o%d:l%d", mo.op, al, off, l), fSIMD, oneFunc(in, res, &wb.Limits{Min: 1}, as.B))
				}
			}
		}
	}
	for _, lanes := range [][16]byte{{0, 1, 2, 3, 4, 5, 6, 7, 8, 9, 10, 11, 12, 13, 14, 15}, {31, 30, 29, 28, 27, 26, 25, 24, 23, 22, 21, 20, 19, 18, 17, 16}, {0, 31, 0, 31, 0, 31, 0, 31, 0, 31, 0, 31, 0, 31, 0, 31}} {
		as := a().LocalGet(0).LocalGet(1).Simd(13).Raw(lanes[:]...)
		add(fmt.Sprintf("C:shuffle:%d", lanes[0]), fSIMD, oneFunc(vt(v128, v128), vt(v128), nil, as.B))
	}
	add("C:v128.const", fSIMD, oneFunc(nil, vt(v128), nil, a().V128Const(0xffffffffffffffff, 0x8000000000000000).B))
	// D: atomics (shared memory; alignment must be exactly natural)
	for _, ao := range atomicOps() {
		for _, off := range []uint64{0, 8, 0xffffffff} {
			as := a()
			pushArgs(as, len(ao.in))
			as.AtomicMem(ao.op, ao.natural, off)
			add(fmt.Sprintf("D:atomic:0x%02x:o%d", ao.op, off), fTH, oneFunc(ao.in, ao.out, &wb.Limits{Min: 1, Max: 1, HasMax: true, Shared: true}, as.B))
		}
	}
	add("D:fence", fTH, oneFunc(nil, nil, nil, a().Atomic(3).Raw(0).B))

	// E: control-flow grammar. A frame is (kind, blocktype); nest up to depth 3; in the innermost
	// frame place one branch instruction to each legal depth. Every frame's body ends by producing
	// the frame's results from constants, so the module is well-typed by construction.
	type bt struct {
		name   string
		params []byte
		res    []byte
	}
	bts := []bt{{"void", nil, nil}, {"i32", nil, vt(i32)}, {"f64", nil, vt(f64)}, {"i32->i32", vt(i32), vt(i32)}, {"->i32i64", nil, vt(i32, i64)}}
	kinds := []string{"block", "loop", "if"}
	zero := func(as *wb.Asm, ts []byte) {
		for _, t := range ts {
			switch t {
			case i32:
				as.I32Const(0)
			case i64:
				as.I64Const(0)
			case f32:
				as.F32Const(0)
			case f64:
				as.F64Const(0)
			}
		}
	}
	type frame struct {
		kind string
		b    bt
	}
	var gen func(stack []frame, depth int)
	emit := func(stack []frame, br string, target int) {
		m := &wb.Module{}
		req := api.CoreFeatures(0)
		as := a()
		open := func(f frame) {
			zero(as, f.b.params)
			if f.kind == "if" {
				as.LocalGet(0)
			}
			var op byte
			switch f.kind {
			case "block":
				op = 0x02
			case "loop":
				op = 0x03
			case "if":
				op = 0x04
			}
			switch {
			case len(f.b.params) == 0 && len(f.b.res) == 0:
				as.Op(op).Op(wb.Void)
			case len(f.b.params) == 0 && len(f.b.res) == 1:
				as.Op(op).Op(f.b.res[0])
			default:
				req |= fMV
				as.Op(op).S(int64(m.Type(f.b.params, f.b.res)))
			}
		}
		// label types: for a loop the branch carries the params, otherwise the results
		labelTypes := func(f frame) []byte {
			if f.kind == "loop" {
				return f.b.params
			}
			return f.b.res
		}
		for _, f := range stack {
			open(f)
			// drop the parameters inside the frame so that the operand stack is empty
			for range f.b.params {
				as.Drop()
			}
		}
		n := len(stack)
		// the branch, guarded so that the code after it stays reachable: br_if / br_table under a
		// condition taken from the argument; a plain br sits in its own `if`.
		tf := stack[n-1-target]
		switch br {
		case "br":
			as.LocalGet(0).If(wb.Void)
			zero(as, labelTypes(tf))
			as.Br(uint32(target + 1)).End()
		case "br_if":
			zero(as, labelTypes(tf))
			as.LocalGet(0).BrIf(uint32(target))
			for range labelTypes(tf) {
				as.Drop()
			}
		case "br_table":
			// all labels of a br_table must have the same types: use the target for all of them
			as.LocalGet(0).If(wb.Void)
			zero(as, labelTypes(tf))
			as.LocalGet(0).BrTable([]uint32{uint32(target + 1), uint32(target + 1)}, uint32(target+1)).End()
		case "none":
		}
		for i := n - 1; i >= 0; i-- {
			f := stack[i]
			zero(as, f.b.res)
			if f.kind == "if" && (len(f.b.res) > 0 || len(f.b.params) > 0) {
				as.Else()
				for range f.b.params {
					as.Drop()
				}
				zero(as, f.b.res)
			}
			as.End()
			for range f.b.res {
				as.Drop()
			}
		}
		name := "E:"
		for _, f := range stack {
			name += f.kind + "(" + f.b.name + ")/"
		}
		name += fmt.Sprintf("%s->%d", br, target)
		m.ExportFunc("f", m.AddFunc(vt(i32), nil, nil, as.B))
		add(name, req, m.Encode())
	}
	gen = func(stack []frame, depth int) {
		if len(stack) > 0 {
			emit(stack, "none", 0)
			for t := 0; t < len(stack); t++ {
				for _, br := range []string{"br", "br_if", "br_table"} {
					emit(stack, br, t)
				}
			}
		}
		if len(stack) == depth {
			return
		}
		for _, k := range kinds {
			for _, b := range bts {
				if len(stack) >= 2 && (b.name == "f64" || b.name == "->i32i64") {
					continue // keep depth 3 affordable: the innermost level uses three block types
				}
				gen(append(append([]frame{}, stack...), frame{k, b}), depth)
			}
		}
	}
	gen(nil, depth)

	// F: every subset of a pool of optional sections
	for mask := 0; mask < 1<<10; mask++ {
		m := &wb.Module{}
		req := api.CoreFeatures(0)
		has := func(bit int) bool { return mask&(1<<bit) != 0 }
		var f0 uint32
		hasFunc := has(0)
		if hasFunc {
			f0 = m.AddFunc(nil, nil, nil, nil)
		}
		if has(1) {
			m.Tables = []wb.Table{{Elem: fref, Lim: wb.Limits{Min: 2}}}
		}
		if has(2) {
			m.Mem = &wb.Limits{Min: 1}
		}
		if has(3) {
			m.AddGlobal(i32, false, wb.CI32(1))
		}
		if has(4) {
			if hasFunc {
				m.ExportFunc("f", f0)
			}
			if has(2) {
				m.Exports = append(m.Exports, wb.Export{Name: "m", Kind: wb.KindMemory, Idx: 0})
			}
			if has(3) {
				m.Exports = append(m.Exports, wb.Export{Name: "g", Kind: wb.KindGlobal, Idx: 0})
			}
		}
		if has(5) && hasFunc {
			m.Start = u32p(f0)
		}
		if has(6) && has(1) {
			var fs []uint32
			if hasFunc {
				fs = []uint32{f0}
			}
			m.Elems = append(m.Elems, wb.Elem{Mode: 0, Offset: wb.CI32(0), Funcs: fs})
		}
		if has(7) && has(2) {
			m.Datas = append(m.Datas, wb.Data{Offset: wb.CI32(0), Bytes: []byte{1}})
		}
		if has(8) {
			m.DataCount = true
			req |= fBR
		}
		if has(9) {
			m.Customs = append(m.Customs, wb.Custom{Name: "c", Data: []byte{0}})
			if hasFunc {
				m.FuncNames = map[uint32]string{0: "f"}
			}
		}
		add(fmt.Sprintf("F:sections:%03x", mask), req, m.Encode())
	}
	return out
}

// buildNoDep: every instruction that implicitly depends on a definition (the memory, table k, the data
// count section, a data / element segment, a declared function reference, a global, a type), alone in a
// module that LACKS that definition. Each module is invalid by construction; the oracle is the general
// one (rejected, or accepted and sound). One instruction per module, because a validator that forgets
// the existence check for a subset of opcodes still rejects a module that also contains the others.
func buildNoDep() []famMod {
	var out []famMod
	add := func(name string, in, res []byte, body []byte, prep func(m *wb.Module)) {
		m := &wb.Module{}
		if prep != nil {
			prep(m)
		}
		m.ExportFunc("f", m.AddFunc(in, res, nil, body))
		out = append(out, famMod{Name: name, B: m.Encode()})
	}
	push := func(as *wb.Asm, ts []byte) {
		for _, t := range ts {
			switch t {
			case i32:
				as.I32Const(0)
			case i64:
				as.I64Const(0)
			case f32:
				as.F32Const(0)
			case f64:
				as.F64Const(0)
			case v128:
				as.V128Const(0, 0)
			}
		}
	}
	// ---- no memory
	for _, mo := range memOps {
		as := a().I32Const(0)
		var res []byte
		if mo.store {
			push(as, []byte{mo.t})
		} else {
			res = vt(mo.t)
		}
		as.Mem(mo.op, 0, 0)
		add(fmt.Sprintf("nomem:0x%02x", mo.op), nil, res, as.B, nil)
	}
	for _, mo := range simdMemOps {
		as := a().I32Const(0)
		var res []byte
		if mo.store || mo.lanes > 0 {
			as.V128Const(0, 0)
		}
		as.SimdMem(mo.op, 0, 0)
		if mo.lanes > 0 {
			as.Raw(0)
		}
		if !mo.store {
			res = vt(v128)
		}
		add(fmt.Sprintf("nomem:simd:%d", mo.op), nil, res, as.B, nil)
	}
	for _, ao := range atomicOps() {
		as := a()
		push(as, ao.in)
		as.AtomicMem(ao.op, ao.natural, 0)
		add(fmt.Sprintf("nomem:atomic:0x%02x", ao.op), nil, ao.out, as.B, nil)
	}
	add("nomem:memory.size", nil, vt(i32), a().MemorySize().B, nil)
	add("nomem:memory.grow", nil, vt(i32), a().I32Const(0).MemoryGrow().B, nil)
	add("nomem:memory.fill", nil, nil, a().I32Const(0).I32Const(0).I32Const(0).MemoryFill().B, nil)
	add("nomem:memory.copy", nil, nil, a().I32Const(0).I32Const(0).I32Const(0).MemoryCopy().B, nil)
	add("nomem:memory.init", nil, nil, a().I32Const(0).I32Const(0).I32Const(0).MemoryInit(0).B, func(m *wb.Module) {
		m.DataCount = true
		m.Datas = []wb.Data{{Passive: true, Bytes: []byte{1}}}
	})
	add("nomem:active-data", nil, nil, nil, func(m *wb.Module) { m.Datas = []wb.Data{{Offset: wb.CI32(0), Bytes: []byte{1}}} })
	// ---- memory present, but no data count section / no such data segment
	withMem := func(m *wb.Module) { m.Mem = &wb.Limits{Min: 1} }
	add("nodatacount:memory.init", nil, nil, a().I32Const(0).I32Const(0).I32Const(0).MemoryInit(0).B, func(m *wb.Module) {
		withMem(m)
		m.Datas = []wb.Data{{Passive: true, Bytes: []byte{1}}}
	})
	add("nodatacount:data.drop", nil, nil, a().DataDrop(0).B, func(m *wb.Module) {
		withMem(m)
		m.Datas = []wb.Data{{Passive: true, Bytes: []byte{1}}}
	})
	add("nodata:memory.init", nil, nil, a().I32Const(0).I32Const(0).I32Const(0).MemoryInit(0).B, func(m *wb.Module) { withMem(m); m.DataCount = true })
	add("nodata:data.drop", nil, nil, a().DataDrop(0).B, func(m *wb.Module) { withMem(m); m.DataCount = true })
	// ---- no table (k = 0) / only table 0 (k = 1)
	for k := uint32(0); k < 2; k++ {
		prep := func(m *wb.Module) {
			if k == 1 {
				m.Tables = []wb.Table{{Elem: fref, Lim: wb.Limits{Min: 1}}}
			}
			m.Type(nil, nil)
		}
		n := fmt.Sprintf("notable%d:", k)
		add(n+"call_indirect", nil, nil, a().I32Const(0).CallIndirect(0, k).B, prep)
		add(n+"return_call_indirect", nil, nil, a().I32Const(0).ReturnCallIndirect(0, k).B, prep)
		add(n+"table.get", nil, vt(fref), a().I32Const(0).TableGet(k).B, prep)
		add(n+"table.set", nil, nil, a().I32Const(0).RefNull(fref).TableSet(k).B, prep)
		add(n+"table.size", nil, vt(i32), a().TableSize(k).B, prep)
		add(n+"table.grow", nil, vt(i32), a().RefNull(fref).I32Const(0).TableGrow(k).B, prep)
		add(n+"table.fill", nil, nil, a().I32Const(0).RefNull(fref).I32Const(0).TableFill(k).B, prep)
		add(n+"table.copy.dst", nil, nil, a().I32Const(0).I32Const(0).I32Const(0).TableCopy(k, 0).B, prep)
		add(n+"table.copy.src", nil, nil, a().I32Const(0).I32Const(0).I32Const(0).TableCopy(0, k).B, prep)
		add(n+"table.init", nil, nil, a().I32Const(0).I32Const(0).I32Const(0).TableInit(0, k).B, func(m *wb.Module) {
			prep(m)
			m.Elems = []wb.Elem{{Mode: 1, Funcs: nil}}
		})
		add(n+"active-elem", nil, nil, nil, func(m *wb.Module) {
			prep(m)
			m.Elems = []wb.Elem{{Mode: 0, TableIdx: k, Offset: wb.CI32(0), Funcs: nil, UseExprs: k == 1}}
		})
	}
	// ---- no such element segment / function declaration / global / type / function / local / label
	withTable := func(m *wb.Module) { m.Tables = []wb.Table{{Elem: fref, Lim: wb.Limits{Min: 1}}} }
	add("noelem:table.init", nil, nil, a().I32Const(0).I32Const(0).I32Const(0).TableInit(0, 0).B, withTable)
	add("noelem:elem.drop", nil, nil, a().ElemDrop(0).B, withTable)
	// function 0 exists but is neither exported nor named by an element segment or a global
	add("nodecl:ref.func", nil, vt(fref), a().RefFunc(0).B, func(m *wb.Module) { m.AddFunc(nil, nil, nil, nil) })
	add("noglobal:global.get", nil, vt(i32), a().GlobalGet(0).B, nil)
	add("noglobal:global.set", nil, nil, a().I32Const(0).GlobalSet(0).B, nil)
	add("notype:call_indirect", nil, nil, a().I32Const(0).CallIndirect(7, 0).B, withTable)
	add("notype:block", nil, nil, a().BlockT(7).End().B, nil)
	add("nofunc:call", nil, nil, a().Call(1).B, nil)
	add("nofunc:return_call", nil, nil, a().ReturnCall(1).B, nil)
	add("nofunc:ref.func", nil, vt(fref), a().RefFunc(1).B, nil)
	add("nolocal:local.get", nil, vt(i32), a().LocalGet(0).B, nil)
	add("nolabel:br", nil, nil, a().Br(1).B, nil)
	add("nofunc:start", nil, nil, nil, func(m *wb.Module) { m.Start = u32p(5) })
	add("nofunc:export", nil, nil, nil, func(m *wb.Module) { m.Exports = append(m.Exports, wb.Export{Name: "x", Kind: wb.KindFunc, Idx: 5}) })
	add("noglobal:constexpr", nil, nil, nil, func(m *wb.Module) { m.AddGlobal(i32, false, wb.CGlobal(3)) })
	return out
}


// buildDeadCode: validation of stack-polymorphic code against multi-value labels. After an unconditional
// transfer the operand stack is polymorphic, so k concrete pushes matching the TOP k expected types
// followed by an instruction that needs more operands is valid (the deeper operands come from the
// polymorphic stack). Shapes: dead point {unreachable, return, br} x k in {0,1,2} x terminator
// {br_table, br_if, br, return, end, select, call} x label types T with 2 and 3 mixed results x the label
// being the function, a block, or a loop (loop labels carry the parameters). Each valid module has an
// invalid sibling: the same module followed by one more function of the SAME type that is ill-typed
// (validating the dead code must not change what the type means for the functions after it).
func buildDeadCode() []famMod {
	var out []famMod
	Ts := [][]byte{{i64, i32}, {f32, i64, i32}}
	P := []byte{i32, i64} // parameters of the callee of the `call` terminator
	zero := func(as *wb.Asm, ts []byte) {
		for _, t := range ts {
			switch t {
			case i32:
				as.I32Const(0)
			case i64:
				as.I64Const(0)
			case f32:
				as.F32Const(0)
			case f64:
				as.F64Const(0)
			}
		}
	}
	lastK := func(ts []byte, k int) []byte {
		if k > len(ts) {
			k = len(ts)
		}
		return ts[len(ts)-k:]
	}
	for _, T := range Ts {
		n := len(T)
		for _, shape := range []string{"func", "block", "loop"} {
			for _, dead := range []string{"unreachable", "return", "br"} {
				for k := 0; k <= 2; k++ {
					for _, term := range []string{"br_table", "br_if", "br", "return", "end", "select", "call"} {
						m := &wb.Module{}
						callee := m.AddFunc(P, T, nil, func() []byte { as := a(); zero(as, T); return as.B }())
						as := a()
						var ftParams, ftResults []byte
						switch shape {
						case "func":
							ftResults = T
						case "block":
							as.BlockT(m.Type(nil, T))
						case "loop":
							zero(as, T)
							as.LoopT(m.Type(T, T))
							for range T {
								as.Drop()
							}
						}
						// the dead point
						switch {
						case dead == "unreachable":
							as.Unreachable()
						case shape == "func" && dead == "return":
							zero(as, T)
							as.Return()
						case shape == "func" && dead == "br":
							zero(as, T)
							as.Br(0)
						case dead == "return":
							as.Return()
						default:
							as.Br(1)
						}
						// k concrete pushes and the terminator; label 0 is the function / block / loop
						switch term {
						case "br_table":
							zero(as, lastK(T, k))
							as.I32Const(0).BrTable([]uint32{0}, 0)
						case "br_if":
							zero(as, lastK(T, k))
							as.I32Const(0).BrIf(0)
						case "br":
							zero(as, lastK(T, k))
							as.Br(0)
						case "return":
							zero(as, lastK(T, k))
							as.Return()
						case "end":
							zero(as, lastK(T, k))
						case "select":
							t := T[n-1]
							zero(as, lastK([]byte{t, t, i32}, k))
							as.Select()
						case "call":
							zero(as, lastK(P, k))
							as.Call(callee)
						}
						if shape != "func" {
							as.End()
							for range T {
								as.Drop()
							}
						}
						m.ExportFunc("f", m.AddFunc(ftParams, ftResults, nil, as.B))
						m.ExportFunc("g", callee)
						name := fmt.Sprintf("dead:%d:%s:%s:k%d:%s", n, shape, dead, k, term)
						out = append(out, famMod{Name: name, Req: fMV, B: m.Encode()})
						// the invalid sibling: one more function of the type the label types were taken from
						follower := a()
						var fp, fr []byte
						if shape == "loop" {
							fp, fr = T, T
							for i := n - 1; i >= 0; i-- { // parameters returned in reverse order: ill-typed (T is mixed)
								follower.LocalGet(uint32(i))
							}
						} else {
							fr = T
							for range T {
								follower.F64Const(0) // T never contains f64
							}
						}
						m.ExportFunc("h", m.AddFunc(fp, fr, nil, follower.B))
						out = append(out, famMod{Name: name + ":ill-typed-follower", B: m.Encode(), Reject: true})
					}
				}
			}
		}
	}
	return out
}
