package main

// Family "segkinds": every kind of element / data segment crossed with the presence or absence of the
// object it could refer to, each module executed on both engines under EVERY feature set that accepts
// it (input.ExecAllFS) — instantiation takes different paths with and without reference-types (the
// pre-reference-types table bounds check of buildTables), which the "first accepting feature set" rule
// never reached.
//
//   element segments: all 8 flag encodings (2 items; flags >= 4 as [ref.func 0, ref.null func]) x table
//     {none, min 0, min 1 (smaller than the segment), min 4, imported min 0, imported min 4};
//     zero-item segments of flags 0 / 1 / 3 x table {none, min 0}; externref passive / declarative (flags 5, 7)
//     without a table
//   data segments: flags 0 / 1 / 2 x {2 bytes, 0 bytes} x memory {none, min 0, min 1, imported min 0};
//     passive data without memory AND without data count
//
// Exports (called in name order, the state carries over): a0 = table.init / memory.init of length 0,
// a1 = of the segment's length, b = elem.drop / data.drop, c0 / c1 = the same inits after the drop,
// f = i32.const 1. The init functions exist only when the table / memory exists (without it they are
// invalid and would hide the rest of the module). Generator's expectations: the module is valid unless an
// ACTIVE segment lacks its table / memory (no claim then); instantiation succeeds — f() = 1 — whenever no
// active segment exceeds the table / memory (passive and declarative segments never make it fail).

import (
	"fmt"

	"github.com/tetratelabs/wazero/verif/wb"
)

// section order of the binary format (data count sits between element and code)
var secRank = map[byte]int{1: 1, 2: 2, 3: 3, 4: 4, 5: 5, 6: 6, 7: 7, 8: 8, 9: 9, 12: 10, 10: 11, 11: 12}

// insertSection puts a hand-written section into an encoded module at the place the format dictates.
func insertSection(b []byte, id byte, payload []byte) []byte {
	sec := append([]byte{id}, uleb(uint64(len(payload)))...)
	sec = append(sec, payload...)
	p := 8
	for p < len(b) {
		sid := b[p]
		if sid == 0 || secRank[sid] > secRank[id] {
			break
		}
		n, l := 0, 0
		for sh := uint(0); ; sh += 7 {
			c := b[p+1+l]
			n |= int(c&0x7f) << sh
			l++
			if c&0x80 == 0 {
				break
			}
		}
		p += 1 + l + n
	}
	return cat(b[:p], sec, b[p:])
}

type elemItem struct {
	kind byte // 'f' function index / ref.func, 'n' ref.null, 'g' global.get
	v    uint32
}

// rawElemSeg encodes one element segment with exactly the given flag (wb chooses the flag itself and
// cannot write flag 2 / 6 with table 0 nor `global.get` items).
func rawElemSeg(flag byte, offset int32, etype byte, items []elemItem) []byte {
	b := []byte{flag}
	if flag&3 == 2 {
		b = append(b, 0) // table index
	}
	if flag&1 == 0 {
		b = append(b, wb.CI32(offset)...)
		b = append(b, 0x0b)
	}
	if flag&3 != 0 {
		if flag&4 != 0 {
			b = append(b, etype)
		} else {
			b = append(b, 0) // elemkind
		}
	}
	b = append(b, uleb(uint64(len(items)))...)
	for _, it := range items {
		if flag&4 == 0 {
			b = append(b, uleb(uint64(it.v))...)
			continue
		}
		switch it.kind {
		case 'f':
			b = append(b, 0xd2)
			b = append(b, uleb(uint64(it.v))...)
		case 'n':
			b = append(b, 0xd0, etype)
		case 'g':
			b = append(b, 0x23)
			b = append(b, uleb(uint64(it.v))...)
		}
		b = append(b, 0x0b)
	}
	return b
}

func rawDataSeg(flag byte, offset int32, bytes []byte) []byte {
	b := []byte{flag}
	if flag == 2 {
		b = append(b, 0)
	}
	if flag != 1 {
		b = append(b, wb.CI32(offset)...)
		b = append(b, 0x0b)
	}
	b = append(b, uleb(uint64(len(bytes)))...)
	return append(b, bytes...)
}

type segMod struct {
	famMod
	Valid   bool // valid by construction (under feature sets containing Req)
	ExpectF bool // instantiation must succeed and f() = 1
}

var tableSits = []struct {
	name     string
	present  bool
	imported bool
	min      uint32
}{{"none", false, false, 0}, {"min0", true, false, 0}, {"min1", true, false, 1}, {"min4", true, false, 4}, {"imp0", true, true, 0}, {"imp4", true, true, 4}}

// segElemModule: one element segment of the given flag with n items next to the given table situation.
func segElemModule(flag byte, n int, etype byte, ts int) segMod {
	t := tableSits[ts]
	m := &wb.Module{}
	if t.present {
		tb := wb.Table{Elem: fref, Lim: wb.Limits{Min: t.min}}
		if t.imported {
			m.Imports = append(m.Imports, wb.Import{Module: "env", Name: "t", Kind: wb.KindTable, Table: tb})
		} else {
			m.Tables = []wb.Table{tb}
		}
	}
	m.AddFunc(nil, nil, nil, nil) // function 0: what the items name
	if t.present && etype == fref {
		init := func(l int32) []byte { return a().I32Const(0).I32Const(0).I32Const(l).TableInit(0, 0).B }
		m.ExportFunc("a0", m.AddFunc(nil, nil, nil, init(0)))
		m.ExportFunc("a1", m.AddFunc(nil, nil, nil, init(int32(n))))
		m.ExportFunc("b", m.AddFunc(nil, nil, nil, a().ElemDrop(0).B))
		m.ExportFunc("c0", m.AddFunc(nil, nil, nil, init(0)))
		m.ExportFunc("c1", m.AddFunc(nil, nil, nil, init(int32(n))))
	} else {
		m.ExportFunc("b", m.AddFunc(nil, nil, nil, a().ElemDrop(0).B))
	}
	m.ExportFunc("f", m.AddFunc(nil, vt(i32), nil, a().I32Const(1).B))
	var items []elemItem
	for i := 0; i < n; i++ {
		if i%2 == 1 && flag&4 != 0 || etype != fref {
			items = append(items, elemItem{kind: 'n'})
		} else {
			items = append(items, elemItem{kind: 'f', v: 0})
		}
	}
	b := insertSection(m.Encode(), 9, cat([]byte{1}, rawElemSeg(flag, 0, etype, items)))
	active := flag&1 == 0
	sm := segMod{famMod: famMod{Name: fmt.Sprintf("segkinds:elem:flag%d:n%d:%s:table-%s", flag, n, map[byte]string{fref: "funcref", xref: "externref"}[etype], t.name), Req: fBR, B: b}}
	sm.Valid = !active || t.present
	sm.ExpectF = sm.Valid && (!active || uint32(n) <= t.min)
	return sm
}

var memSits = []struct {
	name     string
	present  bool
	imported bool
	min      uint32
}{{"none", false, false, 0}, {"min0", true, false, 0}, {"min1", true, false, 1}, {"imp0", true, true, 0}}

func segDataModule(flag byte, n int, ms int, dataCount bool) segMod {
	t := memSits[ms]
	m := &wb.Module{}
	if t.present {
		if t.imported {
			m.Imports = append(m.Imports, wb.Import{Module: "env", Name: "m", Kind: wb.KindMemory, Mem: wb.Limits{Min: t.min}})
		} else {
			m.Mem = &wb.Limits{Min: t.min}
		}
	}
	if dataCount {
		if t.present {
			init := func(l int32) []byte { return a().I32Const(0).I32Const(0).I32Const(l).MemoryInit(0).B }
			m.ExportFunc("a0", m.AddFunc(nil, nil, nil, init(0)))
			m.ExportFunc("a1", m.AddFunc(nil, nil, nil, init(int32(n))))
			m.ExportFunc("b", m.AddFunc(nil, nil, nil, a().DataDrop(0).B))
			m.ExportFunc("c0", m.AddFunc(nil, nil, nil, init(0)))
			m.ExportFunc("c1", m.AddFunc(nil, nil, nil, init(int32(n))))
		} else {
			m.ExportFunc("b", m.AddFunc(nil, nil, nil, a().DataDrop(0).B))
		}
	}
	m.ExportFunc("f", m.AddFunc(nil, vt(i32), nil, a().I32Const(1).B))
	b := m.Encode()
	if dataCount {
		b = insertSection(b, 12, []byte{1})
	}
	b = insertSection(b, 11, cat([]byte{1}, rawDataSeg(flag, 0, []byte{0xc3, 0xa5}[:n])))
	active := flag != 1
	dc := ""
	if !dataCount {
		dc = ":no-datacount"
	}
	sm := segMod{famMod: famMod{Name: fmt.Sprintf("segkinds:data:flag%d:n%d:memory-%s%s", flag, n, t.name, dc), Req: fBR, B: b}}
	sm.Valid = !active || t.present
	sm.ExpectF = sm.Valid && (!active || n == 0 || t.min > 0)
	return sm
}

func buildSegKinds() []segMod {
	var out []segMod
	for flag := byte(0); flag < 8; flag++ {
		for ts := range tableSits {
			out = append(out, segElemModule(flag, 2, fref, ts))
		}
	}
	for _, flag := range []byte{0, 1, 3} {
		for ts := 0; ts < 2; ts++ {
			out = append(out, segElemModule(flag, 0, fref, ts))
		}
	}
	out = append(out, segElemModule(5, 2, xref, 0), segElemModule(7, 2, xref, 0))
	for _, flag := range []byte{0, 1, 2} {
		for _, n := range []int{2, 0} {
			for ms := range memSits {
				out = append(out, segDataModule(flag, n, ms, true))
			}
		}
	}
	out = append(out, segDataModule(1, 2, 0, false), segDataModule(1, 0, 0, false))
	return out
}
