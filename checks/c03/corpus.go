package main

// Seed corpus: ~80 small by-construction-valid modules built with wb that together use every
// section kind, every element/data segment encoding and every instruction immediate kind.
// Each seed states the features it needs; it must be ACCEPTED under every feature set that
// contains them (validity oracle) and is the base of the structured mutations.

import (
	"fmt"
	"github.com/tetratelabs/wazero/api"
	"github.com/tetratelabs/wazero/experimental"
	"github.com/tetratelabs/wazero/verif/wb"
)

const (
	fBulk  = api.CoreFeatureBulkMemoryOperations
	fMV    = api.CoreFeatureMultiValue
	fMG    = api.CoreFeatureMutableGlobal
	fNT    = api.CoreFeatureNonTrappingFloatToIntConversion
	fRef   = api.CoreFeatureReferenceTypes
	fSE    = api.CoreFeatureSignExtensionOps
	fSIMD  = api.CoreFeatureSIMD
	fTH    = experimental.CoreFeaturesThreads
	fTC    = experimental.CoreFeaturesTailCall
	fBR    = fBulk | fRef // documented as mutually dependent
	fNone  = api.CoreFeatures(0)
	fV2All = api.CoreFeaturesV2
)

type featureSet struct {
	Name string
	F    api.CoreFeatures
}

var featureSets = []featureSet{
	{"v2+threads+tail", api.CoreFeaturesV2 | fTH | fTC},
	{"v2", api.CoreFeaturesV2},
	{"v1", api.CoreFeaturesV1},
	{"v2-bulk", api.CoreFeaturesV2 &^ fBulk},
	{"v2-multivalue", api.CoreFeaturesV2 &^ fMV},
	{"v2-mutableglobal", api.CoreFeaturesV2 &^ fMG},
	{"v2-nontrapping", api.CoreFeaturesV2 &^ fNT},
	{"v2-reftypes", api.CoreFeaturesV2 &^ fRef},
	{"v2-signext", api.CoreFeaturesV2 &^ fSE},
	{"v2-simd", api.CoreFeaturesV2 &^ fSIMD},
}

type seed struct {
	Name  string
	Req   api.CoreFeatures
	B     []byte
	Light bool // large "one tiny function per instruction" seeds: validity, retype and drop-dependency passes only
}

var (
	i32  = wb.I32
	i64  = wb.I64
	f32  = wb.F32
	f64  = wb.F64
	v128 = wb.V128
	fref = wb.FuncRef
	xref = wb.ExternRef
)

func vt(t ...byte) []byte { return t }
func a() *wb.Asm          { return &wb.Asm{} }
func u32p(v uint32) *uint32 { return &v }

func buildCorpus() []seed {
	var out []seed
	add := func(name string, req api.CoreFeatures, m *wb.Module) {
		out = append(out, seed{Name: name, Req: req, B: m.Encode()})
	}

	// 0: the empty module
	add("empty", fNone, &wb.Module{})

	{ // type section only
		m := &wb.Module{}
		m.Type(nil, nil)
		m.Type(vt(i32, i64), vt(f32))
		m.Type(vt(f64), nil)
		add("types", fNone, m)
	}
	{ // multi-value types
		m := &wb.Module{}
		m.Type(vt(i32), vt(i32, i64, f32, f64))
		add("types-mv", fMV, m)
	}
	{
		m := &wb.Module{}
		m.ExportFunc("f", m.AddFunc(nil, nil, nil, nil))
		add("func-min", fNone, m)
	}
	{
		m := &wb.Module{}
		m.ExportFunc("add", m.AddFunc(vt(i32, i32), vt(i32), nil, a().LocalGet(0).LocalGet(1).Op(0x6a).B))
		add("add", fNone, m)
	}
	{ // locals of every number type, set/tee/get
		m := &wb.Module{}
		body := a().LocalGet(0).LocalTee(1).LocalSet(2).
			I64Const(7).LocalSet(3).F32Const(0x3f800000).LocalSet(4).F64Const(0x4000000000000000).LocalSet(5).
			LocalGet(2).LocalGet(3).Op(0xa7).Op(0x6a).B
		m.ExportFunc("l", m.AddFunc(vt(i32), vt(i32), vt(i32, i32, i64, f32, f64), body))
		add("locals", fNone, m)
	}
	{ // function import wrapped by a guest function
		m := &wb.Module{}
		h := m.ImportFunc("env", "h", vt(i32), vt(i32))
		m.ExportFunc("w", m.AddFunc(vt(i32), vt(i32), nil, a().LocalGet(0).Call(h).I32Const(1).Op(0x6a).B))
		add("import-func", fNone, m)
	}
	{ // function import with many parameters of mixed types
		m := &wb.Module{}
		h := m.ImportFunc("env", "many", vt(i32, i64, f32, f64, i32, i64), vt(f64))
		m.ExportFunc("w", m.AddFunc(vt(i32, i64), vt(f64), nil,
			a().LocalGet(0).LocalGet(1).F32Const(0x40400000).F64Const(0x3ff0000000000000).LocalGet(0).LocalGet(1).Call(h).B))
		add("import-func-many", fNone, m)
	}
	{ // table import + call_indirect
		m := &wb.Module{}
		m.Imports = append(m.Imports, wb.Import{Module: "env", Name: "t", Kind: wb.KindTable, Table: wb.Table{Elem: fref, Lim: wb.Limits{Min: 2, Max: 4, HasMax: true}}})
		t0 := m.Type(nil, vt(i32))
		f := m.AddFunc(nil, vt(i32), nil, a().I32Const(42).B)
		m.Elems = append(m.Elems, wb.Elem{Mode: 0, Offset: wb.CI32(0), Funcs: []uint32{f}})
		m.ExportFunc("ci", m.AddFunc(vt(i32), vt(i32), nil, a().LocalGet(0).CallIndirect(t0, 0).B))
		add("import-table", fNone, m)
	}
	{ // memory import
		m := &wb.Module{}
		m.Imports = append(m.Imports, wb.Import{Module: "env", Name: "m", Kind: wb.KindMemory, Mem: wb.Limits{Min: 1, Max: 2, HasMax: true}})
		m.ExportFunc("ld", m.AddFunc(vt(i32), vt(i32), nil, a().LocalGet(0).Mem(0x28, 2, 4).B))
		m.ExportFunc("st", m.AddFunc(vt(i32, i32), nil, nil, a().LocalGet(0).LocalGet(1).Mem(0x36, 2, 0).B))
		m.Datas = append(m.Datas, wb.Data{Offset: wb.CI32(4), Bytes: []byte{1, 2, 3, 4}})
		add("import-mem", fNone, m)
	}
	{ // immutable global import used by every kind of constant expression
		m := &wb.Module{}
		m.Imports = append(m.Imports, wb.Import{Module: "env", Name: "g", Kind: wb.KindGlobal, GlobalType: i32})
		m.Mem = &wb.Limits{Min: 1}
		m.Tables = []wb.Table{{Elem: fref, Lim: wb.Limits{Min: 8}}}
		g1 := m.AddGlobal(i32, false, wb.CGlobal(0))
		f := m.AddFunc(nil, vt(i32), nil, a().GlobalGet(g1).B)
		m.ExportFunc("g1", f)
		m.Elems = append(m.Elems, wb.Elem{Mode: 0, Offset: wb.CGlobal(0), Funcs: []uint32{f}})
		m.Datas = append(m.Datas, wb.Data{Offset: wb.CGlobal(0), Bytes: []byte{0xaa, 0xbb}})
		m.ExportFunc("ld", m.AddFunc(nil, vt(i32), nil, a().I32Const(0).Mem(0x28, 0, 0).B))
		m.ExportFunc("ci", m.AddFunc(vt(i32), vt(i32), nil, a().LocalGet(0).CallIndirect(m.Type(nil, vt(i32)), 0).B))
		add("import-global-constexpr", fNone, m)
	}
	{ // mutable global import
		m := &wb.Module{}
		m.Imports = append(m.Imports, wb.Import{Module: "env", Name: "gm", Kind: wb.KindGlobal, GlobalType: i64, GlobalMut: true})
		m.ExportFunc("get", m.AddFunc(nil, vt(i64), nil, a().GlobalGet(0).B))
		m.ExportFunc("set", m.AddFunc(vt(i64), nil, nil, a().LocalGet(0).GlobalSet(0).B))
		add("import-global-mut", fMG, m)
	}
	{ // one import of every kind from two modules
		m := &wb.Module{}
		h := m.ImportFunc("a", "f", nil, vt(i32))
		m.Imports = append(m.Imports,
			wb.Import{Module: "a", Name: "t", Kind: wb.KindTable, Table: wb.Table{Elem: fref, Lim: wb.Limits{Min: 1}}},
			wb.Import{Module: "b", Name: "m", Kind: wb.KindMemory, Mem: wb.Limits{Min: 1}},
			wb.Import{Module: "b", Name: "g", Kind: wb.KindGlobal, GlobalType: f32})
		m.ExportFunc("w", m.AddFunc(nil, vt(i32), nil, a().Call(h).B))
		add("import-all-kinds", fNone, m)
	}
	{ // active element segment (flag 0), call_indirect incl. type mismatch and null entry
		m := &wb.Module{}
		m.Tables = []wb.Table{{Elem: fref, Lim: wb.Limits{Min: 4, Max: 4, HasMax: true}}}
		t0 := m.Type(nil, vt(i32))
		f0 := m.AddFunc(nil, vt(i32), nil, a().I32Const(10).B)
		f1 := m.AddFunc(nil, vt(i32), nil, a().I32Const(11).B)
		f2 := m.AddFunc(vt(i32), vt(i32), nil, a().LocalGet(0).B)
		m.Elems = append(m.Elems, wb.Elem{Mode: 0, Offset: wb.CI32(1), Funcs: []uint32{f0, f1, f2}})
		m.ExportFunc("ci", m.AddFunc(vt(i32), vt(i32), nil, a().LocalGet(0).CallIndirect(t0, 0).B))
		add("elem-active", fNone, m)
	}
	{ // passive element segment (flag 1) + table.init + elem.drop
		m := &wb.Module{}
		m.Tables = []wb.Table{{Elem: fref, Lim: wb.Limits{Min: 4}}}
		f0 := m.AddFunc(nil, vt(i32), nil, a().I32Const(7).B)
		m.Elems = append(m.Elems, wb.Elem{Mode: 1, Funcs: []uint32{f0, f0}})
		m.ExportFunc("init", m.AddFunc(vt(i32, i32, i32), nil, nil, a().LocalGet(0).LocalGet(1).LocalGet(2).TableInit(0, 0).B))
		m.ExportFunc("drop", m.AddFunc(nil, nil, nil, a().ElemDrop(0).B))
		m.ExportFunc("ci", m.AddFunc(vt(i32), vt(i32), nil, a().LocalGet(0).CallIndirect(m.Type(nil, vt(i32)), 0).B))
		add("elem-passive", fBR, m)
	}
	{ // active with table index (flag 2), two tables
		m := &wb.Module{}
		m.Tables = []wb.Table{{Elem: fref, Lim: wb.Limits{Min: 1}}, {Elem: fref, Lim: wb.Limits{Min: 3}}}
		f0 := m.AddFunc(nil, vt(i32), nil, a().I32Const(5).B)
		m.Elems = append(m.Elems, wb.Elem{Mode: 0, TableIdx: 1, Offset: wb.CI32(1), Funcs: []uint32{f0}})
		m.ExportFunc("ci1", m.AddFunc(vt(i32), vt(i32), nil, a().LocalGet(0).CallIndirect(m.Type(nil, vt(i32)), 1).B))
		add("elem-active-tableidx", fBR, m)
	}
	{ // declarative (flag 3) + ref.func in a body
		m := &wb.Module{}
		f0 := m.AddFunc(nil, nil, nil, nil)
		m.Elems = append(m.Elems, wb.Elem{Mode: 2, Funcs: []uint32{f0}})
		m.ExportFunc("isnull", m.AddFunc(nil, vt(i32), nil, a().RefFunc(f0).RefIsNull().B))
		add("elem-declarative", fBR, m)
	}
	{ // active, expression encoding (flag 4) with ref.func and ref.null
		m := &wb.Module{}
		m.Tables = []wb.Table{{Elem: fref, Lim: wb.Limits{Min: 3}}}
		f0 := m.AddFunc(nil, vt(i32), nil, a().I32Const(9).B)
		m.Elems = append(m.Elems, wb.Elem{Mode: 0, Offset: wb.CI32(0), Funcs: []uint32{f0, 0}, UseExprs: true, NullAt: map[int]bool{1: true}})
		m.ExportFunc("ci", m.AddFunc(vt(i32), vt(i32), nil, a().LocalGet(0).CallIndirect(m.Type(nil, vt(i32)), 0).B))
		add("elem-expr-active", fBR, m)
	}
	{ // passive, expression encoding (flag 5): funcref and externref
		m := &wb.Module{}
		m.Tables = []wb.Table{{Elem: fref, Lim: wb.Limits{Min: 2}}, {Elem: xref, Lim: wb.Limits{Min: 2}}}
		f0 := m.AddFunc(nil, nil, nil, nil)
		m.Elems = append(m.Elems,
			wb.Elem{Mode: 1, Funcs: []uint32{f0}, UseExprs: true},
			wb.Elem{Mode: 1, Funcs: []uint32{0}, NullAt: map[int]bool{0: true}, Type: xref})
		m.ExportFunc("i0", m.AddFunc(nil, nil, nil, a().I32Const(0).I32Const(0).I32Const(1).TableInit(0, 0).B))
		m.ExportFunc("i1", m.AddFunc(nil, nil, nil, a().I32Const(1).I32Const(0).I32Const(1).TableInit(1, 1).B))
		add("elem-expr-passive", fBR, m)
	}
	{ // active with table index, expression encoding (flag 6) into an externref table
		m := &wb.Module{}
		m.Tables = []wb.Table{{Elem: fref, Lim: wb.Limits{Min: 1}}, {Elem: xref, Lim: wb.Limits{Min: 2}}}
		m.Elems = append(m.Elems, wb.Elem{Mode: 0, TableIdx: 1, Offset: wb.CI32(0), Funcs: []uint32{0}, NullAt: map[int]bool{0: true}, Type: xref})
		m.ExportFunc("get", m.AddFunc(vt(i32), vt(xref), nil, a().LocalGet(0).TableGet(1).B))
		add("elem-expr-active-tableidx", fBR, m)
	}
	{ // declarative, expression encoding (flag 7)
		m := &wb.Module{}
		f0 := m.AddFunc(nil, nil, nil, nil)
		m.Elems = append(m.Elems, wb.Elem{Mode: 2, Funcs: []uint32{f0}, UseExprs: true})
		m.ExportFunc("rf", m.AddFunc(nil, vt(fref), nil, a().RefFunc(f0).B))
		add("elem-expr-declarative", fBR, m)
	}
	{ // memory + active data
		m := &wb.Module{}
		m.Mem = &wb.Limits{Min: 1}
		m.Datas = append(m.Datas, wb.Data{Offset: wb.CI32(8), Bytes: []byte("hello")})
		m.ExportFunc("ld", m.AddFunc(vt(i32), vt(i32), nil, a().LocalGet(0).Mem(0x2d, 0, 8).B))
		add("data-active", fNone, m)
	}
	{ // passive data + memory.init + data.drop + data count
		m := &wb.Module{}
		m.Mem = &wb.Limits{Min: 1}
		m.DataCount = true
		m.Datas = append(m.Datas, wb.Data{Passive: true, Bytes: []byte{9, 8, 7, 6}})
		m.ExportFunc("init", m.AddFunc(vt(i32, i32, i32), nil, nil, a().LocalGet(0).LocalGet(1).LocalGet(2).MemoryInit(0).B))
		m.ExportFunc("drop", m.AddFunc(nil, nil, nil, a().DataDrop(0).B))
		m.ExportFunc("ld", m.AddFunc(nil, vt(i32), nil, a().I32Const(0).Mem(0x28, 2, 0).B))
		add("data-passive", fBR, m)
	}
	{ // active data with explicit memory index (flag 2)
		// wb emits flag 0 for memory 0, so the data section is written by hand with flag 2
		m2 := &wb.Module{Mem: &wb.Limits{Min: 1}}
		b := m2.Encode()
		b = append(b, 11, 9, 1, 2, 0, 0x41, 0, 0x0b, 2, 0xca, 0xfe)
		out = append(out, seed{Name: "data-active-memidx", Req: fBR, B: b})
	}
	{ // data count with no data segments, memory with a maximum, memory.size / memory.grow
		m := &wb.Module{}
		m.Mem = &wb.Limits{Min: 1, Max: 3, HasMax: true}
		m.DataCount = true
		m.ExportFunc("size", m.AddFunc(nil, vt(i32), nil, a().MemorySize().B))
		m.ExportFunc("grow", m.AddFunc(vt(i32), vt(i32), nil, a().LocalGet(0).MemoryGrow().B))
		add("mem-max-grow", fBR, m)
	}
	{ // globals of every number type, mutable and immutable
		m := &wb.Module{}
		m.AddGlobal(i32, false, wb.CI32(-1))
		g1 := m.AddGlobal(i64, true, wb.CI64(1<<40))
		m.AddGlobal(f32, false, wb.CF32(0x3fc00000))
		g3 := m.AddGlobal(f64, true, wb.CF64(0x400921fb54442d18))
		m.ExportFunc("g1", m.AddFunc(nil, vt(i64), nil, a().GlobalGet(g1).B))
		m.ExportFunc("s3", m.AddFunc(vt(f64), vt(f64), nil, a().LocalGet(0).GlobalSet(g3).GlobalGet(g3).B))
		add("globals-num", fNone, m)
	}
	{ // reference and vector globals
		m := &wb.Module{}
		f0 := m.AddFunc(nil, nil, nil, nil)
		m.AddGlobal(fref, false, wb.CRefFunc(f0))
		g1 := m.AddGlobal(xref, true, wb.CRefNull(xref))
		m.AddGlobal(fref, true, wb.CRefNull(fref))
		m.ExportFunc("x", m.AddFunc(vt(xref), vt(xref), nil, a().LocalGet(0).GlobalSet(g1).GlobalGet(g1).B))
		add("globals-ref", fBR, m)
	}
	{
		m := &wb.Module{}
		g0 := m.AddGlobal(v128, true, wb.CV128(0x0102030405060708, 0x090a0b0c0d0e0f10))
		m.ExportFunc("lane", m.AddFunc(nil, vt(i32), nil, a().GlobalGet(g0).Simd(27).Raw(2).B))
		add("globals-v128", fSIMD, m)
	}
	{ // exports of all four kinds, including a mutable global
		m := &wb.Module{}
		m.Mem = &wb.Limits{Min: 1}
		m.Tables = []wb.Table{{Elem: fref, Lim: wb.Limits{Min: 1}}}
		g := m.AddGlobal(i32, true, wb.CI32(5))
		f := m.AddFunc(nil, vt(i32), nil, a().GlobalGet(g).B)
		m.Exports = append(m.Exports, wb.Export{Name: "f", Kind: wb.KindFunc, Idx: f}, wb.Export{Name: "t", Kind: wb.KindTable, Idx: 0},
			wb.Export{Name: "m", Kind: wb.KindMemory, Idx: 0}, wb.Export{Name: "g", Kind: wb.KindGlobal, Idx: g})
		add("exports-all-kinds", fMG, m)
	}
	{ // start function
		m := &wb.Module{}
		m.Mem = &wb.Limits{Min: 1}
		g := m.AddGlobal(i32, true, wb.CI32(0))
		s := m.AddFunc(nil, nil, nil, a().I32Const(77).GlobalSet(g).I32Const(0).I32Const(0x55).Mem(0x3a, 0, 3).B)
		m.Start = u32p(s)
		m.ExportFunc("g", m.AddFunc(nil, vt(i32), nil, a().GlobalGet(g).B))
		add("start", fNone, m)
	}
	{ // name section: module name, function names, local names
		m := &wb.Module{}
		m.ExportFunc("f", m.AddFunc(vt(i32), nil, vt(i64), nil))
		var nd []byte
		nd = append(nd, 0, 3, 2, 'm', 'n')                                    // module name "mn"
		nd = append(nd, 1, 4, 1, 0, 1, 'f')                                   // function 0 = "f"
		nd = append(nd, 2, 10, 1, 0, 2, 0, 1, 'p', 1, 2, 'l', '1')             // locals of function 0
		nd = append(nd, 9, 2, 0xde, 0xad)                                     // unknown subsection, skipped
		m.Customs = append(m.Customs, wb.Custom{Name: "name", Data: nd})
		add("name-section", fNone, m)
	}
	{ // name section as wb emits it + a trap so that names are used in a stack trace
		m := &wb.Module{}
		f := m.AddFunc(nil, nil, nil, a().Unreachable().B)
		m.ExportFunc("boom", m.AddFunc(nil, nil, nil, a().Call(f).B))
		m.FuncNames = map[uint32]string{0: "inner", 1: "outer"}
		add("name-section-trap", fNone, m)
	}
	{ // custom sections, including DWARF-named ones (stored because DWARF support is on by default)
		m := &wb.Module{}
		f := m.AddFunc(nil, nil, nil, a().Unreachable().B)
		m.ExportFunc("boom", f)
		m.Customs = append(m.Customs,
			wb.Custom{Name: "", Data: nil},
			wb.Custom{Name: "x", Data: []byte{1, 2, 3}},
			wb.Custom{Name: ".debug_info", Data: []byte{7, 0, 0, 0, 4, 0, 0, 0, 0, 0, 8}},
			wb.Custom{Name: ".debug_abbrev", Data: []byte{1, 0x11, 0, 0, 0, 0}},
			wb.Custom{Name: ".debug_line", Data: []byte{0, 0, 0, 0}},
			wb.Custom{Name: ".debug_str", Data: []byte{'a', 0}},
			wb.Custom{Name: ".debug_ranges", Data: []byte{0, 0, 0, 0, 0, 0, 0, 0}})
		add("custom-dwarf", fNone, m)
	}
	{ // a custom section without payload as the last section of the module
		m := &wb.Module{}
		m.ExportFunc("f", m.AddFunc(nil, nil, nil, nil))
		m.Customs = append(m.Customs, wb.Custom{Name: "x", Data: nil})
		add("custom-empty-last", fNone, m)
	}
	{ // block / loop / if-else with result types, br, br_if, return
		m := &wb.Module{}
		body := a().Block(i32).LocalGet(0).If(i32).I32Const(1).Else().I32Const(2).End().
			LocalGet(0).BrIf(0).Drop().I32Const(3).End().B
		m.ExportFunc("c", m.AddFunc(vt(i32), vt(i32), nil, body))
		body2 := a().Block(wb.Void).Loop(wb.Void).LocalGet(0).Op(0x45).BrIf(1).LocalGet(0).I32Const(1).Op(0x6b).LocalSet(0).
			LocalGet(1).I32Const(1).Op(0x6a).LocalTee(1).I32Const(5).Op(0x49).BrIf(0).End().End().LocalGet(1).Return().B
		m.ExportFunc("l", m.AddFunc(vt(i32), vt(i32), vt(i32), body2))
		add("control", fNone, m)
	}
	{ // br_table
		m := &wb.Module{}
		body := a().Block(wb.Void).Block(wb.Void).Block(wb.Void).LocalGet(0).BrTable([]uint32{0, 1, 2}, 1).End().
			I32Const(100).Return().End().I32Const(101).Return().End().I32Const(102).B
		m.ExportFunc("bt", m.AddFunc(vt(i32), vt(i32), nil, body))
		add("br-table", fNone, m)
	}
	{ // block types given by type index (multi-value)
		m := &wb.Module{}
		t := m.Type(vt(i32), vt(i32, i32))
		body := a().LocalGet(0).BlockT(t).LocalGet(0).End().Op(0x6a).B
		m.ExportFunc("mv", m.AddFunc(vt(i32), vt(i32), nil, body))
		t2 := m.Type(nil, vt(i32, i64))
		m.ExportFunc("r2", m.AddFunc(nil, vt(i32, i64), nil, a().BlockT(t2).I32Const(1).I64Const(2).End().B))
		add("blocktype-index", fMV, m)
	}
	{ // loop with typed parameters, if with parameters
		m := &wb.Module{}
		t := m.Type(vt(i32), vt(i32))
		body := a().LocalGet(0).LoopT(t).I32Const(1).Op(0x6a).End().LocalGet(0).IfT(t).I32Const(2).Op(0x6c).Else().Drop().I32Const(0).End().B
		m.ExportFunc("lp", m.AddFunc(vt(i32), vt(i32), nil, body))
		add("blocktype-params", fMV, m)
	}
	{ // calls, recursion
		m := &wb.Module{}
		fac := uint32(0)
		body := a().LocalGet(0).Op(0x50).If(i64).I64Const(1).Else().LocalGet(0).LocalGet(0).I64Const(1).Op(0x7d).Call(fac).Op(0x7e).End().B
		m.AddFunc(vt(i64), vt(i64), nil, body)
		m.ExportFunc("fac5", m.AddFunc(nil, vt(i64), nil, a().I64Const(5).Call(fac).B))
		m.ExportFunc("fac", fac)
		add("call-recursive", fNone, m)
	}
	{ // select and typed select
		m := &wb.Module{}
		m.ExportFunc("s", m.AddFunc(vt(i32, i32, i32), vt(i32), nil, a().LocalGet(0).LocalGet(1).LocalGet(2).Select().B))
		m.ExportFunc("st", m.AddFunc(vt(i64, i64, i32), vt(i64), nil, a().LocalGet(0).LocalGet(1).LocalGet(2).Op(0x1c).U(1).Op(i64).B))
		m.ExportFunc("sr", m.AddFunc(vt(xref, i32), vt(xref), nil, a().LocalGet(0).RefNull(xref).LocalGet(1).Op(0x1c).U(1).Op(xref).B))
		add("select", fBR, m)
	}
	{ // every load and store opcode with alignment and offset immediates
		m := &wb.Module{}
		m.Mem = &wb.Limits{Min: 1}
		ld := a().LocalGet(0).Mem(0x28, 2, 0).Drop().LocalGet(0).Mem(0x29, 3, 8).Drop().LocalGet(0).Mem(0x2a, 2, 16).Drop().LocalGet(0).Mem(0x2b, 3, 24).Drop().
			LocalGet(0).Mem(0x2c, 0, 1).Drop().LocalGet(0).Mem(0x2e, 1, 2).Drop().LocalGet(0).Mem(0x2f, 0, 65535).Drop().
			LocalGet(0).Mem(0x30, 0, 0).Drop().LocalGet(0).Mem(0x31, 0, 0).Drop().LocalGet(0).Mem(0x32, 1, 0).Drop().LocalGet(0).Mem(0x33, 1, 0).Drop().
			LocalGet(0).Mem(0x34, 2, 0).Drop().LocalGet(0).Mem(0x35, 2, 0xffffffff).B
		m.ExportFunc("ld", m.AddFunc(vt(i32), vt(i64), nil, ld))
		st := a().LocalGet(0).LocalGet(1).Mem(0x36, 2, 0).LocalGet(0).LocalGet(2).Mem(0x37, 3, 8).
			LocalGet(0).F32Const(0x3f800000).Mem(0x38, 2, 16).LocalGet(0).F64Const(0x3ff0000000000000).Mem(0x39, 3, 24).
			LocalGet(0).LocalGet(1).Mem(0x3a, 0, 32).LocalGet(0).LocalGet(1).Mem(0x3b, 1, 34).
			LocalGet(0).LocalGet(2).Mem(0x3c, 0, 36).LocalGet(0).LocalGet(2).Mem(0x3d, 1, 38).LocalGet(0).LocalGet(2).Mem(0x3e, 2, 40).B
		m.ExportFunc("st", m.AddFunc(vt(i32, i32, i64), nil, nil, st))
		add("mem-ops", fNone, m)
	}
	{ // constants with extreme LEB encodings and float immediates, numeric ops
		m := &wb.Module{}
		body := a().I32Const(-2147483648).I32Const(2147483647).Op(0x6a).Op(0xac).I64Const(-9223372036854775808).Op(0x7c).
			I64Const(9223372036854775807).Op(0x85).B
		m.ExportFunc("k", m.AddFunc(nil, vt(i64), nil, body))
		fl := a().LocalGet(0).F32Const(0x7fc00000).Op(0x92).Op(0xbb).LocalGet(1).Op(0xa0).F64Const(0xfff0000000000000).Op(0xa4).B
		m.ExportFunc("fl", m.AddFunc(vt(f32, f64), vt(f64), nil, fl))
		add("consts", fNone, m)
	}
	{ // integer division / remainder / conversions that can trap with boundary arguments
		m := &wb.Module{}
		m.ExportFunc("div", m.AddFunc(vt(i32, i32), vt(i32), nil, a().LocalGet(0).LocalGet(1).Op(0x6d).B))
		m.ExportFunc("rem", m.AddFunc(vt(i64, i64), vt(i64), nil, a().LocalGet(0).LocalGet(1).Op(0x82).B))
		m.ExportFunc("tr", m.AddFunc(vt(f32), vt(i32), nil, a().LocalGet(0).Op(0xa8).B))
		m.ExportFunc("tr64", m.AddFunc(vt(f64), vt(i64), nil, a().LocalGet(0).Op(0xb1).B))
		add("traps-numeric", fNone, m)
	}
	{
		m := &wb.Module{}
		m.ExportFunc("e8", m.AddFunc(vt(i32), vt(i32), nil, a().LocalGet(0).Op(0xc0).Op(0xc1).B))
		m.ExportFunc("e64", m.AddFunc(vt(i64), vt(i64), nil, a().LocalGet(0).Op(0xc2).Op(0xc3).Op(0xc4).B))
		add("sign-ext", fSE, m)
	}
	{
		m := &wb.Module{}
		m.ExportFunc("s", m.AddFunc(vt(f32, f64), vt(i64), nil,
			a().LocalGet(0).Misc(0).Drop().LocalGet(0).Misc(1).Drop().LocalGet(1).Misc(2).Drop().LocalGet(1).Misc(3).Drop().
				LocalGet(0).Misc(4).Drop().LocalGet(0).Misc(5).Drop().LocalGet(1).Misc(6).Drop().LocalGet(1).Misc(7).B))
		add("sat-conv", fNT, m)
	}
	{ // bulk memory
		m := &wb.Module{}
		m.Mem = &wb.Limits{Min: 1}
		m.ExportFunc("copy", m.AddFunc(vt(i32, i32, i32), nil, nil, a().LocalGet(0).LocalGet(1).LocalGet(2).MemoryCopy().B))
		m.ExportFunc("fill", m.AddFunc(vt(i32, i32, i32), nil, nil, a().LocalGet(0).LocalGet(1).LocalGet(2).MemoryFill().B))
		add("bulk-memory", fBR, m)
	}
	{ // table instructions
		m := &wb.Module{}
		m.Tables = []wb.Table{{Elem: fref, Lim: wb.Limits{Min: 2, Max: 8, HasMax: true}}, {Elem: fref, Lim: wb.Limits{Min: 2}}}
		f0 := m.AddFunc(nil, nil, nil, nil)
		m.Elems = append(m.Elems, wb.Elem{Mode: 2, Funcs: []uint32{f0}})
		m.ExportFunc("copy", m.AddFunc(vt(i32, i32, i32), nil, nil, a().LocalGet(0).LocalGet(1).LocalGet(2).TableCopy(1, 0).B))
		m.ExportFunc("grow", m.AddFunc(vt(i32), vt(i32), nil, a().RefFunc(f0).LocalGet(0).TableGrow(0).B))
		m.ExportFunc("size", m.AddFunc(nil, vt(i32), nil, a().TableSize(1).B))
		m.ExportFunc("fill", m.AddFunc(vt(i32, i32), nil, nil, a().LocalGet(0).RefNull(fref).LocalGet(1).TableFill(0).B))
		m.ExportFunc("gs", m.AddFunc(vt(i32), vt(i32), nil, a().LocalGet(0).LocalGet(0).TableGet(0).TableSet(1).LocalGet(0).TableGet(1).RefIsNull().B))
		add("table-ops", fBR, m)
	}
	{ // SIMD: const, lanes, shuffle, memarg, load/store lane, splat
		m := &wb.Module{}
		m.Mem = &wb.Limits{Min: 1}
		body := a().V128Const(1, 2).V128Const(3, 4).Simd(13).Raw(0, 1, 2, 3, 16, 17, 18, 19, 4, 5, 6, 7, 20, 21, 22, 31).
			LocalGet(0).Simd(23).Raw(15).Simd(21).Raw(3).Simd(17).Simd(29).Raw(1).B
		m.ExportFunc("sh", m.AddFunc(vt(i32), vt(i64), nil, body))
		mem := a().LocalGet(0).LocalGet(0).SimdMem(0, 4, 0).SimdMem(11, 0, 16).
			LocalGet(0).LocalGet(0).SimdMem(7, 0, 1).SimdMem(84, 0, 2).Raw(5).LocalSet(1).
			LocalGet(0).LocalGet(1).SimdMem(87, 3, 8).Raw(1).LocalSet(1).
			LocalGet(0).LocalGet(1).SimdMem(89, 1, 4).Raw(7).
			LocalGet(0).SimdMem(93, 3, 0).Drop().
			LocalGet(0).SimdMem(1, 3, 0).Simd(33).Raw(1).B
		m.ExportFunc("mem", m.AddFunc(vt(i32), vt(f64), vt(v128), mem))
		add("simd", fSIMD, m)
	}
	{ // v128 parameters and results
		m := &wb.Module{}
		m.ExportFunc("vadd", m.AddFunc(vt(v128, v128), vt(v128), nil, a().LocalGet(0).LocalGet(1).Simd(174).B))
		m.ExportFunc("vf", m.AddFunc(vt(v128), vt(v128), vt(v128), a().LocalGet(0).LocalTee(1).Simd(227).LocalGet(1).Simd(228).B))
		add("simd-params", fSIMD, m)
	}
	{ // atomics on a shared memory
		m := &wb.Module{}
		m.Mem = &wb.Limits{Min: 1, Max: 1, HasMax: true, Shared: true}
		body := a().LocalGet(0).LocalGet(1).AtomicMem(0x17, 2, 0).LocalGet(0).AtomicMem(0x10, 2, 0).
			LocalGet(0).LocalGet(1).AtomicMem(0x1e, 2, 0).Op(0x6a).LocalGet(0).I32Const(1).LocalGet(1).AtomicMem(0x48, 2, 4).Op(0x6a).
			Atomic(3).Raw(0).LocalGet(0).I32Const(1).AtomicMem(0, 2, 0).Op(0x6a).
			LocalGet(0).I64Const(3).AtomicMem(0x22, 0, 8).Op(0xa7).Op(0x6a).B
		m.ExportFunc("at", m.AddFunc(vt(i32, i32), vt(i32), nil, body))
		add("atomics", fTH, m)
	}
	{ // tail calls
		m := &wb.Module{}
		m.Tables = []wb.Table{{Elem: fref, Lim: wb.Limits{Min: 1}}}
		t := m.Type(vt(i32), vt(i32))
		f0 := m.AddFunc(vt(i32), vt(i32), nil, a().LocalGet(0).I32Const(1).Op(0x6a).B)
		m.Elems = append(m.Elems, wb.Elem{Mode: 0, Offset: wb.CI32(0), Funcs: []uint32{f0}})
		m.ExportFunc("rc", m.AddFunc(vt(i32), vt(i32), nil, a().LocalGet(0).ReturnCall(f0).B))
		m.ExportFunc("rci", m.AddFunc(vt(i32), vt(i32), nil, a().LocalGet(0).I32Const(0).ReturnCallIndirect(t, 0).B))
		add("tail-call", fTC, m)
	}
	{ // unreachable code, stack-polymorphic typing
		m := &wb.Module{}
		body := a().Block(i32).I32Const(1).Br(0).Op(0x6a).Select().Drop().End().Nop().Return().Unreachable().Op(0x6a).B
		m.ExportFunc("u", m.AddFunc(nil, vt(i32), nil, body))
		add("unreachable-code", fNone, m)
	}
	{ // multi-value function results of every number type
		m := &wb.Module{}
		f0 := m.AddFunc(vt(i32), vt(i32, i64, f32, f64), nil, a().LocalGet(0).I64Const(2).F32Const(0x40400000).F64Const(0x4010000000000000).B)
		m.ExportFunc("m", f0)
		m.ExportFunc("c", m.AddFunc(nil, vt(f64), nil, a().I32Const(1).Call(f0).Drop().Drop().Drop().Op(0xb7).B))
		add("multi-value", fMV, m)
	}
	{ // deep nesting
		m := &wb.Module{}
		as := a()
		for i := 0; i < 8; i++ {
			as.Block(wb.Void)
		}
		as.LocalGet(0).BrIf(7).LocalGet(0).I32Const(1).Op(0x6b).BrIf(3)
		for i := 0; i < 8; i++ {
			as.End()
		}
		as.I32Const(8)
		m.ExportFunc("n", m.AddFunc(vt(i32), vt(i32), nil, as.B))
		add("nesting", fNone, m)
	}
	{ // if without else; nested if in loop
		m := &wb.Module{}
		m.ExportFunc("i", m.AddFunc(vt(i32), vt(i32), vt(i32), a().LocalGet(0).If(wb.Void).I32Const(9).LocalSet(1).End().LocalGet(1).B))
		add("if-no-else", fNone, m)
	}
	{ // out-of-bounds accesses at the edge of the memory
		m := &wb.Module{}
		m.Mem = &wb.Limits{Min: 1, Max: 1, HasMax: true}
		m.Datas = append(m.Datas, wb.Data{Offset: wb.CI32(65532), Bytes: []byte{1, 2, 3, 4}})
		m.ExportFunc("edge", m.AddFunc(vt(i32), vt(i32), nil, a().LocalGet(0).Mem(0x28, 2, 65532).B))
		m.ExportFunc("st8", m.AddFunc(vt(i32), nil, nil, a().LocalGet(0).I64Const(-1).Mem(0x37, 0, 65529).B))
		add("mem-edge", fNone, m)
	}
	{ // externref through functions and tables
		m := &wb.Module{}
		m.Tables = []wb.Table{{Elem: xref, Lim: wb.Limits{Min: 2, Max: 2, HasMax: true}}}
		m.ExportFunc("put", m.AddFunc(vt(i32, xref), nil, nil, a().LocalGet(0).LocalGet(1).TableSet(0).B))
		m.ExportFunc("get", m.AddFunc(vt(i32), vt(xref), nil, a().LocalGet(0).TableGet(0).B))
		add("externref", fBR, m)
	}
	{ // table export / import round trip with maximum
		m := &wb.Module{}
		m.Imports = append(m.Imports, wb.Import{Module: "env", Name: "xt", Kind: wb.KindTable, Table: wb.Table{Elem: xref, Lim: wb.Limits{Min: 1}}})
		m.Tables = []wb.Table{{Elem: fref, Lim: wb.Limits{Min: 0, Max: 1, HasMax: true}}}
		m.Exports = append(m.Exports, wb.Export{Name: "t0", Kind: wb.KindTable, Idx: 0}, wb.Export{Name: "t1", Kind: wb.KindTable, Idx: 1})
		add("tables-mixed", fBR, m)
	}
	{ // shared memory import
		m := &wb.Module{}
		m.Imports = append(m.Imports, wb.Import{Module: "env", Name: "sm", Kind: wb.KindMemory, Mem: wb.Limits{Min: 1, Max: 2, HasMax: true, Shared: true}})
		m.ExportFunc("n", m.AddFunc(vt(i32), vt(i32), nil, a().LocalGet(0).I32Const(1).AtomicMem(0, 2, 0).B))
		add("import-shared-mem", fTH, m)
	}
	{ // several functions sharing types, call chain, globals as accumulators
		m := &wb.Module{}
		g := m.AddGlobal(i32, true, wb.CI32(0))
		f0 := m.AddFunc(vt(i32), vt(i32), nil, a().GlobalGet(g).LocalGet(0).Op(0x6a).GlobalSet(g).GlobalGet(g).B)
		f1 := m.AddFunc(vt(i32), vt(i32), nil, a().LocalGet(0).Call(f0).Call(f0).B)
		m.ExportFunc("acc", f1)
		add("call-chain", fNone, m)
	}
	{ // float arithmetic incl. NaN-producing ops and reinterpretation
		m := &wb.Module{}
		m.ExportFunc("f", m.AddFunc(vt(f32, f32), vt(i32), nil, a().LocalGet(0).LocalGet(1).Op(0x95).Op(0x91).Op(0x8c).LocalGet(0).Op(0x5d).B))
		m.ExportFunc("d", m.AddFunc(vt(f64, f64), vt(f64), nil, a().LocalGet(0).LocalGet(1).Op(0xa3).Op(0x9f).LocalGet(0).Op(0xa6).B))
		m.ExportFunc("c", m.AddFunc(vt(i64), vt(f32), nil, a().LocalGet(0).Op(0xb4).LocalGet(0).Op(0xbf).Op(0xb6).Op(0x96).B))
		add("float-ops", fNone, m)
	}
	{ // 64-bit integer ops, shifts and rotates, comparisons
		m := &wb.Module{}
		m.ExportFunc("i", m.AddFunc(vt(i64, i64), vt(i32), nil, a().LocalGet(0).LocalGet(1).Op(0x89).LocalGet(1).Op(0x86).Op(0x7a).LocalGet(0).Op(0x53).B))
		m.ExportFunc("j", m.AddFunc(vt(i32, i32), vt(i32), nil, a().LocalGet(0).LocalGet(1).Op(0x77).LocalGet(1).Op(0x74).Op(0x69).LocalGet(0).Op(0x4e).B))
		add("int-ops", fNone, m)
	}
	{ // a local count given in several groups and an unused type
		m := &wb.Module{}
		m.Type(vt(f32), vt(f32))
		m.ExportFunc("z", m.AddFunc(nil, vt(i64), vt(i32, i32, i32, i64, i64, f32, i32), a().LocalGet(4).LocalGet(6).Op(0xad).Op(0x7c).B))
		add("local-groups", fNone, m)
	}
	{ // function reference stored to a table by the guest, then called
		m := &wb.Module{}
		m.Tables = []wb.Table{{Elem: fref, Lim: wb.Limits{Min: 2}}}
		f0 := m.AddFunc(nil, vt(i32), nil, a().I32Const(33).B)
		m.Elems = append(m.Elems, wb.Elem{Mode: 2, Funcs: []uint32{f0}})
		m.ExportFunc("go", m.AddFunc(vt(i32), vt(i32), nil, a().LocalGet(0).RefFunc(f0).TableSet(0).LocalGet(0).CallIndirect(m.Type(nil, vt(i32)), 0).B))
		add("ref-func-table", fBR, m)
	}
	{ // memory without maximum exported, grow then access
		m := &wb.Module{}
		m.Mem = &wb.Limits{Min: 0}
		m.Exports = append(m.Exports, wb.Export{Name: "mem", Kind: wb.KindMemory, Idx: 0})
		m.ExportFunc("g", m.AddFunc(vt(i32), vt(i32), nil, a().I32Const(1).MemoryGrow().Drop().LocalGet(0).LocalGet(0).Mem(0x36, 2, 0).MemorySize().B))
		add("mem-zero-grow", fNone, m)
	}
	{ // bulk memory instructions in functions WITHOUT parameters or locals: the operand stack is empty after
		// them, so an engine that reads an immediate with another length than the validator did and decodes
		// the leftover bytes as instructions under-flows its stack model (CompileModule panic)
		m := &wb.Module{}
		m.Mem = &wb.Limits{Min: 1}
		m.DataCount = true
		m.Datas = append(m.Datas, wb.Data{Passive: true, Bytes: []byte{1, 2}})
		m.ExportFunc("fill", m.AddFunc(nil, nil, nil, a().I32Const(0).I32Const(0).I32Const(0).MemoryFill().B))
		m.ExportFunc("copy", m.AddFunc(nil, nil, nil, a().I32Const(0).I32Const(0).I32Const(0).MemoryCopy().B))
		m.ExportFunc("init", m.AddFunc(nil, nil, nil, a().I32Const(0).I32Const(0).I32Const(0).MemoryInit(0).DataDrop(0).B))
		m.ExportFunc("sz", m.AddFunc(nil, nil, nil, a().MemorySize().Drop().I32Const(0).MemoryGrow().Drop().B))
		add("bulk-noparams", fBR, m)
	}
	{ // the same for table instructions, call_indirect, ref.null and memory accesses
		m := &wb.Module{}
		m.Mem = &wb.Limits{Min: 1}
		m.Tables = []wb.Table{{Elem: fref, Lim: wb.Limits{Min: 2}}, {Elem: fref, Lim: wb.Limits{Min: 2}}}
		f0 := m.AddFunc(nil, nil, nil, nil)
		m.Elems = append(m.Elems, wb.Elem{Mode: 1, Funcs: []uint32{f0}})
		m.ExportFunc("ti", m.AddFunc(nil, nil, nil, a().I32Const(0).I32Const(0).I32Const(1).TableInit(0, 1).ElemDrop(0).B))
		m.ExportFunc("tc", m.AddFunc(nil, nil, nil, a().I32Const(0).I32Const(0).I32Const(1).TableCopy(1, 0).B))
		m.ExportFunc("tg", m.AddFunc(nil, nil, nil, a().RefNull(fref).I32Const(1).TableGrow(1).Drop().I32Const(0).RefNull(fref).I32Const(1).TableFill(0).TableSize(1).Drop().B))
		m.ExportFunc("ci", m.AddFunc(nil, nil, nil, a().I32Const(0).CallIndirect(m.Type(nil, nil), 1).I32Const(0).TableGet(0).Drop().B))
		m.ExportFunc("ls", m.AddFunc(nil, nil, nil, a().I32Const(0).I32Const(0).Mem(0x28, 2, 4).Mem(0x36, 2, 8).B))
		add("table-noparams", fBR, m)
	}
	{ // element segments (index form and expression form) next to globals that are NOT references, with one
		// exported call_indirect per table slot and a table.get: wazero tags element items with bits 30/31
		// ("item comes from global k" / null), so an item that is mistaken for a tagged one turns the raw value
		// of a numeric global into a function pointer
		m := &wb.Module{}
		m.Tables = []wb.Table{{Elem: fref, Lim: wb.Limits{Min: 3}}}
		m.AddGlobal(i64, false, wb.CI64(8))
		m.AddGlobal(i32, false, wb.CI32(5))
		t0 := m.Type(nil, vt(i32))
		f0 := m.AddFunc(nil, vt(i32), nil, a().I32Const(21).B)
		m.Elems = append(m.Elems,
			wb.Elem{Mode: 0, Offset: wb.CI32(0), Funcs: []uint32{f0}},
			wb.Elem{Mode: 0, Offset: wb.CI32(1), Funcs: []uint32{f0}, UseExprs: true})
		m.ExportFunc("c0", m.AddFunc(nil, vt(i32), nil, a().I32Const(0).CallIndirect(t0, 0).B))
		m.ExportFunc("c1", m.AddFunc(nil, vt(i32), nil, a().I32Const(1).CallIndirect(t0, 0).B))
		m.ExportFunc("c2", m.AddFunc(nil, vt(i32), nil, a().I32Const(2).CallIndirect(t0, 0).B))
		m.ExportFunc("n1", m.AddFunc(nil, vt(i32), nil, a().I32Const(1).TableGet(0).RefIsNull().B))
		add("elem-next-to-globals", fBR, m)
	}
	// decoy types of equal arity but different types: a retyped block type / signature entry then finds a
	// same-arity alternative in the module (a type check weakened to an arity check accepts it)
	decoys := func(m *wb.Module) (iv, li, fd, ii uint32) {
		return m.Type(vt(i32), vt(v128)), m.Type(vt(i64), vt(i32)), m.Type(vt(f32), vt(f64)), m.Type(vt(i32), vt(i32))
	}
	{ // every form of `if`, in particular WITHOUT else: no params/results; (param t)(result t) with a
		// stack-polymorphic and with an ordinary then-arm; and with else: (param t)(result u), result only.
		// The code after each `if` drops its result, so the function stays well-typed whatever the result type.
		m := &wb.Module{}
		iv, _, _, ii := decoys(m)
		m.ExportFunc("a", m.AddFunc(vt(i32), vt(i32), nil, a().LocalGet(0).If(wb.Void).Nop().End().I32Const(1).B))
		m.ExportFunc("b", m.AddFunc(vt(i32), vt(i32), nil, a().LocalGet(0).LocalGet(0).IfT(ii).Unreachable().End().Drop().I32Const(5).B))
		m.ExportFunc("c", m.AddFunc(vt(i32), vt(i32), nil, a().I32Const(7).LocalGet(0).IfT(ii).I32Const(1).Op(0x6a).End().B))
		m.ExportFunc("d", m.AddFunc(vt(i32), vt(i32), nil, a().I32Const(7).LocalGet(0).IfT(iv).Drop().V128Const(1, 2).Else().Drop().V128Const(3, 4).End().Drop().I32Const(6).B))
		m.ExportFunc("e", m.AddFunc(vt(i32), vt(i32), nil, a().LocalGet(0).If(i32).I32Const(1).Else().I32Const(2).End().B))
		add("if-forms", fMV|fSIMD, m)
	}
	{ // block / loop with typed parameters as targets of br, br_if and br_table
		m := &wb.Module{}
		_, _, _, ii := decoys(m)
		m.ExportFunc("bi", m.AddFunc(vt(i32), vt(i32), nil, a().I32Const(7).BlockT(ii).LocalGet(0).BrIf(0).End().B))
		m.ExportFunc("bt", m.AddFunc(vt(i32), vt(i32), nil, a().I32Const(7).BlockT(ii).BlockT(ii).LocalGet(0).BrTable([]uint32{0, 1}, 1).End().End().B))
		m.ExportFunc("br", m.AddFunc(vt(i32), vt(i32), nil, a().I32Const(7).BlockT(ii).Br(0).End().Drop().I32Const(4).B))
		m.ExportFunc("lp", m.AddFunc(vt(i32), vt(i32), vt(i32), a().I32Const(7).LoopT(ii).LocalGet(1).I32Const(1).Op(0x6a).LocalTee(1).I32Const(3).Op(0x49).BrIf(0).End().B))
		m.ExportFunc("bv", m.AddFunc(vt(i32), vt(i32), nil, a().Block(i32).I32Const(9).LocalGet(0).BrIf(0).Drop().I32Const(8).End().B))
		add("typed-branch-targets", fMV|fSIMD, m)
	}
	{ // forward references: function 0 calls, tail-calls and takes a reference to LATER functions, the start
		// section and an export name later functions too, so a deviation in a later function's entry of the
		// function section is seen by code that is validated before that entry is
		m := &wb.Module{}
		m.Tables = []wb.Table{{Elem: fref, Lim: wb.Limits{Min: 1}}}
		f0 := m.AddFunc(nil, vt(i32), nil, a().I32Const(0).RefFunc(3).TableSet(0).Call(1).Call(2).Op(0x6a).B)
		_ = f0
		m.AddFunc(nil, vt(i32), nil, a().I32Const(1).B)
		m.AddFunc(nil, vt(i32), nil, a().I32Const(2).B)
		f3 := m.AddFunc(nil, nil, nil, nil)
		m.Elems = append(m.Elems, wb.Elem{Mode: 2, Funcs: []uint32{f3}})
		m.Start = u32p(f3)
		m.ExportFunc("a", 0)
		m.ExportFunc("d", f3)
		add("forward-references", fBR, m)
	}
	// segments without the object they could refer to (see segkinds.go for the whole class): a passive element
	// segment and NO table — instantiation without reference-types indexed the missing table —, and a passive
	// data segment without memory
	out = append(out, seed{Name: "elem-passive-no-table", Req: fBR, B: segElemModule(1, 2, fref, 0).B})
	out = append(out, seed{Name: "data-passive-no-memory", Req: fBR, B: segDataModule(1, 2, 0, true).B})
	{ // element items written as `global.get g` (imported funcref globals; wazero stores them as g | 1<<30 in
		// the function-index space) next to every other place that names a function: ref.func and call in
		// bodies, start, exports, index-form and expression-form items. A function-index field that takes the
		// value g | 1<<30 must not be mistaken for a function.
		m := &wb.Module{}
		m.Imports = append(m.Imports,
			wb.Import{Module: "env", Name: "g0", Kind: wb.KindGlobal, GlobalType: fref},
			wb.Import{Module: "env", Name: "g1", Kind: wb.KindGlobal, GlobalType: fref})
		m.Tables = []wb.Table{{Elem: fref, Lim: wb.Limits{Min: 5}}}
		f0 := m.AddFunc(nil, nil, nil, nil)
		m.ExportFunc("rf", m.AddFunc(nil, vt(i32), nil, a().RefFunc(f0).RefIsNull().B))
		m.ExportFunc("c", m.AddFunc(nil, vt(i32), nil, a().Call(f0).I32Const(3).B))
		m.ExportFunc("n1", m.AddFunc(nil, vt(i32), nil, a().I32Const(1).TableGet(0).RefIsNull().B))
		m.ExportFunc("ci", m.AddFunc(nil, nil, nil, a().I32Const(0).CallIndirect(m.Type(nil, nil), 0).B))
		m.Start = u32p(f0)
		b := m.Encode()
		segs := cat([]byte{3},
			rawElemSeg(4, 0, fref, []elemItem{{'f', f0}, {'g', 0}, {'g', 1}, {'n', 0}}),
			rawElemSeg(5, 0, fref, []elemItem{{'g', 1}}),
			rawElemSeg(0, 4, fref, []elemItem{{'f', f0}}))
		out = append(out, seed{Name: "elem-globalget-items", Req: fBR, B: insertSection(b, 9, segs)})
	}
	// ---- one tiny exported function per instruction of a family, so that removing the definition the
	// family depends on (the memory, a table, the data count ...) confronts EVERY opcode's own existence
	// check (drop-dependency pass). These seeds are large and only used by the light passes.
	light := func(name string, req api.CoreFeatures, m *wb.Module) {
		out = append(out, seed{Name: name, Req: req, B: m.Encode(), Light: true})
	}
	constOf := func(as *wb.Asm, t byte) {
		switch t {
		case i32:
			as.I32Const(3)
		case i64:
			as.I64Const(3)
		case f32:
			as.F32Const(0x40400000)
		case f64:
			as.F64Const(0x4008000000000000)
		case v128:
			as.V128Const(3, 4)
		}
	}
	{ // scalar loads/stores, memory.size/grow, bulk memory
		m := &wb.Module{}
		m.Mem = &wb.Limits{Min: 1}
		m.DataCount = true
		m.Datas = append(m.Datas, wb.Data{Passive: true, Bytes: []byte{1, 2, 3}})
		for _, mo := range memOps {
			as := a().LocalGet(0)
			if mo.store {
				constOf(as, mo.t)
				as.Mem(mo.op, 0, 8)
				m.ExportFunc(fmt.Sprintf("%02x", mo.op), m.AddFunc(vt(i32), nil, nil, as.B))
			} else {
				as.Mem(mo.op, 0, 8).Drop()
				m.ExportFunc(fmt.Sprintf("%02x", mo.op), m.AddFunc(vt(i32), nil, nil, as.B))
			}
		}
		m.ExportFunc("sz", m.AddFunc(nil, vt(i32), nil, a().MemorySize().B))
		m.ExportFunc("gr", m.AddFunc(nil, vt(i32), nil, a().I32Const(0).MemoryGrow().B))
		m.ExportFunc("fi", m.AddFunc(vt(i32), nil, nil, a().LocalGet(0).I32Const(1).I32Const(2).MemoryFill().B))
		m.ExportFunc("cp", m.AddFunc(vt(i32), nil, nil, a().LocalGet(0).I32Const(0).I32Const(2).MemoryCopy().B))
		m.ExportFunc("in", m.AddFunc(vt(i32), nil, nil, a().LocalGet(0).I32Const(0).I32Const(2).MemoryInit(0).B))
		m.ExportFunc("dd", m.AddFunc(nil, nil, nil, a().DataDrop(0).B))
		light("family-memory-scalar", fBR, m)
	}
	{ // every SIMD load/store: plain, extending, splat, zero, lane
		m := &wb.Module{}
		m.Mem = &wb.Limits{Min: 1}
		for _, mo := range simdMemOps {
			as := a().LocalGet(0)
			switch {
			case mo.lanes > 0:
				as.V128Const(1, 2).SimdMem(mo.op, 0, 4).Raw(0)
				if !mo.store {
					as.Drop()
				}
			case mo.store:
				as.V128Const(1, 2).SimdMem(mo.op, 0, 4)
			default:
				as.SimdMem(mo.op, 0, 4).Drop()
			}
			m.ExportFunc(fmt.Sprintf("%02x", mo.op), m.AddFunc(vt(i32), nil, nil, as.B))
		}
		light("family-memory-simd", fSIMD, m)
	}
	{ // every atomic instruction (wait with a zero timeout), on a shared memory
		m := &wb.Module{}
		m.Mem = &wb.Limits{Min: 1, Max: 1, HasMax: true, Shared: true}
		for _, ao := range atomicOps() {
			as := a().LocalGet(0)
			for _, t := range ao.in[1:] {
				if ao.op == 1 || ao.op == 2 {
					// wait: expected value 1 (memory holds 0, so it returns "not equal" at once), timeout 0
					if t == i64 && ao.op == 1 {
						as.I64Const(0)
					} else {
						constOf(as, t)
					}
					continue
				}
				constOf(as, t)
			}
			as.AtomicMem(ao.op, ao.natural, 8)
			for range ao.out {
				as.Drop()
			}
			m.ExportFunc(fmt.Sprintf("%02x", ao.op), m.AddFunc(vt(i32), nil, nil, as.B))
		}
		m.ExportFunc("fe", m.AddFunc(nil, nil, nil, a().Atomic(3).Raw(0).B))
		light("family-memory-atomic", fTH, m)
	}
	{ // every table-touching instruction, two tables, passive + declarative element segments
		m := &wb.Module{}
		m.Tables = []wb.Table{{Elem: fref, Lim: wb.Limits{Min: 2}}, {Elem: fref, Lim: wb.Limits{Min: 2}}}
		t0 := m.Type(nil, nil)
		f0 := m.AddFunc(nil, nil, nil, nil)
		m.Elems = append(m.Elems, wb.Elem{Mode: 1, Funcs: []uint32{f0}}, wb.Elem{Mode: 2, Funcs: []uint32{f0}})
		for ti := uint32(0); ti < 2; ti++ {
			sfx := fmt.Sprint(ti)
			m.ExportFunc("ci"+sfx, m.AddFunc(vt(i32), nil, nil, a().LocalGet(0).CallIndirect(t0, ti).B))
			m.ExportFunc("tg"+sfx, m.AddFunc(vt(i32), nil, nil, a().LocalGet(0).TableGet(ti).Drop().B))
			m.ExportFunc("ts"+sfx, m.AddFunc(vt(i32), nil, nil, a().LocalGet(0).RefNull(fref).TableSet(ti).B))
			m.ExportFunc("tz"+sfx, m.AddFunc(nil, vt(i32), nil, a().TableSize(ti).B))
			m.ExportFunc("tw"+sfx, m.AddFunc(nil, vt(i32), nil, a().RefNull(fref).I32Const(1).TableGrow(ti).B))
			m.ExportFunc("tf"+sfx, m.AddFunc(vt(i32), nil, nil, a().LocalGet(0).RefNull(fref).I32Const(1).TableFill(ti).B))
			m.ExportFunc("ti"+sfx, m.AddFunc(vt(i32), nil, nil, a().LocalGet(0).I32Const(0).I32Const(1).TableInit(0, ti).B))
			m.ExportFunc("tc"+sfx, m.AddFunc(vt(i32), nil, nil, a().LocalGet(0).I32Const(0).I32Const(1).TableCopy(ti, 1-ti).B))
		}
		m.ExportFunc("ed", m.AddFunc(nil, nil, nil, a().ElemDrop(0).B))
		m.ExportFunc("rf", m.AddFunc(nil, vt(i32), nil, a().RefFunc(f0).RefIsNull().B))
		light("family-table", fBR, m)
	}
	{ // return_call_indirect needs its own feature
		m := &wb.Module{}
		m.Tables = []wb.Table{{Elem: fref, Lim: wb.Limits{Min: 1}}}
		t0 := m.Type(nil, nil)
		m.ExportFunc("rci", m.AddFunc(vt(i32), nil, nil, a().LocalGet(0).ReturnCallIndirect(t0, 0).B))
		light("family-table-tail", fTC, m)
	}
	return out
}
