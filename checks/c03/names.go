package main

// Family "names" + the "lazy consumer" oracle.
//
// wazero decodes the custom "name" section (and keeps DWARF / other custom sections) at compile time
// WITHOUT checking what the specification asks of a well-formed name section (indexes strictly
// increasing, unique, inside the function / local index space), and consumes the result LAZILY: the
// function definitions are built on the first of
//   CompiledModule.ExportedFunctions / ImportedFunctions, Module.ExportedFunctionDefinitions,
//   Function.Definition, the first trap (stack trace), a function listener (at compile time), ...
// A custom section never invalidates a module, so every member of this family is valid by construction
// and everything a user can do with the compiled module / the instance must work without a Go panic.
//
// Input dimension (one fixed module: import env.h (i32)->(), t(i32,i64)+1 local traps, f()=1,
// c(i32)->i32 calls h and t, memory 1 exported "m"; 4 functions, function 1 has 3 locals):
//   fn   : function-name map = every index sequence of length <= 3 over {0,1,2,3, 4 (= count, out of
//          range), 2^32-1}: sorted, unsorted, duplicate, sparse, out of range          (259 modules)
//   loc  : local-name map with ONE function entry: function index in {0 (import),1,2,3,4,2^32-1} x every
//          local-index sequence of length <= 3 over {0,1,2, 3 (out of range), 2^32-1}      (936 modules)
//   loc2 : local-name map with TWO function entries, indexes (fi,fj) over {0,1,3,4}^2 (incl. duplicate
//          and descending), inner maps over {[0,1],[1,0]}^2                               (64 modules)
//   sub  : subsection layout: every order of the subsections {0 module, 1 functions, 2 locals}, each one
//          duplicated, unknown subsections 3 / 0x7f in front, empty subsections, empty names, the name
//          section placed before the type section / between type and import                (17 modules)
//   meta : the five DWARF section names wazero keeps for trap time (.debug_info/_line/_str/_abbrev/
//          _ranges), every subset x payload {empty, 8 bytes of 0x01..}, next to a trapping function;
//          plus producers / target_features / sourceMappingURL / a second custom section of the same
//          name                                                                             (68 modules)
// (sequence length <= 3 in the quick tier; <= 4 in the thorough tier: fn 1 555, loc 4 686 modules)
//   two "name" sections (wazero rejects the second: no validity claim, see NOTES)           (1 module)
//
// Oracle (input.Lazy): besides the ordinary execution (f() = 1, engines agree)
//   order A "definitions first"   (done for EVERY executed input of the whole check, see probeDefs)
//   order B "trap first"          fresh runtime with custom sections kept: instantiate, call t, c, f,
//                                 then query everything
//   order C "listener"            fresh runtime, compiled with a function-listener factory that reads
//                                 every accessor of every definition and walks the stack iterator
// No step may panic; every api.FunctionDefinition must be self-consistent (Index, ParamTypes /
// ResultTypes as declared, ParamNames / ResultNames nil or index-correlated with the types, DebugName ends
// with Name, ExportNames / Import as declared); for a WELL-FORMED map (strictly increasing, in range)
// Name / ParamNames must be the given ones; a trap's error text must carry the DebugName of the trapping
// function; listener events must balance (every Before has its After / Abort).

import (
	"context"
	"fmt"
	"sort"
	"strings"

	"github.com/tetratelabs/wazero"
	"github.com/tetratelabs/wazero/api"
	"github.com/tetratelabs/wazero/experimental"
	"github.com/tetratelabs/wazero/verif/wb"
)

const u32max = 0xffffffff

func nameBytes(s string) []byte { return cat(uleb(uint64(len(s))), []byte(s)) }

func subsection(id byte, payload []byte) []byte {
	return cat([]byte{id}, uleb(uint64(len(payload))), payload)
}

func nameMapBytes(idx []uint32, prefix string) []byte {
	b := uleb(uint64(len(idx)))
	for k, i := range idx {
		b = cat(b, uleb(uint64(i)), nameBytes(fmt.Sprintf("%s%d", prefix, k)))
	}
	return b
}

type localEntry struct {
	fn  uint32
	idx []uint32
}

func localNamesBytes(es []localEntry) []byte {
	b := uleb(uint64(len(es)))
	for k, e := range es {
		b = cat(b, uleb(uint64(e.fn)), nameMapBytes(e.idx, fmt.Sprintf("l%d_", k)))
	}
	return b
}

// namesBase: the fixed module of the family (without custom sections).
func namesBase() *wb.Module {
	m := &wb.Module{}
	h := m.ImportFunc("env", "h", vt(i32), nil)
	m.Mem = &wb.Limits{Min: 1}
	m.Exports = append(m.Exports, wb.Export{Name: "m", Kind: wb.KindMemory, Idx: 0})
	t := m.AddFunc(vt(i32, i64), nil, vt(f32), a().Unreachable().B)
	m.ExportFunc("t", t)
	m.ExportFunc("f", m.AddFunc(nil, vt(i32), nil, a().I32Const(1).B))
	m.ExportFunc("c", m.AddFunc(vt(i32), vt(i32), nil, a().LocalGet(0).Call(h).LocalGet(0).I64Const(7).Call(t).I32Const(3).B))
	return m
}

func seqs(alpha []uint32, maxLen int) [][]uint32 {
	out := [][]uint32{{}}
	last := out
	for l := 1; l <= maxLen; l++ {
		var next [][]uint32
		for _, p := range last {
			for _, v := range alpha {
				next = append(next, append(append([]uint32{}, p...), v))
			}
		}
		out = append(out, next...)
		last = next
	}
	return out
}

func seqName(s []uint32) string {
	if len(s) == 0 {
		return "empty"
	}
	var p []string
	for _, v := range s {
		if v == u32max {
			p = append(p, "max")
		} else {
			p = append(p, fmt.Sprint(v))
		}
	}
	return strings.Join(p, ".")
}

type nameMod struct {
	famMod
	Valid bool
}

func buildNames(maxLen int) []nameMod {
	var out []nameMod
	add := func(name string, valid bool, customs ...wb.Custom) {
		m := namesBase()
		m.Customs = customs
		out = append(out, nameMod{famMod{Name: "names:" + name, Req: fNone, B: m.Encode()}, valid})
	}
	nameSec := func(subs ...[]byte) wb.Custom { return wb.Custom{Name: "name", Data: cat(subs...)} }
	modSub := subsection(0, nameBytes("mod"))
	// fn
	for _, s := range seqs([]uint32{0, 1, 2, 3, 4, u32max}, maxLen) {
		add("fn:"+seqName(s), true, nameSec(modSub, subsection(1, nameMapBytes(s, "fn"))))
	}
	// loc
	inner := seqs([]uint32{0, 1, 2, 3, u32max}, maxLen)
	for _, fi := range []uint32{0, 1, 2, 3, 4, u32max} {
		for _, s := range inner {
			add(fmt.Sprintf("loc:f%s:%s", seqName([]uint32{fi}), seqName(s)), true,
				nameSec(subsection(1, nameMapBytes([]uint32{0, 1, 2, 3}, "fn")), subsection(2, localNamesBytes([]localEntry{{fi, s}}))))
		}
	}
	// loc2
	two := [][]uint32{{0, 1}, {1, 0}}
	for _, fi := range []uint32{0, 1, 3, 4} {
		for _, fj := range []uint32{0, 1, 3, 4} {
			for _, x := range two {
				for _, y := range two {
					add(fmt.Sprintf("loc2:f%d:%s:f%d:%s", fi, seqName(x), fj, seqName(y)), true,
						nameSec(subsection(2, localNamesBytes([]localEntry{{fi, x}, {fj, y}}))))
				}
			}
		}
	}
	// sub
	fnSub := subsection(1, nameMapBytes([]uint32{0, 1, 2, 3}, "fn"))
	locSub := subsection(2, localNamesBytes([]localEntry{{0, []uint32{0}}, {1, []uint32{0, 1, 2}}, {3, []uint32{0}}}))
	subs := [][]byte{modSub, fnSub, locSub}
	for _, perm := range [][3]int{{0, 1, 2}, {0, 2, 1}, {1, 0, 2}, {1, 2, 0}, {2, 0, 1}, {2, 1, 0}} {
		add(fmt.Sprintf("sub:order%d%d%d", perm[0], perm[1], perm[2]), true, nameSec(subs[perm[0]], subs[perm[1]], subs[perm[2]]))
	}
	for d := 0; d < 3; d++ {
		add(fmt.Sprintf("sub:twice%d", d), true, nameSec(modSub, fnSub, locSub, subs[d]))
	}
	add("sub:unknown3-first", true, nameSec(subsection(3, []byte{1, 2, 3}), modSub, fnSub, locSub))
	add("sub:unknown7f-first", true, nameSec(subsection(0x7f, nil), fnSub, locSub))
	add("sub:empty-section", true, nameSec())
	add("sub:empty-maps", true, nameSec(subsection(1, []byte{0}), subsection(2, []byte{0})))
	add("sub:empty-names", true, nameSec(subsection(0, []byte{0}), subsection(1, []byte{2, 1, 0, 3, 0}), subsection(2, []byte{1, 1, 2, 0, 0, 1, 0})))
	add("sub:local-entry-without-locals", true, nameSec(subsection(2, []byte{2, 1, 0, 3, 0})))
	// placement of the name section: before the type section, between type and import
	{
		b := namesBase().Encode()
		sec := cat([]byte{0}, uleb(uint64(5+len(cat(modSub, fnSub, locSub)))), nameBytes("name"), modSub, fnSub, locSub)
		out = append(out, nameMod{famMod{Name: "names:sub:name-section-first", Req: fNone, B: cat(b[:8], sec, b[8:])}, true})
		p := 8 + 2 + int(b[9]) // end of the type section (its size fits one byte)
		out = append(out, nameMod{famMod{Name: "names:sub:name-section-after-types", Req: fNone, B: cat(b[:p], sec, b[p:])}, true})
	}
	// meta
	dw := []string{".debug_info", ".debug_line", ".debug_str", ".debug_abbrev", ".debug_ranges"}
	for set := 0; set < 32; set++ {
		for pi, payload := range [][]byte{{}, {1, 2, 3, 4, 5, 6, 7, 8}} {
			var cs []wb.Custom
			for k, n := range dw {
				if set&(1<<k) != 0 {
					cs = append(cs, wb.Custom{Name: n, Data: payload})
				}
			}
			add(fmt.Sprintf("meta:dwarf:%05b:payload%d", set, pi), true, cs...)
		}
	}
	add("meta:producers", true, wb.Custom{Name: "producers", Data: []byte{0}})
	add("meta:target_features", true, wb.Custom{Name: "target_features", Data: []byte{1, '+', 4, 's', 'i', 'm', 'd'}})
	add("meta:sourceMappingURL", true, wb.Custom{Name: "sourceMappingURL", Data: nameBytes("x")})
	add("meta:same-name-twice", true, wb.Custom{Name: "x", Data: []byte{1}}, wb.Custom{Name: "x", Data: nil}, nameSec(modSub))
	// wazero rejects a second name section ("redundant custom section name"): recorded without validity claim
	add("two-name-sections", false, nameSec(modSub), nameSec(fnSub))
	return out
}

// ---------------------------------------------------------------------------------------------
// lazy consumers

func strictlyIncreasingBelow(idx []uint32, n uint32) bool {
	for k, v := range idx {
		if v >= n || (k > 0 && idx[k-1] >= v) {
			return false
		}
	}
	return true
}

// checkDef: self-consistency of one function definition (every accessor is called).
func checkDef(d api.FunctionDefinition, where string) []string {
	var bad []string
	if d == nil {
		return []string{where + ":nil-definition"}
	}
	pt, rt := d.ParamTypes(), d.ResultTypes()
	if pn := d.ParamNames(); pn != nil && len(pn) != len(pt) {
		bad = append(bad, fmt.Sprintf("%s:ParamNames: %d names for %d parameters", where, len(pn), len(pt)))
	}
	if rn := d.ResultNames(); rn != nil && len(rn) != len(rt) {
		bad = append(bad, fmt.Sprintf("%s:ResultNames: %d names for %d results", where, len(rn), len(rt)))
	}
	if n := d.Name(); n != "" && !strings.HasSuffix(d.DebugName(), n) {
		bad = append(bad, fmt.Sprintf("%s:DebugName: %q does not end with Name %q", where, d.DebugName(), n))
	}
	if d.DebugName() == "" {
		bad = append(bad, where+":DebugName: empty")
	}
	_ = d.ModuleName()
	_ = d.Index()
	_, _, _ = d.Import()
	_ = d.ExportNames()
	_ = d.GoFunction()
	return bad
}

func checkMemDef(d api.MemoryDefinition, where string) []string {
	if d == nil {
		return []string{where + ":nil-definition"}
	}
	_ = d.ModuleName()
	_ = d.Index()
	_, _, _ = d.Import()
	_ = d.ExportNames()
	_ = d.Min()
	_, _ = d.Max()
	return nil
}

// probeCompiled reads everything a CompiledModule publishes. Each accessor runs under its own guard
// label; the first panic ends the probe (the module's lazily built state is undefined after it).
func probeCompiled(cm wazero.CompiledModule, step func(label string, fn func() []string) bool) {
	_ = step("CompiledModule.Name", func() []string { _ = cm.Name(); return nil }) &&
		step("CompiledModule.ImportedFunctions", func() (bad []string) {
			for i, d := range cm.ImportedFunctions() {
				bad = append(bad, checkDef(d, "ImportedFunctions")...)
				if d != nil && int(d.Index()) != i {
					bad = append(bad, fmt.Sprintf("ImportedFunctions:Index: entry %d has index %d", i, d.Index()))
				}
				if _, _, imp := d.Import(); !imp {
					bad = append(bad, "ImportedFunctions:Import: not an import")
				}
			}
			return
		}) &&
		step("CompiledModule.ExportedFunctions", func() (bad []string) {
			defs := cm.ExportedFunctions()
			names := make([]string, 0, len(defs))
			for n := range defs {
				names = append(names, n)
			}
			sort.Strings(names)
			for _, n := range names {
				bad = append(bad, checkDef(defs[n], "ExportedFunctions")...)
				found := false
				for _, en := range defs[n].ExportNames() {
					found = found || en == n
				}
				if !found {
					bad = append(bad, "ExportedFunctions:ExportNames: the export's own name is missing")
				}
			}
			return
		}) &&
		step("CompiledModule.ImportedMemories", func() (bad []string) {
			for _, d := range cm.ImportedMemories() {
				bad = append(bad, checkMemDef(d, "ImportedMemories")...)
			}
			return
		}) &&
		step("CompiledModule.ExportedMemories", func() (bad []string) {
			for _, d := range cm.ExportedMemories() {
				bad = append(bad, checkMemDef(d, "ExportedMemories")...)
			}
			return
		}) &&
		step("CompiledModule.CustomSections", func() []string {
			for _, s := range cm.CustomSections() {
				_, _ = s.Name(), s.Data()
			}
			return nil
		})
}

func probeInstance(mod api.Module, step func(label string, fn func() []string) bool) {
	_ = step("Module.ExportedFunctionDefinitions", func() (bad []string) {
		defs := mod.ExportedFunctionDefinitions()
		names := make([]string, 0, len(defs))
		for n := range defs {
			names = append(names, n)
		}
		sort.Strings(names)
		if len(names) > 32 {
			names = names[:32]
		}
		for _, n := range names {
			bad = append(bad, checkDef(defs[n], "ExportedFunctionDefinitions")...)
			if fn := mod.ExportedFunction(n); fn != nil {
				d := fn.Definition()
				bad = append(bad, checkDef(d, "Function.Definition")...)
				if d != nil && (d.Index() != defs[n].Index() || d.DebugName() != defs[n].DebugName()) {
					bad = append(bad, "Function.Definition: differs from ExportedFunctionDefinitions")
				}
			}
		}
		return
	}) &&
		step("Module.ExportedMemoryDefinitions", func() (bad []string) {
			for _, d := range mod.ExportedMemoryDefinitions() {
				bad = append(bad, checkMemDef(d, "ExportedMemoryDefinitions")...)
			}
			return
		}) &&
		step("Module.Name+String", func() []string { _, _ = mod.Name(), mod.String(); return nil })
}

// stepper turns panics and inconsistencies of one probe step into "lazy" findings:
//   <engine>:<order>:<label>:go-panic:<message>@<innermost wazero frame>   or   ...:<label>:inconsistent:<what>
func (h *harness) stepper(e int, order string, out *[]string) func(label string, fn func() []string) bool {
	return func(label string, fn func() []string) (ok bool) {
		defer func() {
			if p := recover(); p != nil {
				*out = append(*out, fmt.Sprintf("%s:%s:%s:go-panic:%s@%s", engName[e], order, label, normalize(fmt.Sprint(p), 80), wazeroFrame(3)))
				ok = false
			}
		}()
		for _, b := range fn() {
			*out = append(*out, fmt.Sprintf("%s:%s:%s:inconsistent:%s", engName[e], order, label, b))
		}
		return true
	}
}

// probeDefs is order A: everything the compiled module publishes, read before anything else is done with it.
func (h *harness) probeDefs(e int, cm wazero.CompiledModule) (out []string) {
	probeCompiled(cm, h.stepper(e, "definitions-first", &out))
	return out
}

// lazy runtimes: separate from the measuring runtimes (custom sections are kept; order C compiles with
// a listener). variant 0 = order B, 1 = order C.
func (h *harness) lazyRT(variant, e, f int) wazero.Runtime {
	if h.lrts[variant][e] == nil {
		h.lrts[variant][e] = make([]wazero.Runtime, len(featureSets))
	}
	if h.lrts[variant][e][f] == nil {
		var cfg wazero.RuntimeConfig
		if e == engInterp {
			cfg = wazero.NewRuntimeConfigInterpreter()
		} else {
			cfg = wazero.NewRuntimeConfigCompiler()
		}
		cfg = cfg.WithCoreFeatures(featureSets[f].F).WithMemoryLimitPages(memLimitPages).WithCloseOnContextDone(true).WithCustomSections(true)
		rt := wazero.NewRuntimeWithConfig(h.ctx, cfg)
		// the family imports env.h (i32)->()
		env := &wb.Module{}
		env.ExportFunc("h", env.AddFunc(vt(i32), nil, nil, nil))
		if _, err := rt.InstantiateWithConfig(h.ctx, env.Encode(), wazero.NewModuleConfig().WithName("env")); err != nil {
			panic("lazy runtime: env: " + err.Error())
		}
		h.lrts[variant][e][f] = rt
	}
	return h.lrts[variant][e][f]
}

type listenerLog struct {
	open   []uint32 // indexes of functions entered and not yet left
	events int
	bad    []string
}

func (l *listenerLog) NewFunctionListener(d api.FunctionDefinition) experimental.FunctionListener {
	for _, b := range checkDef(d, "NewFunctionListener") {
		l.bad = append(l.bad, b)
	}
	return l
}

func (l *listenerLog) Before(_ context.Context, _ api.Module, d api.FunctionDefinition, _ []uint64, si experimental.StackIterator) {
	l.events++
	l.open = append(l.open, d.Index())
	depth := 0
	for si.Next() {
		fd := si.Function().Definition()
		l.bad = append(l.bad, checkDef(fd, "StackIterator")...)
		if depth == 0 && fd != nil && fd.Index() != d.Index() {
			l.bad = append(l.bad, fmt.Sprintf("StackIterator: top frame is function %d inside Before of %d", fd.Index(), d.Index()))
		}
		_ = si.ProgramCounter()
		depth++
	}
}

func (l *listenerLog) leave(kind string, d api.FunctionDefinition) {
	l.events++
	if n := len(l.open); n == 0 || l.open[n-1] != d.Index() {
		l.bad = append(l.bad, fmt.Sprintf("%s of function %d does not match the open calls %v", kind, d.Index(), l.open))
	} else {
		l.open = l.open[:n-1]
	}
}

func (l *listenerLog) After(_ context.Context, _ api.Module, d api.FunctionDefinition, _ []uint64) {
	l.leave("After", d)
}

func (l *listenerLog) Abort(_ context.Context, _ api.Module, d api.FunctionDefinition, _ error) {
	l.leave("Abort", d)
}

// lazyOrders runs orders B and C for one member of the names family on engine e under feature set f.
// Returns findings ("<engine>:<order>:<step>:...") and the number of steps executed.
func (h *harness) lazyOrders(e, f int, b []byte, wellFormedFn []uint32, tag string) (out []string, steps int) {
	for variant, order := range []string{"trap-first", "listener"} {
		rt := h.lazyRT(variant, e, f)
		step := h.stepper(e, order, &out)
		count := func(label string, fn func() []string) bool { steps++; return step(label, fn) }
		ctx := h.ctx
		lg := &listenerLog{}
		if variant == 1 {
			ctx = experimental.WithFunctionListenerFactory(ctx, lg)
		}
		var cm wazero.CompiledModule
		var mod api.Module
		ok := count("CompileModule", func() []string {
			var err error
			if cm, err = rt.CompileModule(ctx, b); err != nil {
				return []string{"rejected by the lazy runtime: " + normalize(err.Error(), 80)}
			}
			return nil
		}) && cm != nil && count("InstantiateModule", func() []string {
			var err error
			if mod, err = rt.InstantiateModule(ctx, cm, wazero.NewModuleConfig().WithName("")); err != nil {
				return []string{"instantiation failed: " + normalize(err.Error(), 80)}
			}
			return nil
		}) && mod != nil
		if ok {
			for _, call := range []struct {
				name string
				args []uint64
				trap bool
			}{{"t", []uint64{1, 2}, true}, {"c", []uint64{5}, true}, {"f", nil, false}} {
				call := call
				if !count("call:"+call.name, func() []string {
					fn := mod.ExportedFunction(call.name)
					if fn == nil {
						return []string{"export missing"}
					}
					res, err := fn.Call(ctx, call.args...)
					switch {
					case call.trap && err == nil:
						return []string{"expected a trap, returned normally"}
					case call.trap:
						cls := classify(err)
						if cls != "trap:unreachable" {
							return []string{"expected the unreachable trap, got " + cls}
						}
						// the stack trace must name the trapping function the way its definition does
						if dn := mod.ExportedFunction("t").Definition().DebugName(); !strings.Contains(err.Error(), dn) {
							return []string{fmt.Sprintf("the trap's error text does not contain the DebugName %q of the trapping function", dn)}
						}
					case err != nil:
						return []string{"unexpected error " + classify(err)}
					case len(res) != 1 || uint32(res[0]) != 1:
						return []string{fmt.Sprintf("f returned %v", res)}
					}
					return nil
				}) {
					ok = false
					break
				}
			}
		}
		if ok {
			probeCompiled(cm, count)
			probeInstance(mod, count)
			if wellFormedFn != nil {
				// a well-formed function-name map must be reported as given
				count("well-formed-names", func() (bad []string) {
					want := map[uint32]string{}
					for k, i := range wellFormedFn {
						want[i] = fmt.Sprintf("fn%d", k)
					}
					all := append([]api.FunctionDefinition{}, cm.ImportedFunctions()...)
					for _, d := range cm.ExportedFunctions() {
						all = append(all, d)
					}
					for _, d := range all {
						if d.Name() != want[d.Index()] {
							bad = append(bad, fmt.Sprintf("Name: function %d is named %q in the module, reported as %q", d.Index(), want[d.Index()], d.Name()))
						}
					}
					sort.Strings(bad)
					return
				})
			}
			if variant == 1 {
				count("listener-events", func() (bad []string) {
					bad = append(bad, lg.bad...)
					if len(lg.open) != 0 {
						bad = append(bad, fmt.Sprintf("calls left open: %v", lg.open))
					}
					if lg.events == 0 {
						bad = append(bad, "no events")
					}
					return
				})
			}
		}
		if mod != nil {
			mod.Close(h.ctx)
		}
		if cm != nil {
			cm.Close(h.ctx)
		}
	}
	return out, steps
}

// wellFormedFnMap: for a "names:fn:<seq>" member whose sequence is strictly increasing and in range,
// the sequence (the generator's expectation: names are reported as given); nil otherwise.
func wellFormedFnMap(tag string) []uint32 {
	const p = "family:names:fn:"
	if !strings.HasPrefix(tag, p) {
		return nil
	}
	rest := tag[len(p):]
	if rest == "empty" {
		return []uint32{}
	}
	var s []uint32
	for _, part := range strings.Split(rest, ".") {
		if part == "max" {
			return nil
		}
		var v uint32
		fmt.Sscan(part, &v)
		s = append(s, v)
	}
	if !strictlyIncreasingBelow(s, 4) {
		return nil
	}
	return s
}
