package main

// Per-input oracle, executed inside a supervised child:
//   compile  : Runtime.CompileModule under each feature set (interpreter runtime = decode + validate +
//              interpreter lowering; for accepted inputs also the optimizing compiler) — recovered
//              panics are violations, allocation is measured by the caller;
//   execute  : instantiate with stub imports synthesised from the import section and call every
//              exported function with zero and boundary arguments on both engines; compare.

import (
	"context"
	"encoding/json"
	"errors"
	"fmt"
	"math"
	"os"
	"regexp"
	"runtime"
	"sort"
	"strings"
	"time"

	"github.com/tetratelabs/wazero"
	"github.com/tetratelabs/wazero/api"
	"github.com/tetratelabs/wazero/internal/wasm"
	binaryformat "github.com/tetratelabs/wazero/internal/wasm/binary"
	"github.com/tetratelabs/wazero/internal/wasmruntime"
	"github.com/tetratelabs/wazero/sys"
	"github.com/tetratelabs/wazero/verif/wb"
)

const (
	engInterp   = 0
	engCompiler = 1
	memLimitPages = 128 // 8 MiB: instantiation of accepted mutants stays cheap; large memories are C14's subject
	maxStubTable  = 1 << 20
)

var engName = [2]string{"interpreter", "compiler"}

type harness struct {
	ctx      context.Context
	rts      [2][]wazero.Runtime
	lrts     [2][2][]wazero.Runtime // lazy-consumer runtimes (names.go): [order B / order C][engine][feature set]
	stubs    [2][]map[string]wazero.CompiledModule
	deadline time.Duration
	prog     *progress
}

func newHarness(deadline time.Duration, prog *progress) *harness {
	h := &harness{ctx: context.Background(), deadline: deadline, prog: prog}
	for e := 0; e < 2; e++ {
		h.rts[e] = make([]wazero.Runtime, len(featureSets))
		h.stubs[e] = make([]map[string]wazero.CompiledModule, len(featureSets))
	}
	return h
}

func (h *harness) rt(e, f int) wazero.Runtime {
	if h.rts[e][f] == nil {
		var cfg wazero.RuntimeConfig
		if e == engInterp {
			cfg = wazero.NewRuntimeConfigInterpreter()
		} else {
			cfg = wazero.NewRuntimeConfigCompiler()
		}
		cfg = cfg.WithCoreFeatures(featureSets[f].F).WithMemoryLimitPages(memLimitPages).WithCloseOnContextDone(true)
		h.rts[e][f] = wazero.NewRuntimeWithConfig(h.ctx, cfg)
		h.stubs[e][f] = map[string]wazero.CompiledModule{}
	}
	return h.rts[e][f]
}

var reDigits = regexp.MustCompile(`[0-9]+`)
var reHex = regexp.MustCompile(`0x[0-9a-fA-F]+`)

func normalize(s string, max int) string {
	if i := strings.IndexByte(s, '\n'); i >= 0 {
		s = s[:i]
	}
	s = reHex.ReplaceAllString(s, "0x#")
	s = reDigits.ReplaceAllString(s, "#")
	if len(s) > max {
		s = s[:max]
	}
	return s
}

// errClass buckets a CompileModule error for the outcome histogram (never used as an oracle).
func errClass(err error) string {
	s := err.Error()
	if i := strings.IndexByte(s, ':'); i > 0 {
		s = s[:i]
	}
	s = normalize(s, 40)
	var b strings.Builder
	for _, r := range s {
		if r >= 0x20 && r < 0x7f && r != '"' && r != '\\' {
			b.WriteRune(r)
		} else {
			b.WriteByte('?')
		}
	}
	return b.String()
}

// wazeroFrame returns the innermost non-runtime wazero frame of the current (panicking) stack,
// as "pkg.func" plus, when the source line is an assignment from make(...), ":<lhs>".
func wazeroFrame(skip int) string {
	pcs := make([]uintptr, 64)
	n := runtime.Callers(skip, pcs)
	frames := runtime.CallersFrames(pcs[:n])
	for {
		fr, more := frames.Next()
		if strings.Contains(fr.Function, "tetratelabs/wazero/") && !strings.Contains(fr.Function, "wazero/verif/") {
			return shortFunc(fr.Function) + lhsOfMake(fr.File, fr.Line)
		}
		if !more {
			return "unknown"
		}
	}
}

// wazeroFrameLine is wazeroFrame plus the text of the panicking source line, so that two different
// out-of-range accesses in one (large) function get different signatures, stable against line shifts.
func wazeroFrameLine(skip int) string {
	pcs := make([]uintptr, 64)
	n := runtime.Callers(skip, pcs)
	frames := runtime.CallersFrames(pcs[:n])
	for {
		fr, more := frames.Next()
		if strings.Contains(fr.Function, "tetratelabs/wazero/") && !strings.Contains(fr.Function, "wazero/verif/") {
			s := shortFunc(fr.Function) + lhsOfMake(fr.File, fr.Line)
			lhsOfMake(fr.File, fr.Line) // fills srcCache
			file := fr.File
			if r, ok := overlayMap[file]; ok && r != "" {
				file = r
			}
			if ls := srcCache[file]; fr.Line >= 1 && fr.Line-1 < len(ls) {
				t := strings.Join(strings.Fields(ls[fr.Line-1]), " ")
				if len(t) > 70 {
					t = t[:70]
				}
				s += "@`" + t + "`"
			}
			return s
		}
		if !more {
			return "unknown"
		}
	}
}

func shortFunc(f string) string {
	f = strings.TrimPrefix(f, "github.com/tetratelabs/wazero/")
	if i := strings.LastIndexByte(f, '/'); i >= 0 {
		f = f[i+1:]
	}
	return f
}

var reMake = regexp.MustCompile(`^\s*([A-Za-z_][A-Za-z0-9_.]*)\s*:?=\s*make\(`)
var srcCache = map[string][]string{}

// overlayMap: when the check is built with VERIF_PATCHES the binary's file names are still the /repo
// paths but the line numbers refer to the patched copies; scripts/check.sh leaves the overlay that was
// used in build/overlay-<tag>.json, where <tag> is also the suffix of VERIF_ROOT.
var overlayMap = func() map[string]string {
	root := os.Getenv("VERIF_ROOT")
	i := strings.LastIndex(root, "/root-")
	if i < 0 {
		return nil
	}
	b, err := os.ReadFile(root[:i] + "/overlay-" + root[i+6:] + ".json")
	if err != nil {
		return nil
	}
	var o struct{ Replace map[string]string }
	if json.Unmarshal(b, &o) != nil {
		return nil
	}
	return o.Replace
}()

func lhsOfMake(file string, line int) string {
	if r, ok := overlayMap[file]; ok && r != "" {
		file = r
	}
	ls, ok := srcCache[file]
	if !ok {
		if b, err := os.ReadFile(file); err == nil {
			ls = strings.Split(string(b), "\n")
		}
		srcCache[file] = ls
	}
	if line-1 < len(ls) && line >= 1 {
		if m := reMake.FindStringSubmatch(ls[line-1]); m != nil {
			return ":" + m[1]
		}
	}
	return ""
}

type compileRes struct {
	cm     wazero.CompiledModule
	res    string // "accept" | "reject" | "panic"
	detail string // error class or panic site
	msg    string
}

func (h *harness) compile(e, f int, b []byte) (r compileRes) {
	rt := h.rt(e, f)
	defer func() {
		if p := recover(); p != nil {
			r = compileRes{res: "panic", detail: wazeroFrameLine(3), msg: normalize(fmt.Sprint(p), 120)}
		}
	}()
	cm, err := rt.CompileModule(h.ctx, b)
	if err != nil {
		return compileRes{res: "reject", detail: errClass(err), msg: err.Error()}
	}
	return compileRes{cm: cm, res: "accept"}
}

// ---------------------------------------------------------------------------------------------
// stubs

func zeroBody(results []byte) []byte {
	as := a()
	for _, t := range results {
		switch t {
		case i32:
			as.I32Const(0)
		case i64:
			as.I64Const(0)
		case f32:
			as.F32Const(0)
		case f64:
			as.F64Const(0)
		case v128:
			as.V128Const(0, 0)
		case fref, xref:
			as.RefNull(t)
		}
	}
	return as.B
}

func zeroInit(t byte) []byte {
	switch t {
	case i32:
		return wb.CI32(0)
	case i64:
		return wb.CI64(0)
	case f32:
		return wb.CF32(0)
	case f64:
		return wb.CF64(0)
	case v128:
		return wb.CV128(0, 0)
	}
	return wb.CRefNull(t)
}

type stubPlan struct {
	name    string
	bytes   []byte
	mutable []string // exported mutable numeric globals to bump after instantiation
}

// planStubs builds one exporting wasm module per imported module name. ok=false when the harness
// declines (declared table too large to instantiate cheaply).
func planStubs(m *wasm.Module) (plans []stubPlan, ok bool) {
	idx := map[string]int{}
	var mods []*wb.Module
	seen := map[string]bool{}
	for i := range m.ImportSection {
		im := &m.ImportSection[i]
		k, have := idx[im.Module]
		if !have {
			k = len(mods)
			idx[im.Module] = k
			mods = append(mods, &wb.Module{})
			plans = append(plans, stubPlan{name: im.Module})
		}
		key := im.Module + "\x00" + im.Name
		if seen[key] {
			continue // same name imported twice: the first description wins (a conflict is a link error)
		}
		seen[key] = true
		sm := mods[k]
		switch im.Type {
		case wasm.ExternTypeFunc:
			if int(im.DescFunc) >= len(m.TypeSection) {
				return nil, false
			}
			ft := &m.TypeSection[im.DescFunc]
			sm.ExportFunc(im.Name, sm.AddFunc(ft.Params, ft.Results, nil, zeroBody(ft.Results)))
		case wasm.ExternTypeTable:
			if im.DescTable.Min > maxStubTable {
				return nil, false
			}
			l := wb.Limits{Min: im.DescTable.Min}
			if im.DescTable.Max != nil {
				l.Max, l.HasMax = *im.DescTable.Max, true
			}
			sm.Tables = append(sm.Tables, wb.Table{Elem: im.DescTable.Type, Lim: l})
			sm.Exports = append(sm.Exports, wb.Export{Name: im.Name, Kind: wb.KindTable, Idx: uint32(len(sm.Tables) - 1)})
		case wasm.ExternTypeMemory:
			if sm.Mem != nil {
				continue
			}
			l := wb.Limits{Min: im.DescMem.Min, Shared: im.DescMem.IsShared}
			if im.DescMem.IsMaxEncoded {
				l.Max, l.HasMax = im.DescMem.Max, true
			}
			sm.Mem = &l
			sm.Exports = append(sm.Exports, wb.Export{Name: im.Name, Kind: wb.KindMemory, Idx: 0})
		case wasm.ExternTypeGlobal:
			g := sm.AddGlobal(im.DescGlobal.ValType, im.DescGlobal.Mutable, zeroInit(im.DescGlobal.ValType))
			sm.Exports = append(sm.Exports, wb.Export{Name: im.Name, Kind: wb.KindGlobal, Idx: g})
			if im.DescGlobal.Mutable {
				switch im.DescGlobal.ValType {
				case i32, i64, f32, f64:
					plans[k].mutable = append(plans[k].mutable, im.Name)
				}
			}
		}
	}
	for k := range plans {
		plans[k].bytes = mods[k].Encode()
	}
	return plans, true
}

// ---------------------------------------------------------------------------------------------
// execution transcript

type callRes struct {
	Label string
	Class string   // "ok" | "trap:..." | "exit:N" | "nonterm" | "stack" | "err:..." | "INTERNAL:..."
	Vals  []uint64 // results (ok only)
	Types []api.ValueType
}

type transcript struct {
	Items    []callRes
	Stopped  string   // "" | "nonterm" | "stack"
	Internal []string // runtime-internal failures (violations)
	Skipped  string   // harness declined (reason)
	MemSize  uint32
	Mem      []byte
	HasMem   bool
}

func classify(err error) string {
	if err == nil {
		return "ok"
	}
	var xe *sys.ExitError
	if errors.As(err, &xe) {
		if xe.ExitCode() == sys.ExitCodeDeadlineExceeded || xe.ExitCode() == sys.ExitCodeContextCanceled {
			return "nonterm"
		}
		return fmt.Sprintf("exit:%d", xe.ExitCode())
	}
	if errors.Is(err, context.DeadlineExceeded) || errors.Is(err, context.Canceled) {
		return "nonterm"
	}
	var we *wasmruntime.Error
	if errors.As(err, &we) {
		if we == wasmruntime.ErrRuntimeStackOverflow {
			return "stack"
		}
		return "trap:" + we.Error()
	}
	s := err.Error()
	if strings.Contains(s, "recovered by wazero") || strings.Contains(s, "runtime error") || strings.Contains(s, "BUG") {
		return "INTERNAL:" + normalize(s, 100)
	}
	return "err"
}

var boundary = [3]map[api.ValueType]uint64{
	{},
	{api.ValueTypeI32: 0xffffffff, api.ValueTypeI64: math.MaxUint64, api.ValueTypeF32: 0x7f800000, api.ValueTypeF64: 0x7ff0000000000000},
	{api.ValueTypeI32: 0x80000000, api.ValueTypeI64: 1 << 63, api.ValueTypeF32: 0xff7fffff, api.ValueTypeF64: 0xffefffffffffffff},
}

func argsFor(params []api.ValueType, set int) []uint64 {
	var out []uint64
	for _, p := range params {
		switch p {
		case v128:
			v := boundary[set][api.ValueTypeI64]
			out = append(out, v, v)
		case xref, fref:
			out = append(out, 0)
		default:
			out = append(out, boundary[set][p])
		}
	}
	return out
}

func (h *harness) guard(e int, label string, t *transcript, fn func()) (ok bool) {
	defer func() {
		if p := recover(); p != nil {
			t.Internal = append(t.Internal, fmt.Sprintf("%s:%s:go-panic:%s@%s", engName[e], label, normalize(fmt.Sprint(p), 80), wazeroFrame(3)))
			ok = false
		}
	}()
	fn()
	return true
}

// execute runs one accepted module on engine e (feature set f).
func (h *harness) execute(e, f int, cm wazero.CompiledModule, dec *wasm.Module, argSets int) *transcript {
	t := &transcript{}
	rt := h.rt(e, f)
	plans, ok := planStubs(dec)
	if !ok {
		t.Skipped = "stub-declined"
		return t
	}
	for i := range dec.TableSection {
		if dec.TableSection[i].Min > maxStubTable {
			t.Skipped = "table-too-large"
			return t
		}
	}
	var closers []api.Closer
	defer func() {
		for i := len(closers) - 1; i >= 0; i-- {
			closers[i].Close(h.ctx)
		}
	}()
	for _, p := range plans {
		if p.name == "" {
			t.Items = append(t.Items, callRes{Label: "instantiate", Class: "err"})
			return t // an import from the empty module name cannot be satisfied by a named instance
		}
		cache := h.stubs[e][f]
		scm, have := cache[string(p.bytes)]
		if !have {
			if len(cache) > 256 {
				for k, v := range cache {
					v.Close(h.ctx)
					delete(cache, k)
				}
			}
			var err error
			okc := h.guard(e, "stub-compile", t, func() { scm, err = rt.CompileModule(h.ctx, p.bytes) })
			if !okc || err != nil {
				t.Internal = nil
				t.Skipped = "stub-compile-failed"
				return t
			}
			cache[string(p.bytes)] = scm
		}
		var sm api.Module
		var err error
		h.guard(e, "stub-instantiate", t, func() {
			sm, err = rt.InstantiateModule(h.ctx, scm, wazero.NewModuleConfig().WithName(p.name))
		})
		if err != nil || sm == nil {
			t.Internal = nil
			t.Skipped = "stub-instantiate-failed"
			return t
		}
		closers = append(closers, sm)
		for _, g := range p.mutable {
			if mg, ok := sm.ExportedGlobal(g).(api.MutableGlobal); ok {
				switch mg.Type() {
				case api.ValueTypeI32, api.ValueTypeI64:
					mg.Set(2)
				case api.ValueTypeF32:
					mg.Set(uint64(math.Float32bits(2)))
				case api.ValueTypeF64:
					mg.Set(math.Float64bits(2))
				}
			}
		}
	}
	// instantiate
	var mod api.Module
	var err error
	h.prog.tick(phaseExec, e)
	okg := h.guard(e, "instantiate", t, func() {
		ctx, cancel := context.WithTimeout(h.ctx, h.deadline)
		defer cancel()
		mod, err = rt.InstantiateModule(ctx, cm, wazero.NewModuleConfig().WithName("").WithStartFunctions())
	})
	if !okg {
		return t
	}
	cls := classify(err)
	if strings.HasPrefix(cls, "INTERNAL:") {
		t.Internal = append(t.Internal, engName[e]+":instantiate:"+cls)
	}
	t.Items = append(t.Items, callRes{Label: "instantiate", Class: cls})
	if cls == "nonterm" || cls == "stack" {
		t.Stopped = cls
	}
	if err != nil || mod == nil {
		return t
	}
	closers = append(closers, mod)

	defs := cm.ExportedFunctions()
	names := make([]string, 0, len(defs))
	for n := range defs {
		names = append(names, n)
	}
	sort.Strings(names)
	if len(names) > 32 {
		names = names[:32]
	}
calls:
	for _, n := range names {
		def := defs[n]
		sets := argSets
		if len(def.ParamTypes()) == 0 {
			sets = 1
		}
		for s := 0; s < sets; s++ {
			label := fmt.Sprintf("call:%q#%d", n, s)
			var res []uint64
			var cerr error
			h.prog.tick(phaseExec, e)
			okc := h.guard(e, label, t, func() {
				fn := mod.ExportedFunction(n)
				if fn == nil {
					cerr = errors.New("export vanished")
					return
				}
				ctx, cancel := context.WithTimeout(h.ctx, h.deadline)
				defer cancel()
				res, cerr = fn.Call(ctx, argsFor(def.ParamTypes(), s)...)
			})
			if !okc {
				break calls
			}
			c := classify(cerr)
			if strings.HasPrefix(c, "INTERNAL:") {
				t.Internal = append(t.Internal, engName[e]+":"+label+":"+c)
			}
			item := callRes{Label: label, Class: c}
			if c == "ok" {
				item.Vals = append([]uint64{}, res...)
				item.Types = def.ResultTypes()
			}
			t.Items = append(t.Items, item)
			if c == "nonterm" || c == "stack" {
				t.Stopped = c
				break calls
			}
			if strings.HasPrefix(c, "exit:") {
				break calls // module closed by the guest? (not reachable without WASI) — stop
			}
		}
	}
	if t.Stopped == "" {
		h.guard(e, "observe", t, func() {
			gdefs := dec.ExportSection
			var gn []string
			for i := range gdefs {
				if gdefs[i].Type == wasm.ExternTypeGlobal {
					gn = append(gn, gdefs[i].Name)
				}
			}
			sort.Strings(gn)
			for _, n := range gn {
				if g := mod.ExportedGlobal(n); g != nil {
					t.Items = append(t.Items, callRes{Label: "global:" + n, Class: "ok", Vals: []uint64{g.Get()}, Types: []api.ValueType{g.Type()}})
				}
			}
			if mem := mod.Memory(); mem != nil && (dec.MemorySection != nil || dec.ImportMemoryCount > 0) {
				t.HasMem = true
				t.MemSize = mem.Size()
				n := t.MemSize
				if n > 65536 {
					n = 65536
				}
				if b, ok := mem.Read(0, n); ok {
					t.Mem = append([]byte{}, b...)
				}
			}
		})
	}
	return t
}

func isNaN32(v uint32) bool { return v&0x7f800000 == 0x7f800000 && v&0x007fffff != 0 }
func isNaN64(v uint64) bool {
	return v&0x7ff0000000000000 == 0x7ff0000000000000 && v&0x000fffffffffffff != 0
}

// sameBits compares two 64-bit result slots, tolerating differences that are NaN bit patterns on
// both sides (the specification leaves NaN sign and payload open; a reinterpreted NaN may reach an
// integer result).
func sameBits(x, y uint64) bool {
	if x == y {
		return true
	}
	if isNaN64(x) && isNaN64(y) {
		return true
	}
	xl, yl, xh, yh := uint32(x), uint32(y), uint32(x>>32), uint32(y>>32)
	lo := xl == yl || (isNaN32(xl) && isNaN32(yl))
	hi := xh == yh || (isNaN32(xh) && isNaN32(yh))
	return lo && hi
}

func sameMem(x, y []byte) (bool, int) {
	if len(x) != len(y) {
		return false, -1
	}
	for p := 0; p < len(x); p++ {
		if x[p] == y[p] {
			continue
		}
		// tolerated when some 4- or 8-byte window covering p holds NaN patterns on both sides
		ok := false
		for w := p - 7; w <= p && !ok; w++ {
			if w < 0 || w+8 > len(x) {
				continue
			}
			a8 := le64(x[w:])
			b8 := le64(y[w:])
			if isNaN64(a8) && isNaN64(b8) {
				ok = true
			}
		}
		for w := p - 3; w <= p && !ok; w++ {
			if w < 0 || w+4 > len(x) {
				continue
			}
			a4 := uint32(le64pad(x[w : w+4]))
			b4 := uint32(le64pad(y[w : w+4]))
			if isNaN32(a4) && isNaN32(b4) {
				ok = true
			}
		}
		if !ok {
			return false, p
		}
	}
	return true, 0
}

func le64(b []byte) uint64 {
	return uint64(b[0]) | uint64(b[1])<<8 | uint64(b[2])<<16 | uint64(b[3])<<24 | uint64(b[4])<<32 | uint64(b[5])<<40 | uint64(b[6])<<48 | uint64(b[7])<<56
}
func le64pad(b []byte) uint64 {
	var v uint64
	for i, c := range b {
		v |= uint64(c) << (8 * uint(i))
	}
	return v
}

// compareTranscripts returns "" when the engines agree on everything observed before either of
// them ran into a resource limit (deadline, call-stack exhaustion); otherwise a description whose
// first word classifies the disagreement.
func compareTranscripts(x, y *transcript) string {
	if x.Skipped != "" || y.Skipped != "" {
		return ""
	}
	n := len(x.Items)
	if len(y.Items) < n {
		n = len(y.Items)
	}
	for i := 0; i < n; i++ {
		p, q := x.Items[i], y.Items[i]
		if p.Label != q.Label {
			return fmt.Sprintf("sequence: item %d is %s vs %s", i, p.Label, q.Label)
		}
		resource := func(c string) bool { return c == "nonterm" || c == "stack" }
		if resource(p.Class) || resource(q.Class) {
			return "" // implementation-defined resource exhaustion: nothing after it is comparable
		}
		if bothTrapOnSameAccess(p.Class, q.Class) {
			continue
		}
		if p.Class != q.Class {
			return fmt.Sprintf("outcome: %s: %s=%s %s=%s", p.Label, engName[0], p.Class, engName[1], q.Class)
		}
		if len(p.Vals) != len(q.Vals) {
			return fmt.Sprintf("arity: %s: %d vs %d result slots", p.Label, len(p.Vals), len(q.Vals))
		}
		var slotTypes []api.ValueType
		for _, ty := range p.Types {
			slotTypes = append(slotTypes, ty)
			if ty == v128 {
				slotTypes = append(slotTypes, ty)
			}
		}
		for k := range p.Vals {
			// function references are host pointers: only null-ness is comparable
			var ty api.ValueType
			if k < len(slotTypes) {
				ty = slotTypes[k]
			}
			if ty == fref {
				if (p.Vals[k] == 0) != (q.Vals[k] == 0) {
					return fmt.Sprintf("result: %s slot %d: funcref null-ness differs", p.Label, k)
				}
				continue
			}
			pv, qv := p.Vals[k], q.Vals[k]
			if ty == i32 || ty == f32 {
				// 32-bit values travel in 64-bit slots; only the low half is defined by the API
				pv, qv = pv&0xffffffff, qv&0xffffffff
			}
			if !sameBits(pv, qv) {
				kind := "result"
				if strings.HasPrefix(p.Label, "global:") {
					kind = "global"
				}
				return fmt.Sprintf("%s: %s slot %d: %s=%#x %s=%#x", kind, p.Label, k, engName[0], p.Vals[k], engName[1], q.Vals[k])
			}
		}
	}
	if x.Stopped != "" || y.Stopped != "" {
		return ""
	}
	if len(x.Items) != len(y.Items) {
		return fmt.Sprintf("sequence: %d vs %d items", len(x.Items), len(y.Items))
	}
	if x.HasMem != y.HasMem || x.MemSize != y.MemSize {
		return fmt.Sprintf("memory: size %d vs %d", x.MemSize, y.MemSize)
	}
	if ok, at := sameMem(x.Mem, y.Mem); !ok {
		return fmt.Sprintf("memory: contents differ at %d", at)
	}
	return ""
}

// bothTrapOnSameAccess: an atomic access that is both misaligned and out of bounds traps on both
// engines, but the interpreter reports the misalignment and the compiler the bounds violation. The
// specification gives traps no identity, and both conditions hold for the very same access, so this
// is not a disagreement (any other pair of different trap kinds is).
func bothTrapOnSameAccess(x, y string) bool {
	const u, o = "trap:unaligned atomic", "trap:out of bounds memory access"
	return (x == u && y == o) || (x == o && y == u)
}

// constExprMutableGlobal reports where a constant expression reads a mutable imported global
// (used only to give engine disagreements caused by that validator gap a precise signature).
func constExprMutableGlobal(m *wasm.Module) string {
	mut := map[uint32]bool{}
	gi := uint32(0)
	for i := range m.ImportSection {
		if m.ImportSection[i].Type == wasm.ExternTypeGlobal {
			if m.ImportSection[i].DescGlobal.Mutable {
				mut[gi] = true
			}
			gi++
		}
	}
	if len(mut) == 0 {
		return ""
	}
	reads := func(ce *wasm.ConstantExpression) bool {
		if ce.Opcode != wasm.OpcodeGlobalGet {
			return false
		}
		return mut[uint32(readULEB(ce.Data))]
	}
	for i := range m.GlobalSection {
		if reads(&m.GlobalSection[i].Init) {
			return "global-init"
		}
	}
	for i := range m.DataSection {
		if !m.DataSection[i].Passive && reads(&m.DataSection[i].OffsetExpression) {
			return "data-offset"
		}
	}
	for i := range m.ElementSection {
		if m.ElementSection[i].Mode == wasm.ElementModeActive && reads(&m.ElementSection[i].OffsetExpr) {
			return "element-offset"
		}
	}
	return ""
}

// causeTags names known root causes present in an accepted module, so that a symptom (engine
// disagreement, runtime error) caused by one of them gets a signature naming the cause:
//   tail-call-result-mismatch : a return_call / return_call_indirect whose callee result types differ
//                               from the caller's (invalid per the tail-call proposal, accepted here)
//   ref-func-names-tagged-element-item : a body holds `ref.func (g | 1<<30)`, no such function exists, and an element
//                               item `global.get g` (stored as g | 1<<30) made it count as declared
//   atomic-rmw8-logic-after-call : i64.atomic.rmw8.{and,or,xor}_u (compare-exchange loops on amd64)
func causeTags(m *wasm.Module, bin []byte) string {
	var tags []string
	mismatch, rmw, refTagged := false, false, false
	// element items written as `global.get g` are stored as g | 1<<30 in the function-index space
	taggedItems := map[uint64]bool{}
	for i := range m.ElementSection {
		for _, it := range m.ElementSection[i].Init {
			if it != wasm.ElementInitNullReference && it&(1<<30) != 0 {
				taggedItems[uint64(it)] = true
			}
		}
	}
	nFuncs := uint64(m.ImportFunctionCount) + uint64(len(m.FunctionSection))
	for i := range m.CodeSection {
		if int(i) >= len(m.FunctionSection) || int(m.FunctionSection[i]) >= len(m.TypeSection) {
			continue
		}
		caller := &m.TypeSection[m.FunctionSection[i]]
		for _, o := range scanBody(m.CodeSection[i].Body) {
			switch {
			case o.Prefix == 0 && (o.Op == 0x12 || o.Op == 0x13):
				var callee *wasm.FunctionType
				if o.Op == 0x12 {
					idx := uint32(o.Imm)
					if idx < m.ImportFunctionCount {
						k := uint32(0)
						for j := range m.ImportSection {
							if m.ImportSection[j].Type == wasm.ExternTypeFunc {
								if k == idx && int(m.ImportSection[j].DescFunc) < len(m.TypeSection) {
									callee = &m.TypeSection[m.ImportSection[j].DescFunc]
								}
								k++
							}
						}
					} else if l := idx - m.ImportFunctionCount; int(l) < len(m.FunctionSection) && int(m.FunctionSection[l]) < len(m.TypeSection) {
						callee = &m.TypeSection[m.FunctionSection[l]]
					}
				} else if int(o.Imm) < len(m.TypeSection) {
					callee = &m.TypeSection[o.Imm]
				}
				if callee != nil && string(callee.Results) != string(caller.Results) {
					mismatch = true
				}
			case o.Prefix == 0xfe && (o.Op == 0x30 || o.Op == 0x37 || o.Op == 0x3e):
				rmw = true
			case o.Prefix == 0 && o.Op == 0xd2 && o.Imm >= nFuncs && taggedItems[o.Imm]:
				// ref.func of a function that does not exist, accepted because its immediate equals the stored
				// form of an element item `global.get g`
				refTagged = true
			}
		}
	}
	// an element item `global.get k` whose global is not a reference of the segment's type
	gtype := func(k uint32) (byte, bool) {
		for j := range m.ImportSection {
			if m.ImportSection[j].Type == wasm.ExternTypeGlobal {
				if k == 0 {
					return m.ImportSection[j].DescGlobal.ValType, true
				}
				k--
			}
		}
		if int(k) < len(m.GlobalSection) {
			return m.GlobalSection[k].Type.ValType, true
		}
		return 0, false
	}
	for i := range m.ElementSection {
		for _, it := range m.ElementSection[i].Init {
			if it != wasm.ElementInitNullReference && it&(1<<30) != 0 {
				if ty, ok := gtype(it &^ (1 << 30)); ok && ty != m.ElementSection[i].Type {
					// the decoded item carries wazero's "comes from global k" tag (bit 30): either the binary
					// really says `global.get k` (the validator does not check k's type), or a function index
					// with bit 30 set got past the decoder's range check and is mistaken for the tag
					if found, parsed := elemItemsUseGlobalGet(bin); parsed && !found {
						tags = append(tags, "element-item-index-collides-with-global-tag")
					} else {
						tags = append(tags, "element-item-global-not-a-reference")
					}
					break
				}
			}
		}
	}
	if refTagged {
		tags = append(tags, "ref-func-names-tagged-element-item")
	}
	if mismatch {
		tags = append(tags, "tail-call-result-mismatch")
	}
	if rmw {
		tags = append(tags, "atomic-rmw8-logic")
	}
	return strings.Join(tags, "+")
}

func decodeForHarness(b []byte, f int) (m *wasm.Module, err error) {
	defer func() {
		if p := recover(); p != nil {
			err = fmt.Errorf("panic: %v", p)
		}
	}()
	return binaryformat.DecodeModule(b, featureSets[f].F, memLimitPages, false, false, false)
}
