package main

// Deterministic enumeration of the input space as a list of chunks; parent and children compute the
// same list, a chunk is the unit of work handed to a child, expand(chunk) yields its inputs in a
// fixed order (so that (chunk, k, featureSet) identifies one evaluation across processes).

import (
	"encoding/hex"
	"encoding/json"
	"fmt"
	"os"
	"strings"

	"github.com/tetratelabs/wazero/api"
)

var header = []byte{0, 'a', 's', 'm', 1, 0, 0, 0}

type chunk struct {
	Cat  string
	Seed int
	A, B int
}

type input struct {
	B       []byte
	Tag     string
	Valid   bool             // must be accepted under every feature set containing Req
	IfSeed  bool             // ... and only under the feature sets that accept the seed itself (over-long re-encodings)
	Ref     []byte           // the module this input must behave like (the seed of an over-long re-encoding)
	Reject  bool             // invalid by construction: must be rejected under every feature set
	ExpectF bool             // the exported function "f" must return ExpectV (generator's own expectation) on both engines
	ExpectV uint32
	Req     api.CoreFeatures // (only with Valid)
	AllFS   bool             // compile on the optimizing compiler under every accepting feature set
	ExecAllFS bool           // ... and execute on both engines under every accepting feature set (not only the first)
	ArgSets int              // 1 = zero arguments only, 3 = zero + two boundary vectors
	// structured meta for the crash set
	Field, Val int
	Fixup      bool
}

type plan struct {
	tier    string
	seeds   []seed
	fieldsC [][]field // lazily filled, see fields()
	walkC   []*walker // lazily filled, see walk()
	famC    []famMod  // lazily built, see family()
	deadC   []famMod  // lazily built, see deadCode()
	dimmC   []famMod  // lazily built, see deadImm()
	segC    []segMod  // lazily built, see segKinds()
	nameC   []nameMod // lazily built, see names()
	crash   map[string]bool // "seed/field/val" of single deviations that killed the process
	rawMax  int
	famStep int
	hexFile string
}

func newPlan(tier string) *plan {
	p := &plan{tier: tier, seeds: buildCorpus(), crash: map[string]bool{}, rawMax: 2, famStep: 64}
	if tier == "thorough" {
		p.rawMax = 3
	}
	p.fieldsC = make([][]field, len(p.seeds))
	p.walkC = make([]*walker, len(p.seeds))
	return p
}

// fields returns the field map of a seed (computed on first use: a child that is restarted after a
// process death must start in milliseconds).
func (p *plan) walk(si int) *walker {
	if p.walkC[si] == nil {
		p.walkC[si] = walkModule(p.seeds[si].B)
	}
	return p.walkC[si]
}

func (p *plan) fields(si int) []field {
	if p.fieldsC[si] == nil {
		p.fieldsC[si] = p.walk(si).fields
		if p.fieldsC[si] == nil {
			p.fieldsC[si] = []field{}
		}
	}
	return p.fieldsC[si]
}

// family returns the by-construction-valid family (control-flow grammar to depth 2 in the quick
// tier, 3 in the thorough tier), built on first use.
func (p *plan) family() []famMod {
	if p.famC == nil {
		d := 2
		if p.tier == "thorough" {
			d = 3
		}
		p.famC = buildFamily(d)
	}
	return p.famC
}

// substValue: the thorough tier substitutes all 255 other byte values at every offset of every seed;
// the quick tier does so for seeds up to 56 bytes and uses a 33-value boundary alphabet (structure
// bytes, type bytes, opcode-class representatives, LEB continuation patterns) for larger seeds.
var quickBytes = func() (m [256]bool) {
	for _, v := range []byte{0x00, 0x01, 0x02, 0x03, 0x04, 0x05, 0x07, 0x0b, 0x0f, 0x10, 0x11, 0x12, 0x1a, 0x20, 0x23, 0x24, 0x28,
		0x3f, 0x40, 0x41, 0x60, 0x6f, 0x70, 0x7b, 0x7e, 0x7f, 0x80, 0x81, 0xc0, 0xd2, 0xfc, 0xfe, 0xff} {
		m[v] = true
	}
	return
}()

func (p *plan) substValue(seedLen int, v byte) bool {
	return p.tier == "thorough" || seedLen <= 56 || quickBytes[v]
}

func (p *plan) deadImm() []famMod {
	if p.dimmC == nil {
		p.dimmC = buildDeadImm()
	}
	return p.dimmC
}

func (p *plan) segKinds() []segMod {
	if p.segC == nil {
		p.segC = buildSegKinds()
	}
	return p.segC
}

func (p *plan) names() []nameMod {
	if p.nameC == nil {
		n := 3
		if p.tier == "thorough" {
			n = 4
		}
		p.nameC = buildNames(n)
	}
	return p.nameC
}

func (p *plan) deadCode() []famMod {
	if p.deadC == nil {
		p.deadC = buildDeadCode()
	}
	return p.deadC
}

// pairSeedMax: seeds up to this size get the pairs of field deviations.
func (p *plan) pairSeedMax() int {
	if p.tier == "thorough" {
		return 64
	}
	return 48
}

// the section ids and size encodings of the raw (id, size, payload) triples
var tripleIDs = []byte{0, 1, 2, 3, 4, 5, 6, 7, 8, 9, 10, 11, 12, 13, 14, 0x7f, 0x80, 0xff}

func tripleSizes(tier string) [][]byte {
	var s [][]byte
	n := 32
	if tier == "thorough" {
		n = 128
	}
	for v := 0; v < n; v++ {
		s = append(s, []byte{byte(v)})
	}
	s = append(s,
		[]byte{0x80, 0x00}, []byte{0x81, 0x00}, []byte{0x82, 0x00}, // over-long 0, 1, 2
		[]byte{0x80, 0x01},                                         // 128
		[]byte{0x81, 0x80, 0x80, 0x80, 0x00},                       // 5-byte 1
		[]byte{0xff, 0xff, 0xff, 0xff, 0x0f},                       // 2^32-1
		[]byte{0xff, 0xff, 0xff, 0xff, 0x7f},                       // overflows 32 bits
		[]byte{0x81, 0x80, 0x80, 0x80, 0x80, 0x00},                 // 6 bytes
	)
	return s
}

const substGroup = 8

// chunks lists the work of a phase. VERIF_C03_ONLY (comma-separated categories) restricts it for
// debugging; the evidence then says so through the per-category counts.
func (p *plan) chunks(phase int) []chunk {
	all := p.allChunks(phase)
	only := os.Getenv("VERIF_C03_ONLY")
	if only == "" {
		return all
	}
	var cs []chunk
	for _, c := range all {
		for _, o := range strings.Split(only, ",") {
			if c.Cat == o {
				cs = append(cs, c)
			}
		}
	}
	return cs
}

func (p *plan) allChunks(phase int) []chunk {
	var cs []chunk
	if phase == 2 {
		for si, s := range p.seeds {
			if len(s.B) <= p.pairSeedMax() && !s.Light {
				for fi := 0; fi+1 < len(p.fields(si)); fi++ {
					cs = append(cs, chunk{Cat: "pair", Seed: si, A: fi})
				}
			}
		}
		return cs
	}
	cs = append(cs, chunk{Cat: "valid-seed"})
	for lo := 0; lo < len(p.family()); lo += p.famStep {
		hi := lo + p.famStep
		if hi > len(p.family()) {
			hi = len(p.family())
		}
		cs = append(cs, chunk{Cat: "valid-fam", A: lo, B: hi})
	}
	for si := range p.seeds {
		if !p.seeds[si].Light {
			for fi := range p.fields(si) {
				cs = append(cs, chunk{Cat: "field", Seed: si, A: fi})
			}
		}
		if len(p.walk(si).types) > 0 {
			cs = append(cs, chunk{Cat: "retype", Seed: si})
		}
		cs = append(cs, chunk{Cat: "dropdep", Seed: si})
	}
	for lo := 0; lo < len(p.deadImm()); lo += p.famStep {
		hi := lo + p.famStep
		if hi > len(p.deadImm()) {
			hi = len(p.deadImm())
		}
		cs = append(cs, chunk{Cat: "deadimm", A: lo, B: hi})
	}
	cs = append(cs, chunk{Cat: "nodep"})
	cs = append(cs, chunk{Cat: "segkinds"})
	for lo := 0; lo < len(p.names()); lo += p.famStep {
		hi := lo + p.famStep
		if hi > len(p.names()) {
			hi = len(p.names())
		}
		cs = append(cs, chunk{Cat: "names", A: lo, B: hi})
	}
	for lo := 0; lo < len(p.deadCode()); lo += p.famStep {
		hi := lo + p.famStep
		if hi > len(p.deadCode()) {
			hi = len(p.deadCode())
		}
		cs = append(cs, chunk{Cat: "deadcode", A: lo, B: hi})
	}
	cs = append(cs, chunk{Cat: "hdr"})
	cs = append(cs, chunk{Cat: "raw", A: -1})
	for x := 0; x < 256; x++ {
		cs = append(cs, chunk{Cat: "raw", A: x})
	}
	for i := range tripleIDs {
		cs = append(cs, chunk{Cat: "triple", A: i})
	}
	for si, s := range p.seeds {
		if s.Light {
			continue
		}
		cs = append(cs, chunk{Cat: "trunc", Seed: si})
		for lo := 0; lo < len(s.B); lo += substGroup {
			hi := lo + substGroup
			if hi > len(s.B) {
				hi = len(s.B)
			}
			cs = append(cs, chunk{Cat: "subst", Seed: si, A: lo, B: hi})
		}
	}
	return cs
}

func cat(parts ...[]byte) []byte {
	n := 0
	for _, p := range parts {
		n += len(p)
	}
	out := make([]byte, 0, n)
	for _, p := range parts {
		out = append(out, p...)
	}
	return out
}

func crashKey(seed, field, val int) string { return fmt.Sprintf("%d/%d/%d", seed, field, val) }

// expand calls yield for every input of the chunk, in a fixed order.
func (p *plan) expand(c chunk, yield func(in input)) {
	switch c.Cat {
	case "hdr":
		for n := 0; n < 8; n++ {
			yield(input{B: append([]byte{}, header[:n]...), Tag: fmt.Sprintf("hdr-prefix:%d", n), ArgSets: 3})
		}
	case "raw":
		if c.A < 0 {
			yield(input{B: cat(header), Tag: "raw:", ArgSets: 3})
			for x := 0; x < 256; x++ {
				yield(input{B: cat(header, []byte{byte(x)}), Tag: "raw:1", ArgSets: 3})
			}
			return
		}
		for y := 0; y < 256; y++ {
			yield(input{B: cat(header, []byte{byte(c.A), byte(y)}), Tag: "raw:2", ArgSets: 3})
		}
		if p.rawMax >= 3 {
			for y := 0; y < 256; y++ {
				for z := 0; z < 256; z++ {
					yield(input{B: cat(header, []byte{byte(c.A), byte(y), byte(z)}), Tag: "raw:3", ArgSets: 3})
				}
			}
		}
	case "triple":
		id := tripleIDs[c.A]
		for _, sz := range tripleSizes(p.tier) {
			for pl := 0; pl < 256; pl++ {
				yield(input{B: cat(header, []byte{id}, sz, []byte{byte(pl)}), Tag: "triple", ArgSets: 3})
			}
		}
	case "trunc":
		s := p.seeds[c.Seed]
		for n := 8; n < len(s.B); n++ {
			yield(input{B: append([]byte{}, s.B[:n]...), Tag: fmt.Sprintf("trunc:%s:%d", s.Name, n), ArgSets: 3})
		}
	case "subst":
		s := p.seeds[c.Seed]
		for off := c.A; off < c.B; off++ {
			for v := 0; v < 256; v++ {
				if byte(v) == s.B[off] || !p.substValue(len(s.B), byte(v)) {
					continue
				}
				b := append([]byte{}, s.B...)
				b[off] = byte(v)
				yield(input{B: b, Tag: fmt.Sprintf("subst:%s:%d:%02x", s.Name, off, v), ArgSets: 3})
			}
		}
	case "field":
		s := p.seeds[c.Seed]
		fs := p.fields(c.Seed)
		f := fs[c.A]
		for v := 0; v < nDevValues; v++ {
			r := devBytes(s.B, f, v)
			if r == nil {
				continue
			}
			fixed := applyEdits(s.B, fs, map[int][]byte{c.A: r}, true)
			in := input{B: fixed, Tag: fmt.Sprintf("field:%s:%d(%s@%d)=%s:fixup", s.Name, c.A, f.Kind, f.Off, devNames[v]), ArgSets: 3, Field: c.A, Val: v, Fixup: true}
			if legalPadding(f, v) {
				// an over-long (but within the width limit) LEB with consistent sizes is still a valid module
				in.Valid, in.Req, in.IfSeed, in.Ref = true, s.Req, true, s.B
			}
			yield(in)
			if len(r) != f.Len {
				raw := applyEdits(s.B, fs, map[int][]byte{c.A: r}, false)
				yield(input{B: raw, Tag: fmt.Sprintf("field:%s:%d(%s@%d)=%s:raw", s.Name, c.A, f.Kind, f.Off, devNames[v]), ArgSets: 3, Field: c.A, Val: v})
			}
		}
	case "retype":
		// every position that names a type gets every other type: the seven value/reference types, and for
		// block types also the empty type and every type index of the module (so that a type check that has
		// been weakened to an arity check is confronted with same-arity, different-type alternatives)
		s := p.seeds[c.Seed]
		w := p.walk(c.Seed)
		for _, ts := range w.types {
			if ts.Len != 1 {
				continue
			}
			cands := []byte{i32, i64, f32, f64, v128, fref, xref}
			if ts.Block {
				cands = append(cands, 0x40)
				for k := 0; k < w.nTypes && k < 64; k++ {
					cands = append(cands, byte(k))
				}
			}
			for _, v := range cands {
				if v == s.B[ts.Off] {
					continue
				}
				b := append([]byte{}, s.B...)
				b[ts.Off] = v
				yield(input{B: b, Tag: fmt.Sprintf("retype:%s:%s@%d=%02x", s.Name, ts.Kind, ts.Off, v), ArgSets: 3})
			}
		}
	case "deadcode":
		for k := c.A; k < c.B; k++ {
			m := p.deadCode()[k]
			yield(input{B: m.B, Tag: "family:" + m.Name, Valid: !m.Reject, Req: m.Req, Reject: m.Reject, ArgSets: 1})
		}
	case "deadimm":
		for k := c.A; k < c.B; k++ {
			m := p.deadImm()[k]
			yield(input{B: m.B, Tag: "family:" + m.Name, Valid: true, Req: m.Req, ArgSets: 1, ExpectF: true, ExpectV: 1})
		}
	case "nodep":
		for _, m := range buildNoDep() {
			yield(input{B: m.B, Tag: "nodep:" + m.Name, ArgSets: 3})
		}
	case "segkinds":
		for _, m := range p.segKinds() {
			yield(input{B: m.B, Tag: "family:" + m.Name, Valid: m.Valid, Req: m.Req, ExpectF: m.ExpectF, ExpectV: 1, AllFS: true, ExecAllFS: true, ArgSets: 1})
		}
	case "names":
		// Lazy (orders B and C of names.go) follows from the tag prefix "family:names:", so that a replay needs no extra field
		for k := c.A; k < c.B; k++ {
			m := p.names()[k]
			yield(input{B: m.B, Tag: "family:" + m.Name, Valid: m.Valid, Req: m.Req, ExpectF: m.Valid, ExpectV: 1, ArgSets: 1})
		}
	case "dropdep":
		// remove a definition that instructions or other sections depend on, leaving the code section
		// untouched: every whole section except type / function / code, and every single entry of the
		// import, table, memory, global, export, element and data sections (first, last and every one in
		// between; the indices of the following entries shift as the binary format dictates)
		s := p.seeds[c.Seed]
		for _, si := range p.walk(c.Seed).secs {
			if si.ID != 1 && si.ID != 3 && si.ID != 10 {
				yield(input{B: dropSection(s.B, si), Tag: fmt.Sprintf("dropdep:%s:section-%d@%d", s.Name, si.ID, si.Start), ArgSets: 3})
			}
			for k := range si.starts {
				yield(input{B: dropEntry(s.B, si, k), Tag: fmt.Sprintf("dropdep:%s:section-%d@%d:entry-%d", s.Name, si.ID, si.Start, k), ArgSets: 3})
			}
		}
	case "pair":
		s := p.seeds[c.Seed]
		fs := p.fields(c.Seed)
		i := c.A
		for vi := 0; vi < nPairValues; vi++ {
			ri := devBytes(s.B, fs[i], vi)
			if ri == nil || p.crash[crashKey(c.Seed, i, vi)] {
				continue
			}
			for j := i + 1; j < len(fs); j++ {
				for vj := 0; vj < nPairValues; vj++ {
					rj := devBytes(s.B, fs[j], vj)
					if rj == nil || p.crash[crashKey(c.Seed, j, vj)] {
						continue
					}
					b := applyEdits(s.B, fs, map[int][]byte{i: ri, j: rj}, true)
					yield(input{B: b, Tag: fmt.Sprintf("pair:%s:%d=%s,%d=%s", s.Name, i, devNames[vi], j, devNames[vj]), ArgSets: 3})
				}
			}
		}
	case "valid-seed":
		for _, s := range p.seeds {
			yield(input{B: s.B, Tag: "seed:" + s.Name, Valid: true, Req: s.Req, AllFS: true, ExecAllFS: true, ArgSets: 3})
		}
	case "valid-fam":
		for k := c.A; k < c.B; k++ {
			m := p.family()[k]
			as := 1
			if len(m.Name) > 2 && m.Name[:2] == "E:" && !containsLoop(m.Name) {
				as = 2
			}
			yield(input{B: m.B, Tag: "family:" + m.Name, Valid: true, Req: m.Req, ArgSets: as})
		}
	case "hex":
		b, err := os.ReadFile(p.hexFile)
		if err != nil {
			panic(err)
		}
		var list []struct {
			Hex, Tag string
			Ref      string
			Reject   bool
			ExpectF  bool
			ExpectV  uint32
			Valid    bool
			Req      uint64
			ArgSets  int
			ExecAll  bool
		}
		json.Unmarshal(b, &list)
		for _, e := range list {
			raw, _ := hex.DecodeString(e.Hex)
			as := e.ArgSets
			if as == 0 {
				as = 3
			}
			in := input{B: raw, Tag: e.Tag, ArgSets: as, Valid: e.Valid, Req: api.CoreFeatures(e.Req), Reject: e.Reject, ExpectF: e.ExpectF, ExpectV: e.ExpectV, AllFS: e.ExecAll, ExecAllFS: e.ExecAll}
			if e.Ref != "" {
				in.Ref, _ = hex.DecodeString(e.Ref)
			}
			yield(in)
		}
	default:
		panic("unknown chunk category " + c.Cat)
	}
}

func containsLoop(s string) bool {
	for i := 0; i+4 <= len(s); i++ {
		if s[i:i+4] == "loop" {
			return true
		}
	}
	return false
}
