package main

// Dead-code immediates: every instruction that has immediates, placed in unreachable code with each
// immediate taking values whose BYTES would be structural if an engine's lowering failed to consume
// them exactly (0x02 block, 0x03 loop, 0x04 if, 0x05 else, 0x0b end, 0x0f return, 0x10 call,
// 0x11 call_indirect, and the two-byte LEB 0x80 0x01). Validation and both engines decode function
// bodies separately, and the engines skip work in dead code — but they must still skip the same bytes.
//
// Every module shares one environment that makes all those index values valid: 131 types, 131
// functions, 130 tables, 130 globals, 130 locals, 130 passive data and element segments, one memory,
// twenty nested blocks. The probed function is
//
//	(func (export "f") (result i32)
//	  block x20  br 0  <INSTRUCTION>  i32.const 42  return  end x20  i32.const 1)
//
// so the independent expectation is: accepted, and f() = 1 on both engines. A lowering that loses
// synchronisation makes the decoy `i32.const 42; return` live (early `end`), changes the nesting, or
// fails to compile a valid module.

import (
	"fmt"

	"github.com/tetratelabs/wazero/api"
	"github.com/tetratelabs/wazero/verif/wb"
)

const deadN = 130 // objects of every kind, so that index 128 (LEB 0x80 0x01) is valid

var deadVals = []uint64{0x02, 0x03, 0x04, 0x05, 0x0b, 0x0f, 0x10, 0x11, 0x80}

type deadInstr struct {
	name string
	req  api.CoreFeatures
	enc  func(v uint64) []byte // nil result = value not applicable
}

func deadEnv(ins []byte) []byte {
	m := &wb.Module{}
	for i := 0; i < deadN; i++ {
		m.Types = append(m.Types, wb.FuncType{Params: vt(i32), Results: vt(i32)})
	}
	m.Types = append(m.Types, wb.FuncType{Results: vt(i32)})
	var all []uint32
	for i := 0; i < deadN; i++ {
		all = append(all, m.AddFunc(nil, vt(i32), nil, a().I32Const(7).B))
		m.Tables = append(m.Tables, wb.Table{Elem: fref, Lim: wb.Limits{Min: 1}})
		m.AddGlobal(i32, true, wb.CI32(0))
		m.Elems = append(m.Elems, wb.Elem{Mode: 1})
		m.Datas = append(m.Datas, wb.Data{Passive: true, Bytes: []byte{1}})
	}
	m.Elems = append(m.Elems, wb.Elem{Mode: 2, Funcs: all})
	m.Mem = &wb.Limits{Min: 1}
	m.DataCount = true
	locals := make([]byte, deadN)
	for i := range locals {
		locals[i] = i32
	}
	as := a()
	for i := 0; i < 20; i++ {
		as.Block(wb.Void)
	}
	as.Br(0).Raw(ins...).I32Const(42).Return()
	for i := 0; i < 20; i++ {
		as.End()
	}
	as.I32Const(1)
	m.ExportFunc("f", m.AddFunc(nil, vt(i32), locals, as.B))
	return m.Encode()
}

func rep(b byte, n int) []byte {
	out := make([]byte, n)
	for i := range out {
		out[i] = b
	}
	return out
}

func deadInstrs() []deadInstr {
	var out []deadInstr
	add := func(name string, req api.CoreFeatures, enc func(v uint64) []byte) {
		out = append(out, deadInstr{name, req, enc})
	}
	idx := func(name string, req api.CoreFeatures, pre []byte, post ...byte) {
		add(name, req, func(v uint64) []byte { return cat(pre, uleb(v), post) })
	}
	fixed := func(name string, req api.CoreFeatures, b ...byte) {
		add(name, req, func(v uint64) []byte {
			if v != deadVals[0] {
				return nil
			}
			return b
		})
	}
	upTo := func(max uint64, f func(v uint64) []byte) func(v uint64) []byte {
		return func(v uint64) []byte {
			if v > max {
				return nil
			}
			return f(v)
		}
	}
	idx("local.get", 0, []byte{0x20})
	idx("local.set", 0, []byte{0x21})
	idx("local.tee", 0, []byte{0x22})
	idx("global.get", 0, []byte{0x23})
	idx("global.set", 0, []byte{0x24})
	idx("call", 0, []byte{0x10})
	idx("return_call", fTC, []byte{0x12})
	idx("ref.func", fBR, []byte{0xd2})
	idx("table.get", fBR, []byte{0x25})
	idx("table.set", fBR, []byte{0x26})
	idx("table.size", fBR, []byte{0xfc, 0x10})
	idx("table.grow", fBR, []byte{0xfc, 0x0f})
	idx("table.fill", fBR, []byte{0xfc, 0x11})
	idx("table.copy.dst", fBR, []byte{0xfc, 0x0e}, 0x00)
	idx("table.copy.src", fBR, []byte{0xfc, 0x0e, 0x00})
	idx("table.init.elem", fBR, []byte{0xfc, 0x0c}, 0x00)
	idx("table.init.table", fBR, []byte{0xfc, 0x0c, 0x00})
	idx("elem.drop", fBR, []byte{0xfc, 0x0d})
	idx("memory.init.data", fBR, []byte{0xfc, 0x08}, 0x00)
	idx("data.drop", fBR, []byte{0xfc, 0x09})
	idx("call_indirect.type", fBR, []byte{0x11}, 0x00)
	idx("call_indirect.table", fBR, []byte{0x11, 0x00})
	idx("return_call_indirect.type", fBR|fTC, []byte{0x13}, 0x00)
	idx("return_call_indirect.table", fBR|fTC, []byte{0x13, 0x00})
	add("br", 0, upTo(19, func(v uint64) []byte { return cat([]byte{0x0c}, uleb(v)) }))
	add("br_if", 0, upTo(19, func(v uint64) []byte { return cat([]byte{0x0d}, uleb(v)) }))
	add("br_table.label", 0, upTo(19, func(v uint64) []byte { return cat([]byte{0x0e, 0x01}, uleb(v), uleb(v)) }))
	add("br_table.count", 0, upTo(17, func(v uint64) []byte { return cat([]byte{0x0e}, uleb(v), rep(0, int(v)), []byte{0}) }))
	idx("block.typeidx", fMV, []byte{0x02}, 0x0b)
	idx("loop.typeidx", fMV, []byte{0x03}, 0x0b)
	idx("if.typeidx", fMV, []byte{0x04}, 0x0b)
	for _, bt := range []byte{0x40, i32, i64, f32, f64} {
		bt := bt
		fixed(fmt.Sprintf("block.%02x", bt), 0, 0x02, bt, 0x00, 0x0b) // body `unreachable` so any result type checks
		fixed(fmt.Sprintf("loop.%02x", bt), 0, 0x03, bt, 0x00, 0x0b)
		fixed(fmt.Sprintf("if.%02x", bt), 0, 0x04, bt, 0x00, 0x05, 0x00, 0x0b)
	}
	idx("i32.const", 0, []byte{0x41})
	idx("i64.const", 0, []byte{0x42})
	add("f32.const", 0, func(v uint64) []byte { return cat([]byte{0x43}, rep(byte(v), 4)) })
	add("f64.const", 0, func(v uint64) []byte { return cat([]byte{0x44}, rep(byte(v), 8)) })
	fixed("memory.size", 0, 0x3f, 0x00)
	fixed("memory.grow", 0, 0x40, 0x00)
	fixed("memory.fill", fBR, 0xfc, 0x0b, 0x00)
	fixed("memory.copy", fBR, 0xfc, 0x0a, 0x00, 0x00)
	fixed("select.t", fBR, 0x1c, 0x01, i32)
	fixed("ref.null.func", fBR, 0xd0, fref)
	fixed("ref.null.extern", fBR, 0xd0, xref)
	for _, mo := range memOps {
		mo := mo
		idx(fmt.Sprintf("mem.0x%02x.offset", mo.op), 0, []byte{mo.op, 0x00})
		add(fmt.Sprintf("mem.0x%02x.align", mo.op), 0, upTo(uint64(mo.natural), func(v uint64) []byte { return []byte{mo.op, byte(v), 0x00} }))
	}
	for _, mo := range simdMemOps {
		mo := mo
		lane := []byte{}
		if mo.lanes > 0 {
			lane = []byte{0}
		}
		pre := cat([]byte{0xfd}, uleb(uint64(mo.op)))
		add(fmt.Sprintf("simd.%d.offset", mo.op), fSIMD, func(v uint64) []byte { return cat(pre, []byte{0}, uleb(v), lane) })
		add(fmt.Sprintf("simd.%d.align", mo.op), fSIMD, upTo(uint64(mo.natural), func(v uint64) []byte { return cat(pre, []byte{byte(v), 0}, lane) }))
		if mo.lanes > 0 {
			add(fmt.Sprintf("simd.%d.lane", mo.op), fSIMD, upTo(uint64(mo.lanes-1), func(v uint64) []byte { return cat(pre, []byte{0, 0, byte(v)}) }))
		}
	}
	for _, lo := range laneOps {
		lo := lo
		add(fmt.Sprintf("simd.%d.lane", lo.op), fSIMD, upTo(uint64(lo.lanes-1), func(v uint64) []byte { return []byte{0xfd, byte(lo.op), byte(v)} }))
	}
	add("v128.const", fSIMD, func(v uint64) []byte { return cat([]byte{0xfd, 12}, rep(byte(v), 16)) })
	add("i8x16.shuffle", fSIMD, upTo(31, func(v uint64) []byte { return cat([]byte{0xfd, 13}, rep(byte(v), 16)) }))
	for _, ao := range atomicOps() {
		ao := ao
		add(fmt.Sprintf("atomic.0x%02x.offset", ao.op), fTH, func(v uint64) []byte {
			if v != 0x02 && v != 0x0b && v != 0x80 {
				return nil // three offsets per atomic opcode keep the family small; the alignment is fixed
			}
			return cat([]byte{0xfe, byte(ao.op), byte(ao.natural)}, uleb(v))
		})
	}
	fixed("atomic.fence", fTH, 0xfe, 0x03, 0x00)
	return out
}

func buildDeadImm() []famMod {
	var out []famMod
	for _, di := range deadInstrs() {
		for _, v := range deadVals {
			ins := di.enc(v)
			if ins == nil {
				continue
			}
			out = append(out, famMod{Name: fmt.Sprintf("deadimm:%s=%#x", di.name, v), Req: fBR | fMV | di.req, B: deadEnv(ins)})
		}
	}
	return out
}
