package main

import (
	"context"
	"fmt"
	"testing"

	"github.com/tetratelabs/wazero"
	"github.com/tetratelabs/wazero/api"
	"github.com/tetratelabs/wazero/verif/wb"
)

func runBoth(t *testing.T, name string, b []byte, fn string, args ...uint64) {
	ctx := context.Background()
	for e, cfg := range []wazero.RuntimeConfig{wazero.NewRuntimeConfigInterpreter(), wazero.NewRuntimeConfigCompiler()} {
		rt := wazero.NewRuntimeWithConfig(ctx, cfg.WithCoreFeatures(featureSets[0].F))
		cm, err := rt.CompileModule(ctx, b)
		if err != nil {
			fmt.Printf("%s %s: compile error: %v\n", name, engName[e], err)
			continue
		}
		mod, err := rt.InstantiateModule(ctx, cm, wazero.NewModuleConfig())
		if err != nil {
			fmt.Printf("%s %s: inst error: %v\n", name, engName[e], err)
			continue
		}
		res, err := mod.ExportedFunction(fn).Call(ctx, args...)
		es := ""
		if err != nil {
			es = err.Error()
			if len(es) > 150 {
				es = es[:150]
			}
		}
		fmt.Printf("%s %s: %s(%v) = %#x err=%s\n", name, engName[e], fn, args, res, es)
		rt.Close(ctx)
	}
}

func TestDebug(t *testing.T) {
	{ // return_call to a callee with different results
		m := &wb.Module{}
		f0 := m.AddFunc(nil, nil, nil, nil)
		m.ExportFunc("f", m.AddFunc(vt(i32), vt(i32), nil, a().LocalGet(0).ReturnCall(f0).B))
		runBoth(t, "tailcall-mismatch", m.Encode(), "f", 7)
	}
	{ // i64.atomic.rmw8.and_u
		for _, op := range []uint32{0x2c, 0x2d, 0x2e, 0x2f, 0x30, 0x31, 0x32} {
			m := &wb.Module{}
			m.Mem = &wb.Limits{Min: 1, Max: 1, HasMax: true, Shared: true}
			ty := byte(i64)
			if op == 0x2c || op == 0x2e || op == 0x2f {
				ty = i32
			}
			as := a().I32Const(8)
			if ty == i64 {
				as.I64Const(3)
			} else {
				as.I32Const(3)
			}
			nat := map[uint32]uint32{0x2c: 2, 0x2d: 3, 0x2e: 0, 0x2f: 1, 0x30: 0, 0x31: 1, 0x32: 2}[op]
			as.AtomicMem(op, nat, 0)
			m.ExportFunc("f", m.AddFunc(nil, vt(ty), nil, as.B))
			runBoth(t, fmt.Sprintf("atomic-and-0x%x", op), m.Encode(), "f")
		}
	}
	{ // table.grow on a table without maximum
		m := &wb.Module{}
		m.Tables = []wb.Table{{Elem: fref, Lim: wb.Limits{Min: 1}}}
		m.ExportFunc("f", m.AddFunc(vt(i32), vt(i32), nil, a().RefNull(fref).LocalGet(0).TableGrow(0).B))
		runBoth(t, "table.grow", m.Encode(), "f", 0x10000000)
	}
	_ = api.ValueTypeI32
}

func TestDump(t *testing.T) {
	p := newPlan("quick")
	for si, s := range p.seeds {
		if s.Name == "atomics" {
			fmt.Printf("%x\n", s.B)
			for _, f := range p.fields(si) {
				fmt.Printf("  field %s @%d len %d\n", f.Kind, f.Off, f.Len)
			}
			b := append([]byte{}, s.B...)
			b[91] = 0x30
			fmt.Printf("at 91: %x\n", s.B[85:97])
			runBoth(t, "atomics-mut", b, "at", 0, 0)
			runBoth(t, "atomics-seed", s.B, "at", 0, 0)
		}
	}
}

func TestAnd(t *testing.T) {
	for _, op := range []uint32{0x22, 0x29, 0x30, 0x37, 0x3e, 0x2e, 0x2c, 0x2d,0x31,0x32} {
		m := &wb.Module{}
		m.Mem = &wb.Limits{Min: 1, Max: 1, HasMax: true, Shared: true}
		ty := byte(i64)
		if op == 0x2c || op == 0x2e || op == 0x2f {
			ty = i32
		}
		as := a().LocalGet(0)
		if ty == i64 {
			as.I64Const(3)
		} else {
			as.I32Const(3)
		}
		nat := map[uint32]uint32{0x2c: 2, 0x2d: 3, 0x2e: 0, 0x2f: 1, 0x30: 0, 0x31: 1, 0x32: 2}[op]
		as.AtomicMem(op, nat, 8)
		if ty == i64 {
			as.Op(0xa7)
		}
		m.ExportFunc("f", m.AddFunc(vt(i32), vt(i32), nil, as.B))
		runBoth(t, fmt.Sprintf("atomic-0x%x", op), m.Encode(), "f", 0)
	}
}

func TestAnd2(t *testing.T) {
	for _, op := range []uint32{0x22, 0x30, 0x2c, 0x2d, 0x37, 0x3e, 0x45} {
		for variant := 0; variant < 3; variant++ {
			m := &wb.Module{}
			m.Mem = &wb.Limits{Min: 1, Max: 1, HasMax: true, Shared: true}
			ty := byte(i64)
			if op == 0x2c {
				ty = i32
			}
			as := a()
			switch variant {
			case 0:
				as.LocalGet(1)
			case 1:
				as.LocalGet(0).I32Const(1).AtomicMem(0, 2, 0) // notify -> live value
			case 2:
				as.LocalGet(0).I32Const(1).LocalGet(1).AtomicMem(0x48, 2, 4) // cmpxchg
			}
			as.LocalGet(0)
			if ty == i64 {
				as.I64Const(3)
			} else {
				as.I32Const(3)
			}
			nat := map[uint32]uint32{0x2c: 2, 0x2d: 3, 0x30: 0, 0x22: 0, 0x37: 0, 0x3e: 0, 0x45: 0}[op]
			as.AtomicMem(op, nat, 8)
			if ty == i64 {
				as.Op(0xa7)
			}
			as.Op(0x6a)
			m.ExportFunc("f", m.AddFunc(vt(i32, i32), vt(i32), nil, as.B))
			runBoth(t, fmt.Sprintf("atomic-0x%x-v%d", op, variant), m.Encode(), "f", 0, 0)
		}
	}
}
