// C03 — compilation is total and sound on arbitrary input bytes.
//
// Exhaustive enumeration of bounded input spaces to Runtime.CompileModule on the real code:
//   (a) raw      every header+s (|s|<=2 quick, <=3 thorough), every (section id, size, payload) triple,
//                every strict prefix of the header;
//   (b) struct.  for each seed of a 60-module corpus (every section kind, every immediate kind):
//                every truncation, every single-byte substitution, every LEB field (own field map)
//                replaced by 10 boundary encodings (raw and with enclosing sizes fixed up), and every
//                pair of field deviations for seeds <= 64 bytes;
//   (c) valid    every seed, every member of a by-construction-valid family and every over-long
//                (but legal) re-encoding of every field must be accepted;
//   (d) each input under 10 feature sets.
// Oracle: CompileModule returns (no panic, no hang, no disproportionate allocation, no process
// fault); accepted modules instantiate and run on both engines without a runtime-internal failure and
// the engines agree. See NOTES.md.
package main

import (
	"bufio"
	"encoding/hex"
	"encoding/json"
	"fmt"
	"hash/maphash"
	"os"
	"regexp"
	"runtime"
	"runtime/debug"
	"sort"
	"strconv"
	"strings"
	"sync"
	"syscall"
	"time"

	"github.com/tetratelabs/wazero"
	"github.com/tetratelabs/wazero/verif/fw"
)

const (
	memBatch      = 16
	batchBudget   = 64 << 20 // a batch below the smallest per-input budget needs no bisection
	ulimitKB      = 3 << 20  // 3 GiB address space: a >= 2 GiB request dies at once instead of zeroing 2 GiB
	hangCPU       = 20 * time.Second // CPU time one evaluation may consume before it counts as hung
	hangWall      = 10 * time.Minute // wall-clock limit for an evaluation that consumes no CPU (blocked)
)

func budgetFor(n int) uint64 { return 64<<20 + 65536*uint64(n) }

type viol struct {
	Sig   string `json:"sig"`
	What  string `json:"what"`
	Tag   string `json:"tag"`
	Hex   string `json:"hex"`
	FS    string `json:"fs"`
	Valid bool   `json:"valid,omitempty"` // the input carries the must-be-accepted requirement ...
	Req   uint64 `json:"req,omitempty"`   // ... under feature sets containing these features
	Args  int    `json:"args,omitempty"`
	Ref   string `json:"ref,omitempty"` // hex of the module the input must behave like
	Rej   bool   `json:"reject,omitempty"` // the input carries the must-be-rejected requirement
	ExpF  bool   `json:"expectf,omitempty"` // f() must return ExpV
	ExpV  uint32 `json:"expectv,omitempty"`
	ExecAll bool `json:"execall,omitempty"` // executed under every accepting feature set
}

type sample struct {
	Tag     string `json:"input"`
	Hex     string `json:"hex"`
	Outcome string `json:"outcome"`
}

type chunkRes struct {
	Inputs         int64            `json:"inputs"`
	Evals          int64            `json:"evals"`
	AcceptedEvals  int64            `json:"accepted_evals"`
	AcceptedInputs int64            `json:"accepted_inputs"`
	Execs          int64            `json:"execs"`
	Calls          int64            `json:"calls"`
	ValidChecked   int64            `json:"valid_checked"`
	Bisects        int64            `json:"bisects"`
	MaxBatchAlloc  uint64           `json:"max_batch_alloc"`
	Outcomes       map[string]int64 `json:"outcomes"`
	Timing         map[string]int64 `json:"timing"`
	Viol           []viol           `json:"viol,omitempty"`
	Samples        []sample         `json:"samples,omitempty"`
	Errors         []string         `json:"errors,omitempty"` // full CompileModule errors (replay mode only)
}

// ---------------------------------------------------------------------------------------------
// child

type childState struct {
	seedAcc []bool
	refKey  string // cache of the reference transcript (see refTranscript)
	refTr   *transcript
	plan  *plan
	h     *harness
	prog  *progress
	outMu sync.Mutex
	out   *bufio.Writer
}

func (c *childState) send(line string) {
	c.outMu.Lock()
	c.out.WriteString(line)
	c.out.WriteByte('\n')
	c.out.Flush()
	c.outMu.Unlock()
}

func cpuTime() time.Duration {
	var ru syscall.Rusage
	if syscall.Getrusage(syscall.RUSAGE_SELF, &ru) != nil {
		return 0
	}
	return time.Duration(ru.Utime.Nano() + ru.Stime.Nano())
}

// watchdog: the hang verdict is based on the CPU time the process has consumed since the evaluation in
// flight started (a compile takes micro- to milliseconds of CPU when the property holds), not on wall
// time: on a machine with a load average of several hundred a 60 s wall-clock limit fired on ordinary
// evaluations. A blocked (CPU-less) evaluation is caught by a 10-minute wall-clock limit.
func (c *childState) watchdog() {
	last := c.prog.ticks.Load()
	lastChange := time.Now()
	cpuAtChange := cpuTime()
	lastBeat := time.Now()
	cpuLimit := hangCPU
	if v, err := strconv.Atoi(os.Getenv("VERIF_C03_HANG_S")); err == nil && v > 0 {
		cpuLimit = time.Duration(v) * time.Second // self-test of the watchdog path only
	}
	for {
		time.Sleep(250 * time.Millisecond)
		now := time.Now()
		t := c.prog.ticks.Load()
		if t != last {
			last, lastChange, cpuAtChange = t, now, cpuTime()
		}
		ph := int(c.prog.phase.Load())
		if ph != phaseIdle && (cpuTime()-cpuAtChange > cpuLimit || now.Sub(lastChange) > hangWall) {
			kind := "compile-hang"
			if ph == phaseExec {
				kind = "exec-hang"
			}
			js, _ := json.Marshal(struct {
				Kind string
				coords
			}{kind, c.prog.coords()})
			c.send("X " + string(js))
			os.Exit(3)
		}
		if now.Sub(lastBeat) > 2*time.Second {
			c.send("H")
			lastBeat = now
		}
	}
}

func childMain(tier string) {
	deadline := 100 * time.Millisecond
	if tier == "thorough" {
		deadline = time.Second
	}
	c := &childState{plan: newPlan(tier), prog: openProgress(os.Getenv("VERIF_C03_PROG")), out: bufio.NewWriterSize(os.Stdout, 1<<16)}
	c.h = newHarness(deadline, c.prog)
	if p := os.Getenv("VERIF_C03_CRASHSET"); p != "" {
		b, err := os.ReadFile(p)
		if err != nil {
			fw.Fatalf("crash set: %v", err)
		}
		var keys []string
		json.Unmarshal(b, &keys)
		for _, k := range keys {
			c.plan.crash[k] = true
		}
	}
	c.plan.hexFile = os.Getenv("VERIF_C03_HEXFILE")
	// soft limit well below the address-space limit: the collector then runs before accumulated garbage
	// of many medium-sized evaluations (tens of MiB each) can exhaust the 3 GiB, which would kill the
	// child on an evaluation that is innocent when run alone
	debug.SetMemoryLimit(1 << 30)
	go c.watchdog()
	rd := bufio.NewReaderSize(os.Stdin, 1<<20)
	for {
		l, err := rd.ReadString('\n')
		if err != nil || strings.HasPrefix(l, "Q") {
			os.Exit(0)
		}
		if !strings.HasPrefix(l, "T ") {
			continue
		}
		var t task
		if err := json.Unmarshal([]byte(strings.TrimSpace(l[2:])), &t); err != nil {
			fw.Fatalf("bad task: %v", err)
		}
		res := c.runChunk(t.Chunk, t.C, t.Skip)
		js, _ := json.Marshal(res)
		c.send("R " + string(js))
	}
}

func (c *childState) runChunk(ci int, ch chunk, skip []skipKey) *chunkRes {
	res := &chunkRes{Outcomes: map[string]int64{}, Timing: map[string]int64{}}
	skipC := map[[2]int]bool{}
	skipX := map[int]bool{}
	for _, s := range skip {
		if s.Exec {
			skipX[s.K] = true
		} else {
			skipC[[2]int{s.K, s.F}] = true
		}
	}
	var ins []input
	c.plan.expand(ch, func(in input) { ins = append(ins, in) })
	c.seedAcc = nil
	if ch.Cat == "field" {
		// over-long re-encodings must be accepted exactly where the seed itself is
		c.seedAcc = make([]bool, len(featureSets))
		for f := range featureSets {
			c.prog.set(ci, 0, f, phaseMeasure, engInterp)
			r := c.h.compile(engInterp, f, c.plan.seeds[ch.Seed].B)
			if r.cm != nil {
				r.cm.Close(c.h.ctx)
			}
			c.seedAcc[f] = r.res == "accept"
		}
		c.prog.idle()
	}
	res.Inputs = int64(len(ins))
	var ms0, ms1 runtime.MemStats
	for base := 0; base < len(ins); {
		// a batch never contains the same bytes twice: two CompiledModules of one binary share the
		// engine's compiled code, and closing one would invalidate the other
		end := base
		inBatch := map[string]bool{}
		for end < len(ins) && end-base < memBatch && !inBatch[string(ins[end].B)] {
			inBatch[string(ins[end].B)] = true
			end++
		}
		// ---- compile pass (allocation measured over the batch)
		var pend []*evalState
		runtime.ReadMemStats(&ms0)
		for k := base; k < end; k++ {
			pend = append(pend, c.compileAll(ci, k, ins[k], skipC, res))
		}
		runtime.ReadMemStats(&ms1)
		delta := ms1.TotalAlloc - ms0.TotalAlloc
		if delta > res.MaxBatchAlloc {
			res.MaxBatchAlloc = delta
		}
		// ---- execute pass
		for _, es := range pend {
			c.executeOne(ci, es, skipX, res)
			es.close(c)
		}
		// ---- bisection of an expensive batch (after the execute pass, for the same reason as above)
		if delta > batchBudget {
			res.Bisects++
			for k := base; k < end; k++ {
				c.measureOne(ci, k, ins[k], skipC, res)
			}
		}
		c.prog.idle()
		base = end
	}
	return res
}

type evalState struct {
	k        int
	in       input
	execF    int
	acc      []int
	cmI, cmC wazero.CompiledModule
	more     []execUnit // ExecAllFS: the compiled modules of the further accepting feature sets
}

// execUnit: one input compiled by both engines under one feature set (each feature set has its own
// runtimes, so the compiled modules of different sets do not share code).
type execUnit struct {
	f        int
	cmI, cmC wazero.CompiledModule
}

func fsContains(f int, req uint64) bool { return uint64(featureSets[f].F)&req == req }

func (c *childState) addViol(res *chunkRes, sig, what string, in input, f int) {
	if len(res.Viol) >= 64 {
		return
	}
	fsn := ""
	if f >= 0 {
		fsn = featureSets[f].Name
	}
	res.Viol = append(res.Viol, viol{Sig: sig, What: what, Tag: in.Tag, Hex: hex.EncodeToString(in.B), FS: fsn, Valid: in.Valid, Req: uint64(in.Req), Args: in.ArgSets, Ref: hex.EncodeToString(in.Ref), Rej: in.Reject, ExpF: in.ExpectF, ExpV: in.ExpectV, ExecAll: in.ExecAllFS})
}

func outcomeSample(res *chunkRes, in input, outcome string) {
	if len(res.Samples) < 2 {
		h := hex.EncodeToString(in.B)
		if len(h) > 160 {
			h = h[:160] + "..."
		}
		res.Samples = append(res.Samples, sample{in.Tag, h, outcome})
	}
}

func (c *childState) compileAll(ci, k int, in input, skipC map[[2]int]bool, res *chunkRes) *evalState {
	es := &evalState{k: k, in: in, execF: -1}
	summary := ""
	for f := range featureSets {
		if skipC[[2]int{k, f}] {
			continue // recorded by the supervisor as a process death
		}
		res.Evals++
		c.prog.set(ci, k, f, phaseCompileInterp, engInterp)
		t0 := time.Now()
		r := c.h.compile(engInterp, f, in.B)
		res.Timing["us:compile-interpreter"] += time.Since(t0).Microseconds()
		switch r.res {
		case "panic":
			res.Outcomes["compile:panic"]++
			c.addViol(res, "compile-panic:"+engName[engInterp]+":"+r.detail+":"+r.msg,
				fmt.Sprintf("CompileModule (%s, %s) panicked at %s: %s", engName[engInterp], featureSets[f].Name, r.detail, r.msg), in, f)
		case "reject":
			res.Outcomes["reject:"+r.detail]++
			if c.plan.hexFile != "" && len(res.Errors) < 24 {
				res.Errors = append(res.Errors, featureSets[f].Name+": "+normalize(r.msg, 300))
			}
		case "accept":
			res.Outcomes["accept"]++
			res.AcceptedEvals++
			es.acc = append(es.acc, f)
			first := es.execF < 0
			if first || in.AllFS {
				c.prog.set(ci, k, f, phaseCompileCompiler, engCompiler)
				t1 := time.Now()
				rc := c.h.compile(engCompiler, f, in.B)
				res.Timing["us:compile-compiler"] += time.Since(t1).Microseconds()
				switch rc.res {
				case "panic":
					res.Outcomes["compile:panic"]++
					c.addViol(res, "compile-panic:"+engName[engCompiler]+":"+rc.detail+":"+rc.msg,
						fmt.Sprintf("CompileModule (%s, %s) panicked at %s: %s", engName[engCompiler], featureSets[f].Name, rc.detail, rc.msg), in, f)
				case "reject":
					res.Outcomes["compiler-engine-rejects-validated-module"]++
					if in.Valid && (!in.IfSeed || c.seedAcc[f]) {
						c.addViol(res, "valid-rejected:"+validClass(in.Tag)+":compiler-engine", "by-construction-valid module rejected by the optimizing compiler: "+rc.detail, in, f)
					}
				case "accept":
					if first {
						es.execF, es.cmI, es.cmC = f, r.cm, rc.cm
						r.cm = nil
					} else if in.ExecAllFS {
						es.more = append(es.more, execUnit{f, r.cm, rc.cm})
						r.cm = nil
					} else {
						rc.cm.Close(c.h.ctx)
					}
				}
			}
			if r.cm != nil {
				r.cm.Close(c.h.ctx)
			}
		}
		if in.Reject {
			res.ValidChecked++
			if r.res == "accept" {
				c.addViol(res, "invalid-accepted:"+validClass(in.Tag),
					fmt.Sprintf("by-construction-INVALID module %s accepted under %s", in.Tag, featureSets[f].Name), in, f)
			}
		}
		if in.Valid && fsContains(f, uint64(in.Req)) && (!in.IfSeed || c.seedAcc[f]) {
			res.ValidChecked++
			if r.res != "accept" {
				c.addViol(res, "valid-rejected:"+validClass(in.Tag),
					fmt.Sprintf("by-construction-valid module %s rejected under %s: %s %s", in.Tag, featureSets[f].Name, r.res, r.detail), in, f)
			}
		}
		if f == 0 {
			summary = r.res
			if r.res == "reject" {
				summary += ":" + r.detail
			}
		}
	}
	if len(es.acc) > 0 {
		res.AcceptedInputs++
	}
	outcomeSample(res, in, summary)
	return es
}

// validClass keeps valid-rejected signatures specific but bounded: seeds by name, family members by
// their family and opcode, over-long re-encodings by field kind.
func validClass(tag string) string {
	if strings.HasPrefix(tag, "field:") {
		if i := strings.IndexByte(tag, '('); i >= 0 {
			if j := strings.IndexByte(tag[i:], '@'); j >= 0 {
				return "overlong:" + tag[i+1:i+j]
			}
		}
	}
	if strings.HasPrefix(tag, "family:E:") {
		return "family:E"
	}
	if strings.HasPrefix(tag, "family:deadimm:") {
		if i := strings.IndexByte(tag, '='); i > 0 {
			return tag[:i]
		}
	}
	if strings.HasPrefix(tag, "family:segkinds:") {
		// family:segkinds:<elem|data>:flagN:... -> segment kind and flag
		if p := strings.SplitN(tag, ":", 5); len(p) == 5 {
			return strings.Join(p[:4], ":")
		}
	}
	if strings.HasPrefix(tag, "family:names:") {
		// family:names:<fn|loc|loc2|sub|meta>:... -> the dimension
		if p := strings.SplitN(tag, ":", 4); len(p) >= 3 {
			return strings.Join(p[:3], ":")
		}
	}
	if strings.HasPrefix(tag, "family:dead:") {
		return "family:dead-code"
	}
	return tag
}

func (es *evalState) close(c *childState) {
	if es.cmI != nil {
		es.cmI.Close(c.h.ctx)
	}
	if es.cmC != nil {
		es.cmC.Close(c.h.ctx)
	}
	for _, u := range es.more {
		u.cmI.Close(c.h.ctx)
		u.cmC.Close(c.h.ctx)
	}
}

// measureOne re-runs every compile of one input with the allocation measured per evaluation.
func (c *childState) measureOne(ci, k int, in input, skipC map[[2]int]bool, res *chunkRes) {
	var ms0, ms1 runtime.MemStats
	site := ""
	for f := range featureSets {
		if skipC[[2]int{k, f}] {
			continue
		}
		for e := 0; e < 2; e++ {
			c.prog.set(ci, k, f, phaseMeasure, e)
			runtime.ReadMemStats(&ms0)
			r := c.h.compile(e, f, in.B)
			runtime.ReadMemStats(&ms1)
			if r.cm != nil {
				r.cm.Close(c.h.ctx)
			}
			d := ms1.TotalAlloc - ms0.TotalAlloc
			if d > budgetFor(len(in.B)) {
				if site == "" {
					site = allocSite(func() {
						if r2 := c.h.compile(e, f, in.B); r2.cm != nil {
							r2.cm.Close(c.h.ctx)
						}
					})
				}
				res.Outcomes["alloc-over-budget"]++
				c.addViol(res, "alloc:"+site, fmt.Sprintf("CompileModule (%s, %s) of a %d-byte input allocated %d MiB (budget %d MiB) at %s; result: %s %s",
					engName[e], featureSets[f].Name, len(in.B), d>>20, budgetFor(len(in.B))>>20, site, r.res, r.detail), in, f)
			}
			if r.res != "accept" {
				break // the optimizing compiler is only reached by accepted modules
			}
		}
	}
}

// allocSite attributes the largest allocation made by fn to the innermost wazero frame, using the
// heap profile (allocations above the sampling rate of 512 KiB are always recorded).
func allocSite(fn func()) string {
	snap := func() map[[32]uintptr]int64 {
		n, _ := runtime.MemProfile(nil, true)
		recs := make([]runtime.MemProfileRecord, n+64)
		n, ok := runtime.MemProfile(recs, true)
		if !ok {
			return nil
		}
		m := map[[32]uintptr]int64{}
		for _, r := range recs[:n] {
			m[r.Stack0] += r.AllocBytes
		}
		return m
	}
	runtime.GC()
	runtime.GC()
	before := snap()
	fn()
	runtime.GC()
	runtime.GC()
	after := snap()
	var best [32]uintptr
	var bestD int64
	for k, v := range after {
		if d := v - before[k]; d > bestD {
			best, bestD = k, d
		}
	}
	if bestD == 0 {
		return "unknown"
	}
	n := 0
	for n < len(best) && best[n] != 0 {
		n++
	}
	frames := runtime.CallersFrames(best[:n])
	for {
		fr, more := frames.Next()
		if strings.Contains(fr.Function, "tetratelabs/wazero/") && !strings.Contains(fr.Function, "wazero/verif/") {
			return shortFunc(fr.Function) + lhsOfMake(fr.File, fr.Line)
		}
		if !more {
			return "unknown"
		}
	}
}

func (c *childState) executeOne(ci int, es *evalState, skipX map[int]bool, res *chunkRes) {
	if es.execF < 0 || es.cmI == nil || es.cmC == nil {
		return
	}
	if skipX[es.k] {
		return
	}
	c.executeUnit(ci, es, execUnit{es.execF, es.cmI, es.cmC}, res)
	for _, u := range es.more {
		c.executeUnit(ci, es, u, res)
	}
	if es.in.ExecAllFS || !hasRefTypes(es.execF) || !hasSegments(es.in.B) {
		return
	}
	// Instantiation consults the feature set once more: without reference-types the bounds of element and
	// data segments are checked BEFORE anything is written (buildTables / validateData in store.go). A module
	// with segments is therefore also executed under the first accepting feature set that lacks
	// reference-types, if there is one.
	for _, f := range es.acc {
		if hasRefTypes(f) {
			continue
		}
		var u execUnit
		u.f = f
		c.prog.set(ci, es.k, f, phaseCompileInterp, engInterp)
		if r := c.h.compile(engInterp, f, es.in.B); r.res == "accept" {
			u.cmI = r.cm
		}
		c.prog.set(ci, es.k, f, phaseCompileCompiler, engCompiler)
		if r := c.h.compile(engCompiler, f, es.in.B); r.res == "accept" {
			u.cmC = r.cm
		}
		if u.cmI != nil && u.cmC != nil {
			res.Outcomes["executed-again-without-reference-types"]++
			c.executeUnit(ci, es, u, res)
		}
		if u.cmI != nil {
			u.cmI.Close(c.h.ctx)
		}
		if u.cmC != nil {
			u.cmC.Close(c.h.ctx)
		}
		break
	}
}

func hasRefTypes(f int) bool { return featureSets[f].F&fRef != 0 }

// hasSegments: the binary has an element or a data section (own section scan; false when it cannot be read).
func hasSegments(b []byte) bool {
	for p := 8; p < len(b); {
		id := b[p]
		n, l := 0, 0
		for sh := uint(0); ; sh += 7 {
			if p+1+l >= len(b) || l >= 5 {
				return false
			}
			c := b[p+1+l]
			n |= int(c&0x7f) << sh
			l++
			if c&0x80 == 0 {
				break
			}
		}
		if id == 9 || id == 11 {
			return true
		}
		p += 1 + l + n
	}
	return false
}

// executeUnit: signature comparison, execution on both engines and comparison under one feature set.
func (c *childState) executeUnit(ci int, es *evalState, u execUnit, res *chunkRes) {
	f := u.f
	in := es.in
	c.prog.set(ci, es.k, f, phaseExec, engInterp)
	dec, err := decodeForHarness(in.B, f)
	if err != nil || dec == nil {
		res.Outcomes["exec:harness-decode-failed"]++
		return
	}
	cms := [2]wazero.CompiledModule{u.cmI, u.cmC}
	// lazy consumers, order A: everything the compiled module publishes is read before anything else is done
	// with it (function definitions are built on first use from the never-validated name section)
	res.Outcomes["lazy:definitions-probed"]++
	for e := 0; e < 2; e++ {
		if bad := c.h.probeDefs(e, cms[e]); len(bad) > 0 {
			for _, msg := range bad {
				c.addViol(res, "lazy-consumer:"+normalize(msg, 160), fmt.Sprintf("a lazy consumer of an accepted module failed (%s): %s", featureSets[f].Name, msg), in, f)
			}
			res.Outcomes["lazy:failure"]++
			return // the module's lazily built state is undefined after a panic
		}
	}
	if in.Valid {
		// the signatures a compiled valid module publishes must be the declared ones (read by the own walker)
		if want, ok := exportSigs(in.B); ok {
			for e := 0; e < 2; e++ {
				defs := cms[e].ExportedFunctions()
				for name, sig := range want {
					d := defs[name]
					if d == nil || string(d.ParamTypes()) != string(sig[0]) || string(d.ResultTypes()) != string(sig[1]) {
						got := "missing"
						if d != nil {
							got = fmt.Sprintf("%x -> %x", d.ParamTypes(), d.ResultTypes())
						}
						c.addViol(res, "signature-corrupted:"+engName[e], fmt.Sprintf("exported function %q of a valid module is declared %x -> %x but the compiled module (%s, %s) reports %s",
							name, sig[0], sig[1], engName[e], featureSets[f].Name, got), in, f)
						break
					}
				}
			}
			res.Outcomes["signatures-compared"]++
		}
	}
	var ts [2]*transcript
	for e := 0; e < 2; e++ {
		// an accepted guest may legitimately allocate up to 1 GiB (table.grow): start every execution from
		// a collected heap so that whether the child survives does not depend on GC timing
		var ms runtime.MemStats
		runtime.ReadMemStats(&ms)
		if ms.HeapAlloc > 128<<20 {
			runtime.GC()
		}
		c.prog.set(ci, es.k, f, phaseExec, e)
		t0 := time.Now()
		ts[e] = c.h.execute(e, f, cms[e], dec, in.ArgSets)
		res.Timing["us:execute-"+engName[e]] += time.Since(t0).Microseconds()
		res.Execs++
		res.Calls += int64(len(ts[e].Items))
		for _, msg := range ts[e].Internal {
			sig := "exec-internal:" + stripLabel(msg)
			if tg := causeTags(dec, in.B); tg != "" {
				sig = "exec-internal:" + tg + ":" + engName[e]
			}
			c.addViol(res, sig, fmt.Sprintf("runtime-internal failure while executing an accepted module (%s): %s", featureSets[f].Name, msg), in, f)
			res.Outcomes["exec:internal-failure"]++
		}
	}
	if ts[0].Skipped != "" || ts[1].Skipped != "" {
		res.Outcomes["exec:skipped:"+ts[0].Skipped+ts[1].Skipped]++
		return
	}
	if in.ExpectF {
		// the generator knows what f() returns
		res.Outcomes["expected-result-compared"]++
		for e := 0; e < 2; e++ {
			got := "f was not called"
			for _, it := range ts[e].Items {
				if it.Label == `call:"f"#0` {
					got = it.Class
					if it.Class == "ok" && len(it.Vals) == 1 {
						if uint32(it.Vals[0]) == in.ExpectV {
							got = ""
						} else {
							got = fmt.Sprintf("returned %d", uint32(it.Vals[0]))
						}
					}
				}
			}
			if got != "" {
				c.addViol(res, "wrong-result:"+engName[e]+":"+validClass(in.Tag), fmt.Sprintf("f() of a by-construction-valid module must return %d, %s: %s (%s)", in.ExpectV, engName[e], got, featureSets[f].Name), in, f)
			}
		}
	}
	if strings.HasPrefix(in.Tag, "family:names:") && in.Valid {
		// lazy consumers, orders B (trap first) and C (function listener) in fresh runtimes
		for e := 0; e < 2; e++ {
			c.prog.set(ci, es.k, f, phaseExec, e)
			bad, steps := c.h.lazyOrders(e, f, in.B, wellFormedFnMap(in.Tag), in.Tag)
			res.Outcomes["lazy:orders-run"] += 2
			res.Outcomes["lazy:steps"] += int64(steps)
			for _, msg := range bad {
				c.addViol(res, "lazy-consumer:"+normalize(msg, 160), fmt.Sprintf("a lazy consumer of an accepted module failed (%s): %s", featureSets[f].Name, msg), in, f)
				res.Outcomes["lazy:failure"]++
			}
		}
	}
	if ref := c.refTranscript(ci, es.k, in.Ref, f); ref != nil {
		// a legal over-long re-encoding of one field must not change what the module does
		res.Outcomes["overlong:behaviour-compared"]++
		if d := compareTranscripts(ref, ts[0]); d != "" {
			c.addViol(res, "overlong-changes-behaviour:"+strings.TrimPrefix(validClass(in.Tag), "overlong:"),
				fmt.Sprintf("an over-long (legal) re-encoding of one LEB field changes the behaviour of the module on the interpreter (%s): %s", featureSets[f].Name, strings.Replace(d, engName[1], "re-encoded", -1)), in, f)
		}
	}
	// outcome histogram: deterministic classes only; deadline-dependent ones go to Timing
	for e := 0; e < 2; e++ {
		if ts[e].Stopped == "nonterm" {
			res.Timing["guest-did-not-terminate:"+engName[e]]++
		}
	}
	if len(ts[0].Items) > 0 {
		cl := ts[0].Items[0].Class
		if cl == "nonterm" {
			cl = "ok" // timing-dependent: keep the deterministic histogram free of it
		}
		if strings.HasPrefix(cl, "INTERNAL") {
			cl = "internal"
		}
		res.Outcomes["instantiate:"+cl]++
	}
	if ts[0].Stopped == "" && ts[1].Stopped == "" && len(ts[0].Items) > 1 {
		for _, it := range ts[0].Items[1:] {
			if strings.HasPrefix(it.Label, "call:") {
				cl := it.Class
				if strings.HasPrefix(cl, "INTERNAL") {
					cl = "internal"
				}
				res.Timing["call:"+cl]++ // depends on which calls end by the deadline: reported, not compared
			}
		}
	}
	if d := compareTranscripts(ts[0], ts[1]); d != "" {
		kind := d
		if i := strings.IndexByte(d, ':'); i > 0 {
			kind = d[:i]
		}
		sig := "engines-disagree:" + kind
		if where := constExprMutableGlobal(dec); where != "" {
			sig = "engines-disagree:constexpr-mutable-global:" + where
		} else if tg := causeTags(dec, in.B); tg != "" {
			sig = "engines-disagree:" + tg
		} else if kind == "outcome" {
			sig += ":" + normalize(ts0class(ts[0], ts[1]), 90)
		}
		res.Outcomes["engines-disagree"]++
		c.addViol(res, sig, fmt.Sprintf("engines disagree on an accepted module (%s): %s", featureSets[f].Name, d), in, f)
	} else {
		res.Outcomes["engines-agree"]++
	}
}

// refTranscript runs the reference module (the seed of an over-long re-encoding) on the interpreter
// under feature set f; cached because all inputs of a field chunk share the seed.
func (c *childState) refTranscript(ci, k int, ref []byte, f int) *transcript {
	if ref == nil {
		return nil
	}
	key := fmt.Sprintf("%d:%x", f, ref)
	if c.refKey == key {
		return c.refTr
	}
	c.refKey, c.refTr = key, nil
	c.prog.set(ci, k, f, phaseExec, engInterp)
	if r := c.h.compile(engInterp, f, ref); r.cm != nil {
		if dec, err := decodeForHarness(ref, f); err == nil && dec != nil {
			c.refTr = c.h.execute(engInterp, f, r.cm, dec, 3)
		}
		r.cm.Close(c.h.ctx)
	}
	return c.refTr
}

func ts0class(x, y *transcript) string {
	n := len(x.Items)
	if len(y.Items) < n {
		n = len(y.Items)
	}
	for i := 0; i < n; i++ {
		if x.Items[i].Class != y.Items[i].Class {
			l := x.Items[i].Label
			if strings.HasPrefix(l, "call:") {
				l = "call"
			}
			return l + ":" + x.Items[i].Class + "|" + y.Items[i].Class
		}
	}
	return ""
}

// stripLabel removes the quoted export name and argument-set number from an internal-failure message
// so that the signature names the engine, the step kind and the failure.
func stripLabel(msg string) string {
	if i := strings.Index(msg, ":call:\""); i >= 0 {
		if j := strings.Index(msg[i+7:], "\"#"); j >= 0 {
			rest := msg[i+7+j+2:]
			if k := strings.IndexByte(rest, ':'); k >= 0 {
				rest = rest[k:]
			}
			return msg[:i] + ":call" + rest
		}
	}
	return msg
}

// ---------------------------------------------------------------------------------------------
// parent

type totals struct {
	chunkRes
	events map[string]int64
}

func main() {
	tier := "quick"
	for _, a := range os.Args[1:] {
		if a == "thorough" {
			tier = "thorough"
		}
	}
	if os.Getenv("VERIF_TIER") == "thorough" {
		tier = "thorough"
	}
	if fw.IsChild() {
		childMain(tier)
		return
	}
	if len(os.Args) > 2 && os.Args[1] == "replay" {
		replayMain(os.Args[2])
		return
	}
	run := fw.Start("C03", "exploration")
	tier = run.Tier
	dir, err := os.MkdirTemp("", "c03-")
	if err != nil {
		fw.Fatalf("tempdir: %v", err)
	}
	defer os.RemoveAll(dir)

	p := newPlan(tier)
	tot := &totals{events: map[string]int64{}}
	tot.Outcomes = map[string]int64{}
	tot.Timing = map[string]int64{}
	samples := fw.NewSampler(24)
	type pv struct {
		viol
		crash bool
	}
	var viols []pv
	distinct := map[uint64]struct{}{}
	var hseed = maphash.MakeSeed()
	var nInputs, nNontriv, nRawByConstruction int64
	perCat := map[string]int64{}

	countChunks := func(cs []chunk) {
		for _, ch := range cs {
			p.expand(ch, func(in input) {
				nInputs++
				perCat[ch.Cat]++
				if ch.Cat == "raw" && len(in.B) == 11 {
					nRawByConstruction++ // 16.8 M distinct by construction; not hashed
					return
				}
				if len(in.B) >= 8 && string(in.B[:8]) == string(header) {
					h := maphash.Bytes(hseed, in.B)
					if _, ok := distinct[h]; !ok {
						distinct[h] = struct{}{}
						nNontriv++
					}
				}
			})
		}
	}

	workers := runtime.NumCPU()
	if workers > 16 {
		workers = 16
	}
	crashKeys := map[string]bool{}
	runPhase := func(phase int, env []string) {
		cs := p.chunks(phase)
		countChunks(cs)
		onResult := func(ci int, js string) {
			var r chunkRes
			if err := json.Unmarshal([]byte(js), &r); err != nil {
				fw.Fatalf("bad result for chunk %d: %v", ci, err)
			}
			tot.Evals += r.Evals
			tot.AcceptedEvals += r.AcceptedEvals
			tot.AcceptedInputs += r.AcceptedInputs
			tot.Execs += r.Execs
			tot.Calls += r.Calls
			tot.ValidChecked += r.ValidChecked
			tot.Bisects += r.Bisects
			if r.MaxBatchAlloc > tot.MaxBatchAlloc {
				tot.MaxBatchAlloc = r.MaxBatchAlloc
			}
			for k, v := range r.Outcomes {
				tot.Outcomes[k] += v
			}
			for k, v := range r.Timing {
				tot.Timing[k] += v
			}
			for _, v := range r.Viol {
				viols = append(viols, pv{viol: v})
			}
			for _, s := range r.Samples {
				samples.Add(s)
			}
		}
		onEvent := func(ev event) {
			ch := cs[ev.Chunk]
			var in input
			k := 0
			p.expand(ch, func(x input) {
				if k == ev.K {
					in = x
				}
				k++
			})
			fsn := featureSets[ev.F].Name
			eng := engName[ev.Engine&1]
			what := fmt.Sprintf("%s during %s (%s, %s) of %s: %s", ev.Kind, phaseName[ev.Phase], eng, fsn, in.Tag, fw.FirstLines(ev.Stderr, 3))
			v := viol{Tag: in.Tag, Hex: hex.EncodeToString(in.B), FS: fsn, What: what}
			v.Sig = sigOfEvent(ev)
			if strings.HasPrefix(v.Sig, "exec-fault:") {
				// name the root cause when the accepted module contains a known one (a fault inside
				// generated code has no stable first line)
				if dec, err := decodeForHarness(in.B, ev.F); err == nil && dec != nil {
					if tg := causeTags(dec, in.B); tg != "" {
						v.Sig = "exec-fault:" + tg + ":" + eng
					}
				}
			}
			switch {
			case v.Sig == "":
				if ev.Kind == "crash" {
					tot.Timing["exec:out-of-memory-within-wazero-limits-under-3GiB-ulimit"]++
				} else {
					tot.Timing["guest-did-not-terminate:killed-by-watchdog"]++
				}
				return
			case strings.HasPrefix(v.Sig, "compile-hang:"):
				tot.Outcomes["compile:hang"]++
			case strings.HasPrefix(v.Sig, "alloc:"):
				tot.Outcomes["compile:process-death:out-of-memory"]++
				if tier != "thorough" && ev.Kind == "crash" {
					tot.Outcomes["not-evaluated:remaining-feature-sets-after-process-death"] += int64(len(featureSets) - 1 - ev.F)
				}
				if ch.Cat == "field" && in.Fixup {
					crashKeys[crashKey(ch.Seed, in.Field, in.Val)] = true
				}
			case strings.HasPrefix(v.Sig, "compile-crash:"):
				tot.Outcomes["compile:process-death:fault"]++
			case strings.HasPrefix(v.Sig, "exec-alloc:"):
				tot.Outcomes["exec:process-death:out-of-memory"]++
			default:
				tot.Outcomes["exec:process-death:fault"]++
			}
			tot.events[v.Sig]++
			viols = append(viols, pv{viol: v, crash: true})
		}
		done := supervise(supOpts{N: len(cs), Chunks: cs, AllFSDie: tier != "thorough", Workers: workers, UlimitVKB: ulimitKB, Env: env, Dir: dir, Stop: run.Expired}, onResult, onEvent)
		if done < len(cs) {
			run.Capped("budget")
		}
	}
	runPhase(1, []string{"VERIF_C03_PHASE=1"})
	// pairs: built from the single deviations that did not kill the process
	var keys []string
	for k := range crashKeys {
		keys = append(keys, k)
		p.crash[k] = true
	}
	sort.Strings(keys)
	js, _ := json.Marshal(keys)
	cf := dir + "/crashset.json"
	os.WriteFile(cf, js, 0o600)
	if !run.Expired() {
		runPhase(2, []string{"VERIF_C03_PHASE=2", "VERIF_C03_CRASHSET=" + cf})
	} else {
		run.Capped("budget")
	}

	// report: one run.Violation per distinct (signature) instance, deterministic order
	sort.SliceStable(viols, func(i, j int) bool {
		if viols[i].Sig != viols[j].Sig {
			return viols[i].Sig < viols[j].Sig
		}
		if len(viols[i].Hex) != len(viols[j].Hex) {
			return len(viols[i].Hex) < len(viols[j].Hex)
		}
		return viols[i].Hex < viols[j].Hex
	})
	sigCount := map[string]int64{}
	for _, v := range viols {
		sigCount[v.Sig]++
	}
	// DESIGN 1.6: a violation that is not a known finding is re-run in a fresh process before it is
	// reported; a failure that does not reproduce with the same signature is a harness error.
	known := loadKnown()
	confirmed := map[string]bool{}
	unreproduced := map[string]bool{}
	var firstUnrep string
	for _, v := range viols {
		if known(v.Sig) || confirmed[v.Sig] || unreproduced[v.Sig] || len(confirmed) >= 12 {
			continue
		}
		if !reproduces(dir, v.viol) {
			unreproduced[v.Sig] = true
			if firstUnrep == "" {
				firstUnrep = fmt.Sprintf("violation %q on input %s (%s) did not reproduce in a fresh process: %s", v.Sig, v.Tag, v.Hex, v.What)
			}
			continue
		}
		confirmed[v.Sig] = true
	}
	// A failure that does not reproduce is a harness error when it is all there is. When other violations of the
	// same run do reproduce (a tree that mis-decodes its input can behave differently from run to run), the
	// unreproduced signatures are dropped and named in a note, and the reproduced ones are reported.
	if firstUnrep != "" {
		if len(confirmed) == 0 {
			os.RemoveAll(dir)
			fw.Fatalf("%s", firstUnrep)
		}
		run.Note("%d signature(s) dropped because they did not reproduce in a fresh process; first: %s", len(unreproduced), firstUnrep)
	}
	for _, v := range viols {
		if unreproduced[v.Sig] {
			continue
		}
		run.Violation(v.Sig, v.What+" [input "+v.Tag+"]", map[string]any{"hex": v.Hex, "fs": v.FS, "tag": v.Tag, "valid": v.Valid, "req": v.Req, "argsets": v.Args, "ref": v.Ref, "reject": v.Rej, "expectf": v.ExpF, "expectv": v.ExpV, "execall": v.ExecAll})
	}

	os.RemoveAll(dir) // run.Finish exits the process: deferred clean-up would not run
	out := map[string]int64{}
	rej := int64(0)
	rejClasses := int64(0)
	for k, v := range tot.Outcomes {
		if strings.HasPrefix(k, "reject:") {
			rej += v
			rejClasses++
			continue
		}
		out[k] = v
	}
	out["reject"] = rej
	out["distinct-reject-classes"] = rejClasses
	bounds := map[string]any{
		"seeds": len(p.seeds), "family_modules": len(p.family()), "feature_sets": len(featureSets), "raw_suffix_max": p.rawMax,
		"inputs_per_category": perCat, "field_values": devNames, "pair_seed_max_bytes": p.pairSeedMax(),
		"alloc_budget": "64 MiB + 65536 x len(input) per CompileModule", "child_address_space_KiB": ulimitKB,
		"compile_hang_watchdog": "20 s of process CPU time or 10 min of wall time per evaluation", "memory_limit_pages": memLimitPages,
	}
	nf := 0
	for si := range p.seeds {
		nf += len(p.fields(si))
	}
	bounds["fields_in_corpus"] = nf
	run.Finish(fw.Coverage{
		Evaluations:     tot.Evals + sumEvents(tot.events),
		DistinctNontriv: nNontriv + nRawByConstruction,
		Rule: "evaluation = one Runtime.CompileModule of one input under one feature set (process deaths included); distinct non-trivial = distinct input byte strings " +
			"that start with the valid 8-byte header (hashed; the 2^24 three-byte raw suffixes of the thorough tier are distinct by construction)",
		Samples: samples.List(), Exhaustive: true, Outcomes: out, Bounds: bounds,
		Extra: map[string]any{
			"inputs": nInputs, "accepted_evaluations": tot.AcceptedEvals, "accepted_inputs": tot.AcceptedInputs,
			"engine_executions": tot.Execs, "validity_checks": tot.ValidChecked,
			"process_deaths_by_signature": tot.events, "violations_by_signature": sigCount,
			"single_deviations_excluded_from_pairs": len(keys),
			"timing_dependent_not_compared": withExtra(tot.Timing, map[string]int64{"alloc_bisections": tot.Bisects, "transcript_items": tot.Calls, "max_batch_alloc_bytes": int64(tot.MaxBatchAlloc)}),
		},
	}, []string{
		"decode and validation do not depend on the engine; beyond validation only instantiation consults the feature set (reference-types: when segment bounds are checked): an accepted input is compiled by the optimizing compiler and executed under the first feature set (in the listed order) that accepts it, and, when it has an element or data section, once more under the first accepting set without reference-types; corpus seeds and the segment-kinds family are compiled by both engines and executed under every accepting set",
		"children run under ulimit -v 3 GiB (not 8): a request of >= 2 GiB then kills the child at once, which is recorded as the failure, instead of zero-filling gigabytes per evaluation on a shared machine",
		"a guest call that ends only by the context deadline, or exhausts the call stack, ends the comparison of that instance; such counts are wall-clock dependent and reported separately",
		"pairs of field deviations are built only from single deviations that did not kill the process (those are already recorded failures)",
		"stub imports are wasm modules exporting zero-returning functions and tables/memories/globals of the declared type; mutable numeric globals are set to 2 before the importer is instantiated; declared tables above 2^20 entries are not instantiated",
		"NaN bit patterns are excluded from the engine comparison (results, globals and memory words that are NaNs on both sides)",
	})
}

// loadKnown returns the matcher fw applies to open findings (exact signature or '*' prefix pattern).
func loadKnown() func(sig string) bool {
	var fs []fw.Finding
	for _, p := range []string{fw.Root + "/known_findings.json", fw.Root + "/checks/c03/findings.json"} {
		b, err := os.ReadFile(p)
		if err != nil {
			continue
		}
		var l []fw.Finding
		json.Unmarshal(b, &l)
		fs = append(fs, l...)
	}
	return func(sig string) bool {
		for _, f := range fs {
			if f.Property != "C03" || f.Status != "open" {
				continue
			}
			if f.Signature == sig || (strings.HasSuffix(f.Signature, "*") && strings.HasPrefix(sig, strings.TrimSuffix(f.Signature, "*"))) {
				return true
			}
		}
		return false
	}
}

// reproduces re-runs one input in a fresh supervised child and reports whether the same signature
// shows up again (as a reported violation or as a process death).
func reproduces(dir string, v viol) bool {
	hf := dir + "/confirm.json"
	js, _ := json.Marshal([]map[string]any{{"hex": v.Hex, "tag": v.Tag, "valid": v.Valid, "req": v.Req, "argsets": v.Args, "ref": v.Ref, "reject": v.Rej, "expectf": v.ExpF, "expectv": v.ExpV, "execall": v.ExecAll}})
	os.WriteFile(hf, js, 0o600)
	sub := dir + "/confirm"
	os.MkdirAll(sub, 0o700)
	seen := false
	supervise(supOpts{N: 1, Chunks: []chunk{{Cat: "hex"}}, Workers: 1, UlimitVKB: ulimitKB, Env: []string{"VERIF_C03_HEXFILE=" + hf}, Dir: sub},
		func(ci int, res string) {
			var r chunkRes
			json.Unmarshal([]byte(res), &r)
			for _, x := range r.Viol {
				if x.Sig == v.Sig {
					seen = true
				}
			}
		},
		func(ev event) {
			got := sigOfEvent(ev)
			if got == v.Sig || (strings.HasPrefix(v.Sig, "exec-fault:") && strings.HasPrefix(got, "exec-fault:")) {
				seen = true // a fault in generated code need not print the same first line twice
			}
		})
	return seen
}

// sigOfEvent classifies a process death / hang ("" = not a verdict).
func sigOfEvent(ev event) string {
	eng := engName[ev.Engine&1]
	oom := strings.Contains(ev.Stderr, "out of memory") || strings.Contains(ev.Stderr, "cannot allocate")
	switch {
	case ev.Kind == "exec-hang" || (ev.Kind == "silent" && ev.Phase == phaseExec):
		return ""
	case ev.Kind == "compile-hang" || ev.Kind == "silent":
		return "compile-hang:" + eng
	case oom && ev.Phase != phaseExec:
		return "alloc:" + siteFromTrace(ev.Stderr)
	case ev.Phase != phaseExec:
		return "compile-crash:" + eng + ":" + siteFromTrace(ev.Stderr)
	case oom:
		// wazero's own limits let a guest hold a table of 2^27 references (1 GiB, and twice that while it
		// is being grown); dying on such a request is a consequence of the 3 GiB address-space limit of
		// this check, not of the runtime. Only a larger single request is a verdict.
		if n := oomRequest(ev.Stderr); n > 0 && n <= 1<<30+1<<20 {
			return ""
		}
		return "exec-alloc:" + eng + ":" + siteFromTrace(ev.Stderr)
	}
	return "exec-fault:" + eng + ":" + faultClass(ev.Stderr)
}

var reOOM = regexp.MustCompile(`cannot allocate ([0-9]+)-byte block`)

func oomRequest(stderr string) uint64 {
	if m := reOOM.FindStringSubmatch(stderr); m != nil {
		n, _ := strconv.ParseUint(m[1], 10, 64)
		return n
	}
	return 0
}

// faultClass names a process fault during execution by its first diagnostic line (goroutine traces of
// a fault inside generated code are not stable enough to name a site).
func faultClass(stderr string) string {
	for _, l := range strings.Split(stderr, "\n") {
		l = strings.TrimSpace(l)
		switch {
		case strings.HasPrefix(l, "panic: "):
			return normalize(l, 80)
		case strings.HasPrefix(l, "fatal error: "):
			return normalize(l, 80)
		case strings.Contains(l, "signal SIG"):
			return normalize(l[strings.Index(l, "signal SIG"):], 40)
		}
	}
	return "unknown"
}

func withExtra(m, extra map[string]int64) map[string]int64 {
	for k, v := range extra {
		m[k] = v
	}
	return m
}

func sumEvents(m map[string]int64) int64 {
	var s int64
	for _, v := range m {
		s += v
	}
	return s
}

// replayMain re-executes one stored case in a supervised child and prints what happens.
func replayMain(file string) {
	b, err := os.ReadFile(file)
	if err != nil {
		fw.Fatalf("replay: %v", err)
	}
	var art struct {
		Signature string
		What      string
		Replay    struct {
			Hex, FS, Tag string
			Ref          string
			Reject       bool
			ExpectF      bool
			ExpectV      uint32
			Valid        bool
			Req          uint64
			ArgSets      int
			ExecAll      bool
		}
	}
	if err := json.Unmarshal(b, &art); err != nil {
		fw.Fatalf("replay: %v", err)
	}
	dir, _ := os.MkdirTemp("", "c03-replay-")
	defer os.RemoveAll(dir)
	hf := dir + "/in.json"
	js, _ := json.Marshal([]map[string]any{{"hex": art.Replay.Hex, "tag": art.Replay.Tag, "valid": art.Replay.Valid, "req": art.Replay.Req, "argsets": art.Replay.ArgSets, "ref": art.Replay.Ref, "reject": art.Replay.Reject, "expectf": art.Replay.ExpectF, "expectv": art.Replay.ExpectV, "execall": art.Replay.ExecAll}})
	os.WriteFile(hf, js, 0o600)
	fmt.Printf("replaying %s\n  input (%d bytes): %s\n  recorded: %s\n", art.Signature, len(art.Replay.Hex)/2, art.Replay.Hex, art.What)
	failed := false
	supervise(supOpts{N: 1, Chunks: []chunk{{Cat: "hex"}}, Workers: 1, UlimitVKB: ulimitKB, Env: []string{"VERIF_C03_HEXFILE=" + hf}, Dir: dir},
		func(ci int, res string) {
			var r chunkRes
			json.Unmarshal([]byte(res), &r)
			fmt.Printf("  outcomes: %v\n", r.Outcomes)
			for _, e := range r.Errors {
				fmt.Printf("  CompileModule error under %s\n", e)
			}
			for _, v := range r.Viol {
				fmt.Printf("  STILL FAILS [%s] %s: %s\n", v.FS, v.Sig, v.What)
				failed = true
			}
		},
		func(ev event) {
			fmt.Printf("  STILL FAILS [%s] child %s during %s: %s\n", featureSets[ev.F].Name, ev.Kind, phaseName[ev.Phase], fw.FirstLines(ev.Stderr, 4))
			if !(ev.Kind == "exec-hang") {
				failed = true
			}
		})
	os.RemoveAll(dir)
	if failed {
		os.Exit(1)
	}
	fmt.Println("  no failure reproduced")
}
