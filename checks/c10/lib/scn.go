// Package lib holds the scenario language shared by the schedule explorer (../main.go) and the
// free-running -race pass (../race/main.go).
package lib

import (
	"fmt"
	"strconv"
)

// Op kinds. ref: "M0"/"M1" = module pre-instantiated before the threads start; "mine" = the module
// returned by the previous inst/hostInst of the same thread.
type Op struct {
	K    string `json:"k"`              // inst hostInst lookup close closeCode isClosed rtClose rtCloseCode compile hostCompile ctxCall call asyncCtxCall
	Name string `json:"name,omitempty"` // module name
	Ref  string `json:"ref,omitempty"`
}

func (o Op) String() string {
	s := o.K
	if o.Name != "" || o.K == "inst" || o.K == "lookup" || o.K == "hostInst" {
		s += "(" + strconv.Quote(o.Name) + ")"
	}
	if o.Ref != "" {
		s += "(" + o.Ref + ")"
	}
	return s
}

type Scenario struct {
	Label   string   `json:"label"`
	Pre     []string `json:"pre"` // names of modules instantiated before the threads start (M0, M1)
	Threads [][]Op   `json:"threads"`
}

func Scenarios(thorough bool) []Scenario {
	var out []Scenario
	add := func(label string, pre []string, threads ...[]Op) {
		out = append(out, Scenario{Label: label, Pre: pre, Threads: threads})
	}
	I := func(n string) Op { return Op{K: "inst", Name: n} }
	H := func(n string) Op { return Op{K: "hostInst", Name: n} }
	L := func(n string) Op { return Op{K: "lookup", Name: n} }
	C := func(r string) Op { return Op{K: "close", Ref: r} }
	CC := func(r string) Op { return Op{K: "closeCode", Ref: r} }
	Q := func(r string) Op { return Op{K: "isClosed", Ref: r} }
	XC := func(r string) Op { return Op{K: "ctxCall", Ref: r} }
	FC := func(r string) Op { return Op{K: "call", Ref: r} }
	AX := func(r string) Op { return Op{K: "asyncCtxCall", Ref: r} }
	RC := Op{K: "rtClose"}
	RCC := Op{K: "rtCloseCode"}
	CM := Op{K: "compile"}
	HC := Op{K: "hostCompile"}
	a := []string{"a"}
	// two instantiations of one name
	add("inst-a||inst-a", nil, []Op{I("a")}, []Op{I("a")})
	add("inst-a;look||inst-a;look", nil, []Op{I("a"), L("a")}, []Op{I("a"), L("a")})
	add("inst-a||host-a", nil, []Op{I("a")}, []Op{H("a")})
	add("inst-a;close||inst-a", nil, []Op{I("a"), C("mine")}, []Op{I("a")})
	add("inst-a;close||inst-a;close", nil, []Op{I("a"), C("mine")}, []Op{I("a"), C("mine")})
	add("inst-a||inst-b||look-a", nil, []Op{I("a")}, []Op{I("b")}, []Op{L("a")})
	add("inst-anon||inst-anon", nil, []Op{I("")}, []Op{I("")})
	add("inst-anon;close||inst-a;close", nil, []Op{I(""), C("mine")}, []Op{I("a"), C("mine")})
	// close vs lookup
	add("close-M0||look-a", a, []Op{C("M0")}, []Op{L("a")})
	add("close-M0||isclosed;look", a, []Op{C("M0")}, []Op{Q("M0"), L("a")})
	add("close-M0||look;isclosed", a, []Op{C("M0")}, []Op{L("a"), Q("M0")})
	add("closeCode-M0||isclosed;look", a, []Op{CC("M0")}, []Op{Q("M0"), L("a")})
	// close vs re-instantiate
	add("close-M0||inst-a", a, []Op{C("M0")}, []Op{I("a")})
	add("close-M0||inst-a;look", a, []Op{C("M0")}, []Op{I("a"), L("a")})
	add("close-M0;inst-a||look-a", a, []Op{C("M0"), I("a")}, []Op{L("a")})
	add("close-M0||isclosed;inst-a", a, []Op{C("M0")}, []Op{Q("M0"), I("a")})
	add("close-M0||inst-a||look-a", a, []Op{C("M0")}, []Op{I("a")}, []Op{L("a")})
	// failed duplicate instantiate must not disturb the owner
	add("inst-a(dup)||look-a", a, []Op{I("a")}, []Op{L("a")})
	add("inst-a(dup);look||inst-a(dup)", a, []Op{I("a"), L("a")}, []Op{I("a")})
	add("inst-a(dup);inst-a(dup)||look-a", a, []Op{I("a"), I("a")}, []Op{L("a")})
	// double close
	add("close-M0||close-M0", a, []Op{C("M0")}, []Op{C("M0")})
	add("close-M0||closeCode-M0||isclosed", a, []Op{C("M0")}, []Op{CC("M0")}, []Op{Q("M0")})
	add("close-M0;close-M0||look-a", a, []Op{C("M0"), C("M0")}, []Op{L("a")})
	// two modules
	add("close-M0||close-M1", []string{"a", "b"}, []Op{C("M0")}, []Op{C("M1")})
	add("close-M0||close-M1||look-a;look-b", []string{"a", "b"}, []Op{C("M0")}, []Op{C("M1")}, []Op{L("a"), L("b")})
	add("close-M0;inst-a||look-a;look-b", []string{"a", "b"}, []Op{C("M0"), I("a")}, []Op{L("a"), L("b")})
	add("close-M0;inst-a||close-M1;inst-b", []string{"a", "b"}, []Op{C("M0"), I("a")}, []Op{C("M1"), I("b")})
	add("close-M0||close-M1||inst-c;look-a", []string{"a", "b"}, []Op{C("M0")}, []Op{C("M1")}, []Op{I("c"), L("a")})
	add("inst-c;close||close-M0;look-a;look-c", []string{"a", "b"}, []Op{I("c"), C("mine")}, []Op{C("M0"), L("a"), L("c")})
	// a call with a cancelled context closes the module (close-on-context-done); later calls into it fail and
	// must not release or notify anything a second time
	add("ctxcall-M0;call-M0||look-a", a, []Op{XC("M0"), FC("M0")}, []Op{L("a")})
	add("ctxcall-M0;call-M0;call-M0||isclosed;inst-a", a, []Op{XC("M0"), FC("M0"), FC("M0")}, []Op{Q("M0"), I("a")})
	add("ctxcall-M0||close-M0;call-M0", a, []Op{XC("M0")}, []Op{C("M0"), FC("M0")})
	add("ctxcall-M0||call-M0;call-M0", a, []Op{XC("M0")}, []Op{FC("M0"), FC("M0")})
	add("ctxcall-M0||ctxcall-M0||call-M0", a, []Op{XC("M0")}, []Op{XC("M0")}, []Op{FC("M0")})
	add("ctxcall-M0;call-M0||rtclose", a, []Op{XC("M0"), FC("M0")}, []Op{RC})
	add("inst-a;ctxcall;call||look-a", nil, []Op{I("a"), XC("mine"), FC("mine")}, []Op{L("a")})
	// the context of an in-flight call is cancelled: the watcher closes the module without releasing its
	// resources, which the end of that call (or any later call) releases, exactly once
	add("asyncctx-M0;call-M0||look-a", a, []Op{AX("M0"), FC("M0")}, []Op{L("a")})
	add("asyncctx-M0||call-M0", a, []Op{AX("M0")}, []Op{FC("M0")})
	add("asyncctx-M0||asyncctx-M0", a, []Op{AX("M0")}, []Op{AX("M0")})
	add("asyncctx-M0||close-M0;inst-a", a, []Op{AX("M0")}, []Op{C("M0"), I("a")})
	add("asyncctx-M0||rtclose", a, []Op{AX("M0")}, []Op{RC})
	add("asyncctx-M0||isclosed;look", a, []Op{AX("M0")}, []Op{Q("M0"), L("a")})
	// instantiations that arrive after the runtime was closed, with other names registered before
	add("rtclose||inst-c;inst-d", []string{"a", "b"}, []Op{RC}, []Op{I("c"), I("d")})
	add("rtclose||inst-c||inst-d", []string{"a", "b"}, []Op{RC}, []Op{I("c")}, []Op{I("d")})
	add("rtclose;inst-c;inst-d;look-d", []string{"a", "b"}, []Op{RC, I("c"), I("d"), L("d")}, []Op{L("a")})
	// runtime close
	add("rtclose||inst-a", nil, []Op{RC}, []Op{I("a")})
	add("rtclose||inst-a;isclosed", nil, []Op{RC}, []Op{I("a"), Q("mine")})
	add("rtclose||inst-anon;isclosed", nil, []Op{RC}, []Op{I(""), Q("mine")})
	add("rtclose||look-a", a, []Op{RC}, []Op{L("a")})
	add("rtclose||close-M0", a, []Op{RC}, []Op{C("M0")})
	add("rtclose||isclosed;look", a, []Op{RC}, []Op{Q("M0"), L("a")})
	add("rtclose||rtclosecode", a, []Op{RC}, []Op{RCC})
	add("rtclose||compile", nil, []Op{RC}, []Op{CM})
	add("rtclose||hostcompile", nil, []Op{RC}, []Op{HC})
	add("rtclose||host-a", nil, []Op{RC}, []Op{H("a")})
	add("rtclose;compile||inst-a", nil, []Op{RC, CM}, []Op{I("a")})
	add("rtclose;hostcompile", nil, []Op{RC, HC}, []Op{L("a")})
	add("rtclose;host-a||look-a", nil, []Op{RC, H("a")}, []Op{L("a")})
	add("rtclose||inst-a||close-M0", a, []Op{RC}, []Op{I("b")}, []Op{C("M0")})
	// a caller that saw the runtime closed (its own Close returned, or compile/instantiate refused) must find every module closed
	add("rtclose||compile;look-a", a, []Op{RC}, []Op{CM, L("a")})
	add("rtclose||compile;isclosed-M0", a, []Op{RC}, []Op{CM, Q("M0")})
	add("rtclose||rtclose;look-a", a, []Op{RC}, []Op{RC, L("a")})
	add("rtclose||rtclosecode;isclosed-M0", a, []Op{RC}, []Op{RCC, Q("M0")})
	add("rtclose||inst-anon;look-a", a, []Op{RC}, []Op{I(""), L("a")})
	add("rtclose||hostcompile;isclosed-M0", a, []Op{RC}, []Op{HC, Q("M0")})
	add("compile||compile", nil, []Op{CM}, []Op{CM})
	add("host-a||host-a", nil, []Op{H("a")}, []Op{H("a")})
	add("host-a;close||inst-a", nil, []Op{H("a"), C("mine")}, []Op{I("a")})
	add("close-M0||inst-a;isclosed-M0", a, []Op{C("M0")}, []Op{I("a"), Q("M0")})
	add("close-M0||look-a;isclosed-M0||inst-a", a, []Op{C("M0")}, []Op{L("a"), Q("M0")}, []Op{I("a")})
	if thorough {
		// every 2-thread scenario with <=2 ops per thread over a reduced alphabet, with M0="a" pre-instantiated
		alpha := []Op{I("a"), I(""), L("a"), C("M0"), Q("M0"), RC, CM, H("a")}
		var progs [][]Op
		for _, x := range alpha {
			progs = append(progs, []Op{x})
			for _, y := range alpha {
				progs = append(progs, []Op{x, y})
			}
		}
		for i, p := range progs {
			for j := i; j < len(progs); j++ {
				q := progs[j]
				if len(p)+len(q) > 3 {
					continue
				}
				add(fmt.Sprintf("gen:%v||%v", p, q), a, p, q)
			}
		}
		// three threads x 1 op
		for i := range alpha {
			for j := i; j < len(alpha); j++ {
				for k := j; k < len(alpha); k++ {
					add(fmt.Sprintf("gen3:%v||%v||%v", alpha[i], alpha[j], alpha[k]), a, []Op{alpha[i]}, []Op{alpha[j]}, []Op{alpha[k]})
				}
			}
		}
	}
	return out
}
