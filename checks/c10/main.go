// C10 — module lifecycle and name registry are linearizable.
//
// Stateless schedule exploration (CHESS-style iterative preemption bounding) of the REAL
// wazero.Runtime: the build overlay substitutes the cooperative-scheduler shim
// internal/verif/vsched for "sync" and "sync/atomic" in the registry/lifecycle files, so every
// lock/unlock/atomic operation is a scheduling point and blocked threads are disabled. For every
// complete schedule the invocation/response history (plus a sequential audit appended at the end)
// is checked for linearizability against a sequential registry model by exhaustive search, and
// final-state invariants (close notification exactly once, nothing left registered) are checked.
package main

import (
	"context"
	"encoding/json"
	"errors"
	"fmt"
	"io/fs"
	"os"
	"os/exec"
	"path/filepath"
	"sort"
	"strconv"
	"strings"
	"time"

	"github.com/tetratelabs/wazero"
	"github.com/tetratelabs/wazero/api"
	"github.com/tetratelabs/wazero/experimental"
	experimentalsys "github.com/tetratelabs/wazero/experimental/sys"
	expsysfs "github.com/tetratelabs/wazero/experimental/sysfs"
	"github.com/tetratelabs/wazero/internal/verif/vsched"
	"github.com/tetratelabs/wazero/internal/wasm"
	"github.com/tetratelabs/wazero/sys"
	"github.com/tetratelabs/wazero/verif/checks/c10/lib"
	"github.com/tetratelabs/wazero/verif/fw"
	"github.com/tetratelabs/wazero/verif/wb"
)

// ---------------------------------------------------------------- scenario language

type (
	Op       = lib.Op
	Scenario = lib.Scenario
)

func scenarios(thorough bool) []Scenario { return lib.Scenarios(thorough) }

type Case struct {
	Scn    Scenario `json:"scenario"`
	Engine string   `json:"engine"`
	Bound  int      `json:"bound"`
	// Fault "fsclose": every guest module gets a preopened directory whose Close fails with EIO (a
	// close-time I/O fault); closing must still release the instance's other resources exactly once.
	Fault string `json:"fault,omitempty"`
	// Shrink > 0 lowers the population at which the name registry starts shrinking its map (100 in the real
	// tree) to that number, so that closing one of two or three named modules takes the shrinking branch of
	// deleteModule; 0 leaves the real value, with which no bounded scenario can reach that branch.
	Shrink int `json:"shrink,omitempty"`
}

// ---------------------------------------------------------------- one execution

type event struct {
	Thread int    `json:"thread"` // -1 = audit
	Op     Op     `json:"op"`
	Inv    int    `json:"inv"`
	Res    int    `json:"res"`
	Out    string `json:"out"`
	modID  int    // for inst/hostInst: id of the module created (index in mods) if any
	raw    api.Module
	target int // resolved module id for ref ops
}

// countingMem is an experimental.MemoryAllocator that records, per module, how often its linear
// memory was allocated and freed (resources must be released exactly once, whoever closes).
type countingMem struct{ allocs, frees *int }

func (c countingMem) Allocate(cap, max uint64) experimental.LinearMemory {
	*c.allocs++
	return &countedBuf{c: c, buf: make([]byte, 0, cap)}
}

type countedBuf struct {
	c   countingMem
	buf []byte
}

func (b *countedBuf) Reallocate(size uint64) []byte {
	if size > uint64(cap(b.buf)) {
		nb := make([]byte, size)
		copy(nb, b.buf)
		b.buf = nb
	}
	b.buf = b.buf[:size]
	return b.buf
}
func (b *countedBuf) Free() { *b.c.frees++ }

// failCloseFS is a sys.FS whose root directory opens fine and whose Close fails with EIO.
type failCloseFS struct {
	experimentalsys.UnimplementedFS
}

func (failCloseFS) OpenFile(path string, flag experimentalsys.Oflag, perm fs.FileMode) (experimentalsys.File, experimentalsys.Errno) {
	if path == "." || path == "" || path == "/" {
		return &failCloseDir{}, 0
	}
	return nil, experimentalsys.ENOENT
}

type failCloseDir struct {
	experimentalsys.UnimplementedFile
}

func (*failCloseDir) IsDir() (bool, experimentalsys.Errno) { return true, 0 }
func (*failCloseDir) Stat() (sys.Stat_t, experimentalsys.Errno) {
	return sys.Stat_t{Mode: fs.ModeDir | 0o755}, 0
}
func (*failCloseDir) Close() experimentalsys.Errno { return experimentalsys.EIO }

type notifier struct{ n *int }

// The callback is user code and may synchronise, so it is a scheduling point too: this opens the
// window between reading the notifier and clearing it in ensureResourcesClosed.
func (c notifier) CloseNotify(ctx context.Context, exitCode uint32) {
	*c.n++
	vsched.Yield("CloseNotify", nil)
}

var (
	emptyBin = (&wb.Module{Mem: &wb.Limits{Min: 1, Max: 2, HasMax: true}}).Encode() // has a memory: a resource to release
	// fnBin: the guest of the scenarios that call into modules (ctxCall/call): a memory and an exported no-op
	fnBin = func() []byte {
		m := &wb.Module{Mem: &wb.Limits{Min: 1, Max: 2, HasMax: true}}
		m.ExportFunc("f", m.AddFunc(nil, nil, nil, (&wb.Asm{}).B))
		return m.Encode()
	}()
	otherBin = func() []byte {
		m := &wb.Module{}
		m.ExportFunc("f", m.AddFunc(nil, []byte{wb.I32}, nil, (&wb.Asm{}).I32Const(1).B))
		return m.Encode()
	}()
)

type execution struct {
	events   []*event
	mods     []api.Module // id -> module
	modName  []string
	notified []*int
	allocs   []*int
	frees    []*int
	hasMem   []bool // guest modules have a linear memory, host modules do not
	instOK   []bool
	clock    int
	sched    *vsched.Sched
	final    []string // invariant failures
}

func unwrap(m api.Module) any {
	if m == nil {
		return nil
	}
	return m
}

func runOne(c Case, prefix []int) *execution {
	ctx := context.Background()
	var cfg wazero.RuntimeConfig
	if c.Engine == "compiler" {
		cfg = wazero.NewRuntimeConfigCompiler()
	} else {
		cfg = wazero.NewRuntimeConfigInterpreter()
	}
	if c.Shrink > 0 {
		wasm.VerifSetNameToModuleShrinkThreshold(c.Shrink)
	} else {
		wasm.VerifSetNameToModuleShrinkThreshold(100)
	}
	calls := false // scenarios that call into the modules run with close-on-context-done and a guest that exports a function
	for _, th := range c.Scn.Threads {
		for _, o := range th {
			if o.K == "ctxCall" || o.K == "call" || o.K == "asyncCtxCall" {
				calls = true
			}
		}
	}
	bin := emptyBin
	if calls {
		cfg = cfg.WithCloseOnContextDone(true)
		bin = fnBin
	}
	rt := wazero.NewRuntimeWithConfig(ctx, cfg)
	compiled, err := rt.CompileModule(ctx, bin)
	if err != nil {
		fw.Fatalf("compile: %v", err)
	}
	x := &execution{}
	newMod := func(name string) (int, context.Context) {
		n, a, f := new(int), new(int), new(int)
		x.notified = append(x.notified, n)
		x.allocs = append(x.allocs, a)
		x.frees = append(x.frees, f)
		x.mods = append(x.mods, nil)
		x.modName = append(x.modName, name)
		x.instOK = append(x.instOK, false)
		x.hasMem = append(x.hasMem, true)
		cctx := experimental.WithCloseNotifier(ctx, notifier{n})
		return len(x.mods) - 1, experimental.WithMemoryAllocator(cctx, countingMem{a, f})
	}
	modCfg := func(nm string) wazero.ModuleConfig {
		mc := wazero.NewModuleConfig().WithName(nm)
		if c.Fault == "fsclose" {
			mc = mc.WithFSConfig(wazero.NewFSConfig().(expsysfs.FSConfig).WithSysFSMount(failCloseFS{}, "/"))
		}
		return mc
	}
	// touch forces the lazily opened preopen directory open, so that closing the module has a file to close.
	touch := func(m api.Module) {
		if c.Fault != "fsclose" {
			return
		}
		if mi, ok := m.(*wasm.ModuleInstance); ok && mi.Sys != nil {
			if e, ok := mi.Sys.FS().LookupFile(3); ok {
				e.File.IsDir()
			}
		}
	}
	for _, nm := range c.Scn.Pre {
		id, cctx := newMod(nm)
		m, err := rt.InstantiateModule(cctx, compiled, modCfg(nm))
		if err != nil {
			fw.Fatalf("pre-instantiate %q: %v", nm, err)
		}
		touch(m)
		x.mods[id], x.instOK[id] = m, true
	}
	npre := len(c.Scn.Pre)
	_ = npre
	resolveRef := func(ref string, mine int) int {
		switch ref {
		case "M0":
			return 0
		case "M1":
			return 1
		case "mine":
			return mine
		}
		return -1
	}
	errStr := func(err error) string {
		if err != nil && !(c.Fault == "fsclose" && errors.Is(err, experimentalsys.EIO)) {
			return "err"
		}
		return "ok" // in the fault variant Close may report the injected EIO; the registry effect is the same
	}
	do := func(ev *event, mine *int) {
		defer func() {
			if r := recover(); r != nil {
				if fmt.Sprint(r) == "{}" { // vsched abort sentinel
					panic(r)
				}
				ev.Out = "panic:" + firstWords(fmt.Sprint(r))
			}
		}()
		o := ev.Op
		switch o.K {
		case "inst":
			id, cctx := newMod(o.Name)
			ev.modID = id
			m, err := rt.InstantiateModule(cctx, compiled, modCfg(o.Name))
			if err == nil {
				touch(m)
				x.mods[id], x.instOK[id] = m, true
				*mine = id
			}
			ev.Out = errStr(err)
		case "hostInst":
			id, cctx := newMod(o.Name)
			ev.modID = id
			x.hasMem[id] = false
			m, err := rt.NewHostModuleBuilder(o.Name).NewFunctionBuilder().WithFunc(func() {}).Export("f").Instantiate(cctx)
			if err == nil {
				x.mods[id], x.instOK[id] = m, true
				*mine = id
			}
			ev.Out = errStr(err)
		case "lookup":
			ev.raw = rt.Module(o.Name)
			ev.Out = "?" // resolved after the run
		case "close":
			if ev.target < 0 || x.mods[ev.target] == nil {
				ev.Out = "skip"
				return
			}
			ev.Out = errStr(x.mods[ev.target].Close(ctx))
		case "closeCode":
			if ev.target < 0 || x.mods[ev.target] == nil {
				ev.Out = "skip"
				return
			}
			ev.Out = errStr(x.mods[ev.target].CloseWithExitCode(ctx, 3))
		case "isClosed":
			if ev.target < 0 || x.mods[ev.target] == nil {
				ev.Out = "skip"
				return
			}
			ev.Out = strconv.FormatBool(x.mods[ev.target].IsClosed())
		case "ctxCall", "call":
			// ctxCall: call the export with an already cancelled context: under close-on-context-done this closes
			// the module (code sys.ExitCodeContextCanceled) and the call fails; call: a plain call, which succeeds
			// exactly when the module is open.
			if ev.target < 0 || x.mods[ev.target] == nil {
				ev.Out = "skip"
				return
			}
			cctx := ctx
			if o.K == "ctxCall" {
				var cancel context.CancelFunc
				cctx, cancel = context.WithCancel(ctx)
				cancel()
			}
			_, err := x.mods[ev.target].ExportedFunction("f").Call(cctx)
			ev.Out = errStr(err)
		case "asyncCtxCall":
			// A call whose context is cancelled while it is in flight, in the three steps the engines take: the
			// watcher goroutine's body (the real closeModuleOnCanceledOrTimeout, run here as part of this thread)
			// marks the module closed WITHOUT releasing its resources; the function notices and unwinds; the call's
			// deferred FailIfClosed releases the resources and yields the exit error. Other threads interleave
			// between the steps.
			if ev.target < 0 || x.mods[ev.target] == nil {
				ev.Out = "skip"
				return
			}
			mi, ok := x.mods[ev.target].(*wasm.ModuleInstance)
			if !ok {
				ev.Out = "skip"
				return
			}
			cctx, cancel := context.WithCancel(ctx)
			cancel()
			vsched.Yield("call-in-flight", nil)
			mi.VerifRunContextWatcher(cctx)
			vsched.Yield("call-unwinding", nil)
			ev.Out = errStr(mi.FailIfClosed())
		case "rtClose":
			ev.Out = errStr(rt.Close(ctx))
		case "rtCloseCode":
			ev.Out = errStr(rt.CloseWithExitCode(ctx, 5))
		case "compile":
			_, err := rt.CompileModule(ctx, otherBin)
			ev.Out = errStr(err)
		case "hostCompile":
			_, err := rt.NewHostModuleBuilder("hc").NewFunctionBuilder().WithFunc(func() {}).Export("f").Compile(ctx)
			ev.Out = errStr(err)
		default:
			fw.Fatalf("unknown op %q", o.K)
		}
	}
	var bodies []func()
	for ti, prog := range c.Scn.Threads {
		ti, prog := ti, prog
		bodies = append(bodies, func() {
			mine := -1
			for _, o := range prog {
				vsched.Yield("op-boundary", nil)
				ev := &event{Thread: ti, Op: o, modID: -1}
				ev.target = resolveRef(o.Ref, mine)
				x.clock++
				ev.Inv = x.clock
				x.events = append(x.events, ev)
				do(ev, &mine)
				x.clock++
				ev.Res = x.clock
			}
		})
	}
	x.sched = vsched.Run(prefix, bodies)
	if x.sched.Deadlock || x.sched.Diverged != "" {
		return x
	}
	// sequential audit, appended to the history
	audit := func(o Op, target int) {
		ev := &event{Thread: -1, Op: o, modID: -1, target: target}
		x.clock++
		ev.Inv = x.clock
		x.events = append(x.events, ev)
		mine := -1
		do(ev, &mine)
		x.clock++
		ev.Res = x.clock
	}
	seenName := map[string]bool{}
	for _, nm := range x.modName {
		if nm != "" && !seenName[nm] {
			seenName[nm] = true
			audit(Op{K: "lookup", Name: nm}, -1)
		}
	}
	for id := range x.mods {
		if x.mods[id] != nil {
			audit(Op{K: "isClosed", Ref: "#" + strconv.Itoa(id)}, id)
		}
	}
	audit(Op{K: "compile"}, -1)
	// final: close the runtime; every successfully instantiated module notified exactly once.
	func() {
		defer func() {
			if r := recover(); r != nil {
				x.final = append(x.final, "final Runtime.Close panicked: "+firstWords(fmt.Sprint(r)))
			}
		}()
		rt.Close(ctx)
	}()
	for id, ok := range x.instOK {
		n := *x.notified[id]
		if ok && n != 1 {
			x.final = append(x.final, fmt.Sprintf("notify-count=%d:module#%d(%q)", n, id, x.modName[id]))
		}
		if !ok && n > 1 {
			x.final = append(x.final, fmt.Sprintf("notify-count=%d:failed-instantiate#%d", n, id))
		}
		if a, f := *x.allocs[id], *x.frees[id]; ok && x.hasMem[id] && (a != 1 || f != 1) {
			x.final = append(x.final, fmt.Sprintf("memory-allocs=%d-frees=%d:module#%d(%q)", a, f, id, x.modName[id]))
		} else if !ok && f > a {
			x.final = append(x.final, fmt.Sprintf("memory-allocs=%d-frees=%d:failed-instantiate#%d", a, f, id))
		}
		if ok && !x.mods[id].IsClosed() {
			x.final = append(x.final, fmt.Sprintf("open-after-runtime-close:module#%d", id))
		}
	}
	// resolve lookups to module ids
	for _, ev := range x.events {
		if ev.Op.K != "lookup" {
			continue
		}
		if ev.raw == nil {
			ev.Out = "nil"
			continue
		}
		ev.Out = "mod:unknown"
		for id, m := range x.mods {
			if m != nil && (m == ev.raw) {
				ev.Out = "mod:" + strconv.Itoa(id)
			}
		}
		if ev.Out == "mod:unknown" {
			// a module seen by lookup whose instantiate has not returned it (failed later): map by in-flight ids is impossible; keep unknown
		}
	}
	_ = npre
	return x
}

func firstWords(s string) string {
	s = strings.ReplaceAll(s, "\n", " ")
	if len(s) > 80 {
		s = s[:80]
	}
	return s
}

// ---------------------------------------------------------------- sequential model + linearization search

type modelState struct {
	rtClosed bool
	names    map[string]int
	open     map[int]bool
	exists   map[int]bool
}

func (s *modelState) clone() *modelState {
	n := &modelState{rtClosed: s.rtClosed, names: map[string]int{}, open: map[int]bool{}, exists: map[int]bool{}}
	for k, v := range s.names {
		n.names[k] = v
	}
	for k, v := range s.open {
		n.open[k] = v
	}
	for k, v := range s.exists {
		n.exists[k] = v
	}
	return n
}

// step applies sub-step `part` of an event. In the atomic model every op has one part. In the
// relaxed model R1 ("closing window") a close has two parts: 0 = mark closed, 1 = unlink the name.
func (s *modelState) step(ev *event, part int, relax int) (string, bool) {
	o := ev.Op
	switch o.K {
	case "inst", "hostInst":
		if s.rtClosed {
			return "err", true
		}
		if o.Name != "" {
			if _, taken := s.names[o.Name]; taken {
				return "err", true
			}
			s.names[o.Name] = ev.modID
		}
		s.open[ev.modID] = true
		s.exists[ev.modID] = true
		return "ok", true
	case "lookup":
		if id, ok := s.names[o.Name]; ok {
			return "mod:" + strconv.Itoa(id), true
		}
		return "nil", true
	case "close", "closeCode":
		if ev.Out == "skip" {
			return "skip", true
		}
		id := ev.target
		unlink := func() {
			for k, v := range s.names {
				if v == id {
					delete(s.names, k)
				}
			}
		}
		if relax&1 == 0 {
			s.open[id] = false
			unlink()
			return "ok", true
		}
		// R1: the close that wins marks the module closed first and unlinks the name later; a close
		// that finds it already marked returns at once without touching the registry.
		if part == 0 {
			if !s.open[id] {
				return "ok", true
			}
			s.open[id] = false
			return "", false
		}
		unlink()
		return "ok", true
	case "isClosed":
		if ev.Out == "skip" {
			return "skip", true
		}
		return strconv.FormatBool(!s.open[ev.target]), true
	case "call":
		if ev.Out == "skip" {
			return "skip", true
		}
		if s.open[ev.target] {
			return "ok", true
		}
		return "err", true
	case "ctxCall", "asyncCtxCall": // closes the module atomically (like Close) and always fails
		if ev.Out == "skip" {
			return "skip", true
		}
		id := ev.target
		s.open[id] = false
		for k, v := range s.names {
			if v == id {
				delete(s.names, k)
			}
		}
		return "err", true
	case "rtClose", "rtCloseCode":
		closeAll := func() {
			for k := range s.open {
				s.open[k] = false
			}
			s.names = map[string]int{}
		}
		if relax&2 == 0 {
			s.rtClosed = true
			closeAll()
			return "ok", true
		}
		// R2: the runtime close that wins marks the runtime closed first and closes the modules later;
		// a runtime close that finds it already marked returns at once.
		if part == 0 {
			if s.rtClosed {
				return "ok", true
			}
			s.rtClosed = true
			return "", false
		}
		closeAll()
		return "ok", true
	case "compile", "hostCompile":
		if s.rtClosed {
			return "err", true
		}
		return "ok", true
	}
	return "?", true
}

func initialState(x *execution, npre int) *modelState {
	s := &modelState{names: map[string]int{}, open: map[int]bool{}, exists: map[int]bool{}}
	for id := 0; id < npre; id++ {
		s.open[id] = true
		s.exists[id] = true
		if x.modName[id] != "" {
			s.names[x.modName[id]] = id
		}
	}
	return s
}

// linearizable searches for a total order of (sub-steps of) events consistent with real time
// in which the model reproduces every observed result.
func linearizable(x *execution, npre int, relax int) bool {
	n := len(x.events)
	parts := make([]int, n) // next part to execute; done when == total
	total := make([]int, n)
	for i, ev := range x.events {
		total[i] = 1
		if relax&1 != 0 && (ev.Op.K == "close" || ev.Op.K == "closeCode") && ev.Out != "skip" {
			total[i] = 2
		}
		if relax&2 != 0 && (ev.Op.K == "rtClose" || ev.Op.K == "rtCloseCode") {
			total[i] = 2
		}
	}
	var rec func(s *modelState, remaining int) bool
	rec = func(s *modelState, remaining int) bool {
		if remaining == 0 {
			return true
		}
		// an event may take its next step if no unfinished event responded before it was invoked
		for i, ev := range x.events {
			if parts[i] == total[i] {
				continue
			}
			blocked := false
			for j, o := range x.events {
				if j != i && parts[j] < total[j] && o.Res < ev.Inv {
					blocked = true
					break
				}
			}
			if blocked {
				continue
			}
			ns := s.clone()
			out, final := ns.step(ev, parts[i], relax)
			if final && out != ev.Out {
				continue
			}
			saved := parts[i]
			adv := 1
			if final {
				adv = total[i] - parts[i] // an early-returning close consumes all its parts
			}
			parts[i] += adv
			if rec(ns, remaining-adv) {
				parts[i] = saved
				return true
			}
			parts[i] = saved
		}
		return false
	}
	rem := 0
	for _, t := range total {
		rem += t
	}
	return rec(initialState(x, npre), rem)
}

// ---------------------------------------------------------------- explorer (iterative preemption bounding)

type result struct {
	Schedules   int64            `json:"schedules"`
	Points      int64            `json:"points"`
	MaxPoints   int              `json:"max_points"`
	Outcomes    map[string]int64 `json:"outcomes"`
	Viol        []violation      `json:"viol"`
	Capped      bool             `json:"capped"`
	BoundDone   int              `json:"bound_done"`
	SampleTrace []string         `json:"sample_trace"`
}

type violation struct {
	Sig    string  `json:"sig"`
	What   string  `json:"what"`
	Prefix []int   `json:"prefix"`
	Hist   []event `json:"history"`
}

func histString(x *execution) string {
	var sb strings.Builder
	for _, ev := range x.events {
		fmt.Fprintf(&sb, "[t%d %s -> %s @%d-%d] ", ev.Thread, ev.Op, ev.Out, ev.Inv, ev.Res)
	}
	return sb.String()
}

func outcomeKey(x *execution) string {
	var sb strings.Builder
	for _, ev := range x.events {
		if ev.Thread >= 0 {
			fmt.Fprintf(&sb, "%d:%s=%s;", ev.Thread, ev.Op.K, ev.Out)
		}
	}
	return sb.String()
}

func classify(c Case, x *execution) (sig, what string) {
	npre := len(c.Scn.Pre)
	if x.sched.Diverged != "" {
		return "HARNESS:" + x.sched.Diverged, ""
	}
	if x.sched.Deadlock {
		return "deadlock", "no enabled thread while some have not finished"
	}
	if len(x.sched.Panics) > 0 {
		return "thread-panic:" + firstWords(x.sched.Panics[0]), x.sched.Panics[0]
	}
	for _, ev := range x.events {
		if strings.HasPrefix(ev.Out, "panic:") {
			after := ""
			for _, o := range x.events {
				if (o.Op.K == "rtClose" || o.Op.K == "rtCloseCode") && o.Inv < ev.Res {
					after = ":with-runtime-close"
				}
			}
			return "panic:" + ev.Op.K + after + ":" + panicClass(ev.Out), fmt.Sprintf("%s panicked: %s", ev.Op, ev.Out)
		}
	}
	if !linearizable(x, npre, 0) {
		if linearizable(x, npre, 1) {
			return "nonlinearizable:R1-closing-window", "history is not linearizable against the atomic registry model, but is if Module.Close may mark the module closed before it unlinks its name (a second Close returning at once)"
		}
		if linearizable(x, npre, 2) {
			return "nonlinearizable:R2-runtime-closing-window", "history is not linearizable against the atomic registry model, but is if Runtime.Close may mark the runtime closed before it closes the modules (a second Runtime.Close returning at once)"
		}
		if linearizable(x, npre, 3) {
			return "nonlinearizable:R1+R2-closing-windows", "history is linearizable only with both closing-window relaxations"
		}
		kinds := map[string]bool{}
		for _, ev := range x.events {
			if ev.Thread >= 0 {
				kinds[ev.Op.K] = true
			}
		}
		var ks []string
		for _, k := range []string{"inst", "hostInst", "lookup", "close", "closeCode", "isClosed", "rtClose", "rtCloseCode", "compile", "hostCompile"} {
			if kinds[k] {
				ks = append(ks, k)
			}
		}
		return "nonlinearizable:" + strings.Join(ks, "+"), "no linearization of the history matches the sequential registry model"
	}
	if len(x.final) > 0 {
		f := x.final[0]
		cls := f
		if i := strings.IndexByte(f, ':'); i > 0 {
			cls = f[:i]
		}
		withRt := ""
		for _, ev := range x.events {
			if ev.Op.K == "rtClose" || ev.Op.K == "rtCloseCode" {
				withRt = ":instantiate-vs-runtime-close"
			}
		}
		return "final:" + cls + withRt, strings.Join(x.final, "; ")
	}
	return "", ""
}

func panicClass(s string) string {
	switch {
	case strings.Contains(s, "nil map"):
		return "nil-map"
	case strings.Contains(s, "nil pointer"):
		return "nil-deref"
	case strings.Contains(s, "index out of range"):
		return "index"
	}
	return "other"
}

func exploreCase(c Case, deadline time.Time) *result {
	res := &result{Outcomes: map[string]int64{}, BoundDone: -1}
	seenSig := map[string]bool{}
	var explore func(prefix []int, bound int) bool
	explore = func(prefix []int, bound int) bool {
		if time.Now().After(deadline) {
			res.Capped = true
			return false
		}
		x := runOne(c, prefix)
		res.Schedules++
		pts := x.sched.Points
		res.Points += int64(len(pts))
		if len(pts) > res.MaxPoints {
			res.MaxPoints = len(pts)
		}
		if len(res.SampleTrace) == 0 {
			res.SampleTrace = []string{histString(x)}
		}
		sig, what := classify(c, x)
		if strings.HasPrefix(sig, "HARNESS:") {
			fw.Fatalf("%s (case %+v prefix %v)", sig, c, prefix)
		}
		if sig != "" {
			res.Outcomes["FAIL:"+sig]++
			if !seenSig[sig] {
				seenSig[sig] = true
				// determinism: the same schedule must fail identically when replayed
				full := make([]int, len(pts))
				for i, p := range pts {
					full[i] = p.Chosen
				}
				for k := 0; k < 2; k++ {
					y := runOne(c, full)
					s2, _ := classify(c, y)
					if s2 != sig || histString(y) != histString(x) {
						fw.Fatalf("non-deterministic replay: %q vs %q\n%s\n%s", sig, s2, histString(x), histString(y))
					}
				}
				var hist []event
				for _, ev := range x.events {
					hist = append(hist, *ev)
				}
				res.Viol = append(res.Viol, violation{Sig: sig, What: what + " | " + histString(x), Prefix: full, Hist: hist})
			}
		} else {
			res.Outcomes[outcomeKey(x)]++
		}
		// children: deviate at every later point
		cost := 0
		for i := 0; i < len(pts); i++ {
			p := pts[i]
			if i >= len(prefix) {
				for alt := 0; alt < p.N; alt++ {
					if alt == p.Chosen {
						continue
					}
					cst := cost
					if p.RunningEnabled && alt != 0 {
						cst++
					}
					if cst > bound {
						continue
					}
					np := make([]int, i+1)
					for k := 0; k < i; k++ {
						np[k] = pts[k].Chosen
					}
					np[i] = alt
					if !explore(np, bound) {
						return false
					}
				}
			}
			if p.RunningEnabled && p.Chosen != 0 {
				cost++
			}
		}
		return true
	}
	// Iterative bounding: a complete pass at bound b covers all schedules with <= b preemptions.
	// (Passes are independent; we run only the final bound since it subsumes the lower ones, but
	// report it as the completed bound.)
	if explore(nil, c.Bound) {
		res.BoundDone = c.Bound
	}
	return res
}

// ---------------------------------------------------------------- scenarios

func buildCases(run *fw.Run) []Case {
	var cases []Case
	bound := 3
	scns := scenarios(run.Thorough())
	for _, eng := range []string{"interpreter", "compiler"} {
		for _, s := range scns {
			b := bound
			if run.Thorough() && !strings.HasPrefix(s.Label, "gen") {
				b = 4
			}
			cases = append(cases, Case{Scn: s, Engine: eng, Bound: b})
			// close-time I/O fault variant for the scenarios in which something is closed
			closes := len(s.Pre) > 0
			for _, th := range s.Threads {
				for _, o := range th {
					if o.K == "close" || o.K == "closeCode" || o.K == "rtClose" || o.K == "rtCloseCode" || o.K == "ctxCall" || o.K == "asyncCtxCall" {
						closes = true
					}
				}
			}
			if closes && !strings.HasPrefix(s.Label, "gen") {
				cases = append(cases, Case{Scn: s, Engine: eng, Bound: b, Fault: "fsclose"})
			}
			// shrinking-registry variant for the scenarios with at least two names and a close
			names := map[string]bool{}
			for _, n := range s.Pre {
				names[n] = true
			}
			for _, th := range s.Threads {
				for _, o := range th {
					if (o.K == "inst" || o.K == "hostInst") && o.Name != "" {
						names[o.Name] = true
					}
				}
			}
			if closes && len(names) >= 2 && !strings.HasPrefix(s.Label, "gen") {
				sv := s
				sv.Label += "#shrink1"
				cases = append(cases, Case{Scn: sv, Engine: eng, Bound: b, Shrink: 1})
			}
		}
	}
	return cases
}

func main() {
	if len(os.Args) > 2 && os.Args[1] == "replay" {
		replay(os.Args[2])
		return
	}
	run := fw.Start("C10", "model_checking")
	cases := buildCases(run)
	if fw.IsChild() {
		deadline := time.Unix(0, mustInt64(os.Getenv("VERIF_C10_DEADLINE")))
		fw.ChildLoop(func(i int) string {
			r := exploreCase(cases[i], deadline)
			b, _ := json.Marshal(r)
			return string(b)
		})
		return
	}
	outcomes := fw.NewCounter()
	samples := fw.NewSampler(10)
	var schedules, points int64
	distinct := map[string]bool{}
	perCase := map[string]any{}
	allBoundsDone := true
	maxPts := 0
	fw.Supervise(fw.SupOpts{N: len(cases), Workers: 16, CaseTimeout: 50 * time.Minute,
		Env:  []string{"VERIF_C10_DEADLINE=" + strconv.FormatInt(run.Deadline.UnixNano(), 10), "GOMAXPROCS=2"},
		Stop: run.Expired,
	}, func(i int, res string, crash *fw.Crash) {
		c := cases[i]
		if crash != nil {
			run.Violation("process-"+crash.Kind+":"+c.Scn.Label, fmt.Sprintf("scenario %s on %s: worker %s: %s", c.Scn.Label, c.Engine, crash.Kind, fw.FirstLines(crash.Stderr, 4)),
				map[string]any{"case": c})
			return
		}
		var r result
		if err := json.Unmarshal([]byte(res), &r); err != nil {
			fw.Fatalf("bad child result: %v", err)
		}
		schedules += r.Schedules
		points += r.Points
		if r.MaxPoints > maxPts {
			maxPts = r.MaxPoints
		}
		if r.Capped || r.BoundDone < c.Bound {
			allBoundsDone = false
			run.Capped("budget: scenario " + c.Scn.Label + "/" + c.Engine + " not completed at bound " + strconv.Itoa(c.Bound))
		}
		nOut := 0
		for k, v := range r.Outcomes {
			distinct[c.Engine+"/"+c.Scn.Label+"/"+k] = true
			if strings.HasPrefix(k, "FAIL:") {
				outcomes.AddN(k, v)
			} else {
				outcomes.AddN("linearizable", v)
				outcomes.AddN("linearizable-result-vector:"+k, v) // which per-thread results occurred (vacuity guard: many must)
				nOut++
			}
		}
		perCase[c.Engine+"/"+c.Scn.Label] = map[string]any{"schedules": r.Schedules, "distinct_outcomes": len(r.Outcomes), "bound": r.BoundDone}
		samples.Add(map[string]any{"scenario": c.Scn.Label, "engine": c.Engine, "bound": c.Bound, "schedules": r.Schedules, "one_history": r.SampleTrace})
		for _, v := range r.Viol {
			run.Violation(v.Sig, fmt.Sprintf("[%s/%s] %s", c.Engine, c.Scn.Label, v.What), map[string]any{"case": c, "schedule": v.Prefix, "history": v.Hist})
		}
	})
	racePass := runRacePass(run)
	if run.Expired() {
		run.Capped("budget")
	}
	if !allBoundsDone {
		run.Note("some scenarios did not complete their preemption bound within the budget")
	}
	run.Finish(fw.Coverage{
		Evaluations: schedules, DistinctNontriv: int64(len(distinct)), States: points + schedules, Transitions: points, TracesValidated: schedules,
		Rule:    "one evaluation = one complete schedule of a scenario executed on the real wazero.Runtime under the cooperative scheduler; schedules are enumerated by DFS over choice sequences with the stated preemption bound; distinct_nontrivial = distinct (scenario, engine, per-thread result vector) outcomes observed; states = scheduling decisions visited + terminal states, transitions = scheduling decisions with >1 enabled thread",
		Samples: samples.List(), Exhaustive: true, Outcomes: outcomes.Map(),
		Bounds: map[string]any{"scenarios": len(cases) / 2, "engines": 2, "preemption_bound": cases[0].Bound, "max_choice_points_in_one_schedule": maxPts},
		Extra:  map[string]any{"per_scenario": perCase, "race_pass_secondary_monitor": racePass},
	}, []string{
		"scheduling points are the sync/atomic operations of runtime.go, cache.go, internal/wasm/{store,table,module}.go, wazevo/engine.go, interpreter/interpreter.go (before acquire/CAS/load, after release) plus operation boundaries; plain unsynchronised accesses between them are atomic for the explorer and are looked for by the separate free-running -race pass (scripts/race.sh c10)",
		"sequential consistency is assumed for the hooked atomics (Go's memory model gives this for sync/atomic)",
		"linearizability is decided by exhaustive search over all real-time-consistent orders of the <=6 operations plus the sequential audit",
	})
}

func mustInt64(s string) int64 {
	v, _ := strconv.ParseInt(s, 10, 64)
	return v
}

func replay(path string) {
	b, err := os.ReadFile(path)
	if err != nil {
		fw.Fatalf("%v", err)
	}
	var doc struct {
		Replay struct {
			Case     Case  `json:"case"`
			Schedule []int `json:"schedule"`
		} `json:"replay"`
	}
	if err := json.Unmarshal(b, &doc); err != nil {
		fw.Fatalf("%v", err)
	}
	x := runOne(doc.Replay.Case, doc.Replay.Schedule)
	sig, what := classify(doc.Replay.Case, x)
	fmt.Println("history:", histString(x))
	for i, p := range x.sched.Points {
		fmt.Printf("  point %d: %d enabled, chose #%d (thread %d) at %s\n", i, p.N, p.Chosen, p.Thread, p.What)
	}
	if sig != "" {
		fmt.Printf("FAILS: %s: %s\n", sig, what)
		os.Exit(1)
	}
	fmt.Println("passes")
}

// runRacePass runs the free-running -race variant (built by scripts/check.sh without the shim) and
// summarises the distinct data races the detector reported. Secondary monitor: it never affects the
// verdict, because a free-running detector is a sampler, not an exhaustive explorer.
func runRacePass(run *fw.Run) map[string]any {
	bin := os.Getenv("VERIF_RACE_BIN")
	if bin == "" {
		return map[string]any{"ran": false, "why": "no -race binary"}
	}
	dir, err := os.MkdirTemp("", "c10race")
	if err != nil {
		return map[string]any{"ran": false, "why": err.Error()}
	}
	defer os.RemoveAll(dir)
	iters := "40"
	if run.Thorough() {
		iters = "400"
	}
	cmd := exec.Command(bin, iters)
	cmd.Env = append(os.Environ(), "GORACE=log_path="+dir+"/race exitcode=0 halt_on_error=0")
	out, err := cmd.CombinedOutput()
	res := map[string]any{"ran": true, "summary": strings.TrimSpace(lastLine(string(out)))}
	if err != nil {
		res["error"] = err.Error() + ": " + firstWords(string(out))
	}
	// distinct races keyed by the first wazero frame of each of the two accesses
	distinct := map[string]int{}
	files, _ := filepath.Glob(dir + "/race*")
	for _, f := range files {
		b, _ := os.ReadFile(f)
		for _, rep := range strings.Split(string(b), "WARNING: DATA RACE")[1:] {
			var frames []string
			for _, blk := range strings.SplitN(rep, "\n\n", 3) {
				for _, ln := range strings.Split(blk, "\n") {
					t := strings.TrimSpace(ln)
					if strings.HasPrefix(t, "github.com/tetratelabs/wazero") && !strings.Contains(t, "/verif/") {
						frames = append(frames, strings.TrimPrefix(t, "github.com/tetratelabs/wazero"))
						break
					}
				}
				if len(frames) == 2 {
					break
				}
			}
			sort.Strings(frames)
			distinct[strings.Join(frames, " <-> ")]++
		}
	}
	res["distinct_races"] = distinct
	return res
}

func lastLine(s string) string {
	ls := strings.Split(strings.TrimSpace(s), "\n")
	return ls[len(ls)-1]
}
