// Free-running -race pass for C10 (secondary monitor, not a verdict): the same scenarios as the
// schedule explorer, executed by real goroutines under the Go race detector. The cooperative
// scheduler's hand-offs are happens-before edges that would blind the detector, which is why this
// is a separate binary built WITHOUT the sync shim. It reports the distinct races the detector
// saw (GORACE log) and how many scenario iterations ran.
package main

import (
	"context"
	"fmt"
	"os"
	"strconv"
	"sync"

	"github.com/tetratelabs/wazero"
	"github.com/tetratelabs/wazero/api"
	"github.com/tetratelabs/wazero/experimental"
	"github.com/tetratelabs/wazero/verif/checks/c10/lib"
	"github.com/tetratelabs/wazero/verif/wb"
)

type notifier struct{}

func (notifier) CloseNotify(ctx context.Context, exitCode uint32) {}

var emptyBin = (&wb.Module{}).Encode()
var otherBin = func() []byte {
	m := &wb.Module{}
	m.ExportFunc("f", m.AddFunc(nil, []byte{wb.I32}, nil, (&wb.Asm{}).I32Const(1).B))
	return m.Encode()
}()

var fnBin = func() []byte {
	m := &wb.Module{Mem: &wb.Limits{Min: 1, Max: 2, HasMax: true}}
	m.ExportFunc("f", m.AddFunc(nil, nil, nil, (&wb.Asm{}).B))
	return m.Encode()
}()

func runScenario(s lib.Scenario, engine string) {
	ctx := experimental.WithCloseNotifier(context.Background(), notifier{})
	var cfg wazero.RuntimeConfig
	if engine == "compiler" {
		cfg = wazero.NewRuntimeConfigCompiler()
	} else {
		cfg = wazero.NewRuntimeConfigInterpreter()
	}
	bin := emptyBin
	for _, th := range s.Threads {
		for _, o := range th {
			if o.K == "ctxCall" || o.K == "call" {
				cfg = cfg.WithCloseOnContextDone(true)
				bin = fnBin
			}
		}
	}
	rt := wazero.NewRuntimeWithConfig(ctx, cfg)
	compiled, err := rt.CompileModule(ctx, bin)
	if err != nil {
		panic(err)
	}
	var pre []api.Module
	for _, nm := range s.Pre {
		m, err := rt.InstantiateModule(ctx, compiled, wazero.NewModuleConfig().WithName(nm))
		if err != nil {
			panic(err)
		}
		pre = append(pre, m)
	}
	var wg sync.WaitGroup
	start := make(chan struct{})
	for _, prog := range s.Threads {
		prog := prog
		wg.Add(1)
		go func() {
			defer wg.Done()
			defer func() { recover() }()
			<-start
			var mine api.Module
			ref := func(r string) api.Module {
				switch r {
				case "M0":
					return pre[0]
				case "M1":
					return pre[1]
				}
				return mine
			}
			for _, o := range prog {
				switch o.K {
				case "inst":
					if m, err := rt.InstantiateModule(ctx, compiled, wazero.NewModuleConfig().WithName(o.Name)); err == nil {
						mine = m
					}
				case "hostInst":
					if m, err := rt.NewHostModuleBuilder(o.Name).NewFunctionBuilder().WithFunc(func() {}).Export("f").Instantiate(ctx); err == nil {
						mine = m
					}
				case "lookup":
					_ = rt.Module(o.Name)
				case "close":
					if m := ref(o.Ref); m != nil {
						m.Close(ctx)
					}
				case "closeCode":
					if m := ref(o.Ref); m != nil {
						m.CloseWithExitCode(ctx, 3)
					}
				case "isClosed":
					if m := ref(o.Ref); m != nil {
						_ = m.IsClosed()
					}
				case "ctxCall", "call":
					if m := ref(o.Ref); m != nil {
						cctx := ctx
						if o.K == "ctxCall" {
							var cancel context.CancelFunc
							cctx, cancel = context.WithCancel(ctx)
							cancel()
						}
						if f := m.ExportedFunction("f"); f != nil {
							f.Call(cctx)
						}
					}
				case "rtClose":
					rt.Close(ctx)
				case "rtCloseCode":
					rt.CloseWithExitCode(ctx, 5)
				case "compile":
					rt.CompileModule(ctx, otherBin)
				case "hostCompile":
					rt.NewHostModuleBuilder("hc").NewFunctionBuilder().WithFunc(func() {}).Export("f").Compile(ctx)
				}
			}
		}()
	}
	close(start)
	wg.Wait()
	rt.Close(ctx)
}

func main() {
	iters := 100
	if len(os.Args) > 1 {
		iters, _ = strconv.Atoi(os.Args[1])
	}
	engines := []string{"interpreter", "compiler"}
	scns := lib.Scenarios(false)
	n := 0
	for _, e := range engines {
		for _, s := range scns {
			for i := 0; i < iters; i++ {
				runScenario(s, e)
				n++
			}
		}
	}
	fmt.Printf("RACEPASS scenarios=%d engines=%d iterations_each=%d executions=%d\n", len(scns), len(engines), iters, n)
}
