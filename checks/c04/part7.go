package main

// Part 7 — two small exhaustive scenario matrices (per engine), added after a code-reading report:
//
// (a) element-segment ITEMS that are `global.get <imported funcref global>`: with an immutable global the item is the
//     global's value; with a MUTABLE global the module is invalid (constant expression) and must be rejected — and if
//     it is accepted the value captured must at least be the global's value at instantiation. Matrix: global
//     {immutable, mutable} x segment {active, passive + table.init in start} x {global mutated before the instantiation, not}.
// (b) host-side table lookup (experimental/table.LookupFunction) of slots that hold IMPORTED functions: an importer puts
//     its function imports and an own function into its own table and into the exporter's shared table; looking up and
//     calling every slot through either module must reach the same function as the guest's call_indirect.

import (
	"bytes"
	"fmt"

	"github.com/tetratelabs/wazero"
	"github.com/tetratelabs/wazero/api"
	"github.com/tetratelabs/wazero/experimental/table"
	"github.com/tetratelabs/wazero/verif/wb"
)

type p7Viol struct {
	Sig    string `json:"sig"`
	What   string `json:"what"`
	Engine string `json:"engine"`
}

func buildP7Owner() []byte {
	o := &wb.Module{}
	fa := o.AddFunc(nil, tI32, nil, (&wb.Asm{}).I32Const(1).B)
	fb := o.AddFunc(nil, tI32, nil, (&wb.Asm{}).I32Const(2).B)
	fc := o.AddFunc(nil, tI32, nil, (&wb.Asm{}).I32Const(3).B)
	o.ExportFunc("fa", fa)
	o.ExportFunc("fb", fb)
	o.ExportFunc("fc", fc)
	rc := o.AddGlobal(wb.FuncRef, false, wb.CRefFunc(fa))
	rm := o.AddGlobal(wb.FuncRef, true, wb.CRefFunc(fa))
	o.Tables = []wb.Table{{Elem: wb.FuncRef, Lim: wb.Limits{Min: 6}}}
	o.Exports = append(o.Exports, wb.Export{Name: "rc", Kind: wb.KindGlobal, Idx: rc}, wb.Export{Name: "rm", Kind: wb.KindGlobal, Idx: rm}, wb.Export{Name: "tab", Kind: wb.KindTable})
	o.ExportFunc("rset_fb", o.AddFunc(nil, nil, nil, (&wb.Asm{}).RefFunc(fb).GlobalSet(rm).B))
	ty := o.Type(nil, tI32)
	o.ExportFunc("tcall", o.AddFunc(tI32, tI32, nil, (&wb.Asm{}).LocalGet(0).CallIndirect(ty, 0).B))
	return o.Encode()
}

// buildP7Item: module whose element segment item is `global.get 0` (imported funcref global), written to slot 0 of
// the imported table. wb cannot encode global.get items: the item is emitted as `ref.func 0` and patched.
func buildP7Item(global string, mutable, passive bool) []byte {
	k := &wb.Module{}
	k.Imports = []wb.Import{
		{Module: "O7", Name: "tab", Kind: wb.KindTable, Table: wb.Table{Elem: wb.FuncRef, Lim: wb.Limits{Min: 6}}},
		{Module: "O7", Name: global, Kind: wb.KindGlobal, GlobalType: wb.FuncRef, GlobalMut: mutable}}
	if passive {
		s := k.AddFunc(nil, nil, nil, (&wb.Asm{}).I32Const(0).I32Const(0).I32Const(1).TableInit(0, 0).B)
		k.Start = &s
		k.Elems = []wb.Elem{{Mode: 1, Funcs: []uint32{0}, UseExprs: true}}
	} else {
		k.AddFunc(nil, nil, nil, nil)
		k.Elems = []wb.Elem{{Offset: wb.CI32(0), Funcs: []uint32{0}, UseExprs: true}}
	}
	bin := k.Encode()
	i := bytes.Index(bin, []byte{0xd2, 0x00, 0x0b})
	if i < 0 {
		panic("harness: element item not found")
	}
	bin[i] = 0x23 // ref.func 0 -> global.get 0
	return bin
}

func p7Call(f api.Function, args ...uint64) (out string) {
	defer func() {
		if r := recover(); r != nil {
			out = fmt.Sprintf("panic: %v", r)
		}
	}()
	res, err := f.Call(bg, args...)
	if err != nil {
		return canonErr(err)
	}
	if len(res) == 0 {
		return "ok"
	}
	return "ok:" + u(res[0])
}

func runP7(engine string) (outcomes map[string]int64, evals int64, vs []p7Viol) {
	outcomes = map[string]int64{}
	report := func(sig, what string) {
		vs = append(vs, p7Viol{Sig: sig, What: "[" + engine + "] " + what, Engine: engine})
	}
	rt := wazero.NewRuntimeWithConfig(bg, runtimeConfig(engine))
	defer rt.Close(bg)
	ownerCM, err := rt.CompileModule(bg, buildP7Owner())
	if err != nil {
		report("p7:setup", "owner: "+err.Error())
		return
	}
	// ---- (a) element items
	for _, mutable := range []bool{false, true} {
		for _, passive := range []bool{false, true} {
			for _, mutated := range []bool{false, true} {
				evals++
				O, err := rt.InstantiateModule(bg, ownerCM, modCfg.WithName("O7"))
				if err != nil {
					report("p7:setup", "owner: "+err.Error())
					return
				}
				if mutated {
					O.ExportedFunction("rset_fb").Call(bg) // changes rm only; rc is immutable
				}
				global, current := "rc", "ok:1"
				if mutable {
					global = "rm"
					if mutated {
						current = "ok:2"
					}
				}
				desc := fmt.Sprintf("element segment (passive=%v) with item (global.get <imported %s funcref global>), global mutated before instantiation=%v", passive, map[bool]string{false: "immutable", true: "MUTABLE"}[mutable], mutated)
				cm, cerr := rt.CompileModule(bg, buildP7Item(global, mutable, passive))
				switch {
				case mutable && cerr != nil:
					outcomes["p7:item:mutable-global-rejected"]++
				case !mutable && cerr != nil:
					outcomes["p7:item:valid-module-rejected"]++
					report("p7:element-item:valid-module-rejected", desc+": "+cerr.Error())
				default:
					if mutable {
						outcomes["p7:item:mutable-global-accepted"]++
						report("constexpr:mutable-global-accepted:element-item", desc+": the module is invalid per spec (constant expressions may only read immutable globals) but compiles")
					}
					K, ierr := rt.InstantiateModule(bg, cm, modCfg.WithName(""))
					if ierr != nil {
						report("p7:element-item:instantiation-failed", desc+": "+ierr.Error())
					} else {
						got := p7Call(O.ExportedFunction("tcall"), 0)
						if got != current {
							sig := "p7:element-item:wrong-value-from-immutable-global"
							if mutable {
								sig = "constexpr:mutable-global-stale-capture:element-item"
							}
							report(sig, fmt.Sprintf("%s: table[0] calls %s, the global's value at instantiation gives %s", desc, got, current))
						} else if !mutable {
							outcomes["p7:item:immutable-global-captured"]++
						}
						K.Close(bg)
					}
					cm.Close(bg)
				}
				O.Close(bg)
			}
		}
	}
	// ---- (b) LookupFunction on slots holding imported functions
	O, err := rt.InstantiateModule(bg, ownerCM, modCfg.WithName("O7"))
	if err != nil {
		report("p7:setup", "owner: "+err.Error())
		return
	}
	defer O.Close(bg)
	l := &wb.Module{}
	ifa := l.ImportFunc("O7", "fa", nil, tI32)
	ifb := l.ImportFunc("O7", "fb", nil, tI32)
	ifc := l.ImportFunc("O7", "fc", nil, tI32)
	l.Imports = append(l.Imports, wb.Import{Module: "O7", Name: "tab", Kind: wb.KindTable, Table: wb.Table{Elem: wb.FuncRef, Lim: wb.Limits{Min: 6}}})
	own := l.AddFunc(nil, tI32, nil, (&wb.Asm{}).I32Const(7).B)
	l.Tables = []wb.Table{{Elem: wb.FuncRef, Lim: wb.Limits{Min: 4}}}
	slots := []uint32{ifc, ifb, own, ifa}
	want := []string{"ok:3", "ok:2", "ok:7", "ok:1"}
	l.Elems = []wb.Elem{{TableIdx: 0, Offset: wb.CI32(1), Funcs: slots}, {TableIdx: 1, Offset: wb.CI32(0), Funcs: slots}}
	ty := l.Type(nil, tI32)
	l.ExportFunc("tcall1", l.AddFunc(tI32, tI32, nil, (&wb.Asm{}).LocalGet(0).CallIndirect(ty, 1).B))
	L, err := rt.InstantiateWithConfig(bg, l.Encode(), modCfg.WithName("L7"))
	if err != nil {
		report("p7:setup", "importer: "+err.Error())
		return
	}
	defer L.Close(bg)
	lookup := func(mod api.Module, tbl, slot uint32) (out string) {
		defer func() {
			if r := recover(); r != nil {
				out = fmt.Sprintf("panic: %v", r)
			}
		}()
		return p7Call(table.LookupFunction(mod, tbl, slot, nil, []api.ValueType{api.ValueTypeI32}))
	}
	for i, w := range want {
		kind := "imported"
		if slots[i] == own {
			kind = "own"
		}
		for _, v := range []struct {
			label, got string
		}{
			{"guest call_indirect in L on its own table", p7Call(L.ExportedFunction("tcall1"), uint64(i))},
			{"guest call_indirect in O on the shared table", p7Call(O.ExportedFunction("tcall"), uint64(i+1))},
			{"table.LookupFunction(L, own table)", lookup(L, 1, uint32(i))},
			{"table.LookupFunction(L, shared table)", lookup(L, 0, uint32(i+1))},
			{"table.LookupFunction(O, shared table)", lookup(O, 0, uint32(i+1))},
		} {
			evals++
			if v.got == w {
				outcomes["p7:lookup:"+kind+"-function-slot:ok"]++
				continue
			}
			outcomes["p7:lookup:"+kind+"-function-slot:wrong"]++
			sig := "p7:call_indirect:" + kind + "-function-slot:wrong-function"
			if v.label[0] == 't' {
				sig = "lookupfunction:slot-holds-" + kind + "-function:wrong-function"
			}
			report(sig, fmt.Sprintf("%s, slot holding L's %s function (import index %d of 3): call returns %s, the function in the slot returns %s", v.label, kind, slots[i], v.got, w))
		}
	}
	return
}
