package main

// Part 9 — two families added after a probing report on the unchanged tree:
//
// (a) a FAILED instantiation whose element segment already wrote the module's own functions into an imported table:
//     per spec the module instance was allocated (globals initialised, memory/table addresses bound) before the segments
//     are applied, so those functions stay callable and must see their instance's globals, memories, tables and
//     functions. Matrix: failure {out-of-bounds data segment after the element segment, trap in start} x what the
//     function reads {own global, imported global, own memory byte, own memory size, imported memory byte, imported table
//     size, own function reading a global, imported function} x engine. One supervised case per cell (a function running
//     without module context may fault).
// (b) ALIASED imports: B imports A's mutable global g three ways (twice directly, once through I2's re-export), the
//     v128 global v twice, and A's table twice. All words of depth 3 over {set through alias i, read through alias j in
//     one function; grow/set the table through one alias, read through the other; A sets}. One shared object: every
//     read through any alias equals the model.

import (
	"fmt"

	"github.com/tetratelabs/wazero"
	"github.com/tetratelabs/wazero/api"
	"github.com/tetratelabs/wazero/verif/wb"
)

// ---------------------------------------------------------------- (a) failed instantiation

var p9FailKinds = []string{"oob-data", "start-trap"}
var p9FnKinds = []string{"own-global", "imported-global", "own-memory-load", "own-memory-size", "imported-memory-load", "imported-table-size", "call-own-function", "call-imported-function"}

var p9Want = map[string]uint64{"own-global": 42, "imported-global": 1, "own-memory-load": 0xB8, "own-memory-size": 1,
	"imported-memory-load": 0xA8, "imported-table-size": 4, "call-own-function": 42, "call-imported-function": 1}

func buildP9A() []byte {
	a := &wb.Module{}
	a.Mem = &wb.Limits{Min: 1}
	a.Tables = []wb.Table{{Elem: wb.FuncRef, Lim: wb.Limits{Min: 4, Max: 8, HasMax: true}}}
	g := a.AddGlobal(wb.I32, true, wb.CI32(1))
	v := a.AddGlobal(wb.V128, true, wb.CV128(1, 2))
	ty := a.Type(nil, tI32)
	a.Exports = append(a.Exports, wb.Export{Name: "mem", Kind: wb.KindMemory}, wb.Export{Name: "tab", Kind: wb.KindTable},
		wb.Export{Name: "g", Kind: wb.KindGlobal, Idx: g}, wb.Export{Name: "v", Kind: wb.KindGlobal, Idx: v})
	a.Datas = []wb.Data{{Offset: wb.CI32(8), Bytes: []byte{0xA8}}}
	a.ExportFunc("tcall", a.AddFunc(tI32, tI32, nil, (&wb.Asm{}).LocalGet(0).CallIndirect(ty, 0).B))
	a.ExportFunc("gget", a.AddFunc(nil, tI32, nil, (&wb.Asm{}).GlobalGet(g).B))
	a.ExportFunc("gset", a.AddFunc(tI32, nil, nil, (&wb.Asm{}).LocalGet(0).GlobalSet(g).B))
	a.ExportFunc("vset", a.AddFunc(tI64, nil, nil, (&wb.Asm{}).LocalGet(0).Simd(0x12).GlobalSet(v).B))
	a.ExportFunc("vget", a.AddFunc(nil, tI64, nil, (&wb.Asm{}).GlobalGet(v).Simd(0x1d).Op(1).B))
	a.ExportFunc("tsize", a.AddFunc(nil, tI32, nil, (&wb.Asm{}).TableSize(0).B))
	a.ExportFunc("tnull", a.AddFunc(tI32, tI32, nil, (&wb.Asm{}).LocalGet(0).TableGet(0).RefIsNull().B))
	return a.Encode()
}

// buildP9B: module whose element segment puts function `fn` into A's table slot 0 and whose instantiation then fails.
func buildP9B(fail, fn string) []byte {
	b := &wb.Module{}
	gget := b.ImportFunc("A", "gget", nil, tI32)
	b.Imports = append(b.Imports,
		wb.Import{Module: "A", Name: "tab", Kind: wb.KindTable, Table: wb.Table{Elem: wb.FuncRef, Lim: wb.Limits{Min: 4}}},
		wb.Import{Module: "A", Name: "g", Kind: wb.KindGlobal, GlobalType: wb.I32, GlobalMut: true})
	ownMem := fn == "own-memory-load" || fn == "own-memory-size"
	if ownMem {
		b.Mem = &wb.Limits{Min: 1}
	} else {
		b.Imports = append(b.Imports, wb.Import{Module: "A", Name: "mem", Kind: wb.KindMemory, Mem: wb.Limits{Min: 1}})
	}
	own := b.AddGlobal(wb.I32, true, wb.CI32(42))
	helper := b.AddFunc(nil, tI32, nil, (&wb.Asm{}).GlobalGet(own).B)
	var body *wb.Asm
	switch fn {
	case "own-global":
		body = (&wb.Asm{}).GlobalGet(own)
	case "imported-global":
		body = (&wb.Asm{}).GlobalGet(0)
	case "own-memory-load", "imported-memory-load":
		body = (&wb.Asm{}).I32Const(8).Mem(0x2d, 0, 0)
	case "own-memory-size":
		body = (&wb.Asm{}).MemorySize()
	case "imported-table-size":
		body = (&wb.Asm{}).TableSize(0)
	case "call-own-function":
		body = (&wb.Asm{}).Call(helper)
	case "call-imported-function":
		body = (&wb.Asm{}).Call(gget)
	}
	f := b.AddFunc(nil, tI32, nil, body.B)
	b.Elems = []wb.Elem{{Offset: wb.CI32(0), Funcs: []uint32{f}}}
	if ownMem {
		b.Datas = []wb.Data{{Offset: wb.CI32(8), Bytes: []byte{0xB8}}}
	}
	if fail == "oob-data" {
		b.Datas = append(b.Datas, wb.Data{Offset: wb.CI32(65536), Bytes: []byte{1}})
	} else {
		s := b.AddFunc(nil, nil, nil, (&wb.Asm{}).Unreachable().B)
		b.Start = &s
	}
	return b.Encode()
}

type p9aCase struct {
	Engine, Fail, Fn string
}

func p9aCases() (cs []p9aCase) {
	for _, en := range engineNames {
		for _, f := range p9FailKinds {
			for _, fn := range p9FnKinds {
				cs = append(cs, p9aCase{en, f, fn})
			}
		}
	}
	return
}

func runP9a(c p9aCase) (outcome string, v *p7Viol) {
	rt := wazero.NewRuntimeWithConfig(bg, runtimeConfig(c.Engine))
	defer rt.Close(bg)
	A, err := rt.InstantiateWithConfig(bg, buildP9A(), modCfg.WithName("A"))
	if err != nil {
		return "setup-failed", &p7Viol{Sig: "p9:setup", What: err.Error(), Engine: c.Engine}
	}
	cm, err := rt.CompileModule(bg, buildP9B(c.Fail, c.Fn))
	if err != nil {
		return "setup-failed", &p7Viol{Sig: "p9:setup", What: err.Error(), Engine: c.Engine}
	}
	_, err = rt.InstantiateModule(bg, cm, modCfg.WithName("B"))
	wantErr := map[string]string{"oob-data": "fail:oob-data", "start-trap": "fail:start-trap"}[c.Fail]
	if got := canonInstErr(err); got != wantErr {
		return "wrong-instantiation-outcome", &p7Viol{Sig: "p9:failed-instantiation(" + c.Fail + "):outcome:" + sigVal(got), Engine: c.Engine,
			What: fmt.Sprintf("[%s] instantiation must fail with %s, got %s", c.Engine, wantErr, got)}
	}
	got := p7Call(A.ExportedFunction("tcall"), 0)
	want := "ok:" + u(p9Want[c.Fn])
	if got != want {
		return "function-of-failed-instance-wrong", &p7Viol{Sig: "p9:failed-instantiation(" + c.Fail + "):function-reads-" + c.Fn + ":" + sigVal(got) + "/spec:" + sigVal(want), Engine: c.Engine,
			What: fmt.Sprintf("[%s] B's element segment wrote B's function into A's table, then B's instantiation failed (%s); A.call_indirect of that function (it reads: %s) returns %s, must be %s — the instance's globals/memory/table bindings exist before segments are applied", c.Engine, c.Fail, c.Fn, got, want)}
	}
	return "function-of-failed-instance-ok", nil
}

// ---------------------------------------------------------------- (b) aliased imports

func buildP9I2() []byte { // re-exports A.g
	m := &wb.Module{}
	m.Imports = []wb.Import{{Module: "A", Name: "g", Kind: wb.KindGlobal, GlobalType: wb.I32, GlobalMut: true}}
	m.Exports = []wb.Export{{Name: "g", Kind: wb.KindGlobal, Idx: 0}}
	return m.Encode()
}

const (
	p9NG = 3 // aliases of g in B: A.g, A.g, I2.g      (global indexes 0,1,2)
	p9NV = 2 // aliases of v in B: A.v, A.v            (global indexes 3,4)
)

func buildP9Alias() []byte {
	b := &wb.Module{}
	gi := func(mod, name string, t byte) wb.Import {
		return wb.Import{Module: mod, Name: name, Kind: wb.KindGlobal, GlobalType: t, GlobalMut: true}
	}
	ti := wb.Import{Module: "A", Name: "tab", Kind: wb.KindTable, Table: wb.Table{Elem: wb.FuncRef, Lim: wb.Limits{Min: 4, Max: 8, HasMax: true}}}
	b.Imports = []wb.Import{gi("A", "g", wb.I32), gi("A", "g", wb.I32), gi("I2", "g", wb.I32), gi("A", "v", wb.V128), gi("A", "v", wb.V128), ti, ti}
	id := b.AddFunc(nil, tI32, nil, (&wb.Asm{}).I32Const(55).B)
	b.ExportFunc("id", id)
	for i := uint32(0); i < p9NG; i++ {
		for j := uint32(0); j < p9NG; j++ {
			if i == j {
				continue
			}
			// g_i_j(x): (read j)<<16 | (read j after set i := x)
			b.ExportFunc(fmt.Sprintf("g_%d_%d", i, j), b.AddFunc(tI32, tI32, nil,
				(&wb.Asm{}).GlobalGet(j).I32Const(16).Op(0x74).LocalGet(0).GlobalSet(i).GlobalGet(j).Op(0x72).B))
		}
	}
	for i := uint32(0); i < p9NV; i++ {
		j := 1 - i
		// v_i_j(x): lane0 read through j before must differ from after; returns lane 1 through j after set i := splat(x)
		b.ExportFunc(fmt.Sprintf("v_%d_%d", i, j), b.AddFunc(tI64, tI64, nil,
			(&wb.Asm{}).GlobalGet(3+j).Simd(0x1d).Op(0).Drop().LocalGet(0).Simd(0x12).GlobalSet(3+i).GlobalGet(3+j).Simd(0x1d).Op(1).B))
		// tset_i_j(slot): table.set through alias i, is_null through alias j before/after
		b.ExportFunc(fmt.Sprintf("tset_%d_%d", i, j), b.AddFunc(tI32, tI32, nil,
			(&wb.Asm{}).LocalGet(0).TableGet(j).RefIsNull().I32Const(1).Op(0x74).
				LocalGet(0).RefFunc(id).TableSet(i).
				LocalGet(0).TableGet(j).RefIsNull().Op(0x72).B))
		// tgrow_i_j(): size through j before <<8 | size through j after table.grow 1 through i
		b.ExportFunc(fmt.Sprintf("tgrow_%d_%d", i, j), b.AddFunc(nil, tI32, nil,
			(&wb.Asm{}).TableSize(j).I32Const(8).Op(0x74).RefNull(wb.FuncRef).I32Const(1).TableGrow(i).Drop().TableSize(j).Op(0x72).B))
	}
	for k := uint32(0); k < p9NG; k++ {
		b.ExportFunc(fmt.Sprintf("gget%d", k), b.AddFunc(nil, tI32, nil, (&wb.Asm{}).GlobalGet(k).B))
	}
	for k := uint32(0); k < p9NV; k++ {
		b.ExportFunc(fmt.Sprintf("vget%d", k), b.AddFunc(nil, tI64, nil, (&wb.Asm{}).GlobalGet(3+k).Simd(0x1d).Op(1).B))
		b.ExportFunc(fmt.Sprintf("tsize%d", k), b.AddFunc(nil, tI32, nil, (&wb.Asm{}).TableSize(k).B))
		b.ExportFunc(fmt.Sprintf("tnull%d", k), b.AddFunc(tI32, tI32, nil, (&wb.Asm{}).LocalGet(0).TableGet(k).RefIsNull().B))
	}
	return b.Encode()
}

type p9Step struct {
	Fn  string // exported function of B, or "A.gset" / "A.vset"
	Arg bool
}

func p9Alphabet() (a []p9Step) {
	for i := 0; i < p9NG; i++ {
		for j := 0; j < p9NG; j++ {
			if i != j {
				a = append(a, p9Step{fmt.Sprintf("g_%d_%d", i, j), true})
			}
		}
	}
	for i := 0; i < p9NV; i++ {
		a = append(a, p9Step{fmt.Sprintf("v_%d_%d", i, 1-i), true}, p9Step{fmt.Sprintf("tset_%d_%d", i, 1-i), true}, p9Step{fmt.Sprintf("tgrow_%d_%d", i, 1-i), false})
	}
	a = append(a, p9Step{"A.gset", true}, p9Step{"A.vset", true})
	return
}

type p9Model struct {
	g    uint32
	v    uint64 // both lanes hold the splat value after a set; initial lane 1 = 2
	tab  []bool // non-null
	tmax int
}

type p9Env struct {
	rts      map[string]wazero.Runtime
	compiled map[string]wazero.CompiledModule
}

func newP9Env() *p9Env {
	e := &p9Env{rts: map[string]wazero.Runtime{}, compiled: map[string]wazero.CompiledModule{}}
	for _, en := range engineNames {
		e.rts[en] = wazero.NewRuntimeWithConfig(bg, runtimeConfig(en))
	}
	return e
}

func (e *p9Env) close() {
	for _, rt := range e.rts {
		rt.Close(bg)
	}
}

func (e *p9Env) runWord9(alpha []p9Step, word []int, st *p2Stats, trace func(string)) (vs []p8Viol) {
	names := make([]string, len(word))
	for i, k := range word {
		names[i] = alpha[k].Fn
	}
	st.Words++
	type world struct {
		en   string
		mods map[string]api.Module
	}
	var ws []world
	defer func() {
		for _, w := range ws {
			for _, n := range []string{"B", "I2", "A"} {
				if m := w.mods[n]; m != nil {
					m.Close(bg)
				}
			}
		}
	}()
	for _, en := range engineNames {
		w := world{en, map[string]api.Module{}}
		for _, n := range []string{"A", "I2", "B"} {
			cm := e.compiled[en+n]
			if cm == nil {
				bin := map[string]func() []byte{"A": buildP9A, "I2": buildP9I2, "B": buildP9Alias}[n]()
				var err error
				if cm, err = e.rts[en].CompileModule(bg, bin); err != nil {
					return append(vs, p8Viol{Sig: "p9:setup", What: n + ": " + err.Error(), Word: names, Engine: en})
				}
				e.compiled[en+n] = cm
			}
			mod, err := e.rts[en].InstantiateModule(bg, cm, modCfg.WithName(n))
			if err != nil {
				ws = append(ws, w)
				return append(vs, p8Viol{Sig: "p9:setup", What: n + ": " + err.Error(), Word: names, Engine: en})
			}
			w.mods[n] = mod
		}
		ws = append(ws, w)
	}
	m := &p9Model{g: 1, v: 2, tab: make([]bool, 4), tmax: 8}
	key := func() string { return fmt.Sprintf("%d|%d|%v", m.g, m.v, m.tab) }
	call := func(w world, mod, fn string, args ...uint64) string {
		return p7Call(w.mods[mod].ExportedFunction(fn), args...)
	}
	observe := func(step string, upto int) bool {
		ok := true
		for _, w := range ws {
			check := func(label, mod, fn string, want uint64, args ...uint64) {
				st.Reads++
				if got := call(w, mod, fn, args...); got != "ok:"+u(want) && ok {
					ok = false
					vs = append(vs, p8Viol{Sig: "p9:alias:" + step + ":obs:" + digits.ReplaceAllString(label, "#"), Word: names, Engine: w.en,
						What: fmt.Sprintf("[%s] after %v: read %s = %s, the one shared object holds %d", w.en, names[:upto], label, got, want)})
				}
			}
			check("A.gget", "A", "gget", uint64(m.g))
			check("A.vget", "A", "vget", m.v)
			check("A.tsize", "A", "tsize", uint64(len(m.tab)))
			for k := 0; k < p9NG; k++ {
				check(fmt.Sprintf("B.gget%d", k), "B", fmt.Sprintf("gget%d", k), uint64(m.g))
			}
			for k := 0; k < p9NV; k++ {
				check(fmt.Sprintf("B.vget%d", k), "B", fmt.Sprintf("vget%d", k), m.v)
				check(fmt.Sprintf("B.tsize%d", k), "B", fmt.Sprintf("tsize%d", k), uint64(len(m.tab)))
				for s := range m.tab {
					isNull := uint64(1)
					if m.tab[s] {
						isNull = 0
					}
					check(fmt.Sprintf("B.tnull%d@%d", k, s), "B", fmt.Sprintf("tnull%d", k), isNull, uint64(s))
				}
			}
		}
		st.EngineCompares++
		return ok
	}
	if !observe("init", 0) {
		return
	}
	st.States[h64("p9#"+key())] = struct{}{}
	for i, k := range word {
		s := alpha[k]
		x := uint64(k + 2) // differs from the initial values
		before := key()
		var want string
		switch {
		case s.Fn == "A.gset" || s.Fn[0] == 'g':
			if s.Fn[0] == 'g' {
				want = "ok:" + u(uint64(m.g)<<16|x)
			} else {
				want = "ok"
			}
			m.g = uint32(x)
		case s.Fn == "A.vset":
			want = "ok"
			m.v = x
		case s.Fn[0] == 'v':
			m.v = x
			want = "ok:" + u(x)
		case s.Fn[:4] == "tset":
			x = uint64(k % 4) // slot
			b := uint64(1)
			if m.tab[x] {
				b = 0
			}
			m.tab[x] = true
			want = "ok:" + u(b<<1|0)
		default: // tgrow
			old := len(m.tab)
			if old+1 <= m.tmax {
				m.tab = append(m.tab, false)
			}
			want = "ok:" + u(uint64(old)<<8|uint64(len(m.tab)))
		}
		st.Steps++
		st.Trans[h64("p9#"+before+"#"+s.Fn)] = struct{}{}
		st.Outcomes["p9:alias:"+digits.ReplaceAllString(s.Fn, "#")]++
		for _, w := range ws {
			mod, fn := "B", s.Fn
			if s.Fn[:2] == "A." {
				mod, fn = "A", s.Fn[2:]
			}
			var got string
			if s.Arg {
				got = call(w, mod, fn, x)
			} else {
				got = call(w, mod, fn)
			}
			if trace != nil {
				trace(fmt.Sprintf("step %d %s(%d) [%s]: %s (model: %s)", i, s.Fn, x, w.en, got, want))
			}
			if got != want {
				kind := digits.ReplaceAllString(s.Fn, "#")
				vs = append(vs, p8Viol{Sig: "p9:alias:" + kind + ":result", Word: names, Engine: w.en,
					What: fmt.Sprintf("[%s] word %v: %s(%d) returns %s, must be %s (write through one import, read through another import of the SAME object inside one function)", w.en, names[:i+1], s.Fn, x, got, want)})
			}
		}
		if !observe(digits.ReplaceAllString(s.Fn, "#"), i+1) {
			return
		}
		st.States[h64("p9#"+key())] = struct{}{}
	}
	return
}
