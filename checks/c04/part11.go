package main

// Part 11 — import matching against the CURRENT state of a grown table / memory. The exporter defines 16 tables
// (funcref/externref x declared min 0..3 x max none|7) and one memory (variant: min 1 | min 1 max 8 | shared min 1
// max 8 | min 0); a GROW HISTORY (a sequence of table.grow / memory.grow deltas executed by the exporter, or for the
// memory api.Memory.Grow from the host) is applied to every object before the importers link. The external type of
// the object is then {min: current size, max: declared max}. For every object the importer's limits are enumerated
// AROUND THE CURRENT SIZE c and the declared max M: min in {0, c-2 .. c+4}, max in {none, c-1, c, c+1, c+6, M-1, M,
// M+1} (max >= min). Oracle: acceptance == specMatch(current type, declared type); a rejection is a link error; an
// accepted importer reads the current size and element/byte 0 of the shared object; every grow returns the modelled
// old size (or -1 above the maximum).

import (
	"fmt"
	"sort"
	"strings"

	"github.com/tetratelabs/wazero"
	"github.com/tetratelabs/wazero/verif/wb"
)

const p11Enabled = true

var p11Mems = []wb.Limits{{Min: 1}, {Min: 1, Max: 8, HasMax: true}, {Min: 1, Max: 8, HasMax: true, Shared: true}, {Min: 0}}

var p11HistQuick = [][]uint32{{}, {1}, {2}, {4}, {1, 1}, {1, 2}, {2, 3}, {1, 4}, {1, 1, 1}}
var p11HistExtra = [][]uint32{{3}, {5}, {6}, {8}, {3, 1}, {4, 4}, {1, 1, 1, 1}, {2, 2, 2}, {1, 6}}

func p11Hists(tier string) [][]uint32 {
	if tier == "thorough" {
		return append(append([][]uint32{}, p11HistQuick...), p11HistExtra...)
	}
	return p11HistQuick
}

func p11Tables() (ts []extType) {
	for _, e := range []byte{wb.FuncRef, wb.ExternRef} {
		for min := uint32(0); min <= 3; min++ {
			ts = append(ts, extType{Kind: wb.KindTable, Elem: e, Lim: wb.Limits{Min: min}})
			ts = append(ts, extType{Kind: wb.KindTable, Elem: e, Lim: wb.Limits{Min: min, Max: 7, HasMax: true}})
		}
	}
	return
}

type p11Shard struct {
	Mem  int      `json:"mem"`  // index into p11Mems
	Hist []uint32 `json:"hist"` // grow deltas
	Host bool     `json:"host"` // memory grown through api.Memory.Grow (memory cases only)
	Tier string   `json:"tier"`
}

type p11Case struct {
	Shard  p11Shard `json:"shard"`
	Name   string   `json:"name"` // "m" or "t<j>"
	Import extType  `json:"import"`
}

func p11Shards(tier string) (ss []p11Shard) {
	if !p11Enabled {
		return
	}
	for _, h := range p11Hists(tier) {
		for v := range p11Mems {
			ss = append(ss, p11Shard{Mem: v, Hist: h, Tier: tier})
			if len(h) > 0 {
				ss = append(ss, p11Shard{Mem: v, Hist: h, Host: true, Tier: tier})
			}
		}
	}
	return
}

func p11BuildExporter(v int) []byte {
	m := &wb.Module{}
	mem := p11Mems[v]
	m.Mem = &mem
	for j, t := range p11Tables() {
		m.Tables = append(m.Tables, wb.Table{Elem: t.Elem, Lim: t.Lim})
		m.Exports = append(m.Exports, wb.Export{Name: fmt.Sprintf("t%d", j), Kind: wb.KindTable, Idx: uint32(j)})
		a := (&wb.Asm{}).RefNull(t.Elem).LocalGet(0).TableGrow(uint32(j))
		m.ExportFunc(fmt.Sprintf("tg%d", j), m.AddFunc([]byte{wb.I32}, []byte{wb.I32}, nil, a.B))
	}
	m.ExportFunc("mg", m.AddFunc([]byte{wb.I32}, []byte{wb.I32}, nil, (&wb.Asm{}).LocalGet(0).MemoryGrow().B))
	m.Exports = append(m.Exports, wb.Export{Name: "m", Kind: wb.KindMemory, Idx: 0})
	return m.Encode()
}

// p11Grown applies the history to declared limits: the modelled current size and the modelled grow results.
func p11Grown(l wb.Limits, hist []uint32) (cur uint32, results []int64) {
	cur = l.Min
	for _, d := range hist {
		if l.HasMax && cur+d > l.Max {
			results = append(results, -1)
			continue
		}
		results = append(results, int64(cur))
		cur += d
	}
	return
}

func p11Declared(s p11Shard, name string) extType {
	if name == "m" {
		return extType{Kind: wb.KindMemory, Lim: p11Mems[s.Mem]}
	}
	var j int
	fmt.Sscanf(name[1:], "%d", &j)
	return p11Tables()[j]
}

func p11Current(s p11Shard, name string) extType {
	t := p11Declared(s, name)
	t.Lim.Min, _ = p11Grown(t.Lim, s.Hist)
	return t
}

// p11ImportLimits enumerates the importer's limits around current size c and declared maximum.
func p11ImportLimits(cur wb.Limits) (ls []wb.Limits) {
	c := cur.Min
	mins := map[uint32]bool{0: true}
	for d := uint32(0); d <= 6; d++ {
		if c+d >= 2 {
			mins[c+d-2] = true
		}
	}
	maxs := map[uint32]bool{c: true, c + 1: true, c + 6: true}
	if c > 0 {
		maxs[c-1] = true
	}
	if cur.HasMax {
		maxs[cur.Max-1], maxs[cur.Max], maxs[cur.Max+1] = true, true, true
	}
	var mn, mx []uint32
	for k := range mins {
		mn = append(mn, k)
	}
	for k := range maxs {
		mx = append(mx, k)
	}
	sort.Slice(mn, func(i, j int) bool { return mn[i] < mn[j] })
	sort.Slice(mx, func(i, j int) bool { return mx[i] < mx[j] })
	for _, a := range mn {
		if !cur.Shared { // a shared memory import must declare a maximum
			ls = append(ls, wb.Limits{Min: a})
		}
		for _, b := range mx {
			if b >= a {
				ls = append(ls, wb.Limits{Min: a, Max: b, HasMax: true, Shared: cur.Shared})
			}
		}
	}
	return
}

func p11Cases(s p11Shard) (cs []p11Case) {
	cur := p11Current(s, "m")
	for _, l := range p11ImportLimits(cur.Lim) {
		cs = append(cs, p11Case{s, "m", extType{Kind: wb.KindMemory, Lim: l}})
	}
	if s.Mem != 0 || s.Host {
		return
	}
	for j, t := range p11Tables() {
		name := fmt.Sprintf("t%d", j)
		for _, l := range p11ImportLimits(p11Current(s, name).Lim) {
			cs = append(cs, p11Case{s, name, extType{Kind: wb.KindTable, Elem: t.Elem, Lim: l}})
		}
	}
	return
}

type p11GrowViol struct{ Sig, What string }

// p11Run instantiates the exporter on one engine, applies the history, and runs the given cases.
func p11Run(rt wazero.Runtime, engine string, s p11Shard, cases []p11Case, each func(c p11Case, r p1Result)) (gv []p11GrowViol) {
	E, err := rt.InstantiateWithConfig(bg, p11BuildExporter(s.Mem), modCfg.WithName("E"))
	if err != nil {
		panic(fmt.Sprintf("harness: part 11 exporter %d not instantiable on %s: %v", s.Mem, engine, err))
	}
	defer E.Close(bg)
	hs := fmt.Sprint(s.Hist)
	check := func(kind, name string, lim wb.Limits, step int, got int64) {
		_, want := p11Grown(lim, s.Hist)
		if got != want[step] {
			gv = append(gv, p11GrowViol{fmt.Sprintf("p11:grow:%s:result", kind),
				fmt.Sprintf("[%s] %s %q %s, history %s: grow #%d returned %d, the model says %d", engine, kind, name, limString(lim), hs, step, got, want[step])})
		}
	}
	for step, d := range s.Hist {
		ml := p11Mems[s.Mem]
		if s.Host {
			prev, ok := E.ExportedMemory("m").Grow(d)
			got := int64(prev)
			if !ok {
				got = -1
			}
			check("memory(host)", "m", ml, step, got)
		} else {
			res, err := E.ExportedFunction("mg").Call(bg, uint64(d))
			if err != nil {
				panic(fmt.Sprintf("harness: part 11 mg: %v", err))
			}
			check("memory", "m", ml, step, int64(int32(res[0])))
		}
		if s.Mem != 0 || s.Host {
			continue
		}
		for j, t := range p11Tables() {
			res, err := E.ExportedFunction(fmt.Sprintf("tg%d", j)).Call(bg, uint64(d))
			if err != nil {
				panic(fmt.Sprintf("harness: part 11 tg%d: %v", j, err))
			}
			check("table", fmt.Sprintf("t%d", j), t.Lim, step, int64(int32(res[0])))
		}
	}
	for _, c := range cases {
		each(c, runImporterCase(rt, nil, buildImporter1(c.Name, c.Import), false))
	}
	return
}

func p11Judge(c p11Case, engine string, r p1Result) (outcome, sig, what string) {
	decl, cur := p11Declared(c.Shard, c.Name), p11Current(c.Shard, c.Name)
	reasons := specMatch(cur, c.Import)
	sort.Strings(reasons)
	kind := kindNames[c.Import.Kind]
	want := len(reasons) == 0
	via := "grown"
	if c.Shard.Host {
		via = "host-grown"
	}
	if len(c.Shard.Hist) == 0 {
		via = "never-grown"
	}
	// position of the import's minimum relative to the current size: the failing step's class
	rel := func(a, b uint32) string {
		switch {
		case a < b:
			return fmt.Sprintf("size-%d", b-a)
		case a > b:
			return fmt.Sprintf("size+%d", a-b)
		}
		return "size"
	}
	cls := fmt.Sprintf("%s:import-min=%s", via, rel(c.Import.Lim.Min, cur.Lim.Min))
	desc := fmt.Sprintf("[%s] export %q declared %s, grow history %v (%s) => current %s; import declared as %s", engine, c.Name, decl, c.Shard.Hist, via, cur, c.Import)
	switch {
	case strings.HasPrefix(r.Err, "compile: "):
		return "importer-rejected-at-compile", "p11:" + kind + ":valid-importer-rejected-at-compile", desc + ": " + r.Err
	case r.Accepted && !want:
		rs := strings.Join(reasons, "+")
		return "accepted-wrongly", "p11:" + kind + ":" + cls + ":accepted-but-spec-rejects:" + rs, desc + ": instantiation succeeded, the specification rejects it (" + rs + ")"
	case !r.Accepted && want:
		return "rejected-wrongly", "p11:" + kind + ":" + cls + ":rejected-but-spec-accepts", desc + ": instantiation failed (" + r.Err + "), the specification accepts it"
	case !r.Accepted:
		if cl := canonInstErr(fmt.Errorf("%s", r.Err)); cl != "fail:link" {
			return "rejected-not-link-error", "p11:" + kind + ":rejection-is-not-a-link-error", desc + ": " + r.Err
		}
		return "rejected:" + kind + ":" + via + ":" + strings.Join(reasons, "+"), "", ""
	}
	x := uint64(0xff)
	if cur.Lim.Min > 0 {
		x = 0 // memory byte 3
		if cur.Kind == wb.KindTable {
			x = 1 // element 0 is null
		}
	}
	if exp := fmt.Sprintf("%#x", uint64(cur.Lim.Min)<<8|x); r.Probe != exp {
		return "linked-to-wrong-object", "p11:" + kind + ":" + via + ":accepted-import-reads-wrong-size-or-object", desc + fmt.Sprintf(": probe through the importer = %s, the exported object holds %s", r.Probe, exp)
	}
	return "accepted:" + kind + ":" + via, "", ""
}

func replayP11(c p11Case, engine string) (got p1Result, gv []p11GrowViol) {
	rt := wazero.NewRuntimeWithConfig(bg, runtimeConfig(engine))
	defer rt.Close(bg)
	gv = p11Run(rt, engine, c.Shard, []p11Case{c}, func(_ p11Case, r p1Result) { got = r })
	return
}
