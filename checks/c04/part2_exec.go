package main

// Part 2 — executing operation words on the real engines and comparing with the model.

import (
	"fmt"
	"hash/fnv"
	"regexp"
	"runtime/debug"
	"strconv"
	"strings"

	"github.com/tetratelabs/wazero"
	"github.com/tetratelabs/wazero/api"
	"github.com/tetratelabs/wazero/verif/wb"
)

type p2Env struct {
	rts      map[string]wazero.Runtime
	compiled map[string]wazero.CompiledModule
	cerr     map[string]error
}

func newP2Env() *p2Env {
	e := &p2Env{rts: map[string]wazero.Runtime{}, compiled: map[string]wazero.CompiledModule{}, cerr: map[string]error{}}
	for _, en := range engineNames {
		e.rts[en] = wazero.NewRuntimeWithConfig(bg, runtimeConfig(en))
	}
	return e
}

func (e *p2Env) close() {
	for _, rt := range e.rts {
		rt.Close(bg)
	}
}

func (e *p2Env) module(engine string, c gcfg, name string) (wazero.CompiledModule, error) {
	key := engine + "|" + c.String() + "|" + name
	if cm, ok := e.compiled[key]; ok {
		return cm, e.cerr[key]
	}
	var bin []byte
	if name == "E" || name == "I" || name == "J" {
		bin = buildSide(c, name)
	} else {
		bin = buildK(c, name)
	}
	cm, err := e.rts[engine].CompileModule(bg, bin)
	e.compiled[key], e.cerr[key] = cm, err
	return cm, err
}

type world struct {
	env    *p2Env
	engine string
	cfg    gcfg
	mods   map[string]api.Module
	fns    map[string]api.Function
	ks     []api.Module
	// result of the last inst.Kmut.* operation
	kmutStale  bool
	kmutDetail string
}

func (e *p2Env) newWorld(engine string, c gcfg) (*world, string) {
	w := &world{env: e, engine: engine, cfg: c, mods: map[string]api.Module{}, fns: map[string]api.Function{}}
	for _, s := range c.sides() {
		cm, err := e.module(engine, c, s)
		if err != nil {
			w.close()
			return nil, fmt.Sprintf("%s: compile: %v", s, err)
		}
		mod, err := e.rts[engine].InstantiateModule(bg, cm, modCfg.WithName(s))
		if err != nil {
			w.close()
			return nil, fmt.Sprintf("%s: instantiate: %v", s, err)
		}
		w.mods[s] = mod
	}
	return w, ""
}

func (w *world) close() {
	for _, k := range w.ks {
		k.Close(bg)
	}
	for _, s := range []string{"J", "I", "E"} {
		if m := w.mods[s]; m != nil {
			m.Close(bg)
		}
	}
}

// callS calls an exported accessor and renders the canonical result.
func (w *world) callS(side, fn string, args ...uint64) string {
	key := side + "." + fn
	f := w.fns[key]
	if f == nil {
		f = w.mods[side].ExportedFunction(fn)
		if f == nil {
			return "err:no-such-export:" + key
		}
		w.fns[key] = f
	}
	res, err := f.Call(bg, args...)
	if err != nil {
		return canonErr(err)
	}
	if len(res) == 0 {
		return "ok"
	}
	if len(res) == 1 {
		return "ok:" + strconv.FormatUint(res[0], 10)
	}
	b := make([]byte, 0, 48)
	b = append(b, "ok:"...)
	for i, r := range res {
		if i > 0 {
			b = append(b, ',')
		}
		b = strconv.AppendUint(b, r, 10)
	}
	return string(b)
}

func (w *world) instK(kind string) (api.Module, string) {
	cm, err := w.env.module(w.engine, w.cfg, kind)
	if err != nil {
		return nil, "fail:compile:" + err.Error()
	}
	k, err := w.env.rts[w.engine].InstantiateModule(bg, cm, modCfg.WithName(""))
	if err != nil {
		return nil, canonInstErr(err)
	}
	w.ks = append(w.ks, k)
	return k, "ok"
}

// kmut tries the module that is invalid per spec (a constant expression reads a MUTABLE imported global).
// If the implementation accepts it, the value it captured is compared with the global's current value.
func (w *world) kmut(site string, m *model) string {
	w.kmutStale, w.kmutDetail = false, ""
	cm, err := w.env.module(w.engine, w.cfg, "Kmut."+site)
	if err != nil {
		return "rejected:invalid-module"
	}
	_ = cm
	k, r := w.instK("Kmut." + site)
	if k == nil {
		w.kmutDetail = "instantiation: " + r
		return "accepted-invalid-module"
	}
	reader := "E"
	if !m.alive["E"] {
		reader = "I"
	}
	switch site {
	case "g":
		got := w.callSOn(k, "k")
		if want := fmt.Sprintf("ok:%d", m.g); got != want {
			w.kmutStale = true
			w.kmutDetail = fmt.Sprintf("global initialised from the imported mutable global holds %s, the global's value at instantiation was %d", got, m.g)
		}
	case "d":
		if m.alive[reader] {
			got := w.callS(reader, "load", uint64(m.g))
			if want := fmt.Sprintf("ok:%d", mutDataByte); got != want {
				w.kmutStale = true
				w.kmutDetail = fmt.Sprintf("data segment with offset (global.get g) was not written at g's current value %d (byte there: %s; byte at g's initial value 0: %s)", m.g, got, w.callS(reader, "load", 0))
			}
		}
	case "e":
		if m.alive[reader] && m.g < uint32(len(m.tab)) {
			got := w.callS(reader, "tcall", uint64(m.g))
			if want := fmt.Sprintf("ok:%d", kID); got != want {
				w.kmutStale = true
				w.kmutDetail = fmt.Sprintf("element segment with offset (global.get g) was not written at g's current value %d (call_indirect there: %s; at g's initial value 0: %s)", m.g, got, w.callS(reader, "tcall", 0))
			}
		}
	}
	return "accepted-invalid-module"
}

func (w *world) callSOn(mod api.Module, fn string) string {
	res, err := mod.ExportedFunction(fn).Call(bg)
	if err != nil {
		return canonErr(err)
	}
	return fmt.Sprintf("ok:%d", res[0])
}

// ---------------------------------------------------------------- word execution

type viol struct {
	Sig    string   `json:"sig"`
	What   string   `json:"what"`
	Cfg    gcfg     `json:"cfg"`
	Word   []string `json:"word"`
	Engine string   `json:"engine"`
	Step   int      `json:"step"`
}

type p2Stats struct {
	Words, Steps, NA, Reads, EngineCompares int64
	Outcomes                                map[string]int64
	States, Trans                           map[uint64]struct{}
}

func newP2Stats() *p2Stats {
	return &p2Stats{Outcomes: map[string]int64{}, States: map[uint64]struct{}{}, Trans: map[uint64]struct{}{}}
}

func h64(s string) uint64 {
	h := fnv.New64a()
	h.Write([]byte(s))
	return h.Sum64()
}

var digits = regexp.MustCompile(`[0-9]+`)

// sigLabel / sigVal: canonical pieces of classifier signatures — the side becomes X, numbers become #.
func sigLabel(l string) string {
	for _, p := range []string{"E.", "I.", "J."} {
		if strings.HasPrefix(l, p) {
			l = "X." + l[2:]
		}
	}
	l = strings.Replace(strings.Replace(l, "hostE.", "hostX.", 1), "hostI.", "hostX.", 1)
	return digits.ReplaceAllString(l, "#")
}

func sigVal(v string) string {
	if strings.HasPrefix(v, "fail:other:") || strings.HasPrefix(v, "err:") || strings.HasPrefix(v, "fail:compile:") {
		v = v[:strings.Index(v, ":")+1] + "other"
	}
	return digits.ReplaceAllString(v, "#")
}

func outcomeKey(op, res string) string {
	if i := strings.IndexByte(op, '.'); i > 0 && (op[:i] == "E" || op[:i] == "I" || op[:i] == "J") {
		op = "X" + op[i:]
	}
	return "p2:" + op + "=" + digits.ReplaceAllString(res, "#")
}

// runWord executes one word on both engines in lockstep with the model. It stops at the first step whose
// shared-state observation disagrees with the model (everything later would be noise).
func (e *p2Env) runWord(c gcfg, ops []opDef, word []int, st *p2Stats, trace func(string)) (vs []viol) {
	names := make([]string, len(word))
	for i, oi := range word {
		names[i] = ops[oi].Name
	}
	report := func(sig, what, engine string, step int) {
		vs = append(vs, viol{Sig: sig, What: what, Cfg: c, Word: names, Engine: engine, Step: step})
	}
	m := newModel(c)
	var ws []*world
	defer func() {
		for _, w := range ws {
			w.close()
		}
	}()
	for _, en := range engineNames {
		w, errs := e.newWorld(en, c)
		if w == nil {
			report("p2:setup:graph-not-instantiable", fmt.Sprintf("[%s %s] %s", en, c, errs), en, -1)
			return
		}
		ws = append(ws, w)
	}
	st.Words++
	compareObs := func(opName string, step int) bool {
		want := m.observe()
		ok := true
		for _, w := range ws {
			st.Reads += int64(len(want))
			for i := range want {
				p := &want[i]
				if got := w.read(p); got != p.Want {
					report("p2:"+opName+":obs:"+sigLabel(p.Label)+"/spec:"+sigVal(p.Want),
						fmt.Sprintf("[%s %s] after %v: read %s = %s, the model of the shared object says %s", w.engine, c, names[:step+1], p.Label, got, p.Want), w.engine, step)
					ok = false
					break
				}
			}
		}
		st.EngineCompares += int64(len(want))
		if trace != nil {
			trace(fmt.Sprintf("  model state: %s (%d reads per engine)", m.key(), len(want)))
		}
		return ok
	}
	if !compareObs("init", -1) {
		return
	}
	st.States[h64(c.String()+"#"+m.key())] = struct{}{}
	for step, oi := range word {
		op := &ops[oi]
		if !op.Applicable(m) {
			st.NA++
			if trace != nil {
				trace(fmt.Sprintf("step %d %s: not applicable (instance closed)", step, op.Name))
			}
			continue
		}
		before := m.key()
		pre := *m // ops read the pre-state only through fields that Model does not alias destructively
		pre.tab = append([]string{}, m.tab...)
		pre.alive = map[string]bool{}
		for k, v := range m.alive {
			pre.alive[k] = v
		}
		want := op.Model(m)
		st.Steps++
		st.Trans[h64(c.String()+"#"+before+"#"+op.Name)] = struct{}{}
		st.Outcomes[outcomeKey(op.Name, want)]++
		stop := false
		var results []string
		for _, w := range ws {
			got := op.Impl(w, &pre)
			results = append(results, got)
			if trace != nil {
				trace(fmt.Sprintf("step %d %s [%s]: %s (model: %s)", step, op.Name, w.engine, got, want))
			}
			if got == want {
				continue
			}
			if op.Kmut != "" {
				site := map[string]string{"g": "global-init", "d": "data-offset", "e": "element-offset"}[op.Kmut]
				report("constexpr:mutable-global-accepted:"+site,
					fmt.Sprintf("[%s %s] a module whose %s constant expression is (global.get <imported MUTABLE global>) is invalid per spec but compiles; %s", w.engine, c, site, w.kmutDetail), w.engine, step)
				if w.kmutStale {
					report("constexpr:mutable-global-stale-capture:"+site,
						fmt.Sprintf("[%s %s] after %v: %s", w.engine, c, names[:step], w.kmutDetail), w.engine, step)
				}
				stop = true
				continue
			}
			report("p2:"+op.Name+":result:"+sigVal(got)+"/spec:"+sigVal(want), fmt.Sprintf("[%s %s] word %v: step %d returned %s, the specification says %s", w.engine, c, names[:step+1], step, got, want), w.engine, step)
		}
		st.EngineCompares++
		if stop {
			return
		}
		if !compareObs(op.Name, step) {
			return
		}
		st.States[h64(c.String()+"#"+m.key())] = struct{}{}
	}
	return
}

// ---------------------------------------------------------------- consequence of the shared-flag mismatch

// consequence: exporter with an UNSHARED memory, importer declaring it SHARED. The specification rejects the
// link. If the implementation accepts it, run: importer stores, calls the exporter's grow (buffer moves),
// stores again; every side must then read the second store. GC is disabled for the duration so that the
// stale buffer cannot be reused while the case runs.
func consequenceCase(engine string) (outcome string, v *viol) {
	defer debug.SetGCPercent(debug.SetGCPercent(-1))
	rt := wazero.NewRuntimeWithConfig(bg, runtimeConfig(engine))
	defer rt.Close(bg)
	c := gcfg{Shape: "EI"}
	E, err := rt.InstantiateWithConfig(bg, buildSide(c, "E"), modCfg.WithName("E"))
	if err != nil {
		return "setup-failed", &viol{Sig: "p2:setup:graph-not-instantiable", What: err.Error(), Engine: engine}
	}
	m := &wb.Module{}
	grow := m.ImportFunc("E", "grow", tI32, tI32)
	m.Imports = append(m.Imports, wb.Import{Module: "E", Name: "mem", Kind: wb.KindMemory, Mem: wb.Limits{Min: memMin, Max: memMax, HasMax: true, Shared: true}})
	m.ExportFunc("grow_across", m.AddFunc([]byte{wb.I32, wb.I32, wb.I32, wb.I32}, tI32, nil,
		(&wb.Asm{}).LocalGet(0).LocalGet(1).Mem(0x3a, 0, 0).
			I32Const(1).Call(grow).Drop().
			LocalGet(2).LocalGet(3).Mem(0x3a, 0, 0).MemorySize().B))
	m.ExportFunc("load", m.AddFunc(tI32, tI32, nil, (&wb.Asm{}).LocalGet(0).Mem(0x2d, 0, 0).B))
	I, err := rt.InstantiateWithConfig(bg, m.Encode(), modCfg.WithName("I"))
	if err != nil {
		return "rejected-as-specified", nil
	}
	if _, err := I.ExportedFunction("grow_across").Call(bg, addrLo, 0x11, addrLo2, 0x22); err != nil {
		return "call-failed:" + canonErr(err), nil
	}
	viaE, _ := E.ExportedFunction("load").Call(bg, addrLo2)
	viaI, _ := I.ExportedFunction("load").Call(bg, addrLo2)
	if viaE[0] != 0x22 || viaI[0] != 0x22 {
		return "stale-buffer-write", &viol{Sig: "shared-flag-ignored:importer-writes-stale-buffer-after-exporter-grow", Engine: engine, Cfg: c,
			Word: []string{"I(shared import of E's unshared memory).grow_across"},
			What: fmt.Sprintf("[%s] importer declares E's unshared memory as shared and is linked anyway; I: store8(16,0x11); call E.grow(1); store8(17,0x22) — afterwards E.load(17)=%#x, I.load(17)=%#x (must be 0x22): the second store went into the buffer the grow abandoned", engine, viaE[0], viaI[0])}
	}
	return "accepted-but-no-stale-write", nil
}
