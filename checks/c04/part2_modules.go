package main

// Part 2 — module graphs. E defines one memory, one funcref table, a mutable i32 global g, a mutable v128
// global v, and immutable globals c (i32 16), c2 (i32 1), cf (funcref = ref.func E.id). I imports them from E
// and re-exports them; J (optional) imports mem and g through I's re-exports and tab and v directly from E.
// Every side exports the same accessor functions. K modules are instantiated by operations.

import (
	"github.com/tetratelabs/wazero/verif/wb"
)

type gcfg struct {
	Shape  string `json:"shape"`  // "EI" | "EIJ"
	Shared bool   `json:"shared"` // memory declared shared on every side (threads feature)
}

func (c gcfg) String() string {
	s := c.Shape
	if c.Shared {
		s += "/shared-mem"
	} else {
		s += "/unshared-mem"
	}
	return s
}

func (c gcfg) sides() []string {
	if c.Shape == "EIJ" {
		return []string{"E", "I", "J"}
	}
	return []string{"E", "I"}
}

const (
	memMin, memMax = 1, 3
	tabMin, tabMax = 2, 4
	addrLo         = 16         // in page 0
	addrLo2        = 17         // in page 0
	addrHi         = 65536 + 16 // in page 1: out of bounds until the memory has grown
	cVal           = 16         // value of immutable global c  (data offsets)
	c2Val          = 1          // value of immutable global c2 (element offsets)
	kID            = 400        // result of K.kid
)

var sideID = map[string]int32{"E": 100, "I": 200, "J": 300}

func (c gcfg) memLimits(min uint32) wb.Limits {
	return wb.Limits{Min: min, Max: memMax, HasMax: true, Shared: c.Shared}
}

var (
	tI32  = []byte{wb.I32}
	tI64  = []byte{wb.I64}
	t2I32 = []byte{wb.I32, wb.I32}
)

// buildSide builds E, I or J.
func buildSide(c gcfg, side string) []byte {
	m := &wb.Module{}
	var impStore, impGrow, impGset, impTgrow uint32
	// globals index space: g, v first (imported or defined), then E's constants
	const gG, gV = 0, 1
	switch side {
	case "E":
		lim := c.memLimits(memMin)
		m.Mem = &lim
		m.Tables = []wb.Table{{Elem: wb.FuncRef, Lim: wb.Limits{Min: tabMin, Max: tabMax, HasMax: true}}}
	default:
		from := map[string]string{"mem": "E", "g": "E", "tab": "E", "v": "E", "fn": "E"}
		if side == "J" {
			from = map[string]string{"mem": "I", "g": "I", "tab": "E", "v": "E", "fn": "I"}
		}
		impStore = m.ImportFunc(from["fn"], "store", t2I32, nil)
		impGrow = m.ImportFunc(from["fn"], "grow", tI32, tI32)
		impGset = m.ImportFunc(from["fn"], "gset", tI32, nil)
		impTgrow = m.ImportFunc(from["fn"], "tgrow", t2I32, tI32)
		m.Imports = append(m.Imports,
			wb.Import{Module: from["mem"], Name: "mem", Kind: wb.KindMemory, Mem: c.memLimits(memMin)},
			wb.Import{Module: from["tab"], Name: "tab", Kind: wb.KindTable, Table: wb.Table{Elem: wb.FuncRef, Lim: wb.Limits{Min: tabMin, Max: tabMax, HasMax: true}}},
			wb.Import{Module: from["g"], Name: "g", Kind: wb.KindGlobal, GlobalType: wb.I32, GlobalMut: true},
			wb.Import{Module: from["v"], Name: "v", Kind: wb.KindGlobal, GlobalType: wb.V128, GlobalMut: true},
		)
	}
	exp := func(name string, params, results []byte, locals []byte, a *wb.Asm) uint32 {
		f := m.AddFunc(params, results, locals, a.B)
		m.ExportFunc(name, f)
		return f
	}
	id := exp("id", nil, tI32, nil, (&wb.Asm{}).I32Const(sideID[side]))
	growfn := exp("growfn", tI32, tI32, nil, (&wb.Asm{}).LocalGet(0).MemoryGrow())
	if side == "E" {
		m.AddGlobal(wb.I32, true, wb.CI32(0))
		m.AddGlobal(wb.V128, true, wb.CV128(1, 2))
		gc := m.AddGlobal(wb.I32, false, wb.CI32(cVal))
		gc2 := m.AddGlobal(wb.I32, false, wb.CI32(c2Val))
		gcf := m.AddGlobal(wb.FuncRef, false, wb.CRefFunc(id))
		m.Exports = append(m.Exports,
			wb.Export{Name: "c", Kind: wb.KindGlobal, Idx: gc},
			wb.Export{Name: "c2", Kind: wb.KindGlobal, Idx: gc2},
			wb.Export{Name: "cf", Kind: wb.KindGlobal, Idx: gcf})
	}
	m.Exports = append(m.Exports,
		wb.Export{Name: "mem", Kind: wb.KindMemory, Idx: 0},
		wb.Export{Name: "tab", Kind: wb.KindTable, Idx: 0},
		wb.Export{Name: "g", Kind: wb.KindGlobal, Idx: gG},
		wb.Export{Name: "v", Kind: wb.KindGlobal, Idx: gV})

	exp("load", tI32, tI32, nil, (&wb.Asm{}).LocalGet(0).Mem(0x2d, 0, 0))
	exp("store", t2I32, nil, nil, (&wb.Asm{}).LocalGet(0).LocalGet(1).Mem(0x3a, 0, 0))
	exp("size", nil, tI32, nil, (&wb.Asm{}).MemorySize())
	exp("grow", tI32, tI32, nil, (&wb.Asm{}).LocalGet(0).MemoryGrow())
	exp("gget", nil, tI32, nil, (&wb.Asm{}).GlobalGet(gG))
	exp("gset", tI32, nil, nil, (&wb.Asm{}).LocalGet(0).GlobalSet(gG))
	exp("vget", nil, []byte{wb.I64, wb.I64}, nil, (&wb.Asm{}).GlobalGet(gV).Simd(0x1d).Op(0).GlobalGet(gV).Simd(0x1d).Op(1))
	exp("vset", []byte{wb.I64, wb.I64}, nil, nil, (&wb.Asm{}).LocalGet(0).Simd(0x12).LocalGet(1).Simd(0x1e).Op(1).GlobalSet(gV))
	exp("tsize", nil, tI32, nil, (&wb.Asm{}).TableSize(0))
	// ref selects: 0 null, 1 own id, 2 own growfn
	ref := func(a *wb.Asm, local uint32) *wb.Asm {
		return a.LocalGet(local).I32Const(1).Op(0x46).If(wb.FuncRef).RefFunc(id).Else().
			LocalGet(local).I32Const(2).Op(0x46).If(wb.FuncRef).RefFunc(growfn).Else().RefNull(wb.FuncRef).End().End()
	}
	exp("tgrow", t2I32, tI32, nil, ref(&wb.Asm{}, 1).LocalGet(0).TableGrow(0))
	exp("tset", t2I32, nil, nil, ref((&wb.Asm{}).LocalGet(0), 1).TableSet(0))
	tyID := m.Type(nil, tI32)
	tyGrow := m.Type(tI32, tI32)
	exp("tnull", tI32, tI32, nil, (&wb.Asm{}).LocalGet(0).TableGet(0).RefIsNull())
	exp("tcall", tI32, tI32, nil, (&wb.Asm{}).LocalGet(0).CallIndirect(tyID, 0))
	// ci_across(a1,v1,slot,a2,v2): store; call_indirect (i32)->i32 slot with argument 1; store; memory.size
	exp("ci_across", []byte{wb.I32, wb.I32, wb.I32, wb.I32, wb.I32}, tI32, nil,
		(&wb.Asm{}).LocalGet(0).LocalGet(1).Mem(0x3a, 0, 0).
			I32Const(1).LocalGet(2).CallIndirect(tyGrow, 0).Drop().
			LocalGet(3).LocalGet(4).Mem(0x3a, 0, 0).MemorySize())
	if side != "E" {
		// rw_across(a,val): (load a)<<8 | load a after the exporter-side function stored val at a
		exp("rw_across", t2I32, tI32, nil,
			(&wb.Asm{}).LocalGet(0).Mem(0x2d, 0, 0).I32Const(8).Op(0x74).
				LocalGet(0).LocalGet(1).Call(impStore).
				LocalGet(0).Mem(0x2d, 0, 0).Op(0x72))
		// g_across(val): (g before)<<32 | g after the imported function set it
		exp("g_across", tI32, tI64, nil,
			(&wb.Asm{}).GlobalGet(gG).Op(0xad).I64Const(32).Op(0x86).
				LocalGet(0).Call(impGset).
				GlobalGet(gG).Op(0xad).Op(0x84))
		// grow_across(a1,v1,a2,v2): store; imported grow(1); store; memory.size
		exp("grow_across", []byte{wb.I32, wb.I32, wb.I32, wb.I32}, tI32, nil,
			(&wb.Asm{}).LocalGet(0).LocalGet(1).Mem(0x3a, 0, 0).
				I32Const(1).Call(impGrow).Drop().
				LocalGet(2).LocalGet(3).Mem(0x3a, 0, 0).MemorySize())
		// t_across(): (table.size before)<<8 | table.size after the imported tgrow(1,null)
		exp("t_across", nil, tI32, nil,
			(&wb.Asm{}).TableSize(0).I32Const(8).Op(0x74).
				I32Const(1).I32Const(0).Call(impTgrow).Drop().
				TableSize(0).Op(0x72))
	}
	return m.Encode()
}

// K modules import from "E" only.
func kImportMem(c gcfg, min uint32) wb.Import {
	return wb.Import{Module: "E", Name: "mem", Kind: wb.KindMemory, Mem: c.memLimits(min)}
}
func kImportTab(min uint32) wb.Import {
	return wb.Import{Module: "E", Name: "tab", Kind: wb.KindTable, Table: wb.Table{Elem: wb.FuncRef, Lim: wb.Limits{Min: min, Max: tabMax, HasMax: true}}}
}
func kImportGlobal(name string, t byte, mut bool) wb.Import {
	return wb.Import{Module: "E", Name: name, Kind: wb.KindGlobal, GlobalType: t, GlobalMut: mut}
}

const (
	dataB1, dataB2, dataB3 = 0xD1, 0xD2, 0xD3
	startByte              = 0x5A
	startG                 = 9
	mutDataByte            = 0xD7
	eloobByte              = 0xE7
)

func addKid(m *wb.Module) uint32 {
	f := m.AddFunc(nil, tI32, nil, (&wb.Asm{}).I32Const(kID).B)
	m.ExportFunc("kid", f)
	return f
}

func buildK(c gcfg, kind string) []byte {
	m := &wb.Module{}
	switch kind {
	case "Kdata": // data0 at (global.get c) in bounds, data1 at addrHi in bounds only after a grow
		m.Imports = []wb.Import{kImportMem(c, memMin), kImportGlobal("c", wb.I32, false)}
		m.Datas = []wb.Data{
			{Offset: wb.CGlobal(0), Bytes: []byte{dataB1, dataB2}},
			{Offset: wb.CI32(addrHi), Bytes: []byte{dataB3}},
		}
	case "Kelem": // elem0 at (global.get c2)=1 in bounds, elem1 at 2 in bounds only after a table.grow
		m.Imports = []wb.Import{kImportTab(tabMin), kImportGlobal("c2", wb.I32, false)}
		kid := addKid(m)
		m.Elems = []wb.Elem{
			{Offset: wb.CGlobal(0), Funcs: []uint32{kid}},
			{Offset: wb.CI32(2), Funcs: []uint32{kid}},
		}
	case "Keldata": // spec order: element segments first, then data: elem at 1 is written, THEN the data segment at addrHi traps unless grown
		m.Imports = []wb.Import{kImportMem(c, memMin), kImportTab(tabMin)}
		kid := addKid(m)
		m.Elems = []wb.Elem{{Offset: wb.CI32(1), Funcs: []uint32{kid}}}
		m.Datas = []wb.Data{{Offset: wb.CI32(addrHi), Bytes: []byte{dataB3}}}
	case "Keloobdata": // element segment at 3 is out of bounds unless the table has 4 slots => the data segment must not be written
		m.Imports = []wb.Import{kImportMem(c, memMin), kImportTab(tabMin)}
		kid := addKid(m)
		m.Elems = []wb.Elem{{Offset: wb.CI32(3), Funcs: []uint32{kid}}}
		m.Datas = []wb.Data{{Offset: wb.CI32(addrLo2), Bytes: []byte{eloobByte}}}
	case "Kelemnull": // an active element segment whose item is ref.null overwrites the slot with null
		m.Imports = []wb.Import{kImportTab(tabMin)}
		m.Elems = []wb.Elem{{Offset: wb.CI32(0), Funcs: []uint32{0}, NullAt: map[int]bool{0: true}}}
	case "Kstart": // start: mem[17]=0x5a; g=9; tab[0]=kid; unreachable
		m.Imports = []wb.Import{kImportMem(c, memMin), kImportTab(tabMin), kImportGlobal("g", wb.I32, true)}
		kid := addKid(m)
		s := m.AddFunc(nil, nil, nil, (&wb.Asm{}).
			I32Const(addrLo2).I32Const(startByte).Mem(0x3a, 0, 0).
			I32Const(startG).GlobalSet(0).
			I32Const(0).RefFunc(kid).TableSet(0).
			Unreachable().B)
		m.Start = &s
	case "KminM": // memory import with min 2: matches only after a grow
		m.Imports = []wb.Import{kImportMem(c, 2)}
	case "KminT": // table import with min 3: matches only after a table.grow
		m.Imports = []wb.Import{kImportTab(3)}
	case "Kcap": // initialisers from imported immutable globals; start stores what was captured
		m.Imports = []wb.Import{kImportMem(c, memMin), kImportTab(tabMin), kImportGlobal("c", wb.I32, false), kImportGlobal("cf", wb.FuncRef, false)}
		k1 := m.AddGlobal(wb.I32, false, wb.CGlobal(0))
		kf := m.AddGlobal(wb.FuncRef, false, wb.CGlobal(1))
		kid := addKid(m)
		kr := m.AddGlobal(wb.FuncRef, false, wb.CRefFunc(kid))
		// start: mem[17] = k1 ; tab[1] = kf (= E.id) ; tab[0] = kr (= K.kid)
		s := m.AddFunc(nil, nil, nil, (&wb.Asm{}).
			I32Const(addrLo2).GlobalGet(k1).Mem(0x3a, 0, 0).
			I32Const(1).GlobalGet(kf).TableSet(0).
			I32Const(0).GlobalGet(kr).TableSet(0).B)
		m.Start = &s
		m.ExportFunc("k1", m.AddFunc(nil, tI32, nil, (&wb.Asm{}).GlobalGet(k1).B))
	case "Kmut.g": // INVALID per spec: global initialiser reads an imported MUTABLE global
		m.Imports = []wb.Import{kImportGlobal("g", wb.I32, true)}
		k := m.AddGlobal(wb.I32, false, wb.CGlobal(0))
		m.ExportFunc("k", m.AddFunc(nil, tI32, nil, (&wb.Asm{}).GlobalGet(k).B))
	case "Kmut.d": // INVALID per spec: data offset reads an imported mutable global
		m.Imports = []wb.Import{kImportMem(c, memMin), kImportGlobal("g", wb.I32, true)}
		m.Datas = []wb.Data{{Offset: wb.CGlobal(0), Bytes: []byte{mutDataByte}}}
	case "Kmut.e": // INVALID per spec: element offset reads an imported mutable global
		m.Imports = []wb.Import{kImportTab(tabMin), kImportGlobal("g", wb.I32, true)}
		kid := addKid(m)
		m.Elems = []wb.Elem{{Offset: wb.CGlobal(0), Funcs: []uint32{kid}}}
	default:
		panic("buildK: " + kind)
	}
	return m.Encode()
}

var kKinds = []string{"Kdata", "Kelem", "Keldata", "Keloobdata", "Kelemnull", "Kstart", "KminM", "KminT", "Kcap", "Kmut.g", "Kmut.d", "Kmut.e"}
