package main

// Part 4 — builtin operations executed in a callee that belongs to another instance than the one the call
// was entered through. Four instances: owner O (defines the shared table ST, an auxiliary shared table X and the
// shared memory SM), lib L (imports them, has a private table LT and private passive segments, and — depending on
// the configuration — either uses SM or a private memory), mid R (imports L's operations, re-exports them and
// wraps them; private tables, memory, segments), app A (reaches L's operations through a function import, through
// call_indirect via ST, through R's re-export, through R's wrapper, and the host enters them through L and through
// R's re-export). Table index spaces are deliberately misaligned: L = [X, ST, LT], A = [ST, AT, AT2], R = [RT0,
// RT1, RT2]; all tables and memories have the same shape but different sizes, so an operation resolved in the wrong
// instance silently succeeds on a look-alike object and is seen by the model comparison (sizes, slots, bytes,
// segment liveness of EVERY instance are read after every step on both engines).

import (
	"fmt"
	"strings"

	"github.com/tetratelabs/wazero"
	"github.com/tetratelabs/wazero/api"
	"github.com/tetratelabs/wazero/verif/wb"
)

type bcfg struct {
	LibMemShared bool `json:"lib_mem_shared"` // true: L's memory is O's SM and A's is private; false: L's is private and A's is SM
	SharedFlag   bool `json:"shared_flag"`    // memories are declared shared (threads): memory.atomic.wait32 is legal
	LibImports   bool `json:"lib_imports"`    // L itself has a function import (index shift in L's function space)
}

func (c bcfg) String() string {
	s := "lib-uses-private-mem"
	if c.LibMemShared {
		s = "lib-uses-SM"
	}
	if c.SharedFlag {
		s += "/shared-flag"
	}
	if c.LibImports {
		s += "/lib-has-func-import"
	}
	return s
}

var p4ConfigsQuick = []bcfg{{true, false, false}, {false, false, false}, {true, true, false}, {false, true, false}, {true, false, true}}
var p4ConfigsExtra = []bcfg{{false, false, true}, {true, true, true}, {false, true, true}} // thorough only, depth 2

const (
	sizeST, sizeAT, sizeAT2, sizeLT, sizeX = 24, 25, 26, 27, 28
	sizeRT0                                = 29
	p4TabMax                               = 32
	pagesSM, pagesPriv, pagesRM            = 1, 2, 3
	p4MemMax                               = 4
	idL, idFa, idFb, idA, idR, idCanary    = 222, 223, 224, 333, 444, 4242
	slotFill, slotInit, slotCopy, slotRef  = 20, 21, 22, 23 // fill writes 20..21
	slotScratch                            = 19
	addrInit, addrFill, addrCopy, addrWait = 32, 40, 48, 64
	addrScratch                            = 100
)

var p4OpNames = []string{"tgrowS", "tgrowP", "mgrow", "reffunc", "tfillS", "tfillP", "tcopySP", "tcopyPS", "tinitS", "tinitP", "edrop", "minit", "ddrop", "mfill", "mcopy", "notify", "wait"}
var p4Paths = []string{"direct", "imp", "ci", "rex", "nest", "hostrex"}

var tOp = []byte{wb.I32}

func (c bcfg) memLim(min uint32) wb.Limits {
	return wb.Limits{Min: min, Max: p4MemMax, HasMax: true, Shared: c.SharedFlag}
}

func tabLim(min uint32) wb.Limits { return wb.Limits{Min: min, Max: p4TabMax, HasMax: true} }

// addViews exports read accessors for nTables tables and the memory of a module.
func addViews(m *wb.Module, nTables int) {
	ty := m.Type(nil, tI32)
	for i := 0; i < nTables; i++ {
		t := uint32(i)
		m.ExportFunc(fmt.Sprintf("tsize%d", i), m.AddFunc(nil, tI32, nil, (&wb.Asm{}).TableSize(t).B))
		m.ExportFunc(fmt.Sprintf("tnull%d", i), m.AddFunc(tI32, tI32, nil, (&wb.Asm{}).LocalGet(0).TableGet(t).RefIsNull().B))
		m.ExportFunc(fmt.Sprintf("tcall%d", i), m.AddFunc(tI32, tI32, nil, (&wb.Asm{}).LocalGet(0).CallIndirect(ty, t).B))
	}
	m.ExportFunc("msize", m.AddFunc(nil, tI32, nil, (&wb.Asm{}).MemorySize().B))
	m.ExportFunc("mload", m.AddFunc(tI32, tI32, nil, (&wb.Asm{}).LocalGet(0).Mem(0x2d, 0, 0).B))
	m.ExportFunc("mload32", m.AddFunc(tI32, tI32, nil, (&wb.Asm{}).LocalGet(0).Mem(0x28, 2, 0).B))
}

// addSegProbes: dalive/ealive re-apply the module's passive segments to scratch locations (trap once dropped).
func addSegProbes(m *wb.Module, scratchTable uint32) {
	m.ExportFunc("dalive", m.AddFunc(nil, tI32, nil, (&wb.Asm{}).I32Const(addrScratch).I32Const(0).I32Const(2).MemoryInit(0).I32Const(1).B))
	m.ExportFunc("ealive", m.AddFunc(nil, tI32, nil, (&wb.Asm{}).I32Const(slotScratch).I32Const(0).I32Const(1).TableInit(0, scratchTable).I32Const(1).B))
}

func buildP4(c bcfg, which string) []byte {
	m := &wb.Module{DataCount: true}
	switch which {
	case "O":
		lim := c.memLim(pagesSM)
		m.Mem = &lim
		m.Tables = []wb.Table{{Elem: wb.FuncRef, Lim: tabLim(sizeST)}, {Elem: wb.FuncRef, Lim: tabLim(sizeX)}}
		m.Exports = append(m.Exports, wb.Export{Name: "mem", Kind: wb.KindMemory}, wb.Export{Name: "st", Kind: wb.KindTable, Idx: 0}, wb.Export{Name: "x", Kind: wb.KindTable, Idx: 1})
		m.ExportFunc("tick", m.AddFunc(nil, tI32, nil, (&wb.Asm{}).I32Const(111).B))
		m.DataCount = false
		addViews(m, 2)
	case "L":
		if c.LibImports {
			m.ImportFunc("O", "tick", nil, tI32)
		}
		m.Imports = append(m.Imports,
			wb.Import{Module: "O", Name: "x", Kind: wb.KindTable, Table: wb.Table{Elem: wb.FuncRef, Lim: tabLim(sizeX)}},
			wb.Import{Module: "O", Name: "st", Kind: wb.KindTable, Table: wb.Table{Elem: wb.FuncRef, Lim: tabLim(sizeST)}})
		if c.LibMemShared {
			m.Imports = append(m.Imports, wb.Import{Module: "O", Name: "mem", Kind: wb.KindMemory, Mem: c.memLim(pagesSM)})
		} else {
			lim := c.memLim(pagesPriv)
			m.Mem = &lim
		}
		m.Tables = []wb.Table{{Elem: wb.FuncRef, Lim: tabLim(sizeLT)}}
		const tS, tP = 1, 2
		fIdL := m.AddFunc(nil, tI32, nil, (&wb.Asm{}).I32Const(idL).B)
		fa := m.AddFunc(nil, tI32, nil, (&wb.Asm{}).I32Const(idFa).B)
		fb := m.AddFunc(nil, tI32, nil, (&wb.Asm{}).I32Const(idFb).B)
		m.ExportFunc("idL", fIdL)
		m.ExportFunc("fa", fa)
		m.ExportFunc("fb", fb)
		tyID := m.Type(nil, tI32)
		pick := func(a *wb.Asm) *wb.Asm { // x odd -> fa, even -> fb
			return a.LocalGet(0).I32Const(1).Op(0x71).If(wb.FuncRef).RefFunc(fa).Else().RefFunc(fb).End()
		}
		bodies := map[string]*wb.Asm{
			"canary":  (&wb.Asm{}).I32Const(idCanary),
			"tgrowS":  (&wb.Asm{}).RefNull(wb.FuncRef).I32Const(1).TableGrow(tS),
			"tgrowP":  (&wb.Asm{}).RefNull(wb.FuncRef).I32Const(1).TableGrow(tP),
			"mgrow":   (&wb.Asm{}).I32Const(1).MemoryGrow(),
			"reffunc": (&wb.Asm{}).I32Const(slotRef).RefFunc(fIdL).TableSet(tP).I32Const(slotRef).CallIndirect(tyID, tP),
			"tfillS":  pick((&wb.Asm{}).I32Const(slotFill)).I32Const(2).TableFill(tS).I32Const(0),
			"tfillP":  pick((&wb.Asm{}).I32Const(slotFill)).I32Const(2).TableFill(tP).I32Const(0),
			"tcopySP": (&wb.Asm{}).I32Const(slotCopy).I32Const(slotFill).I32Const(1).TableCopy(tP, tS).I32Const(0),
			"tcopyPS": (&wb.Asm{}).I32Const(slotCopy).I32Const(slotFill).I32Const(1).TableCopy(tS, tP).I32Const(0),
			"tinitS":  (&wb.Asm{}).I32Const(slotInit).I32Const(0).I32Const(1).TableInit(0, tS).I32Const(0),
			"tinitP":  (&wb.Asm{}).I32Const(slotInit).I32Const(0).I32Const(1).TableInit(0, tP).I32Const(0),
			"edrop":   (&wb.Asm{}).ElemDrop(0).I32Const(0),
			"minit":   (&wb.Asm{}).I32Const(addrInit).I32Const(0).I32Const(2).MemoryInit(0).I32Const(0),
			"ddrop":   (&wb.Asm{}).DataDrop(0).I32Const(0),
			"mfill":   (&wb.Asm{}).I32Const(addrFill).LocalGet(0).I32Const(2).MemoryFill().I32Const(0),
			"mcopy":   (&wb.Asm{}).I32Const(addrCopy).I32Const(addrFill).I32Const(2).MemoryCopy().I32Const(0),
			"notify":  (&wb.Asm{}).I32Const(addrWait).I32Const(1).AtomicMem(0x00, 2, 0),
			"wait": (&wb.Asm{}).I32Const(addrWait).LocalGet(0).Mem(0x36, 2, 0).
				I32Const(addrWait).LocalGet(0).I64Const(0).AtomicMem(0x01, 2, 0),
		}
		var disp []uint32
		for _, n := range append([]string{"canary"}, p4OpNames...) {
			f := m.AddFunc(tOp, tI32, nil, bodies[n].B)
			m.ExportFunc(n, f)
			disp = append(disp, f)
		}
		m.Elems = []wb.Elem{
			{Mode: 1, Funcs: []uint32{fa}},                  // passive segment 0
			{TableIdx: tS, Offset: wb.CI32(0), Funcs: disp}, // dispatch region of ST: slot 0 canary, 1.. operations
			{Mode: 2, Funcs: []uint32{fIdL, fb}},            // declarative: ref.func targets
		}
		m.Datas = []wb.Data{{Passive: true, Bytes: []byte{0x4C, 0x4D}}}
		addViews(m, 3)
		addSegProbes(m, tP)
	case "R":
		names := append([]string{"canary"}, p4OpNames...)
		var imps []uint32
		for _, n := range names {
			imps = append(imps, m.ImportFunc("L", n, tOp, tI32))
		}
		m.Tables = []wb.Table{{Elem: wb.FuncRef, Lim: tabLim(sizeRT0)}, {Elem: wb.FuncRef, Lim: tabLim(sizeRT0 + 1)}, {Elem: wb.FuncRef, Lim: tabLim(sizeRT0 + 2)}}
		lim := c.memLim(pagesRM)
		m.Mem = &lim
		for i, n := range names {
			m.ExportFunc(n, imps[i]) // re-export of the import
		}
		fid := m.AddFunc(nil, tI32, nil, (&wb.Asm{}).I32Const(idR).B)
		for i, n := range names {
			m.ExportFunc("wrap_"+n, m.AddFunc(tOp, tI32, nil, (&wb.Asm{}).LocalGet(0).Call(imps[i]).B))
		}
		m.Elems = []wb.Elem{{Mode: 1, Funcs: []uint32{fid}}}
		m.Datas = []wb.Data{{Passive: true, Bytes: []byte{0x52, 0x53}}}
		addViews(m, 3)
		addSegProbes(m, 2)
	case "A":
		names := append([]string{"canary"}, p4OpNames...)
		var imp, rex, nest []uint32
		for _, n := range names {
			imp = append(imp, m.ImportFunc("L", n, tOp, tI32))
		}
		for _, n := range names {
			rex = append(rex, m.ImportFunc("R", n, tOp, tI32))
		}
		for _, n := range names {
			nest = append(nest, m.ImportFunc("R", "wrap_"+n, tOp, tI32))
		}
		m.Imports = append(m.Imports, wb.Import{Module: "O", Name: "st", Kind: wb.KindTable, Table: wb.Table{Elem: wb.FuncRef, Lim: tabLim(sizeST)}})
		if c.LibMemShared {
			lim := c.memLim(pagesPriv)
			m.Mem = &lim
		} else {
			m.Imports = append(m.Imports, wb.Import{Module: "O", Name: "mem", Kind: wb.KindMemory, Mem: c.memLim(pagesSM)})
		}
		m.Tables = []wb.Table{{Elem: wb.FuncRef, Lim: tabLim(sizeAT)}, {Elem: wb.FuncRef, Lim: tabLim(sizeAT2)}}
		fid := m.AddFunc(nil, tI32, nil, (&wb.Asm{}).I32Const(idA).B)
		for i, n := range names {
			m.ExportFunc("imp_"+n, m.AddFunc(tOp, tI32, nil, (&wb.Asm{}).LocalGet(0).Call(imp[i]).B))
			m.ExportFunc("rex_"+n, m.AddFunc(tOp, tI32, nil, (&wb.Asm{}).LocalGet(0).Call(rex[i]).B))
			m.ExportFunc("nest_"+n, m.AddFunc(tOp, tI32, nil, (&wb.Asm{}).LocalGet(0).Call(nest[i]).B))
		}
		tyOp := m.Type(tOp, tI32)
		m.ExportFunc("ci", m.AddFunc(t2I32, tI32, nil, (&wb.Asm{}).LocalGet(1).LocalGet(0).CallIndirect(tyOp, 0).B))
		m.Elems = []wb.Elem{{Mode: 1, Funcs: []uint32{fid}}}
		m.Datas = []wb.Data{{Passive: true, Bytes: []byte{0x41, 0x42}}}
		addViews(m, 3)
		addSegProbes(m, 2)
	}
	return m.Encode()
}

// ---------------------------------------------------------------- model

type bmem struct {
	pages uint32
	b     map[uint32]byte
}

type bmodel struct {
	cfg  bcfg
	tabs map[string][]string // ST X LT AT AT2 RT0 RT1 RT2
	mems map[string]*bmem    // SM, P (the private one of L or A), RM
	segs map[string]bool     // L.data L.elem A.data A.elem R.data R.elem
}

func newBModel(c bcfg) *bmodel {
	m := &bmodel{cfg: c, tabs: map[string][]string{}, mems: map[string]*bmem{}, segs: map[string]bool{}}
	for n, s := range map[string]int{"ST": sizeST, "X": sizeX, "LT": sizeLT, "AT": sizeAT, "AT2": sizeAT2, "RT0": sizeRT0, "RT1": sizeRT0 + 1, "RT2": sizeRT0 + 2} {
		m.tabs[n] = make([]string, s)
	}
	m.tabs["ST"][0] = "canary"
	for i, n := range p4OpNames {
		m.tabs["ST"][1+i] = n
	}
	m.mems["SM"] = &bmem{pagesSM, map[uint32]byte{}}
	m.mems["P"] = &bmem{pagesPriv, map[uint32]byte{}}
	m.mems["RM"] = &bmem{pagesRM, map[uint32]byte{}}
	for _, s := range []string{"L.data", "L.elem", "A.data", "A.elem", "R.data", "R.elem"} {
		m.segs[s] = true
	}
	return m
}

func (m *bmodel) libMem() *bmem {
	if m.cfg.LibMemShared {
		return m.mems["SM"]
	}
	return m.mems["P"]
}

func (m *bmodel) key() string {
	var b strings.Builder
	for _, n := range []string{"ST", "X", "LT", "AT", "AT2", "RT0", "RT1", "RT2"} {
		t := m.tabs[n]
		fmt.Fprintf(&b, "%s%d[%s]", n, len(t), strings.Join(t[slotFill:slotRef+1], ","))
	}
	for _, n := range []string{"SM", "P", "RM"} {
		x := m.mems[n]
		fmt.Fprintf(&b, "|%s%d:%x,%x,%x,%x,%x,%x,%x", n, x.pages, x.b[addrInit], x.b[addrInit+1], x.b[addrFill], x.b[addrFill+1], x.b[addrCopy], x.b[addrCopy+1], x.b[addrWait])
	}
	fmt.Fprintf(&b, "|%v%v%v%v", m.segs["L.data"], m.segs["L.elem"], m.segs["A.data"], m.segs["A.elem"])
	return b.String()
}

// apply performs L's operation on L's objects (the specification: an instruction acts on the instance of the
// function that contains it, whoever called it).
func (m *bmodel) apply(op string, x uint32) string {
	st, lt, mem := "ST", "LT", m.libMem()
	grow := func(t string) string {
		if len(m.tabs[t])+1 > p4TabMax {
			return "ok:4294967295"
		}
		old := len(m.tabs[t])
		m.tabs[t] = append(m.tabs[t], "")
		return fmt.Sprintf("ok:%d", old)
	}
	pick := "fb"
	if x&1 == 1 {
		pick = "fa"
	}
	switch op {
	case "tgrowS":
		return grow(st)
	case "tgrowP":
		return grow(lt)
	case "mgrow":
		if mem.pages+1 > p4MemMax {
			return "ok:4294967295"
		}
		mem.pages++
		return fmt.Sprintf("ok:%d", mem.pages-1)
	case "reffunc":
		m.tabs[lt][slotRef] = "idL"
		return fmt.Sprintf("ok:%d", idL)
	case "tfillS":
		m.tabs[st][slotFill], m.tabs[st][slotFill+1] = pick, pick
	case "tfillP":
		m.tabs[lt][slotFill], m.tabs[lt][slotFill+1] = pick, pick
	case "tcopySP":
		m.tabs[lt][slotCopy] = m.tabs[st][slotFill]
	case "tcopyPS":
		m.tabs[st][slotCopy] = m.tabs[lt][slotFill]
	case "tinitS", "tinitP":
		if !m.segs["L.elem"] {
			return "trap:table"
		}
		t := st
		if op == "tinitP" {
			t = lt
		}
		m.tabs[t][slotInit] = "fa"
	case "edrop":
		m.segs["L.elem"] = false
	case "minit":
		if !m.segs["L.data"] {
			return "trap:oob-mem"
		}
		mem.b[addrInit], mem.b[addrInit+1] = 0x4C, 0x4D
	case "ddrop":
		m.segs["L.data"] = false
	case "mfill":
		mem.b[addrFill], mem.b[addrFill+1] = byte(x), byte(x)
	case "mcopy":
		mem.b[addrCopy], mem.b[addrCopy+1] = mem.b[addrFill], mem.b[addrFill+1]
	case "notify":
		return "ok:0"
	case "wait":
		mem.b[addrWait] = byte(x) // the i32.store before the wait (x < 256)
		if !m.cfg.SharedFlag {
			return "trap:unshared"
		}
		return "ok:2" // value equals the expected one, timeout 0 => timed out
	}
	return "ok:0"
}

var p4FnID = map[string]int{"idL": idL, "fa": idFa, "fb": idFb}

type bprobe struct {
	Label, Mod, Fn string
	Arg            uint64
	NArgs          int
	Want           string
}

var p4Addrs = []uint32{addrInit, addrInit + 1, addrFill, addrFill + 1, addrCopy, addrCopy + 1}

func (m *bmodel) observe() (o []bprobe) {
	view := func(mod string, tabs []string, mem *bmem, seg string) {
		for i, tn := range tabs {
			t := m.tabs[tn]
			o = append(o, bprobe{Label: fmt.Sprintf("%s.tsize%d(%s)", mod, i, tn), Mod: mod, Fn: fmt.Sprintf("tsize%d", i), Want: "ok:" + u(uint64(len(t)))})
			if mod == "R" {
				continue
			}
			for s := slotFill; s <= slotRef; s++ {
				p := bprobe{Mod: mod, Arg: uint64(s), NArgs: 1}
				if id, ok := p4FnID[t[s]]; ok {
					p.Label, p.Fn, p.Want = fmt.Sprintf("%s.tcall%d(%s)@%d", mod, i, tn, s), fmt.Sprintf("tcall%d", i), "ok:"+u(uint64(id))
				} else {
					p.Label, p.Fn, p.Want = fmt.Sprintf("%s.tnull%d(%s)@%d", mod, i, tn, s), fmt.Sprintf("tnull%d", i), "ok:1"
				}
				o = append(o, p)
			}
		}
		o = append(o, bprobe{Label: mod + ".msize", Mod: mod, Fn: "msize", Want: "ok:" + u(uint64(mem.pages))})
		if mod != "R" {
			for _, a := range p4Addrs {
				o = append(o, bprobe{Label: fmt.Sprintf("%s.mload@%d", mod, a), Mod: mod, Fn: "mload", Arg: uint64(a), NArgs: 1, Want: "ok:" + u(uint64(mem.b[a]))})
			}
			o = append(o, bprobe{Label: mod + ".mload32@64", Mod: mod, Fn: "mload32", Arg: addrWait, NArgs: 1, Want: "ok:" + u(uint64(mem.b[addrWait]))})
		}
		if seg != "" {
			w := "ok:1"
			if !m.segs[seg+".data"] {
				w = "trap:oob-mem"
			}
			o = append(o, bprobe{Label: mod + ".dalive", Mod: mod, Fn: "dalive", Want: w})
			w = "ok:1"
			if !m.segs[seg+".elem"] {
				w = "trap:table"
			}
			o = append(o, bprobe{Label: mod + ".ealive", Mod: mod, Fn: "ealive", Want: w})
		}
	}
	appMem := m.mems["SM"]
	if m.cfg.LibMemShared {
		appMem = m.mems["P"]
	}
	view("O", []string{"ST", "X"}, m.mems["SM"], "")
	view("L", []string{"X", "ST", "LT"}, m.libMem(), "L")
	view("A", []string{"ST", "AT", "AT2"}, appMem, "A")
	view("R", []string{"RT0", "RT1", "RT2"}, m.mems["RM"], "R")
	return
}

// ---------------------------------------------------------------- execution

type p4Env struct {
	rts      map[string]wazero.Runtime
	compiled map[string]wazero.CompiledModule
}

func newP4Env() *p4Env {
	e := &p4Env{rts: map[string]wazero.Runtime{}, compiled: map[string]wazero.CompiledModule{}}
	for _, en := range engineNames {
		e.rts[en] = wazero.NewRuntimeWithConfig(bg, runtimeConfig(en))
	}
	return e
}

func (e *p4Env) close() {
	for _, rt := range e.rts {
		rt.Close(bg)
	}
}

type bworld struct {
	engine string
	mods   map[string]api.Module
	fns    map[string]api.Function
	// paths found broken by the canary at setup (pre-existing re-export chain defect): skipped afterwards
	broken map[string]string
}

func (e *p4Env) newWorld(engine string, c bcfg) (*bworld, string) {
	w := &bworld{engine: engine, mods: map[string]api.Module{}, fns: map[string]api.Function{}, broken: map[string]string{}}
	for _, s := range []string{"O", "L", "R", "A"} {
		key := engine + "|" + c.String() + "|" + s
		cm := e.compiled[key]
		if cm == nil {
			var err error
			cm, err = e.rts[engine].CompileModule(bg, buildP4(c, s))
			if err != nil {
				w.close()
				return nil, fmt.Sprintf("%s: compile: %v", s, err)
			}
			e.compiled[key] = cm
		}
		mod, err := e.rts[engine].InstantiateModule(bg, cm, modCfg.WithName(s))
		if err != nil {
			w.close()
			return nil, fmt.Sprintf("%s: instantiate: %v", s, err)
		}
		w.mods[s] = mod
	}
	return w, ""
}

func (w *bworld) close() {
	for _, s := range []string{"A", "R", "L", "O"} {
		if m := w.mods[s]; m != nil {
			m.Close(bg)
		}
	}
}

func (w *bworld) call(mod, fn string, args ...uint64) (res string) {
	key := mod + "." + fn
	f := w.fns[key]
	if f == nil {
		func() {
			defer func() {
				if r := recover(); r != nil {
					res = fmt.Sprintf("panic:ExportedFunction(%s): %v", key, r)
				}
			}()
			f = w.mods[mod].ExportedFunction(fn)
		}()
		if res != "" {
			return res
		}
		if f == nil {
			return "err:no-such-export:" + key
		}
		w.fns[key] = f
	}
	defer func() {
		if r := recover(); r != nil {
			res = fmt.Sprintf("panic:Call(%s): %v", key, r)
		}
	}()
	out, err := f.Call(bg, args...)
	if err != nil {
		return canonErr(err)
	}
	if len(out) == 0 {
		return "ok"
	}
	return "ok:" + u(out[0])
}

// via runs L's operation `op` (or the canary) with value x, reached through the given path.
func (w *bworld) via(path, op string, x uint32) string {
	switch path {
	case "direct":
		return w.call("L", op, uint64(x))
	case "imp":
		return w.call("A", "imp_"+op, uint64(x))
	case "ci":
		slot := 0
		for i, n := range p4OpNames {
			if n == op {
				slot = 1 + i
			}
		}
		return w.call("A", "ci", uint64(slot), uint64(x))
	case "rex":
		return w.call("A", "rex_"+op, uint64(x))
	case "nest":
		return w.call("A", "nest_"+op, uint64(x))
	case "hostrex":
		return w.call("R", op, uint64(x))
	}
	return "err:path"
}

type p4Step struct {
	Op, Path string
}

func (s p4Step) String() string { return s.Op + "@" + s.Path }

func p4Alphabet() (a []p4Step) {
	for _, op := range p4OpNames {
		for _, p := range p4Paths {
			a = append(a, p4Step{op, p})
		}
	}
	return
}

type p4Viol struct {
	Sig    string   `json:"sig"`
	What   string   `json:"what"`
	Cfg    bcfg     `json:"bcfg"`
	Word   []string `json:"word"`
	Engine string   `json:"engine"`
}

// runWord4 executes one word on both engines in lockstep with the model.
func (e *p4Env) runWord4(c bcfg, alpha []p4Step, word []int, st *p2Stats, trace func(string)) (vs []p4Viol) {
	names := make([]string, len(word))
	for i, k := range word {
		names[i] = alpha[k].String()
	}
	report := func(sig, what, engine string) {
		vs = append(vs, p4Viol{Sig: sig, What: what, Cfg: c, Word: names, Engine: engine})
	}
	m := newBModel(c)
	var ws []*bworld
	defer func() {
		for _, w := range ws {
			w.close()
		}
	}()
	for _, en := range engineNames {
		w, errs := e.newWorld(en, c)
		if w == nil {
			report("p4:setup:graph-not-instantiable", fmt.Sprintf("[%s %s] %s", en, c, errs), en)
			return
		}
		ws = append(ws, w)
		// canary: every path must reach L.canary. A path that does not is reported once and skipped afterwards.
		for _, p := range p4Paths {
			if got := w.via(p, "canary", 0); got != "ok:"+u(idCanary) {
				w.broken[p] = got
				sig := "p4:canary@" + p + ":" + sigVal(strings.SplitN(got, "(", 2)[0])
				if p == "rex" || p == "hostrex" {
					sig = "p4:reexport-chain@" + p + ":" + sigVal(strings.SplitN(got, "(", 2)[0])
				}
				report(sig, fmt.Sprintf("[%s %s] L.canary reached through path %q returns %s instead of %d (L's function is exported by L, imported and re-exported by R, imported by A)", en, c, p, got, idCanary), en)
			}
		}
	}
	st.Words++
	compare := func(stepName string, upto int) bool {
		want := m.observe()
		ok := true
		for _, w := range ws {
			st.Reads += int64(len(want))
			for i := range want {
				p := &want[i]
				var got string
				if p.NArgs == 1 {
					got = w.call(p.Mod, p.Fn, p.Arg)
				} else {
					got = w.call(p.Mod, p.Fn)
				}
				if got != p.Want {
					report("p4:"+stepName+":obs:"+digits.ReplaceAllString(strings.SplitN(p.Label, "@", 2)[0], "#")+"/spec:"+sigVal(p.Want),
						fmt.Sprintf("[%s %s] after %v: read %s = %s, the model says %s (an operation of L acts on L's objects whoever entered the call)", w.engine, c, names[:upto], p.Label, got, p.Want), w.engine)
					ok = false
					break
				}
			}
		}
		st.EngineCompares += int64(len(want))
		if trace != nil {
			trace("  model: " + m.key())
		}
		return ok
	}
	if !compare("init", 0) {
		return
	}
	st.States[h64("p4|"+c.String()+"#"+m.key())] = struct{}{}
	for i, k := range word {
		s := alpha[k]
		skip := false
		for _, w := range ws {
			if _, b := w.broken[s.Path]; b {
				skip = true
			}
		}
		if skip {
			st.NA++
			if trace != nil {
				trace(fmt.Sprintf("step %d %s: path unusable (reported by the canary), skipped", i, s))
			}
			continue
		}
		x := uint32(k + 1)
		before := m.key()
		want := m.apply(s.Op, x)
		st.Steps++
		st.Trans[h64("p4|"+c.String()+"#"+before+"#"+s.String())] = struct{}{}
		st.Outcomes["p4:"+s.Op+"="+sigVal(want)]++
		for _, w := range ws {
			got := w.via(s.Path, s.Op, x)
			if trace != nil {
				trace(fmt.Sprintf("step %d %s [%s]: %s (model: %s)", i, s, w.engine, got, want))
			}
			if got != want {
				report("p4:"+s.String()+":result:"+sigVal(strings.SplitN(got, "(", 2)[0])+"/spec:"+sigVal(want),
					fmt.Sprintf("[%s %s] word %v: step %d returned %s, the specification says %s", w.engine, c, names[:i+1], i, got, want), w.engine)
			}
		}
		if !compare(s.String(), i+1) {
			return
		}
		st.States[h64("p4|"+c.String()+"#"+m.key())] = struct{}{}
	}
	return
}
