package main

// Part 1b — import matching against RE-EXPORTED objects. A defines a memory, two tables, two globals and three
// functions of different signatures. A middle module B imports all of them in one of several import-section
// layouts (function imports first / one or three non-function imports before / between the function imports /
// function imports in another order than A defines them) and re-exports every import under the same name; with chain
// length 2 a second middle module B2 (same layout) does the same with B's re-exports. The importer C declares ONE
// import of the end of the chain with every type of the part-1 universe of that kind. The type of a re-export is the
// type of the original object, so acceptance must equal specMatch(type in A, declared type); an accepted import is
// used (functions are CALLED through the chain and must reach exactly A's function).

import (
	"fmt"
	"sort"
	"strings"

	"github.com/tetratelabs/wazero/verif/wb"
)

var p1bLayouts = map[string][]string{
	"funcs-first":     {"f0", "f1", "f2", "m", "g0", "g1", "t0", "t1"},
	"1-before":        {"m", "f0", "f1", "f2", "g0", "g1", "t0", "t1"},
	"3-before":        {"m", "g0", "t0", "f0", "f1", "f2", "g1", "t1"},
	"1-and-3-between": {"f0", "g1", "f1", "m", "g0", "t1", "f2", "t0"},
	"reordered":       {"g0", "f2", "t0", "f1", "m", "f0", "g1", "t1"},
}

var p1bLayoutNames = []string{"funcs-first", "1-before", "3-before", "1-and-3-between", "reordered"}

var p1bObjects = map[string]extType{
	"f0": {Kind: wb.KindFunc, Results: []byte{wb.I32}},
	"f1": {Kind: wb.KindFunc, Params: []byte{wb.I32}, Results: []byte{wb.I32}},
	"f2": {Kind: wb.KindFunc, Params: []byte{wb.I32, wb.I64}},
	"g0": {Kind: wb.KindGlobal, Val: wb.I32},
	"g1": {Kind: wb.KindGlobal, Val: wb.F64, Mut: true},
	"t0": {Kind: wb.KindTable, Elem: wb.FuncRef, Lim: wb.Limits{Min: 2, Max: 4, HasMax: true}},
	"t1": {Kind: wb.KindTable, Elem: wb.ExternRef, Lim: wb.Limits{Min: 1}},
	"m":  {Kind: wb.KindMemory, Lim: wb.Limits{Min: 1, Max: 3, HasMax: true}},
}

var p1bNames = []string{"f0", "f1", "f2", "g0", "g1", "t0", "t1", "m"}

func p1bExpectedProbe(name string) string {
	switch name {
	case "f0", "f1", "f2":
		return fmt.Sprintf("last=%d", name[1]-'0'+1)
	case "g0":
		return fmt.Sprintf("%#x", 1000)
	case "g1":
		return fmt.Sprintf("%#x", uint64(0x3ff0000000000007))
	case "t0":
		return fmt.Sprintf("%#x", 2<<8|0)
	case "t1":
		return fmt.Sprintf("%#x", 1<<8|1)
	}
	return fmt.Sprintf("%#x", 1<<8|0x5B)
}

func buildP1bA() []byte {
	m := &wb.Module{}
	last := m.AddGlobal(wb.I32, true, wb.CI32(0))
	for k, n := range []string{"f0", "f1", "f2"} {
		t := p1bObjects[n]
		a := (&wb.Asm{}).I32Const(int32(k + 1)).GlobalSet(last)
		for _, r := range t.Results {
			zero(a, r)
		}
		m.ExportFunc(n, m.AddFunc(t.Params, t.Results, nil, a.B))
	}
	m.ExportFunc("last", m.AddFunc(nil, []byte{wb.I32}, nil, (&wb.Asm{}).GlobalGet(last).B))
	m.ExportFunc("reset", m.AddFunc(nil, nil, nil, (&wb.Asm{}).I32Const(0).GlobalSet(last).B))
	g0 := m.AddGlobal(wb.I32, false, wb.CI32(1000))
	g1 := m.AddGlobal(wb.F64, true, wb.CF64(0x3ff0000000000007))
	m.Tables = []wb.Table{{Elem: wb.FuncRef, Lim: p1bObjects["t0"].Lim}, {Elem: wb.ExternRef, Lim: p1bObjects["t1"].Lim}}
	m.Elems = []wb.Elem{{Offset: wb.CI32(0), Funcs: []uint32{0}}}
	lim := p1bObjects["m"].Lim
	m.Mem = &lim
	m.Datas = []wb.Data{{Offset: wb.CI32(3), Bytes: []byte{0x5B}}}
	m.Exports = append(m.Exports,
		wb.Export{Name: "g0", Kind: wb.KindGlobal, Idx: g0}, wb.Export{Name: "g1", Kind: wb.KindGlobal, Idx: g1},
		wb.Export{Name: "t0", Kind: wb.KindTable, Idx: 0}, wb.Export{Name: "t1", Kind: wb.KindTable, Idx: 1},
		wb.Export{Name: "m", Kind: wb.KindMemory, Idx: 0})
	return m.Encode()
}

// buildP1bMiddle imports every object from `from` in the order of the layout and re-exports each under its name.
func buildP1bMiddle(from, layout string) []byte {
	m := &wb.Module{}
	var idx [4]uint32 // next index per kind
	for _, n := range p1bLayouts[layout] {
		t := p1bObjects[n]
		im := wb.Import{Module: from, Name: n, Kind: t.Kind}
		switch t.Kind {
		case wb.KindFunc:
			im.TypeIdx = m.Type(t.Params, t.Results)
		case wb.KindTable:
			im.Table = wb.Table{Elem: t.Elem, Lim: t.Lim}
		case wb.KindMemory:
			im.Mem = t.Lim
		case wb.KindGlobal:
			im.GlobalType, im.GlobalMut = t.Val, t.Mut
		}
		m.Imports = append(m.Imports, im)
		m.Exports = append(m.Exports, wb.Export{Name: n, Kind: t.Kind, Idx: idx[t.Kind]})
		idx[t.Kind]++
	}
	return m.Encode()
}

type p1bShard struct {
	Layout string `json:"layout"`
	Chain  int    `json:"chain"` // number of re-exporting middle modules (1 or 2)
}

type p1bCase struct {
	Shard  p1bShard `json:"shard"`
	Name   string   `json:"name"`
	Import extType  `json:"import"`
}

func p1bShards() (ss []p1bShard) {
	for _, l := range p1bLayoutNames {
		ss = append(ss, p1bShard{l, 1}, p1bShard{l, 2})
	}
	return
}

func (u *universe) p1bCases(s p1bShard) (cs []p1bCase) {
	for _, n := range p1bNames {
		var types []extType
		switch p1bObjects[n].Kind {
		case wb.KindFunc:
			types = u.impFuncs
		case wb.KindGlobal:
			types = u.impGlobs
		case wb.KindTable:
			types = u.impTables
		default:
			types = u.impMems
		}
		for _, t := range types {
			cs = append(cs, p1bCase{s, n, t})
		}
	}
	return
}

// runP1bShard builds the chain A <- B (<- B2) once per engine and tries every importer against its end.
func (e *p1Env) runP1bShard(s p1bShard, engines []string, cases []p1bCase, each func(c p1bCase, engine string, r p1Result)) {
	for _, en := range engines {
		rt := e.rts[en]
		A, err := rt.InstantiateWithConfig(bg, buildP1bA(), modCfg.WithName("A1b"))
		if err != nil {
			panic(fmt.Sprintf("harness: part 1b exporter not instantiable on %s: %v", en, err))
		}
		end := "B"
		B, err := rt.InstantiateWithConfig(bg, buildP1bMiddle("A1b", s.Layout), modCfg.WithName("B"))
		if err != nil {
			// the middle module declares exactly A's types: a failure here is itself a wrong rejection
			for _, c := range cases {
				each(c, en, p1Result{Err: "middle module B rejected: " + err.Error()})
			}
			A.Close(bg)
			continue
		}
		var B2closer func()
		if s.Chain == 2 {
			B2, err := rt.InstantiateWithConfig(bg, buildP1bMiddle("B", s.Layout), modCfg.WithName("B2"))
			if err != nil {
				for _, c := range cases {
					each(c, en, p1Result{Err: "middle module B2 rejected: " + err.Error()})
				}
				B.Close(bg)
				A.Close(bg)
				continue
			}
			B2closer = func() { B2.Close(bg) }
			end = "B2"
		}
		last, reset := A.ExportedFunction("last"), A.ExportedFunction("reset")
		for _, c := range cases {
			if _, err := reset.Call(bg); err != nil {
				panic("harness: part 1b reset: " + err.Error())
			}
			each(c, en, runImporterCase(rt, last, buildImporterFrom(end, c.Name, c.Import), c.Import.Kind == wb.KindFunc))
		}
		if B2closer != nil {
			B2closer()
		}
		B.Close(bg)
		A.Close(bg)
	}
}

func p1bJudge(c p1bCase, engine string, r p1Result) (outcome, sig, what string) {
	ex := p1bObjects[c.Name]
	reasons := specMatch(ex, c.Import)
	sort.Strings(reasons)
	rs := strings.Join(reasons, "+")
	kind := kindNames[ex.Kind]
	desc := fmt.Sprintf("[%s] A defines %q = %s; %d re-exporting middle module(s) with import layout %q %v; importer declares %s", engine, c.Name, ex, c.Shard.Chain, c.Shard.Layout, p1bLayouts[c.Shard.Layout], c.Import)
	switch {
	case strings.HasPrefix(r.Err, "middle module"):
		return "middle-rejected", "rematch:middle-module-with-equal-types-rejected", desc + ": " + r.Err
	case strings.HasPrefix(r.Err, "compile: "):
		return "importer-rejected-at-compile", "rematch:" + kind + ":valid-importer-rejected-at-compile", desc + ": " + r.Err
	case r.Accepted && rs != "":
		return "accepted-wrongly", "rematch:" + kind + ":accepted-but-spec-rejects:" + rs, desc + ": instantiation succeeded, the specification rejects it (" + rs + "); use of the import: " + r.Probe
	case !r.Accepted && rs == "":
		return "rejected-wrongly", "rematch:" + kind + ":rejected-but-spec-accepts", desc + ": instantiation failed (" + r.Err + "), the specification accepts it"
	case !r.Accepted:
		if cl := canonInstErr(fmt.Errorf("%s", r.Err)); cl != "fail:link" {
			return "rejected-not-link-error", "rematch:" + kind + ":rejection-is-not-a-link-error", desc + ": " + r.Err
		}
		return "re:rejected:" + kind + ":" + rs, "", ""
	}
	if exp := p1bExpectedProbe(c.Name); r.Probe != exp {
		return "linked-to-wrong-object", "rematch:" + kind + ":accepted-import-reads-wrong-object", desc + fmt.Sprintf(": use through the chain = %s, A's object gives %s", r.Probe, exp)
	}
	return "re:accepted:" + kind, "", ""
}
