// C04 — linked modules share state exactly as the specification says.
//
// Part 1 (part1.go): exhaustive import matching over a finite type universe, acceptance compared with an
// independent implementation of the specification's import-matching relation.
// Part 2 (part2_*.go): every operation word up to depth d over an alphabet of cross-instance operations is
// replayed from a fresh module graph on both engines in lockstep with a reference model (one Go object per
// shared extern); after every step every shared object is read through every side and through the host API.
// All cases run in supervised child processes (a wrong link can fault inside generated code).
package main

import (
	"encoding/base64"
	"encoding/json"
	"fmt"
	"os"
	"runtime"
	"runtime/debug"
	"sort"
	"strconv"
	"strings"
	"time"

	"github.com/tetratelabs/wazero/verif/fw"
)

// ---------------------------------------------------------------- case list (identical in parent and children)

type caseDef struct {
	Part   int       `json:"part"`             // 1 import matching, 2 words, 3 consequence of the shared-flag mismatch
	Shard  *p1Shard  `json:"shard,omitempty"`  // part 1
	Cfg    *gcfg     `json:"cfg,omitempty"`    // part 2
	Prefix []int     `json:"prefix,omitempty"` // part 2: first operations of every word of the case
	Depth  int       `json:"depth,omitempty"`  // part 2: word length
	Engine string    `json:"engine,omitempty"` // part 3
	BCfg   *bcfg     `json:"bcfg,omitempty"`   // part 4
	P9a    *p9aCase  `json:"p9a,omitempty"`    // part 9a
	RShard *p1bShard `json:"rshard,omitempty"` // part 6 (= part 1b: import matching against re-exports)
	P10    *p10Shard `json:"p10,omitempty"`    // part 10 (segment lists x feature configuration), with Engine
	P11    *p11Shard `json:"p11,omitempty"`    // part 11 (import limits around the current size of grown tables / memories)
}

var p2Configs = []gcfg{{"EI", false}, {"EIJ", false}, {"EI", true}, {"EIJ", true}}

func depthFor(tier string, c gcfg) int {
	if tier == "thorough" {
		return 4
	}
	return 3
}

func buildCases(tier string, u *universe) (cs []caseDef) {
	defer func() { // VERIF_C04_PARTS=1,3 restricts a run to some parts (debugging aid; evidence then says so)
		if f := os.Getenv("VERIF_C04_PARTS"); f != "" {
			var keep []caseDef
			for _, c := range cs {
				if strings.Contains(f, fmt.Sprint(c.Part)) {
					keep = append(keep, c)
				}
			}
			cs = keep
		}
	}()
	for _, s := range u.shards() {
		s := s
		cs = append(cs, caseDef{Part: 1, Shard: &s})
	}
	for _, en := range engineNames {
		cs = append(cs, caseDef{Part: 3, Engine: en})
	}
	for _, en := range engineNames {
		cs = append(cs, caseDef{Part: 7, Engine: en})
	}
	for _, c := range p9aCases() {
		c := c
		cs = append(cs, caseDef{Part: 9, P9a: &c})
	}
	for _, sh := range p10Shards() {
		sh := sh
		for _, en := range engineNames {
			cs = append(cs, caseDef{Part: 10, P10: &sh, Engine: en})
		}
	}
	for a := range p9Alphabet() {
		cs = append(cs, caseDef{Part: 9, Prefix: []int{a}, Depth: 3})
	}
	for _, sh := range p11Shards(tier) {
		sh := sh
		cs = append(cs, caseDef{Part: 11, P11: &sh})
	}
	for a := range p8Alphabet() {
		cs = append(cs, caseDef{Part: 8, Prefix: []int{a}, Depth: 3})
	}
	for _, s := range p1bShards() {
		s := s
		cs = append(cs, caseDef{Part: 6, RShard: &s})
	}
	for a := range p5Alphabet() {
		d := 3
		if tier == "thorough" {
			d = 4
		}
		cs = append(cs, caseDef{Part: 5, Prefix: []int{a}, Depth: d})
	}
	na := len(p4Alphabet())
	for i := range p4ConfigsQuick {
		c := p4ConfigsQuick[i]
		d := 2
		if tier == "thorough" && i < 2 { // depth 3 for the two unshared-flag configurations without lib imports
			d = 3
		}
		for a := 0; a < na; a++ {
			cs = append(cs, caseDef{Part: 4, BCfg: &c, Prefix: []int{a}, Depth: d})
		}
	}
	if tier == "thorough" {
		for i := range p4ConfigsExtra {
			c := p4ConfigsExtra[i]
			for a := 0; a < na; a++ {
				cs = append(cs, caseDef{Part: 4, BCfg: &c, Prefix: []int{a}, Depth: 2})
			}
		}
	}
	for i := range p2Configs {
		c := p2Configs[i]
		n := len(buildOps(c))
		d := depthFor(tier, c)
		for a := 0; a < n; a++ {
			for b := 0; b < n; b++ {
				cs = append(cs, caseDef{Part: 2, Cfg: &c, Prefix: []int{a, b}, Depth: d})
			}
		}
	}
	return
}

// ---------------------------------------------------------------- child side

type caseResult struct {
	Evals    int64             `json:"evals"`
	Steps    int64             `json:"steps,omitempty"`
	NA       int64             `json:"na,omitempty"`
	Reads    int64             `json:"reads,omitempty"`
	EngCmp   int64             `json:"engcmp,omitempty"`
	Outcomes map[string]int64  `json:"outcomes"`
	States   []uint64          `json:"states,omitempty"`
	Trans    []uint64          `json:"trans,omitempty"`
	Pairs    []uint64          `json:"pairs,omitempty"` // part 1: distinct (current export type, import type) pairs
	Progs    []uint64          `json:"progs,omitempty"` // part 10: distinct (feature configuration, program) pairs
	Viols    []json.RawMessage `json:"viols,omitempty"`
	Flaky    []string          `json:"flaky,omitempty"`
	Sample   any               `json:"sample,omitempty"`
}

type p1Viol struct {
	Sig    string `json:"sig"`
	What   string `json:"what"`
	Case   p1Case `json:"case"`
	Engine string `json:"engine"`
	Tier   string `json:"tier"` // the type universe (and so the meaning of variant/export indices) depends on the tier
}

type childState struct {
	tier      string
	u         *universe
	p1        *p1Env
	p2        *p2Env
	p4        *p4Env
	p5        *p5Env
	p8        *p8Env
	p9        *p9Env
	ops       map[string][]opDef
	confirmed map[string]bool
}

func (cs *childState) opsFor(c gcfg) []opDef {
	if o := cs.ops[c.String()]; o != nil {
		return o
	}
	o := buildOps(c)
	cs.ops[c.String()] = o
	return o
}

func setKeys(m map[uint64]struct{}) []uint64 {
	out := make([]uint64, 0, len(m))
	for k := range m {
		out = append(out, k)
	}
	sort.Slice(out, func(i, j int) bool { return out[i] < out[j] })
	return out
}

func (cs *childState) runCase(cd caseDef) caseResult {
	res := caseResult{Outcomes: map[string]int64{}}
	switch cd.Part {
	case 1:
		if cs.p1 == nil {
			cs.p1 = newP1Env(cs.u)
		}
		pairs := map[uint64]struct{}{}
		cs.p1.runShard(*cd.Shard, func(c p1Case, engine string, r p1Result) {
			res.Evals++
			outcome, sig, what := cs.u.p1Judge(c, engine, r)
			res.Outcomes["p1:"+outcome]++
			ex, _ := cs.u.exportType(c.Variant, c.Name)
			pairs[h64(currentType(ex, c.Pregrow).String()+"|"+c.Name[:1]+"|"+c.Import.String())] = struct{}{}
			if sig == "" {
				return
			}
			if !cs.confirmed["1|"+engine+"|"+sig] {
				// confirm once per signature in a fresh runtime
				r2 := replayP1(cs.u, c, engine, nil)
				if _, sig2, _ := cs.u.p1Judge(c, engine, r2); sig2 != sig {
					res.Flaky = append(res.Flaky, fmt.Sprintf("part1 %s: %s not reproduced in a fresh runtime (%q)", sig, what, sig2))
					return
				}
				cs.confirmed["1|"+engine+"|"+sig] = true
			}
			b, _ := json.Marshal(p1Viol{sig, what, c, engine, cs.tier})
			res.Viols = append(res.Viols, b)
		})
		res.Pairs = setKeys(pairs)
		res.Sample = map[string]any{"part": 1, "exporter_memory": limString(cs.u.expMems[cd.Shard.Variant]), "pregrow": cd.Shard.Pregrow, "pairs": len(pairs)}
	case 3:
		outcome, v := consequenceCase(cd.Engine)
		res.Evals = 1
		res.Outcomes["p3:"+cd.Engine+":"+outcome] = 1
		if v != nil {
			b, _ := json.Marshal(v)
			res.Viols = append(res.Viols, b)
		}
	case 9:
		if cd.P9a != nil {
			outcome, v := runP9a(*cd.P9a)
			res.Evals = 1
			res.Outcomes["p9:failed-instantiation("+cd.P9a.Fail+"):"+outcome]++
			if v != nil {
				b, _ := json.Marshal(v)
				res.Viols = append(res.Viols, b)
			}
			break
		}
		if cs.p9 == nil {
			cs.p9 = newP9Env()
		}
		alpha9 := p9Alphabet()
		st9 := newP2Stats()
		word9 := make([]int, cd.Depth)
		copy(word9, cd.Prefix)
		var rec9 func(pos int)
		rec9 = func(pos int) {
			if pos == cd.Depth {
				for _, v := range cs.p9.runWord9(alpha9, word9, st9, nil) {
					key := "9|" + v.Engine + "|" + v.Sig
					if !cs.confirmed[key] {
						fresh := newP9Env()
						again := fresh.runWord9(alpha9, word9, newP2Stats(), nil)
						fresh.close()
						found := false
						for _, a := range again {
							if a.Sig == v.Sig && a.Engine == v.Engine {
								found = true
							}
						}
						if !found {
							res.Flaky = append(res.Flaky, fmt.Sprintf("part9 %s: %s not reproduced in a fresh runtime", v.Sig, v.What))
							continue
						}
						cs.confirmed[key] = true
					}
					b, _ := json.Marshal(v)
					res.Viols = append(res.Viols, b)
				}
				return
			}
			for k := range alpha9 {
				word9[pos] = k
				rec9(pos + 1)
			}
		}
		rec9(len(cd.Prefix))
		res.Evals = st9.Words * int64(len(engineNames))
		res.Steps, res.Reads, res.EngCmp = st9.Steps, st9.Reads, st9.EngineCompares
		for k, v := range st9.Outcomes {
			res.Outcomes[k] = v
		}
		res.States, res.Trans = setKeys(st9.States), setKeys(st9.Trans)
	case 8:
		if cs.p8 == nil {
			cs.p8 = newP8Env()
		}
		alpha := p8Alphabet()
		st := newP2Stats()
		word := make([]int, cd.Depth)
		copy(word, cd.Prefix)
		var rec func(pos int)
		rec = func(pos int) {
			if pos == cd.Depth {
				for _, v := range cs.p8.runWord8(alpha, word, st, nil) {
					key := "8|" + v.Engine + "|" + v.Sig
					if !cs.confirmed[key] {
						fresh := newP8Env()
						again := fresh.runWord8(alpha, word, newP2Stats(), nil)
						fresh.close()
						found := false
						for _, a := range again {
							if a.Sig == v.Sig && a.Engine == v.Engine {
								found = true
							}
						}
						if !found {
							res.Flaky = append(res.Flaky, fmt.Sprintf("part8 %s: %s not reproduced in a fresh runtime", v.Sig, v.What))
							continue
						}
						cs.confirmed[key] = true
					}
					b, _ := json.Marshal(v)
					res.Viols = append(res.Viols, b)
				}
				return
			}
			for k := range alpha {
				word[pos] = k
				rec(pos + 1)
			}
		}
		rec(len(cd.Prefix))
		res.Evals = st.Words * int64(len(engineNames))
		res.Steps, res.Reads, res.EngCmp = st.Steps, st.Reads, st.EngineCompares
		for k, v := range st.Outcomes {
			res.Outcomes[k] = v
		}
		res.States, res.Trans = setKeys(st.States), setKeys(st.Trans)
		names := []string{}
		for _, k := range word {
			names = append(names, alpha[k].String())
		}
		res.Sample = map[string]any{"part": 8, "last_word_of_case": names}
	case 10:
		oc, evals, reads, progs, vs, flaky := runP10Shard(cd.Engine, cs.tier, *cd.P10)
		res.Evals, res.Reads, res.Progs, res.Flaky = evals, reads, progs, flaky
		for k, v := range oc {
			res.Outcomes[k] = v
		}
		perSig := map[string]int{}
		for _, v := range vs {
			if perSig[v.Sig]++; perSig[v.Sig] > 2 { // the first two programs per signature and shard are enough to replay
				continue
			}
			b, _ := json.Marshal(v)
			res.Viols = append(res.Viols, b)
		}
		res.Sample = map[string]any{"part": 10, "engine": cd.Engine, "features": cd.P10.Feat, "programs": evals}
	case 7:
		oc, evals, vs := runP7(cd.Engine)
		res.Evals = evals
		for k, v := range oc {
			res.Outcomes[k] = v
		}
		for _, v := range vs {
			b, _ := json.Marshal(v)
			res.Viols = append(res.Viols, b)
		}
	case 11:
		if cs.p1 == nil {
			cs.p1 = newP1Env(cs.u)
		}
		pairs := map[uint64]struct{}{}
		cases := p11Cases(*cd.P11)
		for _, engine := range engineNames {
			engine := engine
			gv := p11Run(cs.p1.rts[engine], engine, *cd.P11, cases, func(c p11Case, r p1Result) {
				res.Evals++
				outcome, sig, what := p11Judge(c, engine, r)
				res.Outcomes["p11:"+outcome]++
				pairs[h64(fmt.Sprintf("p11|%v|%s|%s|%s", c.Shard.Host, p11Current(c.Shard, c.Name), p11Declared(c.Shard, c.Name), c.Import))] = struct{}{}
				if sig == "" {
					return
				}
				if !cs.confirmed["11|"+engine+"|"+sig] {
					r2, _ := replayP11(c, engine)
					if _, sig2, _ := p11Judge(c, engine, r2); sig2 != sig {
						res.Flaky = append(res.Flaky, fmt.Sprintf("part11 %s: %s not reproduced in a fresh runtime (%q)", sig, what, sig2))
						return
					}
					cs.confirmed["11|"+engine+"|"+sig] = true
				}
				b, _ := json.Marshal(map[string]any{"sig": sig, "what": what, "case": c, "engine": engine})
				res.Viols = append(res.Viols, b)
			})
			for _, g := range gv {
				b, _ := json.Marshal(map[string]any{"sig": g.Sig, "what": g.What, "case": p11Case{Shard: *cd.P11, Name: "m"}, "engine": engine})
				res.Viols = append(res.Viols, b)
			}
		}
		res.Pairs = setKeys(pairs)
		res.Sample = map[string]any{"part": 11, "mem": limString(p11Mems[cd.P11.Mem]), "history": cd.P11.Hist, "host": cd.P11.Host, "pairs": len(pairs)}
	case 6:
		if cs.p1 == nil {
			cs.p1 = newP1Env(cs.u)
		}
		pairs := map[uint64]struct{}{}
		cases := cs.u.p1bCases(*cd.RShard)
		cs.p1.runP1bShard(*cd.RShard, engineNames, cases, func(c p1bCase, engine string, r p1Result) {
			res.Evals++
			outcome, sig, what := p1bJudge(c, engine, r)
			res.Outcomes["p1b:"+outcome]++
			pairs[h64(fmt.Sprintf("re|%s|%d|%s|%s", c.Shard.Layout, c.Shard.Chain, c.Name, c.Import))] = struct{}{}
			if sig == "" {
				return
			}
			if !cs.confirmed["6|"+engine+"|"+sig] {
				if _, sig2, _ := p1bJudge(c, engine, replayP1b(cs.u, c, engine)); sig2 != sig {
					res.Flaky = append(res.Flaky, fmt.Sprintf("part1b %s: %s not reproduced in a fresh runtime (%q)", sig, what, sig2))
					return
				}
				cs.confirmed["6|"+engine+"|"+sig] = true
			}
			b, _ := json.Marshal(map[string]any{"sig": sig, "what": what, "case": c, "engine": engine})
			res.Viols = append(res.Viols, b)
		})
		res.Pairs = setKeys(pairs)
		res.Sample = map[string]any{"part": "1b", "layout": cd.RShard.Layout, "chain": cd.RShard.Chain, "pairs": len(pairs)}
	case 5:
		if cs.p5 == nil {
			cs.p5 = newP5Env()
		}
		alpha := p5Alphabet()
		st := newP2Stats()
		word := make([]int, cd.Depth)
		copy(word, cd.Prefix)
		var rec func(pos int)
		rec = func(pos int) {
			if pos == cd.Depth {
				for _, v := range cs.p5.runWord5(alpha, word, st, nil) {
					key := "5|" + v.Engine + "|" + v.Sig
					if !cs.confirmed[key] {
						fresh := newP5Env()
						again := fresh.runWord5(alpha, word, newP2Stats(), nil)
						fresh.close()
						found := false
						for _, a := range again {
							if a.Sig == v.Sig && a.Engine == v.Engine {
								found = true
							}
						}
						if !found {
							res.Flaky = append(res.Flaky, fmt.Sprintf("part5 %s: %s not reproduced in a fresh runtime", v.Sig, v.What))
							continue
						}
						cs.confirmed[key] = true
					}
					b, _ := json.Marshal(v)
					res.Viols = append(res.Viols, b)
				}
				return
			}
			for k := range alpha {
				word[pos] = k
				rec(pos + 1)
			}
		}
		rec(len(cd.Prefix))
		res.Evals = st.Words * int64(len(engineNames))
		res.Steps, res.NA, res.Reads, res.EngCmp = st.Steps, st.NA, st.Reads, st.EngineCompares
		for k, v := range st.Outcomes {
			res.Outcomes[k] = v
		}
		res.States, res.Trans = setKeys(st.States), setKeys(st.Trans)
		names := []string{}
		for _, k := range word {
			names = append(names, alpha[k].String())
		}
		res.Sample = map[string]any{"part": 5, "last_word_of_case": names}
	case 4:
		if cs.p4 == nil {
			cs.p4 = newP4Env()
		}
		c := *cd.BCfg
		alpha := p4Alphabet()
		st := newP2Stats()
		word := make([]int, cd.Depth)
		copy(word, cd.Prefix)
		var rec func(pos int)
		rec = func(pos int) {
			if pos == cd.Depth {
				for _, v := range cs.p4.runWord4(c, alpha, word, st, nil) {
					key := "4|" + v.Engine + "|" + v.Sig
					if !cs.confirmed[key] {
						fresh := newP4Env()
						again := fresh.runWord4(c, alpha, word, newP2Stats(), nil)
						fresh.close()
						found := false
						for _, a := range again {
							if a.Sig == v.Sig && a.Engine == v.Engine {
								found = true
							}
						}
						if !found {
							res.Flaky = append(res.Flaky, fmt.Sprintf("part4 %s: %s not reproduced in a fresh runtime", v.Sig, v.What))
							continue
						}
						cs.confirmed[key] = true
					}
					b, _ := json.Marshal(v)
					res.Viols = append(res.Viols, b)
				}
				return
			}
			for k := range alpha {
				word[pos] = k
				rec(pos + 1)
			}
		}
		rec(len(cd.Prefix))
		res.Evals = st.Words * int64(len(engineNames))
		res.Steps, res.NA, res.Reads, res.EngCmp = st.Steps, st.NA, st.Reads, st.EngineCompares
		for k, v := range st.Outcomes {
			res.Outcomes[k] = v
		}
		res.States, res.Trans = setKeys(st.States), setKeys(st.Trans)
		names := []string{}
		for _, k := range word {
			names = append(names, alpha[k].String())
		}
		res.Sample = map[string]any{"part": 4, "cfg": c.String(), "last_word_of_case": names}
	case 2:
		if cs.p2 == nil {
			cs.p2 = newP2Env()
		}
		c := *cd.Cfg
		ops := cs.opsFor(c)
		st := newP2Stats()
		word := make([]int, cd.Depth)
		copy(word, cd.Prefix)
		var rec func(pos int)
		rec = func(pos int) {
			if pos == cd.Depth {
				for _, v := range cs.p2.runWord(c, ops, word, st, nil) {
					key := "2|" + v.Engine + "|" + v.Sig
					if !cs.confirmed[key] {
						fresh := newP2Env()
						again := fresh.runWord(c, ops, word, newP2Stats(), nil)
						fresh.close()
						found := false
						for _, a := range again {
							if a.Sig == v.Sig && a.Engine == v.Engine {
								found = true
							}
						}
						if !found {
							res.Flaky = append(res.Flaky, fmt.Sprintf("part2 %s: %s not reproduced in a fresh runtime", v.Sig, v.What))
							continue
						}
						cs.confirmed[key] = true
					}
					b, _ := json.Marshal(v)
					res.Viols = append(res.Viols, b)
				}
				return
			}
			for oi := range ops {
				word[pos] = oi
				rec(pos + 1)
			}
		}
		rec(len(cd.Prefix))
		res.Evals = st.Words * int64(len(engineNames))
		res.Steps, res.NA, res.Reads, res.EngCmp = st.Steps, st.NA, st.Reads, st.EngineCompares
		for k, v := range st.Outcomes {
			res.Outcomes[k] = v
		}
		res.States, res.Trans = setKeys(st.States), setKeys(st.Trans)
		names := []string{}
		for _, oi := range word {
			names = append(names, ops[oi].Name)
		}
		res.Sample = map[string]any{"part": 2, "cfg": c.String(), "last_word_of_case": names}
	}
	return res
}

// ---------------------------------------------------------------- replay

func replayP1(u *universe, c p1Case, engine string, out func(string)) p1Result {
	e := newP1Env(u)
	defer e.close()
	var got p1Result
	e.runShardFiltered(p1Shard{c.Variant, c.Pregrow}, engine, c, func(r p1Result) { got = r })
	if out != nil {
		out(fmt.Sprintf("[%s] accepted=%v err=%q probe=%s", engine, got.Accepted, got.Err, got.Probe))
	}
	return got
}

// runShardFiltered instantiates the exporter of the shard on one engine and runs a single importer case.
func (e *p1Env) runShardFiltered(s p1Shard, engine string, c p1Case, each func(r p1Result)) {
	only := c
	e.runShardWith(s, []string{engine}, func() []p1Case { return []p1Case{only} }, func(_ p1Case, _ string, r p1Result) { each(r) })
}

func replayP1b(u *universe, c p1bCase, engine string) (got p1Result) {
	e := newP1Env(u)
	defer e.close()
	e.runP1bShard(c.Shard, []string{engine}, []p1bCase{c}, func(_ p1bCase, _ string, r p1Result) { got = r })
	return
}

func doReplay(file string) {
	b, err := os.ReadFile(file)
	if err != nil {
		fw.Fatalf("replay: %v", err)
	}
	var doc struct {
		Signature string          `json:"signature"`
		Replay    json.RawMessage `json:"replay"`
	}
	if err := json.Unmarshal(b, &doc); err != nil {
		fw.Fatalf("replay: %v", err)
	}
	var head struct {
		Part int `json:"part"`
	}
	json.Unmarshal(doc.Replay, &head)
	fmt.Printf("replaying %s (signature %s)\n", file, doc.Signature)
	failed := false
	switch head.Part {
	case 1:
		var r struct {
			Case   p1Case `json:"case"`
			Engine string `json:"engine"`
			Tier   string `json:"tier"`
		}
		json.Unmarshal(doc.Replay, &r)
		u := newUniverse(r.Tier)
		for _, en := range engineNames {
			res := replayP1(u, r.Case, en, func(s string) { fmt.Println(s) })
			_, sig, what := u.p1Judge(r.Case, en, res)
			if sig != "" {
				fmt.Printf("  STILL FAILS: %s: %s\n", sig, what)
				failed = true
			}
		}
	case 2:
		var r viol
		json.Unmarshal(doc.Replay, &r)
		ops := buildOps(r.Cfg)
		var word []int
		for _, n := range r.Word {
			found := false
			for i := range ops {
				if ops[i].Name == n {
					word = append(word, i)
					found = true
				}
			}
			if !found {
				fw.Fatalf("replay: unknown operation %q", n)
			}
		}
		e := newP2Env()
		vs := e.runWord(r.Cfg, ops, word, newP2Stats(), func(s string) { fmt.Println(s) })
		e.close()
		for _, v := range vs {
			fmt.Printf("  STILL FAILS: %s: %s\n", v.Sig, v.What)
			failed = true
		}
	case 9:
		var r struct {
			Word []string `json:"word"`
		}
		json.Unmarshal(doc.Replay, &r)
		if len(r.Word) == 0 { // family (a): re-run the whole matrix
			for _, c := range p9aCases() {
				outcome, v := runP9a(c)
				fmt.Printf("[%s] %s / %s: %s\n", c.Engine, c.Fail, c.Fn, outcome)
				if v != nil {
					fmt.Printf("  STILL FAILS: %s: %s\n", v.Sig, v.What)
					failed = true
				}
			}
			break
		}
		alpha9 := p9Alphabet()
		var word9 []int
		for _, n := range r.Word {
			for i := range alpha9 {
				if alpha9[i].Fn == n {
					word9 = append(word9, i)
				}
			}
		}
		e9 := newP9Env()
		for _, v := range e9.runWord9(alpha9, word9, newP2Stats(), func(s string) { fmt.Println(s) }) {
			fmt.Printf("  STILL FAILS: %s: %s\n", v.Sig, v.What)
			failed = true
		}
		e9.close()
	case 8:
		var r p8Viol
		json.Unmarshal(doc.Replay, &r)
		alpha := p8Alphabet()
		var word []int
		for _, n := range r.Word {
			found := false
			for i := range alpha {
				if alpha[i].String() == n {
					word = append(word, i)
					found = true
				}
			}
			if !found {
				fw.Fatalf("replay: unknown step %q", n)
			}
		}
		e := newP8Env()
		vs := e.runWord8(alpha, word, newP2Stats(), func(s string) { fmt.Println(s) })
		e.close()
		for _, v := range vs {
			fmt.Printf("  STILL FAILS: %s: %s\n", v.Sig, v.What)
			failed = true
		}
	case 10:
		var r struct {
			Prog p10Prog `json:"prog"`
		}
		json.Unmarshal(doc.Replay, &r)
		for _, en := range engineNames {
			e := newP10Env(en, r.Prog.Feat)
			_, _, vs := e.run(r.Prog, func(s string) { fmt.Println(s) })
			e.close()
			for _, v := range vs {
				fmt.Printf("  STILL FAILS: %s: %s\n", v.Sig, v.What)
				failed = true
			}
		}
	case 7:
		for _, en := range engineNames {
			_, n, vs := runP7(en)
			fmt.Printf("[%s] %d scenario evaluations\n", en, n)
			for _, v := range vs {
				fmt.Printf("  STILL FAILS: %s: %s\n", v.Sig, v.What)
				failed = true
			}
		}
	case 11:
		var r struct {
			Case p11Case `json:"case"`
		}
		json.Unmarshal(doc.Replay, &r)
		for _, en := range engineNames {
			res, gv := replayP11(r.Case, en)
			fmt.Printf("[%s] accepted=%v err=%q use=%s\n", en, res.Accepted, res.Err, res.Probe)
			for _, g := range gv {
				fmt.Printf("  STILL FAILS: %s: %s\n", g.Sig, g.What)
				failed = true
			}
			if _, sig, what := p11Judge(r.Case, en, res); sig != "" {
				fmt.Printf("  STILL FAILS: %s: %s\n", sig, what)
				failed = true
			}
		}
	case 6:
		var r struct {
			Case p1bCase `json:"case"`
		}
		json.Unmarshal(doc.Replay, &r)
		for _, en := range engineNames {
			res := replayP1b(newUniverse("quick"), r.Case, en)
			fmt.Printf("[%s] accepted=%v err=%q use=%s\n", en, res.Accepted, res.Err, res.Probe)
			if _, sig, what := p1bJudge(r.Case, en, res); sig != "" {
				fmt.Printf("  STILL FAILS: %s: %s\n", sig, what)
				failed = true
			}
		}
	case 5:
		var r p5Viol
		json.Unmarshal(doc.Replay, &r)
		alpha := p5Alphabet()
		var word []int
		for _, n := range r.Word {
			found := false
			for i := range alpha {
				if alpha[i].String() == n {
					word = append(word, i)
					found = true
				}
			}
			if !found {
				fw.Fatalf("replay: unknown step %q", n)
			}
		}
		e := newP5Env()
		vs := e.runWord5(alpha, word, newP2Stats(), func(s string) { fmt.Println(s) })
		e.close()
		for _, v := range vs {
			fmt.Printf("  STILL FAILS: %s: %s\n", v.Sig, v.What)
			failed = true
		}
	case 4:
		var r p4Viol
		json.Unmarshal(doc.Replay, &r)
		alpha := p4Alphabet()
		var word []int
		for _, n := range r.Word {
			found := false
			for i := range alpha {
				if alpha[i].String() == n {
					word = append(word, i)
					found = true
				}
			}
			if !found {
				fw.Fatalf("replay: unknown step %q", n)
			}
		}
		e := newP4Env()
		vs := e.runWord4(r.Cfg, alpha, word, newP2Stats(), func(s string) { fmt.Println(s) })
		e.close()
		for _, v := range vs {
			fmt.Printf("  STILL FAILS: %s: %s\n", v.Sig, v.What)
			failed = true
		}
	case 3:
		for _, en := range engineNames {
			outcome, v := consequenceCase(en)
			fmt.Printf("[%s] %s\n", en, outcome)
			if v != nil {
				fmt.Printf("  STILL FAILS: %s: %s\n", v.Sig, v.What)
				failed = true
			}
		}
	case 0: // a case whose child crashed or timed out: re-run the whole case in this process
		var r struct {
			Case caseDef `json:"case"`
		}
		json.Unmarshal(doc.Replay, &r)
		tier := "quick"
		if r.Case.Depth > 3 {
			tier = "thorough"
		}
		cs := &childState{tier: tier, u: newUniverse(tier), ops: map[string][]opDef{}, confirmed: map[string]bool{}}
		t0 := time.Now()
		res := cs.runCase(r.Case)
		fmt.Printf("case completed in %.1fs: %d evaluations, %d steps, %d violations (known findings included), %d non-reproducible\n",
			time.Since(t0).Seconds(), res.Evals, res.Steps, len(res.Viols), len(res.Flaky))
		sigs := map[string]int{}
		for _, raw := range res.Viols {
			var h struct {
				Sig string `json:"sig"`
			}
			json.Unmarshal(raw, &h)
			sigs[h.Sig]++
		}
		for k, v := range sigs {
			fmt.Printf("  %6d x %s\n", v, k)
		}
		fmt.Println("replay: the case terminates in-process (a crash or watchdog expiry of the child is not reproduced)")
		os.Exit(0)
	default:
		fw.Fatalf("replay: unknown part %d", head.Part)
	}
	if failed {
		os.Exit(1)
	}
	fmt.Println("replay: the case no longer fails")
	os.Exit(0)
}

// ---------------------------------------------------------------- parent side

func main() {
	if len(os.Args) > 2 && os.Args[1] == "replay" {
		doReplay(os.Args[2])
	}
	run := fw.Start("C04", "model_checking")
	u := newUniverse(run.Tier)
	cases := buildCases(run.Tier, u)

	if fw.IsChild() {
		debug.SetGCPercent(1000) // the live heap is a few MB; instantiating graphs produces garbage quickly
		cs := &childState{tier: run.Tier, u: u, ops: map[string][]opDef{}, confirmed: map[string]bool{}}
		fw.ChildLoop(func(i int) string {
			b, err := json.Marshal(cs.runCase(cases[i]))
			if err != nil {
				b, _ = json.Marshal(caseResult{Flaky: []string{"marshal: " + err.Error()}})
			}
			return base64.StdEncoding.EncodeToString(b) // the child protocol rewrites "\n" sequences, which JSON strings may contain
		})
		return
	}

	outcomes := fw.NewCounter()
	samples := fw.NewSampler(16)
	states, trans, pairs := map[uint64]struct{}{}, map[uint64]struct{}{}, map[uint64]struct{}{}
	var p1Evals, p2Evals, p4Evals, p4Steps, p5Evals, p5Steps, p8Evals, p9Evals, p10Evals, p11Evals, steps, na, reads, engcmp, crashes int64
	progs := map[uint64]struct{}{}
	var flaky []string
	stopped := false
	var retry []int
	absorb := func(cd caseDef, r caseResult) {
		flaky = append(flaky, r.Flaky...)
		for k, v := range r.Outcomes {
			outcomes.AddN(k, v)
		}
		switch cd.Part {
		case 2:
			p2Evals += r.Evals
		case 4:
			p4Evals += r.Evals
			p4Steps += r.Steps
		case 5:
			p5Evals += r.Evals
			p5Steps += r.Steps
		case 8:
			p8Evals += r.Evals
		case 9:
			p9Evals += r.Evals
		case 10:
			p10Evals += r.Evals
			for _, h := range r.Progs {
				progs[h] = struct{}{}
			}
		case 11:
			p11Evals += r.Evals
			p1Evals += r.Evals
		default:
			p1Evals += r.Evals
		}
		steps += r.Steps
		na += r.NA
		reads += r.Reads
		engcmp += r.EngCmp
		for _, h := range r.States {
			states[h] = struct{}{}
		}
		for _, h := range r.Trans {
			trans[h] = struct{}{}
		}
		for _, h := range r.Pairs {
			pairs[h] = struct{}{}
		}
		if r.Sample != nil {
			samples.Add(r.Sample)
		}
		for _, raw := range r.Viols {
			var head struct {
				Sig  string `json:"sig"`
				What string `json:"what"`
			}
			json.Unmarshal(raw, &head)
			var body map[string]any
			json.Unmarshal(raw, &body)
			delete(body, "sig")
			delete(body, "what")
			body["part"] = cd.Part
			run.Violation(head.Sig, head.What, body)
		}
	}
	caseTimeout := 15 * time.Minute
	if ms, err := strconv.Atoi(os.Getenv("VERIF_C04_CASE_TIMEOUT_MS")); err == nil && ms > 0 { // test aid for the watchdog path
		caseTimeout = time.Duration(ms) * time.Millisecond
	}
	done := fw.Supervise(fw.SupOpts{N: len(cases), Workers: runtime.NumCPU(), CaseTimeout: caseTimeout, UlimitVKB: 0, Mode: "c04",
		Stop: func() bool {
			if run.Expired() {
				stopped = true
				return true
			}
			return false
		}},
		func(i int, res string, crash *fw.Crash) {
			cd := cases[i]
			if crash != nil && crash.Kind == "timeout" {
				// A watchdog expiry is not a verdict of this property (a case needs seconds of CPU; under heavy
				// machine load the child may simply not have been scheduled): the case is re-run below, in-process.
				retry = append(retry, i)
				return
			}
			if crash != nil {
				crashes++
				desc := fmt.Sprintf("part %d", cd.Part)
				sig := fmt.Sprintf("crash:part%d", cd.Part)
				if cd.Part == 2 {
					ops := buildOps(*cd.Cfg)
					desc = fmt.Sprintf("words of %s starting with %s %s", cd.Cfg, ops[cd.Prefix[0]].Name, ops[cd.Prefix[1]].Name)
					sig = "crash:p2:" + ops[cd.Prefix[0]].Name + ":" + ops[cd.Prefix[1]].Name
				}
				if cd.Part == 9 && cd.P9a != nil {
					desc = fmt.Sprintf("part 9a: call into a function of a module whose instantiation failed (%s), function reads %s, %s", cd.P9a.Fail, cd.P9a.Fn, cd.P9a.Engine)
					sig = "crash:p9:failed-instantiation(" + cd.P9a.Fail + "):function-reads-" + cd.P9a.Fn
				} else if cd.Part == 9 {
					desc, sig = "part 9b (aliased imports)", "crash:p9:alias"
				}
				if cd.Part == 8 {
					desc = fmt.Sprintf("part 8 words starting with %s", p8Alphabet()[cd.Prefix[0]])
					sig = "crash:p8"
				}
				if cd.Part == 10 {
					desc = fmt.Sprintf("part 10 (segment lists, features %s, %s)", cd.P10.Feat, cd.Engine)
					sig = "crash:p10:" + cd.P10.Feat
				}
				if cd.Part == 6 {
					desc = fmt.Sprintf("part 1b layout %s chain %d", cd.RShard.Layout, cd.RShard.Chain)
					sig = "crash:part1b"
				}
				if cd.Part == 5 {
					st := p5Alphabet()[cd.Prefix[0]]
					desc = fmt.Sprintf("part 5 words starting with %s", st)
					sig = "crash:p5:" + st.Kind
				}
				if cd.Part == 4 {
					st := p4Alphabet()[cd.Prefix[0]]
					desc = fmt.Sprintf("part 4 words of %s starting with %s", cd.BCfg, st)
					sig = "crash:p4:" + st.String()
				}
				run.Violation(sig, fmt.Sprintf("child process crashed while running %s: %s", desc, fw.FirstLines(crash.Stderr, 6)), map[string]any{"part": 0, "case": cd})
				outcomes.Inc("child-" + crash.Kind)
				return
			}
			var r caseResult
			raw, err := base64.StdEncoding.DecodeString(res)
			if err != nil {
				fw.Fatalf("case %d: bad child result encoding: %v", i, err)
			}
			if err := json.Unmarshal(raw, &r); err != nil {
				fw.Fatalf("case %d: bad child result: %v", i, err)
			}
			absorb(cd, r)
		})
	if len(retry) > 0 {
		sort.Ints(retry)
		cs := &childState{tier: run.Tier, u: u, ops: map[string][]opDef{}, confirmed: map[string]bool{}}
		for _, i := range retry {
			absorb(cases[i], cs.runCase(cases[i]))
		}
		run.Note("%d cases exceeded the 15 min child watchdog and were re-run in the supervisor process", len(retry))
	}
	if f := os.Getenv("VERIF_C04_PARTS"); f != "" {
		run.Capped("restricted to parts " + f)
	}
	if stopped || done < len(cases) {
		run.Capped(fmt.Sprintf("budget: %d of %d cases completed", done, len(cases)))
	}
	if len(flaky) > 0 {
		for _, f := range flaky[:min(len(flaky), 10)] {
			fmt.Fprintln(os.Stderr, "NON-REPRODUCIBLE:", f)
		}
		// only a harness error when nothing else was found: a tree that breaks sharing in a state-dependent way may
		// produce failures that do not reproduce next to failures that do, and those carry the verdict
		if run.Violations() == 0 {
			fw.Fatalf("%d failures did not reproduce in a fresh runtime (harness nondeterminism, not a verdict)", len(flaky))
		}
		run.Note("%d failures did not reproduce in a fresh runtime and were dropped", len(flaky))
	}

	bounds := map[string]any{
		"part1_exporter_variants": len(u.expMems), "part1_shards": len(u.shards()),
		"part1_import_types": map[string]int{"memory": len(u.impMems), "table": len(u.impTables), "global": len(u.impGlobs), "func": len(u.impFuncs)},
		"part1_export_types": map[string]int{"memory": len(u.expMems), "table": len(u.expTables), "global": len(u.expGlobs), "func": len(u.expFuncs)},
	}
	for _, c := range p2Configs {
		ops := buildOps(c)
		var names []string
		for _, o := range ops {
			names = append(names, o.Name)
		}
		bounds["part2 "+c.String()] = map[string]any{"alphabet": len(ops), "depth": depthFor(run.Tier, c), "ops": strings.Join(names, " ")}
	}
	{
		var cfgs []string
		for _, c := range p4ConfigsQuick {
			cfgs = append(cfgs, c.String())
		}
		d := "2"
		if run.Thorough() {
			d = "3 for the first two configurations, 2 for the others"
			for _, c := range p4ConfigsExtra {
				cfgs = append(cfgs, c.String())
			}
		}
		bounds["part4"] = map[string]any{"alphabet": len(p4Alphabet()), "operations": strings.Join(p4OpNames, " "), "paths": strings.Join(p4Paths, " "), "depth": d, "configs": cfgs}
	}
	{
		var names []string
		for _, st := range p5Alphabet() {
			names = append(names, st.String())
		}
		d := 3
		if run.Thorough() {
			d = 4
		}
		bounds["part5"] = map[string]any{"alphabet": len(names), "depth": d, "ops": strings.Join(names, " "), "instances": "E5 + three instances of one compiled module S (S1, S2, anonymous)"}
	}
	{
		var names []string
		for _, st := range p8Alphabet() {
			names = append(names, st.String())
		}
		bounds["part8"] = map[string]any{"alphabet": len(names), "depth": 3, "steps": strings.Join(names, " "), "what": "one compiled consumer per word, instantiated once per step against a fresh provider instance of the step's variant"}
	}
	{
		names := func(ss []p10Seg) string {
			var n []string
			for _, s := range ss {
				n = append(n, s.Name)
			}
			return strings.Join(n, " ")
		}
		lens := "(<=1 element, <=2 data segments) u (<=2, <=1)"
		if run.Thorough() {
			lens = "<=2 element, <=3 data segments"
		}
		bounds["part11"] = map[string]any{"grow_histories": fmt.Sprint(p11Hists(run.Tier)), "tables": "funcref|externref x min 0..3 x max none|7 (table.grow)", "memories": "min1 | 1..8 | shared 1..8 | min0 (memory.grow, api.Memory.Grow)",
			"import_limits": "min in {0, size-2..size+4}, max in {none, size-1, size, size+1, size+6, declmax-1, declmax, declmax+1}"}
		bounds["part10"] = map[string]any{"features": "v1 (api.CoreFeaturesV1: all-or-nothing segments), v1+bulk-memory+reference-types, v2+threads", "owner_memory": "1 page | grown to 2 pages before the importer links", "data_shapes(bytes@offset)": names(p10DataShapes), "element_shapes(items@offset)": names(p10ElemShapes),
			"lists": lens, "start": "none | store;unreachable", "v2_restriction": "element shapes that are out of bounds are generated for v1 only (v2: open findings of part 2)"}
	}
	om := outcomes.Map()
	run.Finish(fw.Coverage{
		Evaluations:     p1Evals + p2Evals + p4Evals + p5Evals + p8Evals + p9Evals + p10Evals,
		DistinctNontriv: int64(len(pairs)) + int64(len(trans)) + int64(len(progs)),
		States:          int64(len(states)), Transitions: steps, TracesValidated: steps,
		Rule: "part 1: distinct (current external type of the export, declared import type) pairs, each instantiated on both engines; " +
			"part 2: distinct (graph configuration, model state, applicable operation) triples — every one executed on both engines from a freshly " +
			"instantiated graph (no state merging during execution); steps whose instance is already closed are counted separately as not_applicable_steps and are not transitions; " +
			"part 10: distinct (feature configuration, segment-list program) pairs, each instantiated on both engines",
		Samples: samples.List(), Exhaustive: true, Outcomes: om, Bounds: bounds,
		Extra: map[string]any{
			"part1_instantiations": p1Evals, "part1b_layouts": p1bLayoutNames, "part1_distinct_type_pairs": len(pairs),
			"part2_word_executions": p2Evals, "part4_word_executions": p4Evals, "part4_steps": p4Steps, "part5_word_executions": p5Evals, "part5_steps": p5Steps, "part8_word_executions": p8Evals, "part9_evaluations": p9Evals, "part10_instantiations": p10Evals, "part11_instantiations_after_grow_histories": p11Evals, "part10_distinct_programs": len(progs), "parts245_distinct_state_op_pairs": len(trans), "parts245_not_applicable_steps": na,
			"parts245_reads_compared_with_model": reads, "parts245_engine_lockstep_comparisons": engcmp, "child_crashes": crashes, "watchdog_reruns": len(retry),
			"cases": len(cases), "cases_completed": done,
		},
	}, []string{
		"the reference matcher (specMatch) and the reference model are the trusted base; they follow WebAssembly 2.0 (+threads: shared flags must be equal) and use the CURRENT size as limits.min",
		"error texts are not compared: traps are classified by wazero's sentinel errors, instantiation failures into link / segment-out-of-bounds / start-trap by coarse text class",
		"functions owned by an instance the word has closed are never called (C09 covers closed owners); all compiled modules stay open until the child exits",
		"memory max 65536 (the implicit bound of a 32-bit memory) is not in the limits alphabet: wazero treats 'no max' as max 65536, which is semantically equivalent",
	})
}
