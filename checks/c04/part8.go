package main

// Part 8 — one CompiledModule, several instantiations against providers with DIFFERENT values. The consumer C is
// compiled once per word and instantiated up to d times; each time it is linked with a fresh provider instance of one
// of three variants (different immutable globals off/eoff/ival, different funcref global, different memory and table
// sizes), reached either by name (the previous "env" is closed and another provider is instantiated under that name)
// or through experimental.ImportResolver, and C is instantiated under a name or anonymously. Every value that C
// captures at instantiation (data offset, element offset, global initialisers from imported i32/funcref globals,
// element item from an imported funcref global) and the sizes of the imported memory/table must be those of the
// provider THIS instance is linked with. After every instantiation all consumer instances so far are re-read.

import (
	"bytes"
	"context"
	"fmt"

	"github.com/tetratelabs/wazero"
	"github.com/tetratelabs/wazero/api"
	"github.com/tetratelabs/wazero/experimental"
	"github.com/tetratelabs/wazero/verif/wb"
)

type p8Variant struct {
	off, eoff, ival int32
	pages, tabSize  uint32
	id              int32
}

var p8Variants = []p8Variant{{8, 1, 100, 1, 4, 10}, {16, 2, 200, 2, 5, 11}, {24, 3, 300, 3, 6, 12}}

const p8ConsumerID = 77

func buildP8Provider(v p8Variant) []byte {
	m := &wb.Module{}
	f := m.AddFunc(nil, tI32, nil, (&wb.Asm{}).I32Const(v.id).B)
	m.ExportFunc("pid", f)
	m.Mem = &wb.Limits{Min: v.pages}
	m.Tables = []wb.Table{{Elem: wb.FuncRef, Lim: wb.Limits{Min: v.tabSize}}}
	off := m.AddGlobal(wb.I32, false, wb.CI32(v.off))
	eoff := m.AddGlobal(wb.I32, false, wb.CI32(v.eoff))
	ival := m.AddGlobal(wb.I32, false, wb.CI32(v.ival))
	fref := m.AddGlobal(wb.FuncRef, false, wb.CRefFunc(f))
	m.Exports = append(m.Exports,
		wb.Export{Name: "off", Kind: wb.KindGlobal, Idx: off}, wb.Export{Name: "eoff", Kind: wb.KindGlobal, Idx: eoff},
		wb.Export{Name: "ival", Kind: wb.KindGlobal, Idx: ival}, wb.Export{Name: "fref", Kind: wb.KindGlobal, Idx: fref},
		wb.Export{Name: "mem", Kind: wb.KindMemory}, wb.Export{Name: "tab", Kind: wb.KindTable})
	return m.Encode()
}

func buildP8Consumer() []byte {
	m := &wb.Module{}
	g := func(name string, t byte) wb.Import {
		return wb.Import{Module: "env", Name: name, Kind: wb.KindGlobal, GlobalType: t}
	}
	m.Imports = []wb.Import{g("off", wb.I32), g("eoff", wb.I32), g("ival", wb.I32), g("fref", wb.FuncRef),
		{Module: "env", Name: "mem", Kind: wb.KindMemory, Mem: wb.Limits{Min: 1}},
		{Module: "env", Name: "tab", Kind: wb.KindTable, Table: wb.Table{Elem: wb.FuncRef, Lim: wb.Limits{Min: 4}}}}
	m.Tables = []wb.Table{{Elem: wb.FuncRef, Lim: wb.Limits{Min: 1}}} // private, index 1
	gi := m.AddGlobal(wb.I32, false, wb.CGlobal(2))
	gf := m.AddGlobal(wb.FuncRef, false, wb.CGlobal(3))
	ty := m.Type(nil, tI32)
	cid := m.AddFunc(nil, tI32, nil, (&wb.Asm{}).I32Const(p8ConsumerID).B)
	m.ExportFunc("load", m.AddFunc(tI32, tI32, nil, (&wb.Asm{}).LocalGet(0).Mem(0x2d, 0, 0).B))
	m.ExportFunc("tnull", m.AddFunc(tI32, tI32, nil, (&wb.Asm{}).LocalGet(0).TableGet(0).RefIsNull().B))
	m.ExportFunc("tcall", m.AddFunc(tI32, tI32, nil, (&wb.Asm{}).LocalGet(0).CallIndirect(ty, 0).B))
	m.ExportFunc("gi", m.AddFunc(nil, tI32, nil, (&wb.Asm{}).GlobalGet(gi).B))
	m.ExportFunc("gfcall", m.AddFunc(nil, tI32, nil, (&wb.Asm{}).I32Const(0).GlobalGet(gf).TableSet(1).I32Const(0).CallIndirect(ty, 1).B))
	m.ExportFunc("msize", m.AddFunc(nil, tI32, nil, (&wb.Asm{}).MemorySize().B))
	m.ExportFunc("tsize", m.AddFunc(nil, tI32, nil, (&wb.Asm{}).TableSize(0).B))
	m.Datas = []wb.Data{{Offset: wb.CGlobal(0), Bytes: []byte{0xC1, 0xC2}}}
	m.Elems = []wb.Elem{
		{Offset: wb.CGlobal(1), Funcs: []uint32{cid}},
		{Offset: wb.CI32(0), Funcs: []uint32{3}, UseExprs: true}, // item patched below to (global.get 3) = fref
	}
	bin := m.Encode()
	i := bytes.Index(bin, []byte{0xd2, 0x03, 0x0b})
	if i < 0 || bytes.Count(bin, []byte{0xd2, 0x03, 0x0b}) != 1 {
		panic("harness: element item placeholder")
	}
	bin[i] = 0x23
	return bin
}

type p8Step struct {
	Variant int
	Link    string // "byname" | "resolver"
	Named   bool   // consumer instantiated under a name or anonymously
}

func (s p8Step) String() string {
	n := "anon"
	if s.Named {
		n = "named"
	}
	return fmt.Sprintf("v%d/%s/%s", s.Variant, s.Link, n)
}

func p8Alphabet() (a []p8Step) {
	for v := range p8Variants {
		for _, l := range []string{"byname", "resolver"} {
			for _, n := range []bool{false, true} {
				a = append(a, p8Step{v, l, n})
			}
		}
	}
	return
}

type p8Viol struct {
	Sig    string   `json:"sig"`
	What   string   `json:"what"`
	Word   []string `json:"word"`
	Engine string   `json:"engine"`
}

type p8Env struct {
	rts       map[string]wazero.Runtime
	providers map[string]wazero.CompiledModule
}

func newP8Env() *p8Env {
	e := &p8Env{rts: map[string]wazero.Runtime{}, providers: map[string]wazero.CompiledModule{}}
	for _, en := range engineNames {
		e.rts[en] = wazero.NewRuntimeWithConfig(bg, runtimeConfig(en))
	}
	return e
}

func (e *p8Env) close() {
	for _, rt := range e.rts {
		rt.Close(bg)
	}
}

func (e *p8Env) runWord8(alpha []p8Step, word []int, st *p2Stats, trace func(string)) (vs []p8Viol) {
	names := make([]string, len(word))
	for i, k := range word {
		names[i] = alpha[k].String()
	}
	st.Words++
	for _, en := range engineNames {
		rt := e.rts[en]
		report := func(sig, what string) {
			vs = append(vs, p8Viol{Sig: sig, What: "[" + en + "] " + what, Word: names, Engine: en})
		}
		// ONE compiled consumer per word
		cm, err := rt.CompileModule(bg, buildP8Consumer())
		if err != nil {
			report("p8:setup:consumer-rejected", err.Error())
			continue
		}
		var toClose []api.Module
		var env api.Module
		type inst struct {
			mod api.Module
			v   p8Variant
		}
		var consumers []inst
		for i, k := range word {
			s := alpha[k]
			v := p8Variants[s.Variant]
			pk := fmt.Sprintf("%s|%d", en, s.Variant)
			pcm := e.providers[pk]
			if pcm == nil {
				pcm, err = rt.CompileModule(bg, buildP8Provider(v))
				if err != nil {
					report("p8:setup:provider-rejected", err.Error())
					break
				}
				e.providers[pk] = pcm
			}
			ctx := context.Context(bg)
			var prov api.Module
			if s.Link == "byname" {
				if env != nil {
					env.Close(bg) // earlier consumers keep using its memory and table
				}
				prov, err = rt.InstantiateModule(bg, pcm, modCfg.WithName("env"))
				env = prov
			} else {
				prov, err = rt.InstantiateModule(bg, pcm, modCfg.WithName(""))
				p := prov
				ctx = experimental.WithImportResolver(bg, func(name string) api.Module {
					if name == "env" {
						return p
					}
					return nil
				})
			}
			if err != nil {
				report("p8:setup:provider-not-instantiable", err.Error())
				break
			}
			toClose = append(toClose, prov)
			cname := ""
			if s.Named {
				cname = fmt.Sprintf("c%d", i)
			}
			c, err := rt.InstantiateModule(ctx, cm, modCfg.WithName(cname))
			st.Steps++
			if en == engineNames[0] {
				st.Trans[h64("p8#"+fmt.Sprint(names[:i+1]))] = struct{}{}
			}
			st.Outcomes[fmt.Sprintf("p8:instantiate#%d-against-v%d-%s=%s", min(i+1, 2), s.Variant, s.Link, canonInstErr(err))]++
			if err != nil {
				report("p8:instantiate:"+sigVal(canonInstErr(err)), fmt.Sprintf("word %v: instantiation #%d of the compiled consumer against provider variant %d failed: %v", names[:i+1], i+1, s.Variant, err))
				break
			}
			toClose = append(toClose, c)
			consumers = append(consumers, inst{c, v})
			// read every consumer instance so far
			ok := true
			for ci, x := range consumers {
				nth := "first"
				if ci > 0 {
					nth = "later"
				}
				check := func(label, fn string, want uint64, args ...uint64) {
					st.Reads++
					res, err := x.mod.ExportedFunction(fn).Call(bg, args...)
					got := canonErr(err)
					if err == nil {
						got = "ok:" + u(res[0])
					}
					if got != "ok:"+u(want) {
						ok = false
						report("p8:"+label+":"+nth+"-instantiation",
							fmt.Sprintf("word %v: consumer instance #%d (linked with provider variant off=%d eoff=%d ival=%d id=%d pages=%d table=%d), read after instantiation #%d: %s = %s, must be %d",
								names[:i+1], ci+1, x.v.off, x.v.eoff, x.v.ival, x.v.id, x.v.pages, x.v.tabSize, i+1, label, got, want))
					}
				}
				for _, o := range p8Variants {
					w0, w1 := uint64(0), uint64(0)
					lbl := "data-at-another-providers-offset"
					if o.off == x.v.off {
						w0, w1, lbl = 0xC1, 0xC2, "data-at-own-offset"
					}
					check(lbl, "load", w0, uint64(o.off))
					check(lbl, "load", w1, uint64(o.off+1))
					if o.eoff == x.v.eoff {
						check("element-at-own-offset", "tcall", p8ConsumerID, uint64(o.eoff))
					} else {
						check("element-at-another-providers-offset", "tnull", 1, uint64(o.eoff))
					}
				}
				check("element-item-from-funcref-global", "tcall", uint64(x.v.id), 0)
				check("global-init-from-i32-global", "gi", uint64(x.v.ival))
				check("global-init-from-funcref-global", "gfcall", uint64(x.v.id))
				check("imported-memory-size", "msize", uint64(x.v.pages))
				check("imported-table-size", "tsize", uint64(x.v.tabSize))
			}
			st.EngineCompares++
			if trace != nil {
				trace(fmt.Sprintf("[%s] step %d %s: %d consumer instances read, all as specified: %v", en, i, s, len(consumers), ok))
			}
			if !ok {
				break
			}
		}
		for j := len(toClose) - 1; j >= 0; j-- {
			toClose[j].Close(bg)
		}
		cm.Close(bg)
	}
	st.States[h64("p8#"+fmt.Sprint(names))] = struct{}{}
	return
}
