package main

// Part 10 — active-segment lists of an importer x FEATURE CONFIGURATION of the runtime: outcome of the instantiation and
// what a failed instantiation leaves behind in the objects of the EARLIER instance.
//
// Every other part runs with WebAssembly 2.0 (+threads), where active segments are applied one after the other and the
// writes before the first out-of-bounds segment persist. With reference-types/bulk-memory DISABLED (WebAssembly 1.0,
// api.CoreFeaturesV1) instantiation is all-or-nothing with respect to segments: the bounds of ALL active element and
// data segments are checked (offset + length <= current size, an empty segment beyond the end included) before anything
// is written; only a trap of the start function leaves writes behind. The class explored here is therefore
// (feature configuration) x (program = list of element segments, list of data segments, start traps or not), with a
// boundary alphabet of segment shapes (length 0/1/2 x offset inside / exact fit / at the end / one past the end / -1,
// offset given by i32.const or by an imported immutable global).
//
// Further dimensions: feature configuration also "v1+bulkref" (1.0 + the two coupled proposals); the owner's memory as
// instantiated or grown by one page before the importer links (bounds are those of the CURRENT size).
//
// Owner O10 (fresh per program) exports a 1-page memory, a 4-slot funcref table, one immutable offset global per
// global-offset shape, `grow`, and the readers load / tcall. The importer K10 imports all of them; segment j of the data list writes bytes 0xA1+j, element
// segment i writes K's function returning 100+i; the optional start function stores 0xEE at address 9 and traps.
// After the instantiation attempt every observed byte (8, 9, 65535; 65536, 131071 when grown), the memory size and every table slot are read through
// the owner's functions and the host API (and through K's own functions when K exists) and compared with the model.

import (
	"fmt"
	"strings"

	"github.com/tetratelabs/wazero"
	"github.com/tetratelabs/wazero/api"
	"github.com/tetratelabs/wazero/verif/wb"
)

const (
	p10Page    = 65536
	p10TabSize = 4
)

// p10Seg is a segment shape: N bytes/items at an offset that is absolute (Base "abs") or relative to the CURRENT end of
// the memory/table (Base "end"), given as i32.const or (Glob) as global.get of an imported immutable global of the owner.
type p10Seg struct {
	Name string `json:"name"`
	Base string `json:"base"`
	Off  int32  `json:"off"`
	Glob bool   `json:"glob,omitempty"`
	N    int    `json:"n"`
}

// offset: the i32 value of the offset expression when the object currently has `size` bytes/slots.
func (s p10Seg) offset(size uint32) uint32 {
	if s.Base == "end" {
		return uint32(int32(size) + s.Off)
	}
	return uint32(s.Off)
}

func (s p10Seg) oob(size uint32) bool { return uint64(s.offset(size))+uint64(s.N) > uint64(size) }

// p10GlobalShapes: the shapes whose offset comes from a global; the owner exports one immutable global per such shape
// (data shapes first, then element shapes), holding the offset for the owner's current sizes.
func p10GlobalShapes() (out []struct {
	Name string
	Data bool
	Seg  p10Seg
}) {
	for _, s := range p10DataShapes {
		if s.Glob {
			out = append(out, struct {
				Name string
				Data bool
				Seg  p10Seg
			}{fmt.Sprintf("g%d", len(out)), true, s})
		}
	}
	for _, s := range p10ElemShapes {
		if s.Glob {
			out = append(out, struct {
				Name string
				Data bool
				Seg  p10Seg
			}{fmt.Sprintf("g%d", len(out)), false, s})
		}
	}
	return
}

func (s p10Seg) expr(data bool, size uint32) []byte {
	if s.Glob {
		for i, g := range p10GlobalShapes() {
			if g.Data == data && g.Seg.Name == s.Name {
				return wb.CGlobal(uint32(i))
			}
		}
		panic("harness: no global for shape " + s.Name)
	}
	return wb.CI32(int32(s.offset(size)))
}

var p10DataShapes = []p10Seg{
	{"1@8", "abs", 8, false, 1}, {"1@end-1", "end", -1, false, 1}, {"0@end", "end", 0, false, 0}, {"0@end+1", "end", 1, false, 0},
	{"1@end", "end", 0, false, 1}, {"2@end-1", "end", -1, false, 2}, {"0@-1", "abs", -1, false, 0}, {"1@-1", "abs", -1, false, 1}, {"0@8", "abs", 8, false, 0},
	{"1@global(8)", "abs", 8, true, 1}, {"0@global(end+1)", "end", 1, true, 0}, {"0@global(end)", "end", 0, true, 0},
}

var p10ElemShapes = []p10Seg{
	{"1@1", "abs", 1, false, 1}, {"1@end-1", "end", -1, false, 1}, {"0@end", "end", 0, false, 0}, {"0@end+1", "end", 1, false, 0},
	{"1@end", "end", 0, false, 1}, {"2@end-1", "end", -1, false, 2}, {"0@-1", "abs", -1, false, 0}, {"1@-1", "abs", -1, false, 1}, {"0@1", "abs", 1, false, 0},
	{"1@global(1)", "abs", 1, true, 1}, {"0@global(end+1)", "end", 1, true, 0}, {"0@global(end)", "end", 0, true, 0},
}

// Feature configurations: v1 = WebAssembly 1.0 (segments all-or-nothing); v1+bulkref = 1.0 plus exactly the two coupled
// proposals that change the instantiation semantics; v2 = the configuration of all other parts (2.0 + threads).
var p10Feats = []string{"v1", "v1+bulkref", "v2"}

func p10Features(feat string) api.CoreFeatures {
	switch feat {
	case "v1":
		return api.CoreFeaturesV1
	case "v1+bulkref":
		return api.CoreFeaturesV1 | api.CoreFeatureBulkMemoryOperations | api.CoreFeatureReferenceTypes
	}
	return features
}

func p10Atomic(feat string) bool { return feat == "v1" }

type p10Prog struct {
	Feat  string   `json:"feat"`
	Elems []p10Seg `json:"elems"`
	Datas []p10Seg `json:"datas"`
	Start bool     `json:"start_traps"`
	Grown bool     `json:"owner_memory_grown"` // the owner has grown its memory by one page before the importer is instantiated
}

func (p p10Prog) memBytes() uint32 {
	if p.Grown {
		return 2 * p10Page
	}
	return p10Page
}

func (p p10Prog) String() string {
	n := func(ss []p10Seg) string {
		var out []string
		for _, s := range ss {
			out = append(out, s.Name)
		}
		return "[" + strings.Join(out, " ") + "]"
	}
	st := ""
	if p.Start {
		st = " start=store;unreachable"
	}
	if p.Grown {
		st += " owner-memory-grown"
	}
	return fmt.Sprintf("%s elem%s data%s%s", p.Feat, n(p.Elems), n(p.Datas), st)
}

func p10Lists(alpha []p10Seg, maxLen int) (out [][]p10Seg) {
	out = append(out, nil)
	prev := [][]p10Seg{nil}
	for l := 1; l <= maxLen; l++ {
		var next [][]p10Seg
		for _, p := range prev {
			for _, s := range alpha {
				w := append(append([]p10Seg{}, p...), s)
				next = append(next, w)
			}
		}
		out = append(out, next...)
		prev = next
	}
	return
}

// p10Programs: quick = (<=1 element segment, <=2 data segments) u (<=2, <=1); thorough = (<=2, <=3); x start traps or not
// x owner memory as instantiated / grown by one page (bounds are those of the CURRENT size).
// With reference types enabled, out-of-bounds ELEMENT segments are the two deliberate upstream choices already recorded
// as open findings (part 2, inst.Kelem / inst.Keloobdata), so the v2 element alphabet is restricted to in-bounds shapes.
func p10Programs(tier, feat string) (ps []p10Prog) {
	ea := p10ElemShapes
	if !p10Atomic(feat) {
		ea = nil
		for _, s := range p10ElemShapes {
			if !s.oob(p10TabSize) {
				ea = append(ea, s)
			}
		}
	}
	maxData := 2
	if tier == "thorough" {
		maxData = 3
	}
	for _, es := range p10Lists(ea, 2) {
		for _, ds := range p10Lists(p10DataShapes, maxData) {
			if tier != "thorough" && len(es) == 2 && len(ds) == 2 {
				continue
			}
			for _, st := range []bool{false, true} {
				for _, gr := range []bool{false, true} {
					ps = append(ps, p10Prog{feat, es, ds, st, gr})
				}
			}
		}
	}
	return
}

type p10Shard struct {
	Feat  string `json:"feat"`
	Shard int    `json:"shard"`
	Of    int    `json:"of"`
}

const p10ShardCount = 6

func p10Shards() (out []p10Shard) {
	for _, f := range p10Feats {
		for i := 0; i < p10ShardCount; i++ {
			out = append(out, p10Shard{f, i, p10ShardCount})
		}
	}
	return
}

// buildP10Owner: memBytes is the size the memory will have when the importer is instantiated (the offset globals are
// computed for it); the module itself always declares one page and exports `grow`.
func buildP10Owner(memBytes uint32) []byte {
	m := &wb.Module{}
	m.Mem = &wb.Limits{Min: 1}
	m.Tables = []wb.Table{{Elem: wb.FuncRef, Lim: wb.Limits{Min: p10TabSize}}}
	m.Exports = append(m.Exports, wb.Export{Name: "mem", Kind: wb.KindMemory}, wb.Export{Name: "tab", Kind: wb.KindTable})
	for _, g := range p10GlobalShapes() {
		size := uint32(p10TabSize)
		if g.Data {
			size = memBytes
		}
		m.Exports = append(m.Exports, wb.Export{Name: g.Name, Kind: wb.KindGlobal, Idx: m.AddGlobal(wb.I32, false, wb.CI32(int32(g.Seg.offset(size))))})
	}
	m.ExportFunc("grow", m.AddFunc(tI32, tI32, nil, (&wb.Asm{}).LocalGet(0).MemoryGrow().B))
	ty := m.Type(nil, tI32)
	m.ExportFunc("load", m.AddFunc(tI32, tI32, nil, (&wb.Asm{}).LocalGet(0).Mem(0x2d, 0, 0).B))
	m.ExportFunc("tcall", m.AddFunc(tI32, tI32, nil, (&wb.Asm{}).LocalGet(0).CallIndirect(ty, 0).B))
	return m.Encode()
}

func buildP10Importer(p p10Prog) []byte {
	m := &wb.Module{}
	m.Imports = []wb.Import{
		{Module: "O10", Name: "mem", Kind: wb.KindMemory, Mem: wb.Limits{Min: 1}},
		{Module: "O10", Name: "tab", Kind: wb.KindTable, Table: wb.Table{Elem: wb.FuncRef, Lim: wb.Limits{Min: p10TabSize}}}}
	for _, g := range p10GlobalShapes() {
		m.Imports = append(m.Imports, wb.Import{Module: "O10", Name: g.Name, Kind: wb.KindGlobal, GlobalType: wb.I32})
	}
	ty := m.Type(nil, tI32)
	var fns []uint32
	for i := range p.Elems {
		fns = append(fns, m.AddFunc(nil, tI32, nil, (&wb.Asm{}).I32Const(int32(100+i)).B))
	}
	m.ExportFunc("load", m.AddFunc(tI32, tI32, nil, (&wb.Asm{}).LocalGet(0).Mem(0x2d, 0, 0).B))
	m.ExportFunc("tcall", m.AddFunc(tI32, tI32, nil, (&wb.Asm{}).LocalGet(0).CallIndirect(ty, 0).B))
	if p.Start {
		s := m.AddFunc(nil, nil, nil, (&wb.Asm{}).I32Const(9).I32Const(0xEE).Mem(0x3a, 0, 0).Op(0x00).B)
		m.Start = &s
	}
	for i, e := range p.Elems {
		items := make([]uint32, e.N)
		for k := range items {
			items[k] = fns[i]
		}
		m.Elems = append(m.Elems, wb.Elem{Offset: e.expr(false, p10TabSize), Funcs: items})
	}
	for j, d := range p.Datas {
		b := make([]byte, d.N)
		for k := range b {
			b[k] = byte(0xA1 + j)
		}
		m.Datas = append(m.Datas, wb.Data{Offset: d.expr(true, p.memBytes()), Bytes: b})
	}
	return m.Encode()
}

// ---- model

type p10Model struct {
	class string // expected instantiation outcome class
	step  string // the step that decides the outcome (named in signatures)
	mem   map[uint32]byte
	tab   [p10TabSize]int // 0 = null, else the id the function returns
}

func p10Expect(p p10Prog) *p10Model {
	mo := &p10Model{class: "ok", step: "all-in-bounds", mem: map[uint32]byte{}}
	M := p.memBytes()
	applyElem := func(i int, e p10Seg) {
		for k := 0; k < e.N; k++ {
			mo.tab[int(e.offset(p10TabSize))+k] = 100 + i
		}
	}
	applyData := func(j int, d p10Seg) {
		for k := 0; k < d.N; k++ {
			mo.mem[d.offset(M)+uint32(k)] = byte(0xA1 + j)
		}
	}
	if p10Atomic(p.Feat) {
		// WebAssembly 1.0: all bounds are checked before any write.
		for i, e := range p.Elems {
			if e.oob(p10TabSize) {
				mo.class, mo.step = "fail:oob-elem", fmt.Sprintf("elem#%d(%s)", i, e.Name)
				return mo
			}
		}
		for j, d := range p.Datas {
			if d.oob(M) {
				mo.class, mo.step = "fail:oob-data", fmt.Sprintf("data#%d(%s)", j, d.Name)
				return mo
			}
		}
	}
	for i, e := range p.Elems {
		if e.oob(p10TabSize) { // not generated for v2 (see p10Programs)
			mo.class, mo.step = "fail:oob-elem", fmt.Sprintf("elem#%d(%s)", i, e.Name)
			return mo
		}
		applyElem(i, e)
	}
	for j, d := range p.Datas {
		if d.oob(M) { // 2.0: the writes of the earlier segments persist
			mo.class, mo.step = "fail:oob-data", fmt.Sprintf("data#%d(%s)", j, d.Name)
			return mo
		}
		applyData(j, d)
	}
	if p.Start {
		mo.mem[9] = 0xEE
		mo.class, mo.step = "fail:start-trap", "start"
	}
	return mo
}

// ---- execution

type p10Viol struct {
	Sig    string  `json:"sig"`
	What   string  `json:"what"`
	Prog   p10Prog `json:"prog"`
	Engine string  `json:"engine"`
}

type p10Env struct {
	engine, feat string
	rt           wazero.Runtime
	owner        [2]wazero.CompiledModule // [0] offsets for one page, [1] for two pages (grown before the importer links)
}

func newP10Env(engine, feat string) *p10Env {
	var rc wazero.RuntimeConfig
	if engine == "compiler" {
		rc = wazero.NewRuntimeConfigCompiler()
	} else {
		rc = wazero.NewRuntimeConfigInterpreter()
	}
	e := &p10Env{engine: engine, feat: feat, rt: wazero.NewRuntimeWithConfig(bg, rc.WithCoreFeatures(p10Features(feat)))}
	for i := range e.owner {
		cm, err := e.rt.CompileModule(bg, buildP10Owner(uint32(i+1)*p10Page))
		if err != nil {
			panic("harness: part 10 owner does not compile with " + feat + ": " + err.Error())
		}
		e.owner[i] = cm
	}
	return e
}

func (e *p10Env) close() { e.rt.Close(bg) }

func p10Addrs(p p10Prog) []uint32 {
	a := []uint32{8, 9, p10Page - 1}
	if p.Grown {
		a = append(a, p10Page, 2*p10Page-1)
	}
	return a
}

func p10Call(mod api.Module, fn string, arg uint32) string {
	res, err := mod.ExportedFunction(fn).Call(bg, uint64(arg))
	if err != nil {
		return canonErr(err)
	}
	return fmt.Sprintf("ok:%d", uint32(res[0]))
}

// run executes one program; reads counts the comparisons made. trace may be nil.
func (e *p10Env) run(p p10Prog, trace func(string)) (outcome string, reads int64, vs []p10Viol) {
	mo := p10Expect(p)
	report := func(sig, what string) {
		vs = append(vs, p10Viol{Sig: sig, What: fmt.Sprintf("[%s %s] program %s: %s", e.engine, e.feat, p, what), Prog: p, Engine: e.engine})
	}
	oi := 0
	if p.Grown {
		oi = 1
	}
	owner, err := e.rt.InstantiateModule(bg, e.owner[oi], modCfg.WithName("O10"))
	if err != nil {
		report("p10:setup", "owner: "+err.Error())
		return "setup-failed", 0, vs
	}
	defer owner.Close(bg)
	if p.Grown {
		if r := p10Call(owner, "grow", 1); r != "ok:1" {
			report("p10:setup", "owner grow: "+r)
			return "setup-failed", 0, vs
		}
	}
	cm, err := e.rt.CompileModule(bg, buildP10Importer(p))
	if err != nil {
		report("p10:"+p.Feat+":importer-rejected-at-compile-time", err.Error())
		return "compile-failed", 0, vs
	}
	defer cm.Close(bg)
	k, ierr := e.rt.InstantiateModule(bg, cm, modCfg.WithName("K10"))
	class := canonInstErr(ierr)
	if trace != nil {
		trace(fmt.Sprintf("[%s] %s: instantiate = %s (%v), model %s decided by %s", e.engine, p, class, ierr, mo.class, mo.step))
	}
	if k != nil {
		defer k.Close(bg)
	}
	if class != mo.class {
		report(fmt.Sprintf("p10:%s:%s:result:%s/spec:%s", p.Feat, p10StepClass(mo.step), class, mo.class),
			fmt.Sprintf("instantiation gave %s (%v), the specification says %s (decided by %s)", class, ierr, mo.class, mo.step))
	}
	check := func(read, got, want string) {
		reads++
		if trace != nil {
			trace(fmt.Sprintf("    %s = %s (model %s)", read, got, want))
		}
		if got != want {
			report(fmt.Sprintf("p10:%s:%s:%s:obs:%s", p.Feat, mo.class, p10StepClass(mo.step), read),
				fmt.Sprintf("after the instantiation attempt (%s, decided by %s) read %s = %s, the model of the earlier instance's object says %s", class, mo.step, read, got, want))
		}
	}
	sides := []struct {
		n string
		m api.Module
	}{{"O", owner}}
	if k != nil && ierr == nil {
		sides = append(sides, struct {
			n string
			m api.Module
		}{"K", k})
	}
	for _, s := range sides {
		for _, a := range p10Addrs(p) {
			check(fmt.Sprintf("%s.load@%d", s.n, a), p10Call(s.m, "load", a), fmt.Sprintf("ok:%d", mo.mem[a]))
		}
		for i := 0; i < p10TabSize; i++ {
			want := "trap:table"
			if mo.tab[i] != 0 {
				want = fmt.Sprintf("ok:%d", mo.tab[i])
			}
			check(fmt.Sprintf("%s.tcall@%d", s.n, i), p10Call(s.m, "tcall", uint32(i)), want)
		}
		check(s.n+".tcall@end", p10Call(s.m, "tcall", p10TabSize), "trap:table")
	}
	hm := owner.ExportedMemory("mem")
	for _, a := range p10Addrs(p) {
		b, ok := hm.ReadByte(a)
		check(fmt.Sprintf("host.ReadByte@%d", a), fmt.Sprintf("%v:%d", ok, b), fmt.Sprintf("true:%d", mo.mem[a]))
	}
	check("host.mem.Size", fmt.Sprint(hm.Size()), fmt.Sprint(p.memBytes()))
	return class, reads, vs
}

// p10StepClass: the deciding step without its position in the list (elem#1(0@end+1) -> elem(0@end+1)), so that
// signatures name the failing segment shape and stay few.
func p10StepClass(step string) string {
	if i := strings.IndexByte(step, '#'); i >= 0 {
		if j := strings.IndexByte(step, '('); j > i {
			return step[:i] + step[j:]
		}
	}
	return step
}

// runP10Shard runs every program of the shard on one engine.
func runP10Shard(engine string, tier string, sh p10Shard) (outcomes map[string]int64, evals, reads int64, progs []uint64, vs []p10Viol, flaky []string) {
	outcomes = map[string]int64{}
	e := newP10Env(engine, sh.Feat)
	defer e.close()
	confirmed := map[string]bool{}
	for i, p := range p10Programs(tier, sh.Feat) {
		if i%sh.Of != sh.Shard {
			continue
		}
		oc, r, v := e.run(p, nil)
		evals++
		reads += r
		outcomes["p10:"+sh.Feat+":"+oc]++
		progs = append(progs, h64("p10|"+p.String()))
		for _, x := range v {
			if !confirmed[x.Sig] {
				fresh := newP10Env(engine, sh.Feat)
				_, _, again := fresh.run(p, nil)
				fresh.close()
				found := false
				for _, a := range again {
					if a.Sig == x.Sig {
						found = true
					}
				}
				if !found {
					flaky = append(flaky, fmt.Sprintf("part10 %s: %s not reproduced in a fresh runtime", x.Sig, x.What))
					continue
				}
				confirmed[x.Sig] = true
			}
			vs = append(vs, x)
		}
	}
	return
}
